(* Model of esr/fitting/test_all_Fisher.py : convert_params (lines 50-239).

   Carrier.  Finite numbers are exact rationals Q; a float as numpy sees it is
   [xq] = finite | +inf | -inf | NaN.  The code's snapping test is
       Nsteps = |theta| / sqrt(12 / I) < 1 .
   For I > 0 this is theta^2 * I < 12 (Proofs/FisherProofs.v: nsteps_lt1_equiv, over R),
   and the model decides it in that form on Q, so it is executable and exact.  The
   correspondence only feeds inputs for which the float evaluation is exact at the
   threshold (I = 12*4^j, theta = 2^-j) or far from it.

   [decide] = everything after a Hessian diagonal has been obtained (line 179 on).
   [convert] = the whole routine after nparam has been read off the string:
   first validity test, fallback sweep ([choose], selection by the mode of the
   rounded Delta), second validity test, snapping, code length, returned
   parameters.  numdifftools is not modelled: the matrices it returns are inputs
   (H0 = the first Hessian, cands = the 48 matrices of the sweep).

   The code length is returned as a structure [Codelen k [(I_i, theta_i) ...]]
   whose denotation over R (FisherProofs.denote) is
       -(k/2) ln 3 + sum (1/2 ln I_i + ln |theta_i|) .
   No proofs in this file. *)
From Coq Require Import QArith Qround ZArith List Bool.
Import ListNotations.

(* ------------------------------------------------------------------ numbers *)
Inductive xq := Fin (q : Q) | PInf | NInf | NaN.

Definition isfin (a : xq) : bool := match a with Fin _ => true | _ => false end.   (* np.isfinite *)
Definition isnan (a : xq) : bool := match a with NaN => true | _ => false end.
Definition isinf (a : xq) : bool := match a with PInf | NInf => true | _ => false end.
Definition Qlt_b (a b : Q) : bool := negb (Qle_bool b a).
(* a <= 0.   (False for NaN) *)
Definition le0 (a : xq) : bool := match a with Fin q => Qle_bool q 0 | NInf => true | _ => false end.
(* a > 0     (False for NaN) *)
Definition gt0 (a : xq) : bool := match a with Fin q => Qlt_b 0 q | PInf => true | _ => false end.

(* line 121 : (sum(F <= 0) > 0) or (sum(isnan F) > 0) or (sum(isinf F) > 0) *)
Definition bad_first (I : list xq) : bool := existsb le0 I || existsb isnan I || existsb isinf I.
(* line 180 : (sum(F <= 0) > 0) or (sum(isnan F) > 0) *)
Definition bad_second (I : list xq) : bool := existsb le0 I || existsb isnan I.

(* Nsteps < 1 and Nsteps >= 1 with Nsteps = |t| / sqrt(12/I), for the values of I that
   get past [bad_second]: a positive finite I, or +inf (Delta = 0, Nsteps = inf, or NaN
   when t = 0).  Other values of I never reach these tests; they are given [false]. *)
Definition lt1 (t : Q) (a : xq) : bool :=
  match a with Fin q => Qlt_b 0 q && Qlt_b (t * t * q) 12 | _ => false end.
Definition ge1 (t : Q) (a : xq) : bool :=
  match a with
  | Fin q => Qlt_b 0 q && Qle_bool 12 (t * t * q)
  | PInf => negb (Qeq_bool t 0)
  | _ => false
  end.

(* ------------------------------------------------------------------ list idioms *)
Definition map2 {A B C} (f : A -> B -> C) (l1 : list A) (l2 : list B) : list C :=
  map (fun p => f (fst p) (snd p)) (combine l1 l2).
Definition enum {A} (l : list A) : list (nat * A) := combine (seq 0 (length l)) l.
Definition memn (i : nat) (l : list nat) : bool := existsb (Nat.eqb i) l.
(* th = copy(orig); for i in idx: th[i] = 0. *)
Definition zero_at (idx : list nat) (th : list Q) : list Q :=
  map (fun p : nat * Q => if memn (fst p) idx then 0%Q else snd p) (enum th).
(* th[m] = 0.  for a boolean mask m *)
Definition zero_mask (m : list bool) (th : list Q) : list Q :=
  map (fun p : bool * Q => if fst p then 0%Q else snd p) (combine m th).
(* mask[idx] = 0 *)
Definition clear_at (idx : list nat) (m : list bool) : list bool :=
  map (fun p : nat * bool => if memn (fst p) idx then false else snd p) (enum m).
(* np.arange(n)[m] *)
Definition idx_of (m : list bool) : list nat := map fst (filter snd (enum m)).
(* a[m] *)
Definition select {A} (m : list bool) (l : list A) : list A := map snd (filter fst (combine m l)).
Definition count (m : list bool) : nat := length (filter (fun b : bool => b) m).
(* np.pad(th, (0, maxp - len(th))) *)
Definition pad (maxp : nat) (th : list Q) : list Q := th ++ repeat 0%Q (maxp - length th).

(* itertools.combinations(l, r), in itertools' (lexicographic by position) order *)
Fixpoint combs {A} (l : list A) (r : nat) {struct l} : list (list A) :=
  match l with
  | [] => match r with O => [[]] | S _ => [] end
  | x :: t => match r with
              | O => [[]]
              | S r' => map (cons x) (combs t r') ++ combs t r
              end
  end.

(* ------------------------------------------------------------------ results *)
Inductive clen := CNaN | Codelen (k : Z) (terms : list (xq * Q)).

Record result := mkRes {
  r_params : list Q;      (* returned params, length max_param *)
  r_nll : xq;             (* returned negloglike *)
  r_kept : list bool;     (* kept_mask (ghost: not returned by the code; [] when no mask exists) *)
  r_len : clen }.

Inductive outcome :=
| Ret (r : result)
| Quit                    (* line 220-222: k < 0, quit() *)
| PyError.                (* NameError on `idx` (line 213) / IndexError on np.where(...)[0][0] *)

Definition nan_result (maxp : nat) (nll : xq) : outcome :=
  Ret (mkRes (repeat 0%Q maxp) nll [] CNaN).

(* ------------------------------------------------------------------ subset search, lines 202-210 *)
Record sstate := mkSS { s_th : list Q; s_nll : xq; s_idx : option (list nat) }.

(* for idx in combinations(try_idx, r): th = copy(orig) with idx zeroed; nll = fop(th);
   if isfinite(nll): break *)
Fixpoint inner (fop : list Q -> xq) (orig : list Q) (cs : list (list nat)) (st : sstate) : sstate :=
  match cs with
  | [] => st
  | idx :: rest =>
      let th := zero_at idx orig in
      let v := fop th in
      let st' := mkSS th v (Some idx) in
      if isfin v then st' else inner fop orig rest st'
  end.

(* for r in reversed(range(1, len(try_idx))): <inner loop>; if isfinite(nll): break *)
Fixpoint outer (fop : list Q -> xq) (orig : list Q) (try_idx : list nat) (rs : list nat) (st : sstate) : sstate :=
  match rs with
  | [] => st
  | r :: rest =>
      let st' := inner fop orig (combs try_idx r) st in
      if isfin (s_nll st') then st' else outer fop orig try_idx rest st'
  end.
Definition search (fop : list Q -> xq) (orig : list Q) (try_idx : list nat) (st : sstate) : sstate :=
  outer fop orig try_idx (rev (seq 1 (length try_idx - 1))) st.

(* lines 220-239 : k<0 / k==0 / formula, masks, padding.
   orig = theta_ML_orig, cur = theta_ML as left by the snapping code. *)
Definition finish (maxp : nat) (orig cur : list Q) (I : list xq) (nll : xq) (k : Z) (kept : list bool) : outcome :=
  if (k <? 0)%Z then Quit
  else if (k =? 0)%Z then Ret (mkRes (repeat 0%Q maxp) nll kept (Codelen 0 []))
  else Ret (mkRes (pad maxp (zero_mask (map negb kept) orig)) nll kept
                  (Codelen k (combine (select kept I) (select kept cur)))).

(* lines 179-239 *)
Definition decide (maxp : nat) (th : list Q) (I : list xq) (nll : xq) (fop : list Q -> xq) : outcome :=
  if bad_second I then nan_result maxp nll else
  let n := length th in
  let m := map2 lt1 th I in                                  (* Nsteps < 1 *)
  if negb (existsb (fun b : bool => b) m) then               (* line 229: nothing to snap *)
    Ret (mkRes (pad maxp th) nll (repeat true n) (Codelen (Z.of_nat n) (combine I th)))
  else
    let th0 := zero_mask m th in                             (* line 193 *)
    let nll0 := fop th0 in                                   (* line 194 *)
    if isfin nll0 then
      finish maxp th th0 I nll0 (Z.of_nat n - Z.of_nat (count m)) (map2 ge1 th I)
    else
      let st := search fop th (idx_of m) (mkSS th0 nll0 None) in
      if isfin (s_nll st) then
        match s_idx st with
        | None => PyError
        | Some idx => finish maxp th (s_th st) I (s_nll st)
                             (Z.of_nat n - Z.of_nat (length idx)) (clear_at idx (repeat true n))
        end
      else finish maxp th th I nll (Z.of_nat n) (repeat true n).   (* lines 216-218: restore *)

(* ------------------------------------------------------------------ fallback sweep, lines 121-177 *)
Definition mat := list (list xq).
Definition diag (n : nat) (M : mat) : list xq := map (fun i => nth i (nth i M []) NaN) (seq 0 n).
(* rows i: M[i, i:]  -- what is written into `deriv` *)
Definition upper (n : nat) (M : mat) : list (list xq) :=
  map (fun i => firstn (n - i) (skipn i (nth i M []))) (seq 0 n).

(* line 136: no NaN, no inf anywhere in the matrix, all diagonal entries > 0 *)
Definition mat_ok (n : nat) (M : mat) : bool :=
  forallb (forallb isfin) M && forallb gt0 (diag n M).

(* float(format(sqrt(12/q), ".<d>e")) for q > 0: sqrt(12/q) rounded to d+1 significant decimal
   digits (ties to even), as an exact rational. *)
Definition pow10 (z : Z) : Q :=
  if (0 <=? z)%Z then inject_Z (10 ^ z) else Qmake 1 (Z.to_pos (10 ^ (- z))).
Definition log10_est (v : Q) : Z :=
  ((Z.log2 (Qnum v) - Z.log2 (Zpos (Qden v))) * 30103 / 100000)%Z.
Fixpoint adj_dn (fuel : nat) (v : Q) (L : Z) : Z :=
  match fuel with
  | O => L
  | S f => if Qle_bool (pow10 L) v then L else adj_dn f v (L - 1)
  end.
Fixpoint adj_up (fuel : nat) (v : Q) (L : Z) : Z :=
  match fuel with
  | O => L
  | S f => if Qle_bool (pow10 (L + 1)) v then adj_up f v (L + 1) else L
  end.
(* L with 10^L <= v < 10^(L+1) *)
Definition floor_log10 (v : Q) : Z := adj_up 8 v (adj_dn 8 v (log10_est v + 2)).
Definition rkey (d : Z) (q : Q) : Q :=
  let v := Qred (12 / q) in
  let e := (floor_log10 v / 2)%Z in              (* 10^e <= sqrt v < 10^(e+1) *)
  let s := (d - e)%Z in
  let X := Qred (v * pow10 (2 * s)) in           (* (sqrt v * 10^s)^2 *)
  let n := Z.sqrt (Qfloor X) in
  let m := match Qcompare (4 * X) (inject_Z ((2 * n + 1) * (2 * n + 1))) with
           | Lt => n
           | Gt => (n + 1)%Z
           | Eq => if Z.even n then n else (n + 1)%Z
           end in
  Qred (inject_Z m * pow10 (- s)).
Definition key (d : Z) (a : xq) : Q := match a with Fin q => rkey d q | _ => 0 end.

(* len(col) != len(set(col)) *)
Fixpoint has_dup (l : list Q) : bool :=
  match l with [] => false | x :: r => existsb (Qeq_bool x) r || has_dup r end.
(* scipy.stats.mode of a column: the smallest of the most frequent values *)
Definition cnt (x : Q) (l : list Q) : nat := length (filter (Qeq_bool x) l).
Definition better (l : list Q) (x y : Q) : bool :=
  (cnt y l <? cnt x l)%nat || ((cnt x l =? cnt y l)%nat && Qlt_b x y).
Definition mode (l : list Q) : option Q :=
  fold_left (fun b x => match b with
                        | None => Some x
                        | Some y => if better l x y then Some x else b
                        end) l None.
Fixpoint find_idx {A} (p : A -> bool) (l : list A) (i : nat) : option nat :=
  match l with [] => None | x :: r => if p x then Some i else find_idx p r (S i) end.

Inductive pick := NoRepeat | Picked (M : mat) | PickErr.

(* one pass with a given precision: Delta rounded, repetition test on column 0 only,
   mode of column 0 (scipy >= 1.11: mode(a)[0][0] is a scalar), first ROW in which ANY
   column equals that value (np.where(a == mode)[0][0]). *)
Definition choose_at (d : Z) (n : nat) (F : list mat) : pick :=
  let keys := map (fun M => map (key d) (diag n M)) F in
  let col0 := map (fun r => hd 0%Q r) keys in
  if has_dup col0 then
    match mode col0 with
    | None => PickErr
    | Some m0 =>
        match find_idx (existsb (Qeq_bool m0)) keys 0 with
        | None => PickErr
        | Some i => match nth_error F i with Some M => Picked M | None => PickErr end
        end
    end
  else NoRepeat.

Definition choose (n : nat) (cands : list mat) : pick :=
  let F := filter (mat_ok n) cands in
  match choose_at 3 n F with
  | NoRepeat => choose_at 1 n F
  | r => r
  end.

(* ------------------------------------------------------------------ the routine *)
(* returns the outcome and the matrix whose upper triangle is left in `deriv` *)
Definition convert (maxp : nat) (th : list Q) (H0 : mat) (cands : list mat) (nll : xq)
                   (fop : list Q -> xq) : outcome * mat :=
  let n := length th in
  match n with
  | O => (Ret (mkRes (repeat 0%Q maxp) nll [] (Codelen 0 [])), [])     (* line 87-89 *)
  | S _ =>
    let I0 := diag n H0 in
    if bad_first I0 then
      match choose n cands with
      | NoRepeat => (nan_result maxp nll, H0)                          (* line 166-168 *)
      | PickErr => (PyError, H0)
      | Picked M => (decide maxp th (diag n M) nll fop, M)
      end
    else (decide maxp th I0 nll fop, H0)
  end.

(* ------------------------------------------------------------------ helpers for cases.v *)
Definition xq_eqb (a b : xq) : bool :=
  match a, b with
  | Fin x, Fin y => Qeq_bool x y
  | PInf, PInf | NInf, NInf | NaN, NaN => true
  | _, _ => false
  end.
(* table-driven likelihood: keyed on WHICH entries of the argument are zero *)
Fixpoint lb_eqb (a b : list bool) : bool :=
  match a, b with
  | [], [] => true
  | x :: r, y :: s => Bool.eqb x y && lb_eqb r s
  | _, _ => false
  end.
Definition tbl_fop (tbl : list (list bool * xq)) (dflt : xq) (th : list Q) : xq :=
  let k := map (fun t => Qeq_bool t 0) th in
  match find (fun e => lb_eqb (fst e) k) tbl with Some e => snd e | None => dflt end.

(* encodings printed by cases.v and parsed by the harness *)
Definition enc_x (a : xq) : list Z :=
  match a with
  | Fin q => [1; Qnum q; Zpos (Qden q)]
  | PInf => [2; 0; 1]
  | NInf => [3; 0; 1]
  | NaN => [4; 0; 1]
  end%Z.
Definition enc_len (c : clen) : list Z :=
  match c with
  | CNaN => [0%Z]
  | Codelen k ts => 1%Z :: k :: flat_map (fun p => enc_x (fst p) ++ [Qnum (snd p); Zpos (Qden (snd p))]) ts
  end.
Definition enc_out (o : outcome) : list Z :=
  match o with Ret r => enc_len (r_len r) | Quit => [(-1)%Z] | PyError => [(-2)%Z] end.

(* one correspondence case *)
Record ccase := mkCase {
  c_maxp : nat; c_th : list Q; c_H0 : mat; c_mats : list mat; c_seq : list nat;
  c_nll : xq; c_tbl : list (list bool * xq); c_dflt : xq;
  e_params : list Q; e_nll : xq; e_upper : list (list xq) }.
Definition run_case (c : ccase) : outcome * mat :=
  convert (c_maxp c) (c_th c) (c_H0 c) (map (fun i => nth i (c_mats c) []) (c_seq c)) (c_nll c)
          (tbl_fop (c_tbl c) (c_dflt c)).
Fixpoint leqb {A} (e : A -> A -> bool) (l1 l2 : list A) : bool :=
  match l1, l2 with
  | [], [] => true
  | x :: r, y :: s => e x y && leqb e r s
  | _, _ => false
  end.
Definition check_case (c : ccase) : bool :=
  match run_case c with
  | (Ret r, M) => leqb Qeq_bool (r_params r) (e_params c) && xq_eqb (r_nll r) (e_nll c)
                  && leqb (leqb xq_eqb) (upper (length (c_th c)) M) (e_upper c)
  | _ => false
  end.
Fixpoint failing_from {A} (chk : A -> bool) (i : nat) (l : list A) : list nat :=
  match l with
  | [] => []
  | x :: r => if chk x then failing_from chk (S i) r else i :: failing_from chk (S i) r
  end.
