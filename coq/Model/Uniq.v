(* esr/generation/utils.py: get_unique_indexes, get_match_indexes, and the seeded
   shuffle + inverse-permutation remap of duplicate_checker.main, as executable
   Gallina.  Python dicts / OrderedDicts are insertion-ordered association lists
   with Python's update semantics (a key that is set again keeps its position).
   No proofs here (Proofs/UniqProofs.v). *)
From Coq Require Import List Bool Arith.
Import ListNotations.

Section Dict.
  Variable K : Type.
  Variable keqb : K -> K -> bool.

  (* d[k] ; None = KeyError *)
  Fixpoint dget {B} (k : K) (d : list (K * B)) : option B :=
    match d with
    | [] => None
    | (k', v) :: r => if keqb k k' then Some v else dget k r
    end.
  (* k in d *)
  Definition dmem {B} (k : K) (d : list (K * B)) : bool :=
    match dget k d with Some _ => true | None => false end.
  (* d[k] = v *)
  Fixpoint dset {B} (k : K) (v : B) (d : list (K * B)) : list (K * B) :=
    match d with
    | [] => [(k, v)]
    | (k', v') :: r => if keqb k k' then (k', v) :: r else (k', v') :: dset k v r
    end.
  (* x in l for a list / set l *)
  Definition lmem (k : K) (l : list K) : bool := existsb (keqb k) l.
End Dict.
Arguments dget {K} keqb {B} k d.
Arguments dmem {K} keqb {B} k d.
Arguments dset {K} keqb {B} k v d.
Arguments lmem {K} keqb k l.

(* enumerate(l) / zip(range(len(l)), l) *)
Definition enumerate {B} (l : list B) : list (nat * B) := combine (seq 0 (length l)) l.

(* [f(x) for x in l] where f may raise: None as soon as one element raises *)
Fixpoint traverse {X Y} (f : X -> option Y) (l : list X) : option (list Y) :=
  match l with
  | [] => Some []
  | x :: r => match f x with
              | None => None
              | Some y => match traverse f r with None => None | Some ys => Some (y :: ys) end
              end
  end.

Section Uniq.
  Variable A : Type.
  Variable eqb : A -> A -> bool.

  (* result = OrderedDict()
     for i in range(len(L)):
         val = L[i]
         if val not in result: result[val] = i *)
  Definition gui_step (d : list (A * nat)) (iv : nat * A) : list (A * nat) :=
    if dmem eqb (snd iv) d then d else dset eqb (snd iv) (fst iv) d.
  Definition gui_result (L : list A) : list (A * nat) := fold_left gui_step (enumerate L) [].
  Definition uniq_keys (L : list A) : list A := map fst (gui_result L).     (* list(uniq.keys()) *)
  Definition uniq_vals (L : list A) : list nat := map snd (gui_result L).   (* uniq.values() *)
  (* match = {v:i for i, v in enumerate(result.keys())} *)
  Definition gui_match (L : list A) : list (A * nat) :=
    fold_left (fun d iv => dset eqb (snd iv) (fst iv) d) (enumerate (uniq_keys L)) [].
  Definition get_unique_indexes (L : list A) := (gui_result L, gui_match L).

  (* bb = set(b); result = OrderedDict()
     for i in range(len(a)):
         val = a[i]
         if (val in bb) and (val not in result): result[val] = i
     result = [result[f] for f in b]                      (KeyError -> None) *)
  Definition gmi_step (b : list A) (d : list (A * nat)) (iv : nat * A) : list (A * nat) :=
    if lmem eqb (snd iv) b && negb (dmem eqb (snd iv) d) then dset eqb (snd iv) (fst iv) d else d.
  Definition gmi_result (a b : list A) : list (A * nat) := fold_left (gmi_step b) (enumerate a) [].
  Definition get_match_indexes (a b : list A) : option (list nat) :=
    traverse (fun f => dget eqb f (gmi_result a b)) b.

  (* duplicate_checker.main, after do_sympy (i = the array after np.random.shuffle, an input here):
       uniq, match = get_unique_indexes(all_fun); uniq_fun = list(uniq.keys())
       inv = {i[j]:j for j in range(len(i))}
       uniq_fun = [uniq_fun[ii] for ii in i]             (IndexError -> None)
       match_idx = [inv[match[f]] for f in all_fun]      (KeyError -> None) *)
  Definition shuffle_inv (i : list nat) : list (nat * nat) :=
    fold_left (fun d jv => dset Nat.eqb (snd jv) (fst jv) d) (enumerate i) [].
  Definition shuffle_uniq (uniq_fun : list A) (i : list nat) : option (list A) :=
    traverse (fun ii => nth_error uniq_fun ii) i.
  Definition shuffle_match (mt : list (A * nat)) (i : list nat) (all_fun : list A) : option (list nat) :=
    let inv := shuffle_inv i in
    traverse (fun f => match dget eqb f mt with
                       | None => None
                       | Some m => dget Nat.eqb m inv
                       end) all_fun.

  (* spec-side functions used to state the theorems *)
  (* first-occurrence de-duplication *)
  Fixpoint dedup (L : list A) : list A :=
    match L with
    | [] => []
    | x :: r => x :: filter (fun y => negb (eqb x y)) (dedup r)
    end.
  (* index of the first occurrence (length L when absent) *)
  Fixpoint first_index (k : A) (L : list A) : nat :=
    match L with
    | [] => 0
    | x :: r => if eqb k x then 0 else S (first_index k r)
    end.
End Uniq.
Arguments gui_step {A} eqb d iv.
Arguments gui_result {A} eqb L.
Arguments uniq_keys {A} eqb L.
Arguments uniq_vals {A} eqb L.
Arguments gui_match {A} eqb L.
Arguments get_unique_indexes {A} eqb L.
Arguments gmi_step {A} eqb b d iv.
Arguments gmi_result {A} eqb a b.
Arguments get_match_indexes {A} eqb a b.
Arguments shuffle_uniq {A} uniq_fun i.
Arguments shuffle_match {A} eqb mt i all_fun.
Arguments dedup {A} eqb L.
Arguments first_index {A} eqb k L.
