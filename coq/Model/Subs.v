(* C05 -- model of esr/generation/simplifier.py : convert_params (lines 1175-1225) for the
   executable family of parameter maps.

   Carrier.  Finite numbers are exact rationals Q; a float as numpy sees it is
   [xq] = finite | +inf | -inf | NaN (rounding is not modelled).

   Substitutions.  The generator records, per function, a chain of dictionaries
   {a_i: expr}.  The executable family here is the *monomial maps*
        a_i  |->  c * a_j      or      a_i  |->  c / a_j          (c in Q)
   which covers identity, sign flip {a0: -a0}, reciprocal {a0: 1/a0}, swap / rename
   {a0: a1, a1: a0}, scalings {a0: a0/N}, {a0: N*a0}, {a0: -N*a0}, {a0: N/a0}, {a0: -a0/N}, and is
   closed under composition.  Roots, exp, log_abs, squares are outside this family: they
   are exercised numerically by the harness (search), not by this model.

   convert_params, line by line:
     fish = zeros((n,n)); fish[triu_indices(n)] = fish_meas          [raw]
     fish = np.where(fish, fish, fish.T)                              [fmat]
     fish = fish[:max_param,:max_param]                               (indices < k only)
     p = Array(a_0..a_{k-1}); for s in inv_subs: p = p.subs(s, simultaneous=True)   [compose_chain]
     jac = Matrix(p).jacobian(all_a)                                  [jmat]
     p_new = p_lam(p_meas[0], ...)                                    [eval_vec]
     jinv = np.linalg.inv(j)                                          [jinv]; singular -> LinAlgError
     fish_new = np.dot(jinv.T, np.dot(fish, jinv)); diag              [fnew]
   sympy's subs/jacobian/lambdify and LAPACK's inverse are oracles: the model uses the
   symbolic composite, the analytic derivative and the analytic inverse (proved to be the
   two-sided inverse in Proofs/SubsProofs.v); the harness compares with the real code.
   No proofs in this file. *)
From Coq Require Import QArith ZArith List Bool Arith.
Import ListNotations.

(* ------------------------------------------------------------------ numbers *)
Inductive xq := Fin (q : Q) | PInf | NInf | NaN.

Definition isfin (a : xq) : bool := match a with Fin _ => true | _ => false end.   (* np.isfinite *)
Definition isnan (a : xq) : bool := match a with NaN => true | _ => false end.
Definition isinf (a : xq) : bool := match a with PInf | NInf => true | _ => false end.
Definition Qlt_b (a b : Q) : bool := negb (Qle_bool b a).

(* sign of a finite value *)
Definition qsgn (q : Q) : comparison := if Qlt_b q 0 then Lt else if Qeq_bool q 0 then Eq else Gt.
Definition inf_times (pos : bool) (s : comparison) : xq :=
  match s with Eq => NaN | Gt => if pos then PInf else NInf | Lt => if pos then NInf else PInf end.

(* IEEE special-value rules, no rounding *)
Definition xadd (a b : xq) : xq :=
  match a, b with
  | NaN, _ | _, NaN => NaN
  | Fin x, Fin y => Fin (x + y)
  | PInf, NInf | NInf, PInf => NaN
  | PInf, _ | _, PInf => PInf
  | NInf, _ | _, NInf => NInf
  end.
Definition xmul (a b : xq) : xq :=
  match a, b with
  | NaN, _ | _, NaN => NaN
  | Fin x, Fin y => Fin (x * y)
  | PInf, PInf | NInf, NInf => PInf
  | PInf, NInf | NInf, PInf => NInf
  | PInf, Fin y => inf_times true (qsgn y)
  | NInf, Fin y => inf_times false (qsgn y)
  | Fin x, PInf => inf_times true (qsgn x)
  | Fin x, NInf => inf_times false (qsgn x)
  end.
Definition xsum (l : list xq) : xq := fold_right xadd (Fin 0) l.

Definition xq_eqb (a b : xq) : bool :=
  match a, b with
  | Fin x, Fin y => Qeq_bool x y
  | PInf, PInf | NInf, NInf | NaN, NaN => true
  | _, _ => false
  end.

(* ------------------------------------------------------------------ monomial maps *)
(* c * a_j  (m_inv = false)   or   c / a_j  (m_inv = true) *)
Record mono := mkM { m_c : Q; m_j : nat; m_inv : bool }.

(* a dictionary {a_i: mono}; keys are parameter indices (distinct, as in a Python dict) *)
Definition subst := list (nat * mono).

Definition idm (j : nat) : mono := mkM 1 j false.

Fixpoint lookup (s : subst) (j : nat) : mono :=
  match s with
  | [] => idm j
  | (i, m) :: r => if Nat.eqb i j then m else lookup r j
  end.

(* m with a_j replaced by s[a_j] (sympy evaluates the product/quotient to a monomial again) *)
Definition subst_mono (s : subst) (m : mono) : mono :=
  let t := lookup s (m_j m) in
  if m_inv m then mkM (m_c m / m_c t) (m_j t) (negb (m_inv t))
  else mkM (m_c m * m_c t) (m_j t) (m_inv t).

(* p.subs(s, simultaneous=True) on the vector *)
Definition apply_subst (s : subst) (p : list mono) : list mono := map (subst_mono s) p.
Definition ident (n : nat) : list mono := map idm (seq 0 n).
(* p = Array(a_0..a_{n-1}); for s in chain: p = p.subs(s, simultaneous=True) *)
Definition compose_chain (n : nat) (chain : list subst) : list mono :=
  fold_left (fun p s => apply_subst s p) chain (ident n).

(* ------------------------------------------------------------------ values *)
Definition pw (inv : bool) (t : Q) : Q := if inv then / t else t.
(* environments: parameter index -> value *)
Definition env := nat -> Q.
Definition eval_mono (rho : env) (m : mono) : Q := m_c m * pw (m_inv m) (rho (m_j m)).
Definition env_of (th : list Q) : env := fun j => nth j th 0.
Definition eval_vec (th : list Q) (p : list mono) : list Q := map (eval_mono (env_of th)) p.

(* d p_i / d a_{m_j}:  c   or   -c / a_j^2 *)
Definition deriv_mono (rho : env) (m : mono) : Q :=
  if m_inv m then - m_c m / (rho (m_j m) * rho (m_j m)) else m_c m.

(* the map needs a_j <> 0 wherever it divides by a_j *)
Definition regular (th : list Q) (p : list mono) : bool :=
  forallb (fun m => negb (m_inv m && Qeq_bool (nth (m_j m) th 0) 0)) p.
(* every component refers to one of a_0..a_{n-1} (otherwise the lambdified vector raises NameError) *)
Definition in_range (n : nat) (p : list mono) : bool := forallb (fun m => m_j m <? n) p.
Definition coeffs_nonzero (p : list mono) : bool := forallb (fun m => negb (Qeq_bool (m_c m) 0)) p.
Fixpoint nodupb (l : list nat) : bool :=
  match l with [] => true | x :: r => negb (existsb (Nat.eqb x) r) && nodupb r end.
(* generalised permutation: every source parameter used exactly once, non-zero coefficients *)
Definition gperm (n : nat) (p : list mono) : bool :=
  in_range n p && coeffs_nonzero p && nodupb (map m_j p).

(* ------------------------------------------------------------------ the Fisher matrix *)
(* position of (i,j), i <= j, in the flattened upper triangle of an n x n matrix *)
Definition tri (n i j : nat) : nat := i * n - i * (i - 1) / 2 + (j - i).
(* fish = zeros; fish[triu_indices(n)] = flat *)
Definition raw (n : nat) (flat : list xq) (i j : nat) : xq :=
  if i <=? j then nth (tri n i j) flat NaN else Fin 0.
(* truth value of a float in np.where: non-zero (NaN and inf are true) *)
Definition truthy (a : xq) : bool := match a with Fin q => negb (Qeq_bool q 0) | _ => true end.
(* np.where(fish, fish, fish.T) *)
Definition fmat (n : nat) (flat : list xq) (i j : nat) : xq :=
  if truthy (raw n flat i j) then raw n flat i j else raw n flat j i.

(* Jacobian and its inverse, entry (row, column) *)
Definition jmat (rho : env) (p : list mono) (i k : nat) : Q :=
  let m := nth i p (idm i) in if Nat.eqb k (m_j m) then deriv_mono rho m else 0.
Definition jinv (rho : env) (p : list mono) (k i : nat) : Q :=
  let m := nth i p (idm i) in if Nat.eqb k (m_j m) then / deriv_mono rho m else 0.

(* diag( jinv.T @ (fish @ jinv) )_i  over the k x k cut, in float special-value arithmetic *)
Definition fnew (n k : nat) (flat : list xq) (rho : env) (p : list mono) (i : nat) : xq :=
  xsum (map (fun a => xmul (Fin (jinv rho p a i))
                           (xsum (map (fun b => xmul (fmat n flat a b) (Fin (jinv rho p b i))) (seq 0 k))))
            (seq 0 k)).

(* ------------------------------------------------------------------ convert_params *)
Inductive conv :=
| ConvRaise                                   (* an exception leaves convert_params *)
| ConvIrregular                               (* a reciprocal evaluated at 0: inf/NaN enter LAPACK, not modelled further *)
| ConvOK (p : list Q) (fish : list xq).

(* k = len(p_meas) = number of parameters of the variant; n = max_param of the files *)
Definition convert (k n : nat) (th : list Q) (flat : list xq) (chain : list subst) : conv :=
  let pv := compose_chain k chain in
  if negb (in_range k pv) then ConvRaise                      (* NameError: a_j with j >= k in the lambdified vector *)
  else if negb (coeffs_nonzero pv) then ConvRaise             (* zero row in the Jacobian: LinAlgError *)
  else if negb (regular th pv) then ConvIrregular
  else if negb (nodupb (map m_j pv)) then ConvRaise           (* two rows on the same column: singular, LinAlgError *)
  else ConvOK (eval_vec th pv) (map (fnew n k flat (env_of th) pv) (seq 0 k)).
