(* C08 -- tree code length  k ln n + sum ln|c|  (esr/generation/generator.py::aifeyn_complexity).

   Part 1: the Python / numpy idioms used by the translated code (Gen/GenAifeyn.v),
           as total Gallina functions over Coq [string]s.
           Convention: a Coq [string] is a sequence of code points < 256 (Latin-1);
           the Python label with characters chr(c1) chr(c2) ... is the Coq string
           with [ascii_of_nat c1], ...  Labels containing code points >= 256 are
           outside the model.
   Part 2: the specification of the structure (k, n, [c_j]) and of the real value.
   Part 3: a list-level model of the write loop of generate_equations, driven by
           the write plan that the translator extracts from the source.
   No proofs here: this file must keep evaluating when a proof elsewhere breaks. *)
From Coq Require Export String Ascii ZArith List Bool.
From Coq Require Import DecimalString Reals.
From ESRV Require Export Common.Py.
Export ListNotations.
Open Scope Z_scope.

(* ------------------------------------------------------------------ Part 1 *)

Definition code (c : ascii) : nat := nat_of_ascii c.

(* '0'..'9' *)
Definition is_ascii_digit (c : ascii) : bool := (Nat.leb 48 (code c)) && (Nat.leb (code c) 57).
(* characters c < 256 with chr(c).isdigit() in CPython: '0'..'9' and the
   superscripts U+00B2, U+00B3, U+00B9 (which int() rejects) *)
Definition is_py_digit (c : ascii) : bool :=
  is_ascii_digit c || Nat.eqb (code c) 178 || Nat.eqb (code c) 179 || Nat.eqb (code c) 185.

Fixpoint str_all (p : ascii -> bool) (s : string) : bool :=
  match s with EmptyString => true | String c r => p c && str_all p r end.
Fixpoint str_mem (c : ascii) (s : string) : bool :=
  match s with EmptyString => false | String d r => Ascii.eqb c d || str_mem c r end.

(* s.isdigit(): non-empty and every character is a digit character *)
Definition py_isdigit (s : string) : bool :=
  match s with EmptyString => false | _ => str_all is_py_digit s end.

(* s.lstrip(chars): drop leading characters that occur in [chars] *)
Fixpoint py_lstrip (chars s : string) : string :=
  match s with
  | EmptyString => EmptyString
  | String c r => if str_mem c chars then py_lstrip chars r else s
  end.

(* decimal value of a string of ASCII digits; None if another character occurs *)
Fixpoint digits_val (acc : Z) (s : string) : option Z :=
  match s with
  | EmptyString => Some acc
  | String c r => if is_ascii_digit c then digits_val (10 * acc + (Z.of_nat (code c) - 48)) r else None
  end.

(* int(s) for a string s with s.lstrip("-").isdigit() (the translator only
   accepts int(tt) under that guard): an optional single '-' and ASCII digits;
   None = ValueError ("--5", superscript digits) *)
Definition py_int (s : string) : option Z :=
  match s with
  | EmptyString => None
  | String c r =>
      if Ascii.eqb c "-"%char
      then match r with EmptyString => None | _ => option_map Z.opp (digits_val 0 r) end
      else digits_val 0 s
  end.

(* x in l  for a list of str *)
Definition py_in (x : string) (l : list string) : bool := existsb (String.eqb x) l.

(* set(l), as a duplicate-free list (only its length is ever used) *)
Fixpoint py_set (l : list string) : list string :=
  match l with
  | [] => []
  | x :: r => if py_in x r then py_set r else x :: py_set r
  end.

Definition b2z (b : bool) : Z := if b then 1 else 0.

(* [f(x) for x in l] where f may raise *)
Fixpoint py_map_opt {A B} (f : A -> option B) (l : list A) : option (list B) :=
  match l with
  | [] => Some []
  | x :: r => y <- f x ;; ys <- py_map_opt f r ;; Some (y :: ys)
  end.

(* np.array(list of Python ints): an int64 array when every entry fits.  The
   model stops (None) when an entry v has |v| >= 2^63: numpy then leaves int64
   (uint64 / float64 / object arrays, and abs(-2^63) overflows) -- not modelled. *)
Definition int64_strict (z : Z) : bool := (-9223372036854775808 <? z) && (z <? 9223372036854775808).
Definition np_int_array (l : list Z) : option (list Z) := if forallb int64_strict l then Some l else None.
(* a[a == c] = v *)
Definition np_set_where_eq (a : list Z) (c v : Z) : list Z := map (fun x => if x =? c then v else x) a.
Definition np_abs (a : list Z) : list Z := map Z.abs a.

(* s in f  for strings: s occurs as a contiguous substring of f *)
Fixpoint py_str_contains (s f : string) : bool :=
  prefix s f || match f with EmptyString => false | String _ r => py_str_contains s r end.

(* '%i' % z *)
Definition py_fmt_i (z : Z) : string := NilZero.string_of_int (Z.to_int z).
(* 'PRE%iPOST' % z *)
Definition py_fmt_pct_i (pre post : string) (z : Z) : string := (pre ++ py_fmt_i z ++ post)%string.

Fixpoint max_strlen (l : list string) : nat :=
  match l with [] => O | s :: r => Nat.max (String.length s) (max_strlen r) end.

(* building strings from code points (used by generated correspondence cases) *)
Fixpoint str_of_codes (l : list nat) : string :=
  match l with [] => EmptyString | c :: r => String (ascii_of_nat c) (str_of_codes r) end.

(* ------------------------------------------------------------------ Part 2 *)

(* the parameter names 'a0', 'a1', ... and the list ['a%i'%j for j in range(m)] *)
Definition aname (j : nat) : string := py_fmt_pct_i "a" "" (Z.of_nat j).
Definition anames (m : nat) : list string := map aname (seq 0 m).

(* A label passes the code's integer filter iff it is some '-'s followed by a
   non-empty run of digit characters. *)
Definition numeric_like (l : string) : bool := py_isdigit (py_lstrip "-" l).

Inductive lclass := CInt (z : Z) | CBad | CParam | COp.

(* integers first (also when listed in param_list), then parameters, else operator *)
Definition classify (pl : list string) (l : string) : lclass :=
  if numeric_like l then match py_int l with Some z => CInt z | None => CBad end
  else if py_in l pl then CParam else COp.

Definition is_op (pl : list string) (l : string) : bool :=
  match classify pl l with COp => true | _ => false end.
Definition is_bad (pl : list string) (l : string) : bool :=
  match classify pl l with CBad => true | _ => false end.
Definition int_of (pl : list string) (l : string) : list Z :=
  match classify pl l with CInt z => [z] | _ => [] end.

(* 0 is read as 1, otherwise the absolute value *)
Definition c01 (z : Z) : Z := if z =? 0 then 1 else Z.abs z.

Definition spec_k (tree : list string) : Z := Z.of_nat (length tree).
Definition spec_ops (pl tree : list string) : list string := filter (is_op pl) tree.
(* is there any parameter or integer?  (all of them together count as one symbol) *)
Definition spec_grouped (pl tree : list string) : bool := existsb (fun l => negb (is_op pl l)) tree.
Definition spec_n (pl tree : list string) : Z :=
  Z.of_nat (length (py_set (spec_ops pl tree))) + b2z (spec_grouped pl tree).
Definition spec_ints (pl tree : list string) : list Z := flat_map (int_of pl) tree.

(* the structure (k, n, [c_j]) with value k ln n + sum ln c_j; None when the real
   code raises ValueError (a CBad label) or leaves the modelled int64 domain *)
Definition aifeyn_spec (tree pl : list string) : option (Z * Z * list Z) :=
  if existsb (is_bad pl) tree then None
  else if forallb int64_strict (spec_ints pl tree)
       then Some (spec_k tree, spec_n pl tree, map c01 (spec_ints pl tree))
       else None.

Open Scope R_scope.
Definition sum_R (l : list R) : R := fold_right Rplus 0 l.
(* value of a structure *)
Definition struct_value (s : Z * Z * list Z) : R :=
  let '(k, n, cs) := s in IZR k * ln (IZR n) + sum_R (map (fun c => ln (IZR c)) cs).
(* the documented formula, directly over the reals *)
Definition spec_value (pl tree : list string) : R :=
  INR (length tree)
  * ln (INR (length (py_set (spec_ops pl tree))) + (if spec_grouped pl tree then 1 else 0))
  + sum_R (map (fun z : Z => ln (if Z.eqb z 0 then 1 else Rabs (IZR z))) (spec_ints pl tree)).
Close Scope R_scope.

(* ------------------------------------------------------------------ Part 3 *)
(* generate_equations: per shape, shape_to_functions yields the strings of the
   originals (all_fun[i]), their label lists (all_tree) and the label lists of
   the rewritten trees (extra_tree). *)
Record shape_out := { so_fun : list string; so_all : list (list string); so_extra : list (list string) }.

Inductive wsrc := SrcAll | SrcExtra.
Inductive wpay := PTree | PAifeyn.
(* "with open(NAME,'a'): for t in SRC: write one line (the tree / its code length)" *)
Record wstep := { w_file : string; w_src : wsrc; w_pay : wpay }.

(* a line of a file: a tree, or the outcome of aifeyn_complexity (None = it raised) *)
Inductive line := LTree (t : list string) | LVal (v : option (Z * Z * list Z)).

Definition fsys := list (string * list line).
Fixpoint fs_read (fs : fsys) (name : string) : list line :=
  match fs with [] => [] | (n, c) :: r => if String.eqb n name then c else fs_read r name end.
Definition fs_write (fs : fsys) (name : string) (c : list line) : fsys := (name, c) :: fs.
Definition fs_append (fs : fsys) (name : string) (c : list line) : fsys :=
  fs_write fs name (fs_read fs name ++ c).

Section Loop.
  (* the three routines the loop calls, supplied by Gen/GenAifeyn.v *)
  Variable max_param_of : list string -> option Z.
  Variable plist_of : Z -> list string.
  Variable code_len : list string -> list string -> option (Z * Z * list Z).

  Definition pick (s : wsrc) (sh : shape_out) : list (list string) :=
    match s with SrcAll => so_all sh | SrcExtra => so_extra sh end.
  Definition mkline (p : wpay) (pl : list string) (t : list string) : line :=
    match p with PTree => LTree t | PAifeyn => LVal (code_len t pl) end.

  Definition do_wstep (pl : list string) (sh : shape_out) (fs : fsys) (w : wstep) : fsys :=
    fs_append fs (w_file w) (map (mkline (w_pay w) pl) (pick (w_src w) sh)).

  (* one iteration of `for i in range(len(shapes))`; None = get_max_param failed *)
  Definition do_shape (plan : list wstep) (fs : option fsys) (sh : shape_out) : option fsys :=
    fs0 <- fs ;;
    m <- max_param_of (so_fun sh) ;;
    Some (fold_left (do_wstep (plist_of m) sh) plan fs0).

  (* `cat SRC1 SRC2 ... > DST` *)
  Definition do_cat (fs : fsys) (c : string * list string) : fsys :=
    fs_write fs (fst c) (concat (map (fs_read fs) (snd c))).

  (* clear files, loop over shapes, run the cat commands *)
  Definition run_generate (clear : list string) (plan : list wstep) (cats : list (string * list string))
             (fs0 : fsys) (shapes : list shape_out) : option fsys :=
    let fs1 := fold_left (fun fs n => fs_write fs n []) clear fs0 in
    fs2 <- fold_left (do_shape plan) shapes (Some fs1) ;;
    Some (fold_left do_cat cats fs2).
End Loop.
