(* Executable model of esr/generation/generator.py: check_tree and get_allowed_shapes,
   and the spec-side notion of a unary-binary tree with its prefix arity code.
   No proofs here (Proofs/ShapesProofs.v).

   check_tree(s)  (generator.py 271-336), read line by line:
     tree = [Node(t) for t in s]                      -> map mknode s
     for i in range(len(s)-1):                        -> loop (length s - 1) 0
         success = False
         if type in (2,1): tree[i].left = i+1; tree[i+1].parent = i; success = True
         else:
             j = tree[i].parent
             while not success:                        -> climb (fuel = length s)
                 if tree[j].type == 2 and tree[j].right is None: (set right/parent) success = True
                 elif tree[j].parent is None: break
                 j = tree[j].parent
         if not success: break
     if len(s) > 1:
         if success: lefts test ; if success: rights test
         part_considered = s[:i+2]                     (i = last value of the loop variable)
     else: success = True ; part_considered = None
   tree[j] with j = None raises TypeError: this is the s[0] = 0, len(s) > 1 crash -> [Crash]. *)
From Coq Require Import List Bool Arith.
Import ListNotations.

(* ---------- spec side: unary-binary trees and their prefix arity code ---------- *)
Inductive tree := L | U (t : tree) | B (l r : tree).

Fixpoint pre (t : tree) : list nat :=
  match t with
  | L => [0]
  | U t => 1 :: pre t
  | B l r => 2 :: pre l ++ pre r
  end.

Fixpoint size (t : tree) : nat :=
  match t with
  | L => 1
  | U t => S (size t)
  | B l r => S (size l + size r)
  end.

(* Lukasiewicz criterion.  d = number of open slots; it must be positive before every
   symbol is read and zero at the end. *)
Fixpoint lukb_aux (d : nat) (s : list nat) : bool :=
  match s with
  | [] => d =? 0
  | a :: r => match d with O => false | S d' => lukb_aux (d' + a) r end
  end.
Definition lukb (s : list nat) : bool := lukb_aux 1 s.

(* ---------- results: value, Python exception, or fuel exhaustion ---------- *)
Inductive res (A : Type) :=
| Ok (a : A)
| Crash          (* the Python code raises (TypeError: list indices must be integers, not NoneType, ...) *)
| Fuel.          (* model artefact: the while loop ran out of fuel; excluded by the theorems *)
Arguments Ok {A} a.
Arguments Crash {A}.
Arguments Fuel {A}.

(* ---------- Node and the tree array ---------- *)
Record node := mkNode { ty : nat; par : option nat; lft : option nat; rgt : option nat }.
Definition mknode (t : nat) : node := mkNode t None None None.
Definition set_par (p : nat) (nd : node) : node := mkNode (ty nd) (Some p) (lft nd) (rgt nd).
Definition set_lft (c : nat) (nd : node) : node := mkNode (ty nd) (par nd) (Some c) (rgt nd).
Definition set_rgt (c : nat) (nd : node) : node := mkNode (ty nd) (par nd) (lft nd) (Some c).

(* the parent/left/right arrays of a tree whose nodes are numbered in prefix order starting at
   [off], the root having parent [p] (spec side of C01_check_tree_arrays) *)
Fixpoint arr (u : tree) (off : nat) (p : option nat) : list node :=
  match u with
  | L => [mkNode 0 p None None]
  | U c => mkNode 1 p (Some (S off)) None :: arr c (S off) (Some off)
  | B l r => mkNode 2 p (Some (S off)) (Some (S (off + size l)))
             :: arr l (S off) (Some off) ++ arr r (S (off + size l)) (Some off)
  end.

Definition is_none {A} (o : option A) : bool := match o with None => true | Some _ => false end.

Fixpoint upd {A} (i : nat) (f : A -> A) (l : list A) : list A :=
  match l, i with
  | [], _ => []
  | x :: r, O => f x :: r
  | x :: r, S k => x :: upd k f r
  end.

(* (tree[j].type == 2) and (tree[j].right is None) *)
Definition freebin (nd : node) : bool := (ty nd =? 2) && is_none (rgt nd).

(* the inner while loop, entered with success = False; j is the Python value of j (None or an index).
   Returns the value of success when the loop is left, and the tree. *)
Fixpoint climb (fuel : nat) (t : list node) (i : nat) (j : option nat) : res (bool * list node) :=
  match fuel with
  | O => Fuel
  | S f =>
    match j with
    | None => Crash                                   (* tree[None] *)
    | Some jj =>
      match nth_error t jj with
      | None => Crash                                 (* IndexError (never happens) *)
      | Some nj =>
        if freebin nj
        then Ok (true, upd (S i) (set_par jj) (upd jj (set_rgt (S i)) t))
        else if is_none (par nj) then Ok (false, t)   (* break *)
        else climb f t i (par nj)                     (* j = tree[j].parent *)
      end
    end
  end.

(* one iteration of the for loop body (before "if not success: break") *)
Definition step (i : nat) (t : list node) : res (bool * list node) :=
  match nth_error t i with
  | None => Crash
  | Some ni =>
    if (ty ni =? 2) || (ty ni =? 1)
    then Ok (true, upd (S i) (set_par i) (upd i (set_lft (S i)) t))
    else climb (length t) t i (par ni)
  end.

(* iterations i, i+1, ..., i+k-1 of the for loop (k >= 1); returns (success, last value of i, tree) *)
Fixpoint loop (k i : nat) (t : list node) : res (bool * nat * list node) :=
  match k with
  | O => Ok (true, i, t)                              (* not used: callers pass k >= 1 *)
  | S k' =>
    match step i t with
    | Ok (true, t') => match k' with O => Ok (true, i, t') | S _ => loop k' (S i) t' end
    | Ok (false, t') => Ok (false, i, t')              (* break *)
    | Crash => Crash
    | Fuel => Fuel
    end
  end.

Definition lefts_missing (t : list node) : bool :=
  existsb (fun nd => ((ty nd =? 1) || (ty nd =? 2)) && is_none (lft nd)) t.
Definition rights_missing (t : list node) : bool :=
  existsb (fun nd => (ty nd =? 2) && is_none (rgt nd)) t.

(* returns (success, part_considered, tree); part_considered = None is Python's None *)
Definition check_tree (s : list nat) : res (bool * option (list nat) * list node) :=
  let t := map mknode s in
  if 1 <? length s then
    match loop (length s - 1) 0 t with
    | Ok (succ, i, t') =>
      let succ1 := if succ then negb (lefts_missing t') else false in
      let succ2 := if succ1 then negb (rights_missing t') else false in
      Ok (succ2, Some (firstn (i + 2) s), t')
    | Crash => Crash
    | Fuel => Fuel
    end
  else Ok (true, None, t).

(* ---------- get_allowed_shapes ---------- *)

(* itertools.product(b, repeat=k): lexicographic, first position slowest *)
Fixpoint lprod {A} (b : list A) (k : nat) : list (list A) :=
  match k with
  | O => [[]]
  | S k' => flat_map (fun x => map (cons x) (lprod b k')) b
  end.
Definition product (n : nat) : list (list nat) := lprod [0; 1; 2] n.

Fixpoint list_nat_eqb (a b : list nat) : bool :=
  match a, b with
  | [], [] => true
  | x :: r, y :: s => (x =? y) && list_nat_eqb r s
  | _, _ => false
  end.

(* cand[:,0] != 0  (only when compl > 1);  cand[:,-1] == 0;  cand[:,-2] != 2 (only when shape[1] > 1) *)
Definition prefilter (n : nat) (l : list (list nat)) : list (list nat) :=
  let l1 := if 1 <? n then filter (fun s => negb (hd 0 s =? 0)) l else l in
  let l2 := filter (fun s => last s 1 =? 0) l1 in
  if 1 <? n then filter (fun s => negb (nth (n - 2) s 0 =? 2)) l2 else l2.

(* msk[np.where(prod(cand[:,:len(p)] == p, axis=1))] = False *)
Definition mask_prefix (p : list nat) (cand : list (list nat)) (msk : list bool) : list bool :=
  map (fun rb => if list_nat_eqb (firstn (length p) (fst rb)) p then false else snd rb) (combine cand msk).

(* for i in range(cand.shape[0]): -- "if not msk[i]: pass" does nothing, check_tree runs on every row *)
Fixpoint mloop (cand rest : list (list nat)) (i : nat) (msk : list bool) : res (list bool) :=
  match rest with
  | [] => Ok msk
  | s :: rest' =>
    match check_tree s with
    | Ok (true, _, _) => mloop cand rest' (S i) msk
    | Ok (false, Some p, _) =>
        mloop cand rest' (S i) (mask_prefix p cand (upd i (fun _ => false) msk))
    | Ok (false, None, _) => Crash                     (* len(None) *)
    | Crash => Crash
    | Fuel => Fuel
    end
  end.

Definition apply_mask {A} (cand : list A) (msk : list bool) : list A :=
  map fst (filter snd (combine cand msk)).

(* get_allowed_shapes(compl) on rank 0 (the other ranks receive the same array by bcast).
   compl = 0 raises IndexError at cand[:,-1]. *)
Definition allowed (n : nat) : res (list (list nat)) :=
  match n with
  | O => Crash
  | _ =>
    let cand := prefilter n (product n) in
    match mloop cand cand 0 (repeat true (length cand)) with
    | Ok msk => Ok (apply_mask cand msk)
    | Crash => Crash
    | Fuel => Fuel
    end
  end.

(* what the theorems say [allowed] computes *)
Definition allowed_spec (n : nat) : list (list nat) := filter lukb (product n).

(* ---------- flat encodings used by the generated correspondence files ---------- *)
Definition o2n (o : option nat) : nat := match o with None => 0 | Some k => S k end.
Definition enc_check (r : res (bool * option (list nat) * list node)) : list nat :=
  match r with
  | Crash => [1]
  | Fuel => [2]
  | Ok (b, p, t) =>
    0 :: (if b then 1 else 0)
      :: (match p with None => [0] | Some p => S (length p) :: p end)
      ++ flat_map (fun nd => [ty nd; o2n (par nd); o2n (lft nd); o2n (rgt nd)]) t
  end.
Fixpoint llnat_eqb (a b : list (list nat)) : bool :=
  match a, b with
  | [], [] => true
  | x :: r, y :: s => list_nat_eqb x y && llnat_eqb r s
  | _, _ => false
  end.
Definition enc_allowed (r : res (list (list nat))) : option (list (list nat)) :=
  match r with Ok l => Some l | _ => None end.
