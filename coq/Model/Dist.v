(* C13: data-distribution skeletons of ESR's generation stage.

   Each definition follows one scatter / compute / gather site of /repo line by line,
   with the sympy work replaced by an abstract per-item function.  The slice
   arithmetic is the *translated* utils.split_idx (Gen/GenPartition.v, regenerated
   from /repo on every run).  `option` is the exception monad (None = some rank raised).
   Every rank holds the same `all_fun` on entry and receives the same broadcast data,
   so the common value every rank ends with is modelled once.
   Executable, no proofs (Proofs/DistProofs.v). *)
From ESRV Require Import Common.Py Common.Tiling Gen.GenPartition.
Open Scope Z_scope.

(* ------------------------------------------------------------------ *)
(* generic Python / mpi4py idioms                                      *)

Fixpoint sequence {X} (l : list (option X)) : option (list X) :=
  match l with
  | [] => Some []
  | o :: r => x <- o ;; t <- sequence r ;; Some (x :: t)
  end.
Definition traverse {X Y} (f : X -> option Y) (l : list X) : option (list Y) := sequence (map f l).

(* comm.gather(v, root=0) (followed, where the code does so, by bcast): the list of
   every rank's value in rank order; raises if some rank raised *)
Definition gather {X} (size : Z) (f : Z -> option X) : option (list X) := traverse f (zrange size).

(* list(itertools.chain( *ls )) *)
Definition chain {X} (ls : list (list X)) : list X := concat ls.

(* for x in l: s = f(s, x) *)
Fixpoint fold_opt {S X} (f : S -> X -> option S) (l : list X) (s : S) : option S :=
  match l with
  | [] => Some s
  | x :: r => s' <- f s x ;; fold_opt f r s'
  end.

(* [x for x in l if f(x)] where f may raise *)
Fixpoint opt_filter {X} (f : X -> option bool) (l : list X) : option (list X) :=
  match l with
  | [] => Some []
  | x :: r => b <- f x ;; t <- opt_filter f r ;; Some (if b then x :: t else t)
  end.

(* l[i] = v (negative indices as in Python; None = IndexError) *)
Definition py_setitem {X} (l : list X) (i : Z) (v : X) : option (list X) :=
  let n := py_len l in
  let j := if 0 <=? i then i else n + i in
  if (0 <=? j) && (j <? n)
  then Some (firstn (Z.to_nat j) l ++ v :: skipn (S (Z.to_nat j)) l)
  else None.

(* l[a:b] = v for a list l (step 1; the lengths need not agree) *)
Definition py_slice_assign {X} (l : list X) (a b : Z) (v : list X) : list X :=
  let n := py_len l in
  let a' := py_clamp n a in
  let b' := Z.max a' (py_clamp n b) in
  firstn (Z.to_nat a') l ++ v ++ skipn (Z.to_nat b') l.

(* (i[0], i[-1] + 1) *)
Definition first_last1 (i : list Z) : option (Z * Z) :=
  a <- py_index i 0 ;; b <- py_index i (-1) ;; Some (a, b + 1).

(* numpy.array_split(ary, n) for a 1-d array and an int n (numpy/lib/_shape_base_impl.py);
   hand-modelled: numpy is not part of /repo *)
Definition np_div_points (Ntotal Nsections : Z) : option (list Z) :=
  if Nsections <=? 0 then None else
  dm <- py_divmod Ntotal Nsections ;;
  let '(Neach_section, extras) := dm in
  Some (py_cumsum (([0] ++ py_repeat extras [Neach_section + 1]) ++ py_repeat (Nsections - extras) [Neach_section])).

Definition np_array_split {X} (ary : list X) (Nsections : Z) : option (list (list X)) :=
  div_points <- np_div_points (py_len ary) Nsections ;;
  traverse (fun i => st <- py_index div_points i ;; en <- py_index div_points (i + 1) ;;
                     Some (py_slice ary st en)) (zrange Nsections).

(* ------------------------------------------------------------------ *)
(* 1. generator.shape_to_functions (1543-1585)                         *)

Definition stf_bounds (T rank size : Z) : option (Z * Z) :=
  i <- split_idx T rank size ;;
  if py_len i =? 0 then Some (0, 0) else first_last1 i.

(* every rank walks pos = 0..T-1; find_additional_trees (g) only inside [imin, imax) *)
Definition stf_rank_extras {B} (g : Z -> list B) (T rank size : Z) : option (list B) :=
  b <- stf_bounds T rank size ;;
  let '(imin, imax) := b in
  Some (flat_map (fun pos => if (pos >=? imin) && (pos <? imax) then g pos else []) (zrange T)).

Definition dist_extras {B} (g : Z -> list B) (T size : Z) : option (list B) :=
  per_rank <- gather size (fun rank => stf_rank_extras g T rank size) ;;
  Some (chain per_rank).

(* ------------------------------------------------------------------ *)
(* 2. simplifier.make_changes (97-155)                                 *)

Section MakeChanges.
  Context {A : Type}.
  Variable neq : A -> A -> bool.      (* str_fun[i] != all_fun[imin+i] *)

  (* (imin, this rank's contribution to start_idx) *)
  Definition mc_bounds (all_fun : list A) (rank size : Z) : option (Z * Z) :=
    i <- split_idx (py_len all_fun) rank size ;;
    if py_len i >? 0 then
      b <- first_last1 i ;; let '(imin, imax) := b in Some (imin, imax - imin)
    else Some (py_len all_fun, 0).

  Definition mc_chidx (all_fun : list A) (imin : Z) (str_fun : list A) : option (list Z) :=
    opt_filter (fun i => x <- py_index str_fun i ;; y <- py_index all_fun (imin + i) ;; Some (neq x y))
               (zrange (py_len str_fun)).

  Definition mc_changes (str_fun : list A) (chidx : list Z) : option (list A) :=
    traverse (py_index str_fun) chidx.

  (* for k in range(len(changes)): all_fun[j[k]] = changes[k] *)
  Definition mc_apply_rank (all_fun : list A) (j : list Z) (changes : list A) : option (list A) :=
    fold_opt (fun all k => jk <- py_index j k ;; v <- py_index changes k ;; py_setitem all jk v)
             (zrange (py_len changes)) all_fun.

  (* str_fun r = rank r's (possibly modified) copy of its slice *)
  Definition dist_make_changes (all_fun : list A) (str_fun : Z -> list A) (size : Z) : option (list A) :=
    bs <- gather size (fun rank => mc_bounds all_fun rank size) ;;
    let start_idx := py_cumsum ([0] ++ map snd bs) in
    per <- gather size (fun rank =>
             b <- mc_bounds all_fun rank size ;;
             chidx <- mc_chidx all_fun (fst b) (str_fun rank) ;;
             changes <- mc_changes (str_fun rank) chidx ;;
             Some (chidx, changes)) ;;
    fold_opt (fun all i =>
                cc <- py_index per i ;; s <- py_index start_idx i ;;
                mc_apply_rank all (map (fun c => c + s) (fst cc)) (snd cc))
             (zrange size) all_fun.
End MakeChanges.

(* ------------------------------------------------------------------ *)
(* 3. simplifier.initial_sympify, parallel branch (197-252);           *)
(*    the same slice idiom is used by sympy_simplify (290-298 etc.)    *)

Definition is_slice {A} (all_fun : list A) (rank size : Z) : option (list A) :=
  i <- split_idx (py_len all_fun) rank size ;;
  if py_len i =? 0 then Some [] else
    b <- first_last1 i ;; let '(a, e) := b in Some (py_slice all_fun a e).

(* all_fun = [None]*start_idx[-1]; all_fun[start_idx[r]:start_idx[r+1]] = bcast(str_fun, root=r) *)
Definition dist_initial_sympify {A} (h : A -> A) (all_fun : list A) (size : Z) : option (list (option A)) :=
  strs <- gather size (fun rank => s <- is_slice all_fun rank size ;; Some (map h s)) ;;
  let start_idx := py_cumsum ([0] ++ map py_len strs) in
  total <- py_index start_idx (-1) ;;
  fold_opt (fun all r =>
              a <- py_index start_idx r ;; e <- py_index start_idx (r + 1) ;;
              s <- py_index strs r ;;
              Some (py_slice_assign all a e (map Some s)))
           (zrange size) (py_repeat total [None]).

(* ------------------------------------------------------------------ *)
(* 4a. simplifier.expand_or_factor (705-737).  all_sym is an OrderedDict whose keys   *)
(*     list is `keys`; all_sym[keys[j]] = v rewrites the j-th value (keys distinct),  *)
(*     so the dict is modelled by its list of values.  g j = Some v: index j changed. *)

Definition eof_rank {V} (g : Z -> option V) (n rank size : Z) : option (list (Z * V)) :=
  i <- split_idx n rank size ;;
  if py_len i >? 0 then
    b <- first_last1 i ;; let '(a, e) := b in
    Some (flat_map (fun j => match g j with Some v => [(j, v)] | None => [] end) (zinterval a e))
  else Some [].

Definition eof_apply {V} (vals : list V) (changes : list (Z * V)) : option (list V) :=
  fold_opt (fun vs jv => py_setitem vs (fst jv) (snd jv)) changes vals.

Definition dist_expand_or_factor {V} (g : Z -> option V) (vals : list V) (size : Z) : option (list V) :=
  per <- gather size (fun rank => eof_rank g (py_len vals) rank size) ;;
  eof_apply vals (chain per).

(* 4b. sympy_simplify: change_indices / ref_indices / new_inv_subs (517-568, 587-633). *)
(*     The three parallel lists are appended to together, so they are modelled as one  *)
(*     list of triples (change, ref, subs).  g item = what the rank's loop body appends *)
(*     for that item (nothing or one triple; it depends on the item and on the common  *)
(*     all_fun only).                                                                   *)

Section ChangeLoop.
  Context {F Y S A T : Type}.

  Definition cl_rank (g : A -> list T) (items : list A) (rank size : Z) : option (list T) :=
    s <- is_slice items rank size ;; Some (flat_map g s).

  Definition cl_gathered (g : A -> list T) (items : list A) (size : Z) : option (list T) :=
    per <- gather size (fun rank => cl_rank g items rank size) ;; Some (chain per).

  Definition zmem (x : Z) (l : list Z) : bool := existsb (Z.eqb x) l.

  (* for i in range(len(change_indices)):
       if (ref[i] not in change[:i]) and (change[i] not in change[:i]):
           all_fun[change[i]] = all_fun[ref[i]]; all_sym[change[i]] = all_sym[ref[i]]
           if all_inv_subs[change[i]] is None: all_inv_subs[change[i]] = []
           all_inv_subs[change[i]].append(new_inv_subs[i]) *)
  Definition cl_state : Type := (list F * list Y * list (option (list S)))%type.

  Definition cl_step (chs : list (Z * Z * S)) (st : cl_state) (i : Z) : option cl_state :=
    let '(all_fun, all_sym, all_inv) := st in
    t <- py_index chs i ;;
    let '(c, r, s) := t in
    let before := py_slice (map (fun t => fst (fst t)) chs) 0 i in
    if negb (zmem r before) && negb (zmem c before) then
      fr <- py_index all_fun r ;; all_fun' <- py_setitem all_fun c fr ;;
      yr <- py_index all_sym r ;; all_sym' <- py_setitem all_sym c yr ;;
      cur <- py_index all_inv c ;;
      all_inv' <- py_setitem all_inv c (Some (match cur with None => [] | Some l => l end ++ [s])) ;;
      Some (all_fun', all_sym', all_inv')
    else Some st.

  Definition cl_apply (st : cl_state) (chs : list (Z * Z * S)) : option cl_state :=
    fold_opt (cl_step chs) (zrange (py_len chs)) st.
End ChangeLoop.

Definition dist_change_loop {F Y S A} (g : A -> list (Z * Z * S)) (items : list A)
    (st : @cl_state F Y S) (size : Z) : option (@cl_state F Y S) :=
  chs <- cl_gathered g items size ;; cl_apply st chs.

(* ------------------------------------------------------------------ *)
(* 5. simplifier.load_subs (1114-1172): rows of substitutions; fe = per-entry work *)

Definition ls_scatter {S} (subs : list (list S)) (size : Z) : option (list (list (list S))) :=
  i <- np_array_split (zrange (py_len subs)) size ;;
  traverse (fun r =>
              ii <- py_index i r ;;
              if py_len ii =? 0 then Some [] else
                b <- first_last1 ii ;; let '(a, e) := b in Some (py_slice subs a e))
           (zrange size).

Definition dist_load_subs {S S'} (fe : S -> S') (subs : list (list S)) (size : Z) : option (list (list S')) :=
  all_subs <- ls_scatter subs size ;;
  per <- gather size (fun rank =>
           mine <- py_index all_subs rank ;;
           Some (map (fun row => if py_len row =? 0 then [] else map fe row) mine)) ;;
  Some (chain per).

(* ------------------------------------------------------------------ *)
(* 6. simplifier.check_results (1252-1370).  funs / matches: the lists already        *)
(*    re-ordered by shufidx ([all_fun[ii] for ii in shufidx], matches[shufidx]);       *)
(*    bad f m: the per-item test ends in `to_change.append`.                          *)

Definition cr_bounds (nfun rank size : Z) : option (Z * Z) :=
  idx <- split_idx nfun rank size ;;
  b <- (if py_len idx =? 0 then Some (0, -1)
        else match idx with [a; e] => Some (a, e) | _ => None end) ;;   (* imin, imax = idx *)
  Some (fst b, snd b + 1).

Definition cr_imin (nfun rank size : Z) : option Z :=
  idx <- split_idx nfun rank size ;;
  if py_len idx >? 0 then py_index idx 0 else Some 0.

Definition cr_rank {F M} (bad : F -> M -> bool) (all_fun : list F) (matches : list M) (imin : Z)
  : option (list (Z * F)) :=
  per <- traverse (fun i => f <- py_index all_fun i ;; m <- py_index matches i ;;
                            Some (if bad f m then [(i + imin, f)] else []))
                  (zrange (py_len all_fun)) ;;
  Some (concat per).

Definition dist_check_results {F M} (bad : F -> M -> bool) (funs : list F) (matches : list M)
    (shufidx : list Z) (size : Z) : option (list (Z * F)) :=
  let nfun := py_len funs in
  bs <- gather size (fun rank => cr_bounds nfun rank size) ;;
  let fun_slices := map (fun b => py_slice funs (fst b) (snd b)) bs in
  match_slices <- np_array_split matches size ;;
  per <- gather size (fun rank =>
           fs <- py_index fun_slices rank ;; ms <- py_index match_slices rank ;;
           imin <- cr_imin nfun rank size ;;
           cr_rank bad fs ms imin) ;;
  traverse (fun r => s <- py_index shufidx (fst r) ;; Some (s, snd r)) (chain per).
