(* Model of esr/fitting/combine_DL.py::main (C06).  No proofs here.

   Numbers are [xz] (Common/XZ.v): a finite value (an integer: every finite table of
   floats is scaled by a common positive factor [s], see [weight] below), +inf, -inf or NaN.
   A row of the per-function table = one line of codelen_matches_comp<n>.dat together
   with the same line of aifeyn_<n>.txt; its position in the table is the position of
   the function's string in all_equations_<n>.txt (this position is the "function id").

   Not modelled (exercised by the correspondence runs): text round trip of
   np.savetxt('%.16e')/np.genfromtxt/csv, the `cat ... | sort -V` join (modelled as
   concatenation in rank order), PrettyTable output, float rounding of sums and exp. *)
From Coq Require Import ZArith List Bool.
From ESRV Require Import Common.Py Common.XZ Gen.GenPartition.
Import ListNotations.
Open Scope Z_scope.

(* ------------------------------------------------------------------ *)
(* the input table                                                     *)

Record vrow := mkV {
  v_nll : xz;          (* data[:,0] *)
  v_codelen : xz;      (* data[:,1] *)
  v_index : xz;        (* data[:,2]  index of the unique function, a float column *)
  v_aifeyn : xz;       (* aifeyn file, same line *)
  v_params : list xz   (* data[:,3:] *)
}.

(* DL = negloglike_i + codelen_i + aifeyn_i  (left associated float additions) *)
Definition dl_of (r : vrow) : xz := xadd (xadd (v_nll r) (v_codelen r)) (v_aifeyn r).

(* boolean mask index == u, kept together with the position j in the all-list *)
Fixpoint select_from (j : nat) (u : nat) (t : list vrow) : list (nat * vrow) :=
  match t with
  | [] => []
  | r :: t' => if xeqb (v_index r) (Fin (Z.of_nat u))
               then (j, r) :: select_from (S j) u t'
               else select_from (S j) u t'
  end.
Definition select (u : nat) (t : list vrow) : list (nat * vrow) := select_from 0 u t.

(* ------------------------------------------------------------------ *)
(* numpy reductions                                                    *)

(* np.fmin: ignores a NaN operand *)
Definition xfmin (a b : xz) : xz :=
  if isnan a then b else if isnan b then a else if xltb b a then b else a.
(* np.nanmin on a 1-D float array = np.fmin.reduce (NaN when all entries are NaN; the
   empty case is unreachable: guarded by the all-NaN test) *)
Definition np_nanmin (l : list xz) : xz :=
  match l with [] => NaN | a :: r => fold_left xfmin r a end.

(* np.argmin on a NaN-free array: first position of the minimum *)
Fixpoint argmin_from (i bi : nat) (b : xz) (l : list xz) : nat :=
  match l with
  | [] => bi
  | a :: r => if xltb a b then argmin_from (S i) i a r else argmin_from (S i) bi b r
  end.
Definition np_argmin (l : list xz) : nat :=
  match l with [] => 0%nat | a :: r => argmin_from 1 0 a r end.
(* np.nanargmin = argmin after _replace_nan(a, +inf): NOTE the quirk that a NaN entry
   ties with a genuine +inf entry, so when the minimum is +inf the index returned is the
   first entry that is NaN *or* +inf. *)
Definition nan_to_inf (a : xz) : xz := if isnan a then PInf else a.
Definition np_nanargmin (l : list xz) : nat := np_argmin (map nan_to_inf l).

(* ------------------------------------------------------------------ *)
(* the per-unique loop body (lines 64-86)                              *)

Record urow := mkU {
  u_dl : xz;              (* DL_min[i] *)
  u_params : list xz;     (* params_min[i,:] *)
  u_fcn : option nat;     (* fcn_min[i]: position in all_equations, None = Python None *)
  u_nll : xz;
  u_codelen : xz;
  u_aifeyn : xz
}.

Definition urow_nan (npar : nat) : urow :=
  mkU NaN (repeat (Fin 0) npar) None (Fin 0) (Fin 0) (Fin 0).
Definition dummy_v : vrow := mkV NaN NaN NaN NaN [].

Definition per_unique (npar : nat) (t : list vrow) (u : nat) : urow :=
  let vs := select u t in
  let dls := map (fun p => dl_of (snd p)) vs in
  if forallb isnan dls then urow_nan npar      (* np.sum(~np.isnan(DL)) == 0, also for no variants *)
  else
    let k := np_nanargmin dls in
    let p := nth k vs (0%nat, dummy_v) in
    mkU (np_nanmin dls) (v_params (snd p)) (Some (fst p))
        (v_nll (snd p)) (v_codelen (snd p)) (v_aifeyn (snd p)).

(* ------------------------------------------------------------------ *)
(* per-rank split and the join                                         *)

(* rank r: fcn_list_proc, data_start, data_end from test_all.get_functions (generated
   model), xarr_proc = xarr[data_start:data_end], loop i over range(len(fcn_list_proc)) *)
Definition rank_rows (npar : nat) (t : list vrow) (U : nat) (P r : Z) : option (list urow) :=
  ' res <- get_functions_slice (seq 0 U) r P ;;
  let '(fl, ds, de) := res in
  let xarr_proc := py_slice (seq 0 U) ds de in
  Some (map (fun i => per_unique npar t (nth i xarr_proc 0%nat)) (seq 0 (length fl))).

Fixpoint all_ranks {A} (f : Z -> option (list A)) (rs : list nat) : option (list A) :=
  match rs with
  | [] => Some []
  | r :: rs' => a <- f (Z.of_nat r) ;; b <- all_ranks f rs' ;; Some (a ++ b)
  end.

(* combine_DL_comp<n>.dat: the per-rank files concatenated in rank order *)
Definition combined (npar : nat) (t : list vrow) (U : nat) (P : Z) : option (list urow) :=
  all_ranks (rank_rows npar t U P) (seq 0 (Z.to_nat P)).

(* ------------------------------------------------------------------ *)
(* rank 0: mask, sort, table                                           *)

(* np.vstack([DL_min, xarr]) transposed, after the ~isnan mask *)
Definition masked (U : nat) (comb : list urow) : list (xz * nat) :=
  filter (fun p => negb (isnan (fst p))) (combine (map u_dl comb) (seq 0 U)).

(* sorted(rows, key = lambda x: x[0]): stable; on NaN-free keys `<` is a strict weak
   order and the stable sort is unique; written as the insertion sort that places an
   element before the first one that is not strictly smaller *)
Fixpoint sort_insert (x : xz * nat) (l : list (xz * nat)) : list (xz * nat) :=
  match l with
  | [] => [x]
  | y :: r => if xltb (fst y) (fst x) then y :: sort_insert x r else x :: y :: r
  end.
Definition py_sorted (l : list (xz * nat)) : list (xz * nat) := fold_right sort_insert [] l.

Record frow := mkF {
  f_rank : nat;           (* first csv column *)
  f_fcn : option nat;     (* function string, as its position in all_equations *)
  f_dl : xz;
  f_nll : xz;
  f_codelen : xz;
  f_aifeyn : xz;
  f_params : list xz;
  f_uniq : nat            (* indices_sort[i]; not written to the file *)
}.

Definition final_rows (comb : list urow) (srt : list (xz * nat)) : list frow :=
  map (fun ip => let c := nth (snd (snd ip)) comb (urow_nan 0) in
                 mkF (fst ip) (u_fcn c) (fst (snd ip)) (u_nll c) (u_codelen c) (u_aifeyn c)
                     (u_params c) (snd (snd ip)))
      (combine (seq 0 (length srt)) srt).

(* Prel_DL (lines 154-160): `x in negloglike_list` is any(x == e) with float equality
   (a NaN is never equal; the numpy scalars are fresh objects, so identity never helps) *)
Fixpoint prel_exps_from (dl0 : xz) (seen : list xz) (rows : list frow) : list xz :=
  match rows with
  | [] => []
  | r :: rs =>
      if existsb (xeqb (f_nll r)) seen
      then PInf :: prel_exps_from dl0 seen rs
      else xsub (f_dl r) dl0 :: prel_exps_from dl0 (seen ++ [f_nll r]) rs
  end.
Definition prel_exps (rows : list frow) : list xz :=
  match rows with [] => [] | r0 :: _ => prel_exps_from (f_dl r0) [] rows end.

(* main.  None = the Python code raises:
   - fewer than two lines in codelen_matches_comp<n>.dat: np.genfromtxt returns a 1-D
     array and data[:,0] raises IndexError (line 42), on every rank;
   - fewer than two unique functions: the same for combine_DL_comp<n>.dat (line 110). *)
Definition combine_main (P : Z) (U : nat) (t : list vrow)
  : option (list urow * list frow * list xz) :=
  if (length t <? 2)%nat then None else
  let npar := match t with r :: _ => length (v_params r) | [] => 0%nat end in
  comb <- combined npar t U P ;;
  if (U <? 2)%nat then None else
  let srt := py_sorted (masked U comb) in
  let rows := final_rows comb srt in
  Some (comb, rows, prel_exps rows).

(* ------------------------------------------------------------------ *)
(* structural equalities for the correspondence files (NaN is the same as NaN here) *)
Definition xz_same (a b : xz) : bool :=
  match a, b with
  | Fin x, Fin y => x =? y
  | PInf, PInf | NInf, NInf | NaN, NaN => true
  | _, _ => false
  end.
Fixpoint lxz_same (l1 l2 : list xz) : bool :=
  match l1, l2 with
  | [], [] => true
  | a :: r, b :: s => xz_same a b && lxz_same r s
  | _, _ => false
  end.
Definition onat_same (a b : option nat) : bool :=
  match a, b with
  | None, None => true
  | Some x, Some y => Nat.eqb x y
  | _, _ => false
  end.
Definition urow_same (a b : urow) : bool :=
  xz_same (u_dl a) (u_dl b) && lxz_same (u_params a) (u_params b) && onat_same (u_fcn a) (u_fcn b)
  && xz_same (u_nll a) (u_nll b) && xz_same (u_codelen a) (u_codelen b) && xz_same (u_aifeyn a) (u_aifeyn b).
(* the columns of final_<n>.dat other than Prel (f_uniq is not in the file) *)
Definition frow_obs_same (a b : frow) : bool :=
  Nat.eqb (f_rank a) (f_rank b) && onat_same (f_fcn a) (f_fcn b) && xz_same (f_dl a) (f_dl b)
  && xz_same (f_nll a) (f_nll b) && xz_same (f_codelen a) (f_codelen b) && xz_same (f_aifeyn a) (f_aifeyn b)
  && lxz_same (f_params a) (f_params b).
Fixpoint all2 {A} (e : A -> A -> bool) (l1 l2 : list A) : bool :=
  match l1, l2 with
  | [], [] => true
  | a :: r, b :: s => e a b && all2 e r s
  | _, _ => false
  end.
(* expected = None: the implementation raised *)
Definition main_agrees (P : Z) (U : nat) (t : list vrow) (expected : option (list urow * list frow)) : bool :=
  match combine_main P U t, expected with
  | None, None => true
  | Some (comb, rows, _), Some (ecomb, erows) => all2 urow_same comb ecomb && all2 frow_obs_same rows erows
  | _, _ => false
  end.
Definition main_exps (P : Z) (U : nat) (t : list vrow) : list xz :=
  match combine_main P U t with Some (_, _, e) => e | None => [] end.

(* ------------------------------------------------------------------ *)
(* relative probabilities over the reals (lines 162-164)               *)
From Coq Require Import Reals.

(* a finite table value z stands for the real z/s (s > 0 the common scale).
   exp(-inf) = 0; exp(-NaN) = NaN and exp(+inf) = inf are then set to 0 by line 163. *)
Definition weight (s : R) (d : xz) : R :=
  match d with Fin z => exp (- (IZR z / s)) | _ => 0%R end.
Definition rsum (l : list R) : R := fold_right Rplus 0%R l.

Inductive pval := PNaN | PVal (r : R).

(* Prel /= np.sum(Prel): 0/0 = NaN in every entry when all weights are 0 *)
Definition prel (s : R) (ds : list xz) : list pval :=
  let ws := map (weight s) ds in
  if Req_EM_T (rsum ws) 0%R then map (fun _ => PNaN) ws
  else map (fun w => PVal (w / rsum ws)%R) ws.
