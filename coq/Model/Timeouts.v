(* C15 -- ESR's time-limited simplification steps under interruption.

   Executable model of esr/generation/simplifier.py: the seven `with time_limit(...)` blocks
   (five in sympy_simplify, one in expand_or_factor, one in check_results), their exception
   handlers, make_changes, the merge loops, the round structure of do_sympy, the combination of
   the per-round substitution files in duplicate_checker.main and check_results.

   What sympy computes is NOT modelled: an execution is described by the *trace* of each entered
   block -- the source lines it executed, each with the atomic effects of the statements on that
   line and the values they stored (strings, sympy objects and substitution strings are interned
   as natural numbers) -- and, per block, either completion or a cut position (the timeout fires
   before the p-th executed line; p = number of lines means "after the body, before alarm(0)").
   Theorems quantify over all traces and all cut choices.  No proofs in this file. *)
From Coq Require Import List Bool Arith.
Import ListNotations.

Definition val := nat.            (* interned string / sympy object *)
Definition sub := nat.            (* interned substitution string *)
Definition NAN : sub := 0.        (* str(np.nan) *)

(* the time-limited blocks, in source order: sympy_simplify 1..5, expand_or_factor, check_results *)
Inductive kind := KA | KB | KC | KD | KE | KX | KR.
Inductive lvar := F1 | EXPR.      (* function-level locals that are read inside a block but bound elsewhere *)
Inductive region := ROuter | RTry | RHandler.   (* RTry/RHandler: block KB's inner `try: ... except Exception:` *)

Inductive eff :=
| ESym            (* sym_fun[i] = <new object> *)
| EStr            (* str_fun[i] = ... *)
| ESub            (* inv_subs_fun[i] = [s]   or   inv_subs_fun[i].append(s) *)
| ESave           (* f0 = sym_fun[i].copy() *)
| ERevert         (* sym_fun[i] = f0.copy() *)
| EBind (v : lvar)
| EUse (v : lvar) (* UnboundLocalError when v has never been bound in this call *)
| ECi | ERi | ENs (* change_indices / ref_indices / new_inv_subs .append(...) *)
| EXi | EXv       (* change_idx / change_vals .append(...)   (expand_or_factor) *)
| ERaise          (* raise ValueError   (check_results) *)
| ECatchT         (* `except TimeoutException:` clause of KB's inner try ... *)
| EReraise        (* ... whose body is a bare `raise`: the timeout goes on to the block's own handler *)
| ECatch.         (* `except Exception:` of KB's inner try is entered (some other exception) *)

(* Static tables: the effect-carrying statements of each block body in SOURCE ORDER, as the
   harness extracts them from the ast of simplifier.py on every run (C15.py: block_tables). *)
Definition table (k : kind) : list (eff * region) :=
  match k with
  | KA => [(EBind EXPR, ROuter); (EUse EXPR, ROuter); (EBind F1, ROuter); (EUse EXPR, ROuter);
           (EUse EXPR, ROuter); (ESym, ROuter);
           (EUse EXPR, ROuter); (ESub, ROuter); (ESub, ROuter); (EUse EXPR, ROuter); (ESub, ROuter); (ESub, ROuter);
           (EUse EXPR, ROuter);
           (EUse EXPR, ROuter); (ESym, ROuter);
           (EUse EXPR, ROuter); (ESub, ROuter); (ESub, ROuter); (EUse EXPR, ROuter); (ESub, ROuter); (ESub, ROuter);
           (EStr, ROuter); (EStr, ROuter)]
  | KB => [(ESym, ROuter); (EBind EXPR, ROuter); (EUse EXPR, ROuter); (EUse EXPR, ROuter); (ESave, ROuter);
           (EUse EXPR, ROuter); (ESym, ROuter);
           (EUse EXPR, RTry); (EUse EXPR, RTry); (ERevert, RTry);
           (EUse EXPR, RTry); (ESub, RTry); (EUse EXPR, RTry); (ESub, RTry);
           (EUse EXPR, RTry); (EUse EXPR, RTry); (EBind F1, RTry); (EUse F1, RTry);
           (EUse EXPR, RTry); (ESub, RTry); (EUse EXPR, RTry); (ESub, RTry);
           (EUse EXPR, RTry);
           (EUse EXPR, RTry); (ESub, RTry); (EUse EXPR, RTry); (ESub, RTry);
           (ERevert, RTry);
           (ECatchT, RHandler); (EReraise, RHandler); (ECatch, RHandler); (ERevert, RHandler);
           (EStr, ROuter); (EStr, ROuter)]
  | KC => [(EBind EXPR, ROuter); (EUse EXPR, ROuter); (EUse EXPR, ROuter); (ECi, ROuter); (ERi, ROuter); (ENs, ROuter)]
  | KD => [(EBind EXPR, ROuter); (EUse EXPR, ROuter); (EUse EXPR, ROuter); (EUse EXPR, ROuter);
           (ECi, ROuter); (ERi, ROuter); (ENs, ROuter)]
  | KE => [(ESym, ROuter); (EStr, ROuter); (ESub, ROuter); (ESub, ROuter)]
  | KX => [(EXi, ROuter); (EXv, ROuter)]
  | KR => [(ERaise, ROuter)]
  end.

(* what the `except` clause that receives the timeout does.  Every one of them leaves
   inv_subs_fun[i] alone. *)
Inductive hnd :=
| HRestore          (* str_fun[i] = orig_fun; sym_fun[i] = orig_sym *)
| HRestoreTrunc3    (* the same, then cut change_indices / ref_indices / new_inv_subs back to their common length *)
| HTrunc2           (* del change_idx[len(change_vals):] *)
| HUnmerge.         (* to_change.append([i+imin, all_fun[i]])  (check_results: `except Exception`) *)
Definition handler_of (k : kind) : hnd :=
  match k with KA | KB | KE => HRestore | KC | KD => HRestoreTrunc3 | KX => HTrunc2 | KR => HUnmerge end.

(* A timeout raised anywhere in a block body reaches the handler above: inside the body, a clause
   that would catch it (ECatch = `except Exception`) is always preceded, in the same try, by
   `except TimeoutException: raise`. *)
Fixpoint transparent (t : list (eff * region)) : bool :=
  match t with
  | [] => true
  | (ECatchT, _) :: (EReraise, _) :: (ECatch, _) :: r => transparent r
  | (ECatch, _) :: _ => false
  | (ECatchT, _) :: _ => false
  | _ :: r => transparent r
  end.

(* ------------------------------------------------------------------ one block, one function *)

Record loc := mkLoc {
  l_str : val; l_sym : val; l_subs : option (list sub);   (* str_fun[i], sym_fun[i], inv_subs_fun[i] *)
  l_f0 : val; l_f1 : bool; l_expr : bool;                 (* f0; is f1 / expr bound? *)
  l_ci : list nat; l_ri : list nat; l_ns : list sub;      (* change_indices, ref_indices, new_inv_subs *)
  l_xi : list nat; l_xv : list val;                       (* change_idx, change_vals *)
  l_raised : bool }.

Definition subs_list (o : option (list sub)) : list sub := match o with Some l => l | None => [] end.

Definition ev := (eff * nat)%type.

Definition exec_ev (e : ev) (l : loc) : option loc :=
  let '(f, v) := e in
  match f with
  | ESym => Some (mkLoc (l_str l) v (l_subs l) (l_f0 l) (l_f1 l) (l_expr l) (l_ci l) (l_ri l) (l_ns l) (l_xi l) (l_xv l) (l_raised l))
  | EStr => Some (mkLoc v (l_sym l) (l_subs l) (l_f0 l) (l_f1 l) (l_expr l) (l_ci l) (l_ri l) (l_ns l) (l_xi l) (l_xv l) (l_raised l))
  | ESub => Some (mkLoc (l_str l) (l_sym l) (Some (subs_list (l_subs l) ++ [v])) (l_f0 l) (l_f1 l) (l_expr l) (l_ci l) (l_ri l) (l_ns l) (l_xi l) (l_xv l) (l_raised l))
  | ESave => Some (mkLoc (l_str l) (l_sym l) (l_subs l) (l_sym l) (l_f1 l) (l_expr l) (l_ci l) (l_ri l) (l_ns l) (l_xi l) (l_xv l) (l_raised l))
  | ERevert => Some (mkLoc (l_str l) (l_f0 l) (l_subs l) (l_f0 l) (l_f1 l) (l_expr l) (l_ci l) (l_ri l) (l_ns l) (l_xi l) (l_xv l) (l_raised l))
  | EBind F1 => Some (mkLoc (l_str l) (l_sym l) (l_subs l) (l_f0 l) true (l_expr l) (l_ci l) (l_ri l) (l_ns l) (l_xi l) (l_xv l) (l_raised l))
  | EBind EXPR => Some (mkLoc (l_str l) (l_sym l) (l_subs l) (l_f0 l) (l_f1 l) true (l_ci l) (l_ri l) (l_ns l) (l_xi l) (l_xv l) (l_raised l))
  | EUse F1 => if l_f1 l then Some l else None
  | EUse EXPR => if l_expr l then Some l else None
  | ECi => Some (mkLoc (l_str l) (l_sym l) (l_subs l) (l_f0 l) (l_f1 l) (l_expr l) (l_ci l ++ [v]) (l_ri l) (l_ns l) (l_xi l) (l_xv l) (l_raised l))
  | ERi => Some (mkLoc (l_str l) (l_sym l) (l_subs l) (l_f0 l) (l_f1 l) (l_expr l) (l_ci l) (l_ri l ++ [v]) (l_ns l) (l_xi l) (l_xv l) (l_raised l))
  | ENs => Some (mkLoc (l_str l) (l_sym l) (l_subs l) (l_f0 l) (l_f1 l) (l_expr l) (l_ci l) (l_ri l) (l_ns l ++ [v]) (l_xi l) (l_xv l) (l_raised l))
  | EXi => Some (mkLoc (l_str l) (l_sym l) (l_subs l) (l_f0 l) (l_f1 l) (l_expr l) (l_ci l) (l_ri l) (l_ns l) (l_xi l ++ [v]) (l_xv l) (l_raised l))
  | EXv => Some (mkLoc (l_str l) (l_sym l) (l_subs l) (l_f0 l) (l_f1 l) (l_expr l) (l_ci l) (l_ri l) (l_ns l) (l_xi l) (l_xv l ++ [v]) (l_raised l))
  | ERaise => Some (mkLoc (l_str l) (l_sym l) (l_subs l) (l_f0 l) (l_f1 l) (l_expr l) (l_ci l) (l_ri l) (l_ns l) (l_xi l) (l_xv l) true)
  | ECatchT | EReraise | ECatch => Some l
  end.

Fixpoint exec_evs (es : list ev) (l : loc) : option loc :=
  match es with
  | [] => Some l
  | e :: r => match exec_ev e l with Some l' => exec_evs r l' | None => None end
  end.

(* a block execution: the executed lines (each with the effects of its statements), and the cut *)
Definition blk := (list (list ev) * option nat)%type.
Definition executed (b : blk) : list ev :=
  match snd b with None => concat (fst b) | Some p => concat (firstn p (fst b)) end.
Definition is_cut (b : blk) : bool := match snd b with None => false | Some _ => true end.

Definition apply_handler (h : hnd) (ostr osym : val) (l : loc) : loc :=
  match h with
  | HRestore =>
      mkLoc ostr osym (l_subs l) (l_f0 l) (l_f1 l) (l_expr l) (l_ci l) (l_ri l) (l_ns l) (l_xi l) (l_xv l) (l_raised l)
  | HRestoreTrunc3 =>
      let m := Nat.min (length (l_ci l)) (Nat.min (length (l_ri l)) (length (l_ns l))) in
      mkLoc ostr osym (l_subs l) (l_f0 l) (l_f1 l) (l_expr l) (firstn m (l_ci l)) (firstn m (l_ri l)) (firstn m (l_ns l))
            (l_xi l) (l_xv l) (l_raised l)
  | HTrunc2 =>
      mkLoc (l_str l) (l_sym l) (l_subs l) (l_f0 l) (l_f1 l) (l_expr l) (l_ci l) (l_ri l) (l_ns l)
            (firstn (length (l_xv l)) (l_xi l)) (l_xv l) (l_raised l)
  | HUnmerge => l
  end.

(* None = an exception other than the timeout escapes the block (UnboundLocalError) *)
Definition run_block (k : kind) (b : blk) (l : loc) : option loc :=
  match exec_evs (executed b) l with
  | None => None
  | Some l' => Some (if is_cut b then apply_handler (handler_of k) (l_str l) (l_sym l) l' else l')
  end.

(* values appended by the executed part of a block *)
Definition vals_of (f : eff -> bool) (es : list ev) : list nat := map snd (filter (fun e => f (fst e)) es).
Definition is_sub (f : eff) := match f with ESub => true | _ => false end.
Definition is_ci (f : eff) := match f with ECi => true | _ => false end.
Definition is_ri (f : eff) := match f with ERi => true | _ => false end.
Definition is_ns (f : eff) := match f with ENs => true | _ => false end.
Definition is_xi (f : eff) := match f with EXi => true | _ => false end.
Definition is_xv (f : eff) := match f with EXv => true | _ => false end.
Definition is_str (f : eff) := match f with EStr => true | _ => false end.
Definition appended (b : blk) : list sub := vals_of is_sub (executed b).

(* the paired appends of KC/KD (three lists) and KX (two lists) come in whole groups in a trace
   that runs to its end *)
Definition aligned (t : list (list ev)) : bool :=
  let es := concat t in
  (length (vals_of is_ci es) =? length (vals_of is_ri es)) && (length (vals_of is_ri es) =? length (vals_of is_ns es))
  && (length (vals_of is_xi es) =? length (vals_of is_xv es)).

(* every read of f1 / expr in the executed part finds it bound (b1, bx: bound at block entry) *)
Fixpoint guarded_evs (es : list ev) (b1 bx : bool) : bool * bool * bool :=
  match es with
  | [] => (true, b1, bx)
  | (EBind F1, _) :: r => guarded_evs r true bx
  | (EBind EXPR, _) :: r => guarded_evs r b1 true
  | (EUse F1, _) :: r => if b1 then guarded_evs r b1 bx else (false, b1, bx)
  | (EUse EXPR, _) :: r => if bx then guarded_evs r b1 bx else (false, b1, bx)
  | _ :: r => guarded_evs r b1 bx
  end.
(* the same, independently of what was bound before the block: every read follows a binding in the trace itself *)
Definition self_guarded (t : list (list ev)) : bool := fst (fst (guarded_evs (concat t) false false)).
Definition no_reads (t : list (list ev)) : bool :=
  forallb (fun e => match fst e with EUse _ => false | _ => true end) (concat t).

(* ------------------------------------------------------------------ one sympy_simplify call *)

Record gent := mkG { g_str : val; g_sym : val; g_subs : option (list sub) }.     (* all_fun, all_sym, all_inv_subs *)
(* e_alias: inv_subs_fun[i] is the SAME list object as all_inv_subs[i] (slices copy references) *)
Record lent := mkE { e_str : val; e_sym : val; e_subs : option (list sub); e_alias : bool }.
Record frame := mkFr {
  fG : list gent; fL : list lent;
  f_f0 : val; f_f1 : bool; f_expr : bool;
  f_ci : list nat; f_ri : list nat; f_ns : list sub }.

Fixpoint set_nth {A} (n : nat) (x : A) (l : list A) : list A :=
  match l, n with
  | [], _ => []
  | _ :: t, O => x :: t
  | h :: t, S k => h :: set_nth k x t
  end.

Definition is_some {A} (o : option A) : bool := match o with Some _ => true | None => false end.

(* str_fun = all_fun[a:b] etc.: fresh outer lists, shared inner lists *)
Definition reslice (fr : frame) : frame :=
  mkFr (fG fr) (map (fun g => mkE (g_str g) (g_sym g) (g_subs g) (is_some (g_subs g))) (fG fr))
       (f_f0 fr) (f_f1 fr) (f_expr fr) (f_ci fr) (f_ri fr) (f_ns fr).

Definition init_frame (G : list gent) : frame := reslice (mkFr G [] 0 false false [] [] []).

Definition load (i : nat) (fr : frame) : option loc :=
  match nth_error (fL fr) i with
  | Some e => Some (mkLoc (e_str e) (e_sym e) (e_subs e) (f_f0 fr) (f_f1 fr) (f_expr fr) (f_ci fr) (f_ri fr) (f_ns fr) [] [] false)
  | None => None
  end.

(* write the block's result back; an in-place append through an aliased list is seen by all_inv_subs[i] *)
Definition store (i : nat) (l : loc) (fr : frame) : frame :=
  match nth_error (fL fr) i with
  | None => fr
  | Some e =>
    let G' := if e_alias e then
                match nth_error (fG fr) i with
                | Some g => set_nth i (mkG (g_str g) (g_sym g) (l_subs l)) (fG fr)
                | None => fG fr
                end
              else fG fr in
    mkFr G' (set_nth i (mkE (l_str l) (l_sym l) (l_subs l) (e_alias e)) (fL fr))
         (l_f0 l) (l_f1 l) (l_expr l) (l_ci l) (l_ri l) (l_ns l)
  end.

Definition run_block_at (k : kind) (i : nat) (b : blk) (fr : frame) : option frame :=
  match load i fr with
  | None => None
  | Some l => match run_block k b l with Some l' => Some (store i l' fr) | None => None end
  end.

(* for i in range(len(str_fun)): try: with time_limit: ... *)
Fixpoint run_blocks_from (k : kind) (i : nat) (bs : list blk) (fr : frame) : option frame :=
  match bs with
  | [] => Some fr
  | b :: r => match run_block_at k i b fr with Some fr' => run_blocks_from k (S i) r fr' | None => None end
  end.

(* make_changes (one rank): entries whose STRING differs are copied, with their substitution list *)
Fixpoint make_changes_lists (G : list gent) (L : list lent) : list gent :=
  match G, L with
  | g :: G', e :: L' => (if e_str e =? g_str g then g else mkG (e_str e) (e_sym e) (e_subs e)) :: make_changes_lists G' L'
  | _, _ => G
  end.
Definition make_changes (fr : frame) : frame :=
  mkFr (make_changes_lists (fG fr) (fL fr)) (fL fr) (f_f0 fr) (f_f1 fr) (f_expr fr) (f_ci fr) (f_ri fr) (f_ns fr).

Definition mem_nat (x : nat) (l : list nat) : bool := existsb (Nat.eqb x) l.

(* the merge loop after blocks KC / KD; None = IndexError *)
Fixpoint merge_from (n i : nat) (ci ri : list nat) (ns : list sub) (G : list gent) : option (list gent) :=
  match n with
  | O => Some G
  | S n' =>
    match nth_error ci i, nth_error ri i with
    | Some c, Some r =>
      if negb (mem_nat r (firstn i ci)) && negb (mem_nat c (firstn i ci)) then
        match nth_error G c, nth_error G r, nth_error ns i with
        | Some gc, Some gr, Some s =>
            merge_from n' (S i) ci ri ns (set_nth c (mkG (g_str gr) (g_sym gr) (Some (subs_list (g_subs gc) ++ [s]))) G)
        | _, _, _ => None
        end
      else merge_from n' (S i) ci ri ns G
    | _, _ => None
    end
  end.
Definition merge (fr : frame) : option frame :=
  match merge_from (length (f_ci fr)) 0 (f_ci fr) (f_ri fr) (f_ns fr) (fG fr) with
  | Some G' => Some (mkFr G' (fL fr) (f_f0 fr) (f_f1 fr) (f_expr fr) (f_ci fr) (f_ri fr) (f_ns fr))
  | None => None
  end.

Definition reset_lists (fr : frame) : frame :=
  mkFr (fG fr) (fL fr) (f_f0 fr) (f_f1 fr) (f_expr fr) [] [] [].

(* `if sympy.zoo in sym_fun[i].atoms()`: sym_fun[i], str_fun[i] := NaN, 'nan'  (not time-limited) *)
Fixpoint zoo_fix (zs : list (option (val * val))) (L : list lent) : list lent :=
  match zs, L with
  | z :: zs', e :: L' =>
      (match z with Some (s, y) => mkE s y (e_subs e) (e_alias e) | None => e end) :: zoo_fix zs' L'
  | _, _ => L
  end.

Inductive stage :=
| SBlocks (k : kind) (bs : list blk)
| SMakeChanges | SReslice | SReset | SMerge
| SZoo (zs : list (option (val * val))).

Definition run_stage (s : stage) (fr : frame) : option frame :=
  match s with
  | SBlocks k bs => run_blocks_from k 0 bs fr
  | SMakeChanges => Some (make_changes fr)
  | SReslice => Some (reslice fr)
  | SReset => Some (reset_lists fr)
  | SMerge => merge fr
  | SZoo zs => Some (mkFr (fG fr) (zoo_fix zs (fL fr)) (f_f0 fr) (f_f1 fr) (f_expr fr) (f_ci fr) (f_ri fr) (f_ns fr))
  end.

Fixpoint run_stages (ss : list stage) (fr : frame) : option frame :=
  match ss with
  | [] => Some fr
  | s :: r => match run_stage s fr with Some fr' => run_stages r fr' | None => None end
  end.

(* sympy_simplify for max_param > 0 and a non-empty list: As = one entry per parameter pair
   (empty when max_param = 1); perm = (max_param > 1 and check_perm) *)
Definition call_script (As : list (list blk)) (B : list blk) (perm : bool) (C D E : list blk)
                       (Z : list (option (val * val))) : list stage :=
  map (SBlocks KA) As ++ [SBlocks KB B; SMakeChanges; SReslice; SReset]
  ++ (if perm then [SBlocks KC C; SMerge; SReslice] else [])
  ++ [SReset; SBlocks KD D; SMerge; SReslice; SBlocks KE E; SZoo Z; SMakeChanges].

Definition run_call (ss : list stage) (G : list gent) : option (list gent) :=
  match run_stages ss (init_frame G) with Some fr => Some (fG fr) | None => None end.

(* ------------------------------------------------------------------ expand_or_factor *)

(* change_idx / change_vals are shared by all blocks of one call; afterwards
   `for i in range(len(change_idx)): all_sym[keys[change_idx[i]]] = change_vals[i]` *)
Definition xloc (xi : list nat) (xv : list val) : loc := mkLoc 0 0 None 0 false false [] [] [] xi xv false.
Fixpoint run_expand_from (bs : list blk) (xi : list nat) (xv : list val) : option (list nat * list val) :=
  match bs with
  | [] => Some (xi, xv)
  | b :: r => match run_block KX b (xloc xi xv) with
              | Some l => run_expand_from r (l_xi l) (l_xv l)
              | None => None
              end
  end.
(* Some changes = the (index, value) pairs written back; None = IndexError *)
Definition run_expand (bs : list blk) : option (list (nat * val)) :=
  match run_expand_from bs [] [] with
  | Some (xi, xv) => if length xi <=? length xv then Some (combine xi xv) else None
  | None => None
  end.

(* ------------------------------------------------------------------ rounds of do_sympy *)

Fixpoint index_of (x : val) (l : list val) : nat :=
  match l with [] => 0 | y :: r => if x =? y then 0 else S (index_of x r) end.
Definition memv (x : val) (l : list val) : bool := existsb (Nat.eqb x) l.
(* utils.get_unique_indexes: distinct strings in order of first occurrence *)
Fixpoint dedupe_acc (seen : list val) (l : list val) : list val :=
  match l with
  | [] => []
  | x :: r => if memv x seen then dedupe_acc seen r else x :: dedupe_acc (x :: seen) r
  end.
Definition dedupe (l : list val) : list val := dedupe_acc [] l.

(* one sympy_simplify call of a round: the positions (in the round's unique list) of the functions
   with that parameter count, their sympy objects, and the script *)
Record call := mkCall { c_group : list nat; c_syms : list val; c_script : list stage }.

Definition outs := list (val * option (list sub)).   (* per unique: new string, recorded substitutions *)

Fixpoint scatter (group : list nat) (G : list gent) (o : outs) : outs :=
  match group, G with
  | p :: group', g :: G' => scatter group' G' (set_nth p (g_str g, g_subs g) o)
  | _, _ => o
  end.

Fixpoint run_calls (cs : list call) (U : list val) (o : outs) : option outs :=
  match cs with
  | [] => Some o
  | c :: r =>
    let Gin := map (fun ps => mkG (nth (fst ps) U 0) (snd ps) None) (combine (c_group c) (c_syms c)) in
    match run_call (c_script c) Gin with
    | Some Gout => run_calls r U (scatter (c_group c) Gout o)
    | None => None
    end
  end.

Record lib := mkLib { lb_fun : list val; lb_chain : list (list sub) }.

(* one `while old_nuniq != new_nuniq` iteration: uniques, simplify per group, propagate through
   the match indices; chain_i += add[match_i]  (written to inv_subs_<n>_round_<r>.txt and
   concatenated over rounds by duplicate_checker.main) *)
Definition run_round (cs : list call) (lb : lib) : option lib :=
  let U := dedupe (lb_fun lb) in
  match run_calls cs U (map (fun u => (u, None)) U) with
  | None => None
  | Some o =>
    Some (mkLib (map (fun f => fst (nth (index_of f U) o (f, None))) (lb_fun lb))
                (map (fun fc => snd fc ++ subs_list (snd (nth (index_of (fst fc) U) o (fst fc, None))))
                     (combine (lb_fun lb) (lb_chain lb))))
  end.

Fixpoint run_rounds (rs : list (list call)) (lb : lib) : option lib :=
  match rs with
  | [] => Some lb
  | r :: rest => match run_round r lb with Some lb' => run_rounds rest lb' | None => None end
  end.

(* ------------------------------------------------------------------ check_results *)

(* what the try around one function's check ends in *)
Record chk := mkChk { k_s2none : bool;      (* the unique could not be sympified: ValueError before the with *)
                      k_blk : blk }.        (* the KR block (re-apply the chain, compare); ERaise = mismatch / unparsable *)

Definition chk_unmerges (c : chk) : bool :=
  k_s2none c ||
  match run_block KR (k_blk c) (mkLoc 0 0 None 0 false false [] [] [] [] [] false) with
  | Some l => is_cut (k_blk c) || l_raised l
  | None => true
  end.

Record library := mkLibrary { y_orig : list val;           (* all_equations: the functions as generated *)
                              y_uniq : list val; y_match : list nat; y_chain : list (list sub) }.

Definition nonempty {A} (l : list A) : bool := match l with [] => false | _ => true end.

(* the functions check_results looks at: non-trivial chain and equal parameter counts *)
Definition checked (nparam : val -> nat) (y : library) (i : nat) : bool :=
  nonempty (nth i (y_chain y) []) &&
  (nparam (nth i (y_orig y) 0) =? nparam (nth (nth i (y_match y) 0) (y_uniq y) 0)).

(* order = the shuffled visiting order; cs = one outcome per visited function *)
Fixpoint to_change (nparam : val -> nat) (y : library) (order : list nat) (cs : list chk) : list nat :=
  match order, cs with
  | i :: order', c :: cs' =>
      if checked nparam y i then (if chk_unmerges c then i :: to_change nparam y order' cs' else to_change nparam y order' cs')
      else to_change nparam y order' cs
  | _, _ => []
  end.

Definition check_results (nparam : val -> nat) (y : library) (order : list nat) (cs : list chk) : library :=
  let tc := to_change nparam y order cs in
  let newu := dedupe (map (fun i => nth i (y_orig y) 0) tc) in
  mkLibrary (y_orig y) (y_uniq y ++ newu)
    (map (fun im => if mem_nat (fst im) tc then length (y_uniq y) + index_of (nth (fst im) (y_orig y) 0) newu else snd im)
         (combine (seq 0 (length (y_match y))) (y_match y)))
    (map (fun ic => if mem_nat (fst ic) tc then [] else snd ic)
         (combine (seq 0 (length (y_chain y))) (y_chain y))).

(* ------------------------------------------------------------------ a whole generation run *)

Record genrun := mkRun {
  gr_rounds1 : list (list call); gr_expand1 : list blk;
  gr_rounds2 : list (list call); gr_expand2 : list blk;
  gr_order : list nat; gr_checks : list chk }.

(* duplicate_checker.main after initial_sympify: orig = the strings of all functions.
   cancel = simplifier.simplify_inv_subs (subject of C17).  None = the run does not complete. *)
Definition finish (cancel : list sub -> list sub) (orig : list val) (lb : lib) : library :=
  let U := dedupe (lb_fun lb) in
  mkLibrary orig U (map (fun f => index_of f U) (lb_fun lb)) (map cancel (lb_chain lb)).

(* everything before check_results; None = the run does not complete *)
Definition pre_check (cancel : list sub -> list sub) (orig : list val) (r : genrun) : option library :=
  match run_rounds (gr_rounds1 r) (mkLib orig (map (fun _ => []) orig)) with
  | None => None
  | Some lb1 =>
    match run_expand (gr_expand1 r) with
    | None => None
    | Some _ =>
      match run_rounds (gr_rounds2 r) lb1 with
      | None => None
      | Some lb2 =>
        match run_expand (gr_expand2 r) with
        | None => None
        | Some _ => Some (finish cancel orig lb2)
        end
      end
    end
  end.

(* `if compl > 2: simplifier.check_results(dirname, compl)` *)
Definition generate (nparam : val -> nat) (cancel : list sub -> list sub) (n : nat) (orig : list val) (r : genrun)
  : option library :=
  match pre_check cancel orig r with
  | None => None
  | Some y => Some (if 2 <? n then check_results nparam y (gr_order r) (gr_checks r) else y)
  end.

(* ------------------------------------------------------------------ well-formedness of traces (hypotheses of the theorems) *)

Definition eff_eqb (a b : eff) : bool :=
  match a, b with
  | ESym, ESym | EStr, EStr | ESub, ESub | ESave, ESave | ERevert, ERevert
  | ECi, ECi | ERi, ERi | ENs, ENs | EXi, EXi | EXv, EXv | ERaise, ERaise
  | ECatchT, ECatchT | EReraise, EReraise | ECatch, ECatch => true
  | EBind F1, EBind F1 | EBind EXPR, EBind EXPR | EUse F1, EUse F1 | EUse EXPR, EUse EXPR => true
  | _, _ => false
  end.
(* every effect of the trace is an effect of some statement of block k *)
Definition conforms (k : kind) (t : list (list ev)) : bool :=
  forallb (fun e => existsb (fun r => eff_eqb (fst e) (fst r)) (table k)) (concat t).
(* the indices appended to change_indices / ref_indices are positions of all_fun (they come from all_fun.index(..)) *)
Definition in_range (n : nat) (t : list (list ev)) : bool :=
  forallb (fun e => match fst e with ECi | ERi => snd e <? n | _ => true end) (concat t).
Definition blk_ok (k : kind) (n : nat) (t : list (list ev)) : bool :=
  conforms k t && aligned t && self_guarded t && in_range n t.
Definition simplify_kind (k : kind) : bool := match k with KA | KB | KC | KD | KE => true | _ => false end.
Definition stage_ok (n : nat) (s : stage) : bool :=
  match s with
  | SBlocks k bs => simplify_kind k && (length bs =? n) && forallb (fun b => blk_ok k n (fst b)) bs
  | _ => true
  end.

(* the check consumed for function i by check_results' loop *)
Fixpoint chk_for (nparam : val -> nat) (y : library) (order : list nat) (cs : list chk) (i : nat) : option chk :=
  match order, cs with
  | j :: order', c :: cs' =>
      if checked nparam y j then (if j =? i then Some c else chk_for nparam y order' cs' i)
      else chk_for nparam y order' cs i
  | _, _ => None
  end.

(* a call of a round is well formed: one sympy object per function of the group, well-formed stages *)
Definition call_ok (c : call) : bool :=
  (length (c_group c) =? length (c_syms c)) && forallb (stage_ok (length (c_group c))) (c_script c).
Definition expand_ok (bs : list blk) : bool := forallb (fun b => conforms KX (fst b) && aligned (fst b)) bs.
Definition run_ok (r : genrun) : bool :=
  forallb (forallb call_ok) (gr_rounds1 r) && expand_ok (gr_expand1 r) &&
  forallb (forallb call_ok) (gr_rounds2 r) && expand_ok (gr_expand2 r).

(* ------------------------------------------------------------------ a concrete execution used as a witness *)

(* one function with two parameters (so block KA runs once), strings/objects 1/2.  Block KA substitutes, appends
   'nan' and is cut before it prints the new string; block KB then completes a substitution and prints. *)
Definition stale_witness_script : list stage :=
  call_script
    [[([[(EBind EXPR, 0)]; [(EBind F1, 0)]; [(ESym, 3)]; [(ESub, NAN)]; [(EStr, 4)]], Some 4)]]
    [([[(ESave, 0)]; [(ESym, 5)]; [(ESub, 7)]; [(EStr, 6)]], None)]
    false [] [([], None)] [([], None)] [None].
(* the same call with the cut block skipped altogether *)
Definition stale_witness_skipped : list stage :=
  call_script
    [[([], None)]]
    [([[(ESave, 0)]; [(ESym, 5)]; [(ESub, 7)]; [(EStr, 6)]], None)]
    false [] [([], None)] [([], None)] [None].

(* a whole run around that call: one round, an expansion cut between its two appends, a check_results whose only
   comparison is cut *)
Definition ex_run : genrun :=
  mkRun [[mkCall [0] [2] stale_witness_script]] [([[(EXi, 0)]; [(EXv, 5)]], Some 1)] [] [] [0]
        [mkChk false ([[(ERaise, 0)]], Some 0)].
