(* C05 -- model of esr/fitting/match.py : main, the body of the loop over variants
   (lines 64-235) as a total function [row] of
     nll      the unique function's negative log-likelihood        negloglike[index]
     nparams  number of parameters of the VARIANT's string          count_params([fcn_i])
     maxp     number of parameter columns of the files              params_meas.shape[1]
     theta    the unique function's fitted parameters (maxp of them) params_meas[index,:]
     flat     the unique function's flattened upper-triangular Hessian all_fish[index,:]
     chain    the variant's list of recorded substitutions           all_inv_subs_proc[i]
     fop      the variant's likelihood as a function of its parameter vector (an oracle:
              run_sympify + lambdify of the variant's own string + likelihood.negloglike;
              for one parameter the code calls f1(p) = negloglike([p]) -- the same function)
     reeval   whether run_sympify / lambdify / the first evaluation at the snapped parameters
              went through (true), or raised (false: NameError with try_integration=False, or any
              other exception -> negloglike = nan and reeval_failed, lines 143-160; such a variant
              gets codelen = nan and is not searched, lines 165-169)

   Faithful to what the code DOES, in particular
     * the guard (line 90) excludes exactly the chains with a non-dict ('nan') step;
     * the subset search (lines 170-183): `break` leaves only the inner loop, so every
       subset size down to 1 is tried and the state after the loops is that of the LAST
       round (singletons);  test_all_Fisher.py was repaired, match.py was not;
     * `kept_mask[idx] = 0` with the tuple idx is numpy multi-dimensional indexing: fine for
       a 1-tuple, IndexError for longer ones (modelled as PyError; never reached, see
       MatchProofs.row_never_pyerror);
     * a NaN re-evaluation falls through with the snapped zeros still in p (-> ln 0);
     * an infinite re-evaluation restores everything and sets fish = 12/p^2 on the
       snapped positions;
     * k == 0 leaves codelen = 0 and params = 0.
   The code length is returned as a structure; its value is
       CVal v            : v
       CLen k ts         : -(k/2) ln 3 + sum over (F,p) in ts of (1/2 ln F + ln|p|)
   (float semantics: ln 0 = -inf, ln inf = inf, NaN propagates).
   No proofs in this file. *)
From Coq Require Import QArith ZArith List Bool Arith.
From ESRV Require Import Model.Subs.
Import ListNotations.

(* ------------------------------------------------------------------ tests on floats *)
(* a <= 0   (False for NaN) *)
Definition le0 (a : xq) : bool := match a with Fin q => Qle_bool q 0 | NInf => true | _ => false end.
(* Delta = sqrt(12/F) (inf where F == 0), Nsteps = |p|/Delta (nan where Delta == 0).
   For the values of F that get past `fish <= 0`:  F positive finite: Nsteps<1 <=> p^2 F < 12
   (MatchRealProofs.nsteps_lt1_equiv);  F = +inf: Delta = 0, Nsteps = nan;  F = NaN: Nsteps = nan. *)
Definition lt1 (p : Q) (a : xq) : bool :=
  match a with Fin q => Qlt_b 0 q && Qlt_b (p * p * q) 12 | _ => false end.
Definition ge1 (p : Q) (a : xq) : bool :=
  match a with Fin q => Qlt_b 0 q && Qle_bool 12 (p * p * q) | _ => false end.

(* ------------------------------------------------------------------ list idioms *)
Definition map2 {A B C} (f : A -> B -> C) (l1 : list A) (l2 : list B) : list C :=
  map (fun p => f (fst p) (snd p)) (combine l1 l2).
Definition enum {A} (l : list A) : list (nat * A) := combine (seq 0 (length l)) l.
Definition memn (i : nat) (l : list nat) : bool := existsb (Nat.eqb i) l.
(* p = copy(ptrue); for i in idx: p[i] = 0. *)
Definition zero_at (idx : list nat) (th : list Q) : list Q :=
  map (fun p : nat * Q => if memn (fst p) idx then 0%Q else snd p) (enum th).
(* p[m] = 0.  for a boolean mask m *)
Definition zero_mask (m : list bool) (th : list Q) : list Q :=
  map (fun p : bool * Q => if fst p then 0%Q else snd p) (combine m th).
(* mask[idx] = 0 *)
Definition clear_at (idx : list nat) (m : list bool) : list bool :=
  map (fun p : nat * bool => if memn (fst p) idx then false else snd p) (enum m).
(* np.arange(n)[m] *)
Definition idx_of (m : list bool) : list nat := map fst (filter snd (enum m)).
(* a[m] *)
Definition select {A} (m : list bool) (l : list A) : list A := map snd (filter fst (combine m l)).
Definition count (m : list bool) : nat := length (filter (fun b : bool => b) m).
Definition anyb (m : list bool) : bool := existsb (fun b : bool => b) m.
(* np.pad(p, (0, maxp - len(p))) *)
Definition pad (maxp : nat) (th : list Q) : list Q := th ++ repeat 0%Q (maxp - length th).

(* itertools.combinations(l, r), in itertools' order *)
Fixpoint combs {A} (l : list A) (r : nat) {struct l} : list (list A) :=
  match l with
  | [] => match r with O => [[]] | S _ => [] end
  | x :: t => match r with
              | O => [[]]
              | S r' => map (cons x) (combs t r') ++ combs t r
              end
  end.

(* ------------------------------------------------------------------ inputs and results *)
Inductive step :=
| SDict (s : subst)       (* a dictionary of the executable family *)
| SNan                    (* 'nan': an unrecoverable transformation *)
| SRaise.                 (* a dictionary on which convert_params raises (oracle outcome) *)

Definition is_nan_step (s : step) : bool := match s with SNan => true | _ => false end.
Definition is_raise_step (s : step) : bool := match s with SRaise => true | _ => false end.
Definition dicts (chain : list step) : list subst :=
  flat_map (fun s => match s with SDict d => [d] | _ => [] end) chain.

Inductive clen := CVal (v : xq) | CLen (k : Z) (terms : list (xq * Q)).

Record result := mkRow {
  r_nll : xq;             (* column 0: negloglike_all[i] *)
  r_len : clen;           (* column 1: codelen[i] *)
  r_params : list Q;      (* columns 3.. : params[i,:] *)
  r_kept : list bool }.   (* ghost: kept_mask ([] where the code has none) *)

Inductive outcome :=
| Ret (r : result)
| Irregular               (* convert_params met a reciprocal at 0; the code length is inf or NaN (harness-checked) *)
| Quit                    (* k < 0: quit() *)
| PyError.                (* NameError on `idx` / IndexError on kept_mask[idx] -- escapes main *)

Definition zeros (maxp : nat) : list Q := repeat 0%Q maxp.

(* ------------------------------------------------------------------ subset search, lines 170-183 *)
Record sstate := mkSS { s_p : list Q; s_nll : xq; s_idx : option (list nat) }.

(* for idx in combinations(try_idx, r): p = copy(ptrue) with idx zeroed; nll = fop(p);
   if isfinite(nll): break *)
Fixpoint inner (fop : list Q -> xq) (ptrue : list Q) (cs : list (list nat)) (st : sstate) : sstate :=
  match cs with
  | [] => st
  | idx :: rest =>
      let p := zero_at idx ptrue in
      let v := fop p in
      let st' := mkSS p v (Some idx) in
      if isfin v then st' else inner fop ptrue rest st'
  end.
(* for r in reversed(range(1, len(try_idx))): <inner loop>          -- no break here *)
Fixpoint outer (fop : list Q -> xq) (ptrue : list Q) (try_idx : list nat) (rs : list nat) (st : sstate) : sstate :=
  match rs with
  | [] => st
  | r :: rest => outer fop ptrue try_idx rest (inner fop ptrue (combs try_idx r) st)
  end.
Definition search (fop : list Q -> xq) (ptrue : list Q) (try_idx : list nat) (st : sstate) : sstate :=
  outer fop ptrue try_idx (rev (seq 1 (length try_idx - 1))) st.

(* lines 205-235 after a finite re-evaluation: k<0 / k==0 / formula, masks, padding.
   ptrue = transferred parameters, cur = p as left by the snapping code *)
Definition finish (maxp : nat) (ptrue cur : list Q) (fish : list xq) (nll : xq) (k : Z) (kept : list bool) : outcome :=
  if (k <? 0)%Z then Quit
  else if (k =? 0)%Z then Ret (mkRow nll (CLen 0 []) (zeros maxp) kept)          (* `continue`: codelen and params stay 0 *)
  else Ret (mkRow nll (CLen k (combine (select kept fish) (select kept cur)))
                  (pad maxp (zero_mask (map negb kept) ptrue)) kept).

(* 12./(p**2) *)
Definition twelve_over_sq (p : Q) : xq := if Qeq_bool p 0 then PInf else Fin (12 / (p * p)).

(* lines 104-235, after convert_params returned (p, fish) *)
Definition snap (maxp : nat) (p : list Q) (fish : list xq) (nll : xq) (reeval : bool) (fop : list Q -> xq) : outcome :=
  let n := length p in
  if existsb le0 fish then Ret (mkRow nll (CVal PInf) (zeros maxp) [])              (* line 104 *)
  else
  let m := map2 lt1 p fish in                                                       (* Nsteps < 1 *)
  if negb (anyb m) then                                                              (* line 214 *)
    Ret (mkRow nll (CLen (Z.of_nat n) (combine fish p)) (pad maxp p) (repeat true n))
  else
    let p0 := zero_mask m p in                                                       (* line 127 *)
    let nll0 := if reeval then fop p0 else NaN in                                    (* lines 131-160 *)
    if isfin nll0 then                                                               (* line 162 *)
      finish maxp p p0 fish nll0 (Z.of_nat n - Z.of_nat (count m)) (map2 ge1 p fish)
    else if negb reeval then Ret (mkRow NaN (CVal NaN) (zeros maxp) [])              (* line 165: reeval_failed *)
    else
      let st := search fop p (idx_of m) (mkSS p0 nll0 None) in
      let ones := repeat true n in
      if isfin (s_nll st) then                                                       (* line 185 *)
        match s_idx st with
        | None => PyError
        | Some [j] => finish maxp p (s_p st) fish (s_nll st) (Z.of_nat n - 1) (clear_at [j] ones)
        | Some _ => PyError
        end
      else if isinf (s_nll st) then                                                  (* line 188: infinite nll *)
        let fish' := map (fun t : bool * (Q * xq) => if fst t then twelve_over_sq (fst (snd t)) else snd (snd t))
                         (combine m (combine p fish)) in
        Ret (mkRow nll (CLen (Z.of_nat n) (combine fish' p)) (pad maxp p) ones)
      else                                                                           (* NaN: falls through to line 205 *)
        finish maxp p (s_p st) fish (s_nll st) (Z.of_nat n) ones.

(* lines 68-235 *)
Definition row (maxp nparams : nat) (nll : xq) (theta : list Q) (flat : list xq) (chain : list step)
               (reeval : bool) (fop : list Q -> xq) : outcome :=
  if isnan nll || isinf nll then Ret (mkRow nll (CVal NaN) (zeros maxp) [])          (* line 78 *)
  else if (nparams =? 0)%nat then Ret (mkRow nll (CLen 0 []) (zeros maxp) [])        (* line 82 *)
  else if existsb is_nan_step chain then Ret (mkRow nll (CVal PInf) (zeros maxp) []) (* line 90 *)
  else if existsb is_raise_step chain then Ret (mkRow nll (CVal PInf) (zeros maxp) [])   (* line 99 *)
  else
    match convert nparams maxp (firstn nparams theta) flat (dicts chain) with
    | ConvRaise => Ret (mkRow nll (CVal PInf) (zeros maxp) [])                       (* line 99 *)
    | ConvIrregular => Irregular
    | ConvOK p fish => snap maxp p fish nll reeval fop
    end.

(* ------------------------------------------------------------------ helpers for cases.v *)
(* table-driven likelihood: keyed on WHICH entries of the argument are zero *)
Fixpoint lb_eqb (a b : list bool) : bool :=
  match a, b with
  | [], [] => true
  | x :: r, y :: s => Bool.eqb x y && lb_eqb r s
  | _, _ => false
  end.
Definition tbl_fop (tbl : list (list bool * xq)) (dflt : xq) (th : list Q) : xq :=
  let k := map (fun t => Qeq_bool t 0) th in
  match find (fun e => lb_eqb (fst e) k) tbl with Some e => snd e | None => dflt end.

(* encodings printed by cases.v and parsed by the harness *)
Definition enc_q (q : Q) : list Z := let r := Qred q in [Qnum r; Zpos (Qden r)].
Definition enc_x (a : xq) : list Z :=
  match a with
  | Fin q => 1%Z :: enc_q q
  | PInf => [2; 0; 1]
  | NInf => [3; 0; 1]
  | NaN => [4; 0; 1]
  end%Z.
Definition enc_len (c : clen) : list Z :=
  match c with
  | CVal v => 0%Z :: enc_x v
  | CLen k ts => 1%Z :: k :: flat_map (fun p => enc_x (fst p) ++ enc_q (snd p)) ts
  end.
(* [tag; nll; codelen...] , params *)
Definition enc_out (o : outcome) : list Z * list (list Z) :=
  match o with
  | Ret r => (0%Z :: enc_x (r_nll r) ++ enc_len (r_len r), map enc_q (r_params r))
  | Irregular => ([1%Z], [])
  | Quit => ([2%Z], [])
  | PyError => ([3%Z], [])
  end.

Record ccase := mkCase {
  c_maxp : nat; c_nparams : nat; c_nll : xq; c_theta : list Q; c_flat : list xq; c_chain : list step;
  c_reeval : bool; c_tbl : list (list bool * xq); c_dflt : xq }.
Definition run_case (c : ccase) : outcome :=
  row (c_maxp c) (c_nparams c) (c_nll c) (c_theta c) (c_flat c) (c_chain c) (c_reeval c)
      (tbl_fop (c_tbl c) (c_dflt c)).
