(* C10 -- control flow of esr/fitting/test_all.py: optimise_fun (and the row logic of main),
   with the numerical pieces as arguments.  Model only: no proofs in this file.

   Arguments (Section variables):
     chi2   : the likelihood on a decoded parameter vector (likelihood.negloglike o eq_numpy);
     oracle : scipy.optimize.minimize as seen by optimise_fun: the k-th call (k counts calls
              from 0) with start vector [start] and the [signs] argument of chi2_fcn gives an
              OptimizeResult (x, fun, success) or raises;
     rnd    : the stream of np.random.uniform(pmin,pmax) draws (i-th draw).

   Values (res['fun'], chi2_min) are Common/XZ.v's [xz]: a finite value z stands for z/8,
   so the thresholds 2, 0.5 and 1e100 of the code are 16, 4 and 8*float(1e100) (exact).
   Parameters are kept symbolic: [Lin x] is x, [Pow10 neg x] is (+/-)10**x. *)
From Coq Require Import ZArith List Bool.
From ESRV Require Import Common.XZ.
Import ListNotations.
Open Scope Z_scope.

(* ---- chi2_fcn's reparametrisation -------------------------------------------------- *)
Inductive sgn := SNone | SPlus | SMinus.              (* None | '+' | '-' *)
Inductive par := Lin (x : Z) | Pow10 (neg : bool) (x : Z).

Definition dec1 (s : sgn) (x : Z) : par :=
  match s with SNone => Lin x | SPlus => Pow10 false x | SMinus => Pow10 true x end.
Fixpoint dec_list (ss : list sgn) (x : list Z) : list par :=
  match ss, x with
  | s :: sr, xi :: xr => dec1 s xi :: dec_list sr xr
  | _, _ => []
  end.
(* p of chi2_fcn(x, ..., signs): signs None => p = x; else p[i] from signs[i], x[i] *)
Definition decode (signs : option (list sgn)) (x : list Z) : list par :=
  match signs with None => map Lin x | Some ss => dec_list ss x end.

(* value of a parameter when the exponent is a non-negative integer (used by the
   correspondence check, which scripts such exponents so that 10.**x is exact) *)
Definition par_eval (p : par) : Z :=
  match p with
  | Lin x => x
  | Pow10 neg x => if neg then - (10 ^ x) else 10 ^ x
  end.

(* ---- oracle answers ------------------------------------------------------------------ *)
Inductive exc := ETimeout | EName | EOther.           (* simplifier.TimeoutException | NameError | any other Exception *)
Inductive answer := Res (x : list Z) (f : xz) (ok : bool) | Raise (e : exc).
Record res := mkRes { r_x : list Z; r_f : xz; r_ok : bool }.

Inductive outcome :=
| Ret (v : xz) (params : list par)      (* return chi2_i, params *)
| RaiseValueError                        (* Nconv/Niter validation *)
| RaiseNameError.                        (* re-raised NameError *)

Inductive stop := StopCap | StopConv | StopInf | StopExc (e : exc).

(* ---- small numpy pieces -------------------------------------------------------------- *)
Definition isinf (a : xz) : bool := match a with PInf | NInf => true | _ => false end.
Definition xabs (a : xz) : xz :=
  match a with Fin z => Fin (Z.abs z) | NInf => PInf | PInf => PInf | NaN => NaN end.

(* np.argmin on a float list: the first NaN if there is one, else the first minimum *)
Fixpoint argmin_from (i bi : nat) (b : xz) (l : list xz) : nat :=
  match l with
  | [] => bi
  | a :: r => if isnan a then i
              else if xltb a b then argmin_from (S i) i a r
              else argmin_from (S i) bi b r
  end.
Definition np_argmin (l : list xz) : nat :=
  match l with
  | [] => O
  | a :: r => if isnan a then O else argmin_from 1 0 a r
  end.

(* thresholds in units of 1/8 *)
Definition thr_reset : Z := 16.    (* 2.  *)
Definition thr_conv : Z := 4.      (* 0.5 *)
Definition float_1e100 : Z :=
  10000000000000000159028911097599180468360808563945281389781327557747838772170381060813469985856815104.
Definition thr_big : xz := Fin (8 * float_1e100).   (* 1.e100 *)

(* N = P[0] + P[1]*n + P[2]*n**2 + ... *)
Fixpoint poly_from (i : nat) (n : Z) (P : list Z) : Z :=
  match P with [] => 0 | c :: r => c * n ^ (Z.of_nat i) + poly_from (S i) n r end.
Definition poly (n : Z) (P : list Z) : Z := poly_from 0 n P.

(* simplifier.count_params on one function: has[j] = ("a<j>" in fcn); highest j < max_param, plus 1 *)
Fixpoint count_from (j : nat) (has : list bool) : nat :=
  match has with
  | [] => O
  | h :: r => let k := count_from (S j) r in
              if (0 <? k)%nat then k else if h then S j else O
  end.
Definition count_params (has : list bool) (max_param : nat) : nat := count_from 0 (firstn max_param has).

(* itertools.product([1,-1], repeat=n); true = -1 *)
Fixpoint all_patterns (n : nat) : list (list bool) :=
  match n with
  | O => [[]]
  | S m => map (cons false) (all_patterns m) ++ map (cons true) (all_patterns m)
  end.

Definition signs_of (p : list bool) : option (list sgn) :=
  Some (map (fun b : bool => if b then SMinus else SPlus) p).

(* ---- the three regimes ------------------------------------------------------------------ *)
Inductive mode := MLin | MLog1 | MLog2.
Definition mode_of (nparam : nat) (log_opt : bool) : mode :=
  if (2 <? nparam)%nat then MLin
  else if (nparam =? 2)%nat then (if log_opt then MLog2 else MLin)
  else (if log_opt then MLog1 else MLin).
(* number of np.random.uniform draws per iteration *)
Definition ndraws (nparam : nat) : nat :=
  if (2 <? nparam)%nat then nparam else if (nparam =? 2)%nat then 2%nat else 1%nat.

(* the minimize calls of one iteration, in program order, each with the mult_arr the code
   installs when that call's result is chosen (true = -1 at that index) *)
Definition branches (md : mode) : list (option (list sgn) * list bool) :=
  match md with
  | MLin => [(None, [])]
  | MLog1 => [(Some [SPlus], [false]); (Some [SMinus], [true])]
  | MLog2 => [(Some [SPlus; SPlus], [false; false]);      (* res_pp *)
              (Some [SMinus; SPlus], [true; false]);      (* res_mp: mult_arr[0] = -1 *)
              (Some [SPlus; SMinus], [false; true]);      (* res_pm: mult_arr[1] = -1 *)
              (Some [SMinus; SMinus], [true; true])]      (* res_mm *)
  end.

(* which of the iteration's results becomes `res` *)
Definition select (md : mode) (rs : list res) : option nat :=
  match md, rs with
  | MLin, [_] => Some O
  | MLog1, [p; m] =>
      Some (if xltb (r_f p) (r_f m) then O else if xltb (r_f m) (r_f p) then 1%nat else O)
  | MLog2, [_; _; _; _] => Some (np_argmin (map r_f rs))
  | _, _ => None
  end.

(* 10.**best.x * mult_arr_best, elementwise (mult beyond its list is +1) *)
Fixpoint pow_params (x : list Z) (m : list bool) : list par :=
  match x with
  | [] => []
  | xi :: xr => Pow10 (hd false m) xi :: pow_params xr (tl m)
  end.
Definition zeros (max_param : nat) : list par := repeat (Lin 0) max_param.
(* np.pad(..., (0, max_param-len(best.x))): None = ValueError (negative pad width) *)
Definition params_of (flag_three : bool) (max_param : nat) (x : list Z) (m : list bool) : option (list par) :=
  if (max_param <? length x)%nat then None
  else Some ((if flag_three then map Lin x else pow_params x m) ++ repeat (Lin 0) (max_param - length x)).

(* ---- loop state ------------------------------------------------------------------------- *)
Record st := mkSt {
  s_min : xz;                                 (* chi2_min *)
  s_best : option (list Z * list bool);       (* best.x, mult_arr_best (unbound = None) *)
  s_cl : Z;                                   (* count_lowest *)
  s_inf : Z                                   (* inf_count *)
}.
Definition st0 : st := mkSt PInf None 0 0.

Inductive upd := Cont (s : st) | Break (s : st) (why : stop).

(* the body of the loop after `res` is chosen and the success test passed *)
Definition update (Nconv : Z) (s : st) (r : res) (m : list bool) : upd :=
  let ic := if isinf (r_f r) then s_inf s + 1 else s_inf s in
  if (ic =? 50) && isinf (s_min s) then Break (mkSt (s_min s) (s_best s) (s_cl s) ic) StopInf
  else
    let d := xsub (r_f r) (s_min s) in
    let cl1 := if xltb d (Fin (- thr_reset)) then 0 else s_cl s in
    let cl2 := if xltb (xabs d) (Fin thr_conv) then cl1 + 1 else cl1 in
    let s' := if xltb (r_f r) (s_min s)
              then mkSt (r_f r) (Some (r_x r, m)) cl2 ic
              else mkSt (s_min s) (s_best s) cl2 ic in
    if cl2 =? Nconv then Break s' StopConv else Cont s'.

Section Opt.
Variable chi2 : list par -> xz.
Variable oracle : nat -> list Z -> option (list sgn) -> answer.
Variable rnd : nat -> Z.

(* calls k, k+1, ... for the given sign arguments, stopping at the first that raises *)
Fixpoint call_all (k : nat) (start : list Z) (brs : list (option (list sgn))) : list res * option exc :=
  match brs with
  | [] => ([], None)
  | b :: r =>
      match oracle k start b with
      | Res x f ok => let '(l, e) := call_all (S k) start r in (mkRes x f ok :: l, e)
      | Raise e => ([], Some e)
      end
  end.

Section Loop.
Variable md : mode.
Variable nd : nat.            (* draws per iteration *)
Variable test_success : bool.
Variable Nconv : Z.

Definition nb : nat := length (branches md).
Definition start_of (j : nat) : list Z := map rnd (seq (j * nd) nd).
Definition iter_calls (j : nat) : list res * option exc :=
  call_all (j * nb) (start_of j) (map fst (branches md)).

(* what iteration j chooses as (res, mult_arr); None if a call raised *)
Definition sel (j : nat) : option (res * list bool) :=
  match iter_calls j with
  | (rs, None) =>
      match select md rs with
      | Some i => match nth_error rs i, nth_error (branches md) i with
                  | Some r, Some b => Some (r, snd b)
                  | _, _ => None
                  end
      | None => None
      end
  | (_, Some _) => None
  end.
Definition accepted (r : res) : bool := negb (test_success && negb (r_ok r)).

(* `for j in range(Niter)`, n iterations left, j the current index.
   Returns (number of iterations begun, state, why the loop ended). *)
Fixpoint loop (n : nat) (j : nat) (s : st) : nat * st * stop :=
  match n with
  | O => (j, s, StopCap)
  | S n' =>
      match iter_calls j with
      | (_, Some e) => (S j, s, StopExc e)
      | (_, None) =>
          match sel j with
          | None => (S j, s, StopExc EOther)        (* unreachable: see OptimiseProofs.sel_total *)
          | Some (r, m) =>
              if accepted r then
                match update Nconv s r m with
                | Cont s' => loop n' (S j) s'
                | Break s' why => (S j, s', why)
                end
              else loop n' (S j) s                   (* `continue` *)
          end
      end
  end.

(* the (start, signs) arguments of the oracle calls, in order *)
Definition iter_log (j : nat) : list (list Z * option (list sgn)) :=
  map (fun b => (start_of j, fst b)) (branches md).
Definition log_upto (j : nat) : list (list Z * option (list sgn)) :=
  flat_map iter_log (seq 0 j).
Definition run_log (jend : nat) (why : stop) : list (list Z * option (list sgn)) :=
  match why with
  | StopExc _ => log_upto (jend - 1) ++ firstn (S (length (fst (iter_calls (jend - 1))))) (iter_log (jend - 1))
  | _ => log_upto jend
  end.
End Loop.

(* ---- optimise_fun ------------------------------------------------------------------------- *)
Inductive sym_outcome := SymOk (has_a0 : bool) | SymExc (e : exc).   (* likelihood.run_sympify; "a0" in the returned string *)

Record cfg := mkCfg {
  c_has : list bool;             (* which "a<j>" occur in fcn_i *)
  c_max_param : nat;
  c_comp : Z;
  c_ignore_prev : bool;
  c_in_prev : bool;              (* fcn_i in previous_fns *)
  c_log_opt : bool;
  c_test_success : bool;
  c_Niter_params : list Z;
  c_Nconv_params : list Z;
  c_sym : sym_outcome;
  c_xvar : bool;                 (* likelihood has an attribute xvar *)
  c_nanpat : list bool -> bool   (* eq_numpy(xvar, *p) has a NaN, p by sign pattern (true = -1) *)
}.

Record output := mkOut {
  o_ret : outcome;
  o_calls : nat;                                     (* oracle calls made *)
  o_log : list (list Z * option (list sgn));         (* their (start, signs) *)
  o_iters : nat;                                     (* iterations begun *)
  o_stop : option stop                               (* None: the loop was not reached *)
}.
Definition early (r : outcome) : output := mkOut r 0 [] 0 None.

Definition c_nparam (c : cfg) : nat := count_params (c_has c) (c_max_param c).
Definition c_Niter (c : cfg) : Z := poly (Z.of_nat (c_nparam c)) (c_Niter_params c).
Definition c_Nconv (c : cfg) : Z := poly (Z.of_nat (c_nparam c)) (c_Nconv_params c).
Definition c_mode (c : cfg) : mode := mode_of (c_nparam c) (c_log_opt c).
Definition flag_three (md : mode) : bool := match md with MLin => true | _ => false end.
Definition bad_fun (c : cfg) : bool :=
  negb (c_xvar c) || forallb (c_nanpat c) (all_patterns (c_nparam c)).

(* after the loop: `if chi2_min < 1.e100: ...; chi2_i = chi2_min` *)
Definition finish (md : mode) (max_param : nat) (s : st) : outcome :=
  if xltb (s_min s) thr_big then
    match s_best s with
    | Some (x, m) => match params_of (flag_three md) max_param x m with
                     | Some p => Ret (s_min s) p
                     | None => Ret NaN (zeros max_param)          (* except Exception *)
                     end
    | None => RaiseNameError                                     (* `best` unbound; unreachable *)
    end
  else Ret (s_min s) (zeros max_param).
(* except simplifier.TimeoutException *)
Definition finish_timeout (md : mode) (max_param : nat) (s : st) : outcome :=
  if xltb (s_min s) thr_big then
    match s_best s with
    | Some (x, m) => match params_of (flag_three md) max_param x m with
                     | Some p => Ret (s_min s) p
                     | None => Ret NaN (zeros max_param)
                     end
    | None => Ret NaN (zeros max_param)
    end
  else Ret NaN (zeros max_param).

Definition after_loop (md : mode) (max_param : nat) (s : st) (why : stop) : outcome :=
  match why with
  | StopExc EName => RaiseNameError
  | StopExc ETimeout => finish_timeout md max_param s
  | StopExc EOther => Ret NaN (zeros max_param)
  | _ => finish md max_param s
  end.

Definition ncalls (md : mode) (nd : nat) (jend : nat) (why : stop) : nat :=
  match why with
  | StopExc _ => ((jend - 1) * nb md + S (length (fst (iter_calls md nd (jend - 1)))))%nat
  | _ => (jend * nb md)%nat
  end.

Definition optimise (c : cfg) : output :=
  let nparam := c_nparam c in
  let mp := c_max_param c in
  if (1 <? c_comp c) && c_ignore_prev c && c_in_prev c then early (Ret PInf (zeros mp))
  else
    let Niter := c_Niter c in
    let Nconv := c_Nconv c in
    if (Nconv <=? 0) || (Niter <=? 0) || (Niter <? Nconv) then early RaiseValueError
    else
      match c_sym c with
      | SymExc EName => early RaiseNameError
      | SymExc _ => early (Ret NaN (zeros mp))
      | SymOk has_a0 =>
          if negb has_a0 then early (Ret (chi2 []) (zeros mp))
          else if (nparam =? 0)%nat then
            (* lambdify([x, a0], eq) called with no parameter: TypeError in the bad_fun sweep *)
            early (if c_xvar c then Ret NaN (zeros mp) else Ret PInf (zeros mp))
          else if bad_fun c then early (Ret PInf (zeros mp))
          else
            let md := c_mode c in
            let nd := ndraws nparam in
            let '(jend, s, why) := loop md nd (c_test_success c) Nconv (Z.to_nat Niter) 0 st0 in
            mkOut (after_loop md mp s why) (ncalls md nd jend why) (run_log md nd jend why) jend (Some why)
      end.

(* ---- main: one row of negloglike_comp<n>.dat --------------------------------------------- *)
Definition main_max_param (comp : Z) : Z := Z.max 4 ((comp - 1) / 2).
(* first = optimise_fun(..., try_integration), second = the retry with try_integration=False *)
Definition main_row (mp : nat) (try_integration : bool) (first second : outcome) : xz * list par :=
  match first with
  | Ret v p => (v, p)
  | RaiseNameError =>
      if try_integration then
        match second with Ret v p => (v, p) | _ => (NaN, zeros mp) end
      else (NaN, zeros mp)
  | RaiseValueError => (NaN, zeros mp)
  end.
End Opt.

(* ---- helpers for generated correspondence files ------------------------------------------ *)
Definition script_oracle (script : list answer) (dflt : answer) : nat -> list Z -> option (list sgn) -> answer :=
  fun k _ _ => nth k script dflt.
Definition stream (l : list Z) : nat -> Z := fun i => nth i l 0.
Definition table_nanpat (t : list (list bool)) : list bool -> bool :=
  fun p => existsb (fun q => if list_eq_dec Bool.bool_dec p q then true else false) t.

(* decidable comparisons and the case record of the correspondence check (data only) *)
Definition xz_same (a b : xz) : bool :=
  match a, b with
  | Fin x, Fin y => x =? y
  | PInf, PInf | NInf, NInf | NaN, NaN => true
  | _, _ => false
  end.
Definition sgn_eqb (a b : sgn) : bool :=
  match a, b with SNone, SNone | SPlus, SPlus | SMinus, SMinus => true | _, _ => false end.
Fixpoint leqb {A} (e : A -> A -> bool) (l1 l2 : list A) : bool :=
  match l1, l2 with
  | [], [] => true
  | x :: r, y :: s => e x y && leqb e r s
  | _, _ => false
  end.
Definition signs_eqb (a b : option (list sgn)) : bool :=
  match a, b with
  | None, None => true
  | Some x, Some y => leqb sgn_eqb x y
  | _, _ => false
  end.
Definition log_eqb (a b : list (list Z * option (list sgn))) : bool :=
  leqb (fun p q => leqb Z.eqb (fst p) (fst q) && signs_eqb (snd p) (snd q)) a b.

Inductive eret := ERet (v : xz) (p : list Z) | EValueError | ENameError.
Definition ret_eqb (o : outcome) (e : eret) : bool :=
  match o, e with
  | Ret v p, ERet v' p' => xz_same v v' && leqb Z.eqb (map par_eval p) p'
  | RaiseValueError, EValueError => true
  | RaiseNameError, ENameError => true
  | _, _ => false
  end.

Record tcase := mkCase {
  t_cfg : cfg; t_nil : xz; t_script : list answer; t_dflt : answer; t_rnd : list Z;
  t_ret : eret; t_log : list (list Z * option (list sgn))
}.
Definition nil_chi2 (v : xz) : list par -> xz := fun p => match p with [] => v | _ => NaN end.
Definition run_case (t : tcase) : output :=
  optimise (nil_chi2 (t_nil t)) (script_oracle (t_script t) (t_dflt t)) (stream (t_rnd t)) (t_cfg t).
Definition case_ok (t : tcase) : bool :=
  let o := run_case t in
  ret_eqb (o_ret o) (t_ret t) && log_eqb (o_log o) (t_log t) && (o_calls o =? length (t_log t))%nat.
