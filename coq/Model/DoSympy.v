(* The duplicate-merging bookkeeping of esr/generation/simplifier.py: do_sympy,
   check_results and esr/generation/duplicate_checker.py: main, with sympy as an ORACLE.

   Strings are abstract identifiers (N); a substitution is an identifier (N, 0 = 'nan');
   a chain is a list of them.  The answers of sympy_simplify (one call per
   parameter-count group per round), the array left by np.random.shuffle, the result of
   simplify_inv_subs and the list `to_change` computed by check_results are INPUTS.
   Everything else -- uniques/matches, scatter of the answers, propagation to all
   functions, the stopping rule of both while loops, the per-round files, their
   re-combination, the shuffle remap, the un-merge -- is computed here.
   No proofs in this file (Proofs/DoSympyProofs.v). *)
From Coq Require Import List Bool Arith NArith.
From ESRV Require Import Model.Uniq.
Import ListNotations.

Notation sid := N (only parsing).                 (* a function string *)
Notation subid := N (only parsing).               (* one recorded substitution string *)
Notation chain := (list N) (only parsing).
Definition nan_sub : subid := 0%N.   (* str(np.nan) *)
Definition has_nan (c : chain) : bool := existsb (N.eqb nan_sub) c.
Definition chain_eqb (a b : chain) : bool :=
  (fix go (a b : chain) := match a, b with
                           | [], [] => true
                           | x :: r, y :: s => N.eqb x y && go r s
                           | _, _ => false
                           end) a b.

(* l[p] = x   (an index beyond the end leaves the list unchanged instead of raising IndexError; every use is in
   range: group positions are < len(uniq_fun) (positions_in), idx-file entries < ntot (rows_aligned), to_change
   entries < ntot by hypothesis) *)
Fixpoint upd {X} (p : nat) (x : X) (l : list X) : list X :=
  match l, p with
  | [], _ => []
  | _ :: r, O => x :: r
  | y :: r, S p' => y :: upd p' x r
  end.
(* for (p, x) in ja: st[p] = x *)
Definition scatter {X} (ja : list (nat * X)) (st : list X) : list X :=
  fold_left (fun st pa => upd (fst pa) (snd pa) st) ja st.

(* one sympy_simplify call returns (f, e, t); the loop `for k in range(len(t))` reads f[k], t[k] *)
Definition answer := list (sid * option chain).
(* the calls of one round, i = 0 .. max_param *)
Definition round_oracle := list answer.

(* uniq_fun[p] together with add_inv_subs[p] *)
Definition ustate := list (sid * option chain).

(* len(set(all_fun)) *)
Definition nuniq (af : list sid) : nat := length (dedup N.eqb af).

Definition chain_or_nil (oc : option chain) : chain := match oc with Some c => c | None => [] end.
Definition is_some {X} (o : option X) : bool := match o with Some _ => true | None => false end.

Section Rounds.
  (* simplifier.count_params(., max_param): the grouping key of do_sympy *)
  Variable cp : sid -> nat.
  Variable max_param : nat.

  (* j = np.atleast_1d(np.squeeze(np.argwhere(nparam == g))) *)
  Definition positions (uniq : list sid) (g : nat) : list nat :=
    filter (fun p => Nat.eqb (cp (nth p uniq 0%N)) g) (seq 0 (length uniq)).

  (* for i in range(max_param+1):
        f = [uniq_fun[jj] for jj in j]; ...; f, e, t = sympy_simplify(f, e, t, i, ...)
        for k in range(len(t)): uniq_fun[j[k]] = f[k]; add_inv_subs[j[k]] = t[k]
     (all_inv_subs is [None]*N at this point, so uniq_inv_subs[...] is None and the
      slice t[k][len(...):] branch is never taken)
     The second component accumulates the argument f of each call, in call order. *)
  Definition group_step (uniq : list sid) (os : round_oracle) (acc : ustate * list (list sid)) (g : nat)
      : ustate * list (list sid) :=
    let st := fst acc in
    let j := positions uniq g in
    let inp := map (fun p => fst (nth p st (0%N, None))) j in
    (scatter (combine j (nth g os [])) st, snd acc ++ [inp]).

  Definition simplify_unique (uniq : list sid) (os : round_oracle) : ustate * list (list sid) :=
    fold_left (group_step uniq os) (seq 0 (S max_param)) (map (fun u => (u, None)) uniq, []).

  (* `if add_inv_subs[m] is not None and len(add_inv_subs[m]) > 0` *)
  Definition norm_add (oc : option chain) : option chain :=
    match oc with Some (s :: c) => Some (s :: c) | _ => None end.

  (* one pass of either while loop of do_sympy: (new all_fun, all_inv_subs, arguments of the calls) *)
  Definition one_round (af : list sid) (os : round_oracle) : list sid * list (option chain) * list (list sid) :=
    let uniq := uniq_keys N.eqb af in
    let mt := gui_match N.eqb af in
    let su := simplify_unique uniq os in
    let st := fst su in
    (* m = match[all_fun[i]]  (never a KeyError: uniq_spec) *)
    let rows := map (fun f => nth (match dget N.eqb f mt with Some m => m | None => 0 end) st (f, None)) af in
    (map fst rows, map (fun r => norm_add (snd r)) rows, snd su).

  (* data = [i for i in range(len(all_inv_subs)) if all_inv_subs[i] is not None]  -> inv_idx_<n>_round_<r>.txt
     data = [all_inv_subs[i] for i in data]                                        -> inv_subs_<n>_round_<r>.txt *)
  Definition inv_idx (inv : list (option chain)) : list nat :=
    map fst (filter (fun ic => is_some (snd ic)) (enumerate inv)).
  Definition inv_rows (inv : list (option chain)) : list chain :=
    map (fun ic => chain_or_nil (snd ic)) (filter (fun ic => is_some (snd ic)) (enumerate inv)).

  Record round_rec := mk_round { rr_fun : list sid; rr_inv : list (option chain); rr_inputs : list (list sid) }.

  (* while old_nuniq != new_nuniq: ... ; the oracle answers of the executed rounds are consumed
     from `os`; None = the recorded run has fewer rounds than the stopping rule demands *)
  Fixpoint phase (os : list round_oracle) (old new : nat) (af : list sid) (acc : list round_rec)
      : option (list sid * nat * list round_rec * list round_oracle) :=
    if Nat.eqb old new then Some (af, new, acc, os)
    else match os with
         | [] => None
         | o :: os' =>
             let r := one_round af o in
             let af' := fst (fst r) in
             phase os' new (nuniq af') af' (acc ++ [mk_round af' (snd (fst r)) (snd r)])
         end.

  (* do_sympy: first loop from (old, new) = (0, len(all_fun)); expand_or_factor changes only sympy
     objects; second loop from (0, new_nuniq of the first loop).  Returns
     (all_fun, rounds, round1_count, unused oracle answers); count = length rounds *)
  Definition do_sympy (af : list sid) (os : list round_oracle)
      : option (list sid * list round_rec * nat * list round_oracle) :=
    match phase os 0 (length af) af [] with
    | None => None
    | Some (af1, new1, r1, os1) =>
        match phase os1 0 new1 af1 r1 with
        | None => None
        | Some (af2, _, r2, os2) => Some (af2, r2, length r1, os2)
        end
    end.
End Rounds.

(* ---------------------------------------------------------------- duplicate_checker.main *)

(* if nextra > 0: all_fun[-nextra:] = [all_fun[f] for f in extra_orig] *)
Definition inherit (E : list sid) (extra_orig : list nat) : list sid :=
  firstn (length E - length extra_orig) E ++ map (fun f => nth f E 0%N) extra_orig.

(* for i, j in enumerate(idx): all_inv_subs[j] = all_inv_subs[j] + inv[i] *)
Definition combine_round (acc : list chain) (idx : list nat) (rows : list chain) : list chain :=
  fold_left (fun acc jr => upd (fst jr) (nth (fst jr) acc [] ++ snd jr) acc) (combine idx rows) acc.
(* all_inv_subs = [[]] * ntot ; for r in range(nround): ... *)
Definition combine_rounds (ntot : nat) (rounds : list (list (option chain))) : list chain :=
  fold_left (fun acc inv => combine_round acc (inv_idx inv) (inv_rows inv)) rounds (repeat [] ntot).

Record library := mk_lib { l_uniq : list sid; l_match : list nat; l_subs : list chain }.

(* check_results, rank-0 tail: to_change = function indices whose map could not be verified (oracle)
     old_match = {f: i for i, f in enumerate(uniq_fun)}
     new_fun = [all_equations[r0] for r0 in to_change if all_equations[r0] not in old_match]
     new_uniq, new_match = get_unique_indexes(new_fun)
     unique file := uniq_fun + list(new_uniq.keys())
     inv_subs[r0] = ""  for r0 in to_change
     matches[r0] = old_match[own] if own in old_match else nuniq + new_match[own]     (own = all_equations[r0]) *)
Definition old_match_of (uniq_fun : list N) : list (N * nat) :=
  fold_left (fun d iv => dset N.eqb (snd iv) (fst iv) d) (enumerate uniq_fun) [].
Definition unmerge (E : list sid) (lib : library) (to_change : list nat) : library :=
  let old_match := old_match_of (l_uniq lib) in
  let own r := nth r E 0%N in
  let new_fun := map own (filter (fun r => negb (dmem N.eqb (own r) old_match)) to_change) in
  let new_uniq_fun := uniq_keys N.eqb new_fun in
  let new_match := gui_match N.eqb new_fun in
  let nu := length (l_uniq lib) in
  mk_lib (l_uniq lib ++ new_uniq_fun)
         (scatter (map (fun r => (r, match dget N.eqb (own r) old_match with
                                     | Some j => j
                                     | None => nu + match dget N.eqb (own r) new_match with Some m => m | None => 0 end
                                     end)) to_change)
                  (l_match lib))
         (scatter (map (fun r => (r, [])) to_change) (l_subs lib)).

Record main_out := mk_out {
  o_a0 : list sid;                    (* all_fun handed to do_sympy *)
  o_rounds : list round_rec;          (* per executed round: all_fun, all_inv_subs, call arguments *)
  o_round1 : nat;                     (* round1_count *)
  o_left : list round_oracle;         (* oracle answers not consumed (must be empty) *)
  o_fun : list sid;                   (* all_fun returned by do_sympy *)
  o_combined : list chain;            (* all_inv_subs before simplify_inv_subs *)
  o_lib : library;                    (* the three files before check_results *)
  o_final : library                   (* ... and after *)
}.

(* cancel c = the row written for chain c after simplify_inv_subs and the None -> [] normalisation;
   check = (compl > 2) *)
Definition main (cp : sid -> nat) (max_param : nat) (E : list sid) (extra_orig : list nat)
    (os : list round_oracle) (perm : list nat) (cancel : chain -> chain) (check : bool) (to_change : list nat)
    : option main_out :=
  let a0 := inherit E extra_orig in
  match do_sympy cp max_param a0 os with
  | None => None
  | Some (af, rounds, r1, rest) =>
      let uniq_fun := uniq_keys N.eqb af in
      let mt := gui_match N.eqb af in
      match shuffle_uniq uniq_fun perm, shuffle_match N.eqb mt perm af with
      | Some uniq', Some midx =>
          let combined := combine_rounds (length af) (map rr_inv rounds) in
          let lib := mk_lib uniq' midx (map cancel combined) in
          Some (mk_out a0 rounds r1 rest af combined lib (if check then unmerge E lib to_change else lib))
      | _, _ => None
      end
  end.

(* ---------------------------------------------------------------- comparison with a recorded run
   (used by the generated correspondence files: the implementation's answers are literals) *)
Fixpoint leqb {X} (e : X -> X -> bool) (a b : list X) : bool :=
  match a, b with
  | [], [] => true
  | x :: r, y :: s => e x y && leqb e r s
  | _, _ => false
  end.
Definition lN_eqb := leqb N.eqb.
Definition llN_eqb := leqb lN_eqb.
Definition nats (l : list nat) : list N := map N.of_nat l.

Record expect := mk_exp {
  e_a0 : list N;                      (* argument all_fun of do_sympy *)
  e_inputs : list (list (list N));    (* per round, per call: argument all_fun of sympy_simplify *)
  e_idx : list (list N);              (* inv_idx_<n>_round_<r>.txt *)
  e_rows : list (list (list N));      (* inv_subs_<n>_round_<r>.txt *)
  e_round1 : N;                       (* rounds before expand_or_factor(method='expand') *)
  e_fun : list N;                     (* all_fun returned by do_sympy *)
  e_combined : list (list N);         (* arguments of simplify_inv_subs, function order *)
  e_lib_uniq : list N; e_lib_match : list N; e_lib_subs : list (list N);        (* files before check_results *)
  e_fin_uniq : list N; e_fin_match : list N; e_fin_subs : list (list N)         (* files at the end *)
}.

(* numbers of the components on which model and recorded run differ (0 = the model stopped with None) *)
Definition check_main (o : option main_out) (e : expect) : list nat :=
  match o with
  | None => [0]
  | Some o =>
      let t (n : nat) (b : bool) := if b then [] else [n] in
      t 1 (lN_eqb (o_a0 o) (e_a0 e))
      ++ t 2 (leqb llN_eqb (map rr_inputs (o_rounds o)) (e_inputs e))
      ++ t 3 (llN_eqb (map (fun r => nats (inv_idx (rr_inv r))) (o_rounds o)) (e_idx e))
      ++ t 4 (leqb llN_eqb (map (fun r => inv_rows (rr_inv r)) (o_rounds o)) (e_rows e))
      ++ t 5 (N.eqb (N.of_nat (o_round1 o)) (e_round1 e))
      ++ t 6 (match o_left o with [] => true | _ => false end)
      ++ t 7 (lN_eqb (o_fun o) (e_fun e))
      ++ t 8 (llN_eqb (o_combined o) (e_combined e))
      ++ t 9 (lN_eqb (l_uniq (o_lib o)) (e_lib_uniq e))
      ++ t 10 (lN_eqb (nats (l_match (o_lib o))) (e_lib_match e))
      ++ t 11 (llN_eqb (l_subs (o_lib o)) (e_lib_subs e))
      ++ t 12 (lN_eqb (l_uniq (o_final o)) (e_fin_uniq e))
      ++ t 13 (lN_eqb (nats (l_match (o_final o))) (e_fin_match e))
      ++ t 14 (llN_eqb (l_subs (o_final o)) (e_fin_subs e))
      ++ t 15 (forallb (fun r => Nat.eqb (length (rr_fun r)) (length (o_a0 o)) && Nat.eqb (length (rr_inv r)) (length (o_a0 o))) (o_rounds o))
  end.

(* finite tables for the oracle-side functions *)
Definition table_fun {Y} (tb : list (N * Y)) (d : Y) (k : N) : Y :=
  match dget N.eqb k tb with Some v => v | None => d end.
Fixpoint chain_table (tb : list (chain * chain)) (c : chain) : chain :=
  match tb with
  | [] => c
  | (a, b) :: r => if chain_eqb a c then b else chain_table r c
  end.

(* ---------------------------------------------------------------- what the files MEAN (spec side)
   den f theta     : the function denoted by string f at parameter vector theta (a value of any type V,
                     e.g. a function of x)
   sden s theta    : the parameter vector produced by substitution s
   npar f          : number of free parameters of f
   convert_params / check_results fold  p = p.subs(s_1).subs(s_2)...subs(s_n)  (simultaneous) from the
   identity, i.e. p(theta) = s_1(s_2(...s_n(theta))). *)
Section Semantics.
  Variable V Env : Type.
  Variable den : sid -> Env -> V.
  Variable sden : subid -> Env -> Env.
  Variable npar : sid -> nat.

  Definition compose (c : chain) (theta : Env) : Env := fold_right (fun s acc => sden s acc) theta c.

  (* "f with the map c substituted is f'": exact when c has no nan; a chain containing nan only claims
     strictly fewer parameters; the number of parameters never grows. *)
  Definition step_sound (f f' : sid) (c : chain) : Prop :=
    npar f' <= npar f /\
    (if has_nan c then npar f' < npar f else forall theta, den f (compose c theta) = den f' theta).

  (* contract of one sympy_simplify call: argument strings inp, returned (string, chain) pairs a *)
  Definition call_sound (inp : list sid) (a : answer) : Prop :=
    forall k f y, nth_error inp k = Some f -> nth_error a k = Some y -> step_sound f (fst y) (chain_or_nil (snd y)).

  (* contract of simplify_inv_subs *)
  Definition cancel_ok (cancel : chain -> chain) : Prop :=
    forall c, has_nan (cancel c) = has_nan c /\ (has_nan c = false -> forall theta, compose (cancel c) theta = compose c theta).

  Variable cp : sid -> nat.
  Variable max_param : nat.

  (* every call of one round honours the contract, on the arguments the model hands to it *)
  Definition round_sound (af : list sid) (os : round_oracle) : Prop :=
    forall g inp, nth_error (snd (one_round cp max_param af os)) g = Some inp -> call_sound inp (nth g os []).

  (* ... along the rounds that the stopping rule executes *)
  Fixpoint phase_sound (os : list round_oracle) (old new : nat) (af : list sid) : Prop :=
    if Nat.eqb old new then True
    else match os with
         | [] => True
         | o :: os' => round_sound af o /\
                       let af' := fst (fst (one_round cp max_param af o)) in phase_sound os' new (nuniq af') af'
         end.
  Definition run_sound (af : list sid) (os : list round_oracle) : Prop :=
    phase_sound os 0 (length af) af /\
    match phase cp max_param os 0 (length af) af [] with
    | Some (af1, new1, _, os1) => phase_sound os1 0 new1 af1
    | None => True
    end.
End Semantics.

(* the recorded substitutions of function i over the rounds, concatenated in round order *)
Definition chain_i (i : nat) (rounds : list (list (option chain))) : chain :=
  flat_map (fun inv => chain_or_nil (nth i inv None)) rounds.
