(* generator.node_to_string: rendering of a labelled tree as a fully parenthesised string,
   modelled on token lists; and a reader for that form.  No proofs. *)
From Coq Require Import String List Bool Arith.
Import ListNotations.
Open Scope string_scope.

Inductive lt :=
| T0 (l : string)
| T1 (l : string) (a : lt)
| T2 (l : string) (a b : lt).

Inductive tok := TL (l : string) | TOpen | TClose | TComma.

Definition is_infix (l : string) : bool :=
  if string_dec l "*" then true else if string_dec l "/" then true
  else if string_dec l "-" then true else if string_dec l "+" then true else false.

(* node_to_string, token by token *)
Fixpoint nts (t : lt) : list tok :=
  match t with
  | T0 l => [TL l]
  | T1 l a => TL l :: TOpen :: nts a ++ [TClose]
  | T2 l a b =>
      if is_infix l then TOpen :: nts a ++ TClose :: TL l :: TOpen :: nts b ++ [TClose]
      else TL l :: TOpen :: nts a ++ TComma :: nts b ++ [TClose]
  end.

Definition tok_text (k : tok) : string :=
  match k with TL l => l | TOpen => "(" | TClose => ")" | TComma => "," end.
Definition render (ts : list tok) : string := fold_right (fun k s => tok_text k ++ s) "" ts.
Definition node_to_string (t : lt) : string := render (nts t).

Fixpoint size (t : lt) : nat :=
  match t with T0 _ => 1 | T1 _ a => S (size a) | T2 _ a b => S (size a + size b) end.

(* reader of the fully parenthesised form *)
Fixpoint parse (fuel : nat) (ts : list tok) : option (lt * list tok) :=
  match fuel with
  | O => None
  | S f =>
    match ts with
    | TOpen :: r =>                                   (* ( A ) op ( B ) *)
        match parse f r with
        | Some (a, TClose :: TL op :: TOpen :: r2) =>
            match parse f r2 with
            | Some (b, TClose :: r3) => if is_infix op then Some (T2 op a b, r3) else None
            | _ => None
            end
        | _ => None
        end
    | TL l :: TOpen :: r =>                            (* l ( A )   or   l ( A , B ) *)
        match parse f r with
        | Some (a, TClose :: r2) => Some (T1 l a, r2)
        | Some (a, TComma :: r2) =>
            match parse f r2 with
            | Some (b, TClose :: r3) => if is_infix l then None else Some (T2 l a b, r3)
            | _ => None
            end
        | _ => None
        end
    | TL l :: r => Some (T0 l, r)
    | _ => None
    end
  end.

(* a following token that cannot be confused with the continuation of a term *)
Definition not_open (ts : list tok) : Prop := match ts with TOpen :: _ => False | _ => True end.
