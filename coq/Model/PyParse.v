(* C12 -- the reading side: a lexer and a recursive-descent parser for the subset of Python's
   expression grammar that ESRPrinter emits

       expr   ::= term (('+'|'-') term)*
       term   ::= factor (('*'|'/') factor)*
       factor ::= '-' factor | power
       power  ::= atom ['**' factor]
       atom   ::= NUMBER | NAME | NAME '(' [expr (',' expr)*] ')' | '(' expr ')'

   (CPython's grammar for these operators: unary minus binds looser than ** on its left,
   "2**-x" is allowed, ** is right associative, * / and + - are left associative), the
   denotation of the parsed tree under the two symbol tables ESR uses when it reads the
   strings back (generation: esr/fitting/sympy_symbols.py sympy_locs via sympy.sympify;
   fitting: Likelihood.run_sympify locals), and the real-number meaning of an sexpr.
   No proofs in this file. *)
From Coq Require Import ZArith NArith List Bool String Ascii DecimalString Decimal Reals.
From ESRV Require Import Model.Printer.
Import ListNotations.

Inductive binop := OAdd | OSub | OMul | ODiv | OPow.
Inductive pyast : Type :=
| PNum (n : N)
| PName (s : string)
| PBin (o : binop) (l r : pyast)
| PNeg (e : pyast)
| PCall (f : string) (args : list pyast).

(* ------------------------------------------------------------------ lexer *)
Definition is_digit (c : ascii) : bool := let n := nat_of_ascii c in (48 <=? n)%nat && (n <=? 57)%nat.
Definition is_alpha (c : ascii) : bool :=
  let n := nat_of_ascii c in
  ((65 <=? n)%nat && (n <=? 90)%nat) || ((97 <=? n)%nat && (n <=? 122)%nat) || (n =? 95)%nat.
Definition is_alnum (c : ascii) : bool := is_alpha c || is_digit c.

(* identifiers as the lexer reads them *)
Fixpoint all_chars (p : ascii -> bool) (s : string) : bool :=
  match s with EmptyString => true | String c r => p c && all_chars p r end.
Definition ident_ok (s : string) : bool :=
  match s with EmptyString => false | String c r => is_alpha c && all_chars is_alnum r end.

Inductive lstate := LNone | LNum (cur : string) | LName (cur : string) | LStar.

Definition num_of_string (s : string) : option N :=
  match NilEmpty.uint_of_string s with Some d => Some (N.of_uint d) | None => None end.

(* close the pending lexeme *)
Definition flush (st : lstate) : option (list token) :=
  match st with
  | LNone => Some []
  | LNum cur => match num_of_string cur with Some n => Some [TNum n] | None => None end
  | LName cur => Some [TName cur]
  | LStar => Some [TStar]
  end.

Definition snoc (s : string) (c : ascii) : string := (s ++ String c EmptyString)%string.

Definition single_tok (c : ascii) : option (list token) :=
  if Ascii.eqb c "+" then Some [TPlus] else if Ascii.eqb c "-" then Some [TMinus]
  else if Ascii.eqb c "/" then Some [TSlash] else if Ascii.eqb c "(" then Some [TLp]
  else if Ascii.eqb c ")" then Some [TRp] else if Ascii.eqb c "," then Some [TComma]
  else if Ascii.eqb c " " then Some [] else None.

Definition ocons (pre : option (list token)) (rest : option (list token)) : option (list token) :=
  match pre, rest with Some a, Some b => Some (a ++ b) | _, _ => None end.

Fixpoint lex_go (st : lstate) (s : string) : option (list token) :=
  match s with
  | EmptyString => flush st
  | String c r =>
      match st with
      | LNum cur => if is_digit c then lex_go (LNum (snoc cur c)) r
                    else if is_alpha c then None          (* "2x": not a Python token sequence we accept *)
                    else if Ascii.eqb c "*" then ocons (flush st) (lex_go LStar r)
                    else ocons (flush st) (ocons (single_tok c) (lex_go LNone r))
      | LName cur => if is_alnum c then lex_go (LName (snoc cur c)) r
                     else if Ascii.eqb c "*" then ocons (flush st) (lex_go LStar r)
                     else ocons (flush st) (ocons (single_tok c) (lex_go LNone r))
      | LStar => if Ascii.eqb c "*" then ocons (Some [TPow]) (lex_go LNone r)
                 else if is_digit c then ocons (Some [TStar]) (lex_go (LNum (String c EmptyString)) r)
                 else if is_alpha c then ocons (Some [TStar]) (lex_go (LName (String c EmptyString)) r)
                 else ocons (Some [TStar]) (ocons (single_tok c) (lex_go LNone r))
      | LNone => if is_digit c then lex_go (LNum (String c EmptyString)) r
                 else if is_alpha c then lex_go (LName (String c EmptyString)) r
                 else if Ascii.eqb c "*" then lex_go LStar r
                 else ocons (single_tok c) (lex_go LNone r)
      end
  end.
Definition lex (s : string) : option (list token) := lex_go LNone s.

(* ------------------------------------------------------------------ parser (fuel) *)
Definition pres := option (pyast * list token).

Fixpoint p_expr (f : nat) (ts : list token) {struct f} : pres :=
  match f with O => None | S f =>
    match p_term f ts with Some (a, r) => p_expr_rest f a r | None => None end
  end
with p_expr_rest (f : nat) (acc : pyast) (ts : list token) {struct f} : pres :=
  match f with O => None | S f =>
    match ts with
    | TPlus :: r => match p_term f r with Some (b, r') => p_expr_rest f (PBin OAdd acc b) r' | None => None end
    | TMinus :: r => match p_term f r with Some (b, r') => p_expr_rest f (PBin OSub acc b) r' | None => None end
    | _ => Some (acc, ts)
    end
  end
with p_term (f : nat) (ts : list token) {struct f} : pres :=
  match f with O => None | S f =>
    match p_factor f ts with Some (a, r) => p_term_rest f a r | None => None end
  end
with p_term_rest (f : nat) (acc : pyast) (ts : list token) {struct f} : pres :=
  match f with O => None | S f =>
    match ts with
    | TStar :: r => match p_factor f r with Some (b, r') => p_term_rest f (PBin OMul acc b) r' | None => None end
    | TSlash :: r => match p_factor f r with Some (b, r') => p_term_rest f (PBin ODiv acc b) r' | None => None end
    | _ => Some (acc, ts)
    end
  end
with p_factor (f : nat) (ts : list token) {struct f} : pres :=
  match f with O => None | S f =>
    match ts with
    | TMinus :: r => match p_factor f r with Some (a, r') => Some (PNeg a, r') | None => None end
    | _ => p_power f ts
    end
  end
with p_power (f : nat) (ts : list token) {struct f} : pres :=
  match f with O => None | S f =>
    match p_atom f ts with
    | Some (a, TPow :: r) => match p_factor f r with Some (b, r') => Some (PBin OPow a b, r') | None => None end
    | other => other
    end
  end
with p_atom (f : nat) (ts : list token) {struct f} : pres :=
  match f with O => None | S f =>
    match ts with
    | TNum n :: r => Some (PNum n, r)
    | TName s :: TLp :: TRp :: r => Some (PCall s [], r)
    | TName s :: TLp :: r =>
        match p_args f r with Some (args, r') => Some (PCall s args, r') | None => None end
    | TName s :: r => Some (PName s, r)
    | TLp :: r => match p_expr f r with Some (a, TRp :: r') => Some (a, r') | _ => None end
    | _ => None
    end
  end
with p_args (f : nat) (ts : list token) {struct f} : option (list pyast * list token) :=
  match f with O => None | S f =>
    match p_expr f ts with
    | Some (a, TComma :: r) => match p_args f r with Some (l, r') => Some (a :: l, r') | None => None end
    | Some (a, TRp :: r) => Some ([a], r)
    | _ => None
    end
  end.

Definition fuel_of (ts : list token) : nat := 8 * List.length ts + 8.
Definition parse_tokens (ts : list token) : option pyast :=
  match p_expr (fuel_of ts) ts with Some (a, []) => Some a | _ => None end.
Definition parse_string (s : string) : option pyast :=
  match lex s with Some ts => parse_tokens ts | None => None end.

(* decidable equality of trees, for the correspondence with CPython's ast.parse *)
Definition binop_eqb (a b : binop) : bool :=
  match a, b with OAdd, OAdd | OSub, OSub | OMul, OMul | ODiv, ODiv | OPow, OPow => true | _, _ => false end.
Fixpoint pyast_eqb (a b : pyast) {struct a} : bool :=
  match a, b with
  | PNum n, PNum m => N.eqb n m
  | PName s, PName t => String.eqb s t
  | PBin o l r, PBin o' l' r' => binop_eqb o o' && pyast_eqb l l' && pyast_eqb r r'
  | PNeg e, PNeg e' => pyast_eqb e e'
  | PCall f args, PCall g args' =>
      String.eqb f g &&
      (fix go (l : list pyast) (m : list pyast) {struct l} : bool :=
         match l, m with
         | [], [] => true
         | x :: l', y :: m' => pyast_eqb x y && go l' m'
         | _, _ => false
         end) args args'
  | _, _ => false
  end.

Fixpoint token_eqb (a b : token) : bool :=
  match a, b with
  | TNum n, TNum m => N.eqb n m
  | TName s, TName t => String.eqb s t
  | TPlus, TPlus | TMinus, TMinus | TStar, TStar | TSlash, TSlash | TPow, TPow
  | TLp, TLp | TRp, TRp | TComma, TComma | TSp, TSp => true
  | _, _ => false
  end.

(* ------------------------------------------------------------------ denotation *)
Open Scope R_scope.

Inductive table := GenTab | FitTab.
Definition env := string -> R.

(* integer literal as it appears as the exponent of ** *)
Definition int_literal (a : pyast) : option Z :=
  match a with
  | PNum n => Some (Z.of_N n)
  | PNeg (PNum n) => Some (- Z.of_N n)%Z
  | _ => None
  end.

(* functions of the two tables.  generation table = sympy namespace + sympy_locs
   (pow -> Pow(Abs(a),b); sqrt, log, exp, sin, Abs are sympy's own);
   fitting table = sympy namespace + run_sympify's locals (sqrt, log, pow wrap Abs). *)
Definition apply_fun (tab : table) (name : string) (args : list R) : R :=
  match args with
  | [a] =>
      if String.eqb name "sqrt" then match tab with GenTab => sqrt a | FitTab => sqrt (Rabs a) end
      else if String.eqb name "log" then match tab with GenTab => ln a | FitTab => ln (Rabs a) end
      else if String.eqb name "exp" then exp a
      else if String.eqb name "sin" then sin a
      else if String.eqb name "cos" then cos a
      else if String.eqb name "Abs" then Rabs a
      else if String.eqb name "inv" then / a
      else if String.eqb name "square" then a * a
      else if String.eqb name "cube" then a * a * a
      else if String.eqb name "sqrt_abs" then match tab with GenTab => sqrt (Rabs a) | FitTab => 0 end
      else if String.eqb name "log_abs" then match tab with GenTab => ln (Rabs a) | FitTab => 0 end
      else 0
  | [a; b] => if String.eqb name "pow" then Rpower (Rabs a) b else 0
  | _ => 0
  end.

Fixpoint peval (tab : table) (rho : env) (a : pyast) {struct a} : R :=
  match a with
  | PNum n => IZR (Z.of_N n)
  | PName s => if String.eqb s "E" then exp 1 else rho s
  | PNeg e => - peval tab rho e
  | PBin o l r =>
      match o with
      | OAdd => peval tab rho l + peval tab rho r
      | OSub => peval tab rho l - peval tab rho r
      | OMul => peval tab rho l * peval tab rho r
      | ODiv => peval tab rho l / peval tab rho r
      | OPow => match int_literal r with
                | Some z => powerRZ (peval tab rho l) z
                | None => Rpower (peval tab rho l) (peval tab rho r)
                end
      end
  | PCall f args => apply_fun tab f (map (peval tab rho) args)
  end.

(* ------------------------------------------------------------------ meaning of an sexpr *)
Fixpoint sum_list (l : list R) : R := match l with [] => 0 | x :: r => x + sum_list r end.
Fixpoint prod_list (l : list R) : R := match l with [] => 1 | x :: r => x * prod_list r end.

(* the functions a printed sexpr may apply; one argument, sympy's own meaning *)
Definition sem_fun (name : string) (args : list R) : R :=
  match args with
  | [a] =>
      if String.eqb name "log" then ln a
      else if String.eqb name "exp" then exp a
      else if String.eqb name "sin" then sin a
      else if String.eqb name "cos" then cos a
      else if String.eqb name "Abs" then Rabs a
      else 0
  | _ => 0
  end.
Definition known_fun (name : string) : bool :=
  String.eqb name "log" || String.eqb name "exp" || String.eqb name "sin" || String.eqb name "cos"
  || String.eqb name "Abs".

Fixpoint sem (rho : env) (e : sexpr) {struct e} : R :=
  match e with
  | SAdd ts => sum_list (map (sem rho) ts)
  | SMul neg fs => (if neg then -1 else 1) * prod_list (map (sem rho) fs)
  | SPow b ex =>
      match ex with
      | SInt z => powerRZ (sem rho b) z
      | _ => Rpower (sem rho b) (sem rho ex)
      end
  | SInt z => IZR z
  | SRat p q => IZR p / IZR q
  | SSym name => rho name
  | SFun name args => sem_fun name (map (sem rho) args)
  | SE => exp 1
  | SZoo => 0
  end.

(* [defined rho e]: e has a (finite) real value at rho under the usual reading: no division by
   zero, log of a positive number, non-integer powers of a positive base. *)
Fixpoint defined (rho : env) (e : sexpr) {struct e} : Prop :=
  match e with
  | SAdd ts => (fix all (l : list sexpr) : Prop := match l with [] => True | t :: r => defined rho t /\ all r end) ts
  | SMul _ fs => (fix all (l : list sexpr) : Prop := match l with [] => True | t :: r => defined rho t /\ all r end) fs
  | SPow b ex =>
      defined rho b /\ defined rho ex /\
      match ex with
      | SInt z => (z < 0)%Z -> sem rho b <> 0
      | _ => 0 < sem rho b
      end
  | SFun name args =>
      (fix all (l : list sexpr) : Prop := match l with [] => True | t :: r => defined rho t /\ all r end) args /\
      match args with
      | [a] => if String.eqb name "log" then 0 < sem rho a else True
      | _ => True
      end
  | SZoo => False
  | _ => True
  end.

(* ------------------------------------------------------------------ the fragment C12's theorems speak about *)
Close Scope R_scope.
Definition is_mul (e : sexpr) : bool := match e with SMul _ _ => true | _ => false end.
Definition is_rat (e : sexpr) : bool := match e with SRat _ _ => true | _ => false end.

(* what may stand as an ordered factor of a Mul (evaluated sympy trees satisfy this):
   no Mul directly inside a Mul; x**-1 never has a bare Rational base; the as_base_exp quirk
   (unit-fraction base with a negative symbolic exponent) is left to the correspondence *)
Definition factor_ok (f : sexpr) : bool :=
  negb (is_mul f) &&
  match f with
  | SPow b ex =>
      if negexp ex then
        match eshape_of false ex with
        | ENegOne => negb (is_rat b)
        | _ => negb (is_unit_frac b)
        end
      else true
  | _ => true
  end.

Fixpoint wf (e : sexpr) : bool :=
  match e with
  | SAdd ts => negb (match ts with [] => true | _ => false end) && forallb (fun t => wf t && negb (is_add t)) ts
  | SMul neg fs => negb (match fs with [] => true | _ => false end) && forallb (fun f => wf f && factor_ok f) fs
  | SPow b ex => wf b && wf ex
  | SInt _ => true
  | SRat p q => (2 <=? q)%Z
  | SSym name => negb (String.eqb name "E")
  | SFun name args => known_fun name && match args with [a] => wf a | _ => false end
  | SE => true
  | SZoo => false
  end.


Fixpoint names_ok (e : sexpr) : bool :=
  match e with
  | SAdd ts => forallb names_ok ts
  | SMul _ fs => forallb names_ok fs
  | SPow b ex => names_ok b && names_ok ex
  | SSym s => ident_ok s
  | SFun s args => ident_ok s && forallb names_ok args
  | _ => true
  end.

Definition fragment (e : sexpr) : bool := wf e && names_ok e.
