(* C09 -- numpy-style extended reals and the handful of numpy/Python idioms used by
   esr/fitting/likelihood.py.  Model only: no proofs in this file.

   The definitions are shared, through a record of operations [Num], by
     - [RNum]  : Coq's real numbers (the subject of the theorems), and
     - [QNum]  : an executable twin over [Q] (exact + - * /, sqrt/ln/pi to ~1e-24),
                 evaluated with vm_compute by the correspondence check.

   What is modelled: IEEE-754 special-value rules on the extended real line
   (finite | +inf | -inf | NaN) plus a marker [Cplx] for an entry whose imaginary part
   is not zero (np.isreal false).  What is NOT modelled: rounding, overflow/underflow of
   finite values, signed zeros (every division in the translated code has a square as its
   denominator, i.e. +0 when zero -- enforced by the translator), complex-dtype arrays
   whose imaginary parts are all zero (they behave like [Fin] up to the dtype of the result). *)
From Coq Require Import Reals QArith Qreals ZArith List Bool.
Import ListNotations.

Record Num : Type := mkNum {
  car : Type;
  nofQ : Q -> car;            (* Python int/float literals (exact rationals) *)
  npi : car;
  nadd : car -> car -> car;
  nsub : car -> car -> car;
  nmul : car -> car -> car;
  ndiv : car -> car -> car;   (* used with a non-zero denominator only *)
  nsqrt : car -> car;         (* used with a non-negative argument only *)
  nln : car -> car;           (* used with a positive argument only *)
  nofnat : nat -> car;
  nltb : car -> car -> bool;
  neqb : car -> car -> bool
}.

Section XRdef.
Variable N : Num.
Local Notation T := (car N).

Inductive XR : Type :=
| Fin (r : T)
| PInf
| NInf
| NaN
| Cplx.   (* a value with non-zero (or NaN) imaginary part *)

Definition n0 : T := nofQ N (0 # 1).

(* sign of a finite value: Lt / Eq / Gt w.r.t. 0 *)
Definition sgn (r : T) : comparison :=
  if nltb N r n0 then Lt else if neqb N r n0 then Eq else Gt.

Definition xadd (a b : XR) : XR :=
  match a, b with
  | Cplx, _ | _, Cplx => Cplx
  | NaN, _ | _, NaN => NaN
  | Fin x, Fin y => Fin (nadd N x y)
  | PInf, NInf | NInf, PInf => NaN
  | PInf, _ | _, PInf => PInf
  | NInf, _ | _, NInf => NInf
  end.

Definition xsub (a b : XR) : XR :=
  match a, b with
  | Cplx, _ | _, Cplx => Cplx
  | NaN, _ | _, NaN => NaN
  | Fin x, Fin y => Fin (nsub N x y)
  | PInf, PInf | NInf, NInf => NaN
  | PInf, _ => PInf
  | NInf, _ => NInf
  | Fin _, PInf => NInf
  | Fin _, NInf => PInf
  end.

(* inf * finite value of sign s *)
Definition inf_times (pos : bool) (s : comparison) : XR :=
  match s with
  | Eq => NaN
  | Gt => if pos then PInf else NInf
  | Lt => if pos then NInf else PInf
  end.

Definition xmul (a b : XR) : XR :=
  match a, b with
  | Cplx, _ | _, Cplx => Cplx
  | NaN, _ | _, NaN => NaN
  | Fin x, Fin y => Fin (nmul N x y)
  | PInf, PInf | NInf, NInf => PInf
  | PInf, NInf | NInf, PInf => NInf
  | PInf, Fin y => inf_times true (sgn y)
  | NInf, Fin y => inf_times false (sgn y)
  | Fin x, PInf => inf_times true (sgn x)
  | Fin x, NInf => inf_times false (sgn x)
  end.

Definition xsq (a : XR) : XR := xmul a a.     (* e ** 2 *)

(* a / b where a zero denominator is +0 (it is always a square in the translated code) *)
Definition xdiv (a b : XR) : XR :=
  match a, b with
  | Cplx, _ | _, Cplx => Cplx
  | NaN, _ | _, NaN => NaN
  | Fin x, Fin y =>
      match sgn y with
      | Eq => inf_times true (sgn x)        (* x / +0 : +-inf, 0/0 = NaN *)
      | _ => Fin (ndiv N x y)
      end
  | Fin _, PInf | Fin _, NInf => Fin n0
  | PInf, Fin y => match sgn y with Lt => NInf | _ => PInf end
  | NInf, Fin y => match sgn y with Lt => PInf | _ => NInf end
  | PInf, PInf | PInf, NInf | NInf, PInf | NInf, NInf => NaN
  end.

Definition xsqrt (a : XR) : XR :=
  match a with
  | Fin x => match sgn x with Lt => NaN | _ => Fin (nsqrt N x) end
  | PInf => PInf
  | NInf => NaN
  | NaN => NaN
  | Cplx => Cplx      (* the square root of a non-real number is non-real *)
  end.

Definition xlog (a : XR) : XR :=
  match a with
  | Fin x => match sgn x with Lt => NaN | Eq => NInf | Gt => Fin (nln N x) end
  | PInf => PInf
  | NInf => NaN
  | NaN => NaN
  | Cplx => Cplx
  end.

(* a > b; None = TypeError (ordering of complex values) *)
Definition xgt (a b : XR) : option bool :=
  match a, b with
  | Cplx, _ | _, Cplx => None
  | NaN, _ | _, NaN => Some false
  | Fin x, Fin y => Some (nltb N y x)
  | PInf, PInf => Some false
  | PInf, _ => Some true
  | _, PInf => Some false
  | NInf, _ => Some false
  | Fin _, NInf => Some true
  end.

Definition xisnan (a : XR) : bool := match a with NaN => true | _ => false end.
Definition xisreal (a : XR) : bool := match a with Cplx => false | _ => true end.

Definition xsum (l : list XR) : XR := fold_right xadd (Fin n0) l.

(* ------------------------------------------------------------------ numpy values *)
(* a float scalar / 0-d array, a 1-d array, or "evaluating this raised an exception" *)
Inductive nv : Type := NS (x : XR) | NA (l : list XR) | NErr.
Inductive nb : Type := BS (b : bool) | BA (l : list bool) | BErr.

Fixpoint zipw {A B C} (f : A -> B -> C) (l1 : list A) (l2 : list B) : list C :=
  match l1, l2 with
  | x :: r, y :: s => f x y :: zipw f r s
  | _, _ => []
  end.

(* numpy broadcasting of 1-d shapes: equal lengths, or one of them of length 1 *)
Definition bcast {A B C} (f : A -> B -> C) (l1 : list A) (l2 : list B) : option (list C) :=
  if Nat.eqb (length l1) (length l2) then Some (zipw f l1 l2)
  else match l1, l2 with
       | [x], _ => Some (map (f x) l2)
       | _, [y] => Some (map (fun a => f a y) l1)
       | _, _ => None            (* ValueError: operands could not be broadcast together *)
       end.

Definition lift2 (f : XR -> XR -> XR) (a b : nv) : nv :=
  match a, b with
  | NErr, _ | _, NErr => NErr
  | NS x, NS y => NS (f x y)
  | NS x, NA l => NA (map (f x) l)
  | NA l, NS y => NA (map (fun a => f a y) l)
  | NA l1, NA l2 => match bcast f l1 l2 with Some l => NA l | None => NErr end
  end.

Definition lift1 (f : XR -> XR) (a : nv) : nv :=
  match a with NS x => NS (f x) | NA l => NA (map f l) | NErr => NErr end.

Definition np_add := lift2 xadd.
Definition np_sub := lift2 xsub.
Definition np_mul := lift2 xmul.
Definition np_div := lift2 xdiv.
Definition np_square := lift1 xsq.      (* e ** 2 *)
Definition np_sqrt := lift1 xsqrt.
Definition np_log := lift1 xlog.

Definition np_sum (a : nv) : nv :=
  match a with NS x => NS x | NA l => NS (xsum l) | NErr => NErr end.
(* np.mean of an empty array is 0/0 = NaN (with a RuntimeWarning) *)
Definition np_mean (a : nv) : nv :=
  match a with
  | NS x => NS x
  | NA l => NS (xdiv (xsum l) (Fin (nofnat N (length l))))
  | NErr => NErr
  end.

Definition np_isnan (a : nv) : nb :=
  match a with NS x => BS (xisnan x) | NA l => BA (map xisnan l) | NErr => BErr end.
Definition np_isreal (a : nv) : nb :=
  match a with NS x => BS (xisreal x) | NA l => BA (map xisreal l) | NErr => BErr end.
Definition np_all (b : nb) : nb :=
  match b with BS x => BS x | BA l => BS (forallb (fun x => x) l) | BErr => BErr end.

Fixpoint sequence {A} (l : list (option A)) : option (list A) :=
  match l with
  | [] => Some []
  | None :: _ => None
  | Some x :: r => match sequence r with Some r' => Some (x :: r') | None => None end
  end.

Definition np_gt (a b : nv) : nb :=
  match a, b with
  | NErr, _ | _, NErr => BErr
  | NS x, NS y => match xgt x y with Some r => BS r | None => BErr end
  | NS x, NA l => match sequence (map (xgt x) l) with Some r => BA r | None => BErr end
  | NA l, NS y => match sequence (map (fun a => xgt a y) l) with Some r => BA r | None => BErr end
  | NA l1, NA l2 => match bcast xgt l1 l2 with
                    | Some l => match sequence l with Some r => BA r | None => BErr end
                    | None => BErr
                    end
  end.

(* Python truth value of a numpy bool / bool array (arrays of size <> 1 raise ValueError) *)
Definition truth (b : nb) : option bool :=
  match b with BS x => Some x | BA [x] => Some x | _ => None end.
Definition py_not (b : nb) : nb :=
  match truth b with Some x => BS (negb x) | None => BErr end.
(* a or b : b is evaluated only when a is falsy *)
Definition py_or (a b : nb) : nb :=
  match truth a with Some true => BS true | Some false => b | None => BErr end.

(* result of a method call *)
Inductive res : Type := Ret (v : nv) | Raise.
Definition py_return (v : nv) : res := match v with NErr => Raise | _ => Ret v end.
Definition py_if (c : nb) (t e : res) : res :=
  match truth c with Some true => t | Some false => e | None => Raise end.
(* NAME = e ; rest   -- an exception in e leaves the method *)
Definition py_let (v : nv) (k : nv -> res) : res :=
  match v with NErr => Raise | _ => k v end.
(* try: return e / except Exception: return h *)
Definition py_try (e h : nv) : nv := match e with NErr => h | _ => e end.
(* np.atleast_1d(a) on the parameter list: opaque to the likelihood, handed to eq_numpy as is *)
Definition np_atleast_1d {A : Type} (a : A) : A := a.

Definition lit (n : Z) (d : positive) : nv := NS (Fin (nofQ N (n # d))).
Definition np_pi : nv := NS (Fin (npi N)).
Definition np_inf : nv := NS PInf.

End XRdef.

Arguments Fin {N} r.
Arguments PInf {N}.
Arguments NInf {N}.
Arguments NaN {N}.
Arguments Cplx {N}.
Arguments NS {N} x.
Arguments NA {N} l.
Arguments NErr {N}.
Arguments Ret {N} v.
Arguments Raise {N}.
Arguments n0 {N}.
Arguments sgn {N}.
Arguments xadd {N}.
Arguments xsub {N}.
Arguments inf_times {N}.
Arguments xmul {N}.
Arguments xsq {N}.
Arguments xdiv {N}.
Arguments xsqrt {N}.
Arguments xlog {N}.
Arguments xgt {N}.
Arguments xisnan {N}.
Arguments xisreal {N}.
Arguments xsum {N}.
Arguments lift2 {N}.
Arguments lift1 {N}.
Arguments np_add {N}.
Arguments np_sub {N}.
Arguments np_mul {N}.
Arguments np_div {N}.
Arguments np_square {N}.
Arguments np_sqrt {N}.
Arguments np_log {N}.
Arguments np_sum {N}.
Arguments np_mean {N}.
Arguments np_isnan {N}.
Arguments np_isreal {N}.
Arguments np_gt {N}.
Arguments py_return {N}.
Arguments py_if {N}.
Arguments py_let {N}.
Arguments py_try {N}.
Arguments lit {N}.
Arguments np_pi {N}.
Arguments np_inf {N}.

(* ------------------------------------------------------------------ instance over R *)
Definition Rltb (x y : R) : bool := if Rlt_dec x y then true else false.
Definition Reqb (x y : R) : bool := if Req_EM_T x y then true else false.
Definition RNum : Num :=
  {| car := R; nofQ := Q2R; npi := PI; nadd := Rplus; nsub := Rminus; nmul := Rmult; ndiv := Rdiv;
     nsqrt := sqrt; nln := ln; nofnat := INR; nltb := Rltb; neqb := Reqb |}.

(* ------------------------------------------------------------------ executable twin over Q *)
(* fixed point with 96 fractional bits (~1e-29) for the two transcendental functions; pi to 24 decimals *)
Definition fxB : Z := 96.
Definition fxS : Z := 2 ^ fxB.

Definition q_sqrt (q : Q) : Q :=
  let n := Qnum q in
  let d := Zpos (Qden q) in
  if (n <=? 0)%Z then 0%Q
  else Qred (Qmake (Z.sqrt (n * d * fxS * fxS)) (Z.to_pos (d * fxS))).   (* exact when n*d is a square *)

(* sum_{k} z^(2k+1)/(2k+1), all quantities scaled by fxS *)
Fixpoint atanh_loop (k : nat) (i pw z2 acc : Z) : Z :=
  match k with
  | O => acc
  | S k' => atanh_loop k' (i + 2)%Z (Z.shiftr (pw * z2) fxB) z2 (acc + pw / i)%Z
  end.
Definition atanh_fx (z : Z) : Z := atanh_loop 34 1%Z z (Z.shiftr (z * z) fxB) 0%Z.
Definition ln2_fx : Z := (2 * atanh_fx (fxS / 3))%Z.

Definition q_ln (q : Q) : Q :=
  let n := Qnum q in
  let d := Zpos (Qden q) in
  if (n <=? 0)%Z then 0%Q
  else
    let e := (Z.log2 n - Z.log2 d)%Z in
    (* m = q / 2^e  in (1/2, 2) *)
    let '(mn, md) := if (0 <=? e)%Z then (n, (d * 2 ^ e)%Z) else ((n * 2 ^ (- e))%Z, d) in
    let z := ((mn - md) * fxS / (mn + md))%Z in
    Qred (Qmake (e * ln2_fx + 2 * atanh_fx z) (Z.to_pos fxS)).

Definition q_pi : Q := 3141592653589793238462643 # 1000000000000000000000000.

Definition QNum : Num :=
  {| car := Q; nofQ := fun q => q; npi := q_pi;
     nadd := fun a b => Qred (a + b); nsub := fun a b => Qred (a - b);
     nmul := fun a b => Qred (a * b); ndiv := fun a b => Qred (a / b);
     nsqrt := q_sqrt; nln := q_ln; nofnat := fun n => inject_Z (Z.of_nat n);
     nltb := fun a b => negb (Qle_bool b a); neqb := Qeq_bool |}.

(* Results of the Q twin in a type that does not mention [QNum], so that vm_compute on an equation
   never has to normalise the record (strong normalisation of the series under binders explodes). *)
Inductive qres : Type := QFin (q : Q) | QPInf | QNInf | QNaN | QCplx | QArr | QRaise.
Definition qshow (r : res QNum) : qres :=
  match r with
  | Raise => QRaise
  | Ret (NS (Fin q)) => QFin q
  | Ret (NS PInf) => QPInf
  | Ret (NS NInf) => QNInf
  | Ret (NS NaN) => QNaN
  | Ret (NS Cplx) => QCplx
  | Ret _ => QArr
  end.
Definition qf (q : Q) : XR QNum := @Fin QNum q.
