(* Real-valued meaning of the sympy constructors used in ESR's symbol tables, and ESR's
   documented operator semantics (pow, sqrt and log act on absolute values).  No proofs. *)
From Coq Require Import Reals String List.
Import ListNotations.
Open Scope R_scope.

Inductive symkind := SymPositive | SymReal.

(* sympy constructors on real arguments (positive base for Pow) *)
Definition sAbs (a : R) : R := Rabs a.
Definition sSqrt (a : R) : R := sqrt a.
Definition sLog (a : R) : R := ln a.
Definition sLogBase (a b : R) : R := ln a / ln b.
Definition sPow (a b : R) : R := Rpower a b.

(* ESR operator semantics *)
Definition esr_inv (a : R) := / a.
Definition esr_square (a : R) := a * a.
Definition esr_cube (a : R) := a * a * a.
Definition esr_sqrt_abs (a : R) := sqrt (Rabs a).
Definition esr_log_abs (a : R) := ln (Rabs a).
Definition esr_log10_abs (a : R) := ln (Rabs a) / ln 10.
Definition esr_tenexp (a : R) := Rpower 10 a.
Definition esr_abs (a : R) := Rabs a.
Definition esr_pow_abs (a b : R) := Rpower (Rabs a) b.

Open Scope string_scope.
(* the meaning ESR gives to a function name that can occur in a library string *)
Definition esr1 (name : string) : option (R -> R) :=
  if string_dec name "inv" then Some esr_inv
  else if string_dec name "square" then Some esr_square
  else if string_dec name "cube" then Some esr_cube
  else if string_dec name "sqrt_abs" then Some esr_sqrt_abs
  else if string_dec name "sqrt" then Some esr_sqrt_abs
  else if string_dec name "log_abs" then Some esr_log_abs
  else if string_dec name "log" then Some esr_log_abs
  else if string_dec name "log10_abs" then Some esr_log10_abs
  else if string_dec name "tenexp" then Some esr_tenexp
  else if string_dec name "Abs" then Some esr_abs
  else None.
Definition esr2 (name : string) : option (R -> R -> R) :=
  if string_dec name "pow" then Some esr_pow_abs
  else if string_dec name "pow_abs" then Some esr_pow_abs
  else None.

Fixpoint lookup {A} (k : string) (l : list (string * A)) : option A :=
  match l with
  | [] => None
  | (k', v) :: r => if string_dec k k' then Some v else lookup k r
  end.
Definition keys {A} (l : list (string * A)) : list string := map fst l.

(* ---- denotation of a labelled tree under a table of function meanings ---- *)
From ESRV Require Import Model.NodeStr.
Definition infix_sem (l : string) : option (R -> R -> R) :=
  if string_dec l "+" then Some Rplus else if string_dec l "-" then Some Rminus
  else if string_dec l "*" then Some Rmult else if string_dec l "/" then Some Rdiv else None.
(* functions both sympy and ESR read in the standard way *)
Definition builtin1 (l : string) : option (R -> R) :=
  if string_dec l "exp" then Some exp else if string_dec l "sin" then Some sin else None.

Section Den.
  Variables (tab1 : string -> option (R -> R)) (tab2 : string -> option (R -> R -> R)) (leaf : string -> option R).
  Fixpoint den (t : lt) : option R :=
    match t with
    | T0 l => leaf l
    | T1 l a =>
        match (match tab1 l with Some f => Some f | None => builtin1 l end), den a with
        | Some f, Some va => Some (f va)
        | _, _ => None
        end
    | T2 l a b =>
        match (match infix_sem l with Some f => Some f | None => tab2 l end), den a, den b with
        | Some f, Some va, Some vb => Some (f va vb)
        | _, _, _ => None
        end
    end.
End Den.

Fixpoint labels1 (t : lt) : list string :=
  match t with T0 _ => [] | T1 l a => l :: labels1 a | T2 _ a b => labels1 a ++ labels1 b end.
Fixpoint labels2 (t : lt) : list string :=
  match t with T0 _ => [] | T1 _ a => labels2 a | T2 l a b => l :: labels2 a ++ labels2 b end.
