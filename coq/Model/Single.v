(* fit_single.single_function and the library pipeline for one tree, as compositions of the same
   stage functions (oracles are Section variables: the theorems hold for every behaviour of the
   optimiser, the Fisher routine, sympy and the tree-code routine).  No proofs. *)
From Coq Require Import ZArith List.
Import ListNotations.

Section Single.
  Variables (Lab Str Par Num : Type).
  Variables
    (nts : list Lab -> Str)                         (* generator.node_to_string on check_tree(labels_to_shape(labels)) *)
    (max_param_of : Str -> Z)                       (* simplifier.get_max_param([fstr]) *)
    (sympify : Str -> Str)                          (* simplifier.initial_sympify([.], ., parallel=False)[0][0]: sympify + ESRPrinter *)
    (optimise : Str -> Z -> Num * Par)              (* test_all.optimise_fun(fstr, likelihood, ..., max_param=.) *)
    (fisher : Str -> Par -> Num -> Z -> Par * Num * Num)   (* test_all_Fisher.convert_params: (params, negloglike, codelen) *)
    (aifeyn : list Lab -> Z -> Num)                 (* generator.aifeyn_complexity(labels, ['a%i' % j for j in range(.)]) *)
    (add : Num -> Num -> Num) (nan : Num).

  (* fit_single.single_function (labels entry point) *)
  Definition single_function (is_mse : bool) (labels : list Lab) : Num * Num * Par :=
    let fstr := nts labels in
    let max_param := max_param_of fstr in
    let fstr := sympify fstr in
    let '(chi2, params) := optimise fstr max_param in
    if is_mse then (chi2, nan, params)
    else
      let '(params, negloglike, codelen) := fisher fstr params chi2 max_param in
      let a := aifeyn labels max_param in
      (negloglike, add (add negloglike codelen) a, params).

  (* the library pipeline for a tree that is its own unique function with an empty parameter map:
     generation stores sympify (nts labels) and aifeyn labels K (K = number of parameters of the shape's strings);
     test_all fits the stored string, test_all_Fisher adds the code length, match copies the row (empty chain),
     combine_DL sums the three terms (mp = the pipeline's max_param) *)
  Definition pipeline_row (K mp : Z) (labels : list Lab) : Num * Num * Par :=
    let stored := sympify (nts labels) in
    let '(chi2, params) := optimise stored mp in
    let '(params, negloglike, codelen) := fisher stored params chi2 mp in
    (negloglike, add (add negloglike codelen) (aifeyn labels K), params).
End Single.
