(* C19 -- model of esr/fitting/likelihood.py: PanthLikelihood.get_pred / clear_data.
   Model only: no proofs in this file.

   The definitions are shared, through a record of operations [Fld], by
     - [RFld] : Coq's real numbers (subject of the analytic theorems), and
     - [QFld] : an executable twin over [Q] (exact + - * /, Qred-normalised; 1/sqrt rounded down to a multiple of 2^-128),
                evaluated with vm_compute by the correspondence check.
   The combinatorial theorems (sort / unique / mask) are proved once for every [Fld] whose
   [fleb] is a total preorder, hence for both instances.

   Code modelled (likelihood.py, PanthLikelihood):

     def clear_data(self):  self.data_x = None; self.data_mask = None

     def get_pred(self, zp1, a, eq_numpy, integrated=False):
        if integrated:
            dL = eq_numpy(zp1, *a) - eq_numpy(1, *a)
        else:
            if self.data_x is None or self.data_mask is None:
                nx = int(np.ceil((zp1.max() - zp1.min()) / self.delta_z))
                self.data_x = np.concatenate((np.linspace(1, zp1.min(), self.min_nz),
                        np.linspace(zp1.min() + self.delta_z, zp1.max() + self.delta_z, nx), zp1))
                self.data_x = np.sort(np.unique(self.data_x))
                self.data_mask = np.squeeze(np.array([np.where(self.data_x==d)[0] for d in zp1]))
            dL = 1 / np.sqrt(eq_numpy(self.data_x, *a))
            if np.isscalar(dL): dL = np.full(len(self.data_x), dL)
            dL = scipy.integrate.cumulative_trapezoid(dL, x=self.data_x, initial=0)
            dL = dL[self.data_mask]
        dL *= zp1
        mu = 5 * np.log10(dL) + self.mu_const

   Not modelled: float rounding (in particular of linspace and of the ceil argument), NaN entries,
   delta_z <= 0 (every theorem and every correspondence case has delta_z > 0, under which the
   [Z.to_nat] clamp of [nx] is never exercised), numpy dtype/shape details other than the
   0-d / 1-d distinction of the squeezed mask that decides broadcasting in [dL *= zp1]. *)
From Coq Require Import ZArith QArith Qround Qreduction Reals List Bool.
Import ListNotations.

Record Fld : Type := mkFld {
  car : Type;
  f0 : car;
  f1 : car;
  fadd : car -> car -> car;
  fsub : car -> car -> car;
  fmul : car -> car -> car;
  fdiv : car -> car -> car;
  fofZ : Z -> car;
  fleb : car -> car -> bool;       (* <= *)
  fceil : car -> Z;                (* int(np.ceil(.)) *)
  finvsqrt : car -> car            (* 1/np.sqrt(.) *)
}.

Section Generic.
Context {F : Fld}.
Notation T := (car F).

Definition feqb (x y : T) : bool := fleb F x y && fleb F y x.
Definition fltb (x y : T) : bool := negb (fleb F y x).
Definition f2 : T := fofZ F 2.

(* ---- np.unique (= sort, then drop repeated values); the following np.sort is the identity ---- *)
Fixpoint insert (x : T) (l : list T) : list T :=
  match l with
  | [] => [x]
  | y :: r => if fleb F x y then x :: l else y :: insert x r
  end.
Fixpoint isort (l : list T) : list T :=
  match l with
  | [] => []
  | x :: r => insert x (isort r)
  end.
Fixpoint dedup (l : list T) : list T :=
  match l with
  | [] => []
  | x :: r => match r with
              | [] => [x]
              | y :: _ => if feqb x y then dedup r else x :: dedup r
              end
  end.
Definition unique (l : list T) : list T := dedup (isort l).

(* ---- zp1.min(), zp1.max(): None for an empty array (numpy raises ValueError) ---- *)
Definition fminb (x y : T) : T := if fleb F x y then x else y.
Definition fmaxb (x y : T) : T := if fleb F x y then y else x.
Definition lmin (l : list T) : option T :=
  match l with [] => None | x :: r => Some (fold_left fminb r x) end.
Definition lmax (l : list T) : option T :=
  match l with [] => None | x :: r => Some (fold_left fmaxb r x) end.

(* ---- np.linspace(a, b, n) (endpoint=True):  arange(n)*step + a, last entry overwritten with b ---- *)
Definition linspace (a b : T) (n : nat) : list T :=
  match n with
  | O => []
  | S O => [a]
  | S m => let step := fdiv F (fsub F b a) (fofZ F (Z.of_nat m)) in
           map (fun i => fadd F (fmul F (fofZ F (Z.of_nat i)) step) a) (seq 0 m) ++ [b]
  end.

Record params : Type := mkParams { delta_z : T; min_nz : nat }.

Definition nx_of (p : params) (zmin zmax : T) : nat :=
  Z.to_nat (fceil F (fdiv F (fsub F zmax zmin) (delta_z p))).

Definition grid_of (p : params) (zmin zmax : T) (zs : list T) : list T :=
  unique (linspace (f1 F) zmin (min_nz p)
          ++ linspace (fadd F zmin (delta_z p)) (fadd F zmax (delta_z p)) (nx_of p zmin zmax)
          ++ zs).

Definition grid (p : params) (zs : list T) : option (list T) :=
  match lmin zs, lmax zs with
  | Some zmin, Some zmax => Some (grid_of p zmin zmax zs)
  | _, _ => None
  end.

(* ---- np.where(xs == d)[0] : every index at which xs equals d ---- *)
Fixpoint where_from (i : nat) (xs : list T) (d : T) : list nat :=
  match xs with
  | [] => []
  | x :: r => if feqb x d then i :: where_from (S i) r d else where_from (S i) r d
  end.
Definition where_eq (xs : list T) (d : T) : list nat := where_from 0 xs d.

(* np.squeeze(np.array([...])) of the per-datum index arrays: an (n,1) array becomes (n,);
   rows of different lengths are rejected by numpy (ragged array) -> None *)
Fixpoint squeeze (rows : list (list nat)) : option (list nat) :=
  match rows with
  | [] => Some []
  | [k] :: r => match squeeze r with Some m => Some (k :: m) | None => None end
  | _ :: _ => None
  end.
Definition mask_of (xs zs : list T) : option (list nat) := squeeze (map (where_eq xs) zs).

(* ---- scipy.integrate.cumulative_trapezoid(y, x=x, initial=0) ---- *)
Definition cell (x0 x1 y0 y1 : T) : T :=
  fdiv F (fmul F (fsub F x1 x0) (fadd F y1 y0)) f2.
Fixpoint cumtrapz_from (acc : T) (xs ys : list T) : list T :=
  match xs, ys with
  | x0 :: xr, y0 :: yr =>
      match xr, yr with
      | x1 :: _, y1 :: _ => let acc' := fadd F acc (cell x0 x1 y0 y1) in acc' :: cumtrapz_from acc' xr yr
      | _, _ => []
      end
  | _, _ => []
  end.
Definition cumtrapz (xs ys : list T) : list T := f0 F :: cumtrapz_from (f0 F) xs ys.

(* the plain trapezoid sum over all cells of xs (used by the theorems to say what cumtrapz holds) *)
Fixpoint trapz (xs ys : list T) : T :=
  match xs, ys with
  | x0 :: xr, y0 :: yr =>
      match xr, yr with
      | x1 :: _, y1 :: _ => fadd F (cell x0 x1 y0 y1) (trapz xr yr)
      | _, _ => f0 F
      end
  | _, _ => f0 F
  end.

(* ---- the value of eq_numpy(data_x, *a): an array, or a Python scalar when H^2 does not mention x ---- *)
Inductive h2val : Type :=
| H2scalar (c : T)
| H2vector (h : T -> T).

(* dL = 1/np.sqrt(eq_numpy(data_x,*a)); if np.isscalar(dL): dL = np.full(len(data_x), dL) *)
Definition integrand_values (h2 : h2val) (xs : list T) : list T :=
  match h2 with
  | H2scalar c => repeat (finvsqrt F c) (length xs)
  | H2vector h => map (fun x => finvsqrt F (h x)) xs
  end.
(* the integrand as a function, for stating theorems *)
Definition integrand_fun (h2 : h2val) : T -> T :=
  match h2 with
  | H2scalar c => fun _ => finvsqrt F c
  | H2vector h => fun x => finvsqrt F (h x)
  end.

(* ---- cache ---- *)
Record cache : Type := mkCache { data_x : option (list T); data_mask : option (list nat) }.
Definition cache_empty : cache := mkCache None None.
Definition clear_data (st : cache) : cache := mkCache None None.

(* dL[self.data_mask] *)
Definition take_mask (d0 : T) (cum : list T) (m : list nat) : list T := map (fun k => nth k cum d0) m.

(* dL *= zp1 with numpy broadcasting.  A one-entry mask was squeezed to a 0-d array, so dL is a
   scalar and the product has the shape of zp1; otherwise shapes must agree or zp1 has one entry. *)
Fixpoint zipmul (a b : list T) : list T :=
  match a, b with
  | x :: r, y :: s => fmul F x y :: zipmul r s
  | _, _ => []
  end.
Definition bmul (dl zp1 : list T) : option (list T) :=
  match dl with
  | [d] => Some (map (fun z => fmul F d z) zp1)
  | _ => if Nat.eqb (length dl) (length zp1) then Some (zipmul dl zp1)
         else match zp1 with
              | [z] => Some (map (fun d => fmul F d z) dl)
              | _ => None
              end
  end.

(* the state after the "if self.data_x is None or self.data_mask is None" block;
   None = zp1.max() raised on an empty array before anything was assigned *)
Definition ensure_cache (p : params) (st : cache) (zp1 : list T) : option cache :=
  match data_x st, data_mask st with
  | Some _, Some _ => Some st
  | _, _ => match grid p zp1 with
            | Some xs => Some (mkCache (Some xs) (mask_of xs zp1))
            | None => None
            end
  end.

(* numeric path of get_pred up to and including "dL *= zp1":
   returns the new cache and dL (None = an exception was raised) *)
Definition get_pred_dl (p : params) (st : cache) (zp1 : list T) (h2 : h2val) : cache * option (list T) :=
  match ensure_cache p st zp1 with
  | None => (st, None)
  | Some st1 =>
      match data_x st1, data_mask st1 with
      | Some xs, Some m =>
          let cum := cumtrapz xs (integrand_values h2 xs) in
          (st1, bmul (take_mask (f0 F) cum m) zp1)
      | _, _ => (st1, None)
      end
  end.

(* integrated=True: dL = F(zp1) - F(1); dL *= zp1.  The cache is neither read nor written. *)
Definition get_pred_dl_integrated (Fa : T -> T) (zp1 : list T) : list T :=
  map (fun z => fmul F (fsub F (Fa z) (Fa (f1 F))) z) zp1.

(* largest cell of a grid (0 for grids with fewer than two points) *)
Fixpoint max_cell (xs : list T) : T :=
  match xs with
  | x0 :: xr => match xr with
                | x1 :: _ => fmaxb (fsub F x1 x0) (max_cell xr)
                | [] => f0 F
                end
  | [] => f0 F
  end.

End Generic.

Arguments cache : clear implicits.
Arguments params : clear implicits.
Arguments h2val : clear implicits.

(* ------------------------------------------------------------------ the real instance *)
Definition Rleb (x y : R) : bool := if Rle_dec x y then true else false.
Definition Rceil (x : R) : Z := (1 - up (- x))%Z.
Definition Rinvsqrt (x : R) : R := (/ sqrt x)%R.
Definition RFld : Fld :=
  mkFld R 0%R 1%R Rplus Rminus Rmult Rdiv IZR Rleb Rceil Rinvsqrt.

Definition log10 (x : R) : R := (ln x / ln 10)%R.
(* mu = 5 * np.log10(dL) + self.mu_const *)
Definition mu_of (c : R) (dl : R) : R := (5 * log10 dl + c)%R.

(* ------------------------------------------------------------------ the executable instance *)
(* Qle_bool with the factors of each product swapped: Pos.mul recurses on its first argument, and the
   denominators of floats are powers of two, which makes this an order of magnitude faster under vm_compute *)
Definition Qleb (x y : Q) : bool := Z.leb (Zpos (Qden y) * Qnum x) (Zpos (Qden x) * Qnum y).
Definition sqrt_prec : positive := 128.
(* floor(2^128 / sqrt(q)) / 2^128 for q > 0: a dyadic rational within 2^-128 of 1/sqrt(q)
   (floor(sqrt(t)) = Z.sqrt(floor(t))).  For q <= 0 (numpy: inf or nan) the value is 0: outside the
   modelled domain, H^2 is positive in every theorem and every correspondence case. *)
Definition Qinvsqrt (q : Q) : Q :=
  Qred (Z.sqrt ((Zpos (Qden q) * 4 ^ (Zpos sqrt_prec)) / Qnum q) # (2 ^ sqrt_prec)).
Definition QFld : Fld :=
  mkFld Q 0%Q 1%Q (fun x y => Qred (x + y)) (fun x y => Qred (x - y)) (fun x y => Qred (x * y))
        (fun x y => Qred (x / y)) (fun z => inject_Z z) Qleb Qceiling Qinvsqrt.
