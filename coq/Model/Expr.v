(* ESR's operator semantics over the real numbers, and labelled prefix lists <-> expression trees.
   No proofs here (Proofs/ExprProofs.v).

   An ESR tree is a list of node labels in prefix (pre-order) order; check_tree turns the list of
   arities into parent/left/right indices, i.e. it parses the prefix list.  Labels:
     nullary : "x", "a0","a1",..., integers ("2", "-1", ... created by the rewriting code)
     unary   : inv square cube sqrt_abs log_abs exp sin abs tenexp log10_abs
     binary  : + - * / pow        ("pow" is |a|**b: esr/fitting/sympy_symbols.py and simplifier.py
                                   give pow(a,b) the meaning Abs(a)**b)
   The label "pow_abs" does not exist in this type: no basis that ESR's symbol tables can parse
   uses it (update_tree's pow_abs branch is dead code for them); the harness refuses such labels.

   eval  is total (Coq's / and ln are total); [defined] is the side condition "the tree has a
   finite real value here": no 1/0, no log 0, no 0**(non-positive). *)
From Coq Require Import Reals ZArith List Bool.
Import ListNotations.

Inductive nullary := NX | NPar (i : nat) | NNum (z : Z).
Inductive unop := Inv | Square | Cube | SqrtAbs | LogAbs | Exp | Sin | Abs | TenExp | Log10Abs.
Inductive binop := Add | Sub | Mul | Div | Pow.

Inductive expr :=
| Leaf (l : nullary)
| Un (o : unop) (a : expr)
| Bin (o : binop) (a b : expr).

Inductive label := LN (n : nullary) | LU (o : unop) | LB (o : binop).

(* ---------------------------------------------------------------- semantics *)
Open Scope R_scope.

Definition pow_abs (a b : R) : R := if Req_EM_T a 0 then 0 else Rpower (Rabs a) b.

Definition eval_un (o : unop) (v : R) : R :=
  match o with
  | Inv => / v
  | Square => v * v
  | Cube => v * v * v
  | SqrtAbs => sqrt (Rabs v)
  | LogAbs => ln (Rabs v)
  | Exp => exp v
  | Sin => sin v
  | Abs => Rabs v
  | TenExp => Rpower 10 v
  | Log10Abs => ln (Rabs v) / ln 10
  end.

Definition eval_bin (o : binop) (u v : R) : R :=
  match o with
  | Add => u + v
  | Sub => u - v
  | Mul => u * v
  | Div => u / v
  | Pow => pow_abs u v
  end.

Definition eval_leaf (env : nat -> R) (x : R) (l : nullary) : R :=
  match l with NX => x | NPar i => env i | NNum z => IZR z end.

Fixpoint eval (env : nat -> R) (x : R) (e : expr) : R :=
  match e with
  | Leaf l => eval_leaf env x l
  | Un o a => eval_un o (eval env x a)
  | Bin o a b => eval_bin o (eval env x a) (eval env x b)
  end.

Definition un_ok (o : unop) (v : R) : Prop :=
  match o with Inv | LogAbs | Log10Abs => v <> 0 | _ => True end.

Definition bin_ok (o : binop) (u v : R) : Prop :=
  match o with Div => v <> 0 | Pow => u <> 0 \/ 0 < v | _ => True end.

Fixpoint defined (env : nat -> R) (x : R) (e : expr) : Prop :=
  match e with
  | Leaf _ => True
  | Un o a => defined env x a /\ un_ok o (eval env x a)
  | Bin o a b => defined env x a /\ defined env x b /\ bin_ok o (eval env x a) (eval env x b)
  end.

(* two trees denote the same partial function: same domain, same values on it *)
Definition equiv (t r : expr) : Prop :=
  forall env x, (defined env x t <-> defined env x r) /\ (defined env x t -> eval env x t = eval env x r).

Close Scope R_scope.

(* ---------------------------------------------------------------- prefix lists *)

Fixpoint to_prefix (e : expr) : list label :=
  match e with
  | Leaf l => [LN l]
  | Un o a => LU o :: to_prefix a
  | Bin o a b => LB o :: to_prefix a ++ to_prefix b
  end.

(* what check_tree does with the arities: read one tree off the front of the list *)
Fixpoint parse (fuel : nat) (l : list label) : option (expr * list label) :=
  match fuel with
  | O => None
  | S f =>
    match l with
    | [] => None
    | LN n :: r => Some (Leaf n, r)
    | LU o :: r =>
      match parse f r with
      | Some (a, r1) => Some (Un o a, r1)
      | None => None
      end
    | LB o :: r =>
      match parse f r with
      | Some (a, r1) =>
        match parse f r1 with
        | Some (b, r2) => Some (Bin o a b, r2)
        | None => None
        end
      | None => None
      end
    end
  end.

Definition of_prefix (l : list label) : option expr :=
  match parse (length l) l with
  | Some (e, []) => Some e
  | _ => None
  end.

Definition wellformed (l : list label) : bool :=
  match of_prefix l with Some _ => true | None => false end.

Fixpoint size (e : expr) : nat :=
  match e with
  | Leaf _ => 1
  | Un _ a => S (size a)
  | Bin _ a b => S (size a + size b)
  end.

(* ---------------------------------------------------------------- decidable equalities *)

Definition nullary_eqb (a b : nullary) : bool :=
  match a, b with
  | NX, NX => true
  | NPar i, NPar j => Nat.eqb i j
  | NNum y, NNum z => Z.eqb y z
  | _, _ => false
  end.

Definition unop_code (o : unop) : nat :=
  match o with
  | Inv => 0 | Square => 1 | Cube => 2 | SqrtAbs => 3 | LogAbs => 4
  | Exp => 5 | Sin => 6 | Abs => 7 | TenExp => 8 | Log10Abs => 9
  end.
Definition unop_eqb (a b : unop) : bool := Nat.eqb (unop_code a) (unop_code b).

Definition binop_code (o : binop) : nat :=
  match o with Add => 0 | Sub => 1 | Mul => 2 | Div => 3 | Pow => 4 end.
Definition binop_eqb (a b : binop) : bool := Nat.eqb (binop_code a) (binop_code b).

Definition label_eqb (a b : label) : bool :=
  match a, b with
  | LN m, LN n => nullary_eqb m n
  | LU o, LU p => unop_eqb o p
  | LB o, LB p => binop_eqb o p
  | _, _ => false
  end.

Fixpoint expr_eqb (s t : expr) : bool :=
  match s, t with
  | Leaf m, Leaf n => nullary_eqb m n
  | Un o a, Un p b => unop_eqb o p && expr_eqb a b
  | Bin o a b, Bin p c d => binop_eqb o p && expr_eqb a c && expr_eqb b d
  | _, _ => false
  end.

Fixpoint labels_eqb (l m : list label) : bool :=
  match l, m with
  | [], [] => true
  | a :: r, b :: s => label_eqb a b && labels_eqb r s
  | _, _ => false
  end.

(* parameters occurring in a tree *)
Fixpoint has_par (i : nat) (e : expr) : Prop :=
  match e with
  | Leaf (NPar j) => i = j
  | Leaf _ => False
  | Un _ a => has_par i a
  | Bin _ a b => has_par i a \/ has_par i b
  end.
