(* C16 -- results do not depend on earlier runs.

   Model of the state that survives from one ESR call to the next:
     * the files below esr/function_library/<basis>/compl_<n>/ and below
       <data_dir>/fitting/output/{partial_<run>,output_<run>}/ ;
     * the module-level dictionary esr.fitting.sympy_symbols.sympy_locs
       (one per process), into which every call inserts parameter symbols.
   A stage (generation of (basis,n); fit / fisher / match / combine of (run,n))
   is a *program*: the list of file and dictionary operations it performs, in
   order.  Values written are [interp g reads]: an arbitrary function (one per
   write site g; seeds and call arguments are part of it) of the values the
   program has read so far.  Executable; proofs are in Proofs/HistoryProofs.v.

   The instance programs at the end of the file are compared, operation by
   operation, with traces of the real stages on every check run. *)
From Coq Require Import List Bool Arith.
Import ListNotations.

(* ------------------------------------------------------------------ file names *)

(* <lib>/<basis>/compl_<n>/<kind>_<n>[...].txt *)
Inductive libkind :=
| OrigTrees | ExtraTrees | OrigAifeyn | ExtraAifeyn   (* opened in append mode once per tree shape *)
| Trees | Aifeyn                                      (* cat orig extra > ... *)
| AllEq | UniqEq | Matches | InvSubs
| InvSubsRound | InvIdxRound                          (* inv_subs_<n>_round_<r>.txt, inv_idx_<n>_round_<r>.txt *)
| TempTxt                                             (* temp_<n>.txt of the sed/mv pairs *)
| PrevEqns.                                           (* previous_eqns_<n>.txt (test_all, ignore_previous_eqns) *)

(* <out>/partial_<run>/<kind><n>_<rank>.dat *)
Inductive tmpkind := TChi2 | TCodelenDeriv | TDerivs | TCodelenMatches | TCombine | TCombineFcn.

(* <out>/output_<run>/<kind><n>.dat *)
Inductive outkind := ONegloglike | OCodelenDeriv | ODerivs | OCodelenMatches | OCombine | OCombineFcn | OFinal | OPretty.

Inductive fname :=
| LibF (b n : nat) (k : libkind) (r : nat)      (* r: round number for the per-round files, 0 otherwise *)
| TmpF (run : nat) (k : tmpkind) (n r : nat)    (* r: MPI rank that wrote it *)
| OutF (run : nat) (k : outkind) (n : nat)
| DataF (d : nat).                              (* the data file handed to the likelihood *)

Definition libkind_code (k : libkind) : nat :=
  match k with
  | OrigTrees => 0 | ExtraTrees => 1 | OrigAifeyn => 2 | ExtraAifeyn => 3 | Trees => 4 | Aifeyn => 5
  | AllEq => 6 | UniqEq => 7 | Matches => 8 | InvSubs => 9 | InvSubsRound => 10 | InvIdxRound => 11
  | TempTxt => 12 | PrevEqns => 13
  end.
Definition tmpkind_code (k : tmpkind) : nat :=
  match k with TChi2 => 0 | TCodelenDeriv => 1 | TDerivs => 2 | TCodelenMatches => 3 | TCombine => 4 | TCombineFcn => 5 end.
Definition outkind_code (k : outkind) : nat :=
  match k with ONegloglike => 0 | OCodelenDeriv => 1 | ODerivs => 2 | OCodelenMatches => 3 | OCombine => 4
             | OCombineFcn => 5 | OFinal => 6 | OPretty => 7 end.

Definition fcode (f : fname) : nat * nat * nat * nat * nat :=
  match f with
  | LibF b n k r => (0, b, n, libkind_code k, r)
  | TmpF run k n r => (1, run, n, tmpkind_code k, r)
  | OutF run k n => (2, run, n, outkind_code k, 0)
  | DataF d => (3, d, 0, 0, 0)
  end.
Definition code_eqb (x y : nat * nat * nat * nat * nat) : bool :=
  match x, y with
  | (a1, b1, c1, d1, e1), (a2, b2, c2, d2, e2) =>
      (a1 =? a2) && (b1 =? b2) && (c1 =? c2) && (d1 =? d2) && (e1 =? e2)
  end.
Definition fname_eqb (f g : fname) : bool := code_eqb (fcode f) (fcode g).

Definition is_tmp (f : fname) : bool := match f with TmpF _ _ _ _ => true | _ => false end.

(* the shell globs:  <tmp>/<kind><n>_*.dat  *)
Inductive pat := PTmp (run : nat) (k : tmpkind) (n : nat).
Definition pat_file (p : pat) (r : nat) : fname := match p with PTmp run k n => TmpF run k n r end.
Definition pat_match (p : pat) (f : fname) : bool :=
  match p, f with
  | PTmp run k n, TmpF run' k' n' _ => (run =? run') && (tmpkind_code k =? tmpkind_code k') && (n =? n')
  | _, _ => false
  end.

(* ------------------------------------------------------------------ sympy_locs *)

Inductive key :=
| KBase (i : nat)     (* the ten names of the table in sympy_symbols.py: inv, square, ..., x, ... *)
| KParam (i : nat)    (* "a<i>" *)
| KOther (i : nat).   (* any other name looked up by the parser (exp, sin, Integer, "" ...): never bound *)
Inductive lval :=
| LBase (i : nat)     (* the Lambda / function / symbol x bound at import time *)
| LReal (i : nat).    (* sympy.Symbol("a<i>", real=True); equal names and assumptions = equal symbols *)
Definition locs := key -> option lval.

Definition nbase : nat := 10.
Definition key_eqb (a b : key) : bool :=
  match a, b with
  | KBase i, KBase j => i =? j
  | KParam i, KParam j => i =? j
  | KOther i, KOther j => i =? j
  | _, _ => false
  end.
Definition base_locs : locs :=
  fun k => match k with KBase i => if i <? nbase then Some (LBase i) else None | _ => None end.
Definition locs_insert (i : nat) (l : locs) : locs :=
  fun k => if key_eqb k (KParam i) then Some (LReal i) else l k.
(* the table after parameters a0 .. a(K-1) have been inserted *)
Definition locs_upto (K : nat) : locs :=
  fun k => match k with KParam i => if i <? K then Some (LReal i) else None | _ => base_locs k end.

(* ------------------------------------------------------------------ programs *)

Inductive op :=
| Truncate (f : fname)                 (* open(f,'w') and nothing written *)
| Write (f : fname) (g : nat)          (* open(f,'w') + writes; np.savetxt(f, ...) *)
| Append (f : fname) (g : nat)         (* open(f,'a') + writes *)
| Read (f : fname)                     (* open(f,'r'); np.loadtxt; np.genfromtxt *)
| Remove (f : fname)                   (* if os.path.exists(f): os.remove(f) *)
| Touch (f : fname)                    (* os.system("touch f") *)
| Cat (srcs : list fname) (dst : fname)   (* os.system("cat a b > dst") *)
| Filter (src dst : fname) (g : nat)      (* os.system("sed '...' src > dst") *)
| Move (src dst : fname)                  (* os.system("mv src dst") *)
| CatGlob (p : pat) (dst : fname)      (* os.system("cat `find <tmp>/ -name p | sort -V` > dst") *)
| RemoveGlob (p : pat)                 (* os.system("rm <tmp>/p") *)
| LocsInsert (i : nat)                 (* sympy_locs["a<i>"] = Symbol("a<i>", real=True) *)
| LocsLookup (k : key).                (* name lookup by sympify(..., locals=sympy_locs) *)

Definition prog := list op.

Section Semantics.
  Variable V : Type.                       (* a record (line) of a file; abstract *)
  Definition contents := list V.
  Definition store := fname -> option contents.

  Inductive obs :=                         (* a value the program has observed *)
  | OFile (c : option contents)
  | OLoc (v : option lval).

  Variable interp : nat -> list obs -> contents.   (* value produced at write site g from what was read so far (latest first) *)
  Variable R : nat.    (* any bound above every rank index in use: `find` is modelled as enumerating ranks 0..R-1 *)

  Record state := mkSt { st_files : store; st_locs : locs; st_reads : list obs }.

  Definition upd (s : store) (f : fname) (v : option contents) : store :=
    fun g => if fname_eqb g f then v else s g.
  Definition cur (s : store) (f : fname) : contents := match s f with Some c => c | None => [] end.
  Definition glob_cat (s : store) (p : pat) : contents :=
    concat (map (fun r => cur s (pat_file p r)) (seq 0 R)).     (* sort -V = increasing rank *)

  Definition step (o : op) (st : state) : state :=
    let s := st_files st in
    let l := st_locs st in
    let rd := st_reads st in
    match o with
    | Truncate f => mkSt (upd s f (Some [])) l rd
    | Write f g => mkSt (upd s f (Some (interp g rd))) l rd
    | Append f g => mkSt (upd s f (Some (cur s f ++ interp g rd))) l rd
    | Read f => mkSt s l (OFile (s f) :: rd)
    | Remove f => mkSt (upd s f None) l rd
    | Touch f => mkSt (upd s f (Some (cur s f))) l rd
    | Cat srcs dst => mkSt (upd s dst (Some (concat (map (cur s) srcs)))) l rd
    | Filter src dst g => mkSt (upd s dst (Some (interp g [OFile (s src)]))) l rd
    | Move src dst =>
        match s src with
        | None => st                                  (* mv fails, nothing changes *)
        | Some c => mkSt (upd (upd s dst (Some c)) src None) l rd
        end
    | CatGlob p dst => mkSt (upd s dst (Some (glob_cat s p))) l rd
    | RemoveGlob p => mkSt (fun f => if pat_match p f then None else s f) l rd
    | LocsInsert i => mkSt s (locs_insert i l) rd
    | LocsLookup k => mkSt s l (OLoc (l k) :: rd)
    end.

  Fixpoint run (p : prog) (st : state) : state :=
    match p with
    | [] => st
    | o :: p' => run p' (step o st)
    end.

  (* a call starts with nothing read; files and sympy_locs are what earlier calls left *)
  Definition start (st : state) : state := mkSt (st_files st) (st_locs st) [].
  Fixpoint run_history (h : list prog) (st : state) : state :=
    match h with
    | [] => st
    | p :: h' => run_history h' (run p (start st))
    end.

  Definition fresh (s : store) : state := mkSt s base_locs [].
End Semantics.

Arguments mkSt {V}.
Arguments st_files {V}.
Arguments st_locs {V}.
Arguments st_reads {V}.
Arguments OFile {V}.
Arguments OLoc {V}.

(* ------------------------------------------------------------------ checkable predicates on programs *)

Definition mem (f : fname) (D : list fname) : bool := existsb (fname_eqb f) D.

(* a file whose content at this point is the same whatever the initial store was:
   a declared input, a per-rank temp file (absent between completed stages), or
   a file this program has already defined *)
Definition det (inp : fname -> bool) (D : list fname) (f : fname) : bool := inp f || is_tmp f || mem f D.

Definition defs (o : op) : list fname :=
  match o with
  | Truncate f | Write f _ | Append f _ | Remove f | Touch f => [f]
  | Cat _ dst | Filter _ dst _ | CatGlob _ dst => [dst]
  | Move src dst => [src; dst]
  | Read _ | RemoveGlob _ | LocsInsert _ | LocsLookup _ => []
  end.
Definition needs (o : op) : list fname :=
  match o with
  | Append f _ | Read f | Touch f => [f]
  | Cat srcs _ => srcs
  | Filter src _ _ => [src]
  | Move src dst => [src; dst]
  | _ => []           (* CatGlob reads temp files only: covered by [is_tmp] *)
  end.

(* def_before_use: every file read or appended to is a declared input, a temp file, or
   was defined earlier in the same program *)
Fixpoint dbu (inp : fname -> bool) (D : list fname) (p : prog) : bool :=
  match p with
  | [] => true
  | o :: p' => forallb (det inp D) (needs o) && dbu inp (defs o ++ D) p'
  end.
Definition def_before_use (inp : fname -> bool) (p : prog) : bool := dbu inp [] p.

(* inserted_before_lookup: every lookup of a parameter name follows an insertion of that name
   in the same program *)
Fixpoint ibl (I : list nat) (p : prog) : bool :=
  match p with
  | [] => true
  | LocsInsert i :: p' => ibl (i :: I) p'
  | LocsLookup (KParam i) :: p' => existsb (Nat.eqb i) I && ibl I p'
  | _ :: p' => ibl I p'
  end.
Definition inserted_before_lookup (p : prog) : bool := ibl [] p.

(* parameters are inserted as a0, a1, ...: a<i+1> only after a<i> *)
Fixpoint prefix_ins (I : list nat) (p : prog) : bool :=
  match p with
  | [] => true
  | LocsInsert i :: p' =>
      (match i with O => true | S j => existsb (Nat.eqb j) I end) && prefix_ins (i :: I) p'
  | _ :: p' => prefix_ins I p'
  end.
Definition prefix_inserts (p : prog) : bool := prefix_ins [] p.
Fixpoint prog_K (p : prog) : nat :=      (* number of parameter names the program inserts *)
  match p with
  | [] => 0
  | LocsInsert i :: p' => Nat.max (S i) (prog_K p')
  | _ :: p' => prog_K p'
  end.
Fixpoint hist_K (h : list prog) : nat :=
  match h with [] => 0 | p :: h' => Nat.max (prog_K p) (hist_K h') end.

(* tmp_balanced: every temp file the program creates is removed again before it ends *)
Definition live_upd (o : op) (live : list fname) : list fname :=
  match o with
  | Remove f => filter (fun g => negb (fname_eqb g f)) live
  | RemoveGlob p => filter (fun g => negb (pat_match p g)) live
  | Move src dst => filter is_tmp [dst] ++ filter (fun g => negb (fname_eqb g src)) live
  | _ => filter is_tmp (defs o) ++ live
  end.
Fixpoint tmpbal (live : list fname) (p : prog) : bool :=
  match p with
  | [] => match live with [] => true | _ => false end
  | o :: p' => tmpbal (live_upd o live) p'
  end.
Definition tmp_balanced (p : prog) : bool := tmpbal [] p.

(* files the program defines *)
Definition written (p : prog) : list fname := flat_map defs p.

(* shape equality of programs (write-site numbers ignored): used to compare traces with the instances *)
Definition list_eqb {A} (e : A -> A -> bool) := fix go (l1 l2 : list A) : bool :=
  match l1, l2 with
  | [], [] => true
  | x :: r, y :: s => e x y && go r s
  | _, _ => false
  end.
Definition pat_eqb (p q : pat) : bool := fname_eqb (pat_file p 0) (pat_file q 0).
Definition op_eqb (a b : op) : bool :=
  match a, b with
  | Truncate f, Truncate g => fname_eqb f g
  | Truncate f, Write g _ | Write f _, Truncate g => fname_eqb f g   (* a trace shows open(f,'w'), not whether anything is written *)
  | Write f _, Write g _ => fname_eqb f g
  | Append f _, Append g _ => fname_eqb f g
  | Read f, Read g => fname_eqb f g
  | Remove f, Remove g => fname_eqb f g
  | Touch f, Touch g => fname_eqb f g
  | Cat s d, Cat s' d' => list_eqb fname_eqb s s' && fname_eqb d d'
  | Filter s d _, Filter s' d' _ => fname_eqb s s' && fname_eqb d d'
  | Move s d, Move s' d' => fname_eqb s s' && fname_eqb d d'
  | CatGlob p d, CatGlob p' d' => pat_eqb p p' && fname_eqb d d'
  | RemoveGlob p, RemoveGlob p' => pat_eqb p p'
  | LocsInsert i, LocsInsert j => i =? j
  | LocsLookup k, LocsLookup k' => key_eqb k k'
  | _, _ => false
  end.
(* index of the first position where two programs differ (None: equal) *)
Fixpoint first_diff (i : nat) (p q : prog) : option nat :=
  match p, q with
  | [], [] => None
  | a :: p', b :: q' => if op_eqb a b then first_diff (S i) p' q' else Some i
  | _, _ => Some i
  end.

(* ------------------------------------------------------------------ ESR's stages *)

(* one call of sympify-with-inserts (initial_sympify, load_subs, check_results): the
   parameter symbols a0..a(K-1) are inserted, then the parser looks names up *)
Definition sblock := (nat * list key)%type.
Definition block_ops (b : sblock) : prog := map LocsInsert (seq 0 (fst b)) ++ map LocsLookup (snd b).
Definition key_ok (K : nat) (k : key) : bool := match k with KParam i => i <? K | _ => true end.
Definition block_ok (b : sblock) : bool := forallb (key_ok (fst b)) (snd b).
Definition blocks_ops (bs : list sblock) : prog := flat_map block_ops bs.

(* sed 's/.$//; s/^.//' f > temp ; mv temp f *)
Definition sedmv (b n : nat) (f : fname) : prog :=
  [Filter f (LibF b n TempTxt 0) 0; Move (LibF b n TempTxt 0) f].

(* --- generation of (basis b, complexity n): duplicate_checker.main, rank 0.
   Data-dependent parts of the shape are parameters:
     shapes  : for every tree shape, the sympify blocks of find_additional_trees for that shape
     initb   : the blocks of initial_sympify (one or two calls)
     rounds  : for every do_sympy round, the block of load_subs and whether inv_idx is read
     chk     : the block of check_results                                                     *)
Record genparams := mkGen {
  g_shapes : list (list sblock);
  g_initb : list sblock;
  g_rounds : list (sblock * bool);
  g_chk : sblock }.

Definition L4 (b n : nat) : list fname :=
  [LibF b n OrigTrees 0; LibF b n ExtraTrees 0; LibF b n OrigAifeyn 0; LibF b n ExtraAifeyn 0].

Definition gen_shape (b n : nat) (bs : list sblock) : prog :=
  blocks_ops bs ++ map (fun f => Append f 1) (L4 b n).

Fixpoint gen_round_writes (b n : nat) (r nr : nat) : prog :=
  match nr with
  | O => []
  | S k => Write (LibF b n InvIdxRound r) 3 :: Write (LibF b n InvSubsRound r) 4 :: gen_round_writes b n (S r) k
  end.
Fixpoint gen_round_reads (b n : nat) (r : nat) (rs : list (sblock * bool)) : prog :=
  match rs with
  | [] => []
  | (blk, rdidx) :: rs' =>
      Read (LibF b n InvSubsRound r) :: block_ops blk
      ++ (if rdidx then [Read (LibF b n InvIdxRound r)] else [])
      ++ gen_round_reads b n (S r) rs'
  end.

Definition check_results_prog (b n : nat) (blk : sblock) : prog :=
  [Read (LibF b n AllEq 0); Read (LibF b n InvSubs 0); Read (LibF b n UniqEq 0); Read (LibF b n Matches 0)]
  ++ block_ops blk
  ++ [Read (LibF b n AllEq 0); Read (LibF b n UniqEq 0); Write (LibF b n UniqEq 0) 8]
  ++ sedmv b n (LibF b n UniqEq 0)
  ++ [Read (LibF b n InvSubs 0); Write (LibF b n InvSubs 0) 9; Read (LibF b n Matches 0); Write (LibF b n Matches 0) 10].

Definition generation_prog (b n : nat) (G : genparams) : prog :=
  map Truncate (L4 b n)
  ++ flat_map (gen_shape b n) (g_shapes G)
  ++ [Cat [LibF b n OrigTrees 0; LibF b n ExtraTrees 0] (LibF b n Trees 0);
      Cat [LibF b n OrigAifeyn 0; LibF b n ExtraAifeyn 0] (LibF b n Aifeyn 0)]
  ++ blocks_ops (g_initb G)
  ++ [Write (LibF b n AllEq 0) 2]
  ++ gen_round_writes b n 0 (length (g_rounds G))
  ++ [Write (LibF b n UniqEq 0) 5; Write (LibF b n Matches 0) 6]
  ++ gen_round_reads b n 0 (g_rounds G)
  ++ [Write (LibF b n InvSubs 0) 7]
  ++ flat_map (sedmv b n) [LibF b n UniqEq 0; LibF b n AllEq 0; LibF b n Trees 0; LibF b n OrigTrees 0; LibF b n ExtraTrees 0]
  ++ (if 2 <? n then check_results_prog b n (g_chk G) else []).
Definition generation_inputs : fname -> bool := fun _ => false.
Definition gen_blocks (G : genparams) : list sblock :=
  concat (g_shapes G) ++ g_initb G ++ map fst (g_rounds G) ++ [g_chk G].

(* --- fitting stages of (run, basis b, complexity n) on P ranks.  A rank's own operations are
   [..._rank r]; the ranks are separated by barriers into supersteps, and the stage program is the
   supersteps in order, each with the ranks' segments in rank order (they touch distinct files). *)
Definition only0 (r : nat) (p : prog) : prog := match r with O => p | _ => [] end.

(* Likelihood constructor (every rank): reads the data file *)
Definition ctor_prog (d : nat) : prog := [Read (DataF d)].

(* test_all.main;  prev = ignore_previous_eqns;  ms = number of functions of each rank (P = length ms) *)
Definition fit_s1 (b n : nat) (prev : bool) (r : nat) : prog :=
  Read (LibF b n UniqEq 0)
  :: only0 r (if prev then map (fun i => Read (LibF b i UniqEq 0)) (seq 1 (n - 1)) ++ [Write (LibF b n PrevEqns 0) 11] else []).
Definition fit_s2 (run b n : nat) (prev : bool) (r m : nat) : prog :=
  (if prev && (1 <? n) then repeat (Read (LibF b n PrevEqns 0)) m else [])
  ++ [Write (TmpF run TChi2 n r) 12].
Definition fit_s3 (run n : nat) : prog :=
  [CatGlob (PTmp run TChi2 n) (OutF run ONegloglike n); RemoveGlob (PTmp run TChi2 n)].
Definition fit_rank (run b n : nat) (prev : bool) (r m : nat) : prog :=
  fit_s1 b n prev r ++ fit_s2 run b n prev r m ++ only0 r (fit_s3 run n).
Fixpoint ranked {A} (r : nat) (f : nat -> A -> prog) (ms : list A) : prog :=
  match ms with [] => [] | m :: ms' => f r m ++ ranked (S r) f ms' end.
Definition fit_prog (run b n : nat) (prev : bool) (ms : list nat) : prog :=
  ranked 0 (fun r _ => fit_s1 b n prev r) ms ++ ranked 0 (fit_s2 run b n prev) ms ++ fit_s3 run n.
Definition fit_inputs (b n : nat) (prev : bool) : fname -> bool :=
  fun f => match f with
           | LibF b' i UniqEq 0 => (b' =? b) && ((i =? n) || (prev && (1 <=? i) && (i <? n)))
           | _ => false
           end.

(* test_all_Fisher.main *)
Definition fisher_pre (run b n r : nat) : prog :=
  [Read (LibF b n UniqEq 0); Read (OutF run ONegloglike n);
   Write (TmpF run TCodelenDeriv n r) 13; Write (TmpF run TDerivs n r) 14].
Definition fisher_post (run n : nat) : prog :=
  [CatGlob (PTmp run TCodelenDeriv n) (OutF run OCodelenDeriv n); RemoveGlob (PTmp run TCodelenDeriv n);
   CatGlob (PTmp run TDerivs n) (OutF run ODerivs n); RemoveGlob (PTmp run TDerivs n)].
Definition fisher_rank (run b n r : nat) : prog := fisher_pre run b n r ++ only0 r (fisher_post run n).
Definition fisher_prog (run b n P : nat) : prog :=
  flat_map (fisher_pre run b n) (seq 0 P) ++ fisher_post run n.
Definition fisher_inputs (run b n : nat) : fname -> bool :=
  fun f => fname_eqb f (LibF b n UniqEq 0) || fname_eqb f (OutF run ONegloglike n).

(* match.main;  blks = the load_subs block of each rank *)
Definition match_pre (run b n r : nat) (blk : sblock) : prog :=
  [Read (LibF b n AllEq 0); Read (OutF run ONegloglike n)]
  ++ only0 r [Read (LibF b n InvSubs 0)]
  ++ block_ops blk
  ++ [Read (LibF b n Matches 0); Read (OutF run ODerivs n); Write (TmpF run TCodelenMatches n r) 15].
Definition match_post (run n : nat) : prog :=
  [CatGlob (PTmp run TCodelenMatches n) (OutF run OCodelenMatches n); RemoveGlob (PTmp run TCodelenMatches n)].
Definition match_rank (run b n r : nat) (blk : sblock) : prog := match_pre run b n r blk ++ only0 r (match_post run n).
Definition match_prog (run b n : nat) (blks : list sblock) : prog :=
  ranked 0 (match_pre run b n) blks ++ match_post run n.
Definition match_inputs (run b n : nat) : fname -> bool :=
  fun f => fname_eqb f (LibF b n AllEq 0) || fname_eqb f (LibF b n InvSubs 0) || fname_eqb f (LibF b n Matches 0)
           || fname_eqb f (OutF run ONegloglike n) || fname_eqb f (OutF run ODerivs n).

(* combine_DL.main;  m = number of rows appended to final_<n>.dat *)
Definition combine_pre (run b n r : nat) : prog :=
  [Read (LibF b n UniqEq 0); Read (LibF b n AllEq 0); Read (OutF run OCodelenMatches n); Read (LibF b n Aifeyn 0);
   Read (LibF b n UniqEq 0);
   Write (TmpF run TCombine n r) 16; Write (TmpF run TCombineFcn n r) 17].
Definition combine_post (run n m : nat) : prog :=
  [CatGlob (PTmp run TCombine n) (OutF run OCombine n); RemoveGlob (PTmp run TCombine n);
   CatGlob (PTmp run TCombineFcn n) (OutF run OCombineFcn n); RemoveGlob (PTmp run TCombineFcn n);
   Read (OutF run OCombine n); Read (OutF run OCombineFcn n);
   Remove (OutF run OFinal n)]
  ++ repeat (Append (OutF run OFinal n) 18) m
  ++ (match m with O => [Touch (OutF run OFinal n)] | _ => [] end)
  ++ [Write (OutF run OPretty n) 19].
Definition combine_rank (run b n r m : nat) : prog := combine_pre run b n r ++ only0 r (combine_post run n m).
Definition combine_prog (run b n P m : nat) : prog :=
  flat_map (combine_pre run b n) (seq 0 P) ++ combine_post run n m.
Definition combine_inputs (run b n : nat) : fname -> bool :=
  fun f => fname_eqb f (LibF b n UniqEq 0) || fname_eqb f (LibF b n AllEq 0) || fname_eqb f (LibF b n Aifeyn 0)
           || fname_eqb f (OutF run OCodelenMatches n).

(* a run that stops after writing its temp file (killed before the cat/rm): NOT a completed run *)
Definition fit_crashed (run b n r : nat) : prog := fit_s1 b n false r ++ fit_s2 run b n false r 0.

(* ------------------------------------------------------------------ PanthLikelihood's cached grid *)
(* get_pred computes (data_x, data_mask) from the data's x values on first use and keeps it in the
   object; clear_data resets it.  [grid] is the (abstract) function of the data. *)
Section Memo.
  Variables X G : Type.
  Variable grid : X -> G.
  Definition memo_get (xvar : X) (cache : option G) : G * option G :=
    match cache with
    | Some g => (g, cache)
    | None => (grid xvar, Some (grid xvar))
    end.
  Definition cache_ok (xvar : X) (cache : option G) : Prop := cache = None \/ cache = Some (grid xvar).
End Memo.

(* ------------------------------------------------------------------ histories of completed ESR calls *)
(* any of the stage programs above, with any parameters (other bases, other complexities, other runs,
   any rank counts, repeats) *)
Inductive esr_stage : prog -> Prop :=
| St_gen : forall b n G, esr_stage (generation_prog b n G)
| St_ctor : forall d, esr_stage (ctor_prog d)
| St_fit : forall run b n prev ms, esr_stage (fit_prog run b n prev ms)
| St_fisher : forall run b n P, esr_stage (fisher_prog run b n P)
| St_match : forall run b n blks, esr_stage (match_prog run b n blks)
| St_combine : forall run b n P m, esr_stage (combine_prog run b n P m).
Definition esr_history (h : list prog) : Prop := Forall esr_stage h.

(* a toy instantiation used by the Examples: records are numbers, write site g writes the record g
   followed by the number of values read so far *)
Definition toy_interp (g : nat) (rd : list (obs nat)) : contents nat := [g; length rd].
Definition empty_store : store nat := fun _ => None.

(* example data for Props/C16.v *)
Definition G3 : genparams :=       (* the shape parameters of core_maths, complexity 3 (as traced) *)
  mkGen [[]; [(1, [KOther 0; KOther 1; KBase 5]); (1, [KOther 0; KOther 1; KBase 5])]]
        [(2, [KOther 0; KParam 0; KParam 1; KBase 0; KBase 3; KBase 5]); (2, [KOther 0; KOther 1; KBase 5])]
        [((2, [KOther 0; KOther 1; KParam 0]), true); ((2, []), false); ((2, []), false)]
        (2, [KOther 0; KOther 1; KParam 0; KBase 5]).

