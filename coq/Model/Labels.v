(* Executable model of the label enumeration of esr/generation/generator.py: shape_to_functions
   (1491-1585, the all_tree list that generate_equations writes to orig_trees_<n>.txt) and of the
   shape loop of generate_equations (1637-1745); and the spec-side enumerator of labelled trees.
   No proofs here (Proofs/LabelsProofs.v).

   shape_to_functions(s, basis_functions):
     n0, n1, n2 = number of 0s, 1s, 2s in s
     t0 = product(basis[0], repeat=n0); t1 = product(basis[1], repeat=n1); t2 = product(basis[2], repeat=n2)
     for every tuple of t0: the entries equal to 'a' are replaced by 'a0', 'a1', ... in order   -> rename 0
     for i in t0: for j in t1: for k in t2:                                                        -> loop order
         labels[:] = None; labels[s==0] = t0[i]; labels[s==1] = t1[j]; labels[s==2] = t2[k]        -> fill
         all_tree[pos] = labels.copy(); pos += 1
   (the split of find_additional_trees work over ranks, node_to_string and the extra trees are not
   part of this model: C01 is about the "orig" trees; split_idx is Proofs/PartitionProofs.v.) *)
From Coq Require Import List Bool Arith String Ascii DecimalString.
From ESRV Require Import Model.Shapes.
Import ListNotations.
Open Scope string_scope.
Open Scope list_scope.
Open Scope nat_scope.

Record basis := mkBasis { b0 : list string; b1 : list string; b2 : list string }.

(* 'a%i' % k *)
Definition param_name (k : nat) : string := String.append "a" (NilEmpty.string_of_uint (Nat.to_uint k)).

(* np.sum(s == a) *)
Fixpoint cnt (a : nat) (s : list nat) : nat :=
  match s with
  | [] => 0
  | x :: r => (if Nat.eqb x a then 1 else 0) + cnt a r
  end.

(* indices = [j for j, x in enumerate(t) if x == 'a']; t[indices[j]] = 'a%i' % j *)
Fixpoint rename (j : nat) (l : list string) : list string :=
  match l with
  | [] => []
  | x :: r => if String.eqb x "a" then param_name j :: rename (S j) r else x :: rename j r
  end.

(* labels[:] = None; labels[m0] = l0; labels[m1] = l1; labels[m2] = l2   (dtype U100: None -> 'None') *)
Fixpoint fill (s : list nat) (l0 l1 l2 : list string) : list string :=
  match s with
  | [] => []
  | a :: r =>
    match a with
    | 0 => hd "None" l0 :: fill r (tl l0) l1 l2
    | 1 => hd "None" l1 :: fill r l0 (tl l1) l2
    | 2 => hd "None" l2 :: fill r l0 l1 (tl l2)
    | _ => "None" :: fill r l0 l1 l2
    end
  end.

(* all_tree of shape_to_functions(s, basis), in order *)
Definition labelings (s : list nat) (b : basis) : list (list string) :=
  let t0 := map (rename 0) (lprod (b0 b) (cnt 0 s)) in
  let t1 := lprod (b1 b) (cnt 1 s) in
  let t2 := lprod (b2 b) (cnt 2 s) in
  flat_map (fun l0 => flat_map (fun l1 => map (fun l2 => fill s l0 l1 l2) t2) t1) t0.

(* the lines of orig_trees_<n>.txt written by generate_equations(n, basis, dirname), in order *)
Definition generate (n : nat) (b : basis) : res (list (list string)) :=
  match allowed n with
  | Ok shapes => Ok (flat_map (fun s => labelings s b) shapes)
  | Crash => Crash
  | Fuel => Fuel
  end.

(* ---------- spec side: labelled trees, enumerated by size ---------- *)
Inductive ltree :=
| LL (x : string)
| LU (f : string) (t : ltree)
| LB (g : string) (l r : ltree).

Fixpoint lsize (t : ltree) : nat :=
  match t with
  | LL _ => 1
  | LU _ t => S (lsize t)
  | LB _ l r => S (lsize l + lsize r)
  end.

(* every labelled tree with n nodes over the basis (labels as they are in the basis) *)
Fixpoint raw_trees (b : basis) (fuel n : nat) : list ltree :=
  match fuel with
  | O => []
  | S f =>
    match n with
    | O => []
    | S O => map LL (b0 b)
    | S n' =>
      flat_map (fun g => map (LU g) (raw_trees b f n')) (b1 b) ++
      flat_map (fun k =>
        flat_map (fun g =>
          flat_map (fun l => map (LB g l) (raw_trees b f (n' - k))) (raw_trees b f k)) (b2 b))
        (seq 1 (n' - 1))
    end
  end.

(* number the parameter leaves 'a' as a0, a1, ... in prefix (depth-first, left-to-right) order *)
Fixpoint number (j : nat) (t : ltree) : ltree * nat :=
  match t with
  | LL x => if String.eqb x "a" then (LL (param_name j), S j) else (LL x, j)
  | LU f t => let (t', j') := number j t in (LU f t', j')
  | LB g l r =>
    let (l', j1) := number j l in
    let (r', j2) := number j1 r in
    (LB g l' r', j2)
  end.

Fixpoint lpre (t : ltree) : list string :=
  match t with
  | LL x => [x]
  | LU f t => f :: lpre t
  | LB g l r => g :: lpre l ++ lpre r
  end.

Definition render (t : ltree) : list string := lpre (fst (number 0 t)).

Definition all_ltrees (n : nat) (b : basis) : list (list string) :=
  map render (raw_trees b n n).

(* the shipped bases (duplicate_checker.main) *)
Definition core_maths := mkBasis ["x"; "a"] ["inv"] ["+"; "*"; "-"; "/"; "pow"].
Definition ext_maths := mkBasis ["x"; "a"] ["inv"; "sqrt_abs"; "square"; "exp"] ["+"; "*"; "-"; "/"; "pow"].
Definition keep_duplicates := mkBasis ["x"; "a"] ["square"; "exp"; "inv"; "sqrt_abs"; "log_abs"] ["+"; "*"; "-"; "/"; "pow"].
Definition osc_maths := mkBasis ["x"; "a"] ["inv"; "sin"] ["+"; "*"; "-"; "/"; "pow"].
Definition base10_maths := mkBasis ["x"; "a"] ["tenexp"; "inv"; "log10_abs"] ["+"; "*"; "-"; "/"; "pow"].
Definition base_e_maths := mkBasis ["x"; "a"] ["inv"; "exp"; "log_abs"] ["+"; "*"; "-"; "/"; "pow"].

(* decidable comparison for correspondence files *)
Fixpoint lstr_eqb (a b : list string) : bool :=
  match a, b with
  | [], [] => true
  | x :: r, y :: s => String.eqb x y && lstr_eqb r s
  | _, _ => false
  end.
Fixpoint llstr_eqb (a b : list (list string)) : bool :=
  match a, b with
  | [], [] => true
  | x :: r, y :: s => lstr_eqb x y && llstr_eqb r s
  | _, _ => false
  end.
