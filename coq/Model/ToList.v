(* C18 -- converting a formula string to a tree (esr/generation/generator.py: DecoratedNode.__init__, is_unity,
   count_nodes, to_list, string_to_node; esr/fitting/fit_single.py: the relabelling and `replace floats` code of
   fit_from_string / string_to_aifeyn; generator.labels_to_shape and the parent computation of check_tree).
   Executable model, no proofs (Proofs/ToListProofs.v).

   sympy's four parses are an oracle: the harness dumps each parsed expression structurally (class name, .args in the
   order sympy gives them, for number atoms str(e), its exact value and the value of the printed text) and this file
   models everything ESR does with it.  Strings are Coq strings: class names, operator names and the renamings
   ('Square', 'Sqrt', ..., the "sqaure" typo, .lower()) are compared exactly as the Python code compares them. *)
From Coq Require Import String Ascii List Bool Arith ZArith QArith Qround Reals Qreals.
From Coq Require DecimalString.
Import ListNotations.
Open Scope string_scope.

(* ---------------------------------------------------------------- small Python idioms *)
Definition obind {A B} (o : option A) (f : A -> option B) : option B :=
  match o with Some a => f a | None => None end.
Notation "x <- e ;; k" := (obind e (fun x => k)) (at level 61, e at next level, right associativity).

Definition lower_ascii (c : ascii) : ascii :=
  let n := nat_of_ascii c in
  if (65 <=? n)%nat && (n <=? 90)%nat then ascii_of_nat (n + 32) else c.
Fixpoint lower (s : string) : string :=
  match s with EmptyString => EmptyString | String c r => String (lower_ascii c) (lower r) end.
Definition mem (s : string) (l : list string) : bool := existsb (String.eqb s) l.

(* basis_functions[0], [1], [2] *)
Record basis := { b0 : list string; b1 : list string; b2 : list string }.

(* ---------------------------------------------------------------- the dump of a sympy expression *)
Inductive sym := SX | SA (i : nat).          (* Symbol('x'), Symbol('a<i>') *)

Inductive sexpr :=
| ENum (cls txt : string) (qv qp : Q)  (* number atom: class name, str(e), exact value, value of the text str(e) *)
| ESym (s : sym)
| EApp (cls : string) (args : list sexpr).   (* any other node: class name and .args *)

Definition show_sym (s : sym) : string :=
  match s with SX => "x" | SA i => "a" ++ DecimalString.NilZero.string_of_uint (Nat.to_uint i) end.

(* ---------------------------------------------------------------- DecoratedNode *)
(* self.val : None | str(fun) for numbers | fun.name for symbols *)
Inductive dval := VNone | VNum (txt : string) (qv qp : Q) | VSym (s : sym).

(* op = (possibly renamed) class name, ty = type(fun) (never renamed), deg = len(fun.args) (NOT len(children)).
   __init__ never builds more than two children. *)
Inductive dnode :=
| D0 (op ty : string) (deg : nat) (v : dval)
| D1 (op ty : string) (deg : nat) (v : dval) (c0 : dnode)
| D2 (op ty : string) (deg : nat) (v : dval) (c0 c1 : dnode).

Definition dop (d : dnode) := match d with D0 o _ _ _ | D1 o _ _ _ _ | D2 o _ _ _ _ _ => o end.
Definition dty (d : dnode) := match d with D0 _ t _ _ | D1 _ t _ _ _ | D2 _ t _ _ _ _ => t end.
Definition ddeg (d : dnode) := match d with D0 _ _ n _ | D1 _ _ n _ _ | D2 _ _ n _ _ _ => n end.
Definition dvl (d : dnode) := match d with D0 _ _ _ v | D1 _ _ _ v _ | D2 _ _ _ v _ _ => v end.
Definition kid0 (d : dnode) : option dnode :=
  match d with D0 _ _ _ _ => None | D1 _ _ _ _ c | D2 _ _ _ _ c _ => Some c end.
Definition kid1 (d : dnode) : option dnode :=
  match d with D2 _ _ _ _ _ c => Some c | _ => None end.

(* `fun.args[1] == k` for a Python int k, sympy 1.14: true only for Integer atoms (Float(2.0) == 2 is False) *)
Definition is_intcls (c : string) : bool := mem c ["Integer"; "Zero"; "One"; "NegativeOne"].
Definition eq_int (e : sexpr) (k : Z) : bool :=
  match e with ENum c _ qv _ => is_intcls c && Qeq_bool qv (inject_Z k) | _ => false end.
(* `fun.args[1] == 1/2` (a Python float), sympy 1.14: true for Float(0.5), false for Rational(1,2) *)
Definition eq_half (e : sexpr) : bool :=
  match e with ENum c _ qv _ => String.eqb c "Float" && Qeq_bool qv (1 # 2) | _ => false end.

Fixpoint decorate (b : basis) (e : sexpr) : option dnode :=
  match e with
  | ENum c txt qv qp => Some (D0 c c 0 (VNum txt qv qp))
  | ESym s => Some (D0 "Symbol" "Symbol" 0 (VSym s))
  | EApp c args =>
    (fix app (l : list sexpr) : option dnode :=
       let deg := length l in
       let one (o : string) (a : sexpr) := d <- decorate b a ;; Some (D1 o c deg VNone d) in
       let generic :=
         match l with
         | [] => Some (D0 c c 0 VNone)
         | [a0] => d0 <- decorate b a0 ;; Some (D1 c c 1 VNone d0)
         | [a0; a1] => d0 <- decorate b a0 ;; d1 <- decorate b a1 ;; Some (D2 c c 2 VNone d0 d1)
         | a0 :: rest =>                             (* fun.as_two_terms(): head and the same class over the rest *)
           if String.eqb c "Add" || String.eqb c "Mul"
           then d0 <- decorate b a0 ;; d1 <- app rest ;; Some (D2 c c deg VNone d0 d1)
           else None
         end in
       if String.eqb c "Pow" then
         match l with
         | a0 :: a1 :: _ =>
           if eq_int a1 2 && mem "square" (b1 b) then one "Square" a0
           else if eq_int a1 3 && mem "cube" (b1 b) then one "Cube" a0
           else if eq_half a1 && (mem "sqrt" (b1 b) || mem "sqrt_abs" (b1 b)) then one "Sqrt" a0
           else if eq_int a1 (-1) && mem "inv" (b1 b) then one "Inv" a0
           else generic
         | _ => None                                  (* fun.args[1]: IndexError *)
         end
       else if String.eqb c "Mul" then
         match l with
         | [a0; EApp c1 l1] =>
           if String.eqb c1 "Pow" then
             match l1 with
             | u :: w :: _ =>
               if eq_int w (-1)
               then d0 <- decorate b a0 ;; d1 <- decorate b u ;; Some (D2 "Div" c 2 VNone d0 d1)
               else generic
             | _ => None
             end
           else generic
         | _ => generic
         end
       else generic) args
  end.

(* ---------------------------------------------------------------- to_list *)
Inductive label :=
| LOp (s : string)                       (* an operator / class name *)
| LNum (txt : string) (qv qp : Q)        (* str(val) of a number atom *)
| LSym (s : sym).

Definition show_label (l : label) : string :=
  match l with LOp s => s | LNum t _ _ => t | LSym s => show_sym s end.

(* [str(self.val)] *)
Definition vlabel (v : dval) : label :=
  match v with VNone => LOp "None" | VNum t qv qp => LNum t qv qp | VSym s => LSym s end.
(* self.val == str(k) *)
Definition val_is (v : dval) (s : string) : bool :=
  match v with VNum t _ _ => String.eqb t s | VSym y => String.eqb (show_sym y) s | VNone => false end.
(* is_unity: float(self.val) == 1.0 (False when float() raises: symbols, None, 'p/q') *)
Definition is_unity (d : dnode) : bool :=
  match dvl d with VNum _ _ qp => Qeq_bool qp 1 | _ => false end.

Inductive kref := KC0 | KC1 | KC10 | KC11.    (* children[0], children[1], children[1].children[0], children[1].children[1] *)
Inductive action :=
| AErr                                                       (* the Python code raises (or returns None, which raises in the caller) *)
| AOut (pre : list label) (k1 k2 : option kref) (post : list label).  (* pre + k1.to_list() + k2.to_list() + post *)

(* `A and B` where B may raise *)
Definition andl (a : bool) (k : option bool) : option bool := if a then k else Some false.
Fixpoint first_true (l : list (option bool * action)) (dflt : action) : action :=
  match l with
  | [] => dflt
  | (None, _) :: _ => AErr
  | (Some true, a) :: _ => a
  | (Some false, _) :: r => first_true r dflt
  end.

Definition in_sqrt_pow (s : string) := mem s ["Sqrt"; "Pow"].

(* the if / elif chain of to_list, in source order *)
Definition decide (b : basis) (pop : option string) (d : dnode) : action :=
  let op := dop d in
  let k0 := kid0 d in
  let k1 := kid1 d in
  let un := b1 b in
  let bi := b2 b in
  let both :=
    match d with
    | D0 _ _ _ _ => AOut [LOp op] None None []
    | D1 _ _ _ _ _ => AOut [LOp op] (Some KC0) None []
    | D2 _ _ _ _ _ _ => AOut [LOp op] (Some KC0) (Some KC1) []
    end in
  match ddeg d with
  | O => AOut [vlabel (dvl d)] None None []
  | S O => AOut [LOp op] (Some KC0) None []
  | _ =>
    first_true
      [ (* Sqrt(x) instead of pow(x, 1/2) *)
        (andl (String.eqb op "Pow") (c1 <- k1 ;; Some (String.eqb (dty c1) "Half" && (mem "sqrt" un || mem "sqrt_abs" un))),
         if mem "sqrt" un then AOut [LOp "sqrt"] (Some KC0) None [] else AOut [LOp "sqrt_abs"] (Some KC0) None []);
        (* Square(x) instead of pow(x, 2) if possible *)
        (andl (String.eqb op "Pow") (c1 <- k1 ;; Some (val_is (dvl c1) "2" && mem "square" un)),
         AOut [LOp "square"] (Some KC0) None []);
        (* pow(x,2) instead of Square(x) "if necessary": the typo "sqaure" makes this unconditional *)
        (Some (String.eqb op "Square" && negb (mem "sqaure" un)),
         AOut [LOp "pow"] (Some KC0) None [LNum "2" 2 2]);
        (andl (String.eqb op "Pow") (c1 <- k1 ;; Some (val_is (dvl c1) "3" && mem "cube" un)),
         AOut [LOp "cube"] (Some KC0) None []);
        (Some (String.eqb op "Cube" && negb (mem "cube" un)),
         AOut [LOp "pow"] (Some KC0) None [LNum "3" 3 3]);
        (* Inv(x) instead of pow(x, -1) *)
        (andl (String.eqb op "Pow") (c1 <- k1 ;; Some (String.eqb (dty c1) "NegativeOne" && mem "inv" un)),
         AOut [LOp "Inv"] (Some KC0) None []);
        (* "Deal with * inv = /": returns ["Mul"] + children[1].to_list() -- one operand only *)
        (andl (String.eqb op "Mul") (c0 <- k0 ;; andl (String.eqb (dop c0) "Pow")
                 (c1 <- k1 ;; Some (String.eqb (dty c1) "NegativeOne" && mem "/" bi))),
         AOut [LOp "Mul"] (Some KC1) None []);
        (* "Deal with / inv = *" *)
        (andl (String.eqb op "Div") (c0 <- k0 ;; andl (String.eqb (dop c0) "Pow")
                 (c1 <- k1 ;; Some (String.eqb (dty c1) "NegativeOne" && mem "*" bi))),
         AOut [LOp "Mul"] (Some KC1) None []);
        (* Multiply by one doesn't do anything *)
        (andl (String.eqb op "Mul") (c0 <- k0 ;; if is_unity c0 then Some true else c1 <- k1 ;; Some (is_unity c1)),
         match k0 with
         | Some c0 => if is_unity c0 then AOut [] (Some KC1) None [] else AOut [] (Some KC0) None []
         | None => AErr
         end);
        (* Don't keep abs after pow or sqrt (self.parent.op: AttributeError at the root) *)
        (andl (String.eqb op "Abs") (match pop with Some p => Some (in_sqrt_pow p) | None => None end),
         AOut [] (Some KC0) None []);
        (* `self.children[0] == 1` compares a DecoratedNode with an int: always False; the branch body is `pass` *)
        (andl (String.eqb op "Div") (_ <- k0 ;; _ <- k1 ;; Some false), AErr);
        (* a + (-1)*b  ->  Sub a b *)
        (andl (String.eqb op "Add") (c1 <- k1 ;; andl (String.eqb (dop c1) "Mul")
                 (g0 <- kid0 c1 ;; if String.eqb (dop g0) "NegativeOne" then Some true
                                   else g1 <- kid1 c1 ;; Some (String.eqb (dop g1) "NegativeOne"))),
         match k1 with
         | Some c1 => match kid0 c1 with
                      | Some g0 => if String.eqb (dop g0) "NegativeOne"
                                   then AOut [LOp "Sub"] (Some KC0) (Some KC11) []
                                   else AOut [LOp "Sub"] (Some KC0) (Some KC10) []
                      | None => AErr
                      end
         | None => AErr
         end) ]
      both
  end.

Fixpoint to_list (b : basis) (pop : option string) (d : dnode) {struct d} : option (list label) :=
  let sub (k : kref) : option (list label) :=
    match k, d with
    | KC0, D1 op _ _ _ c0 => to_list b (Some op) c0
    | KC0, D2 op _ _ _ c0 _ => to_list b (Some op) c0
    | KC1, D2 op _ _ _ _ c1 => to_list b (Some op) c1
    | KC10, D2 _ _ _ _ _ (D1 op1 _ _ _ g0) => to_list b (Some op1) g0
    | KC10, D2 _ _ _ _ _ (D2 op1 _ _ _ g0 _) => to_list b (Some op1) g0
    | KC11, D2 _ _ _ _ _ (D2 op1 _ _ _ _ g1) => to_list b (Some op1) g1
    | _, _ => None
    end in
  let osub (k : option kref) : option (list label) :=
    match k with None => Some [] | Some k => sub k end in
  match decide b pop d with
  | AErr => None
  | AOut pre k1 k2 post => m1 <- osub k1 ;; m2 <- osub k2 ;; Some (pre ++ m1 ++ m2 ++ post)%list
  end.

Definition count_nodes (b : basis) (d : dnode) : option nat :=
  l <- to_list b None d ;; Some (length l).

(* ---------------------------------------------------------------- string_to_node: four candidates, smallest count *)
(* np.nanargmin: first index of the smallest non-nan entry; ValueError when all are nan *)
Fixpoint argmin_from (i : nat) (best : option (nat * nat)) (l : list (option nat)) : option (nat * nat) :=
  match l with
  | [] => best
  | None :: r => argmin_from (S i) best r
  | Some c :: r =>
    match best with
    | Some (_, cb) => if (c <? cb)%nat then argmin_from (S i) (Some (i, c)) r else argmin_from (S i) best r
    | None => argmin_from (S i) (Some (i, c)) r
    end
  end.
Definition nanargmin (l : list (option nat)) : option nat := option_map fst (argmin_from 0 None l).

(* one candidate: a parse that raised (or could not be dumped) is None; DecoratedNode or to_list raising gives nan *)
Definition candidate (b : basis) (e : option sexpr) : option (dnode * list label) :=
  e <- e ;; d <- decorate b e ;; l <- to_list b None d ;; Some (d, l).

Definition string_to_node (b : basis) (parses : list (option sexpr)) : option (nat * dnode * list label) :=
  let cs := map (candidate b) parses in
  i <- nanargmin (map (option_map (fun dl => length (snd dl))) cs) ;;
  match nth_error cs i with
  | Some (Some (d, l)) => Some (i, d, l)
  | _ => None
  end.

(* ---------------------------------------------------------------- relabelling (fit_from_string / string_to_aifeyn) *)
Inductive rlabel :=
| ROp (s : string)
| RNum (txt : string) (q : Q)      (* the printed constant and the value of that text *)
| RSym (s : sym).

Definition show_rlabel (l : rlabel) : string :=
  match l with ROp s => s | RNum t _ => t | RSym s => show_sym s end.

Definition relab_str (s : string) : string :=
  if String.eqb s "Mul" then "*" else if String.eqb s "Add" then "+"
  else if String.eqb s "Div" then "/" else if String.eqb s "Sub" then "-" else lower s.
Definition relab1 (l : label) : rlabel :=
  match l with LOp s => ROp (relab_str s) | LNum t _ qp => RNum (lower t) qp | LSym s => RSym s end.
Definition relabel (l : list label) : list rlabel := map relab1 l.

(* is_float(lab) or (lab.startswith('a') and is_float(lab[1:])) *)
Definition r_is_num (l : rlabel) : bool := match l with RNum _ _ => true | _ => false end.
Definition r_is_par (l : rlabel) : bool := match l with RSym (SA _) => true | _ => false end.

(* labels_to_shape: arity from the basis; parameters and floats are 0; anything else raises ValueError.
   (new_labels: numbers and parameters have been renamed a0, a1, ...; "x" and "a" are looked up in basis[0]) *)
Definition basis_arity (b : basis) (s : string) : option nat :=
  (* later lists overwrite earlier ones in basis_dict *)
  if mem s (b2 b) then Some 2%nat else if mem s (b1 b) then Some 1%nat else if mem s (b0 b) then Some 0%nat else None.
Definition shape1 (b : basis) (l : rlabel) : option nat :=
  match l with
  | ROp s => basis_arity b s
  | RNum _ _ => Some 0%nat
  | RSym (SA _) => Some 0%nat
  | RSym SX => match basis_arity b "x" with Some n => Some n | None => None end
  end.
Fixpoint shape (b : basis) (l : list rlabel) : option (list nat) :=
  match l with
  | [] => Some []
  | x :: r => a <- shape1 b x ;; s <- shape b r ;; Some (a :: s)
  end.

(* parents = [None] + [labels[p.parent] for p in tree[1:]] with tree = check_tree(shape): a stack of
   (label, children still missing).  A node after the tree is complete has no parent: the Python code raises. *)
Fixpoint pop_done (st : list (rlabel * nat)) : list (rlabel * nat) :=
  match st with
  | (_, O) :: r => pop_done r
  | _ => st
  end.
Fixpoint parents_from (st : list (rlabel * nat)) (l : list (rlabel * nat)) : option (list (option rlabel)) :=
  match l with
  | [] => Some []
  | (x, a) :: r =>
    match st with
    | [] => None
    | (p, n) :: st' =>
      let st1 := pop_done ((p, Nat.pred n) :: st') in
      let st2 := match a with O => st1 | _ => (x, a) :: st1 end in
      ps <- parents_from st2 r ;; Some (Some p :: ps)
    end
  end.
Definition parents (l : list (rlabel * nat)) : option (list (option rlabel)) :=
  match l with
  | [] => Some []
  | (x, a) :: r =>
    ps <- parents_from (match a with O => [] | _ => [(x, a)] end) r ;; Some (None :: ps)
  end.

(* parents[j] is not None and parents[j].lower() == 'pow'   (the root has no parent: not under pow) *)
Definition parent_is_pow (p : option rlabel) : option bool :=
  match p with
  | None => Some false
  | Some q => Some (String.eqb (lower (show_rlabel q)) "pow")
  end.

(* replace floats: numbers whose parent is not pow (a number at the root included), and all parameters, become
   a0, a1, ... in list order *)
Fixpoint replace_from (k : nat) (l : list (rlabel * option rlabel)) : option (list rlabel) :=
  match l with
  | [] => Some []
  | (x, p) :: r =>
    hit <- (if r_is_num x then (pw <- parent_is_pow p ;; Some (negb pw)) else Some (r_is_par x)) ;;
    if hit then (t <- replace_from (S k) r ;; Some (RSym (SA k) :: t))
    else (t <- replace_from k r ;; Some (x :: t))
  end.

(* the label list handed to single_function / tree_to_aifeyn.  None = the Python code raised before that point *)
Definition final_labels (b : basis) (rf : bool) (l0 : list label) : option (list rlabel) :=
  let labels := relabel l0 in
  (* new_labels only differ from labels at numbers/parameters, whose arity is 0 either way *)
  s <- shape b labels ;;
  ps <- parents (combine labels s) ;;
  if rf then replace_from 0 (combine labels ps) else Some labels.

(* fit_from_string / string_to_aifeyn up to (not including) the fit: evalf'd parses -> final labels *)
Definition fit_labels (b : basis) (rf : bool) (parses : list (option sexpr)) : option (list rlabel) :=
  r <- string_to_node b parses ;;
  final_labels b rf (snd r).

(* ---------------------------------------------------------------- prefix lists and trees *)
Inductive tree :=
| TNum (txt : string) (q : Q)
| TSym (s : sym)
| TOp0 (op : string)
| TUn (op : string) (a : tree)
| TBin (op : string) (a b : tree).

Definition bin_labels := ["+"; "-"; "*"; "/"; "pow"].
Definition un_labels := ["inv"; "square"; "cube"; "sqrt"; "sqrt_abs"; "log"; "log_abs"; "exp"; "sin"; "abs";
                         "tenexp"; "log10_abs"].
Definition op_arity (s : string) : nat :=
  if mem s bin_labels then 2 else if mem s un_labels then 1 else 0.

Fixpoint to_prefix (t : tree) : list rlabel :=
  match t with
  | TNum x q => [RNum x q]
  | TSym s => [RSym s]
  | TOp0 o => [ROp o]
  | TUn o a => ROp o :: to_prefix a
  | TBin o a b => ROp o :: (to_prefix a ++ to_prefix b)%list
  end.

Fixpoint parse (fuel : nat) (l : list rlabel) : option (tree * list rlabel) :=
  match fuel with
  | O => None
  | S f =>
    match l with
    | [] => None
    | RNum x q :: r => Some (TNum x q, r)
    | RSym s :: r => Some (TSym s, r)
    | ROp o :: r =>
      match op_arity o with
      | O => Some (TOp0 o, r)
      | S O => match parse f r with Some (a, r1) => Some (TUn o a, r1) | None => None end
      | _ => match parse f r with
             | Some (a, r1) => match parse f r1 with Some (c, r2) => Some (TBin o a c, r2) | None => None end
             | None => None
             end
      end
    end
  end.

Definition of_prefix (l : list rlabel) : option tree :=
  match parse (length l) l with Some (t, []) => Some t | _ => None end.

Fixpoint tsize (t : tree) : nat :=
  match t with
  | TUn _ a => S (tsize a)
  | TBin _ a b => S (tsize a + tsize b)
  | _ => 1
  end.

(* every operator sits on a node of its arity *)
Fixpoint twf (t : tree) : Prop :=
  match t with
  | TNum _ _ | TSym _ => True
  | TOp0 o => op_arity o = 0%nat
  | TUn o a => op_arity o = 1%nat /\ twf a
  | TBin o a b => op_arity o = 2%nat /\ twf a /\ twf b
  end.

(* ---------------------------------------------------------------- real-valued meaning *)
Open Scope R_scope.

(* ESR's reading of the final labels: pow, sqrt and log act on absolute values *)
Definition un_lab_sem (o : string) (v : R) : R :=
  if String.eqb o "inv" then / v
  else if String.eqb o "square" then v * v
  else if String.eqb o "cube" then v * v * v
  else if String.eqb o "sqrt" || String.eqb o "sqrt_abs" then sqrt (Rabs v)
  else if String.eqb o "log" || String.eqb o "log_abs" then ln (Rabs v)
  else if String.eqb o "exp" then exp v
  else if String.eqb o "sin" then sin v
  else if String.eqb o "abs" then Rabs v
  else if String.eqb o "tenexp" then Rpower 10 v
  else if String.eqb o "log10_abs" then ln (Rabs v) / ln 10
  else 0.
Definition bin_lab_sem (o : string) (u v : R) : R :=
  if String.eqb o "+" then u + v
  else if String.eqb o "-" then u - v
  else if String.eqb o "*" then u * v
  else if String.eqb o "/" then u / v
  else if String.eqb o "pow" then Rpower (Rabs u) v
  else 0.
Definition sym_sem (env : nat -> R) (x : R) (s : sym) : R := match s with SX => x | SA i => env i end.

Fixpoint evalT (env : nat -> R) (x : R) (t : tree) : R :=
  match t with
  | TNum _ q => Q2R q
  | TSym s => sym_sem env x s
  | TOp0 _ => 0
  | TUn o a => un_lab_sem o (evalT env x a)
  | TBin o a b => bin_lab_sem o (evalT env x a) (evalT env x b)
  end.

(* the meaning of the sympy expression itself.  Pow with a literal integer exponent is the integer power
   (defined for every base); otherwise exp(v ln u), meaningful for u > 0.  Classes applied to one argument:
   sympy's own (exp, log, Abs, sin) and the undefined functions kernS leaves behind (square(x), inv(x), ...). *)
Definition un_cls_sem (c : string) (v : R) : R :=
  if String.eqb c "exp" then exp v
  else if String.eqb c "log" then ln v
  else if String.eqb c "Abs" then Rabs v
  else if String.eqb c "sin" then sin v
  else if String.eqb c "inv" then / v
  else if String.eqb c "square" then v * v
  else if String.eqb c "cube" then v * v * v
  else if String.eqb c "sqrt_abs" then sqrt (Rabs v)
  else if String.eqb c "log_abs" then ln (Rabs v)
  else if String.eqb c "tenexp" then Rpower 10 v
  else if String.eqb c "log10_abs" then ln (Rabs v) / ln 10
  else 0.
Definition un_classes := ["exp"; "log"; "Abs"; "sin"; "inv"; "square"; "cube"; "sqrt_abs"; "log_abs"; "tenexp"; "log10_abs"].

Definition int_of (c : string) (qv : Q) : option Z := if is_intcls c then Some (Qfloor qv) else None.
Definition pw (u : R) (k : option Z) (v : R) : R :=
  match k with Some z => powerRZ u z | None => Rpower u v end.
Definition int_exp (e : sexpr) : option Z :=
  match e with ENum c _ qv _ => int_of c qv | _ => None end.

Fixpoint sem (env : nat -> R) (x : R) (e : sexpr) : R :=
  match e with
  | ENum _ _ qv _ => Q2R qv
  | ESym s => sym_sem env x s
  | EApp c args =>
    if String.eqb c "Add" then (fix sum (l : list sexpr) : R := match l with [] => 0 | a :: r => sem env x a + sum r end) args
    else if String.eqb c "Mul" then (fix prod (l : list sexpr) : R := match l with [] => 1 | a :: r => sem env x a * prod r end) args
    else if String.eqb c "Pow" then
      match args with
      | [a; w] => pw (sem env x a) (int_exp w) (sem env x w)
      | _ => 0
      end
    else match args with
         | [a] => un_cls_sem c (sem env x a)
         | _ => 0
         end
  end.

(* the meaning of a decorated node *)
Definition dint_exp (d : dnode) : option Z :=
  match d with D0 _ ty _ (VNum _ qv _) => int_of ty qv | _ => None end.
Fixpoint dsem (env : nat -> R) (x : R) (d : dnode) : R :=
  match d with
  | D0 _ _ _ (VNum _ qv _) => Q2R qv
  | D0 _ _ _ (VSym s) => sym_sem env x s
  | D0 _ _ _ VNone => 0
  | D1 op _ _ _ c0 =>
    let v := dsem env x c0 in
    if String.eqb op "Square" then powerRZ v 2
    else if String.eqb op "Cube" then powerRZ v 3
    else if String.eqb op "Sqrt" then Rpower v (Q2R (1 # 2))
    else if String.eqb op "Inv" then powerRZ v (-1)
    else un_cls_sem op v
  | D2 op _ _ _ c0 c1 =>
    let u := dsem env x c0 in
    let v := dsem env x c1 in
    if String.eqb op "Add" then u + v
    else if String.eqb op "Mul" then u * v
    else if String.eqb op "Div" then u * powerRZ v (-1)
    else if String.eqb op "Pow" then pw u (dint_exp c1) v
    else 0
  end.
Close Scope R_scope.

(* ---------------------------------------------------------------- the shipped bases (duplicate_checker.main) *)
Definition mk_basis (un : list string) : basis := {| b0 := ["x"; "a"]; b1 := un; b2 := ["+"; "*"; "-"; "/"; "pow"] |}.
Definition keep_duplicates := mk_basis ["square"; "exp"; "inv"; "sqrt_abs"; "log_abs"].
Definition core_maths := mk_basis ["inv"].
Definition ext_maths := mk_basis ["inv"; "sqrt_abs"; "square"; "exp"].
Definition osc_maths := mk_basis ["inv"; "sin"].
Definition base10_maths := mk_basis ["tenexp"; "inv"; "log10_abs"].
Definition base_e_maths := mk_basis ["inv"; "exp"; "log_abs"].

(* ---------------------------------------------------------------- decidable equality for correspondence files *)
Fixpoint strs_eqb (a b : list string) : bool :=
  match a, b with
  | [], [] => true
  | x :: r, y :: s => String.eqb x y && strs_eqb r s
  | _, _ => false
  end.
Definition ostrs_eqb (a b : option (list string)) : bool :=
  match a, b with
  | None, None => true
  | Some x, Some y => strs_eqb x y
  | _, _ => false
  end.

(* ---------------------------------------------------------------- domains of the theorems (executable predicates) *)
Definition num_classes := ["Integer"; "Rational"; "Float"; "Zero"; "One"; "NegativeOne"; "Half"].
(* what the dump promises about a number atom: the singleton classes have their values, the texts "2"/"3" denote 2/3,
   integer classes carry integers *)
Definition numwfb (c txt : string) (qv qp : Q) : bool :=
  mem c num_classes
  && (if String.eqb c "Half" then Qeq_bool qv (1 # 2) else true)
  && (if String.eqb c "NegativeOne" then Qeq_bool qv (-1 # 1) else true)
  && (if String.eqb txt "2" then Qeq_bool qp 2 else true)
  && (if String.eqb txt "3" then Qeq_bool qp 3 else true)
  && (if is_intcls c then Qeq_bool qv (inject_Z (Qfloor qv)) else true).

(* expressions the theorems speak about: Add/Mul of >= 2 arguments, Pow of 2, a known one-argument class *)
Fixpoint supportedb (e : sexpr) : bool :=
  match e with
  | ENum c txt qv qp => numwfb c txt qv qp
  | ESym _ => true
  | EApp c args =>
    (fix all (l : list sexpr) : bool := match l with [] => true | a :: r => supportedb a && all r end) args
    && (if String.eqb c "Add" || String.eqb c "Mul" then (2 <=? length args)%nat
        else if String.eqb c "Pow" then (length args =? 2)%nat
        else mem c un_classes && (length args =? 1)%nat)
  end.

(* every printed constant denotes exactly its value (short decimals, integers, p/q) *)
Fixpoint exactb (e : sexpr) : bool :=
  match e with
  | ENum _ _ qv qp => Qeq_bool qv qp
  | ESym _ => true
  | EApp _ args => (fix all (l : list sexpr) : bool := match l with [] => true | a :: r => exactb a && all r end) args
  end.

(* "a formula over the basis": one-argument classes are basis operators (as spelled), or sympy's log / Abs which the
   symbol table's log_abs, sqrt_abs, pow produce *)
Fixpoint over_basisb (b : basis) (e : sexpr) : bool :=
  match e with
  | EApp c args =>
    (fix all (l : list sexpr) : bool := match l with [] => true | a :: r => over_basisb b a && all r end) args
    && (if String.eqb c "Add" || String.eqb c "Mul" || String.eqb c "Pow" then true
        else mem (lower c) (b1 b) || mem c ["log"; "Abs"])
  | _ => true
  end.
Definition std_binary (b : basis) : bool :=
  mem "+" (b2 b) && mem "-" (b2 b) && mem "*" (b2 b) && mem "/" (b2 b) && mem "pow" (b2 b).

(* all power bases (except under a literal exponent -1 when inv is a basis operator) and all log arguments positive *)
Fixpoint pos (b : basis) (env : nat -> R) (x : R) (e : sexpr) : Prop :=
  match e with
  | EApp c args =>
    (fix all (l : list sexpr) : Prop := match l with [] => True | a :: r => pos b env x a /\ all r end) args
    /\ (if String.eqb c "Pow" then
          match args with
          | [a; w] => if eq_int w (-1) && mem "inv" (b1 b) then True else (0 < sem env x a)%R
          | _ => True
          end
        else if String.eqb c "log" then match args with [a] => (0 < sem env x a)%R | _ => True end
        else True)
  | _ => True
  end.

(* the shape of a DecoratedNode built by __init__ *)
Fixpoint dwfb (d : dnode) : bool :=
  match d with
  | D0 op ty deg v =>
    (deg =? 0)%nat && String.eqb op ty
    && match v with VNum txt qv qp => numwfb ty txt qv qp | VSym _ => String.eqb ty "Symbol" | VNone => false end
  | D1 op ty deg v c0 =>
    dwfb c0 && match v with VNone => true | _ => false end
    && (((deg =? 1)%nat && mem op un_classes) || ((deg =? 2)%nat && mem op ["Square"; "Cube"; "Sqrt"; "Inv"]))
    && negb (String.eqb ty "Half") && negb (String.eqb ty "NegativeOne")
  | D2 op ty deg v c0 c1 =>
    dwfb c0 && dwfb c1 && match v with VNone => true | _ => false end
    && (2 <=? deg)%nat && mem op ["Add"; "Mul"; "Pow"; "Div"]
    && negb (String.eqb ty "Half") && negb (String.eqb ty "NegativeOne")
  end.

(* the two to_list branches that return ["Mul"] + children[1].to_list(): Pow(..)*(-1) and Pow(..)/(-1) *)
Definition bad_here (b : basis) (d : dnode) : bool :=
  match d with
  | D2 op _ _ _ c0 c1 =>
    String.eqb (dop c0) "Pow" && String.eqb (dty c1) "NegativeOne"
    && ((String.eqb op "Mul" && mem "/" (b2 b)) || (String.eqb op "Div" && mem "*" (b2 b)))
  | _ => false
  end.
Fixpoint no_bad (b : basis) (d : dnode) : bool :=
  negb (bad_here b d)
  && match d with
     | D0 _ _ _ _ => true
     | D1 _ _ _ _ c0 => no_bad b c0
     | D2 _ _ _ _ c0 c1 => no_bad b c0 && no_bad b c1
     end.

Fixpoint dexactb (d : dnode) : bool :=
  match d with
  | D0 _ _ _ (VNum _ qv qp) => Qeq_bool qv qp
  | D0 _ _ _ _ => true
  | D1 _ _ _ _ c0 => dexactb c0
  | D2 _ _ _ _ c0 c1 => dexactb c0 && dexactb c1
  end.

Fixpoint dpos (env : nat -> R) (x : R) (d : dnode) : Prop :=
  match d with
  | D0 _ _ _ _ => True
  | D1 op _ _ _ c0 =>
    dpos env x c0 /\ (if mem op ["Square"; "Cube"; "Sqrt"; "log"] then (0 < dsem env x c0)%R else True)
  | D2 op _ _ _ c0 c1 =>
    dpos env x c0 /\ dpos env x c1 /\ (if String.eqb op "Pow" then (0 < dsem env x c0)%R else True)
  end.

(* one-argument operators of the node are basis operators (or log / Abs / the renamed Sqrt) *)
Fixpoint dbasisb (b : basis) (d : dnode) : bool :=
  match d with
  | D0 _ _ _ _ => true
  | D1 op _ deg _ c0 =>
    dbasisb b c0
    && (if (deg =? 1)%nat then mem (lower op) (b1 b) || mem op ["log"; "Abs"]
        else if String.eqb op "Inv" then mem "inv" (b1 b)
        else if String.eqb op "Cube" then mem "cube" (b1 b)
        else if String.eqb op "Square" then negb (mem "sqaure" (b1 b)) || mem "square" (b1 b)
        else true)
  | D2 _ _ _ _ c0 c1 => dbasisb b c0 && dbasisb b c1
  end.

(* a final label is a basis label (numbers, parameters and x are leaves) -- or one of the three spellings the basis may lack *)
Definition in_basisb (b : basis) (r : rlabel) : bool :=
  match r with ROp s => mem s (b1 b) || mem s (b2 b) | _ => true end.
Definition lab_okb (b : basis) (r : rlabel) : bool :=
  match r with ROp s => mem s (b1 b) || mem s (b2 b) || mem s ["sqrt"; "log"; "abs"] | _ => true end.

(* replace floats, specification side: which positions are replaced *)
Definition is_pow_parent (p : option rlabel) : bool :=
  match p with Some q => String.eqb (lower (show_rlabel q)) "pow" | None => false end.
Definition hitb (xp : rlabel * option rlabel) : bool :=
  if r_is_num (fst xp) then negb (is_pow_parent (snd xp)) else r_is_par (fst xp).
Definition nhits (l : list (rlabel * option rlabel)) : nat := length (filter hitb l).
