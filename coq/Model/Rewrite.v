(* Rule-level executable model of phase 1 of esr/generation/generator.py: find_additional_trees
   (first loop, "Try log, exp and sqrt changes", 1425-1447) driving update_tree (576-989), as of the
   repaired code (commits 84989a6, dd5c7b6).  No proofs here (Proofs/RewriteProofs.v).

   update_tree(tree, labels, try_idx, basis) works on the prefix label list:
     * site discovery: every index i (in increasing order = pre-order) with
         labels[i] == "log_abs" and labels[i+1] in {square,cube,sqrt_abs,inv}       ("log site"), or
         labels[i] == "exp"     and labels[i-1] in {square,cube,sqrt_abs,inv}       ("exp site");
       for a log site the unary chain BELOW the log node is scanned downwards, for an exp site the
       unary chain ABOVE the exp node is scanned upwards; every power operator multiplies a running
       rational by 2, 3, 1/2, -1 (pow_num) and is accepted only while the running product n
       satisfies `n.is_integer or (1/n).is_integer` (sympy Rationals); the scan stops at the first
       non-power label or the first rejected operator.  d = number of accepted operators.
       The number is printed as '*'+str(n) if n is an integer, else '/'+str(1/n).
     * the site number try_idx (if any) is rewritten, provided the printed operator ('*' or '/')
       is in basis_functions[2]:
         log site, generic   log|p1(..pd(u))|  ->  log|u|             if n == 1
                                              ->  (log|u|) op k      otherwise   (k = n or 1/n)
         exp site            pd(..p1(exp u))  ->  exp(u)             if n == 1
                                              ->  exp(u op k)        otherwise
         log site whose parent is + or -, with n = '*-m' (negative integer), inv_op = the other of +,-:
           (A1) right argument, inv_op in basis:     a (+|-) log|..|   ->  a inv_op (log|u| * m)   [no "* m" if m == 1]
           (A2) left argument of +, '-' in basis:    log|..| + b       ->  b - (log|u| * m)        [idem]
           (A3) "TWO CASES" (left argument otherwise):
                  if inv_op in basis:                log|..| - b       ->  (-1) * ((m * log|u|) inv_op b)
                  always:                            log|..| (+|-) b   ->  ((-m) * log|u|) (+|-) b
           (since the fix of F4, commit 84989a6:) a right argument whose inv_op is not in the basis
           takes the generic rule, and a single A3 result is returned as a flat list.
     * pow_abs (exp_ord 3) branch: not modelled, see Model/Expr.v.

   find_additional_trees, first loop:
       new_labels = [labels]; try_idx = [0]; old_len = 0
       while len(new_tree) != old_len:
           old_len = len(new_tree)
           for i in range(old_len):
               L, s, n = update_tree(new_tree[i], new_labels[i], try_idx[i], basis)
               if produced: append every produced list that is not yet in new_labels (in order)
               try_idx[i] += 1
   i.e. in pass r every list is tried at the site whose number is the count of passes it has been
   through; the loop stops after the first pass that adds nothing (sites with larger numbers are
   then never tried -- modelled as is).

   Trees instead of label lists: the model rewrites expression trees (Model/Expr.v) and the produced
   label list is to_prefix of the result.  That the real code's index splices produce exactly these
   lists is what the correspondence run checks on every explored (basis, tree, try_idx). *)
From Coq Require Import ZArith List Bool Ring_polynom.
From ESRV Require Import Model.Expr.
Import ListNotations.
Open Scope Z_scope.

Definition basis := list binop.            (* basis_functions[2] *)
Definition inb (o : binop) (B : basis) : bool := existsb (binop_eqb o) B.

(* one-hole contexts, innermost frame first *)
Inductive frame := F1 (o : unop) | FL (o : binop) (b : expr) | FR (o : binop) (a : expr).
Definition ctx := list frame.
Definition fill (f : frame) (e : expr) : expr :=
  match f with
  | F1 o => Un o e
  | FL o b => Bin o e b
  | FR o a => Bin o a e
  end.
Fixpoint plug (c : ctx) (e : expr) : expr :=
  match c with
  | [] => e
  | f :: c' => plug c' (fill f e)
  end.

Definition num (z : Z) : expr := Leaf (NNum z).

(* pow_num = {"square":'*2', "cube":'*3', "sqrt_abs":'/2', "inv":'*-1'} as numerator/denominator *)
Definition fac (o : unop) : option (Z * Z) :=
  match o with
  | Square => Some (2, 1)
  | Cube => Some (3, 1)
  | SqrtAbs => Some (1, 2)
  | Inv => Some (-1, 1)
  | _ => None
  end.
Definition is_pow (o : unop) : bool := match fac o with Some _ => true | None => false end.

(* n = sympify(s + factor); accepted iff n.is_integer or (1/n).is_integer *)
Definition accept (acc f : Z * Z) : option (Z * Z) :=
  let n := fst acc * fst f in
  let d := snd acc * snd f in
  if (n mod d =? 0) || (d mod n =? 0) then Some (n, d) else None.

(* downward scan below a log node: (product, first tree that is not part of the chain) *)
Fixpoint scan_down (acc : Z * Z) (e : expr) : (Z * Z) * expr :=
  match e with
  | Un o a =>
    match fac o with
    | Some f =>
      match accept acc f with
      | Some acc' => scan_down acc' a
      | None => (acc, e)
      end
    | None => (acc, e)
    end
  | _ => (acc, e)
  end.

(* upward scan above an exp node: (product, context left above the chain) *)
Fixpoint scan_up (acc : Z * Z) (c : ctx) : (Z * Z) * ctx :=
  match c with
  | F1 o :: c' =>
    match fac o with
    | Some f =>
      match accept acc f with
      | Some acc' => scan_up acc' c'
      | None => (acc, c)
      end
    | None => (acc, c)
    end
  | _ => (acc, c)
  end.

(* '*' + str(n) if n.is_integer else '/' + str(1/n) *)
Definition numfmt (acc : Z * Z) : binop * Z :=
  let (n, d) := acc in
  if n mod d =? 0 then (Mul, n / d) else (Div, d / n).

Definition inv_of (o : binop) : option binop :=
  match o with Add => Some Sub | Sub => Some Add | _ => None end.

(* log|u| * m, without the "* m" when m == 1 *)
Definition logk (u : expr) (m : Z) : expr :=
  if m =? 1 then Un LogAbs u else Bin Mul (Un LogAbs u) (num m).

(* rewriting of a log site  plug c (log_abs (chain u))  with printed number (op, k) *)
Definition log_rewrite (B : basis) (c : ctx) (u : expr) (op : binop) (k : Z) : list expr :=
  let generic := plug c (if k =? 1 then Un LogAbs u else Bin op (Un LogAbs u) (num k)) in
  if negb (inb op B) then []
  else if binop_eqb op Mul && (k <? 0) then
    match c with
    | FR o a :: c' =>
      match inv_of o with
      | Some io => if inb io B then [plug c' (Bin io a (logk u (- k)))] else [generic]
      | None => [generic]
      end
    | FL o b :: c' =>
      match inv_of o with
      | Some io =>
        let second := plug c' (Bin o (Bin Mul (num k) (Un LogAbs u)) b) in
        if inb io B then
          match o with
          | Add => [plug c' (Bin Sub b (logk u (- k)))]
          | _ => [plug c' (Bin Mul (num (-1)) (Bin io (Bin Mul (num (- k)) (Un LogAbs u)) b)); second]
          end
        else [second]
      | None => [generic]
      end
    | _ => [generic]
    end
  else [generic].

Definition exp_rewrite (B : basis) (c : ctx) (u : expr) : list expr :=
  let '(acc, c') := scan_up (1, 1) c in
  let '(op, k) := numfmt acc in
  if inb op B then [plug c' (Un Exp (if k =? 1 then u else Bin op u (num k)))] else [].

(* the site located at this node, if this node is one: the list of produced trees *)
Definition here (B : basis) (c : ctx) (e : expr) : list (list expr) :=
  match e with
  | Un LogAbs (Un p a) =>
    if is_pow p then
      let '(acc, u) := scan_down (1, 1) (Un p a) in
      let '(op, k) := numfmt acc in
      [log_rewrite B c u op k]
    else []
  | Un Exp u =>
    match c with
    | F1 p :: _ => if is_pow p then [exp_rewrite B c u] else []
    | _ => []
    end
  | _ => []
  end.

(* all sites of plug c e that lie in e, in pre-order, each with what update_tree produces for it *)
Fixpoint walk (B : basis) (c : ctx) (e : expr) : list (list expr) :=
  here B c e ++
  match e with
  | Leaf _ => []
  | Un o a => walk B (F1 o :: c) a
  | Bin o a b => walk B (FL o b :: c) a ++ walk B (FR o a :: c) b
  end.

Definition sites (B : basis) (t : expr) : list (list expr) := walk B [] t.

(* update_tree(tree, labels, try_idx, basis): the produced trees ([] = nothing, nadded == 0) *)
Definition apply_site (B : basis) (t : expr) (k : nat) : list expr := nth k (sites B t) [].

(* ---------------------------------------------------------------- the driver *)
Definition entry := (expr * nat)%type.                 (* (tree, try_idx) *)
Definition mem (r : expr) (l : list expr) : bool := existsb (expr_eqb r) l.

(* append the produced trees that are not yet in new_labels = seen ++ added *)
Definition add_new (seen : list expr) (added rs : list expr) : list expr :=
  fold_left (fun ad r => if mem r (seen ++ ad) then ad else ad ++ [r]) rs added.

(* one execution of the for loop: the trees appended during the pass *)
Definition pass (B : basis) (entries : list entry) : list expr :=
  let seen := map fst entries in
  fold_left (fun ad (en : entry) => add_new seen ad (apply_site B (fst en) (snd en))) entries [].

Definition bump (en : entry) : entry := (fst en, S (snd en)).

Fixpoint drive (B : basis) (fuel : nat) (entries : list entry) : option (list expr) :=
  match fuel with
  | O => None
  | S f =>
    match pass B entries with
    | [] => Some (map fst entries)
    | added => drive B f (map bump entries ++ map (fun t => (t, O)) added)
    end
  end.

(* number of power-operator nodes / of log_abs and exp nodes *)
Fixpoint usum (m : unop -> nat) (e : expr) : nat :=
  match e with
  | Leaf _ => O
  | Un o a => (m o + usum m a)%nat
  | Bin _ a b => (usum m a + usum m b)%nat
  end.
Definition is_le (o : unop) : bool := match o with LogAbs | Exp => true | _ => false end.
Definition npow : expr -> nat := usum (fun o => if is_pow o then 1%nat else O).
Definition nle : expr -> nat := usum (fun o => if is_le o then 1%nat else O).

Definition fuel_of (t : expr) : nat := S (nle t * npow t)%nat.

(* new_labels after the first loop (the original first); None = fuel exhausted (never: phase1_terminates) *)
Definition phase1 (B : basis) (t : expr) : option (list expr) := drive B (fuel_of t) [(t, O)].

Definition phase1_labels (B : basis) (l : list label) : option (list (list label)) :=
  match of_prefix l with
  | Some t => match phase1 B t with Some rs => Some (map to_prefix rs) | None => None end
  | None => None
  end.

(* ---------------------------------------------------------------- certificates for the sum phase
   update_sums (phase 2) is not modelled.  Each of its outputs r is instead CERTIFIED per instance:
   the harness asks Coq whether  sum_equiv s r = true  for some s in the (proved) phase-1 list of the
   original; sum_equiv_sound then gives eval s = eval r at every point.
   sum_equiv: the two trees are equal, or they are equal as polynomials with integer coefficients over
   their maximal subterms that are not +, -, *, integer (compared syntactically; the standard library's
   reflexive ring normaliser Ring_polynom.norm_subst does the comparison), or they have the same root
   operator and their arguments are pairwise sum_equiv.  Incomplete by design: false = "not certified". *)

Fixpoint find_atom (a : expr) (tbl : list expr) (i : nat) : option nat :=
  match tbl with
  | [] => None
  | b :: r => if expr_eqb a b then Some i else find_atom a r (S i)
  end.

(* polynomial expression over the atom table (variable n+1 = n-th atom); the table only grows at its end *)
Definition reify_atom (tbl : list expr) (e : expr) : PExpr Z * list expr :=
  match find_atom e tbl O with
  | Some i => (PEX Z (Pos.of_succ_nat i), tbl)
  | None => (PEX Z (Pos.of_succ_nat (length tbl)), tbl ++ [e])
  end.

Fixpoint reify (tbl : list expr) (e : expr) : PExpr Z * list expr :=
  match e with
  | Leaf (NNum z) => (PEc z, tbl)
  | Bin Add a b => let (pa, t1) := reify tbl a in let (pb, t2) := reify t1 b in (PEadd pa pb, t2)
  | Bin Sub a b => let (pa, t1) := reify tbl a in let (pb, t2) := reify t1 b in (PEsub pa pb, t2)
  | Bin Mul a b => let (pa, t1) := reify tbl a in let (pb, t2) := reify t1 b in (PEmul pa pb, t2)
  | _ => reify_atom tbl e
  end.

Definition znorm (pe : PExpr Z) : Pol Z :=
  norm_subst 0 1 Z.add Z.mul Z.sub Z.opp Zeq_bool Z.quotrem O [] pe.

Definition ring_eq (t r : expr) : bool :=
  let (pt, tb1) := reify [] t in
  let (pr, _) := reify tb1 r in
  Peq Zeq_bool (znorm pt) (znorm pr).

Fixpoint sum_equiv (t r : expr) : bool :=
  expr_eqb t r || ring_eq t r ||
  match t, r with
  | Un o a, Un o' a' => unop_eqb o o' && sum_equiv a a'
  | Bin o a b, Bin o' a' b' => binop_eqb o o' && sum_equiv a a' && sum_equiv b b'
  | _, _ => false
  end.

(* is the label list r certified against some member of the phase-1 list of l ? *)
Definition certified (B : basis) (l r : list label) : bool :=
  match of_prefix l, of_prefix r with
  | Some t, Some r' =>
    match phase1 B t with
    | Some ss => existsb (fun s => sum_equiv s r') ss
    | None => false
    end
  | _, _ => false
  end.
