(* C12 -- model of esr/generation/custom_printer.py : ESRPrinter, restricted to the node classes
   that reach the printer in ESR (Add Mul Pow Symbol Integer Rational Exp1 ComplexInfinity and
   applied functions), on *evaluated* sympy trees (the unevaluated-Mul branch, lines 276-318 of
   custom_printer.py, is not modelled: ESR only prints evaluated expressions).

   The tree is the one the printer sees:
     SAdd ts      ts = self._as_ordered_terms(expr)                       (order is an input)
     SMul neg fs  neg = (expr.as_coeff_Mul()[0] < 0),
                  fs  = (_keep_coeff(-c, e) if neg else expr).as_ordered_factors()   (order is an input)
     SPow b e     expr.base, expr.exp
     SInt z       Integer;  SRat p q  Rational with q <> 1
     SFun f args  applied function  (expr.func.__name__, expr.args)
   No proofs in this file. *)
From Coq Require Import ZArith NArith List Bool String Ascii DecimalString Decimal.
Import ListNotations.
Open Scope Z_scope.

Inductive sexpr : Type :=
| SAdd (ts : list sexpr)
| SMul (neg : bool) (fs : list sexpr)
| SPow (b e : sexpr)
| SInt (z : Z)
| SRat (p q : Z)
| SSym (name : string)
| SFun (name : string) (args : list sexpr)
| SE
| SZoo.

(* ---- tokens.  TSp is only produced when printing with sp = true (exact spacing). *)
Inductive token : Type :=
| TNum (n : N) | TName (s : string)
| TPlus | TMinus | TStar | TSlash | TPow | TLp | TRp | TComma | TSp.

(* ---- sympy.printing.precedence.precedence *)
Definition P_ADD : Z := 40.
Definition P_MUL : Z := 50.
Definition P_POW : Z := 60.
Definition P_FUNC : Z := 70.
Definition P_ATOM : Z := 1000.

Definition prec (e : sexpr) : Z :=
  match e with
  | SAdd _ => P_ADD
  | SMul neg _ => if neg then P_ADD else P_MUL      (* precedence_Mul: could_extract_minus_sign *)
  | SPow _ _ => P_POW
  | SInt z => if z <? 0 then P_ADD else P_ATOM      (* precedence_Integer *)
  | SRat p _ => if p <? 0 then P_ADD else P_MUL     (* precedence_Rational *)
  | SSym _ => P_ATOM
  | SFun _ _ => P_FUNC
  | SE => P_ATOM
  | SZoo => P_ATOM
  end.

(* the printed form of  -e  for the exponents that _print_Mul.apow negates
   (item.exp.as_coeff_Mul()[0] < 0): Integer, Rational, Mul with negative coefficient.
   [flip = true] means "print the negated expression". *)
Definition is_single {A} (l : list A) : bool := match l with [_] => true | _ => false end.

Definition precf (flip : bool) (e : sexpr) : Z :=
  match e with
  | SInt z => prec (SInt (if flip then - z else z))
  | SRat p q => prec (SRat (if flip then - p else p) q)
  | SMul neg fs =>
      if flip && is_single fs then match fs with [f] => prec f | _ => P_MUL end
      else if xorb flip neg then P_ADD else P_MUL
  | _ => prec e
  end.

(* item.exp.as_coeff_Mul()[0] < 0 *)
Definition negexp (e : sexpr) : bool :=
  match e with
  | SInt z => z <? 0
  | SRat p _ => p <? 0
  | SMul neg _ => neg
  | _ => false
  end.

Inductive eshape := EHalf | ENegHalf | ENegOne | EInt | EOther.
Definition eshape_of (flip : bool) (e : sexpr) : eshape :=
  match e with
  | SInt z => let z' := if flip then - z else z in if z' =? -1 then ENegOne else EInt
  | SRat p q => let p' := if flip then - p else p in
                if (p' =? 1) && (q =? 2) then EHalf
                else if (p' =? -1) && (q =? 2) then ENegHalf else EOther
  | _ => EOther
  end.

Definition num_tokens (z : Z) : list token :=
  if z <? 0 then [TMinus; TNum (Z.to_N (- z))] else [TNum (Z.to_N z)].

(* parenthesize(item, level, strict=False) on already printed tokens *)
Definition paren (level : Z) (pt : list token * Z) : list token :=
  if snd pt <=? level then [TLp] ++ fst pt ++ [TRp] else fst pt.

Fixpoint join (sep : list token) (l : list (list token)) : list token :=
  match l with
  | [] => []
  | [x] => x
  | x :: r => x ++ sep ++ join sep r
  end.

Definition sp_tok (sp : bool) : list token := if sp then [TSp] else [].

(* ---- _print_Add on the printed terms: (tokens, term is an Add) *)
Definition split_sign (t : list token) : bool * list token :=
  match t with TMinus :: r => (true, r) | _ => (false, t) end.
Definition add_item (tw : list token * bool) : bool * list token :=
  let '(s, body) := split_sign (fst tw) in
  (s, if snd tw then [TLp] ++ body ++ [TRp] else body).
Fixpoint add_tail (sp : bool) (l : list (bool * list token)) : list token :=
  match l with
  | [] => []
  | (s, body) :: r => sp_tok sp ++ [if s then TMinus else TPlus] ++ sp_tok sp ++ body ++ add_tail sp r
  end.
Definition add_join (sp : bool) (l : list (list token * bool)) : list token :=
  match map add_item l with
  | [] => []
  | (s, body) :: r => (if s then [TMinus] else []) ++ body ++ add_tail sp r
  end.

(* ---- _print_Pow on printed parts *)
Definition pow_assemble (sh : eshape) (pb : list token * Z) (pe : list token * Z) : list token :=
  match sh with
  | EHalf => [TName "sqrt"; TLp] ++ fst pb ++ [TRp]
  | ENegHalf => [TNum 1%N; TSlash; TName "sqrt"; TLp] ++ fst pb ++ [TRp]
  | ENegOne => [TNum 1%N; TSlash] ++ paren P_POW pb
  | EInt => paren P_POW pb ++ [TPow] ++ paren P_POW pe
  | EOther => [TName "pow"; TLp] ++ paren P_POW pb ++ [TComma] ++ paren P_POW pe ++ [TRp]
  end.

(* ---- _print_Mul (evaluated path) on classified factors *)
Inductive mitem :=
| MNum (pt : list token * Z)                    (* goes to a *)
| MDen (pt : list token * Z) (wrap : bool)      (* goes to b; wrap = pow_paren *)
| MRat (p q : Z).                               (* Rational: p to a if p<>1, q to b if q<>1 *)

Fixpoint mul_a (l : list mitem) : list (list token * Z) :=
  match l with
  | [] => []
  | MNum pt :: r => pt :: mul_a r
  | MDen _ _ :: r => mul_a r
  | MRat p q :: r => (if p =? 1 then [] else [(num_tokens p, prec (SInt p))]) ++ mul_a r
  end.
Fixpoint mul_b (l : list mitem) : list ((list token * Z) * bool) :=
  match l with
  | [] => []
  | MNum _ :: r => mul_b r
  | MDen pt w :: r => (pt, w) :: mul_b r
  | MRat p q :: r => (if q =? 1 then [] else [((num_tokens q, prec (SInt q)), false)]) ++ mul_b r
  end.
Definition mul_assemble (neg : bool) (l : list mitem) : list token :=
  let P := if neg then P_ADD else P_MUL in
  let a := match mul_a l with [] => [([TNum 1%N], P_ATOM)] | a0 :: ar => a0 :: ar end in
  let a_str := map (paren P) a in
  let b_str := map (fun pw : (list token * Z) * bool => let s := paren P (fst pw) in if snd pw then [TLp] ++ s ++ [TRp] else s) (mul_b l) in
  (if neg then [TMinus] else []) ++ join [TStar] a_str ++
  match b_str with
  | [] => []
  | [d] => [TSlash] ++ d
  | _ :: _ :: _ => [TSlash; TLp] ++ join [TStar] b_str ++ [TRp]
  end.

Definition is_unit_frac (e : sexpr) : bool := match e with SRat p q => (p =? 1) && negb (q =? 1) | _ => false end.
Definition unit_frac_den (e : sexpr) : Z := match e with SRat _ q => q | _ => 1 end.
Definition is_mul_or_pow (e : sexpr) : bool :=
  match e with SMul _ _ | SPow _ _ => true | _ => false end.

(* classification of one ordered factor (the loop "for item in args" of _print_Mul);
   P is the printer for sub-expressions: P flip e *)
Definition item_of (P : bool -> sexpr -> list token) (f : sexpr) : mitem :=
  match f with
  | SPow b ex =>
      if negexp ex then
        match eshape_of false ex with
        | ENegOne => MDen (P false b, prec b) (is_mul_or_pow b)   (* pow_paren: a Mul or Pow always has more than one arg *)
        | _ =>
            if is_unit_frac b then
              (* apow uses as_base_exp: a base 1/q becomes q with the exponent negated, and apow negates it
                 back: Pow(q, ex) is printed in the denominator (value (1/q)**ex all the same) *)
              MDen (pow_assemble (eshape_of false ex) (num_tokens (unit_frac_den b), prec (SInt (unit_frac_den b)))
                                 (P false ex, prec ex), P_POW) false
            else
              MDen (pow_assemble (eshape_of true ex) (P false b, prec b) (P true ex, precf true ex), P_POW) false
        end
      else MNum (pow_assemble (eshape_of false ex) (P false b, prec b) (P false ex, prec ex), P_POW)
  | SInt z => MRat z 1
  | SRat p q => MRat p q
  | _ => MNum (P false f, prec f)
  end.

Definition is_add (t : sexpr) : bool := match t with SAdd _ => true | _ => false end.

(* pr sp flip e : tokens of  e  (flip = false)  or of the negated exponent  -e  (flip = true,
   only meaningful when negexp e).  sp = true gives the printer's exact spacing. *)
Fixpoint pr (sp flip : bool) (e : sexpr) {struct e} : list token :=
  match e with
  | SAdd ts => add_join sp (map (fun t => (pr sp false t, is_add t)) ts)
  | SMul neg fs =>
      if flip && is_single fs then match fs with [f] => pr sp false f | _ => [] end
      else mul_assemble (xorb flip neg) (map (item_of (fun fl x => pr sp fl x)) fs)
  | SPow b ex => pow_assemble (eshape_of false ex) (pr sp false b, prec b) (pr sp false ex, prec ex)
  | SInt z => num_tokens (if flip then - z else z)
  | SRat p q => num_tokens (if flip then - p else p) ++ [TSlash] ++ num_tokens q
  | SSym name => [TName name]
  | SFun name args => [TName name; TLp] ++ join ([TComma] ++ sp_tok sp) (map (pr sp false) args) ++ [TRp]
  | SE => [TName "E"]
  | SZoo => [TName "zoo"]
  end.

Definition print (e : sexpr) : list token := pr true false e.   (* with spacing *)
Definition toks (e : sexpr) : list token := pr false false e.   (* what a lexer sees *)

(* ---- token -> string *)
Definition N_to_string (n : N) : string := NilZero.string_of_uint (N.to_uint n).
Definition render_tok (t : token) : string :=
  match t with
  | TNum n => N_to_string n
  | TName s => s
  | TPlus => "+" | TMinus => "-" | TStar => "*" | TSlash => "/" | TPow => "**"
  | TLp => "(" | TRp => ")" | TComma => "," | TSp => " "
  end%string.
Fixpoint render (l : list token) : string :=
  match l with [] => EmptyString | t :: r => (render_tok t ++ render r)%string end.

Definition print_string (e : sexpr) : string := render (print e).

(* pre-order list of precedences (correspondence: compared with sympy's precedence()) *)
Fixpoint precs (e : sexpr) : list Z :=
  prec e ::
  match e with
  | SAdd ts => List.concat (map precs ts)
  | SMul _ fs => List.concat (map precs fs)
  | SPow b ex => precs b ++ precs ex
  | SFun _ args => List.concat (map precs args)
  | _ => []
  end.
