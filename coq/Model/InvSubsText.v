(* C17, text side: the parameter-map library file (inv_subs_<n>.txt and the
   per-round files) as written by csv.writer(delimiter=';').writerows(rows of
   str(dict) / 'nan') and read back by simplifier.load_subs:

     csv.reader(delimiter=';')  ->  np.array_split over ranks / scatter
     per cell:  .replace("{", "{'") .replace("}", "'}") .replace(", ", "', '") .replace(": ", "': '")
                == 'nan' -> nan ; else ast.literal_eval -> keys/values (strings, then sympify)
     gather in rank order, chain.

   Strings are [list ascii].  No proofs in this file. *)
From Coq Require Import String Ascii DecimalString Bool Arith List.
Import ListNotations.
Open Scope char_scope.
Open Scope nat_scope.

Definition str := list ascii.
Definition lit (s : string) : str := list_ascii_of_string s.

Fixpoint str_eqb (a b : str) : bool :=
  match a, b with
  | [], [] => true
  | x :: a', y :: b' => Ascii.eqb x y && str_eqb a' b'
  | _, _ => false
  end.

(* ------------------------------------------------------------------ *)
(* Python str.replace(pat, rep) for a NON-EMPTY pattern: scan left to right,
   replace each match and continue after it (non-overlapping).  [skip] counts
   the characters of the current match that are still to be consumed. *)
Fixpoint is_prefix (p s : str) : bool :=
  match p, s with
  | [], _ => true
  | a :: p', b :: s' => Ascii.eqb a b && is_prefix p' s'
  | _ :: _, [] => false
  end.

Fixpoint repl (pat rep : str) (skip : nat) (s : str) : str :=
  match s with
  | [] => []
  | c :: r =>
      match skip with
      | S k => repl pat rep k r
      | O => if is_prefix pat s then rep ++ repl pat rep (List.length pat - 1) r
             else c :: repl pat rep 0 r
      end
  end.
Definition py_replace (pat rep s : str) : str := repl pat rep 0 s.

Notation q := "'"%char (only parsing).          (* the single quote *)
Notation sp := " "%char (only parsing).

(* the four replace calls of load_subs (simplifier.py), in the code's order *)
Definition requote (s : str) : str :=
  let s := py_replace ["{"] ["{"; q] s in
  let s := py_replace ["}"] [q; "}"] s in
  let s := py_replace [","; sp] [q; ","; sp; q] s in
  let s := py_replace [":"; sp] [q; ":"; sp; q] s in
  s.

(* ------------------------------------------------------------------ *)
(* str(dict) for a dict whose keys and values print as the given strings *)
Definition dict := list (str * str).

Fixpoint show_items (d : dict) : str :=
  match d with
  | [] => []
  | (k, v) :: r =>
      match r with
      | [] => k ++ [":"; sp] ++ v
      | _ => k ++ [":"; sp] ++ v ++ [","; sp] ++ show_items r
      end
  end.
Definition show_dict (d : dict) : str := ["{"] ++ show_items d ++ ["}"].

(* ------------------------------------------------------------------ *)
(* ast.literal_eval restricted to the fragment the requoted cells live in:
     { 'chars' : 'chars' , 'chars' : 'chars' ... }   with exactly ": " and ", "
   as separators and single-quoted literals without quote, backslash, CR, LF
   or NUL.  [None] = SyntaxError / ValueError OR outside this fragment (Python
   accepts more; every string accepted here is accepted by Python with the
   same result).  A one-pass state machine. *)
Definition lf : ascii := Ascii.ascii_of_nat 10.
Definition cr : ascii := Ascii.ascii_of_nat 13.
Definition nul : ascii := Ascii.ascii_of_nat 0.
Definition bsl : ascii := Ascii.ascii_of_nat 92.

Definition lit_bad (c : ascii) : bool :=
  Ascii.eqb c q || Ascii.eqb c bsl || Ascii.eqb c lf || Ascii.eqb c cr || Ascii.eqb c nul.

Inductive pstate :=
| PStart                         (* expect '{' *)
| PKeyOpen                       (* expect the quote opening a key *)
| PKey (acc : str)               (* inside a key literal; acc is reversed *)
| PColon (k : str)               (* expect ':' *)
| PSpace1 (k : str)              (* expect ' ' *)
| PValOpen (k : str)             (* expect the quote opening a value *)
| PVal (k : str) (acc : str)     (* inside a value literal *)
| PAfterVal                      (* expect ',' or '}' *)
| PSpace2                        (* expect ' ' after ',' *)
| PEnd.                          (* after '}': expect end of input *)

Fixpoint lex (st : pstate) (items : dict) (s : str) : option dict :=
  match s with
  | [] => match st with PEnd => Some (rev items) | _ => None end
  | c :: r =>
      match st with
      | PStart => if Ascii.eqb c "{" then lex PKeyOpen items r else None
      | PKeyOpen => if Ascii.eqb c q then lex (PKey []) items r else None
      | PKey acc =>
          if Ascii.eqb c q then lex (PColon (rev acc)) items r
          else if lit_bad c then None else lex (PKey (c :: acc)) items r
      | PColon k => if Ascii.eqb c ":" then lex (PSpace1 k) items r else None
      | PSpace1 k => if Ascii.eqb c sp then lex (PValOpen k) items r else None
      | PValOpen k => if Ascii.eqb c q then lex (PVal k []) items r else None
      | PVal k acc =>
          if Ascii.eqb c q then lex PAfterVal ((k, rev acc) :: items) r
          else if lit_bad c then None else lex (PVal k (c :: acc)) items r
      | PAfterVal =>
          if Ascii.eqb c "," then lex PSpace2 items r
          else if Ascii.eqb c "}" then lex PEnd items r else None
      | PSpace2 => if Ascii.eqb c sp then lex PKeyOpen items r else None
      | PEnd => None
      end
  end.

(* Python dict construction from the parsed items: a repeated key keeps its
   first position and takes the last value *)
Fixpoint dict_set (k v : str) (d : dict) : dict :=
  match d with
  | [] => [(k, v)]
  | (k', v') :: r => if str_eqb k' k then (k', v) :: r else (k', v') :: dict_set k v r
  end.
Definition dict_of_items (items : dict) : dict :=
  fold_left (fun d kv => dict_set (fst kv) (snd kv) d) items [].

Definition literal_eval_dict (s : str) : option dict :=
  match lex PStart [] s with
  | Some items => Some (dict_of_items items)
  | None => None
  end.

(* one cell as load_subs reads it (before sympify of the key/value strings) *)
Inductive cell :=
| CNan                      (* np.nan *)
| CDict (d : dict)          (* list(d.keys()), list(d.values()) as strings, in order *)
| CError.                   (* literal_eval raised (or outside the modelled fragment) *)

Definition read_cell (s : str) : cell :=
  let s' := requote s in
  if str_eqb s' (lit "nan") then CNan
  else match literal_eval_dict s' with Some d => CDict d | None => CError end.

(* ------------------------------------------------------------------ *)
(* csv.writer(delimiter=';') / csv.reader(delimiter=';'), default dialect
   (QUOTE_MINIMAL, quotechar = the double quote), one row = one line.  Modelled for rows
   whose fields need no quoting; [None] = outside that fragment. *)
Definition semi : ascii := ";".
Definition dq : ascii := Ascii.ascii_of_nat 34.

Definition csv_special (c : ascii) : bool :=
  Ascii.eqb c semi || Ascii.eqb c dq || Ascii.eqb c cr || Ascii.eqb c lf.
Definition csv_plain (f : str) : bool :=
  negb (match f with [] => true | _ => false end) && forallb (fun c => negb (csv_special c)) f.

Fixpoint join_semi (row : list str) : str :=
  match row with
  | [] => []
  | f :: r => match r with [] => f | _ => f ++ [semi] ++ join_semi r end
  end.
Definition csv_write_row (row : list str) : option str :=
  if forallb csv_plain row then Some (join_semi row) else None.

(* reader on a line without quote characters: a blank line is the empty row *)
Fixpoint split_semi (cur : str) (s : str) : list str :=
  match s with
  | [] => [rev cur]
  | c :: r => if Ascii.eqb c semi then rev cur :: split_semi [] r else split_semi (c :: cur) r
  end.
Definition csv_read_row (line : str) : list str :=
  match line with [] => [] | _ => split_semi [] line end.

(* ------------------------------------------------------------------ *)
(* load_subs: rows -> ranks (np.array_split(np.arange(N), P): division points
   r*(N/P) + min r (N mod P)), per-rank processing, gather in rank order. *)
Definition as_point (N P r : nat) : nat := r * (N / P) + Nat.min r (N mod P).

(* all_subs[r] = [] if the index block is empty else subs[ii[0] : ii[-1]+1] *)
Definition rank_rows {A} (rows : list A) (P r : nat) : list A :=
  let a := as_point (List.length rows) P r in
  let b := as_point (List.length rows) P (S r) in
  if b <=? a then [] else firstn (b - a) (skipn a rows).

(* `if len(row) == 0: continue` else every cell is converted *)
Definition read_row (row : list str) : list cell :=
  match row with [] => [] | _ => map read_cell row end.

Definition load_subs (P : nat) (lines : list str) : list (list cell) :=
  let subs := map csv_read_row lines in
  concat (map (fun r => map read_row (rank_rows subs P r)) (seq 0 P)).

(* ------------------------------------------------------------------ *)
(* What is written: a cell is 'nan' (str(np.nan)) or str(dict) *)
Inductive wcell := WNan | WDict (d : dict).
Definition show_wcell (w : wcell) : str :=
  match w with WNan => lit "nan" | WDict d => show_dict d end.
Definition cell_of (w : wcell) : cell :=
  match w with WNan => CNan | WDict d => CDict d end.

Fixpoint opt_all {A} (l : list (option A)) : option (list A) :=
  match l with
  | [] => Some []
  | Some x :: r => match opt_all r with Some r' => Some (x :: r') | None => None end
  | None :: _ => None
  end.
Definition write_file (rows : list (list wcell)) : option (list str) :=
  opt_all (map (fun row => csv_write_row (map show_wcell row)) rows).

(* ------------------------------------------------------------------ *)
(* Side condition of the round trip.  A key/value string is [clean] when it
   has none of  { } ' \ CR LF NUL  and neither ", " nor ": " as a substring
   (what the four replaces and a single-quoted literal need), and is
   [csv_plain] (non-empty, no semicolon, double quote, CR, LF: what the csv layer needs). *)
Definition bad_char (c : ascii) : bool :=
  Ascii.eqb c "{" || Ascii.eqb c "}" || lit_bad c.

(* pat occurs in s as a substring (pat non-empty) *)
Fixpoint has_sub (pat s : str) : bool :=
  match s with
  | [] => false
  | _ :: r => is_prefix pat s || has_sub pat r
  end.

Definition clean (s : str) : bool :=
  forallb (fun c => negb (bad_char c)) s && negb (has_sub [","; sp] s) && negb (has_sub [":"; sp] s).

Fixpoint nodup_keys (d : dict) : bool :=
  match d with
  | [] => true
  | (k, _) :: r => negb (existsb (fun kv => str_eqb k (fst kv)) r) && nodup_keys r
  end.

Definition dict_ok (d : dict) : bool :=
  negb (match d with [] => true | _ => false end) && nodup_keys d &&
  forallb (fun kv => clean (fst kv) && clean (snd kv)) d.

Definition wcell_ok (w : wcell) : bool :=
  match w with
  | WNan => true
  | WDict d => dict_ok d && csv_plain (show_dict d)
  end.

(* ------------------------------------------------------------------ *)
(* The family of substitutions the simplifier records (sympy_simplify), as
   printed by sympy's str.  i, j: parameter indices; n, d, m: positive ints. *)
Inductive tmpl :=
| TNan                                   (* nan *)
| TRename (l : list (nat * nat))         (* {ai: aj, ...}: permutations, swaps, renumbering, identity *)
| TNeg (i : nat)                         (* {ai: -ai} *)
| TInv (i : nat)                         (* {ai: 1/ai} *)
| TScale (i : nat) (neg : bool) (n d : nat)   (* {ai: [-][n*]ai[/d]}, (n,d) <> (1,1) *)
| TRoot (i : nat) (neg : bool) (m : nat)      (* {ai: ai**(1/m)} / {ai: ai**(-1/m)}, m >= 3 odd *)
| TAbsRoot (i : nat) (neg : bool) (m : nat)   (* {ai: Abs(ai)**(+-1/m)}: Abs(ai), 1/Abs(ai), sqrt(Abs(ai)), 1/sqrt(Abs(ai)), ... *)
| TAbsRootSign (i : nat) (neg : bool) (m : nat) (* {ai: Abs(ai)**(1/m)*sign(ai)} / {ai: sign(ai)/Abs(ai)**(1/m)}, m >= 2 *)
| TIntPow (i : nat) (n : nat)            (* {ai: ai**n}, n >= 2 *)
| TExp (i : nat)                         (* {ai: exp(ai)} *)
| TLogAbs (i : nat)                      (* {ai: log(Abs(ai))} *)
| TFloatCbrt (i : nat)                   (* {ai: ai**0.333333333333333} *)
| TAbsFloatCbrt (i : nat)                (* {ai: Abs(ai)**0.333333333333333} *)
| TValNan (i : nat).                     (* {ai: nan} *)

Definition show_nat (n : nat) : str := lit (NilZero.string_of_uint (Nat.to_uint n)).
Definition par (i : nat) : str := lit "a" ++ show_nat i.
Definition absp (i : nat) : str := lit "Abs(" ++ par i ++ lit ")".
Definition sqrtabs (i : nat) : str := lit "sqrt(" ++ absp i ++ lit ")".
Definition signp (i : nat) : str := lit "sign(" ++ par i ++ lit ")".

Definition show_scale (i : nat) (neg : bool) (n d : nat) : str :=
  (if neg then lit "-" else []) ++
  (if n =? 1 then [] else show_nat n ++ lit "*") ++ par i ++
  (if d =? 1 then [] else lit "/" ++ show_nat d).

(* x**(1/m), x**(-1/m) as sympy prints them for an atom-like base x *)
Definition show_root (x : str) (neg : bool) (m : nat) : str :=
  if m =? 1 then (if neg then lit "1/" ++ x else x)
  else x ++ lit "**(" ++ (if neg then lit "-" else []) ++ lit "1/" ++ show_nat m ++ lit ")".

Definition show_absroot (i : nat) (neg : bool) (m : nat) : str :=
  if m =? 2 then (if neg then lit "1/" ++ sqrtabs i else sqrtabs i)
  else show_root (absp i) neg m.

Definition show_absrootsign (i : nat) (neg : bool) (m : nat) : str :=
  let r := if m =? 2 then sqrtabs i else absp i ++ lit "**(1/" ++ show_nat m ++ lit ")" in
  if neg then signp i ++ lit "/" ++ r else r ++ lit "*" ++ signp i.

Definition value_of (t : tmpl) : nat * str :=
  match t with
  | TNeg i => (i, lit "-" ++ par i)
  | TInv i => (i, lit "1/" ++ par i)
  | TScale i neg n d => (i, show_scale i neg n d)
  | TRoot i neg m => (i, show_root (par i) neg m)
  | TAbsRoot i neg m => (i, show_absroot i neg m)
  | TAbsRootSign i neg m => (i, show_absrootsign i neg m)
  | TIntPow i n => (i, par i ++ lit "**" ++ show_nat n)
  | TExp i => (i, lit "exp(" ++ par i ++ lit ")")
  | TLogAbs i => (i, lit "log(" ++ absp i ++ lit ")")
  | TFloatCbrt i => (i, par i ++ lit "**0.333333333333333")
  | TAbsFloatCbrt i => (i, absp i ++ lit "**0.333333333333333")
  | TValNan i => (i, lit "nan")
  | TNan | TRename _ => (0, [])
  end.

Definition wcell_of (t : tmpl) : wcell :=
  match t with
  | TNan => WNan
  | TRename l => WDict (map (fun kv => (par (fst kv), par (snd kv))) l)
  | _ => WDict [(par (fst (value_of t)), snd (value_of t))]
  end.
Definition show_tmpl (t : tmpl) : str := show_wcell (wcell_of t).

(* ---- enumeration of the family: parameters a0..a(np-1), integers 1..nmax *)
Definition bools := [false; true].
Definition range1 (n : nat) : list nat := seq 1 n.        (* 1..n *)
Definition range2 (n : nat) : list nat := seq 2 (n - 1).  (* 2..n *)

Fixpoint gcdn (fuel a b : nat) : nat :=
  match fuel with
  | O => a
  | S f => match b with O => a | _ => gcdn f b (a mod b) end
  end.
Definition coprime (a b : nat) : bool := gcdn (S (a + b)) a b =? 1.

(* all key lists of length len with distinct keys below np, each key mapped to any parameter below np *)
Fixpoint renames (np len : nat) (used : list nat) : list (list (nat * nat)) :=
  match len with
  | O => [[]]
  | S len' =>
      flat_map (fun k =>
        if existsb (Nat.eqb k) used then []
        else flat_map (fun v => map (fun rest => (k, v) :: rest) (renames np len' (k :: used))) (seq 0 np))
      (seq 0 np)
  end.

Definition family (np nmax : nat) : list tmpl :=
  [TNan] ++
  map TRename (flat_map (fun len => renames np len []) (range1 np)) ++
  flat_map (fun i =>
    [TNeg i; TInv i; TExp i; TLogAbs i; TFloatCbrt i; TAbsFloatCbrt i; TValNan i] ++
    flat_map (fun neg => flat_map (fun n => flat_map (fun d =>
       if coprime n d && negb ((n =? 1) && (d =? 1)) then [TScale i neg n d] else [])
       (range1 nmax)) (range1 nmax)) bools ++
    flat_map (fun neg => map (TRoot i neg) (filter Nat.odd (range2 (S nmax)))) bools ++
    flat_map (fun neg => map (TAbsRoot i neg) (range1 (S nmax))) bools ++
    flat_map (fun neg => map (TAbsRootSign i neg) (range2 (S nmax))) bools ++
    map (TIntPow i) (range2 nmax))
  (seq 0 np).

Definition tmpl_ok (t : tmpl) : bool := wcell_ok (wcell_of t).
