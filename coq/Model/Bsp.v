(* SPMD programs made of local computation and blocking collectives (gather / bcast /
   scatter / Barrier rooted anywhere): asynchronous small-step semantics with an
   append-only board of deposits, and the lock-step reference semantics.  No proofs. *)
From Coq Require Import List Arith Bool.
Import ListNotations.

Section Bsp.
  Variables (S C : Type).

  (* one superstep: rank r computes locally and contributes c to the collective;
     when all P contributions are there, rank r continues with combine cs r s *)
  Record phase := mkPhase { local : nat -> S -> S * C; combine : list C -> nat -> S -> S }.

  Variable P : nat.

  (* ---------------- lock-step reference ---------------- *)
  Definition contribs (p : phase) (st : nat -> S) : list C :=
    map (fun r => snd (local p r (st r))) (seq 0 P).
  Definition lock_step (p : phase) (st : nat -> S) : nat -> S :=
    fun r => combine p (contribs p st) r (fst (local p r (st r))).
  Fixpoint lock (ps : list phase) (st : nat -> S) : nat -> S :=
    match ps with [] => st | p :: ps' => lock ps' (lock_step p st) end.

  (* ---------------- asynchronous semantics ---------------- *)
  Record rank_state := mkRank { pc : nat; rst : S; dep : bool }.
  Definition board := list (nat * nat * C).     (* (phase index, rank, contribution), append-only *)
  Record astate := mkA { ranks : list rank_state; brd : board }.

  Fixpoint lookup (b : board) (k r : nat) : option C :=
    match b with
    | [] => None
    | (k', r', c) :: b' => if (Nat.eqb k k' && Nat.eqb r r')%bool then Some c else lookup b' k r
    end.

  Fixpoint collect (b : board) (k : nat) (rs : list nat) : option (list C) :=
    match rs with
    | [] => Some []
    | r :: rs' => match lookup b k r, collect b k rs' with
                  | Some c, Some cs => Some (c :: cs)
                  | _, _ => None
                  end
    end.

  Fixpoint set_nth {A} (n : nat) (x : A) (l : list A) : list A :=
    match l, n with
    | [], _ => []
    | _ :: t, O => x :: t
    | h :: t, Datatypes.S k => h :: set_nth k x t
    end.

  Variable prog : list phase.

  (* rank r takes a step if it can (no-op when finished, blocked or out of range) *)
  Definition astep (a : astate) (r : nat) : astate :=
    match nth_error (ranks a) r with
    | None => a
    | Some rs =>
      match nth_error prog (pc rs) with
      | None => a
      | Some p =>
        if dep rs then
          match collect (brd a) (pc rs) (seq 0 P) with
          | Some cs => mkA (set_nth r (mkRank (Datatypes.S (pc rs)) (combine p cs r (rst rs)) false) (ranks a)) (brd a)
          | None => a
          end
        else
          let '(s', c) := local p r (rst rs) in
          mkA (set_nth r (mkRank (pc rs) s' true) (ranks a)) ((pc rs, r, c) :: brd a)
      end
    end.

  Definition ainit (init : nat -> S) : astate :=
    mkA (map (fun r => mkRank 0 (init r) false) (seq 0 P)) [].
  Definition arun (init : nat -> S) (sched : list nat) : astate := fold_left astep sched (ainit init).
  Definition finished (a : astate) : Prop := Forall (fun rs => pc rs = length prog) (ranks a).
End Bsp.

Arguments mkPhase {S C}.
Arguments local {S C}.
Arguments combine {S C}.
Arguments lock {S C}.
Arguments lock_step {S C}.
Arguments contribs {S C}.
Arguments arun {S C}.
Arguments astep {S C}.
Arguments ainit {S C}.
Arguments finished {S C}.
Arguments ranks {S C}.
Arguments brd {S C}.
Arguments pc {S}.
Arguments rst {S}.
Arguments dep {S}.
Arguments mkRank {S}.
Arguments mkA {S C}.
Arguments lookup {C}.
Arguments collect {C}.
