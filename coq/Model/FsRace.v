(* Small-step interleaving model of the directory operations ESR's ranks perform
   at start-up.  Executable; proofs are in Proofs/FsRaceProofs.v. *)
From Coq Require Import List Bool Arith.
Import ListNotations.

Inductive op :=
| OIsDir (d : nat)            (* flag := os.path.isdir(d) *)
| OMkdirUnlessFlag (d : nat)  (* if not flag: os.mkdir(d)  -- FileExistsError when d exists *)
| OMakedirsOk (d : nat)       (* os.makedirs(d, exist_ok=True) *)
| OUse (d : nat)              (* open a file inside d -- FileNotFoundError when d is absent *)
| OBarrier.                   (* comm.Barrier() *)

Record rstate := mkR { prog : list op; flag : bool; waiting : bool }.
Record state := mkS { ranks : list rstate; fs : list nat; err : bool }.

Definition mem (d : nat) (l : list nat) : bool := existsb (Nat.eqb d) l.

Fixpoint set_nth {A} (n : nat) (x : A) (l : list A) : list A :=
  match l, n with
  | [], _ => []
  | _ :: t, O => x :: t
  | h :: t, S k => h :: set_nth k x t
  end.

Definition release (rs : list rstate) : list rstate :=
  if forallb waiting rs then map (fun r => mkR (prog r) (flag r) false) rs else rs.

(* rank r takes one step (no-op when it is finished, blocked, out of range, or after an error) *)
Definition step (st : state) (r : nat) : state :=
  if err st then st else
  match nth_error (ranks st) r with
  | None => st
  | Some rs =>
    if waiting rs then st else
    match prog rs with
    | [] => st
    | OIsDir d :: p =>
        mkS (set_nth r (mkR p (mem d (fs st)) false) (ranks st)) (fs st) false
    | OMkdirUnlessFlag d :: p =>
        if flag rs then mkS (set_nth r (mkR p (flag rs) false) (ranks st)) (fs st) false
        else if mem d (fs st) then mkS (ranks st) (fs st) true
        else mkS (set_nth r (mkR p (flag rs) false) (ranks st)) (d :: fs st) false
    | OMakedirsOk d :: p =>
        mkS (set_nth r (mkR p (flag rs) false) (ranks st))
            (if mem d (fs st) then fs st else d :: fs st) false
    | OUse d :: p =>
        if mem d (fs st) then mkS (set_nth r (mkR p (flag rs) false) (ranks st)) (fs st) false
        else mkS (ranks st) (fs st) true
    | OBarrier :: p =>
        mkS (release (set_nth r (mkR p (flag rs) true) (ranks st))) (fs st) false
    end
  end.

Definition init (progs : list (list op)) (fs0 : list nat) : state :=
  mkS (map (fun p => mkR p false false) progs) fs0 false.

Definition run_sched (progs : list (list op)) (fs0 : list nat) (sched : list nat) : state :=
  fold_left step sched (init progs fs0).

Definition no_error (st : state) : Prop := err st = false.
Definition all_done (st : state) : bool := forallb (fun r => match prog r with [] => true | _ => false end) (ranks st).

(* Likelihood.__init__ as it was: every rank, no barrier *)
Definition ctor_programs_racy (P d : nat) : list (list op) :=
  repeat [OIsDir d; OMkdirUnlessFlag d] P.

(* Likelihood.__init__ with os.makedirs(like_dir, exist_ok=True) *)
Definition ctor_programs_fixed (P d : nat) : list (list op) :=
  repeat [OMakedirsOk d] P.

(* get_functions: rank 0 creates the directories, Barrier, then every rank writes into them *)
Definition gf_create (dirs : list nat) : list op :=
  flat_map (fun d => [OIsDir d; OMkdirUnlessFlag d]) dirs.
Definition gf_programs (P : nat) (dirs : list nat) : list (list op) :=
  match P with
  | O => []
  | S k => (gf_create dirs ++ OBarrier :: map OUse dirs) :: repeat (OBarrier :: map OUse dirs) k
  end.
