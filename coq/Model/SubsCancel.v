(* C17, cancellation side: simplifier.get_all_dup and simplifier.simplify_inv_subs
   as written (index loop with del_idx and i += 2), and the meaning of a chain
   of substitutions as convert_params / check_results compose it
   (p = p.subs(s_1, simultaneous=True); p = p.subs(s_2, ...); ...).

   In duplicate_checker.main the chain elements are the strings str(dict)
   (load_subs(..., use_sympy=False)) or the float nan, all_dup is a list of
   strings, `in` and `==` are string equality.  [sub] is the abstraction of
   those strings with structural equality = string equality of the printed
   form (the printing is injective; see show_sub in the harness).
   No proofs in this file. *)
From Coq Require Import Arith Bool List.
Import ListNotations.

Inductive sub :=
| SNan                          (* the float nan of an unrecoverable step *)
| SNeg (i : nat)                (* "{ai: -ai}" *)
| SInv (i : nat)                (* "{ai: 1/ai}" *)
| SRen (l : list (nat * nat))   (* "{ak: av, ...}" in this key order *)
| SOther (id : nat).            (* any other string, identified by a number *)

Fixpoint pairs_eqb (a b : list (nat * nat)) : bool :=
  match a, b with
  | [], [] => true
  | (x1, y1) :: a', (x2, y2) :: b' => (x1 =? x2) && (y1 =? y2) && pairs_eqb a' b'
  | _, _ => false
  end.

Definition sub_eqb (a b : sub) : bool :=
  match a, b with
  | SNan, SNan => false          (* float nan: nan == nan is False (and the strings are never nan) *)
  | SNeg i, SNeg j => i =? j
  | SInv i, SInv j => i =? j
  | SRen l, SRen m => pairs_eqb l m
  | SOther i, SOther j => i =? j
  | _, _ => false
  end.

Definition swap (i j : nat) : sub := SRen [(i, j); (j, i)].

(* list(itertools.combinations(np.flip(np.arange(k)), 2)):
   (k-1,k-2), (k-1,k-3), ..., (k-1,0), (k-2,k-3), ..., (1,0) *)
Definition comb (k : nat) : list (nat * nat) :=
  flat_map (fun i => map (fun j => (i, j)) (rev (seq 0 i))) (rev (seq 0 k)).

Definition all_dup (k : nat) : list sub :=
  map SNeg (seq 0 k) ++ map SInv (seq 0 k) ++
  map (fun c => swap (fst c) (snd c)) (comb k) ++
  map (fun c => swap (snd c) (fst c)) (comb k).

(* x in l  (Python: any(e is x or e == x for e in l); the nan object is never in all_dup) *)
Definition mem (x : sub) (l : list sub) : bool := existsb (fun e => sub_eqb e x) l.

(* the while loop; returns del_idx.  None = fuel exhausted or IndexError *)
Fixpoint sis_loop (fuel : nat) (inv dup : list sub) (i : nat) (del : list nat) : option (list nat) :=
  match fuel with
  | O => None
  | S f =>
      if i + 1 <? length inv then               (* i < len(inv_subs) - 1 *)
        match nth_error inv i, nth_error inv (i + 1) with
        | Some x, Some y =>
            if mem x dup then
              if sub_eqb y x then sis_loop f inv dup (i + 2) (del ++ [i; i + 1])
              else sis_loop f inv dup (i + 1) del
            else sis_loop f inv dup (i + 1) del
        | _, _ => None
        end
      else Some del
  end.

(* [inv_subs[i] for i in range(len(inv_subs)) if i not in del_idx] *)
Definition select (inv : list sub) (del : list nat) : list sub :=
  map snd (filter (fun p => negb (existsb (Nat.eqb (fst p)) del)) (combine (seq 0 (length inv)) inv)).

(* outer None = loop did not finish (excluded by the theorems);
   inner None = Python's None (empty result) *)
Definition simplify_inv_subs (inv dup : list sub) : option (option (list sub)) :=
  match inv with
  | [] => Some (Some [])
  | _ =>
      match sis_loop (S (length inv)) inv dup 0 [] with
      | None => None
      | Some del =>
          let new_inv := select inv del in
          Some (match new_inv with [] => None | _ => Some new_inv end)
      end
  end.

(* what duplicate_checker writes for the function: None becomes the empty row *)
Definition sis_chain (inv dup : list sub) : option (list sub) :=
  match simplify_inv_subs inv dup with
  | None => None
  | Some None => Some []
  | Some (Some c) => Some c
  end.

(* the same computation by structural recursion (proved equal to the loop) *)
Fixpoint cancel (dup : list sub) (l : list sub) : list sub :=
  match l with
  | [] => []
  | x :: t =>
      match t with
      | [] => [x]
      | y :: r => if mem x dup && sub_eqb y x then cancel dup r else x :: cancel dup t
      end
  end.

(* relative deletion indices of the structural version *)
Fixpoint del_idx (dup : list sub) (l : list sub) : list nat :=
  match l with
  | [] => []
  | x :: t =>
      match t with
      | [] => []
      | y :: r => if mem x dup && sub_eqb y x then 0 :: 1 :: map (fun k => 2 + k) (del_idx dup r)
                  else map S (del_idx dup t)
      end
  end.

(* ------------------------------------------------------------------ *)
(* Meaning: a substitution acts on the vector of parameter values (a0..a(n-1))
   simultaneously; None = undefined (nan step, reciprocal of zero, or an
   opaque step that is undefined there).  Over any carrier with 0, negation
   and reciprocal. *)
Section Sem.
  Variable F : Type.
  Variable zero : F.
  Variable opp inv : F -> F.
  Variable is_zero : F -> bool.
  (* meaning of the opaque substitutions *)
  Variable interp : nat -> list F -> option (list F).

  Definition get (e : list F) (i : nat) : F := nth i e zero.
  (* simultaneous: every new component is computed from the old vector *)
  Definition sim (f : nat -> F) (e : list F) : list F := map f (seq 0 (length e)).

  Fixpoint assoc (k : nat) (l : list (nat * nat)) : option nat :=
    match l with
    | [] => None
    | (k', v) :: r => if k' =? k then Some v else assoc k r
    end.

  Definition denote (s : sub) (e : list F) : option (list F) :=
    match s with
    | SNan => None
    | SNeg i => Some (sim (fun k => if k =? i then opp (get e k) else get e k) e)
    | SInv i =>
        if (i <? length e) && is_zero (get e i) then None
        else Some (sim (fun k => if k =? i then inv (get e k) else get e k) e)
    | SRen l => Some (sim (fun k => match assoc k l with Some v => get e v | None => get e k end) e)
    | SOther id =>
        match interp id e with
        | Some e' => if length e' =? length e then Some e' else None
        | None => None
        end
    end.

  (* p = identity; for s in chain: p = p.subs(s, simultaneous=True); value of p at e:
     the first substitution of the chain is the outermost map *)
  Fixpoint compose (chain : list sub) (e : list F) : option (list F) :=
    match chain with
    | [] => Some e
    | s :: rest => match compose rest e with Some e1 => denote s e1 | None => None end
    end.
End Sem.
