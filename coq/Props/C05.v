(* C05 -- fitted parameters transfer exactly from a unique function to its variants.
   Only statements, `exact`, Print Assumptions and non-vacuity Examples here. *)
From Coq Require Import QArith ZArith List Bool Arith Reals Qreals.
From ESRV Require Import Model.Subs Model.Match Proofs.SubsProofs Proofs.MatchProofs Proofs.MatchRealProofs.
Import ListNotations.
Close Scope R_scope.
Close Scope Q_scope.
Open Scope nat_scope.

(* ---- A. substitution chains ------------------------------------------------------------- *)
(* the vector the code builds by folding p.subs(s_1), ..., p.subs(s_n) over the identity denotes
   s_1 o s_2 o ... o s_n  (the last recorded dictionary acts on theta first) *)
Theorem C05_compose_matches_code : forall n chain rho i d,
  i < n -> (eval_mono rho (nth i (compose_chain n chain) d) == den_chain chain rho i)%Q.
Proof. exact compose_matches_code. Qed.

(* np.where(fish, fish, fish.T) on the unpacked upper triangle is a symmetric matrix *)
Theorem C05_fisher_unpacked_symmetric : forall n flat i j, xeq (fmat n flat i j) (fmat n flat j i).
Proof. exact fmat_symmetric. Qed.

(* the analytic inverse used by the model is the two-sided inverse of the Jacobian of a
   generalised permutation *)
Theorem C05_jacobian_right_inverse : forall k p rho, length p = k ->
  (forall i, i < k -> pi p i < k) ->
  (forall i i', i < k -> i' < k -> pi p i = pi p i' -> i = i') ->
  (forall i, i < k -> ~ (dd p rho i == 0)%Q) ->
  forall i i', i < k -> i' < k ->
  (qsum (map (fun a => jmat rho p i a * jinv rho p a i') (seq 0 k)) == if Nat.eqb i i' then 1 else 0)%Q.
Proof. exact jinv_right_inverse. Qed.
Theorem C05_jacobian_left_inverse : forall k p rho, length p = k ->
  (forall i, i < k -> pi p i < k) ->
  (forall i i', i < k -> i' < k -> pi p i = pi p i' -> i = i') ->
  (forall i, i < k -> ~ (dd p rho i == 0)%Q) ->
  forall a a', a < k -> a' < k ->
  (qsum (map (fun i => jinv rho p a i * jmat rho p i a') (seq 0 k)) == if Nat.eqb a a' then 1 else 0)%Q.
Proof. exact jinv_left_inverse. Qed.

(* the Jacobian entries are the derivatives of the monomial map (over the reals) *)
Theorem C05_deriv_mono_is_derivative : forall (m : mono) (rho : env),
  (m_inv m = true -> ~ (rho (m_j m) == 0)%Q) ->
  derivable_pt_lim (fun t => if m_inv m then (Q2R (m_c m) / t)%R else (Q2R (m_c m) * t)%R)
                   (Q2R (rho (m_j m))) (Q2R (deriv_mono rho m)).
Proof. exact deriv_mono_is_derivative. Qed.

(* transfer_fisher: through the code's matrix formula diag(Jinv^T F Jinv), for every recoverable
   chain whose composite is a regular generalised permutation and every finite Hessian block:
   F'_ii = F_jj / (dp'_i/dtheta_j)^2,  p'_i^2 F'_ii = theta_j^2 F_jj,  F'_ii > 0 <-> F_jj > 0 *)
Theorem C05_transfer_fisher : forall k n th flat chain p fish f,
  convert k n th flat chain = ConvOK p fish -> block_finite n k flat f ->
  let pv := compose_chain k chain in
  forall i, i < k ->
    let j := pi pv i in
    exists F', nth i fish NaN = Fin F' /\
      (F' == f j j / (dd pv (env_of th) i * dd pv (env_of th) i))%Q /\
      (nth i p 0 * nth i p 0 * F' == nth j th 0 * nth j th 0 * f j j)%Q /\
      ((0 < F')%Q <-> (0 < f j j)%Q).
Proof. exact transfer_fisher. Qed.

Theorem C05_convert_ok_iff : forall k n th flat chain p fish,
  convert k n th flat chain = ConvOK p fish <->
  (let pv := compose_chain k chain in
   gperm k pv = true /\ regular th pv = true /\
   p = eval_vec th pv /\ fish = map (fnew n k flat (env_of th) pv) (seq 0 k)).
Proof. exact convert_ok_iff. Qed.

Theorem C05_snap_pattern_same : forall k n th flat chain p fish f,
  convert k n th flat chain = ConvOK p fish -> block_finite n k flat f ->
  let pv := compose_chain k chain in
  forall i, i < k ->
    lt1 (nth i p 0%Q) (nth i fish NaN) = lt1 (nth (pi pv i) th 0%Q) (Fin (f (pi pv i) (pi pv i))).
Proof. exact snap_pattern_same. Qed.

(* the model's rational snapping test is the code's float formula read over the reals *)
Theorem C05_lt1_real : forall (p q : Q), (0 < q)%Q ->
  (lt1 p (Fin q) = true <-> (Rabs (Q2R p) / sqrt (12 / Q2R q) < 1)%R).
Proof. exact lt1_real. Qed.

(* ---- B. the loop body ---------------------------------------------------------------------- *)
(* never an escaping exception, never quit(): a row, or the irregular outcome *)
Theorem C05_row_total : forall maxp nparams nll theta flat chain reeval fop,
  (exists r, row maxp nparams nll theta flat chain reeval fop = Ret r) \/
  row maxp nparams nll theta flat chain reeval fop = Irregular.
Proof. exact row_total. Qed.

Theorem C05_irregular_iff : forall maxp nparams nll theta flat chain reeval fop,
  row maxp nparams nll theta flat chain reeval fop = Irregular <->
  (isfin nll = true /\ nparams <> 0 /\ existsb is_nan_step chain = false /\ existsb is_raise_step chain = false /\
   let pv := compose_chain nparams (dicts chain) in
   in_range nparams pv = true /\ coeffs_nonzero pv = true /\ regular (firstn nparams theta) pv = false).
Proof. exact irregular_iff. Qed.

(* the subset search as match.py has it: with >= 2 candidates only the last round (singletons)
   decides -- first singleton with a finite likelihood, else the last singleton *)
Theorem C05_search_is_last_round : forall fop p C st, 2 <= length C ->
  search fop p C st = singles fop p C st.
Proof. exact search_is_last_round. Qed.
Theorem C05_singles_result : forall fop p C st, C <> [] ->
  singles fop p C st =
    match find (fun j => isfin (fop (zero_at [j] p))) C with
    | Some j => single_state fop p j
    | None => single_state fop p (last C 0)
    end.
Proof. exact singles_result. Qed.

(* ---- C. the property ----------------------------------------------------------------------- *)
Theorem C05_transfer_params : forall maxp nparams nll theta flat chain reeval fop r,
  isfin nll = true -> nparams <> 0 -> recoverable chain ->
  row maxp nparams nll theta flat chain reeval fop = Ret r ->
  r_params r = zeros maxp \/
  (let th := firstn nparams theta in
   let pv := compose_chain nparams (dicts chain) in
   gperm nparams pv = true /\ regular th pv = true /\
   length (r_kept r) = nparams /\
   r_params r = pad maxp (zero_mask (map negb (r_kept r)) (eval_vec th pv)) /\
   forall i, i < nparams -> (nth i (eval_vec th pv) 0 == den_chain (dicts chain) (env_of th) i)%Q).
Proof. exact transfer_params. Qed.

Theorem C05_row_recoverable : forall maxp nparams nll theta flat chain reeval fop,
  isfin nll = true -> nparams <> 0 -> recoverable chain ->
  row maxp nparams nll theta flat chain reeval fop =
    match convert nparams maxp (firstn nparams theta) flat (dicts chain) with
    | ConvRaise => Ret (mkRow nll (CVal PInf) (zeros maxp) [])
    | ConvIrregular => Irregular
    | ConvOK p fish => snap maxp p fish nll reeval fop
    end.
Proof. exact row_recoverable. Qed.

Theorem C05_nll_reported : forall maxp p fish nll reeval fop r,
  length fish = length p -> length p <= maxp -> good fish ->
  snap maxp p fish nll reeval fop = Ret r ->
  (r_nll r = nll /\ r_params r = pad maxp p /\ r_kept r = repeat true (length p)) \/
  (isfin (r_nll r) = true /\ r_nll r = fop (firstn (length p) (r_params r))) \/
  r_nll r = NaN.
Proof. exact nll_reported. Qed.

Theorem C05_codelen_finite_iff : forall maxp p fish nll reeval fop r,
  length fish = length p -> good fish ->
  snap maxp p fish nll reeval fop = Ret r ->
  let m := map2 lt1 p fish in
  let C := idx_of m in
  let p0 := zero_mask m p in
  let st := final_state fop p fish in
  (clen_finite (r_len r) = true <->
   C = [] \/
   (reeval = true /\
    (isfin (fop p0) = true \/
     (isfin (fop p0) = false /\ isfin (s_nll st) = true /\
        forall i, In i C -> s_idx st <> Some [i] -> ~ (nth i p 0 == 0)%Q) \/
     (isfin (fop p0) = false /\ isinf (s_nll st) = true /\ forall i, In i C -> ~ (nth i p 0 == 0)%Q)))).
Proof. exact codelen_finite_iff. Qed.

(* the value of the structure is a finite real exactly when clen_finite *)
Theorem C05_denote_finite : forall c, clen_finite c = true <-> exists v, denote c = Some v.
Proof. exact denote_finite. Qed.

Theorem C05_unrecoverable_never_finite : forall maxp nparams nll theta flat chain reeval fop,
  existsb is_nan_step chain = true -> nparams <> 0 ->
  exists r, row maxp nparams nll theta flat chain reeval fop = Ret r /\
            r_params r = zeros maxp /\ r_nll r = nll /\
            (r_len r = CVal PInf \/ (r_len r = CVal NaN /\ isfin nll = false)).
Proof. exact unrecoverable_never_finite. Qed.

Theorem C05_exception_gives_inf : forall maxp nparams nll theta flat chain reeval fop,
  isfin nll = true -> nparams <> 0 -> existsb is_nan_step chain = false ->
  (existsb is_raise_step chain = true \/
   convert nparams maxp (firstn nparams theta) flat (dicts chain) = ConvRaise) ->
  row maxp nparams nll theta flat chain reeval fop = Ret (mkRow nll (CVal PInf) (zeros maxp) []).
Proof. exact exception_gives_inf. Qed.

(* codelen_invariant: same likelihood, same parameter code length as the unique itself, nothing
   dropped, for every recoverable chain whose composite is a regular generalised permutation *)
Theorem C05_codelen_invariant : forall maxp k nll theta flat f fop reeval,
  isfin nll = true -> k <> 0 -> k <= length theta -> block_finite maxp k flat f ->
  (forall j, j < k -> (0 < f j j)%Q) ->
  (forall j, j < k -> (12 <= nth j theta 0 * nth j theta 0 * f j j)%Q) ->
  forall chain, recoverable chain ->
  gperm k (compose_chain k (dicts chain)) = true ->
  regular (firstn k theta) (compose_chain k (dicts chain)) = true ->
  exists r r0 v,
    row maxp k nll theta flat chain reeval fop = Ret r /\
    row maxp k nll theta flat [] reeval fop = Ret r0 /\
    r_nll r = nll /\ r_nll r0 = nll /\
    r_kept r = repeat true k /\ r_kept r0 = repeat true k /\
    denote (r_len r) = Some v /\ denote (r_len r0) = Some v.
Proof. exact codelen_invariant. Qed.

Print Assumptions C05_compose_matches_code.
Print Assumptions C05_fisher_unpacked_symmetric.
Print Assumptions C05_jacobian_right_inverse.
Print Assumptions C05_jacobian_left_inverse.
Print Assumptions C05_transfer_fisher.
Print Assumptions C05_convert_ok_iff.
Print Assumptions C05_snap_pattern_same.
Print Assumptions C05_row_total.
Print Assumptions C05_irregular_iff.
Print Assumptions C05_search_is_last_round.
Print Assumptions C05_singles_result.
Print Assumptions C05_transfer_params.
Print Assumptions C05_row_recoverable.
Print Assumptions C05_nll_reported.
Print Assumptions C05_codelen_finite_iff.
Print Assumptions C05_unrecoverable_never_finite.
Print Assumptions C05_exception_gives_inf.
Print Assumptions C05_deriv_mono_is_derivative.
Print Assumptions C05_lt1_real.
Print Assumptions C05_denote_finite.
Print Assumptions C05_codelen_invariant.

(* ---- non-vacuity --------------------------------------------------------------------------- *)
Definition flip0 : subst := [(0, mkM (-1) 0 false)].
Definition recip0 : subst := [(0, mkM 1 0 true)].
Definition swap01 : subst := [(0, mkM 1 1 false); (1, mkM 1 0 false)].
Definition half0 : subst := [(0, mkM (1 # 2) 0 false)].
Definition nofop : list Q -> xq := fun _ => NaN.
Definition flat1 (F : Q) : list xq := [Fin F; NaN; NaN; NaN; NaN; NaN; NaN; NaN; NaN; NaN].
Definition row_ok (o : outcome) (k : Z) (params : list Q) : bool :=
  match o with
  | Ret r => clen_finite (r_len r) && match r_len r with CLen k' _ => Z.eqb k k' | _ => false end
             && forallb (fun t => Qeq_bool (fst t) (snd t)) (combine (r_params r) params)
  | _ => false
  end.

(* the historical replay: '-a0 + x' with [{a0: -a0}], theta = 2, F = 4: with the repaired guard the
   variant gets a finite code length (k = 1, parameter -2); before e814972 it was inf *)
Example C05_replay_sign_flip :
  row_ok (row 4 1 (Fin 10) [2; 0; 0; 0]%Q (flat1 4) [SDict flip0] true nofop) 1 [-2; 0; 0; 0]%Q = true.
Proof. vm_compute. reflexivity. Qed.
Example C05_replay_reciprocal :
  row_ok (row 4 1 (Fin 10) [2; 0; 0; 0]%Q (flat1 4) [SDict recip0] true nofop) 1 [1 # 2; 0; 0; 0]%Q = true.
Proof. vm_compute. reflexivity. Qed.
(* composition order: [{a0: a0/2}; {a0: 1/a0}] gives 1/(2 a0), not 2/a0 *)
Example C05_compose_order :
  row_ok (row 4 1 (Fin 10) [2; 0; 0; 0]%Q (flat1 4) [SDict half0; SDict recip0] true nofop) 1 [1 # 4; 0; 0; 0]%Q = true.
Proof. vm_compute. reflexivity. Qed.
(* a 'nan' step anywhere: inf *)
Example C05_nan_step :
  row 4 1 (Fin 10) [2; 0; 0; 0]%Q (flat1 4) [SDict flip0; SNan] true nofop = Ret (mkRow (Fin 10) (CVal PInf) (zeros 4) []).
Proof. vm_compute. reflexivity. Qed.
(* reciprocal at theta = 0: the irregular outcome *)
Example C05_irregular :
  row 4 1 (Fin 10) [0; 0; 0; 0]%Q (flat1 4) [SDict recip0] true nofop = Irregular.
Proof. vm_compute. reflexivity. Qed.
(* a non-injective composite ({a0: a1} on two parameters): exception path, inf *)
Example C05_singular :
  row 4 2 (Fin 5) [2; 4; 0; 0]%Q [Fin 12; Fin 1; NaN; NaN; Fin 48; NaN; NaN; NaN; NaN; NaN]
      [SDict [(0, mkM 1 1 false)]] true nofop = Ret (mkRow (Fin 5) (CVal PInf) (zeros 4) []).
Proof. vm_compute. reflexivity. Qed.

(* two parameters swapped, both below one precision step; likelihood by zero pattern *)
Definition flat3 : list xq := [Fin 12; Fin 0; Fin 0; NaN; Fin 12; Fin 0; NaN; Fin 12; NaN; NaN].
Definition theta3 : list Q := [1 # 4; 1 # 8; 1 # 2; 0]%Q.
Definition tbl_a : list (list bool * xq) :=
  [([true; true; true], PInf); ([true; true; false], Fin 6);
   ([true; false; false], PInf); ([false; true; false], PInf); ([false; false; true], PInf)].
(* observation (not a C05 violation): dropping {0,1} keeps the likelihood finite (6), but the search's
   `break` leaves only the inner loop and the last round finds no finite singleton: nothing is
   dropped, the unique's likelihood is reported and the '12/p^2' fallback gives k = 3 *)
Example C05_larger_subset_discarded :
  row_ok (row 4 3 (Fin 7) theta3 flat3 [SDict swap01] true (tbl_fop tbl_a PInf)) 3 [1 # 8; 1 # 4; 1 # 2; 0]%Q = true
  /\ match row 4 3 (Fin 7) theta3 flat3 [SDict swap01] true (tbl_fop tbl_a PInf) with
     | Ret r => xq_eqb (r_nll r) (Fin 7) | _ => false end = true
  /\ isfin (tbl_fop tbl_a PInf (zero_at [0; 1] [1 # 8; 1 # 4; 1 # 2]%Q)) = true.
Proof. vm_compute. repeat split; reflexivity. Qed.
(* a variant that cannot be re-evaluated (exception in run_sympify) gets nan, and is not searched *)
Example C05_reeval_failure :
  row 4 3 (Fin 7) theta3 flat3 [SDict swap01] false (tbl_fop tbl_a PInf) = Ret (mkRow NaN (CVal NaN) (zeros 4) []).
Proof. vm_compute. reflexivity. Qed.

(* the hypotheses of C05_codelen_invariant are satisfiable *)
Example C05_invariant_nonvacuous :
  exists r r0 v,
    row 4 1 (Fin 10) [2; 0; 0; 0]%Q (flat1 4) [SDict flip0] true nofop = Ret r /\
    row 4 1 (Fin 10) [2; 0; 0; 0]%Q (flat1 4) [] true nofop = Ret r0 /\
    r_nll r = Fin 10 /\ r_nll r0 = Fin 10 /\ r_kept r = [true] /\ r_kept r0 = [true] /\
    denote (r_len r) = Some v /\ denote (r_len r0) = Some v.
Proof.
  apply (C05_codelen_invariant 4 1 (Fin 10) [2; 0; 0; 0]%Q (flat1 4) (fun _ _ => 4%Q) nofop true).
  - reflexivity.
  - discriminate.
  - simpl. repeat constructor.
  - intros a b Ha Hb. assert (a = 0) by (apply Nat.lt_1_r; exact Ha). assert (b = 0) by (apply Nat.lt_1_r; exact Hb). subst. reflexivity.
  - intros j _. reflexivity.
  - intros j Hj. assert (j = 0) by (apply Nat.lt_1_r; exact Hj). subst. vm_compute. discriminate.
  - split; reflexivity.
  - reflexivity.
  - reflexivity.
Qed.
