(* C17 -- parameter-map bookkeeping: file round trip and inverse-pair cancellation.
   Property theorems only: each is closed by [exact] of a lemma proved in
   Proofs/, with Print Assumptions beneath it; Examples show non-vacuity and
   that the side conditions are needed. *)
From Coq Require Import String Ascii Arith Bool List Reals QArith Qcanon.
From ESRV Require Import Common.Py Gen.GenCancel Model.InvSubsText Model.SubsCancel Proofs.InvSubsTextProofs Proofs.SubsCancelProofs Proofs.CancelGenProofs Proofs.CancelGenericProofs Gen.GenRequote Proofs.RequoteGenProofs.
From ESRV Require Gen.GenAllDup Proofs.AllDupGenProofs.
Import ListNotations.
Open Scope nat_scope.

(* ---- A. text round trip --------------------------------------------- *)

(* For every non-empty dict whose key strings are pairwise different and whose
   key and value strings contain none of { } ' \ CR LF NUL and neither ", "
   nor ": ", the four replaces of load_subs followed by literal_eval give back
   the same keys in the same order with the same value strings. *)
Theorem C17_requote_roundtrip : forall d : dict,
  dict_ok d = true -> literal_eval_dict (requote (show_dict d)) = Some d.
Proof. exact requote_roundtrip. Qed.
Print Assumptions C17_requote_roundtrip.

(* the key condition of dict_ok is NoDup of the key strings *)
Theorem C17_nodup_keys_NoDup : forall d : dict, nodup_keys d = true <-> NoDup (map fst d).
Proof. exact nodup_keys_NoDup. Qed.
Print Assumptions C17_nodup_keys_NoDup.

(* every member of the emitted family (parameters a0..a3, integers up to 12;
   8977 templates) satisfies the side condition, also for the csv layer *)
Theorem C17_emitted_family_clean : forallb tmpl_ok (family 4 12) = true.
Proof. exact emitted_family_clean. Qed.
Print Assumptions C17_emitted_family_clean.

Theorem C17_emitted_family_roundtrip : forall t : tmpl,
  In t (family 4 12) -> read_cell (show_tmpl t) = cell_of (wcell_of t).
Proof. exact emitted_family_roundtrip. Qed.
Print Assumptions C17_emitted_family_roundtrip.

(* the four replace pairs and the nan literal are those of the current source (Gen/GenRequote.v, regenerated from load_subs) *)
Theorem C17_requote_is_code : forall s, requote_code s = requote s.
Proof. exact requote_is_code. Qed.
Theorem C17_read_cell_is_code : forall s,
  read_cell s =
  let s' := requote_code s in
  if str_eqb s' nan_literal_code then CNan
  else match literal_eval_dict s' with Some d => CDict d | None => CError end.
Proof. exact read_cell_is_code. Qed.
Print Assumptions C17_read_cell_is_code.

(* unrecoverable stays unrecoverable, and only that *)
Theorem C17_nan_stays_nan : read_cell (lit "nan") = CNan.
Proof. exact nan_stays_nan. Qed.
Print Assumptions C17_nan_stays_nan.

Theorem C17_nan_iff_nan : forall w : wcell,
  wcell_ok w = true -> (read_cell (show_wcell w) = CNan <-> w = WNan).
Proof. exact nan_iff_nan. Qed.
Print Assumptions C17_nan_iff_nan.

(* csv row: what csv.writer writes for plain fields is read back field by field *)
Theorem C17_csv_roundtrip : forall (row : list str) (line : str),
  csv_write_row row = Some line -> csv_read_row line = row.
Proof. exact csv_roundtrip. Qed.
Print Assumptions C17_csv_roundtrip.

(* for every rank count P >= 1: splitting the rows with array_split, converting
   per rank and gathering in rank order is the row-wise conversion of the file;
   row i stays row i; empty rows stay empty *)
Theorem C17_rows_preserved : forall (P : nat) (lines : list str),
  1 <= P -> load_subs P lines = map (fun l => read_row (csv_read_row l)) lines.
Proof. exact rows_preserved. Qed.
Print Assumptions C17_rows_preserved.

Theorem C17_row_i_preserved : forall (P : nat) (lines : list str) (i : nat),
  1 <= P -> nth_error (load_subs P lines) i = option_map (fun l => read_row (csv_read_row l)) (nth_error lines i).
Proof. exact row_i_preserved. Qed.
Print Assumptions C17_row_i_preserved.

Theorem C17_empty_row_stays_empty : forall (P : nat) (lines : list str) (i : nat),
  1 <= P -> nth_error lines i = Some ([] : str) -> nth_error (load_subs P lines) i = Some [].
Proof. exact empty_row_stays_empty. Qed.
Print Assumptions C17_empty_row_stays_empty.

(* write any table of admissible cells, load it with any number of ranks:
   every cell of every row comes back as written *)
Theorem C17_file_roundtrip : forall (P : nat) (rows : list (list wcell)),
  1 <= P -> forallb (forallb wcell_ok) rows = true ->
  exists lines, write_file rows = Some lines /\ load_subs P lines = map (map cell_of) rows.
Proof. exact file_roundtrip. Qed.
Print Assumptions C17_file_roundtrip.

(* ---- B. cancellation ------------------------------------------------ *)

(* the index loop of simplify_inv_subs always finishes and computes [cancel] *)
Theorem C17_loop_is_cancel : forall inv dup : list sub, sis_chain inv dup = Some (cancel dup inv).
Proof. exact sis_chain_cancel. Qed.
Print Assumptions C17_loop_is_cancel.

(* get_all_dup(k) = sign flips, reciprocals and swaps of two different parameters below k *)
Theorem C17_all_dup_spec : forall (k : nat) (s : sub),
  In s (all_dup k) <->
  (exists i, i < k /\ (s = SNeg i \/ s = SInv i)) \/
  (exists i j, i < k /\ j < k /\ i <> j /\ s = swap i j).
Proof. exact all_dup_spec. Qed.
Print Assumptions C17_all_dup_spec.

(* ... of the CODE: get_all_dup_code is regenerated on every run from simplifier.get_all_dup (harness/translate/alldup.py; the printed
   dicts str({a: -a}), str({a: 1/a}), str({a_i: a_j, a_j: a_i}) are the constructors of [sub]).  It never raises and returns the model's
   list, in the model's order, for every max_param; so the list the cancellation theorems quantify over is the one the code builds. *)
Theorem C17_code_all_dup_is_model : forall k, GenAllDup.get_all_dup_code k = Some (all_dup k).
Proof. exact AllDupGenProofs.all_dup_code_is_model. Qed.
Print Assumptions C17_code_all_dup_is_model.
Theorem C17_code_all_dup_spec : forall (k : nat) (s : sub),
  (exists l, GenAllDup.get_all_dup_code k = Some l /\ In s l) <->
  (exists i, i < k /\ (s = SNeg i \/ s = SInv i)) \/
  (exists i j, i < k /\ j < k /\ i <> j /\ s = swap i j).
Proof. exact AllDupGenProofs.all_dup_code_spec. Qed.
Print Assumptions C17_code_all_dup_spec.
(* the two generated functions chained as duplicate_checker.main chains them *)
Theorem C17_code_all_dup_then_cancel : forall (interp : nat -> list Qc -> option (list Qc)) (k : nat) (chain : list sub) (e e' : list Qc) (dup : list sub),
  GenAllDup.get_all_dup_code k = Some dup -> k <= length e ->
  compose Qc (Q2Qc 0) Qcopp Qcinv Qc_is_zero interp chain e = Some e' ->
  exists c, gen_chain chain dup = Some c /\ compose Qc (Q2Qc 0) Qcopp Qcinv Qc_is_zero interp c e = Some e'.
Proof. exact AllDupGenProofs.code_all_dup_then_cancel_Qc. Qed.
Print Assumptions C17_code_all_dup_then_cancel.
Example C17_ex_code_all_dup2 : GenAllDup.get_all_dup_code 2 = Some [SNeg 0; SNeg 1; SInv 0; SInv 1; swap 1 0; swap 0 1].
Proof. vm_compute. reflexivity. Qed.

(* members of all_dup are involutions as simultaneous substitutions (reals;
   reciprocal where defined) *)
Theorem C17_all_dup_involutive : forall (interp : nat -> list R -> option (list R)) (k : nat) (s : sub) (e e' : list R),
  In s (all_dup k) -> k <= length e ->
  denote R 0%R Ropp Rinv R_is_zero interp s e = Some e' ->
  denote R 0%R Ropp Rinv R_is_zero interp s e' = Some e.
Proof. exact all_dup_involutive_R. Qed.
Print Assumptions C17_all_dup_involutive.

(* for every chain, every meaning of the opaque steps and every parameter
   vector on which the original chain is defined, the chain the code keeps has
   the same composition (reals) *)
Theorem C17_cancel_preserves_composition : forall (interp : nat -> list R -> option (list R)) (k : nat) (chain : list sub) (e e' : list R),
  k <= length e ->
  compose R 0%R Ropp Rinv R_is_zero interp chain e = Some e' ->
  exists c, sis_chain chain (all_dup k) = Some c /\ compose R 0%R Ropp Rinv R_is_zero interp c e = Some e'.
Proof. exact cancel_preserves_composition_R. Qed.
Print Assumptions C17_cancel_preserves_composition.

(* the same over the rationals: no axioms *)
Theorem C17_cancel_preserves_composition_Qc : forall (interp : nat -> list Qc -> option (list Qc)) (k : nat) (chain : list sub) (e e' : list Qc),
  k <= length e ->
  compose Qc (Q2Qc 0) Qcopp Qcinv Qc_is_zero interp chain e = Some e' ->
  exists c, sis_chain chain (all_dup k) = Some c /\ compose Qc (Q2Qc 0) Qcopp Qcinv Qc_is_zero interp c e = Some e'.
Proof. exact cancel_preserves_composition_Qc. Qed.
Print Assumptions C17_cancel_preserves_composition_Qc.

(* the loop only removes adjacent equal members of all_dup *)
Theorem C17_cancel_removes_pairs : forall (k : nat) (chain : list sub),
  exists c, sis_chain chain (all_dup k) = Some c /\ removes_pairs (all_dup k) chain c.
Proof. exact sis_chain_removes_pairs. Qed.
Print Assumptions C17_cancel_removes_pairs.

(* an unrecoverable step (nan) is never cancelled and never introduced *)
Theorem C17_cancel_keeps_nan : forall (k : nat) (chain : list sub),
  exists c, sis_chain chain (all_dup k) = Some c /\ (In SNan c <-> In SNan chain).
Proof. exact sis_chain_nan. Qed.
Print Assumptions C17_cancel_keeps_nan.

(* ---- C. the same, for the function REGENERATED from simplifier.py on every run (Gen/GenCancel.v) ---- *)

(* the translated code computes the hand model: for every chain and every all_dup (any element equality) *)
Theorem C17_code_is_model : forall inv dup : list sub,
  GenCancel.simplify_inv_subs sub_eqb (Some inv) dup = SubsCancel.simplify_inv_subs inv dup.
Proof. exact gen_is_model. Qed.
Print Assumptions C17_code_is_model.

(* None (a function without recorded substitutions) is passed through *)
Theorem C17_code_none : forall (A : Type) (eqA : A -> A -> bool) (dup : list A),
  GenCancel.simplify_inv_subs eqA None dup = Some None.
Proof. exact (fun A eqA => @gen_simplify_none A eqA). Qed.
Print Assumptions C17_code_none.

(* the translated loop never raises, never runs out of fuel, and computes [cancel] *)
Theorem C17_code_is_cancel : forall inv dup : list sub, gen_chain inv dup = Some (cancel dup inv).
Proof. exact gen_chain_cancel. Qed.
Print Assumptions C17_code_is_cancel.

Theorem C17_code_preserves_composition : forall (interp : nat -> list R -> option (list R)) (k : nat) (chain : list sub) (e e' : list R),
  k <= length e ->
  compose R 0%R Ropp Rinv R_is_zero interp chain e = Some e' ->
  exists c, gen_chain chain (all_dup k) = Some c /\ compose R 0%R Ropp Rinv R_is_zero interp c e = Some e'.
Proof. exact gen_preserves_composition_R. Qed.
Print Assumptions C17_code_preserves_composition.

Theorem C17_code_preserves_composition_Qc : forall (interp : nat -> list Qc -> option (list Qc)) (k : nat) (chain : list sub) (e e' : list Qc),
  k <= length e ->
  compose Qc (Q2Qc 0) Qcopp Qcinv Qc_is_zero interp chain e = Some e' ->
  exists c, gen_chain chain (all_dup k) = Some c /\ compose Qc (Q2Qc 0) Qcopp Qcinv Qc_is_zero interp c e = Some e'.
Proof. exact gen_preserves_composition_Qc. Qed.
Print Assumptions C17_code_preserves_composition_Qc.

Theorem C17_code_removes_pairs : forall (k : nat) (chain : list sub),
  exists c, gen_chain chain (all_dup k) = Some c /\ removes_pairs (all_dup k) chain c.
Proof. exact gen_removes_pairs. Qed.
Print Assumptions C17_code_removes_pairs.

Theorem C17_code_keeps_nan : forall (k : nat) (chain : list sub),
  exists c, gen_chain chain (all_dup k) = Some c /\ (In SNan c <-> In SNan chain).
Proof. exact gen_keeps_nan. Qed.
Print Assumptions C17_code_keeps_nan.

(* for ANY element type and equality (strings, the float nan, ...): the translated function never raises and is the structural
   one-pass cancellation *)
Theorem C17_code_generic : forall (A : Type) (eqA : A -> A -> bool) (dup c : list A),
  (exists r, GenCancel.simplify_inv_subs eqA (Some c) dup = Some r) /\ code_cancel eqA dup c = gcancel eqA dup c.
Proof. exact (fun A eqA dup c => conj (code_never_raises eqA dup c) (code_cancel_is_gcancel eqA dup c)). Qed.
Print Assumptions C17_code_generic.

Example C17_ex_code_run :
  GenCancel.simplify_inv_subs sub_eqb (Some [SNeg 0; swap 1 0; swap 1 0; SOther 7; SInv 1; SInv 1]) (all_dup 2)
  = Some (Some [SNeg 0; SOther 7]).
Proof. vm_compute. reflexivity. Qed.
Example C17_ex_code_all_cancelled :
  GenCancel.simplify_inv_subs sub_eqb (Some [SInv 0; SInv 0]) (all_dup 1) = Some None.
Proof. vm_compute. reflexivity. Qed.

(* ---- non-vacuity and necessity of the side conditions ---------------- *)
Definition s2 (l : str) : string := string_of_list_ascii l.

Example C17_ex_requote :
  s2 (requote (lit "{a0: a1, a1: a0}")) = "{'a0': 'a1', 'a1': 'a0'}"%string.
Proof. vm_compute. reflexivity. Qed.

Example C17_ex_ok : dict_ok [(lit "a0", lit "Abs(a0)**(-1/4)"); (lit "a1", lit "a0")] = true.
Proof. vm_compute. reflexivity. Qed.

Example C17_ex_read :
  read_cell (lit "{a0: 1/sqrt(Abs(a0))}") = CDict [(lit "a0", lit "1/sqrt(Abs(a0))")].
Proof. vm_compute. reflexivity. Qed.

(* a value with ", " inside is NOT read back: the side condition is needed *)
Example C17_ex_comma_breaks : read_cell (show_dict [(lit "a0", lit "Max(a0, a1)")]) = CError.
Proof. vm_compute. reflexivity. Qed.

(* the empty dict is requoted to a set literal: not a dict *)
Example C17_ex_empty_breaks : read_cell (show_dict []) = CError.
Proof. vm_compute. reflexivity. Qed.

Example C17_ex_rows :
  load_subs 3 (map lit ["{a0: -a0};nan"; ""; "{a0: 1/a0}"; "nan"]%string)
  = [[CDict [(lit "a0", lit "-a0")]; CNan]; []; [CDict [(lit "a0", lit "1/a0")]]; [CNan]].
Proof. vm_compute. reflexivity. Qed.

Example C17_ex_all_dup3 :
  all_dup 3 = [SNeg 0; SNeg 1; SNeg 2; SInv 0; SInv 1; SInv 2;
               swap 2 1; swap 2 0; swap 1 0; swap 1 2; swap 0 2; swap 0 1].
Proof. vm_compute. reflexivity. Qed.

(* three equal in a row: the first two go, the third stays; a pair uncovered by a
   removal is not removed (one pass) *)
Example C17_ex_triple : sis_chain [SNeg 0; SNeg 0; SNeg 0] (all_dup 1) = Some [SNeg 0].
Proof. vm_compute. reflexivity. Qed.
Example C17_ex_one_pass :
  sis_chain [SNeg 0; swap 1 0; swap 1 0; SNeg 0] (all_dup 2) = Some [SNeg 0; SNeg 0].
Proof. vm_compute. reflexivity. Qed.
(* the same swap written with the other key order is a different string: kept *)
Example C17_ex_swap_order : sis_chain [swap 1 0; swap 0 1] (all_dup 2) = Some [swap 1 0; swap 0 1].
Proof. vm_compute. reflexivity. Qed.

(* the hypothesis "defined on the original chain" is needed: 1/(1/a0) at a0 = 0 *)
Example C17_ex_domain :
  compose Qc (Q2Qc 0) Qcopp Qcinv Qc_is_zero (fun _ _ => None) [SInv 0; SInv 0] [Q2Qc 0] = None /\
  sis_chain [SInv 0; SInv 0] (all_dup 1) = Some [] /\
  compose Qc (Q2Qc 0) Qcopp Qcinv Qc_is_zero (fun _ _ => None) [] [Q2Qc 0] = Some [Q2Qc 0].
Proof. repeat split. Qed.

Example C17_ex_compose :
  compose Qc (Q2Qc 0) Qcopp Qcinv Qc_is_zero (fun _ _ => None) [swap 0 1; SNeg 0; SInv 1] [Q2Qc 2; Q2Qc 4]
  = Some [Q2Qc (1 # 4); Q2Qc (-2)].
Proof. vm_compute. reflexivity. Qed.
