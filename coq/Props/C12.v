(* C12 -- printing an expression with ESRPrinter and reading the string back gives the same function.
   Model: Model/Printer.v (printer, sympy precedence), Model/PyParse.v (Python lexer/grammar, the two symbol
   tables, real-number meaning).  Fragment: Proofs/PrinterProofs.v [fragment] = [wf] && [names_ok]
   (evaluated sympy trees over Add Mul Pow Integer Rational Symbol E and log/exp/sin/cos/Abs). *)
From Coq Require Import ZArith NArith List Bool String Reals.
From ESRV Require Import Model.Printer Model.PyParse Proofs.PyParseProofs Proofs.PrinterProofs.
Import ListNotations.

(* lexing the printed string gives back the printed tokens (spaces dropped) *)
Theorem C12_lex_print : forall e, fragment e = true -> lex (print_string e) = Some (toks e).
Proof. exact lex_print. Qed.

(* the fuel parse_tokens uses is enough whenever any fuel is *)
Theorem C12_parse_fuel_enough : forall ts a, PE ts a [] -> parse_tokens ts = Some a.
Proof. exact parse_tokens_complete. Qed.

(* parenthesisation adequacy at every grammar level the printer relies on *)
Theorem C12_parse_print_level : forall e, wf e = true ->
  (forall rest, okE rest -> exists a, PE (toks e ++ rest) a rest /\ SemEq a (V false e) (D e)) /\
  (is_add e = false -> forall rest, okT rest ->
     (exists a, PT (toks e ++ rest) a rest /\ SemEq a (V false e) (D e)) \/
     (exists body a, toks e = TMinus :: body /\ PT (body ++ rest) a rest /\ SemEq a (negV (V false e)) (D e))) /\
  ((60 <= prec e)%Z -> recip e = false -> forall rest, okP rest ->
     exists a, PF (toks e ++ rest) a rest /\ SemEq a (V false e) (D e)) /\
  ((70 <= prec e)%Z -> forall rest, okA rest ->
     exists a, PA (toks e ++ rest) a rest /\ SemEq a (V false e) (D e)).
Proof. exact parse_print_level. Qed.

(* token level round trip *)
Theorem C12_parse_print : forall e, wf e = true ->
  exists a, parse_tokens (toks e) = Some a /\
            forall tab rho, defined rho e -> peval tab rho a = sem rho e.
Proof. exact parse_print. Qed.

(* the property: the printed STRING parses, and under either symbol table the parsed tree has the value of
   the expression at every point where the expression is defined *)
Theorem C12_print_roundtrip : forall e, fragment e = true ->
  exists a, parse_string (print_string e) = Some a /\
            forall tab rho, defined rho e -> peval tab rho a = sem rho e.
Proof. exact print_roundtrip. Qed.

Theorem C12_print_pure : forall e1 e2, e1 = e2 -> print_string e1 = print_string e2.
Proof. exact print_pure. Qed.

(* outside the fragment: an unevaluated Add directly inside an Add is mis-printed (sign of the inner first
   term is pulled out of the parentheses) *)
Theorem C12_nested_add_refuted :
  print_string nested_add_example = "x - (a0 + a1)"%string /\
  exists a, parse_string (print_string nested_add_example) = Some a /\
            defined nested_add_env nested_add_example /\
            peval GenTab nested_add_env a <> sem nested_add_env nested_add_example /\
            peval FitTab nested_add_env a <> sem nested_add_env nested_add_example.
Proof. exact nested_add_misprint. Qed.

Print Assumptions C12_lex_print.
Print Assumptions C12_parse_fuel_enough.
Print Assumptions C12_parse_print_level.
Print Assumptions C12_print_roundtrip.
Print Assumptions C12_nested_add_refuted.

(* non-vacuity *)
Example C12_sample_in_fragment : fragment sample_expr = true.
Proof. exact sample_in_fragment. Qed.
Example C12_sample_prints : print_string sample_expr = "-x/(2*(a0 + x)*pow(x,a0))"%string.
Proof. exact sample_prints. Qed.
Example C12_sample_defined : defined sample_env sample_expr.
Proof. exact sample_defined. Qed.
Example C12_sample_parses :
  parse_string "-x/(2*(a0 + x)*pow(x,a0))" =
  Some (PBin ODiv (PNeg (PName "x"))
          (PBin OMul (PBin OMul (PNum 2) (PBin OAdd (PName "a0") (PName "x"))) (PCall "pow" [PName "x"; PName "a0"]))).
Proof. vm_compute. reflexivity. Qed.
