(* C06 -- final ranking: minimum over variants, ascending order, normalised probabilities.
   Property theorems only: each is closed by [exact] of a lemma proved in Proofs/, with
   Print Assumptions beneath it.  Subject: Model/Combine.v [combine_main P U t] = what
   esr/fitting/combine_DL.py::main writes for the per-function table [t], [U] unique functions and
   [P] ranks: (rows of combine_DL_comp<n>.dat, rows of final_<n>.dat, exponents d_i of Prel).
   [variant t u j r]: line j of the table is r and its index column equals u. *)
From Coq Require Import ZArith List Reals Sorting.Permutation.
From ESRV Require Import Common.Py Common.XZ Model.Combine Proofs.CombineProofs Proofs.CombinePrelProofs.
Import ListNotations.
Open Scope Z_scope.

(* ---- domain: when does main produce a table at all ---- *)

(* main raises (None) exactly when the table has fewer than two lines or there are fewer than two
   unique functions (numpy reads a one-line file as a 1-D array); otherwise it returns, for every P *)
Theorem C06_crash_iff : forall (P : Z) (U : nat) (t : list vrow), 1 <= P ->
  (combine_main P U t = None <-> (length t < 2)%nat \/ (U < 2)%nat).
Proof. exact combine_main_none_iff. Qed.
Print Assumptions C06_crash_iff.

(* ... so the property fails on tables with >= 2 uniques and a single line (refutation witness) *)
Theorem C06_single_line_table_refuted :
  exists U t, (2 <= U)%nat /\ has_nonnan_variant t 0 /\ forall P, 1 <= P -> combine_main P U t = None.
Proof. exact crash_refuted. Qed.
Print Assumptions C06_single_line_table_refuted.

(* ---- rank split ---- *)

(* per-unique rows are computed independently per unique; the per-rank pieces joined in rank order
   are the rows of the one-rank run (uses get_functions_tiles of C14) *)
Theorem C06_per_unique_rows_any_ranks : forall (npar : nat) (t : list vrow) (U : nat) (P : Z), 1 <= P ->
  combined npar t U P = Some (map (per_unique npar t) (seq 0 U)).
Proof. exact combined_eq. Qed.
Print Assumptions C06_per_unique_rows_any_ranks.

Theorem C06_rank_independent : forall (P : Z) (U : nat) (t : list vrow), 1 <= P ->
  combine_main P U t = combine_main 1 U t.
Proof. exact combine_main_rank_independent. Qed.
Print Assumptions C06_rank_independent.

(* ---- the final table ---- *)

(* ranks are 0,1,2,... *)
Theorem C06_ranks_consecutive : forall P U t comb rows exps, 1 <= P ->
  combine_main P U t = Some (comb, rows, exps) ->
  map f_rank rows = seq 0 (length rows).
Proof. exact final_ranks. Qed.
Print Assumptions C06_ranks_consecutive.

(* a unique function appears exactly once iff it has a variant with a non-NaN description length
   (and not at all otherwise) *)
Theorem C06_appears_once : forall P U t comb rows exps, 1 <= P ->
  combine_main P U t = Some (comb, rows, exps) ->
  NoDup (map f_uniq rows) /\
  forall u, In u (map f_uniq rows) <->
            (u < U)%nat /\ exists j r, variant t u j r /\ isnan (dl_of r) = false.
Proof. exact final_appears_once. Qed.
Print Assumptions C06_appears_once.

Theorem C06_appears_once_count : forall P U t comb rows exps, 1 <= P ->
  combine_main P U t = Some (comb, rows, exps) ->
  forall u, count_occ Nat.eq_dec (map f_uniq rows) u = 1%nat <->
            (u < U)%nat /\ exists j r, variant t u j r /\ isnan (dl_of r) = false.
Proof. exact final_count_occ. Qed.
Print Assumptions C06_appears_once_count.

(* its description length is the minimum (w.r.t. xleb) over its non-NaN variants, and is attained *)
Theorem C06_row_is_min : forall P U t comb rows exps, 1 <= P ->
  combine_main P U t = Some (comb, rows, exps) ->
  forall row, In row rows ->
    isnan (f_dl row) = false /\
    (exists j r, variant t (f_uniq row) j r /\ dl_of r = f_dl row) /\
    (forall j r, variant t (f_uniq row) j r -> isnan (dl_of r) = false -> xle (f_dl row) (dl_of r)).
Proof. exact final_row_min. Qed.
Print Assumptions C06_row_is_min.

(* unless that minimum is +inf (so: finite or -inf), function, three terms and parameters are those
   of the FIRST variant attaining it, and the reported DL is the sum of the three reported terms *)
Theorem C06_row_first_attaining : forall P U t comb rows exps, 1 <= P ->
  combine_main P U t = Some (comb, rows, exps) ->
  forall row, In row rows -> f_dl row <> PInf ->
    exists j r, variant t (f_uniq row) j r /\ dl_of r = f_dl row /\
      (forall j' r', variant t (f_uniq row) j' r' -> dl_of r' = f_dl row -> (j <= j')%nat) /\
      f_fcn row = Some j /\ f_nll row = v_nll r /\ f_codelen row = v_codelen r /\
      f_aifeyn row = v_aifeyn r /\ f_params row = v_params r /\
      f_dl row = xadd (xadd (f_nll row) (f_codelen row)) (f_aifeyn row).
Proof. exact final_row_first. Qed.
Print Assumptions C06_row_first_attaining.

(* for a +inf minimum numpy's nanargmin (NaN replaced by +inf) picks the first variant of the unique,
   whose own description length may be NaN -- the reason for "when that is finite" in the property *)
Theorem C06_row_plus_inf_quirk : forall P U t comb rows exps, 1 <= P ->
  combine_main P U t = Some (comb, rows, exps) ->
  forall row, In row rows -> f_dl row = PInf ->
    exists j r, variant t (f_uniq row) j r /\ (dl_of r = PInf \/ dl_of r = NaN) /\
      (forall j' r', variant t (f_uniq row) j' r' -> (j <= j')%nat) /\
      f_fcn row = Some j /\ f_nll row = v_nll r /\ f_codelen row = v_codelen r /\
      f_aifeyn row = v_aifeyn r /\ f_params row = v_params r.
Proof. exact final_row_pinf. Qed.
Print Assumptions C06_row_plus_inf_quirk.

(* rows are in non-decreasing order of description length; equal description lengths keep
   unique-index order (stability) *)
Theorem C06_sorted_stable : forall P U t comb rows exps, 1 <= P ->
  combine_main P U t = Some (comb, rows, exps) ->
  forall i k, (i < k)%nat -> (k < length rows)%nat ->
    let a := nth i rows (mkF 0 None NaN NaN NaN NaN [] 0) in
    let b := nth k rows (mkF 0 None NaN NaN NaN NaN [] 0) in
    xle (f_dl a) (f_dl b) /\ (f_dl a = f_dl b -> (f_uniq a < f_uniq b)%nat).
Proof. exact final_sorted. Qed.
Print Assumptions C06_sorted_stable.

(* the (DL, unique) pairs of the table are a permutation of the non-NaN per-unique minima *)
Theorem C06_permutation : forall P U t comb rows exps, 1 <= P ->
  combine_main P U t = Some (comb, rows, exps) ->
  Permutation (map (fun r => (f_dl r, f_uniq r)) rows) (masked U comb) /\
  forall d u, In (d, u) (map (fun r => (f_dl r, f_uniq r)) rows) <->
              (u < U)%nat /\ d = u_dl (per_unique (npar_of t) t u) /\ isnan d = false.
Proof. exact final_permutation. Qed.
Print Assumptions C06_permutation.

(* the sort itself, on any list of (key, index) rows: a permutation, and stable -- rows with the same
   key keep their input order *)
Theorem C06_sort_permutation : forall l, Permutation (py_sorted l) l.
Proof. exact py_sorted_perm. Qed.
Theorem C06_sort_stable : forall k l,
  filter (fun p => xeqb (fst p) k) (py_sorted l) = filter (fun p => xeqb (fst p) k) l.
Proof. exact py_sorted_stable. Qed.
Print Assumptions C06_sort_stable.

(* ---- relative probabilities ---- *)

(* exponents: d_i = DL_i - DL_0, or +inf for a row whose likelihood equals (==) an earlier row's;
   row 0 is never suppressed *)
Theorem C06_prel_exponents : forall P U t comb rows exps, 1 <= P ->
  combine_main P U t = Some (comb, rows, exps) ->
  length exps = length rows /\
  forall i, (i < length rows)%nat ->
    nth i exps NaN =
      if existsb (xeqb (f_nll (nth i rows dummy_f))) (map f_nll (firstn i rows)) then PInf
      else xsub (f_dl (nth i rows dummy_f)) (f_dl (nth 0 rows dummy_f)).
Proof. exact main_exps_nth. Qed.
Print Assumptions C06_prel_exponents.

(* some description length finite and none -inf: the smallest, DL_0 = z0, is finite; every Prel is a
   number >= 0 equal to exp(-(DL_i - DL_0)) / S with S >= 1 (finite values z stand for z/s), 0 for a row
   repeating an earlier likelihood or with DL = +inf; Prel_0 = 1/S; the column sums to one *)
Theorem C06_prel_property : forall P U t comb rows exps (s : R), 1 <= P ->
  combine_main P U t = Some (comb, rows, exps) -> (0 < s)%R ->
  (exists r, In r rows /\ isfinite (f_dl r) = true) -> (forall r, In r rows -> f_dl r <> NInf) ->
  exists z0 S, f_dl (nth 0 rows dummy_f) = Fin z0 /\
    (forall r, In r rows -> xleb (Fin z0) (f_dl r) = true) /\
    (1 <= S)%R /\
    length (prel s exps) = length rows /\
    (forall i, (i < length rows)%nat ->
       nth i (prel s exps) PNaN =
         PVal (if existsb (xeqb (f_nll (nth i rows dummy_f))) (map f_nll (firstn i rows)) then 0%R else
               match f_dl (nth i rows dummy_f) with
               | Fin z => (exp (- (IZR z / s - IZR z0 / s)) / S)%R
               | _ => 0%R
               end)) /\
    (forall i, (i < length rows)%nat -> (0 <= prel_value rows s z0 S i)%R) /\
    prel_value rows s z0 S 0 = (1 / S)%R /\
    rsum (map pnum (prel s exps)) = 1%R.
Proof. exact prel_property. Qed.
Print Assumptions C06_prel_property.

(* same conclusion from "DL_0 is finite" alone *)
Theorem C06_prel_finite : forall P U t comb rows exps (s : R), 1 <= P ->
  combine_main P U t = Some (comb, rows, exps) -> (0 < s)%R ->
  forall z0, f_dl (nth 0 rows dummy_f) = Fin z0 ->
  exists S, (1 <= S)%R /\ length (prel s exps) = length rows /\
    (forall i, (i < length rows)%nat -> nth i (prel s exps) PNaN = PVal (prel_value rows s z0 S i)) /\
    (forall i, (i < length rows)%nat -> (0 <= prel_value rows s z0 S i)%R) /\
    prel_value rows s z0 S 0 = (1 / S)%R /\
    rsum (map pnum (prel s exps)) = 1%R.
Proof. exact prel_finite. Qed.
Print Assumptions C06_prel_finite.

(* DL_0 = +inf (then no description length is finite) or -inf: every Prel is NaN (0/0) *)
Theorem C06_prel_nonfinite : forall P U t comb rows exps (s : R), 1 <= P ->
  combine_main P U t = Some (comb, rows, exps) ->
  isfinite (f_dl (nth 0 rows dummy_f)) = false ->
  forall p, In p (prel s exps) -> p = PNaN.
Proof. exact prel_nonfinite. Qed.
Print Assumptions C06_prel_nonfinite.

(* hence the property as given fails when the smallest description length is -inf: a table with a
   finite description length whose Prel column is all NaN *)
Theorem C06_prel_neg_inf_refuted :
  exists comb rows exps,
    combine_main 1 3 neg_inf_table = Some (comb, rows, exps) /\
    (exists r, In r rows /\ isfinite (f_dl r) = true) /\
    forall s, (0 < s)%R -> forall p, In p (prel s exps) -> p = PNaN.
Proof. exact prel_neg_inf_refuted. Qed.
Print Assumptions C06_prel_neg_inf_refuted.

(* ---- non-vacuity: a table with a NaN variant, an exact tie (between uniques 0 and 1 and between the
   two variants of unique 1), a repeated likelihood (unique 2 repeats unique 0's), a +inf description
   length (unique 3), a unique without variants (4) and an all-NaN unique (5), under 3 ranks ---- *)
Example C06_ex_table : combine_main 3 6 ex_table = Some (
  [ mkU (Fin 8) [Fin 10; Fin 0] (Some 0%nat) (Fin 5) (Fin 2) (Fin 1);
    mkU (Fin 8) [Fin 12; Fin 1] (Some 2%nat) (Fin 4) (Fin 3) (Fin 1);
    mkU (Fin 10) [Fin 14; Fin 2] (Some 4%nat) (Fin 5) (Fin 4) (Fin 1);
    mkU PInf [Fin 15; Fin 3] (Some 5%nat) PInf (Fin 1) (Fin 1);
    mkU NaN [Fin 0; Fin 0] None (Fin 0) (Fin 0) (Fin 0);
    mkU NaN [Fin 0; Fin 0] None (Fin 0) (Fin 0) (Fin 0) ],
  [ mkF 0 (Some 0%nat) (Fin 8) (Fin 5) (Fin 2) (Fin 1) [Fin 10; Fin 0] 0;
    mkF 1 (Some 2%nat) (Fin 8) (Fin 4) (Fin 3) (Fin 1) [Fin 12; Fin 1] 1;
    mkF 2 (Some 4%nat) (Fin 10) (Fin 5) (Fin 4) (Fin 1) [Fin 14; Fin 2] 2;
    mkF 3 (Some 5%nat) PInf PInf (Fin 1) (Fin 1) [Fin 15; Fin 3] 3 ],
  [Fin 0; Fin 0; PInf; PInf]).
Proof. vm_compute. reflexivity. Qed.
Example C06_ex_prel : prel 1 [Fin 0; Fin 0; PInf; PInf] = [PVal (1/2); PVal (1/2); PVal 0; PVal 0].
Proof. exact ex_prel. Qed.
(* the nanargmin quirk: unique 0 has DL = [NaN; +inf]; its row reports the NaN variant (j = 0) *)
Example C06_ex_quirk :
  option_map (fun x => snd (fst x))
    (combine_main 1 2 [mkV NaN (Fin 2) (Fin 0) (Fin 3) []; mkV PInf (Fin 2) (Fin 0) (Fin 3) []; mkV (Fin 0) (Fin 2) (Fin 1) (Fin 3) []])
  = Some [ mkF 0 (Some 2%nat) (Fin 5) (Fin 0) (Fin 2) (Fin 3) [] 1; mkF 1 (Some 0%nat) PInf NaN (Fin 2) (Fin 3) [] 0 ].
Proof. vm_compute. reflexivity. Qed.
