(* C14 -- work partitioning tiles the function list.
   Property theorems only: each is closed by [exact] of a lemma proved in
   Proofs/, with Print Assumptions beneath it.  The subject of the theorems,
   Gen/GenPartition.v, is regenerated from /repo on every run. *)
From Coq Require Import ZArith List.
From ESRV Require Import Common.Py Common.Tiling Gen.GenPartition Proofs.PartitionProofs Proofs.FsRaceProofs Model.FsRace.
Import ListNotations.
Open Scope Z_scope.

(* utils.split_idx (scalar branch): for every N >= 0 and P >= 1 every rank gets an
   answer, and the index ranges of ranks 0..P-1, concatenated in rank order,
   are exactly 0..N-1 (contiguous, ordered, disjoint, covering; P > N and N = 0 included). *)
Theorem C14_split_idx_tiles : forall N P : Z,
  0 <= N -> 1 <= P ->
  (forall r, 0 <= r < P -> split_idx N r P <> None) /\
  concat (map (fun r => si_range (split_idx N (Z.of_nat r) P)) (seq 0 (Z.to_nat P))) = zrange N.
Proof. exact split_idx_tiles. Qed.
Print Assumptions C14_split_idx_tiles.

(* test_all.get_functions: for every function list l, every P >= 1 and every
   table m with one row per function, slicing m with each rank's
   (data_start, data_end) and concatenating in rank order gives m back. *)
Theorem C14_get_functions_tiles : forall (A B : Type) (l : list A) (m : list B) (P : Z),
  1 <= P -> length m = length l ->
  (forall r, 0 <= r < P -> get_functions_slice l r P <> None) /\
  concat (map (fun r => match get_functions_slice l (Z.of_nat r) P with
                        | Some (_, ds, de) => py_slice m ds de
                        | None => [] end) (seq 0 (Z.to_nat P))) = m.
Proof. exact @get_functions_tiles. Qed.
Print Assumptions C14_get_functions_tiles.

(* test_all.get_functions: the (data_start, data_end) pairs handed to the ranks form one chain
   0 = start_0 <= end_0 = start_1 <= ... <= end_{P-1} = len(fcn_list): no gap, no overlap, nothing out of range. *)
Theorem C14_get_functions_chain : forall (A : Type) (l : list A) (P : Z),
  1 <= P ->
  gf_start l 0 P = 0 /\ gf_end l (P - 1) P = py_len l /\
  (forall r, 0 <= r < P - 1 -> gf_end l r P = gf_start l (r + 1) P) /\
  (forall r, 0 <= r < P -> 0 <= gf_start l r P <= gf_end l r P /\ gf_end l r P <= py_len l).
Proof. exact @get_functions_chain. Qed.
Print Assumptions C14_get_functions_chain.

(* utils.split_idx, pointwise form of the tiling: every index 0 <= i < N is in the range of
   exactly one rank. *)
Theorem C14_split_idx_unique_owner : forall N P i : Z,
  0 <= N -> 1 <= P -> 0 <= i < N ->
  exists r, 0 <= r < P /\ In i (si_range (split_idx N r P)) /\
    forall s, 0 <= s < P -> In i (si_range (split_idx N s P)) -> s = r.
Proof. exact split_idx_unique_owner. Qed.
Print Assumptions C14_split_idx_unique_owner.

(* non-vacuity: concrete instances, including P > N *)
Example C14_ex1 : map (fun r => split_idx 7 r 3) [0;1;2] = [Some [0;2]; Some [3;4]; Some [5;6]].
Proof. vm_compute. reflexivity. Qed.
Example C14_ex2 : map (fun r => split_idx 2 r 4) [0;1;2;3] = [Some [0;0]; Some [1;1]; Some []; Some []].
Proof. vm_compute. reflexivity. Qed.
Example C14_ex3 : map (fun r => get_functions_slice [10;11;12;13;14;15;16] r 3) [0;1;2]
  = [Some ([10;11;12],0,3); Some ([13;14;15],3,6); Some ([16],6,7)].
Proof. vm_compute. reflexivity. Qed.
Example C14_ex4 : map (fun r => get_functions_slice [10;11] r 5) [0;1;2;3;4]
  = [Some ([],0,0); Some ([],0,0); Some ([],0,0); Some ([],0,0); Some ([10;11],0,2)].
Proof. vm_compute. reflexivity. Qed.

(* directory creation: rank 0 then barrier (get_functions) is safe under every
   schedule; the constructor's unguarded isdir/mkdir on every rank is not. *)
Theorem C14_get_functions_dirs_safe : forall (P : nat) (fs : list nat) (dirs : list nat) (sched : list nat),
  (1 <= P)%nat -> no_error (run_sched (gf_programs P dirs) fs sched).
Proof. exact gf_dirs_safe. Qed.
Print Assumptions C14_get_functions_dirs_safe.

Theorem C14_ctor_guarded_safe : forall (P : nat) (fs : list nat) (d : nat) (sched : list nat),
  no_error (run_sched (ctor_programs_fixed P d) fs sched).
Proof. exact ctor_fixed_safe. Qed.
Print Assumptions C14_ctor_guarded_safe.

Theorem C14_ctor_race_refuted : exists (sched : list nat),
  ~ no_error (run_sched (ctor_programs_racy 2 0) [] sched).
Proof. exact ctor_racy_refuted. Qed.
Print Assumptions C14_ctor_race_refuted.
