(* C09 -- likelihood classes compute the documented negative log-likelihood, never NaN.
   Property theorems only: each is closed by [exact] of a lemma proved in Proofs/LikelihoodProofs.v.
   The subject, Gen/GenLikelihood.v, is regenerated from /repo/esr/fitting/likelihood.py on every run.

   Reading guide.  [X_negloglike RNum A xvar yvar ... a eqn] is the translated method body over the reals;
   [eqn xvar a] is the value of the model function on the data abscissae: [NA l] a vector, [NS p] a scalar
   (broadcast by numpy against the data), [NErr] "it raised".  [fin r] is a finite real, [PInf]/[NInf]/[NaN]
   the IEEE specials, [Cplx] an entry with non-zero imaginary part.  [Ret (NS x)] = the method returned the
   scalar x; [Raise] = it left with an exception. *)
From Coq Require Import Reals QArith List Lra.
From ESRV Require Import Model.XR Gen.GenLikelihood Proofs.LikelihoodProofs.
Import ListNotations.
Open Scope R_scope.

(* ---------------------------------------------------------------- documented values on finite predictions *)
(* Gauss: sum[(y-f)^2/(2 sigma^2) + ln(2 pi)/2 + ln sigma] *)
Theorem C09_gauss_formula : forall (A : Type) (a : A) (eqn : nv RNum -> A -> nv RNum) (xvar : nv RNum) (ys ss fs : list R),
  length ss = length ys -> length fs = length ys -> (forall s, In s ss -> 0 < s) ->
  eqn xvar a = NA (map fin fs) ->
  GaussLikelihood_negloglike RNum A xvar (NA (map fin ys)) (NA (map fin ss)) a eqn
  = Ret (NS (fin (sum3 gauss_term ys ss fs))).
Proof. exact gauss_formula. Qed.
Print Assumptions C09_gauss_formula.

Theorem C09_gauss_formula_scalar : forall (A : Type) (a : A) (eqn : nv RNum -> A -> nv RNum) (xvar : nv RNum) (ys ss : list R) (c : R),
  length ss = length ys -> (forall s, In s ss -> 0 < s) ->
  eqn xvar a = NS (fin c) ->
  GaussLikelihood_negloglike RNum A xvar (NA (map fin ys)) (NA (map fin ss)) a eqn
  = Ret (NS (fin (sum3 gauss_term ys ss (map (fun _ => c) ys)))).
Proof. exact gauss_formula_scalar. Qed.

(* Poisson: sum[f - y ln f], f > 0 *)
Theorem C09_poisson_formula : forall (A : Type) (a : A) (eqn : nv RNum -> A -> nv RNum) (xvar : nv RNum) (ys fs : list R),
  length fs = length ys -> (forall f, In f fs -> 0 < f) ->
  eqn xvar a = NA (map fin fs) ->
  PoissonLikelihood_negloglike RNum A xvar (NA (map fin ys)) a eqn
  = Ret (NS (fin (sum2 poisson_term ys fs))).
Proof. exact poisson_formula. Qed.
Print Assumptions C09_poisson_formula.

Theorem C09_poisson_formula_scalar : forall (A : Type) (a : A) (eqn : nv RNum -> A -> nv RNum) (xvar : nv RNum) (ys : list R) (c : R),
  0 < c -> eqn xvar a = NS (fin c) ->
  PoissonLikelihood_negloglike RNum A xvar (NA (map fin ys)) a eqn
  = Ret (NS (fin (sum2 poisson_term ys (map (fun _ => c) ys)))).
Proof. exact poisson_formula_scalar. Qed.

(* CC / Mock: sum[(sqrt f - y)^2/(2 sigma^2)], f >= 0, with inv_cov = 1/sigma^2 as set by the constructor *)
Theorem C09_cc_formula : forall (A : Type) (a : A) (eqn : nv RNum -> A -> nv RNum) (xvar : nv RNum) (ys ss fs : list R),
  length ss = length ys -> length fs = length ys -> (forall s, In s ss -> 0 < s) -> (forall f, In f fs -> 0 <= f) ->
  eqn xvar a = NA (map fin fs) ->
  CCLikelihood_negloglike RNum A xvar (NA (map fin ys)) (CCLikelihood_inv_cov RNum (NA (map fin ss))) a eqn
  = Ret (NS (fin (sum3 cc_term ys ss fs))).
Proof. exact cc_formula. Qed.
Print Assumptions C09_cc_formula.

Theorem C09_cc_formula_scalar : forall (A : Type) (a : A) (eqn : nv RNum -> A -> nv RNum) (xvar : nv RNum) (ys ss : list R) (c : R),
  length ss = length ys -> (forall s, In s ss -> 0 < s) -> 0 <= c ->
  eqn xvar a = NS (fin c) ->
  CCLikelihood_negloglike RNum A xvar (NA (map fin ys)) (CCLikelihood_inv_cov RNum (NA (map fin ss))) a eqn
  = Ret (NS (fin (sum3 cc_term ys ss (map (fun _ => c) ys)))).
Proof. exact cc_formula_scalar. Qed.

Theorem C09_mock_formula : forall (A : Type) (a : A) (eqn : nv RNum -> A -> nv RNum) (xvar : nv RNum) (ys ss fs : list R),
  length ss = length ys -> length fs = length ys -> (forall s, In s ss -> 0 < s) -> (forall f, In f fs -> 0 <= f) ->
  eqn xvar a = NA (map fin fs) ->
  MockLikelihood_negloglike RNum A xvar (NA (map fin ys)) (MockLikelihood_inv_cov RNum (NA (map fin ss))) a eqn
  = Ret (NS (fin (sum3 cc_term ys ss fs))).
Proof. exact mock_formula. Qed.
Print Assumptions C09_mock_formula.

Theorem C09_mock_formula_scalar : forall (A : Type) (a : A) (eqn : nv RNum -> A -> nv RNum) (xvar : nv RNum) (ys ss : list R) (c : R),
  length ss = length ys -> (forall s, In s ss -> 0 < s) -> 0 <= c ->
  eqn xvar a = NS (fin c) ->
  MockLikelihood_negloglike RNum A xvar (NA (map fin ys)) (MockLikelihood_inv_cov RNum (NA (map fin ss))) a eqn
  = Ret (NS (fin (sum3 cc_term ys ss (map (fun _ => c) ys)))).
Proof. exact mock_formula_scalar. Qed.

(* MSE: mean[(y-f)^2] *)
Theorem C09_mse_formula : forall (A : Type) (a : A) (eqn : nv RNum -> A -> nv RNum) (xvar : nv RNum) (ys fs : list R),
  length fs = length ys -> ys <> [] ->
  eqn xvar a = NA (map fin fs) ->
  MSE_negloglike RNum A xvar (NA (map fin ys)) a eqn
  = Ret (NS (fin (sum2 mse_term ys fs / INR (length ys)))).
Proof. exact mse_formula. Qed.
Print Assumptions C09_mse_formula.

Theorem C09_mse_formula_scalar : forall (A : Type) (a : A) (eqn : nv RNum -> A -> nv RNum) (xvar : nv RNum) (ys : list R) (c : R),
  ys <> [] ->
  eqn xvar a = NS (fin c) ->
  MSE_negloglike RNum A xvar (NA (map fin ys)) a eqn
  = Ret (NS (fin (sum2 mse_term ys (map (fun _ => c) ys) / INR (length ys)))).
Proof. exact mse_formula_scalar. Qed.

(* ---------------------------------------------------------------- special predictions give +inf *)
(* [special p] : p is +inf, -inf, NaN or complex.  Any vector with at least one such entry, in any position. *)
Theorem C09_never_nan_gauss : forall (A : Type) (a : A) (eqn : nv RNum -> A -> nv RNum) (xvar : nv RNum) (ys ss : list R) (l : list (XR RNum)),
  length ss = length ys -> length l = length ys -> (forall s, In s ss -> 0 < s) ->
  eqn xvar a = NA l -> Exists special l ->
  GaussLikelihood_negloglike RNum A xvar (NA (map fin ys)) (NA (map fin ss)) a eqn = Ret (NS PInf).
Proof. exact never_nan_gauss. Qed.
Print Assumptions C09_never_nan_gauss.

Theorem C09_never_nan_gauss_scalar : forall (A : Type) (a : A) (eqn : nv RNum -> A -> nv RNum) (xvar : nv RNum) (ys ss : list R) (p : XR RNum),
  length ss = length ys -> ys <> [] -> (forall s, In s ss -> 0 < s) ->
  eqn xvar a = NS p -> special p ->
  GaussLikelihood_negloglike RNum A xvar (NA (map fin ys)) (NA (map fin ss)) a eqn = Ret (NS PInf).
Proof. exact never_nan_gauss_scalar. Qed.

Theorem C09_gauss_exception : forall (A : Type) (a : A) (eqn : nv RNum -> A -> nv RNum) (xvar : nv RNum) (ys ss : list R),
  length ss = length ys -> ys <> [] -> (forall s, In s ss -> 0 < s) ->
  eqn xvar a = NErr ->
  GaussLikelihood_negloglike RNum A xvar (NA (map fin ys)) (NA (map fin ss)) a eqn = Ret (NS PInf).
Proof. exact gauss_exception. Qed.

(* Poisson: anything that is not a finite positive real (so also 0, negative values, +inf: inf - y ln inf) *)
Theorem C09_never_nan_poisson : forall (A : Type) (a : A) (eqn : nv RNum -> A -> nv RNum) (xvar : nv RNum) (ys : list R) (l : list (XR RNum)),
  length l = length ys ->
  eqn xvar a = NA l -> Exists (fun p => ~ posfin p) l ->
  PoissonLikelihood_negloglike RNum A xvar (NA (map fin ys)) a eqn = Ret (NS PInf).
Proof. exact never_nan_poisson. Qed.
Print Assumptions C09_never_nan_poisson.

Theorem C09_never_nan_poisson_scalar : forall (A : Type) (a : A) (eqn : nv RNum -> A -> nv RNum) (xvar : nv RNum) (ys : list R) (p : XR RNum),
  ys <> [] -> eqn xvar a = NS p -> ~ posfin p ->
  PoissonLikelihood_negloglike RNum A xvar (NA (map fin ys)) a eqn = Ret (NS PInf).
Proof. exact never_nan_poisson_scalar. Qed.

Theorem C09_poisson_exception : forall (A : Type) (a : A) (eqn : nv RNum -> A -> nv RNum) (xvar : nv RNum) (ys : list R),
  ys <> [] -> eqn xvar a = NErr ->
  PoissonLikelihood_negloglike RNum A xvar (NA (map fin ys)) a eqn = Ret (NS PInf).
Proof. exact poisson_exception. Qed.

(* CC / Mock: anything that is not a finite non-negative real (negative -> np.sqrt gives NaN -> isnan test) *)
Theorem C09_never_nan_cc : forall (A : Type) (a : A) (eqn : nv RNum -> A -> nv RNum) (xvar : nv RNum) (ys ss : list R) (l : list (XR RNum)),
  length ss = length ys -> length l = length ys -> (forall s, In s ss -> 0 < s) ->
  eqn xvar a = NA l -> Exists (fun p => ~ nonnegfin p) l ->
  CCLikelihood_negloglike RNum A xvar (NA (map fin ys)) (CCLikelihood_inv_cov RNum (NA (map fin ss))) a eqn = Ret (NS PInf).
Proof. exact never_nan_cc. Qed.
Print Assumptions C09_never_nan_cc.

Theorem C09_never_nan_cc_scalar : forall (A : Type) (a : A) (eqn : nv RNum -> A -> nv RNum) (xvar : nv RNum) (ys ss : list R) (p : XR RNum),
  length ss = length ys -> ys <> [] -> (forall s, In s ss -> 0 < s) ->
  eqn xvar a = NS p -> ~ nonnegfin p ->
  CCLikelihood_negloglike RNum A xvar (NA (map fin ys)) (CCLikelihood_inv_cov RNum (NA (map fin ss))) a eqn = Ret (NS PInf).
Proof. exact never_nan_cc_scalar. Qed.

Theorem C09_never_nan_mock : forall (A : Type) (a : A) (eqn : nv RNum -> A -> nv RNum) (xvar : nv RNum) (ys ss : list R) (l : list (XR RNum)),
  length ss = length ys -> length l = length ys -> (forall s, In s ss -> 0 < s) ->
  eqn xvar a = NA l -> Exists (fun p => ~ nonnegfin p) l ->
  MockLikelihood_negloglike RNum A xvar (NA (map fin ys)) (MockLikelihood_inv_cov RNum (NA (map fin ss))) a eqn = Ret (NS PInf).
Proof. exact never_nan_mock. Qed.
Print Assumptions C09_never_nan_mock.

Theorem C09_never_nan_mock_scalar : forall (A : Type) (a : A) (eqn : nv RNum -> A -> nv RNum) (xvar : nv RNum) (ys ss : list R) (p : XR RNum),
  length ss = length ys -> ys <> [] -> (forall s, In s ss -> 0 < s) ->
  eqn xvar a = NS p -> ~ nonnegfin p ->
  MockLikelihood_negloglike RNum A xvar (NA (map fin ys)) (MockLikelihood_inv_cov RNum (NA (map fin ss))) a eqn = Ret (NS PInf).
Proof. exact never_nan_mock_scalar. Qed.

(* CC and Mock override get_pred WITHOUT the try/except of the base class: an exception in the model
   function is not turned into +inf, it leaves negloglike (for any data). *)
Theorem C09_cc_exception_propagates : forall (A : Type) (a : A) (eqn : nv RNum -> A -> nv RNum) (xvar yvar inv_cov : nv RNum),
  eqn xvar a = NErr ->
  CCLikelihood_negloglike RNum A xvar yvar inv_cov a eqn = Raise.
Proof. exact cc_exception_propagates. Qed.
Theorem C09_mock_exception_propagates : forall (A : Type) (a : A) (eqn : nv RNum -> A -> nv RNum) (xvar yvar inv_cov : nv RNum),
  eqn xvar a = NErr ->
  MockLikelihood_negloglike RNum A xvar yvar inv_cov a eqn = Raise.
Proof. exact mock_exception_propagates. Qed.

Theorem C09_never_nan_mse : forall (A : Type) (a : A) (eqn : nv RNum -> A -> nv RNum) (xvar : nv RNum) (ys : list R) (l : list (XR RNum)),
  length l = length ys ->
  eqn xvar a = NA l -> Exists special l ->
  MSE_negloglike RNum A xvar (NA (map fin ys)) a eqn = Ret (NS PInf).
Proof. exact never_nan_mse. Qed.
Print Assumptions C09_never_nan_mse.

Theorem C09_never_nan_mse_scalar : forall (A : Type) (a : A) (eqn : nv RNum -> A -> nv RNum) (xvar : nv RNum) (ys : list R) (p : XR RNum),
  ys <> [] -> eqn xvar a = NS p -> special p ->
  MSE_negloglike RNum A xvar (NA (map fin ys)) a eqn = Ret (NS PInf).
Proof. exact never_nan_mse_scalar. Qed.

Theorem C09_mse_exception : forall (A : Type) (a : A) (eqn : nv RNum -> A -> nv RNum) (xvar : nv RNum) (ys : list R),
  ys <> [] -> eqn xvar a = NErr ->
  MSE_negloglike RNum A xvar (NA (map fin ys)) a eqn = Ret (NS PInf).
Proof. exact mse_exception. Qed.

(* np.mean over no data points is NaN; the isnan test turns it into +inf *)
Theorem C09_mse_empty : forall (A : Type) (a : A) (eqn : nv RNum -> A -> nv RNum) (xvar : nv RNum),
  eqn xvar a = NA [] ->
  MSE_negloglike RNum A xvar (NA []) a eqn = Ret (NS PInf).
Proof. exact mse_empty. Qed.

(* ---------------------------------------------------------------- never NaN, with no hypothesis at all *)
(* For EVERY number structure, every data value (special values, wrong lengths, scalars, errors included) and every
   model function: the call raises or returns a scalar that is not NaN. *)
Theorem C09_gauss_no_nan : forall (N : Num) (A : Type) xvar yvar yerr (a : A) eqn,
  not_nan_result (GaussLikelihood_negloglike N A xvar yvar yerr a eqn).
Proof. exact gauss_no_nan. Qed.
Print Assumptions C09_gauss_no_nan.
Theorem C09_poisson_no_nan : forall (N : Num) (A : Type) xvar yvar (a : A) eqn,
  not_nan_result (PoissonLikelihood_negloglike N A xvar yvar a eqn).
Proof. exact poisson_no_nan. Qed.
Theorem C09_cc_no_nan : forall (N : Num) (A : Type) xvar yvar ic (a : A) eqn,
  not_nan_result (CCLikelihood_negloglike N A xvar yvar ic a eqn).
Proof. exact cc_no_nan. Qed.
Theorem C09_mock_no_nan : forall (N : Num) (A : Type) xvar yvar ic (a : A) eqn,
  not_nan_result (MockLikelihood_negloglike N A xvar yvar ic a eqn).
Proof. exact mock_no_nan. Qed.
Theorem C09_mse_no_nan : forall (N : Num) (A : Type) xvar yvar (a : A) eqn,
  not_nan_result (MSE_negloglike N A xvar yvar a eqn).
Proof. exact mse_no_nan. Qed.

(* ---------------------------------------------------------------- non-vacuity *)
(* the hypotheses of the formula / never-NaN theorems are satisfiable: instances over R *)
Example C09_ex_gauss_R :
  GaussLikelihood_negloglike RNum unit (NA [fin 0; fin 1]) (NA (map fin [1; 2])) (NA (map fin [1; 3])) tt
    (fun _ _ => NA (map fin [2; 5]))
  = Ret (NS (fin (sum3 gauss_term [1; 2] [1; 3] [2; 5]))).
Proof. apply C09_gauss_formula; try reflexivity. simpl. intros s [H|[H|[]]]; lra. Qed.
Example C09_ex_poisson_inf_R :
  PoissonLikelihood_negloglike RNum unit (NA [fin 0; fin 1]) (NA (map fin [1; 2])) tt
    (fun _ _ => NA [fin 3; PInf]) = Ret (NS PInf).
Proof.
  apply C09_never_nan_poisson with (l := [fin 3; PInf]); try reflexivity.
  apply Exists_cons_tl. apply Exists_cons_hd. simpl. tauto.
Qed.
Example C09_ex_cc_negative_R :
  CCLikelihood_negloglike RNum unit (NA [fin 0; fin 1]) (NA (map fin [1; 2]))
    (CCLikelihood_inv_cov RNum (NA (map fin [1; 3]))) tt (fun _ _ => NA [fin (-4); fin 1]) = Ret (NS PInf).
Proof.
  apply C09_never_nan_cc with (l := [fin (-4); fin 1]); try reflexivity.
  - simpl. intros s [H|[H|[]]]; lra.
  - apply Exists_cons_hd. simpl. lra.
Qed.

(* the executable twin (exact rationals), evaluated; [qshow] maps the result into a type that does not mention QNum *)
Example C09_ex_mse_Q :
  qshow (MSE_negloglike QNum unit (NA [qf 0; qf 1]) (NA [qf 1; qf 2]) tt (fun _ _ => NA [qf 2; qf 5])) = QFin 5.
Proof. vm_compute. reflexivity. Qed.
Example C09_ex_cc_Q :    (* sqrt 4 = 2, sqrt 9 = 3:  (2-1)^2/2 + (3-2)^2/(2*9) = 5/9 *)
  qshow (CCLikelihood_negloglike QNum unit (NA [qf 0; qf 1]) (NA [qf 1; qf 2]) (CCLikelihood_inv_cov QNum (NA [qf 1; qf 3])) tt
    (fun _ _ => NA [qf 4; qf 9])) = QFin (5 # 9).
Proof. vm_compute. reflexivity. Qed.
Example C09_ex_specials_Q :
  map (fun p => qshow (GaussLikelihood_negloglike QNum unit (NA [qf 0; qf 1]) (NA [qf 1; qf 2]) (NA [qf 1; qf 3]) tt
                  (fun _ _ => NA [qf 2; p]))) [NaN; PInf; NInf; Cplx]
  = [QPInf; QPInf; QPInf; QPInf].
Proof. vm_compute. reflexivity. Qed.
Example C09_ex_broadcast_error_Q :   (* a prediction of the wrong length: numpy raises ValueError *)
  qshow (MSE_negloglike QNum unit (NA [qf 0; qf 1; qf 2]) (NA [qf 1; qf 2; qf 3]) tt (fun _ _ => NA [qf 2; qf 5])) = QRaise.
Proof. vm_compute. reflexivity. Qed.
Example C09_ex_cc_raise_Q :
  qshow (CCLikelihood_negloglike QNum unit (NA [qf 0]) (NA [qf 1]) (NA [qf 1]) tt (fun _ _ => NErr)) = QRaise.
Proof. vm_compute. reflexivity. Qed.
