(* C04 -- exhaustive search is never beaten by a function it enumerated (table level).
   Proved on the C06 model of combine_DL: the top row's description length is no larger than the
   description length the pipeline assigned to ANY variant (any tree of the library); every row is
   the sum of its three terms; and, under the contract that the table's entry for each tree is no
   larger than an independently computed description length (delivered by the optimiser / Hessian
   oracles and the parameter-transfer theorem C05), the top row beats every tree. *)
From Coq Require Import ZArith List.
From ESRV Require Import Common.Py Common.XZ Model.Combine Proofs.CombineProofs Proofs.PipelineProofs.
Import ListNotations.
Open Scope Z_scope.

Theorem C04_top_le_every_variant : forall (P : Z) (U : nat) (t : list vrow) comb rows exps,
  1 <= P -> combine_main P U t = Some (comb, rows, exps) ->
  forall u j r, (u < U)%nat -> variant t u j r -> isnan (dl_of r) = false ->
    xle (f_dl (nth 0 rows frow0)) (dl_of r).
Proof. exact top_le_every_variant. Qed.
Print Assumptions C04_top_le_every_variant.

Theorem C04_optimal_under_contract : forall (P : Z) (U : nat) (t : list vrow) comb rows exps (DLstar : nat -> xz),
  1 <= P -> combine_main P U t = Some (comb, rows, exps) ->
  (forall u j r, (u < U)%nat -> variant t u j r -> isnan (dl_of r) = false /\ xle (dl_of r) (DLstar j)) ->
  forall u j r, (u < U)%nat -> variant t u j r -> xle (f_dl (nth 0 rows frow0)) (DLstar j).
Proof. exact optimal_under_contract. Qed.
Print Assumptions C04_optimal_under_contract.

Theorem C04_row_is_sum : forall (P : Z) (U : nat) (t : list vrow) comb rows exps,
  1 <= P -> combine_main P U t = Some (comb, rows, exps) ->
  forall row, In row rows -> f_dl row <> PInf ->
    f_dl row = xadd (xadd (f_nll row) (f_codelen row)) (f_aifeyn row).
Proof. exact row_is_sum. Qed.
Print Assumptions C04_row_is_sum.

(* non-vacuity: 3 uniques, 5 variants (a NaN variant, a tie, a +inf) *)
Definition ex_t : list vrow :=
  [ mkV (Fin 10) (Fin 2) (Fin 0) (Fin 3) [Fin 1];
    mkV (Fin 9)  (Fin 2) (Fin 1) (Fin 3) [Fin 2];
    mkV (Fin 9)  NaN     (Fin 1) (Fin 3) [Fin 0];
    mkV (Fin 7)  (Fin 4) (Fin 2) (Fin 3) [Fin 5];
    mkV (Fin 8)  PInf    (Fin 0) (Fin 3) [Fin 4] ].
Example C04_ex : match combine_main 1 3 ex_t with
                 | Some (_, rows, _) => map (fun r => (f_dl r, f_uniq r)) rows = [(Fin 14, 1%nat); (Fin 14, 2%nat); (Fin 15, 0%nat)]
                 | None => False end.
Proof. vm_compute. reflexivity. Qed.
