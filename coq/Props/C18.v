(* C18 -- converting a formula string to a tree preserves the function.
   Property theorems only: each is closed by [exact] of a lemma of Proofs/ToListProofs.v, with Print Assumptions.
   Subject: Model/ToList.v (decorate = DecoratedNode.__init__, to_list, string_to_node's choice, final_labels =
   the relabelling / `replace floats` code of fit_from_string and string_to_aifeyn), tied to /repo on every run by
   the correspondence check.  sympy's four parses are an oracle: a parse is given as its structural dump. *)
From Coq Require Import String List Bool Arith ZArith QArith Reals.
From ESRV Require Import Model.ToList Proofs.ToListProofs.
Import ListNotations.
Open Scope string_scope.

(* DecoratedNode(expr) and to_list never raise on the fragment (Add/Mul of >= 2 arguments, Pow, the one-argument
   classes), unless the tree contains Pow(..)*(-1) or Pow(..)/(-1) in that argument order. *)
Theorem C18_to_list_total : forall b e,
  supportedb e = true ->
  exists d, decorate b e = Some d /\ (no_bad b d = true -> exists l, to_list b None d = Some l).
Proof. exact to_list_total. Qed.
Print Assumptions C18_to_list_total.

(* The returned labels, relabelled as fit_from_string does, are the prefix code of a tree whose node count is the
   reported complexity -- for every basis, every expression of the fragment outside the two defective branches. *)
Theorem C18_to_list_wellformed : forall b e d l,
  supportedb e = true -> decorate b e = Some d -> no_bad b d = true -> to_list b None d = Some l ->
  exists t, of_prefix (relabel l) = Some t /\ tsize t = length l /\ count_nodes b d = Some (length l).
Proof. exact to_list_wellformed. Qed.
Print Assumptions C18_to_list_wellformed.

(* ... REFUTED without the side condition: x**a0*(-1) in the order sympy's unevaluated parse gives (core_maths)
   returns ['Mul', '-1'], complexity 2, which is not a tree. *)
Theorem C18_to_list_wellformed_refuted :
  exists b e d l, supportedb e = true /\ exactb e = true /\ decorate b e = Some d /\ to_list b None d = Some l
    /\ map show_label l = ["Mul"; "-1"]
    /\ of_prefix (relabel l) = None
    /\ count_nodes b d = Some 2%nat.
Proof. exact to_list_wellformed_refuted. Qed.
Print Assumptions C18_to_list_wellformed_refuted.

(* That tree evaluates (ESR's reading: pow, sqrt, log through absolute values) to the value of the sympy expression,
   wherever all power bases (other than under a literal exponent -1 when inv is a basis operator) and all log
   arguments are positive; constants are the printed ones (exactb: the printed text denotes the value). *)
Theorem C18_to_list_sound : forall b e d l,
  supportedb e = true -> exactb e = true -> decorate b e = Some d -> no_bad b d = true -> to_list b None d = Some l ->
  exists t, of_prefix (relabel l) = Some t /\ forall env x, pos b env x e -> evalT env x t = sem env x e.
Proof. exact to_list_sound. Qed.
Print Assumptions C18_to_list_sound.

(* labels are basis labels -- EXPECTED REFUTED (F5): *)
Theorem C18_labels_in_basis_refuted :
  exists b e d l, supportedb e = true /\ over_basisb b e = true /\ std_binary b = true
    /\ decorate b e = Some d /\ no_bad b d = true /\ to_list b None d = Some l
    /\ map show_rlabel (relabel l) = ["sqrt"; "x"]
    /\ forallb (in_basisb b) (relabel l) = false
    /\ final_labels b false l = None.
Proof. exact labels_in_basis_refuted. Qed.
Print Assumptions C18_labels_in_basis_refuted.
Theorem C18_labels_in_basis_refuted_log :
  exists b e d l, supportedb e = true /\ over_basisb b e = true /\ std_binary b = true
    /\ decorate b e = Some d /\ no_bad b d = true /\ to_list b None d = Some l
    /\ map show_rlabel (relabel l) = ["log"; "x"]
    /\ forallb (in_basisb b) (relabel l) = false
    /\ final_labels b false l = None.
Proof. exact labels_in_basis_refuted_log. Qed.
Print Assumptions C18_labels_in_basis_refuted_log.
Theorem C18_labels_in_basis_refuted_abs :
  exists b e d l, supportedb e = true /\ over_basisb b e = true /\ std_binary b = true
    /\ decorate b e = Some d /\ no_bad b d = true /\ to_list b None d = Some l
    /\ map show_rlabel (relabel l) = ["pow"; "abs"; "-"; "a0"; "a2"; "a0"]
    /\ forallb (in_basisb b) (relabel l) = false
    /\ final_labels b false l = None.
Proof. exact labels_in_basis_refuted_abs. Qed.
Print Assumptions C18_labels_in_basis_refuted_abs.
(* ... and the complement: for a formula over a basis with the five binary operators every operator label is a
   basis label or one of "sqrt", "log", "abs". *)
Theorem C18_labels_in_basis_except_sqrt_log : forall b e d l,
  supportedb e = true -> over_basisb b e = true -> std_binary b = true ->
  decorate b e = Some d -> no_bad b d = true -> to_list b None d = Some l ->
  forallb (lab_okb b) (relabel l) = true.
Proof. exact labels_in_basis_except_sqrt_log. Qed.
Print Assumptions C18_labels_in_basis_except_sqrt_log.

(* relabelling without replacement changes no constant *)
Theorem C18_constants_kept : forall b l0 l',
  final_labels b false l0 = Some l' ->
  l' = relabel l0
  /\ forall j t qv qp, nth_error l0 j = Some (LNum t qv qp) -> nth_error l' j = Some (RNum (lower t) qp).
Proof. exact constants_kept. Qed.
Print Assumptions C18_constants_kept.

(* with replacement: exactly the parameters and the numbers whose parent is not pow (a number at the root has no
   parent: replaced) are replaced, the k-th replaced position becoming a<k>; the replacement step never raises *)
Theorem C18_replace_from_total : forall l k, exists out, replace_from k l = Some out.
Proof. exact replace_from_total. Qed.
Print Assumptions C18_replace_from_total.
Theorem C18_root_number_replaced : forall b t qv qp,
  option_map (map show_rlabel) (final_labels b true [LNum t qv qp]) = Some ["a0"].
Proof. exact root_number_replaced. Qed.
Print Assumptions C18_root_number_replaced.
Theorem C18_replace_floats_spec : forall b l0 l',
  final_labels b true l0 = Some l' ->
  exists s ps, shape b (relabel l0) = Some s /\ parents (combine (relabel l0) s) = Some ps
    /\ length l' = length (combine (relabel l0) ps)
    /\ forall j x p, nth_error (combine (relabel l0) ps) j = Some (x, p) ->
         nth_error l' j = Some (if hitb (x, p) then RSym (SA (nhits (firstn j (combine (relabel l0) ps)))) else x).
Proof. exact replace_floats_spec. Qed.
Print Assumptions C18_replace_floats_spec.

Theorem C18_no_param_in_exponent : forall b l0 l',
  final_labels b true l0 = Some l' ->
  exists s ps, shape b (relabel l0) = Some s /\ parents (combine (relabel l0) s) = Some ps
    /\ forall j t q p, nth_error (combine (relabel l0) ps) j = Some (RNum t q, p) -> is_pow_parent p = true ->
         nth_error l' j = Some (RNum t q).
Proof. exact no_param_in_exponent. Qed.
Print Assumptions C18_no_param_in_exponent.

Theorem C18_param_order_by_position : forall b l0 l',
  final_labels b true l0 = Some l' ->
  forall j1 j2 i1 i2, (j1 < j2)%nat ->
    nth_error l' j1 = Some (RSym (SA i1)) -> nth_error l' j2 = Some (RSym (SA i2)) -> (i1 < i2)%nat.
Proof. exact param_order_by_position. Qed.
Print Assumptions C18_param_order_by_position.

(* the choice among the four parses: the selected one has the smallest count, and whichever it is, its labels
   denote the formula (parse-oracle contract: every parse denotes f on dom and lies in the fragment) *)
Theorem C18_string_to_node_minimal : forall b ps i d l,
  string_to_node b ps = Some (i, d, l) ->
  forall k e' d' l', nth_error ps k = Some (Some e') -> decorate b e' = Some d' -> to_list b None d' = Some l' ->
    (length l <= length l')%nat.
Proof. exact string_to_node_minimal. Qed.
Print Assumptions C18_string_to_node_minimal.

Theorem C18_choice_irrelevant : forall b ps (dom : (nat -> R) -> R -> Prop) (f : (nat -> R) -> R -> R) i d l,
  (forall j e, nth_error ps j = Some (Some e) ->
     supportedb e = true /\ exactb e = true
     /\ forall env x, dom env x -> pos b env x e /\ sem env x e = f env x) ->
  string_to_node b ps = Some (i, d, l) -> no_bad b d = true ->
  exists t, of_prefix (relabel l) = Some t /\ tsize t = length l
    /\ forall env x, dom env x -> evalT env x t = f env x.
Proof. exact choice_irrelevant. Qed.
Print Assumptions C18_choice_irrelevant.

(* ---- non-vacuity: the hypotheses hold and the functions compute on concrete inputs *)
Definition ex_e : sexpr :=   (* a0*x - 2.5*x**2 / a1, as sympy's evaluated parse orders it *)
  EApp "Add" [EApp "Mul" [ESym (SA 0); ESym SX];
              EApp "Mul" [ENum "NegativeOne" "-1" (-1 # 1) (-1 # 1);
                          EApp "Mul" [ENum "Float" "2.50000000000000" (5 # 2) (5 # 2);
                                      EApp "Mul" [EApp "Pow" [ESym SX; ENum "Integer" "2" 2 2];
                                                  EApp "Pow" [ESym (SA 1); ENum "NegativeOne" "-1" (-1 # 1) (-1 # 1)]]]]].
Example C18_ex_supported : supportedb ex_e = true /\ exactb ex_e = true /\ over_basisb keep_duplicates ex_e = true.
Proof. vm_compute. auto. Qed.
Example C18_ex_labels :
  option_map (fun d => (no_bad keep_duplicates d, option_map (map show_label) (to_list keep_duplicates None d)))
             (decorate keep_duplicates ex_e)
  = Some (true, Some ["Sub"; "Mul"; "a0"; "x"; "Mul"; "2.50000000000000"; "Div"; "pow"; "x"; "2"; "a1"]).
Proof. vm_compute. reflexivity. Qed.
Example C18_ex_final :
  option_map (map show_rlabel) (fit_labels keep_duplicates true [Some ex_e; None; None; None])
  = Some ["-"; "*"; "a0"; "x"; "*"; "a1"; "/"; "pow"; "x"; "2"; "a2"].
Proof. vm_compute. reflexivity. Qed.
(* a number that is the root has no parent: it is replaced (repaired in /repo 2dc0910; it used to raise) *)
Example C18_ex_root_number :
  option_map (map show_rlabel) (fit_labels core_maths true [Some (ENum "Float" "2.00000000000000" 2 2)]) = Some ["a0"]
  /\ option_map (map show_rlabel) (fit_labels core_maths false [Some (ENum "Float" "2.00000000000000" 2 2)]) = Some ["2.00000000000000"].
Proof. vm_compute. auto. Qed.
(* a constant inside a compound exponent IS replaced: only direct children of pow are protected *)
Example C18_ex_nested_exponent :
  option_map (map show_rlabel)
    (fit_labels core_maths true [Some (EApp "Pow" [ESym SX; EApp "Add" [ENum "Float" "2.50000000000000" (5 # 2) (5 # 2); ESym (SA 0)]])])
  = Some ["pow"; "x"; "+"; "a0"; "a1"].
Proof. vm_compute. reflexivity. Qed.
