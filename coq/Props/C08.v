(* C08 -- tree code length  k ln n + sum ln|c|  and its alignment with the tree list.
   Property theorems only: each is closed by [exact] of a lemma proved in
   Proofs/AifeynProofs.v, with Print Assumptions beneath it.  The subject of the
   theorems, Gen/GenAifeyn.v (aifeyn_complexity, get_max_param, gen_param_list and
   the write plan of generate_equations), is regenerated from /repo on every run. *)
From Coq Require Import String Ascii ZArith List Reals.
From ESRV Require Import Common.Py Model.AifeynSpec Gen.GenAifeyn Proofs.AifeynProofs.
Import ListNotations.
Open Scope string_scope.
Open Scope Z_scope.

(* The translated function returns, for EVERY label list and EVERY param_list, the
   structure (k, n, [c_j]) of the specification: k = number of labels, n = number of
   distinct labels that are neither integers nor in param_list, + 1 if any integer or
   parameter occurs, c_j = |integer labels| with 0 read as 1.  (None on both sides
   exactly when a label passes the integer filter but int() rejects it, or an
   integer leaves the modelled int64 range: C08_none_iff.) *)
Theorem C08_aifeyn_structure : forall tree pl, aifeyn_complexity tree pl = aifeyn_spec tree pl.
Proof. exact aifeyn_structure. Qed.
Print Assumptions C08_aifeyn_structure.

Theorem C08_none_iff : forall tree pl,
  aifeyn_complexity tree pl = None <->
  (exists l, In l tree /\ numeric_like l = true /\ py_int l = None) \/
  (exists l z, In l tree /\ numeric_like l = true /\ py_int l = Some z /\ int64_strict z = false).
Proof. exact aifeyn_none_iff. Qed.
Print Assumptions C08_none_iff.

(* The value over the reals: k ln n + sum_j ln|c_j| (0 read as 1); for a non-empty
   tree n >= 1, and every c_j >= 1, so no logarithm is taken outside its domain. *)
Theorem C08_aifeyn_value : forall tree pl s, aifeyn_complexity tree pl = Some s ->
  struct_value s = spec_value pl tree /\
  (tree <> [] -> 1 <= snd (fst s)) /\
  Forall (fun c => 1 <= c) (snd s).
Proof. exact aifeyn_value. Qed.
Print Assumptions C08_aifeyn_value.

(* Renaming parameters inside param_list (injective or not) changes nothing. *)
Theorem C08_aifeyn_rename_invariant : forall (rho : string -> string) tree pl,
  (forall l, In l pl -> In (rho l) pl) ->
  (forall l, ~ In l pl -> rho l = l) ->
  (forall l, In l pl -> numeric_like l = false) ->
  aifeyn_complexity (map rho tree) pl = aifeyn_complexity tree pl.
Proof. exact aifeyn_rename_invariant. Qed.
Print Assumptions C08_aifeyn_rename_invariant.

(* ... and the hypothesis on param_list holds for every list ['a%i'%j for j in range(m)] *)
Theorem C08_param_names_not_numeric : forall m l, In l (gen_param_list m) -> numeric_like l = false.
Proof. exact param_names_not_numeric. Qed.
Print Assumptions C08_param_names_not_numeric.

Theorem C08_aifeyn_zero_as_one : forall pl t1 t2,
  aifeyn_complexity (t1 ++ "0" :: t2) pl = aifeyn_complexity (t1 ++ "1" :: t2) pl.
Proof. exact aifeyn_zero_as_one. Qed.
Print Assumptions C08_aifeyn_zero_as_one.

Theorem C08_aifeyn_negative_abs : forall pl d t1 t2,
  d <> EmptyString -> str_all is_ascii_digit d = true ->
  aifeyn_complexity (t1 ++ String "-" d :: t2) pl = aifeyn_complexity (t1 ++ d :: t2) pl.
Proof. exact aifeyn_negative_abs. Qed.
Print Assumptions C08_aifeyn_negative_abs.

(* get_max_param (the `'a%i' in s` substring scan) always returns, and its bound covers
   a0..a(K-1) as soon as one string of the list mentions all of them. *)
Theorem C08_get_max_param_total : forall F, exists m, get_max_param F = Some m /\ 0 <= m.
Proof. exact get_max_param_total. Qed.
Print Assumptions C08_get_max_param_total.

Theorem C08_max_param_covers : forall F f (K : nat),
  In f F -> (forall j, (j < K)%nat -> py_str_contains (aname j) f = true) ->
  exists m, get_max_param F = Some m /\ Z.of_nat K <= m.
Proof. exact max_param_covers. Qed.
Print Assumptions C08_max_param_covers.

(* Pipeline and single-tree API give the same structure for the same labels. *)
Theorem C08_single_tree_api_same : forall tree (K : nat) Fpipe fstr,
  (forall j, In (aname j) tree -> (j < K)%nat) ->
  (forall j, (j < K)%nat -> In (aname j) tree) ->
  (forall l, In l tree -> py_str_contains l fstr = true) ->
  covers Fpipe K ->
  exists mp ma, get_max_param Fpipe = Some mp /\ get_max_param [fstr] = Some ma /\
    aifeyn_complexity tree (gen_param_list ma) = aifeyn_complexity tree (gen_param_list mp) /\
    aifeyn_complexity tree (gen_param_list mp) = aifeyn_spec tree (anames K).
Proof. exact single_tree_api_same. Qed.
Print Assumptions C08_single_tree_api_same.

(* the "all of a0..a(K-1)" hypothesis is needed (observation, replayed on the real code) *)
Theorem C08_api_gap_witness :
  let tree := ["+"; "a1"; "a2"] in
  get_max_param ["(a1)+(a2)"] = Some 0 /\
  aifeyn_complexity tree (gen_param_list 0) = Some (3, 3, []) /\
  aifeyn_spec tree (anames 3) = Some (3, 2, []).
Proof. exact api_gap_witness. Qed.
Print Assumptions C08_api_gap_witness.

(* Alignment: line i of aifeyn_n is the code length of the tree on line i of trees_n,
   for every list of shapes and whatever the files contained before. *)
Theorem C08_alignment : forall fs0 shapes,
  exists fs, run_gen fs0 shapes = Some fs /\
    fs_read fs "trees" = map (fun r => LTree (fst r)) (rows shapes) /\
    fs_read fs "aifeyn" = map (fun r => LVal (aifeyn_complexity (fst r) (pl_of (snd r)))) (rows shapes).
Proof. exact alignment. Qed.
Print Assumptions C08_alignment.

Theorem C08_alignment_lines : forall fs0 shapes fs i t,
  run_gen fs0 shapes = Some fs ->
  length (fs_read fs "trees") = length (fs_read fs "aifeyn") /\
  (nth_error (fs_read fs "trees") i = Some (LTree t) ->
   exists sh, In sh shapes /\ (In t (so_all sh) \/ In t (so_extra sh)) /\
     nth_error (fs_read fs "aifeyn") i = Some (LVal (aifeyn_complexity t (pl_of sh)))).
Proof. exact alignment_lines. Qed.
Print Assumptions C08_alignment_lines.

Theorem C08_line_value : forall sh K t, shape_covered sh K ->
  In t (so_all sh) \/ In t (so_extra sh) ->
  aifeyn_complexity t (pl_of sh) = aifeyn_spec t (anames K).
Proof. exact line_value. Qed.
Print Assumptions C08_line_value.

(* ---- non-vacuity / examples *)
(* upstream's test value 5 ln 3: pow(x, pow(a0, x)) *)
Example C08_ex1 : aifeyn_complexity ["pow"; "x"; "pow"; "a0"; "x"] ["a0"] = Some (5, 3, []).
Proof. vm_compute. reflexivity. Qed.
(* integers: 0 -> 1, sign dropped, multi-digit; '-' alone is the subtraction operator *)
Example C08_ex2 : aifeyn_complexity ["-"; "*"; "0"; "x"; "pow"; "-12"; "a1"] ["a0"; "a1"] = Some (7, 5, [1; 12]).
Proof. vm_compute. reflexivity. Qed.
(* "--5" and a superscript two pass the integer filter but int() raises ValueError *)
Example C08_ex3 : aifeyn_complexity ["+"; "--5"; "x"] [] = None
                  /\ aifeyn_complexity [str_of_codes [178%nat]] [] = None.
Proof. vm_compute. split; reflexivity. Qed.
Example C08_ex4 : get_max_param ["(a0)+(x)"; "(a0)+(a1)"; "exp(a10)"; "tan(x)"] = Some 2.
Proof. vm_compute. reflexivity. Qed.
(* 'a1' is found inside 'a10': the scan over-counts, never under-counts *)
Example C08_ex5 : get_max_param ["(a0)+(a10)"] = Some 2.
Proof. vm_compute. reflexivity. Qed.
(* the hypotheses of C08_single_tree_api_same and shape_covered are satisfiable *)
Example C08_ex6 : shape_covered {| so_fun := ["(x)+(a0)"; "(a0)+(a1)"]; so_all := [["+"; "x"; "a0"]; ["+"; "a0"; "a1"]];
                                   so_extra := [["a1"]] |} 2.
Proof. exact shape_covered_example. Qed.
