(* C15 -- a timed-out simplification step is skipped cleanly.
   Property theorems only: each is closed by [exact] of a lemma of Proofs/TimeoutsProofs.v, with
   Print Assumptions beneath it.  Subject: Model/Timeouts.v (hand-written; its block tables and handlers are
   compared with the ast of /repo's simplifier.py, and its block semantics with injected runs of the real
   duplicate_checker.main, on every run of the check).

   Reading guide.  A block execution is (trace, cut): the lines the body executed with the effects of their
   statements, and either None (ran to its end) or Some p (TimeoutException before the p-th executed line; p may be
   the number of lines = after the body, before alarm(0)).  Hypotheses such as stage_ok / run_ok constrain TRACES
   only (effects belong to the block, paired appends come in whole groups in a complete body, a local is bound
   before it is read, merge indices are positions of the list); the cut of every block is universally quantified. *)
From Coq Require Import List Bool Arith.
From ESRV Require Import Model.Timeouts Proofs.TimeoutsProofs.
Import ListNotations.

(* ---- completes ---- *)

(* inside every block body, a clause that could swallow the timeout is preceded by `except TimeoutException: raise` *)
Theorem C15_timeout_reaches_block_handler : forall k, transparent (table k) = true.
Proof. exact tables_transparent. Qed.
Print Assumptions C15_timeout_reaches_block_handler.

(* one sympy_simplify call returns, with one entry per function, for every choice of cuts *)
Theorem C15_call_completes : forall ss G,
  forallb (stage_ok (length G)) ss = true ->
  exists G', run_call ss G = Some G' /\ length G' = length G.
Proof. exact call_completes. Qed.
Print Assumptions C15_call_completes.

Theorem C15_expand_completes : forall bs,
  forallb (fun b => conforms KX (fst b) && aligned (fst b)) bs = true ->
  exists ch, run_expand bs = Some ch.
Proof. exact expand_completes. Qed.
Print Assumptions C15_expand_completes.

(* the whole generation run reaches its end: every round of both loops, both expansions, the final files *)
Theorem C15_completes : forall nparam cancel n orig r,
  run_ok r = true -> exists y, generate nparam cancel n orig r = Some y.
Proof. exact generation_completes. Qed.
Print Assumptions C15_completes.

(* ---- stale substitutions ---- *)

(* block level: (str0, sym0, subs0 ++ stale) *)
Theorem C15_stale_subs_characterised : forall k b l l',
  restoring k -> is_cut b = true -> run_block k b l = Some l' ->
  l_str l' = l_str l /\ l_sym l' = l_sym l /\
  subs_list (l_subs l') = subs_list (l_subs l) ++ appended b.
Proof. exact cut_block_state. Qed.
Print Assumptions C15_stale_subs_characterised.

Theorem C15_clean_iff_nothing_appended : forall k b l l',
  restoring k -> is_cut b = true -> run_block k b l = Some l' ->
  (subs_list (l_subs l') = subs_list (l_subs l) <-> appended b = []).
Proof. exact cut_block_clean_iff. Qed.
Print Assumptions C15_clean_iff_nothing_appended.

(* stage level: function i after a block stage, local and global view *)
Theorem C15_stage_entry : forall k bs fr fr' i b e g,
  run_blocks_from k 0 bs fr = Some fr' ->
  nth_error bs i = Some b -> nth_error (fL fr) i = Some e -> nth_error (fG fr) i = Some g ->
  exists e', nth_error (fL fr') i = Some e' /\ e_alias e' = e_alias e /\
    subs_list (e_subs e') = subs_list (e_subs e) ++ appended b /\
    (is_cut b = true -> restoring k -> e_str e' = e_str e /\ e_sym e' = e_sym e) /\
    nth_error (fG fr') i = Some (if e_alias e then mkG (g_str g) (g_sym g) (e_subs e') else g).
Proof. exact stage_entry. Qed.
Print Assumptions C15_stage_entry.

(* it does NOT reach the global lists when the function's only block of the window is the cut one and its list was None *)
Theorem C15_stale_dropped : forall k bs fr0 fr' i b g,
  restoring k ->
  run_blocks_from k 0 bs (reslice fr0) = Some fr' ->
  nth_error bs i = Some b -> is_cut b = true ->
  nth_error (fG fr0) i = Some g -> g_subs g = None ->
  nth_error (fG (make_changes fr')) i = Some g.
Proof. exact stale_dropped. Qed.
Print Assumptions C15_stale_dropped.

(* it DOES reach them when the string differs at make_changes time ... *)
Theorem C15_stale_propagates : forall fr i g e,
  nth_error (fG fr) i = Some g -> nth_error (fL fr) i = Some e -> e_str e <> g_str g ->
  nth_error (fG (make_changes fr)) i = Some (mkG (e_str e) (e_sym e) (e_subs e)).
Proof. exact stale_propagates. Qed.
Print Assumptions C15_stale_propagates.

(* ... or when the local list is the global list object *)
Theorem C15_alias_stale_reaches_global : forall k bs fr0 fr' i b g l0,
  restoring k ->
  run_blocks_from k 0 bs (reslice fr0) = Some fr' ->
  nth_error bs i = Some b -> is_cut b = true ->
  nth_error (fG fr0) i = Some g -> g_subs g = Some l0 ->
  exists g', nth_error (fG (make_changes fr')) i = Some g' /\
    g_str g' = g_str g /\ g_sym g' = g_sym g /\ subs_list (g_subs g') = l0 ++ appended b.
Proof. exact alias_stale_reaches_global. Qed.
Print Assumptions C15_alias_stale_reaches_global.

(* so a cut block is NOT always equivalent to a skipped block: in a call with two parameters a first block cut after
   it appended 'nan' leaves it in the local list, and a completed second block of the same function carries it into
   the global lists; the same call with the first block skipped has no 'nan'.  (For n > 2 check_results re-verifies
   such chains, see C15_final_library_sound; calls with at most one parameter are immune, see below.) *)
Theorem C15_cut_is_not_skip_refuted :
  forallb (stage_ok 1) stale_witness_script = true /\
  (exists g, run_call stale_witness_script [mkG 1 2 None] = Some [g] /\ In NAN (subs_list (g_subs g))) /\
  (exists g, run_call stale_witness_skipped [mkG 1 2 None] = Some [g] /\ ~ In NAN (subs_list (g_subs g))).
Proof. exact stale_witness. Qed.
Print Assumptions C15_cut_is_not_skip_refuted.

(* with at most one parameter (complexity <= 2) nothing stale can reach the output of a call *)
Theorem C15_small_calls_no_stale : forall B D E Z G G',
  let ss := call_script [] B false [] D E Z in
  forallb (stage_ok (length G)) ss = true ->
  forallb (fun b => match fst b with [] => true | _ => false end) E = true ->
  forallb (fun g => negb (is_some (g_subs g))) G = true ->
  run_call ss G = Some G' ->
  forall i g s, nth_error G' i = Some g -> In s (subs_list (g_subs g)) ->
    (exists j b, nth_error B j = Some b /\ is_cut b = false /\ In s (appended b)) \/
    (exists b, In b D /\ In s (vals_of is_ns (concat (fst b)))).
Proof. exact small_calls_no_stale. Qed.
Print Assumptions C15_small_calls_no_stale.

(* ---- final library ---- *)

Theorem C15_check_results_sound : forall nparam y order cs,
  let y' := check_results nparam y order cs in
  let N := length (y_match y) in
  NoDup order ->
  length (y_chain y) = N -> length (y_orig y) = N ->
  (forall i, i < N -> nth i (y_match y) 0 < length (y_uniq y)) ->
  (forall i, i < N -> checked nparam y i = true -> chk_for nparam y order cs i <> None) ->
  forall i, i < N ->
    nth i (y_match y') 0 < length (y_uniq y') /\
    ( (nth (nth i (y_match y') 0) (y_uniq y') 0 = nth i (y_orig y) 0 /\ nth i (y_chain y') [] = [])
      \/
      (nth i (y_match y') 0 = nth i (y_match y) 0 /\ nth i (y_chain y') [] = nth i (y_chain y) [] /\
       nth (nth i (y_match y') 0) (y_uniq y') 0 = nth (nth i (y_match y) 0) (y_uniq y) 0 /\
       (checked nparam y i = true ->
        exists c, chk_for nparam y order cs i = Some c /\ chk_unmerges c = false)) ).
Proof. exact check_results_sound. Qed.
Print Assumptions C15_check_results_sound.

Theorem C15_no_nan_on_equal_counts : forall nparam y order cs,
  let y' := check_results nparam y order cs in
  let N := length (y_match y) in
  NoDup order ->
  length (y_chain y) = N -> length (y_orig y) = N ->
  (forall i, i < N -> nth i (y_match y) 0 < length (y_uniq y)) ->
  (forall i, i < N -> checked nparam y i = true -> chk_for nparam y order cs i <> None) ->
  (forall i c, chk_for nparam y order cs i = Some c -> In NAN (nth i (y_chain y) []) -> chk_unmerges c = true) ->
  forall i, i < N -> In NAN (nth i (y_chain y') []) ->
    nparam (nth i (y_orig y') 0) <> nparam (nth (nth i (y_match y') 0) (y_uniq y') 0).
Proof. exact check_results_no_nan. Qed.
Print Assumptions C15_no_nan_on_equal_counts.

Theorem C15_final_library_sound : forall nparam cancel n orig r y',
  2 < n -> generate nparam cancel n orig r = Some y' -> NoDup (gr_order r) ->
  exists y, pre_check cancel orig r = Some y /\ y' = check_results nparam y (gr_order r) (gr_checks r) /\
  ((forall i, i < length orig -> checked nparam y i = true -> chk_for nparam y (gr_order r) (gr_checks r) i <> None) ->
   forall i, i < length orig ->
    nth i (y_match y') 0 < length (y_uniq y') /\
    ( (nth (nth i (y_match y') 0) (y_uniq y') 0 = nth i orig 0 /\ nth i (y_chain y') [] = [])
      \/
      (nth i (y_match y') 0 = nth i (y_match y) 0 /\ nth i (y_chain y') [] = nth i (y_chain y) [] /\
       nth (nth i (y_match y') 0) (y_uniq y') 0 = nth (nth i (y_match y) 0) (y_uniq y) 0 /\
       (checked nparam y i = true ->
        exists c, chk_for nparam y (gr_order r) (gr_checks r) i = Some c /\ chk_unmerges c = false)) )).
Proof. exact final_library_sound. Qed.
Print Assumptions C15_final_library_sound.

(* ---- non-vacuity: concrete executions ---- *)

(* block KB on one function: sym := 7; subs += [5]; str := 8, cut before the third line *)
Example C15_ex_cut_after_append :
  option_map (fun l => (l_str l, l_sym l, l_subs l))
    (run_block KB ([[(ESave, 0)]; [(ESym, 7)]; [(ESub, 5)]; [(EStr, 8)]], Some 3)
               (mkLoc 1 2 None 0 false false [] [] [] [] [] false))
  = Some (1, 2, Some [5]).
Proof. vm_compute. reflexivity. Qed.

(* block KD cut between the first and the second append: the partial entry is dropped *)
Example C15_ex_partial_triple_dropped :
  option_map (fun l => (l_ci l, l_ri l, l_ns l))
    (run_block KD ([[(EBind EXPR, 0)]; [(ECi, 3)]; [(ERi, 1)]; [(ENs, 9)]], Some 2)
               (mkLoc 1 2 None 0 false false [4] [0] [6] [] [] false))
  = Some ([4], [0], [6]).
Proof. vm_compute. reflexivity. Qed.

Example C15_ex_stage_ok : forallb (stage_ok 1) stale_witness_script = true.
Proof. vm_compute. reflexivity. Qed.

(* check_results on a two-function library: function 1 has a non-trivial chain and the same parameter count as its
   unique; its comparison is cut -> it becomes its own unique with an empty chain *)
Example C15_ex_check_cut :
  let y := mkLibrary [10; 11] [10] [0; 0] [[]; [5]] in
  let y' := check_results (fun _ => 1) y [1] [mkChk false ([[(ERaise, 0)]], Some 0)] in
  (y_uniq y', y_match y', y_chain y') = ([10; 11], [0; 1], [[]; []]).
Proof. vm_compute. reflexivity. Qed.

(* a whole run: one round whose only call is the witness above (function 0, two parameters), an expansion cut
   between its two appends, check_results cut inside the only comparison.  The run is well formed, completes, and
   for n = 3 the function whose chain carried the stale 'nan' ends as its own unique with an empty chain; for
   n = 2 (no check_results) the same execution would keep [nan; 7] -- which is why calls with two parameters need
   check_results, and why C15_small_calls_no_stale matters for n <= 2. *)
Example C15_ex_run :
  run_ok ex_run = true /\
  generate (fun _ => 1) (fun c => c) 3 [1; 9] ex_run = Some (mkLibrary [1; 9] [6; 9; 1] [2; 1] [[]; []]) /\
  generate (fun _ => 1) (fun c => c) 2 [1; 9] ex_run = Some (mkLibrary [1; 9] [6; 9] [0; 1] [[NAN; 7]; []]).
Proof. vm_compute. auto. Qed.
