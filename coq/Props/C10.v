(* C10 -- parameter optimisation reaches the maximum-likelihood point (partial).
   Subject: Model/Optimise.v, the control flow of esr/fitting/test_all.py: optimise_fun with
   scipy's minimize ([oracle]), the np.random.uniform stream ([rnd]) and the likelihood ([chi2])
   as arguments.  Every theorem holds for EVERY oracle (any sequence of results: NaN, +-inf,
   ties, failures, raised exceptions), every stream and every configuration.
   NOT proved: that BFGS converges (C10_conditional assumes one iteration hands back the minimum).
   Property theorems only: each is closed by [exact] of a lemma of Proofs/OptimiseProofs.v. *)
From Coq Require Import ZArith List Bool.
From ESRV Require Import Common.XZ Model.Optimise Proofs.OptimiseProofs.
From ESRV Require Gen.GenCountParams Proofs.CountParamsGenProofs.
Import ListNotations.
Open Scope Z_scope.

(* The returned parameters, back-transformed from log space with the recorded signs and cut
   back to nparam entries, reproduce the returned value whenever it is below 1.e100 -- for
   1, 2 and >= 3 parameters, linear and log mode, normal end and time-out.
   [contract]: each minimize result satisfies fun = chi2_fcn(x, signs) and len(x) = nparam. *)
Theorem C10_params_reproduce_chi2 :
  forall chi2 oracle rnd (c : cfg) (v : xz) (p : list par),
  contract chi2 oracle (c_nparam c) -> consistent c ->
  o_ret (optimise chi2 oracle rnd c) = Ret v p -> xltb v thr_big = true ->
  chi2 (firstn (c_nparam c) p) = v.
Proof. exact params_reproduce_chi2. Qed.
Print Assumptions C10_params_reproduce_chi2.

(* The returned value is the minimum of the selected, accepted, non-NaN `fun`s of the processed
   iterations: a lower bound of all of them, and one of them (or +inf when nothing finite or -inf
   was seen).  Processed = every iteration begun, except the one that trips the 50-infinities
   test (it is left before the best-update; see C10_neginf_dropped_witness). *)
Theorem C10_best_of_all_iterations :
  forall chi2 oracle rnd (c : cfg) (why : stop),
  lengths_ok oracle (c_max_param c) ->
  o_stop (optimise chi2 oracle rnd c) = Some why -> (forall e, why <> StopExc e) ->
  let md := c_mode c in let nd := ndraws (c_nparam c) in let ts := c_test_success c in
  let np := nproc (o_iters (optimise chi2 oracle rnd c)) why in
  exists v p, o_ret (optimise chi2 oracle rnd c) = Ret v p /\
    (forall i r m, (i < np)%nat -> sel oracle rnd md nd i = Some (r, m) -> accepted ts r = true ->
                   nn (r_f r) -> xleb v (r_f r) = true) /\
    (v = PInf \/ exists i r m, (i < np)%nat /\ sel oracle rnd md nd i = Some (r, m) /\
                               accepted ts r = true /\ v = r_f r).
Proof. exact best_of_all_iterations. Qed.
Print Assumptions C10_best_of_all_iterations.

Theorem C10_timeout_partial_result :
  forall chi2 oracle rnd (c : cfg),
  lengths_ok oracle (c_max_param c) ->
  o_stop (optimise chi2 oracle rnd c) = Some (StopExc ETimeout) ->
  let md := c_mode c in let nd := ndraws (c_nparam c) in let ts := c_test_success c in
  let np := (o_iters (optimise chi2 oracle rnd c) - 1)%nat in
  exists v p, o_ret (optimise chi2 oracle rnd c) = Ret v p /\
    (v = NaN \/
     (xltb v thr_big = true /\
      (forall i r m, (i < np)%nat -> sel oracle rnd md nd i = Some (r, m) -> accepted ts r = true ->
                     nn (r_f r) -> xleb v (r_f r) = true) /\
      (exists i r m, (i < np)%nat /\ sel oracle rnd md nd i = Some (r, m) /\ accepted ts r = true /\ v = r_f r))).
Proof. exact timeout_partial_result. Qed.
Print Assumptions C10_timeout_partial_result.

(* The loop ends only: at the cap, with count_lowest = Nconv, with 50 infinities and an
   infinite chi2_min, or because the minimiser raised. From any state, any iteration index. *)
Theorem C10_loop_stops_only :
  forall oracle rnd md nd ts Nconv n j s jend s' why,
  loop oracle rnd md nd ts Nconv n j s = (jend, s', why) ->
  (j <= jend <= j + n)%nat /\
  match why with
  | StopCap => jend = (j + n)%nat
  | StopConv => s_cl s' = Nconv
  | StopInf => s_inf s' = 50 /\ isinf (s_min s') = true
  | StopExc e => exists k st sg, oracle k st sg = Raise e
  end.
Proof. exact loop_stops_only. Qed.
Print Assumptions C10_loop_stops_only.

(* Log mode (log_opt and nparam <= 2): at least one iteration is begun and every completed
   iteration calls the minimiser from its start point with every sign pattern; the pattern's
   branch carries exactly that pattern as its mult_arr. *)
Theorem C10_sign_coverage :
  forall chi2 oracle rnd (c : cfg) (why : stop),
  o_stop (optimise chi2 oracle rnd c) = Some why -> c_mode c <> MLin ->
  let nd := ndraws (c_nparam c) in
  (c_log_opt c = true /\ (c_nparam c <= 2)%nat) /\
  (1 <= o_iters (optimise chi2 oracle rnd c))%nat /\
  forall i p, (i < ncomplete (o_iters (optimise chi2 oracle rnd c)) why)%nat -> length p = c_nparam c ->
    In (start_of rnd nd i, signs_of p) (o_log (optimise chi2 oracle rnd c)) /\
    In (signs_of p, p) (branches (c_mode c)).
Proof. exact sign_coverage. Qed.
Print Assumptions C10_sign_coverage.

Theorem C10_paramfree_direct :
  forall chi2 oracle rnd (c : cfg),
  skipped c = false -> valid c -> c_sym c = SymOk false ->
  optimise chi2 oracle rnd c = early (Ret (chi2 []) (zeros (c_max_param c))).
Proof. exact paramfree_direct. Qed.
Print Assumptions C10_paramfree_direct.

Theorem C10_nan_on_data_inf :
  forall chi2 oracle rnd (c : cfg),
  skipped c = false -> valid c -> c_sym c = SymOk true -> (1 <= c_nparam c)%nat ->
  (c_xvar c = false \/ forall p, length p = c_nparam c -> c_nanpat c p = true) ->
  optimise chi2 oracle rnd c = early (Ret PInf (zeros (c_max_param c))).
Proof. exact nan_on_data_inf. Qed.
Print Assumptions C10_nan_on_data_inf.

Theorem C10_good_fun_reaches_loop :
  forall chi2 oracle rnd (c : cfg) (p : list bool),
  skipped c = false -> valid c -> c_sym c = SymOk true -> (1 <= c_nparam c)%nat ->
  c_xvar c = true -> length p = c_nparam c -> c_nanpat c p = false ->
  exists why, o_stop (optimise chi2 oracle rnd c) = Some why.
Proof. exact good_fun_reaches_loop. Qed.
Print Assumptions C10_good_fun_reaches_loop.

Theorem C10_previous_skip :
  forall chi2 oracle rnd (c : cfg),
  skipped c = true -> optimise chi2 oracle rnd c = early (Ret PInf (zeros (c_max_param c))).
Proof. exact previous_skip. Qed.
Theorem C10_validation :
  forall chi2 oracle rnd (c : cfg),
  skipped c = false -> ~ valid c -> optimise chi2 oracle rnd c = early RaiseValueError.
Proof. exact validation. Qed.
Print Assumptions C10_validation.

(* If a processed iteration none of whose branches is NaN contains the global minimum m of the
   likelihood, the routine returns m, with parameters that reproduce it. *)
Theorem C10_conditional :
  forall chi2 oracle rnd (c : cfg) (why : stop) (m : xz) (i : nat) (rs : list res),
  contract chi2 oracle (c_nparam c) ->
  (forall q, isnan (chi2 q) = true \/ xleb m (chi2 q) = true) ->
  o_stop (optimise chi2 oracle rnd c) = Some why -> (forall e, why <> StopExc e) ->
  let md := c_mode c in let nd := ndraws (c_nparam c) in
  (i < nproc (o_iters (optimise chi2 oracle rnd c)) why)%nat ->
  iter_calls oracle rnd md nd i = (rs, None) ->
  (forall r, In r rs -> nn (r_f r)) ->
  (c_test_success c = true -> forall r, In r rs -> r_ok r = true) ->
  (exists r, In r rs /\ r_f r = m) ->
  exists p, o_ret (optimise chi2 oracle rnd c) = Ret m p /\
            (xltb m thr_big = true -> chi2 (firstn (c_nparam c) p) = m).
Proof. exact conditional_global_min. Qed.
Print Assumptions C10_conditional.

Theorem C10_main_row_cases : forall mp ti first second,
  main_row mp ti first second =
    match first with
    | Ret v p => (v, p)
    | RaiseNameError => if ti then match second with Ret v p => (v, p) | _ => (NaN, zeros mp) end
                        else (NaN, zeros mp)
    | RaiseValueError => (NaN, zeros mp)
    end.
Proof. exact main_row_cases. Qed.

(* The branch table and the pattern enumeration are complete (used by sign_coverage / nan_on_data_inf). *)
Theorem C10_all_patterns_complete : forall n p, length p = n -> In p (all_patterns n).
Proof. exact all_patterns_complete. Qed.

(* Witness for the exclusion in C10_best_of_all_iterations: 49 x +inf then -inf returns +inf although the
   50th (executed, accepted) iteration selected -inf. *)
Theorem C10_neginf_dropped_witness :
  let o := optimise (nil_chi2 (Fin 0)) w_oracle (stream []) w_cfg in
  o_ret o = Ret PInf (zeros 4) /\ o_stop o = Some StopInf /\ o_iters o = 50%nat /\
  sel w_oracle (stream []) MLin 1 49 = Some (mkRes [2] NInf true, []).
Proof. exact neginf_dropped_witness. Qed.
Print Assumptions C10_neginf_dropped_witness.

(* ---- non-vacuity ---------------------------------------------------------------------------- *)
(* the hypotheses of C10_params_reproduce_chi2 / C10_conditional are jointly satisfiable: a two-parameter
   likelihood with its minimum in the (-,+) orthant, log mode *)
Example C10_ex_contract : contract ex_chi2 ex_oracle 2.
Proof. exact ex_contract. Qed.
Example C10_ex_consistent : consistent ex_cfg.
Proof. exact ex_consistent. Qed.
Example C10_ex_conditional :
  exists p, o_ret (optimise ex_chi2 ex_oracle (stream [1; 2]) ex_cfg) = Ret (Fin 0) p /\
            ex_chi2 (firstn 2 p) = Fin 0.
Proof. exact ex_conditional. Qed.
Example C10_ex_run :
  let o := optimise ex_chi2 ex_oracle (stream [1; 2]) ex_cfg in
  o_ret o = Ret (Fin 0) [Pow10 true 2; Pow10 false 1; Lin 0; Lin 0] /\ o_stop o = Some StopConv /\
  o_calls o = 12%nat /\ o_iters o = 3%nat /\
  firstn 4 (o_log o) = [([1; 2], Some [SPlus; SPlus]); ([1; 2], Some [SMinus; SPlus]);
                        ([1; 2], Some [SPlus; SMinus]); ([1; 2], Some [SMinus; SMinus])].
Proof. vm_compute. repeat split. Qed.
(* one parameter, log mode, minus branch wins, then a time-out keeps the partial result *)
Example C10_ex_timeout :
  let orc := script_oracle [Res [3] (Fin 80) true; Res [2] (Fin 40) true; Res [1] (Fin 80) true] (Raise ETimeout) in
  let o := optimise (nil_chi2 NaN) orc (stream [])
             (mkCfg [true] 4 0 true false true false [6] [2] (SymOk true) true (table_nanpat [])) in
  o_ret o = Ret (Fin 40) [Pow10 true 2; Lin 0; Lin 0; Lin 0] /\ o_stop o = Some (StopExc ETimeout) /\ o_calls o = 4%nat.
Proof. vm_compute. repeat split. Qed.
(* three parameters: linear space, parameters returned as they are; Niter = 1 + 2*3 = 7 reached (cap) *)
Example C10_ex_three :
  let orc := script_oracle [Res [1; -2; 3] (Fin 80) true; Res [4; 5; -6] (Fin 24) true] (Res [0; 0; 0] NaN true) in
  let o := optimise (nil_chi2 NaN) orc (stream [])
             (mkCfg [true; false; true] 5 0 true false true false [1; 2] [2] (SymOk true) true (table_nanpat [])) in
  o_ret o = Ret (Fin 24) [Lin 4; Lin 5; Lin (-6); Lin 0; Lin 0] /\ o_stop o = Some StopCap /\ o_calls o = 7%nat.
Proof. vm_compute. repeat split. Qed.
(* NaN-on-data for every sign pattern, parameter-free, invalid Nconv *)
Example C10_ex_early :
  let cfgf sy pats Nc := mkCfg [true] 4 0 true false false false [6] Nc sy true (table_nanpat pats) in
  optimise (nil_chi2 (Fin 7)) (script_oracle [] (Raise EOther)) (stream []) (cfgf (SymOk true) [[false]; [true]] [2])
    = early (Ret PInf (zeros 4)) /\
  optimise (nil_chi2 (Fin 7)) (script_oracle [] (Raise EOther)) (stream []) (cfgf (SymOk false) [] [2])
    = early (Ret (Fin 7) (zeros 4)) /\
  optimise (nil_chi2 (Fin 7)) (script_oracle [] (Raise EOther)) (stream []) (cfgf (SymOk true) [] [7])
    = early RaiseValueError.
Proof. vm_compute. repeat split. Qed.

(* ---- simplifier.count_params, which gives optimise_fun its nparam (and do_sympy / match their grouping keys).
   count_params_code is regenerated on every run from the source (harness/translate/countparams.py); the substring test
   `'a<j>' in fcn` is the argument [contains].  For every predicate, every number of functions and every max_param the code
   raises nothing and returns, per function, the model's count_params (the [c_nparam] of the configurations above): 0 when no
   parameter name below max_param occurs, else one more than the highest one that does. *)
Theorem C10_code_count_params_is_model : forall (contains : nat -> nat -> bool) (nfun mp : nat),
  GenCountParams.count_params_code contains nfun mp
  = Some (map (fun i => count_params (map (contains i) (seq 0 mp)) mp) (seq 0 nfun)).
Proof. exact CountParamsGenProofs.count_params_code_is_model. Qed.
Print Assumptions C10_code_count_params_is_model.
Theorem C10_code_count_params_spec : forall (contains : nat -> nat -> bool) (nfun mp : nat) (l : list nat) (i : nat), (i < nfun)%nat ->
  GenCountParams.count_params_code contains nfun mp = Some l ->
  (nth i l 0%nat = 0%nat /\ forall j, (j < mp)%nat -> contains i j = false) \/
  (exists j, nth i l 0%nat = S j /\ (j < mp)%nat /\ contains i j = true /\ forall j', (j < j' < mp)%nat -> contains i j' = false).
Proof. exact CountParamsGenProofs.count_params_code_spec. Qed.
Print Assumptions C10_code_count_params_spec.
Example C10_ex_code_count_params :
  GenCountParams.count_params_code (fun i j => nth j (nth i [[true; false; true; false]; [false; false; false; false]; [false; true; false; false]] []) false) 3 4
  = Some [3; 0; 2]%nat.
Proof. vm_compute. reflexivity. Qed.
