(* C02 -- every library function string denotes the tree on the same line.
   Hops proved here: (a) node_to_string writes a string from which the tree is recoverable
   (explicit grouping), (d) both symbol tables -- regenerated from sympy_symbols.py and
   Likelihood.run_sympify on every run -- give each name ESR's documented meaning and agree with
   each other on the names the printer writes.  Hop (c) (printer/parser round trip) is C12;
   hop (b) (sympy's own parsing/auto-evaluation) is an oracle validated per line by the check. *)
From Coq Require Import Reals String List.
From ESRV Require Import Model.Shapes.
From ESRV Require Import Model.NodeStr Model.SymSem Gen.GenSymtab Proofs.NodeStrProofs Proofs.SymtabProofs.
From ESRV Require Gen.GenNodeStr.
From ESRV Require Import Proofs.NodeStrGenProofs Gen.GenShapes Proofs.ShapesGenProofs.
Import ListNotations.
Open Scope string_scope.

Theorem C02_node_to_string_readable : forall t : lt, parse (size t) (nts t) = Some (t, []).
Proof. exact node_to_string_readable. Qed.
Print Assumptions C02_node_to_string_readable.

Theorem C02_node_to_string_injective : forall t1 t2 : lt, nts t1 = nts t2 -> t1 = t2.
Proof. exact node_to_string_injective. Qed.
Print Assumptions C02_node_to_string_injective.

(* ---- the same, for node_to_string as REGENERATED from generator.py on every run (Gen/GenNodeStr.v) ----
   applied to the parent/left/right arrays of ANY shape (numbered in prefix order from off, embedded anywhere in a node list) and ANY
   label list that is long enough, with fuel >= the number of nodes, the translated code never raises and returns the structural
   rendering of the labelled tree; with C02_node_to_string_readable the string therefore determines the tree *)
Theorem C02_code_node_to_string : forall u off p pre suf L fuel,
  (length pre = off)%nat -> (off + Shapes.size u <= length L)%nat -> (Shapes.size u <= fuel)%nat ->
  GenNodeStr.node_to_string fuel (Some off) (pre ++ arr u off p ++ suf)%list L
  = Some (Some (NodeStr.node_to_string (lab u L off))).
Proof. exact gen_node_to_string_arr. Qed.
Print Assumptions C02_code_node_to_string.

(* chained with check_tree (C01_check_tree_arrays): shape string -> arrays -> function string *)
Theorem C02_code_check_tree_then_node_to_string : forall u L tr,
  (2 <= Shapes.size u)%nat -> (Shapes.size u <= length L)%nat ->
  check_tree (pre u) = Ok (true, Some (pre u), tr) ->
  GenNodeStr.node_to_string (Shapes.size u) (Some 0%nat) tr L = Some (Some (NodeStr.node_to_string (lab u L 0))).
Proof. exact check_tree_then_node_to_string. Qed.
Print Assumptions C02_code_check_tree_then_node_to_string.

(* both functions as regenerated from the source, composed: for every shape with at least two nodes and every label list of the right
   length, check_tree on the shape string succeeds and node_to_string on the arrays it returns is the structural rendering *)
Theorem C02_code_shape_to_string : forall u L,
  (2 <= Shapes.size u)%nat -> (Shapes.size u <= length L)%nat ->
  exists tr, check_tree_code (pre u) = Some (true, Some (pre u), tr) /\
             GenNodeStr.node_to_string (Shapes.size u) (Some 0%nat) tr L = Some (Some (NodeStr.node_to_string (lab u L 0))).
Proof.
  exact (fun u L H2 HL => ex_intro _ (arr u 0 None)
           (conj (code_check_tree_arrays u H2) (gen_node_to_string_tree u L (Shapes.size u) HL (le_n _)))).
Qed.
Print Assumptions C02_code_shape_to_string.

(* complexity 0: the empty tree is written as the string 0 *)
Theorem C02_code_empty_tree : forall idx L fuel, GenNodeStr.node_to_string (S fuel) idx [] L = Some (Some "0"%string).
Proof. exact gen_node_to_string_empty. Qed.

Example C02_ex_code_render :
  GenNodeStr.node_to_string 4%nat (Some 0%nat) (arr (B (U Shapes.L) Shapes.L) 0%nat None) ["pow"; "exp"; "x"; "a0"]%string = Some (Some "pow(exp(x),a0)"%string)
  /\ GenNodeStr.node_to_string 4%nat (Some 0%nat) (arr (B (U Shapes.L) Shapes.L) 0%nat None) ["-"; "exp"; "x"; "a0"]%string = Some (Some "(exp(x))-(a0)"%string).
Proof. vm_compute. auto. Qed.
(* a label list that is too short raises (IndexError), a dangling child index raises (tree[None]) *)
Example C02_ex_code_raises :
  GenNodeStr.node_to_string 4%nat (Some 0%nat) (arr (U Shapes.L) 0%nat None) ["exp"]%string = None
  /\ GenNodeStr.node_to_string 4%nat (Some 0%nat) [mkNode 1%nat None None None] ["exp"]%string = None.
Proof. vm_compute. auto. Qed.

Theorem C02_generation_table_sound : sound1 gen_fun1 /\ sound2 gen_fun2.
Proof. exact (conj gen1_sound gen2_sound). Qed.
Print Assumptions C02_generation_table_sound.

Theorem C02_fitting_table_sound : sound1 fit_fun1 /\ sound2 fit_fun2.
Proof. exact (conj fit1_sound fit2_sound). Qed.
Print Assumptions C02_fitting_table_sound.

Theorem C02_generation_table_covers :
  (forall n, In n gen_needed1 -> lookup n gen_fun1 <> None) /\ lookup "pow" gen_fun2 <> None
  /\ lookup "x" gen_syms = Some ("x", SymPositive).
Proof. exact gen_covers. Qed.

Theorem C02_fitting_table_covers :
  (forall n, In n fit_needed1 -> lookup n fit_fun1 <> None) /\ lookup "pow" fit_fun2 <> None
  /\ lookup "x" fit_syms = Some ("x", SymPositive)
  /\ (forall n, In n ["a0"; "a1"; "a2"] -> lookup n fit_syms = Some (n, SymReal)).
Proof. exact fit_covers. Qed.

(* every symbol entry of either table binds a name to the symbol of the same name *)
Theorem C02_symbol_entries_are_identities : forall k v kind,
  (In (k, (v, kind)) gen_syms \/ In (k, (v, kind)) fit_syms) -> k = v.
Proof.
  exact (fun k v kind H => match H with
                           | or_introl H1 => syms_identity_spec gen_syms k v kind (proj1 syms_identity_ok) H1
                           | or_intror H2 => syms_identity_spec fit_syms k v kind (proj2 syms_identity_ok) H2
                           end).
Qed.
Print Assumptions C02_symbol_entries_are_identities.

Theorem C02_tables_agree :
  (forall f g, lookup "sqrt_abs" gen_fun1 = Some f -> lookup "sqrt" fit_fun1 = Some g -> forall a, f a = g a) /\
  (forall f g, lookup "log_abs" gen_fun1 = Some f -> lookup "log" fit_fun1 = Some g -> forall a, f a = g a) /\
  (forall f g, lookup "pow" gen_fun2 = Some f -> lookup "pow" fit_fun2 = Some g -> forall a b, f a b = g a b) /\
  (forall n f g, In n ["inv"; "square"; "cube"] -> lookup n gen_fun1 = Some f -> lookup n fit_fun1 = Some g -> forall a, f a = g a).
Proof. exact tables_agree. Qed.
Print Assumptions C02_tables_agree.

(* the tree, read with the generation-stage table, has ESR's operator semantics at every point *)
Theorem C02_tree_denotation : forall (leaf : string -> option R) (t : lt),
  (forall l, In l (labels1 t) -> lookup l gen_fun1 <> None \/ esr1 l = None) ->
  (forall l, In l (labels2 t) -> lookup l gen_fun2 <> None \/ esr2 l = None) ->
  den (fun l => lookup l gen_fun1) (fun l => lookup l gen_fun2) leaf t = den esr1 esr2 leaf t.
Proof. exact den_gen_eq_esr. Qed.
Print Assumptions C02_tree_denotation.

(* non-vacuity *)
Example C02_ex_string : node_to_string (T2 "+" (T1 "inv" (T0 "x")) (T2 "pow" (T0 "a0") (T0 "x"))) = "(inv(x))+(pow(a0,x))".
Proof. vm_compute. reflexivity. Qed.
Example C02_ex_read : parse 5 (nts (T2 "+" (T1 "inv" (T0 "x")) (T2 "pow" (T0 "a0") (T0 "x")))) =
  Some (T2 "+" (T1 "inv" (T0 "x")) (T2 "pow" (T0 "a0") (T0 "x")), []).
Proof. vm_compute. reflexivity. Qed.
