(* C01 -- exhaustive, duplicate-free enumeration of expression trees.
   Property theorems only: each is closed by [exact] of a lemma proved in Proofs/, with
   Print Assumptions beneath it.  Models: Model/Shapes.v (check_tree, get_allowed_shapes),
   Model/Labels.v (shape_to_functions / generate_equations label lists; spec enumerator). *)
From Coq Require Import String.
From Coq Require Import List Arith Permutation.
From ESRV Require Import Model.Shapes Model.Labels Proofs.ShapesProofs Proofs.LabelsProofs.
From ESRV Require Import Gen.GenShapes Proofs.ShapesGenProofs.
From ESRV Require Import Common.Np Gen.GenAllowed Proofs.AllowedGenProofs.
Import ListNotations.
Open Scope list_scope.
Open Scope nat_scope.

(* (a) A string is the prefix arity code of a unary-binary tree iff it is over {0,1,2} and
   passes the Lukasiewicz count (open slots stay positive before every symbol, zero at the end). *)
Theorem C01_tree_code_criterion : forall s,
  (exists t, pre t = s) <-> (lukb s = true /\ Forall le2 s).
Proof. exact luk_iff. Qed.
Print Assumptions C01_tree_code_criterion.

(* (b) check_tree, pointer arrays and all: for EVERY string over {0,1,2} of length >= 2 that does
   not start with 0 it terminates without exception (no fuel exhaustion, no tree[None]) and its
   success flag is true exactly when the string is the prefix code of a tree. *)
Theorem C01_check_tree_iff : forall s, 2 <= length s -> hd 0 s <> 0 -> Forall le2 s ->
  exists p t, check_tree s = Ok (lukb s, Some p, t) /\ (lukb s = true <-> exists u, pre u = s).
Proof. exact check_tree_iff. Qed.
Print Assumptions C01_check_tree_iff.

(* (c) the part_considered returned on failure is a prefix of s, and every string of the same
   length starting with it is not a tree code: pruning by failed prefix never removes a valid shape. *)
Theorem C01_check_tree_prune_sound : forall s, 2 <= length s -> hd 0 s <> 0 -> Forall le2 s ->
  exists p t, check_tree s = Ok (lukb s, Some p, t) /\
    firstn (length p) s = p /\
    (lukb s = false -> forall s', length s' = length s -> firstn (length p) s' = p -> lukb s' = false).
Proof. exact check_tree_spec. Qed.
Print Assumptions C01_check_tree_prune_sound.

(* on the prefix code of any tree with >= 2 nodes, check_tree returns success, the whole string as
   part_considered, and exactly the parent/left/right indexing of that tree (prefix numbering) *)
Theorem C01_check_tree_arrays : forall u, 2 <= size u ->
  check_tree (pre u) = Ok (true, Some (pre u), arr u 0 None).
Proof. exact check_tree_arrays. Qed.
Print Assumptions C01_check_tree_arrays.

(* ---- the same, for check_tree as REGENERATED from generator.py on every run (Gen/GenShapes.v) ----
   harness/translate/ctree.py turns the function (Node objects with attribute stores, a `for` and a `while` loop left with `break`,
   variables that are unbound when the loop body never runs) into Gallina: checked updates (IndexError / tree[None] = None), fuelled
   loops, unbound variables as options.  The generated function equals the hand model on EVERY string: same success flag, same
   part_considered, same node arrays, and it raises exactly where the model says Crash. *)
Theorem C01_code_check_tree_is_model : forall s,
  match check_tree s with
  | Ok r => check_tree_code s = Some r
  | Crash => check_tree_code s = None
  | Fuel => True
  end.
Proof. exact check_tree_code_refines. Qed.
Print Assumptions C01_code_check_tree_is_model.

Theorem C01_code_check_tree_iff : forall s, 2 <= length s -> hd 0 s <> 0 -> Forall le2 s ->
  exists p t, check_tree_code s = Some (lukb s, Some p, t) /\ (lukb s = true <-> exists u, pre u = s).
Proof. exact code_check_tree_iff. Qed.
Print Assumptions C01_code_check_tree_iff.

Theorem C01_code_check_tree_prune_sound : forall s, 2 <= length s -> hd 0 s <> 0 -> Forall le2 s ->
  exists p t, check_tree_code s = Some (lukb s, Some p, t) /\
    firstn (length p) s = p /\
    (lukb s = false -> forall s', length s' = length s -> firstn (length p) s' = p -> lukb s' = false).
Proof. exact code_check_tree_prune_sound. Qed.
Print Assumptions C01_code_check_tree_prune_sound.

Theorem C01_code_check_tree_arrays : forall u, 2 <= size u ->
  check_tree_code (pre u) = Some (true, Some (pre u), arr u 0 None).
Proof. exact code_check_tree_arrays. Qed.
Print Assumptions C01_code_check_tree_arrays.

Theorem C01_code_check_tree_crash : forall a r, check_tree_code (0 :: a :: r) = None.
Proof. exact code_check_tree_crash. Qed.

Example C01_ex_code_check_tree :
  check_tree_code [2; 1; 0; 0] = Some (true, Some [2; 1; 0; 0], arr (B (U L) L) 0 None) /\
  check_tree_code [2; 0; 0; 0; 1] = Some (false, Some [2; 0; 0; 0],
     [mkNode 2 None (Some 1) (Some 2); mkNode 0 (Some 0) None None; mkNode 0 (Some 0) None None; mkNode 0 None None None; mkNode 1 None None None]) /\
  check_tree_code [0; 1; 0] = None /\ check_tree_code [] = Some (true, None, []).
Proof. vm_compute. auto. Qed.

(* the remaining behaviours of check_tree, as the code has them *)
Theorem C01_check_tree_crash : forall a r, check_tree (0 :: a :: r) = Crash.
Proof. exact check_tree_crash. Qed.
Theorem C01_check_tree_single : forall a, check_tree [a] = Ok (true, None, [mknode a]).
Proof. exact check_tree_single. Qed.

(* get_allowed_shapes(n), for every n >= 1: no exception, and the returned rows are exactly the
   prefix codes of the unary-binary trees with n nodes, each once, in itertools.product order. *)
Theorem C01_allowed_exact : forall n, 1 <= n ->
  exists l, allowed n = Ok l /\ l = filter lukb (product n) /\
            (forall s, In s l <-> length s = n /\ exists t, pre t = s) /\ NoDup l.
Proof. exact allowed_exact. Qed.
Print Assumptions C01_allowed_exact.

(* ... and the same of the CODE: get_allowed_shapes_code is regenerated on every run from the numpy source of
   generator.get_allowed_shapes (harness/translate/allowed.py; the numpy idioms are the total functions of Common/Np.v, the call
   to check_tree is the generated check_tree_code).  For every complexity it returns the matrix the model computes and raises
   exactly where the model says Crash (n = 0); so for n >= 1 its rows are the prefix codes of all trees with n nodes, each once. *)
Theorem C01_code_allowed_is_model : forall n,
  get_allowed_shapes_code n = match allowed n with Ok l => Some (mkArr n l) | _ => None end.
Proof. exact allowed_code_is_model. Qed.
Print Assumptions C01_code_allowed_is_model.
Theorem C01_code_allowed_exact : forall n, 1 <= n ->
  exists l, get_allowed_shapes_code n = Some (mkArr n l) /\ l = filter lukb (product n) /\
            (forall s, In s l <-> length s = n /\ exists t, pre t = s) /\ NoDup l.
Proof. exact allowed_code_exact. Qed.
Print Assumptions C01_code_allowed_exact.
(* end to end: every row of the generated get_allowed_shapes (n >= 2) is the code of a tree with n nodes on which the generated
   check_tree -- as shape_to_functions calls it -- succeeds, considers the whole row and returns that tree's arrays *)
Theorem C01_code_allowed_rows_check_tree : forall n l s, 2 <= n ->
  get_allowed_shapes_code n = Some (mkArr n l) -> In s l ->
  exists u, pre u = s /\ size u = n /\ check_tree_code s = Some (true, Some s, arr u 0 None).
Proof. exact allowed_rows_check_tree. Qed.
Print Assumptions C01_code_allowed_rows_check_tree.
Theorem C01_code_allowed_zero : get_allowed_shapes_code 0 = None.
Proof. exact allowed_code_zero. Qed.
Example C01_ex_code_shapes4 : get_allowed_shapes_code 4 = Some (mkArr 4 [[1;1;1;0]; [1;2;0;0]; [2;0;1;0]; [2;1;0;0]]).
Proof. vm_compute. reflexivity. Qed.

(* shape_to_functions, per shape: the label lists produced for the shape of u are exactly the
   renderings (prefix label list, parameters numbered a0, a1, ... in prefix order) of the trees
   of that shape whose labels are basis labels of the right arity. *)
Theorem C01_labelings_exact : forall u b x,
  In x (labelings (pre u) b) <-> exists t, erase t = u /\ wf b t /\ x = render t.
Proof. exact labelings_exact. Qed.
Print Assumptions C01_labelings_exact.

(* the spec-side enumerator lists exactly the well-labelled trees with n nodes, each once *)
Theorem C01_spec_enumerator_exact : forall n b t, In t (raw_trees b n n) <-> lsize t = n /\ wf b t.
Proof. exact raw_trees_exact. Qed.
Theorem C01_spec_enumerator_NoDup : forall n b, NoDup (b0 b) -> NoDup (b1 b) -> NoDup (b2 b) ->
  NoDup (raw_trees b n n).
Proof. exact raw_trees_NoDup. Qed.

(* C01: for every n >= 1 and every duplicate-free basis, generation raises nothing and the lines of
   orig_trees_<n>.txt are a permutation of the renderings of all labelled trees with n nodes; if in
   addition no basis label looks like a0, a1, ... and the arity classes are disjoint, no line repeats. *)
Theorem C01_enumeration : forall n b, 1 <= n ->
  NoDup (b0 b) -> NoDup (b1 b) -> NoDup (b2 b) ->
  exists out, generate n b = Ok out /\ Permutation out (all_ltrees n b) /\ (clean b -> NoDup out).
Proof. exact enumeration. Qed.
Print Assumptions C01_enumeration.

(* non-vacuity *)
Example C01_ex_shapes4 : allowed 4 = Ok [[1;1;1;0]; [1;2;0;0]; [2;0;1;0]; [2;1;0;0]].
Proof. vm_compute. reflexivity. Qed.
Example C01_ex_counts : map (fun n => match allowed n with Ok l => length l | _ => 0 end) [1;2;3;4;5;6;7;8;9]
  = [1; 1; 2; 4; 9; 21; 51; 127; 323].
Proof. vm_compute. reflexivity. Qed.
Example C01_ex_check_ok : exists t, check_tree [2;0;1;0] = Ok (true, Some [2;0;1;0], t).
Proof. eexists. vm_compute. reflexivity. Qed.
Example C01_ex_arrays : arr (B L (U L)) 0 None =
  [mkNode 2 None (Some 1) (Some 2); mkNode 0 (Some 0) None None; mkNode 1 (Some 0) (Some 3) None; mkNode 0 (Some 2) None None].
Proof. vm_compute. reflexivity. Qed.
Example C01_ex_check_fail : exists t, check_tree [1;0;0;0] = Ok (false, Some [1;0;0], t).
Proof. eexists. vm_compute. reflexivity. Qed.
Example C01_ex_core3 : exists out, generate 3 core_maths = Ok out /\ length out = 22 /\
  length (all_ltrees 3 core_maths) = 22 /\
  nth 17 out [] = ["+"; "a0"; "a1"]%string.
Proof. eexists. vm_compute. repeat split. Qed.
Example C01_ex_shipped_clean :
  clean core_maths /\ clean ext_maths /\ clean keep_duplicates /\ clean osc_maths /\
  clean base10_maths /\ clean base_e_maths.
Proof. exact shipped_clean. Qed.
Example C01_ex_shipped_nodup :
  (NoDup (b0 core_maths) /\ NoDup (b1 core_maths) /\ NoDup (b2 core_maths)) /\
  (NoDup (b0 ext_maths) /\ NoDup (b1 ext_maths) /\ NoDup (b2 ext_maths)) /\
  (NoDup (b0 keep_duplicates) /\ NoDup (b1 keep_duplicates) /\ NoDup (b2 keep_duplicates)) /\
  (NoDup (b0 osc_maths) /\ NoDup (b1 osc_maths) /\ NoDup (b2 osc_maths)) /\
  (NoDup (b0 base10_maths) /\ NoDup (b1 base10_maths) /\ NoDup (b2 base10_maths)) /\
  (NoDup (b0 base_e_maths) /\ NoDup (b1 base_e_maths) /\ NoDup (b2 base_e_maths)).
Proof. exact shipped_nodup. Qed.
