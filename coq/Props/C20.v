(* C20 -- fitting a single tree agrees with the library pipeline.  Composition theorems: they hold
   for EVERY behaviour of the optimiser, the Fisher routine, sympy and the tree-code routine
   (all universally quantified), so they pin what is composed with what, in which order. *)
From Coq Require Import ZArith List.
From ESRV Require Import Model.Single Proofs.SingleProofs.
Import ListNotations.

(* the returned description length is exactly negloglike + codelen + tree code, with negloglike and
   codelen the values the Fisher routine returned for the string that was fitted *)
Theorem C20_dl_is_sum : forall (Lab Str Par Num : Type) nts max_param_of sympify optimise fisher aifeyn add nan
    (labels : list Lab) chi2 params0 p nll cl,
  optimise (sympify (nts labels)) (max_param_of (nts labels)) = (chi2, params0) ->
  fisher (sympify (nts labels)) params0 chi2 (max_param_of (nts labels)) = (p, nll, cl) ->
  single_function Lab Str Par Num nts max_param_of sympify optimise fisher aifeyn add nan false labels
    = (nll, add (add nll cl) (aifeyn labels (max_param_of (nts labels))), p).
Proof. exact dl_is_sum. Qed.
Print Assumptions C20_dl_is_sum.

Theorem C20_mse_no_dl : forall (Lab Str Par Num : Type) nts max_param_of sympify optimise fisher aifeyn add nan (labels : list Lab),
  snd (fst (single_function Lab Str Par Num nts max_param_of sympify optimise fisher aifeyn add nan true labels)) = nan.
Proof. exact mse_no_dl. Qed.

(* single_function and the pipeline fit the same string -- sympify (node_to_string labels) -- and, given the
   same padding width and parameter count, return the same likelihood, description length and parameters *)
Theorem C20_single_eq_pipeline : forall (Lab Str Par Num : Type) nts max_param_of sympify optimise fisher aifeyn add nan
    (labels : list Lab) (K mp : Z),
  mp = max_param_of (nts labels) -> K = max_param_of (nts labels) ->
  single_function Lab Str Par Num nts max_param_of sympify optimise fisher aifeyn add nan false labels
    = pipeline_row Lab Str Par Num nts sympify optimise fisher aifeyn add K mp labels.
Proof. exact single_eq_pipeline. Qed.
Print Assumptions C20_single_eq_pipeline.

(* ... and for any padding width / parameter-name list, provided the stage functions' numerical results do not depend on them *)
Theorem C20_single_eq_pipeline_conditional : forall (Lab Str Par Num : Type) nts max_param_of sympify
    (optimise : Str -> Z -> Num * Par) (fisher : Str -> Par -> Num -> Z -> Par * Num * Num) aifeyn add nan (labels : list Lab) (K mp : Z),
  (forall s m m', fst (optimise s m) = fst (optimise s m')) ->
  (forall s p p' c m m', snd (fst (fisher s p c m)) = snd (fst (fisher s p' c m')) /\ snd (fisher s p c m) = snd (fisher s p' c m')) ->
  (forall l k k', aifeyn l k = aifeyn l k') ->
  fst (single_function Lab Str Par Num nts max_param_of sympify optimise fisher aifeyn add nan false labels)
    = fst (pipeline_row Lab Str Par Num nts sympify optimise fisher aifeyn add K mp labels).
Proof. exact single_eq_pipeline_conditional. Qed.
Print Assumptions C20_single_eq_pipeline_conditional.

(* non-vacuity: concrete oracles over nat *)
Example C20_ex :
  single_function nat nat nat nat (fun l => length l) (fun s => Z.of_nat s) (fun s => s + 1)
    (fun s m => (s * 10, s)) (fun s p c m => (p, c + 1, 7)) (fun l k => length l * 2) Nat.add 0 false [1;2;3]
  = (41, 54, 4).
Proof. vm_compute. reflexivity. Qed.
