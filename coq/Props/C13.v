(* C13 -- the number of MPI ranks changes neither what is enumerated nor its soundness.
   Property theorems only. *)
From Coq Require Import ZArith List.
From ESRV Require Import Common.Py Common.Tiling Gen.GenPartition Proofs.PartitionProofs Model.Bsp Proofs.BspProofs.
Import ListNotations.

(* Relative speeds of the ranks have no influence: for every SPMD program made of local
   computation and blocking collectives (all ranks issue the same sequence -- checked on the
   real code by tracing), every rank count P, every schedule (any interleaving of rank steps,
   ranks may run arbitrarily far ahead through completed collectives), the state of every
   rank that finishes is the lock-step state; and the invariant (every rank's state and every
   deposited contribution equal the lock-step ones) holds at every point of every execution. *)
Theorem C13_schedule_independent :
  forall (S C : Type) (P : nat) (prog : list (phase S C)) (init : nat -> S) (sched : list nat),
    let a := arun P prog init sched in
    Inv S C P prog init a /\
    (finished prog a -> forall r rs, nth_error (ranks a) r = Some rs -> rst rs = lock P prog init r).
Proof. exact schedule_independent. Qed.
Print Assumptions C13_schedule_independent.

(* the slices every generation-stage site takes (utils.split_idx, regenerated from source) tile 0..N-1 *)
Theorem C13_slices_tile : forall N P : Z,
  (0 <= N)%Z -> (1 <= P)%Z ->
  (forall r, (0 <= r < P)%Z -> split_idx N r P <> None) /\
  concat (map (fun r => si_range (split_idx N (Z.of_nat r) P)) (seq 0 (Z.to_nat P))) = zrange N.
Proof. exact split_idx_tiles. Qed.
Print Assumptions C13_slices_tile.

Local Open Scope nat_scope.
(* non-vacuity: a 3-rank gather-to-0 / bcast program run under two different schedules *)
Definition ex_prog : list (phase nat nat) :=
  [ mkPhase (fun r s => (s, s + r)) (fun cs r s => if Nat.eqb r 0 then fold_left Nat.add cs 0 else s);   (* gather at 0 *)
    mkPhase (fun r s => (s, s)) (fun cs r s => nth 0 cs 0) ].                                            (* bcast from 0 *)
Example C13_ex_sched1 :
  map (fun rs => rst rs) (ranks (arun 3 ex_prog (fun r => 10 * r) [0;1;2;0;1;2;0;1;2;0;1;2])) = [33;33;33].
Proof. vm_compute. reflexivity. Qed.
Example C13_ex_sched2 :
  map (fun rs => rst rs) (ranks (arun 3 ex_prog (fun r => 10 * r) [2;2;1;0;0;0;0;1;1;2;1;2;2;1;1;0;2;1])) = [33;33;33].
Proof. vm_compute. reflexivity. Qed.
Example C13_ex_lock : map (lock 3 ex_prog (fun r => 10 * r)) [0;1;2] = [33;33;33].
Proof. vm_compute. reflexivity. Qed.

(* ---- distribution skeletons: for every rank count the scatter/compute/gather index
   arithmetic returns what one rank returns (models in Model/Dist.v call the translated split_idx) ---- *)
From ESRV Require Import Model.Dist Proofs.DistProofs.
From ESRV Require Import Gen.GenDist Proofs.DistGenProofs.

(* the slice arithmetic the skeleton theorems below are stated on is what the code says now: regenerated from
   generator.shape_to_functions, simplifier.make_changes and simplifier.check_results on every run (Gen/GenDist.v) *)
Theorem C13_stf_bounds_is_code : forall T rank size, stf_bounds_code T rank size = stf_bounds T rank size.
Proof. exact stf_bounds_is_code. Qed.
Print Assumptions C13_stf_bounds_is_code.

Theorem C13_stf_rank_extras_is_code : forall (B : Type) (g : Z -> list B) T rank size,
  stf_rank_extras g T rank size
  = (b <- stf_bounds_code T rank size ;;
     let '(imin, imax) := b in
     Some (flat_map (fun pos => if stf_guard_code pos imin imax then g pos else []) (zrange T))).
Proof. exact stf_rank_extras_is_code. Qed.
Print Assumptions C13_stf_rank_extras_is_code.

Theorem C13_mc_bounds_is_code : forall (A : Type) (all_fun : list A) rank size,
  mc_bounds_code all_fun rank size = mc_bounds all_fun rank size.
Proof. exact mc_bounds_is_code. Qed.
Print Assumptions C13_mc_bounds_is_code.

Theorem C13_cr_bounds_is_code : forall nfun rank size,
  cr_bounds_code nfun rank size = cr_bounds nfun rank size /\ cr_imin_code nfun rank size = cr_imin nfun rank size.
Proof. exact (fun n r s => conj (cr_bounds_is_code n r s) (cr_imin_is_code n r s)). Qed.
Print Assumptions C13_cr_bounds_is_code.

(* an idle rank (more ranks than items) contributes nothing: its bounds are (0, 0) and the guard is false everywhere *)
Example C13_ex_idle_rank_owns_nothing :
  stf_bounds_code 8 11 16 = Some (0, 0) /\ forallb (fun pos => negb (stf_guard_code pos 0 0)) (zrange 8) = true.
Proof. vm_compute. auto. Qed.

Local Open Scope Z_scope.

Theorem C13_extras_gathered_in_order : forall (B : Type) (g : Z -> list B) (T P : Z),
  0 <= T -> 1 <= P -> dist_extras g T P = Some (flat_map g (zrange T)).
Proof. exact @dist_extras_eq_seq. Qed.
Print Assumptions C13_extras_gathered_in_order.

Theorem C13_make_changes_eq_map : forall (A : Type) (neq : A -> A -> bool) (h : A -> A) (all_fun : list A) (str_fun : Z -> list A) (P : Z),
  1 <= P ->
  (forall x, neq (h x) x = false -> h x = x) ->
  (forall r, 0 <= r < P -> exists s, is_slice all_fun r P = Some s /\ str_fun r = map h s) ->
  dist_make_changes neq all_fun str_fun P = Some (map h all_fun).
Proof. exact @make_changes_eq_map. Qed.
Print Assumptions C13_make_changes_eq_map.

Theorem C13_initial_sympify_eq_map : forall (A : Type) (h : A -> A) (all_fun : list A) (P : Z),
  1 <= P -> dist_initial_sympify h all_fun P = Some (map Some (map h all_fun)).
Proof. exact @initial_sympify_eq_map. Qed.
Print Assumptions C13_initial_sympify_eq_map.

Theorem C13_load_subs_rows_preserved : forall (Sb Sb' : Type) (fe : Sb -> Sb') (subs : list (list Sb)) (P : Z),
  1 <= P -> dist_load_subs fe subs P = Some (map (map fe) subs).
Proof. exact @load_subs_rows_preserved. Qed.
Print Assumptions C13_load_subs_rows_preserved.

Theorem C13_expand_or_factor_rank_independent : forall (V : Type) (g : Z -> option V) (vals : list V) (P : Z),
  1 <= P -> dist_expand_or_factor g vals P = dist_expand_or_factor g vals 1.
Proof. exact @expand_or_factor_eq_seq. Qed.
Print Assumptions C13_expand_or_factor_rank_independent.

Theorem C13_change_loop_rank_independent : forall (F Y S A : Type) (g : A -> list (Z * Z * S)) (items : list A)
    (st : @cl_state F Y S) (P : Z),
  1 <= P -> dist_change_loop g items st P = dist_change_loop g items st 1.
Proof. exact @change_loop_eq_seq. Qed.
Print Assumptions C13_change_loop_rank_independent.

Theorem C13_check_results_rank_independent : forall (F M : Type) (bad : F -> M -> bool) (funs : list F) (matches : list M) (shufidx : list Z) (P : Z),
  1 <= P -> length matches = length funs -> length shufidx = length funs ->
  dist_check_results bad funs matches shufidx P = dist_check_results bad funs matches shufidx 1.
Proof. exact @check_results_rank_independent. Qed.
Print Assumptions C13_check_results_rank_independent.

(* deadlock freedom of the collective structure: in every reachable, unfinished state some rank can
   take a progress step (deposit or pick-up); the measure is bounded by 2*|prog|*P, so every fair
   execution finishes, and then equals the lock-step run by C13_schedule_independent *)
Theorem C13_deadlock_free :
  forall (S C : Type) (P : nat) (prog : list (phase S C)) (init : nat -> S) (sched : list nat),
    (1 <= P)%nat -> let a := arun P prog init sched in
    ~ finished prog a -> exists r, (r < P)%nat /\ measure S C (astep P prog a r) = Datatypes.S (measure S C a).
Proof. exact bsp_deadlock_free. Qed.
Print Assumptions C13_deadlock_free.
