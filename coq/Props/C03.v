(* C03 -- merging duplicates never changes a function: matches and parameter maps exact.
   Property theorems only: each is closed by [exact] of a lemma proved in Proofs/, with
   Print Assumptions beneath it.  Subjects: Model/Uniq.v (get_unique_indexes,
   get_match_indexes, shuffle remap) and Model/DoSympy.v (do_sympy rounds, per-round files,
   their re-combination in duplicate_checker.main, check_results' un-merge), with
   sympy_simplify / np.random.shuffle / simplify_inv_subs / check_results' verdicts as oracles. *)
From Coq Require Import List Bool Arith NArith ZArith Lia Permutation Sorted.
From ESRV Require Import Common.Py Gen.GenUniq Model.Uniq Model.DoSympy Proofs.UniqProofs Proofs.UniqGenProofs Proofs.DoSympyProofs
  Gen.GenCancel Proofs.CancelGenericProofs Proofs.CancelC03Proofs.
Import ListNotations.
Open Scope nat_scope.

(* ---------------------------------------------------------------- utils.get_unique_indexes *)
(* the OrderedDict holds the distinct values of L in order of first appearance, each with the index
   of its first occurrence *)
Theorem C03_unique_indexes_spec : forall (A : Type) (eqb : A -> A -> bool),
  (forall x y, eqb x y = true <-> x = y) ->
  forall L, gui_result eqb L = map (fun k => (k, first_index eqb k L)) (dedup eqb L).
Proof. exact gui_result_spec. Qed.
Print Assumptions C03_unique_indexes_spec.

(* uniq_spec: every element of L is a key of `match` and uniq_fun[match[f]] = f *)
Theorem C03_uniq_spec : forall (A : Type) (eqb : A -> A -> bool),
  (forall x y, eqb x y = true <-> x = y) ->
  forall L f, In f L ->
    exists m, dget eqb f (gui_match eqb L) = Some m /\ nth_error (uniq_keys eqb L) m = Some f /\ m < length (uniq_keys eqb L).
Proof. exact uniq_spec. Qed.
Print Assumptions C03_uniq_spec.

Theorem C03_uniq_distinct : forall (A : Type) (eqb : A -> A -> bool),
  (forall x y, eqb x y = true <-> x = y) -> forall L, NoDup (uniq_keys eqb L).
Proof. exact uniq_keys_nodup. Qed.
Print Assumptions C03_uniq_distinct.

(* order of first occurrence: recorded first indices strictly increase along the unique list, each
   is the least index holding its key *)
Theorem C03_uniq_order : forall (A : Type) (eqb : A -> A -> bool),
  (forall x y, eqb x y = true <-> x = y) ->
  forall L,
    StronglySorted lt (uniq_vals eqb L) /\
    (forall m k, nth_error (uniq_keys eqb L) m = Some k ->
       exists v, nth_error (uniq_vals eqb L) m = Some v /\ nth_error L v = Some k /\ forall j, j < v -> nth_error L j <> Some k).
Proof. exact uniq_order. Qed.
Print Assumptions C03_uniq_order.

(* ---------------------------------------------------------------- utils.get_match_indexes *)
Theorem C03_get_match_indexes_spec : forall (A : Type) (eqb : A -> A -> bool),
  (forall x y, eqb x y = true <-> x = y) ->
  forall a b r, get_match_indexes eqb a b = Some r ->
    length r = length b /\
    forall k f, nth_error b k = Some f ->
      exists v, nth_error r k = Some v /\ nth_error a v = Some f /\ forall j, j < v -> nth_error a j <> Some f.
Proof. exact get_match_indexes_first. Qed.
Print Assumptions C03_get_match_indexes_spec.

Theorem C03_get_match_indexes_total : forall (A : Type) (eqb : A -> A -> bool),
  (forall x y, eqb x y = true <-> x = y) ->
  forall a b, (forall f, In f b -> In f a) -> get_match_indexes eqb a b = Some (map (fun f => first_index eqb f a) b).
Proof. exact get_match_indexes_spec. Qed.
Print Assumptions C03_get_match_indexes_total.

Theorem C03_get_match_indexes_keyerror : forall (A : Type) (eqb : A -> A -> bool),
  (forall x y, eqb x y = true <-> x = y) ->
  forall a b f, In f b -> ~ In f a -> get_match_indexes eqb a b = None.
Proof. exact get_match_indexes_keyerror. Qed.
Print Assumptions C03_get_match_indexes_keyerror.

(* ---------------------------------------------------------------- the same, on the code REGENERATED from utils.py on every run *)
(* Gen/GenUniq.v is produced by harness/translate/uniq.py from the current source of get_unique_indexes / get_match_indexes
   (OrderedDict = insertion-ordered association list, for-range loops, dict/list comprehensions).  It computes exactly the hand
   model (indices as Z), for every element type, equality and input ... *)
Theorem C03_code_unique_indexes_is_model : forall (A : Type) (eqb : A -> A -> bool) (L : list A),
  GenUniq.get_unique_indexes eqb L = Some (zd (gui_result eqb L), zd (gui_match eqb L)).
Proof. exact (fun A eqb => @gen_get_unique_indexes A eqb). Qed.
Print Assumptions C03_code_unique_indexes_is_model.

Theorem C03_code_match_indexes_is_model : forall (A : Type) (eqb : A -> A -> bool),
  (forall x y, eqb x y = eqb y x) ->
  forall a b : list A,
  GenUniq.get_match_indexes eqb a b = option_map (map Z.of_nat) (Uniq.get_match_indexes eqb a b).
Proof. exact (fun A eqb => @gen_get_match_indexes A eqb). Qed.
Print Assumptions C03_code_match_indexes_is_model.

(* ... hence the code never raises in get_unique_indexes and returns the distinct values in order of first appearance with their
   first indices, and each distinct value's position *)
Theorem C03_code_unique_indexes : forall (A : Type) (eqb : A -> A -> bool),
  (forall x y, eqb x y = true <-> x = y) ->
  forall L : list A,
  GenUniq.get_unique_indexes eqb L
  = Some (map (fun k => (k, Z.of_nat (first_index eqb k L))) (dedup eqb L),
          combine (dedup eqb L) (map Z.of_nat (seq 0 (length (dedup eqb L))))).
Proof. exact (fun A eqb => @code_get_unique_indexes A eqb). Qed.
Print Assumptions C03_code_unique_indexes.

Theorem C03_code_match_indexes_total : forall (A : Type) (eqb : A -> A -> bool),
  (forall x y, eqb x y = true <-> x = y) ->
  forall a b : list A, (forall f, In f b -> In f a) ->
  GenUniq.get_match_indexes eqb a b = Some (map (fun f => Z.of_nat (first_index eqb f a)) b).
Proof. exact (fun A eqb => @code_get_match_indexes_total A eqb). Qed.
Print Assumptions C03_code_match_indexes_total.

Theorem C03_code_match_indexes_keyerror : forall (A : Type) (eqb : A -> A -> bool),
  (forall x y, eqb x y = true <-> x = y) ->
  forall (a b : list A) f, In f b -> ~ In f a -> GenUniq.get_match_indexes eqb a b = None.
Proof. exact (fun A eqb => @code_get_match_indexes_keyerror A eqb). Qed.
Print Assumptions C03_code_match_indexes_keyerror.

Example C03_ex_code_unique :
  GenUniq.get_unique_indexes Z.eqb [5; 7; 5; 9; 7]%Z = Some ([(5, 0); (7, 1); (9, 3)], [(5, 0); (7, 1); (9, 2)])%Z.
Proof. vm_compute. reflexivity. Qed.
Example C03_ex_code_match :
  GenUniq.get_match_indexes Z.eqb [5; 7; 5; 9; 7]%Z [9; 5]%Z = Some [3; 0]%Z /\
  GenUniq.get_match_indexes Z.eqb [5; 7]%Z [9]%Z = None.
Proof. vm_compute. auto. Qed.

(* ---------------------------------------------------------------- shuffle + inverse remap *)
(* for ANY permutation left by np.random.shuffle: uniq'[match_idx[k]] = all_fun[k], uniq' duplicate-free *)
Theorem C03_shuffle_remap : forall (A : Type) (eqb : A -> A -> bool),
  (forall x y, eqb x y = true <-> x = y) ->
  forall (L : list A) (i : list nat),
    Permutation i (seq 0 (length (uniq_keys eqb L))) ->
    exists uniq' midx,
      shuffle_uniq (uniq_keys eqb L) i = Some uniq' /\
      shuffle_match eqb (gui_match eqb L) i L = Some midx /\
      length midx = length L /\
      length uniq' = length (uniq_keys eqb L) /\
      (forall k f, nth_error L k = Some f -> exists q, nth_error midx k = Some q /\ nth_error uniq' q = Some f) /\
      NoDup uniq' /\ Permutation uniq' (uniq_keys eqb L).
Proof. exact shuffle_remap. Qed.
Print Assumptions C03_shuffle_remap.

(* ---------------------------------------------------------------- composition order *)
Theorem C03_compose_app : forall (Env : Type) (sden : N -> Env -> Env) c1 c2 theta,
  compose Env sden (c1 ++ c2) theta = compose Env sden c1 (compose Env sden c2 theta).
Proof. exact compose_app. Qed.
Print Assumptions C03_compose_app.

(* ---------------------------------------------------------------- the cancellation step, from the code *)
(* simplify_inv_subs as REGENERATED from simplifier.py on every run (Gen/GenCancel.v), on chains of abstract substitution ids:
   it satisfies the contract cancel_ok that C03_chain_sound assumes, whenever the members of all_dup denote involutions of the
   parameter vector and the nan marker is not one of them (which is what C17 proves of get_all_dup) *)
Theorem C03_cancel_contract_of_code : forall (Env : Type) (sden : N -> Env -> Env) (dup : list N),
  (forall s, In s dup -> forall theta, sden s (sden s theta) = theta) ->
  ~ In nan_sub dup ->
  cancel_ok Env sden (code_cancel N.eqb dup).
Proof. exact code_cancel_ok. Qed.
Print Assumptions C03_cancel_contract_of_code.

(* ---------------------------------------------------------------- rounds, files, main *)
(* chain_sound: if every executed sympy_simplify call honours its contract, then for every function i
   the string handed to do_sympy, composed with its final row, is its unique -- any number of rounds,
   both phases, through the per-round files, the shuffle and simplify_inv_subs *)
Theorem C03_chain_sound : forall (V Env : Type) (den : N -> Env -> V) (sden : N -> Env -> Env) (npar : N -> nat)
    cp mp E xo os perm cancel check T o,
  main cp mp E xo os perm cancel check T = Some o ->
  Permutation perm (seq 0 (length (uniq_keys N.eqb (o_fun o)))) ->
  run_sound V Env den sden npar cp mp (inherit E xo) os ->
  cancel_ok Env sden cancel ->
  forall i f0, nth_error (o_a0 o) i = Some f0 ->
    exists q u c, nth_error (l_match (o_lib o)) i = Some q /\ nth_error (l_uniq (o_lib o)) q = Some u /\
                  nth_error (l_subs (o_lib o)) i = Some c /\ step_sound V Env den sden npar f0 u c.
Proof. exact chain_sound. Qed.
Print Assumptions C03_chain_sound.

(* the same with the cancellation step instantiated by the generated code: no contract hypothesis on simplify_inv_subs *)
Theorem C03_chain_sound_code_cancel : forall (V Env : Type) (den : N -> Env -> V) (sden : N -> Env -> Env) (npar : N -> nat)
    cp mp E xo os perm (dup : list N) check T o,
  (forall s, In s dup -> forall theta, sden s (sden s theta) = theta) ->
  ~ In nan_sub dup ->
  main cp mp E xo os perm (code_cancel N.eqb dup) check T = Some o ->
  Permutation perm (seq 0 (length (uniq_keys N.eqb (o_fun o)))) ->
  run_sound V Env den sden npar cp mp (inherit E xo) os ->
  forall i f0, nth_error (o_a0 o) i = Some f0 ->
    exists q u c, nth_error (l_match (o_lib o)) i = Some q /\ nth_error (l_uniq (o_lib o)) q = Some u /\
                  nth_error (l_subs (o_lib o)) i = Some c /\ step_sound V Env den sden npar f0 u c.
Proof. exact chain_sound_code_cancel. Qed.
Print Assumptions C03_chain_sound_code_cancel.

Theorem C03_uniques_distinct : forall cp mp E xo os perm cancel check T o,
  main cp mp E xo os perm cancel check T = Some o ->
  Permutation perm (seq 0 (length (uniq_keys N.eqb (o_fun o)))) ->
  NoDup (l_uniq (o_lib o)) /\ Permutation (l_uniq (o_lib o)) (dedup N.eqb (o_fun o)).
Proof. exact uniques_distinct. Qed.
Print Assumptions C03_uniques_distinct.

Theorem C03_rows_aligned : forall cp mp E xo os perm cancel check T o,
  main cp mp E xo os perm cancel check T = Some o ->
  length xo <= length E -> (forall r, In r T -> r < length E) ->
  let n := length E in
  length (o_a0 o) = n /\ length (o_fun o) = n /\ length (o_combined o) = n /\
  Forall (fun r => length (rr_fun r) = n /\ length (rr_inv r) = n /\
                   length (inv_rows (rr_inv r)) = length (inv_idx (rr_inv r)) /\
                   StronglySorted lt (inv_idx (rr_inv r)) /\ (forall j, In j (inv_idx (rr_inv r)) -> j < n)) (o_rounds o) /\
  length (l_match (o_lib o)) = n /\ length (l_subs (o_lib o)) = n /\
  length (l_match (o_final o)) = n /\ length (l_subs (o_final o)) = n /\
  o_round1 o <= length (o_rounds o) /\
  exists used, os = used ++ o_left o /\ length used = length (o_rounds o).
Proof. exact rows_aligned. Qed.
Print Assumptions C03_rows_aligned.

(* the re-combination of the per-round index/row files is the per-function concatenation in round order *)
Theorem C03_combine_rounds : forall n rounds,
  length (combine_rounds n rounds) = n /\
  forall i, i < n -> nth i (combine_rounds n rounds) [] = chain_i i rounds.
Proof. exact combine_rounds_spec. Qed.
Print Assumptions C03_combine_rounds.

(* nan (or any substitution) in a row was returned by some sympy_simplify call *)
Theorem C03_chains_from_oracle : forall cp mp E xo os perm cancel check T o,
  main cp mp E xo os perm cancel check T = Some o ->
  forall i s, In s (nth i (o_combined o) []) -> from_oracle os s.
Proof. exact chains_from_oracle. Qed.
Print Assumptions C03_chains_from_oracle.

(* ---------------------------------------------------------------- check_results *)
Theorem C03_unmerge_sound : forall (E : list N) (lib : library) (T : list nat),
  length (l_match lib) = length E -> length (l_subs lib) = length E ->
  (forall r, In r T -> r < length E) ->
  let lib' := unmerge E lib T in
  length (l_match lib') = length E /\ length (l_subs lib') = length E /\
  (forall r, In r T -> exists q, nth_error (l_match lib') r = Some q /\
                                 nth_error (l_uniq lib') q = Some (nth r E 0%N) /\ nth_error (l_subs lib') r = Some []) /\
  (forall i, ~ In i T -> nth_error (l_match lib') i = nth_error (l_match lib) i /\
                         nth_error (l_subs lib') i = nth_error (l_subs lib) i) /\
  (forall q, q < length (l_uniq lib) -> nth_error (l_uniq lib') q = nth_error (l_uniq lib) q) /\
  (NoDup (l_uniq lib) -> NoDup (l_uniq lib')).
Proof. exact unmerge_sound. Qed.
Print Assumptions C03_unmerge_sound.

(* the unique list written at the very end is duplicate-free (an un-merged function whose own string is
   already a unique is matched to that entry, not appended again) *)
Theorem C03_final_uniques_distinct : forall cp mp E xo os perm cancel check T o,
  main cp mp E xo os perm cancel check T = Some o ->
  length xo <= length E -> (forall r, In r T -> r < length E) ->
  Permutation perm (seq 0 (length (uniq_keys N.eqb (o_fun o)))) ->
  NoDup (l_uniq (o_final o)).
Proof. exact final_uniques_distinct. Qed.
Print Assumptions C03_final_uniques_distinct.

(* ---------------------------------------------------------------- the library *)
(* For every function i, with its own string E[i] (all_equations), its final match q, unique u and row c:
   E[i] with c substituted is u exactly when c has no nan; a nan row implies strictly fewer parameters
   (nan_only_if_fewer).  Hypotheses = the oracle contracts + the C11 contract for extra trees. *)
Theorem C03_library : forall (V Env : Type) (den : N -> Env -> V) (sden : N -> Env -> Env) (npar : N -> nat)
    cp mp E xo os perm cancel check T o,
  main cp mp E xo os perm cancel check T = Some o ->
  length xo <= length E -> (forall k f, nth_error xo k = Some f -> f < length E) ->
  (forall r, In r T -> r < length E) ->
  Permutation perm (seq 0 (length (uniq_keys N.eqb (o_fun o)))) ->
  run_sound V Env den sden npar cp mp (inherit E xo) os ->
  cancel_ok Env sden cancel ->
  (forall k f, nth_error xo k = Some f ->
     step_sound V Env den sden npar (nth (length E - length xo + k) E 0%N) (nth f E 0%N) []) ->
  forall i, i < length E ->
    exists q u c,
      nth_error (l_match (o_final o)) i = Some q /\ nth_error (l_uniq (o_final o)) q = Some u /\
      nth_error (l_subs (o_final o)) i = Some c /\
      step_sound V Env den sden npar (nth i E 0%N) u c /\
      (has_nan c = true -> npar u < npar (nth i E 0%N)) /\
      (has_nan c = false -> forall theta, den (nth i E 0%N) (compose Env sden c theta) = den u theta).
Proof. exact DoSympyProofs.C03_library. Qed.
Print Assumptions C03_library.

(* ---------------------------------------------------------------- non-vacuity *)
Example C03_ex_uniq : get_unique_indexes N.eqb [5; 3; 5; 7; 3]%N = ([(5%N, 0); (3%N, 1); (7%N, 3)], [(5%N, 0); (3%N, 1); (7%N, 2)]).
Proof. vm_compute. reflexivity. Qed.
Example C03_ex_gmi : get_match_indexes N.eqb [5; 3; 5; 7; 3]%N [7; 3; 3]%N = Some [3; 1; 1]
                     /\ get_match_indexes N.eqb [5; 3]%N [4]%N = None.
Proof. vm_compute. split; reflexivity. Qed.
Example C03_ex_shuffle :
  shuffle_uniq (uniq_keys N.eqb [5; 3; 5; 7; 3]%N) [2; 0; 1] = Some [7; 5; 3]%N /\
  shuffle_match N.eqb (gui_match N.eqb [5; 3; 5; 7; 3]%N) [2; 0; 1] [5; 3; 5; 7; 3]%N = Some [1; 2; 1; 0; 2].
Proof. vm_compute. split; reflexivity. Qed.
(* a complete run: 4 functions, 3 executed rounds (2 + 1), a sign-flip chain, a nan chain *)
Example C03_ex_run : option_map o_final ex_main = Some (mk_lib [2%N] [0; 0; 0; 0] [[1%N]; []; [1%N]; [0%N]]).
Proof. exact ex_runs. Qed.
(* ... whose oracle answers satisfy the contract for a concrete meaning of the strings *)
Example C03_ex_run_sound : run_sound Z (Z * Z) ex_den ex_sden ex_npar ex_cp 2 (inherit ex_E []) ex_os.
Proof. exact ex_sound. Qed.
(* ... so that every hypothesis of C03_library holds and its conclusion is obtained *)
Example C03_ex_library : forall i, i < 4 ->
  exists q u c, option_map (fun o => nth_error (l_match (o_final o)) i) ex_main = Some (Some q) /\
                option_map (fun o => nth_error (l_uniq (o_final o)) q) ex_main = Some (Some u) /\
                option_map (fun o => nth_error (l_subs (o_final o)) i) ex_main = Some (Some c) /\
                (has_nan c = true -> ex_npar u < ex_npar (nth i ex_E 0%N)) /\
                (has_nan c = false -> forall theta, ex_den (nth i ex_E 0%N) (compose (Z * Z) ex_sden c theta) = ex_den u theta).
Proof. exact ex_library. Qed.
(* un-merge on concrete files: function 1 gets its own string back as a new unique; function 2, whose own
   string 8 is already a unique, is matched to that entry and nothing is appended for it *)
Example C03_ex_unmerge : unmerge [4; 9; 8]%N (mk_lib [6; 8]%N [1; 0; 0] [[3%N]; [2%N]; [3%N]]) [1; 2]
                         = mk_lib [6; 8; 9]%N [1; 2; 1] [[3%N]; []; []].
Proof. vm_compute. reflexivity. Qed.
