(* Mechanism theorems next to C14 (share sizes of split_idx / get_functions as the code has them now).
   Not obligations of C14: the property asks for a tiling, not for particular shares; see DESIGN.md, C14. *)
From Coq Require Import ZArith List.
From ESRV Require Import Common.Py Common.Tiling Gen.GenPartition Proofs.PartitionProofs Proofs.PartitionShareProofs.
Import ListNotations.
Open Scope Z_scope.

(* test_all.get_functions, the shares: every rank but the last gets exactly k rows, where k is the greatest
   integer <= ceil(N/P) with k (P-1) <= N, and the last rank gets the remaining N - (P-1) k rows. *)
Theorem Mech14_get_functions_share : forall (A : Type) (l : list A) (P : Z),
  1 <= P ->
  let N := py_len l in
  exists k, 0 <= k <= - ((- N) / P) /\ k * (P - 1) <= N /\
    (k = - ((- N) / P) \/ N < (k + 1) * (P - 1)) /\
    (forall r, 0 <= r < P - 1 -> gf_end l r P - gf_start l r P = k) /\
    gf_end l (P - 1) P - gf_start l (P - 1) P = N - (P - 1) * k.
Proof. exact @get_functions_share. Qed.
Print Assumptions Mech14_get_functions_share.

(* utils.split_idx, load balance: rank r owns N/P indices plus one when r < N mod P, so any two
   ranks differ by at most one index and no rank owns more than ceil(N/P). *)
Theorem Mech14_split_idx_balanced : forall N P r : Z,
  0 <= N -> 1 <= P -> 0 <= r < P ->
  Z.of_nat (length (si_range (split_idx N r P))) = N / P + (if r <? N mod P then 1 else 0).
Proof. exact split_idx_balanced. Qed.
Print Assumptions Mech14_split_idx_balanced.

