(* C16 -- results do not depend on earlier runs.
   Property theorems only: each is closed by [exact] of a lemma proved in
   Proofs/HistoryProofs.v, with Print Assumptions beneath it.  The stage programs
   of Model/History.v are compared with traces of the real stages on every run. *)
From Coq Require Import List Bool Arith.
From ESRV Require Import Model.History Proofs.HistoryProofs.
Import ListNotations.

(* --- the general theorem: for EVERY program that passes the two checkable predicates, every
   interpretation of its write sites, every rank bound, and every two initial states that agree on
   the declared inputs and on the temp files: same values read, same contents in every file written. *)
Theorem C16_output_independent_of_store :
  forall (V : Type) (interp : nat -> list (obs V) -> contents V) (R : nat)
         (p : prog) (inp : fname -> bool) (s1 s2 : store V) (l1 l2 : locs),
    def_before_use inp p = true -> inserted_before_lookup p = true ->
    agree V (fun f => inp f || is_tmp f) s1 s2 ->
    locs_ok l1 -> locs_ok l2 ->
    st_reads (run V interp R p (mkSt s1 l1 [])) = st_reads (run V interp R p (mkSt s2 l2 []))
    /\ forall f, In f (written p) ->
         st_files (run V interp R p (mkSt s1 l1 [])) f = st_files (run V interp R p (mkSt s2 l2 [])) f.
Proof. exact output_independent_of_store. Qed.
Print Assumptions C16_output_independent_of_store.

(* completed (temp-balanced) programs leave no temp file behind *)
Theorem C16_clean_preserved :
  forall (V : Type) (interp : nat -> list (obs V) -> contents V) (R : nat) (p : prog) (a : state V),
    tmp_balanced p = true -> clean V (st_files a) -> clean V (st_files (run V interp R p a)).
Proof. exact clean_preserved. Qed.
Print Assumptions C16_clean_preserved.

(* fresh process vs. the same call after any history of temp-balanced programs that left the inputs alone *)
Theorem C16_fresh_vs_history :
  forall (V : Type) (interp : nat -> list (obs V) -> contents V) (R : nat)
         (p : prog) (inp : fname -> bool) (h : list prog) (s0 : store V),
    def_before_use inp p = true -> inserted_before_lookup p = true ->
    Forall (fun q => tmp_balanced q = true) h -> clean V s0 ->
    let sh := run_history V interp R h (fresh V s0) in
    agree V inp s0 (st_files sh) ->
    st_reads (run V interp R p (fresh V s0)) = st_reads (run V interp R p (start V sh))
    /\ forall f, In f (written p) ->
         st_files (run V interp R p (fresh V s0)) f = st_files (run V interp R p (start V sh)) f.
Proof. exact fresh_vs_history. Qed.
Print Assumptions C16_fresh_vs_history.

(* --- sympy_locs *)
Theorem C16_locs_monotone_idempotent :
  forall (V : Type) (interp : nat -> list (obs V) -> contents V) (R : nat) (h : list prog) (s0 : store V),
    Forall (fun p => prefix_inserts p = true) h ->
    forall k, st_locs (run_history V interp R h (fresh V s0)) k = locs_upto (hist_K h) k.
Proof. exact locs_monotone_idempotent. Qed.
Print Assumptions C16_locs_monotone_idempotent.

Theorem C16_locs_insert_idempotent : forall i l k, locs_insert i (locs_insert i l) k = locs_insert i l k.
Proof. exact locs_insert_idem. Qed.
Theorem C16_locs_insert_present :
  forall i l, l (KParam i) = Some (LReal i) -> forall k, locs_insert i l k = l k.
Proof. exact locs_insert_present. Qed.
Print Assumptions C16_locs_insert_present.

(* --- ESR's stage programs pass the checks, for all complexities, bases, runs, rank counts and
   data-dependent shape parameters *)
Theorem C16_generation_def_before_use : forall b n G, def_before_use generation_inputs (generation_prog b n G) = true.
Proof. exact generation_def_before_use. Qed.
Theorem C16_generation_inserted_before_lookup : forall b n G,
  forallb block_ok (gen_blocks G) = true -> inserted_before_lookup (generation_prog b n G) = true.
Proof. exact generation_inserted_before_lookup. Qed.
Theorem C16_generation_tmp_balanced : forall b n G, tmp_balanced (generation_prog b n G) = true.
Proof. exact generation_tmp_balanced. Qed.
Theorem C16_fit_def_before_use : forall run b n prev ms,
  def_before_use (fit_inputs b n prev) (fit_prog run b n prev ms) = true.
Proof. exact fit_def_before_use. Qed.
Theorem C16_fit_tmp_balanced : forall run b n prev ms, tmp_balanced (fit_prog run b n prev ms) = true.
Proof. exact fit_tmp_balanced. Qed.
Theorem C16_fisher_def_before_use : forall run b n P,
  def_before_use (fisher_inputs run b n) (fisher_prog run b n P) = true.
Proof. exact fisher_def_before_use. Qed.
Theorem C16_fisher_tmp_balanced : forall run b n P, tmp_balanced (fisher_prog run b n P) = true.
Proof. exact fisher_tmp_balanced. Qed.
Theorem C16_match_def_before_use : forall run b n blks,
  def_before_use (match_inputs run b n) (match_prog run b n blks) = true.
Proof. exact match_def_before_use. Qed.
Theorem C16_match_inserted_before_lookup : forall run b n blks,
  forallb block_ok blks = true -> inserted_before_lookup (match_prog run b n blks) = true.
Proof. exact match_inserted_before_lookup. Qed.
Theorem C16_match_tmp_balanced : forall run b n blks, tmp_balanced (match_prog run b n blks) = true.
Proof. exact match_tmp_balanced. Qed.
Theorem C16_combine_def_before_use : forall run b n P m,
  def_before_use (combine_inputs run b n) (combine_prog run b n P m) = true.
Proof. exact combine_def_before_use. Qed.
Theorem C16_combine_tmp_balanced : forall run b n P m, tmp_balanced (combine_prog run b n P m) = true.
Proof. exact combine_tmp_balanced. Qed.

(* --- the property: each stage, fresh process on a store without temp files vs. the same call after
   ANY sequence of completed ESR calls (other bases, complexities, runs, rank counts, repeats).
   Generation has no declared input file, so nothing at all is assumed about what the history wrote. *)
Theorem C16_generation_after_any_history :
  forall (V : Type) (interp : nat -> list (obs V) -> contents V) (R : nat) b n G h (s0 : store V),
    forallb block_ok (gen_blocks G) = true -> esr_history h -> clean V s0 ->
    same_outputs V interp R (generation_prog b n G) h s0.
Proof. exact generation_after_any_history. Qed.
Print Assumptions C16_generation_after_any_history.

Theorem C16_fit_after_any_history :
  forall (V : Type) (interp : nat -> list (obs V) -> contents V) (R : nat) run b n prev ms h (s0 : store V),
    esr_history h -> clean V s0 ->
    agree V (fit_inputs b n prev) s0 (st_files (run_history V interp R h (fresh V s0))) ->
    same_outputs V interp R (fit_prog run b n prev ms) h s0.
Proof. exact fit_after_any_history. Qed.
Print Assumptions C16_fit_after_any_history.

Theorem C16_fisher_after_any_history :
  forall (V : Type) (interp : nat -> list (obs V) -> contents V) (R : nat) run b n P h (s0 : store V),
    esr_history h -> clean V s0 ->
    agree V (fisher_inputs run b n) s0 (st_files (run_history V interp R h (fresh V s0))) ->
    same_outputs V interp R (fisher_prog run b n P) h s0.
Proof. exact fisher_after_any_history. Qed.
Print Assumptions C16_fisher_after_any_history.

Theorem C16_match_after_any_history :
  forall (V : Type) (interp : nat -> list (obs V) -> contents V) (R : nat) run b n blks h (s0 : store V),
    forallb block_ok blks = true -> esr_history h -> clean V s0 ->
    agree V (match_inputs run b n) s0 (st_files (run_history V interp R h (fresh V s0))) ->
    same_outputs V interp R (match_prog run b n blks) h s0.
Proof. exact match_after_any_history. Qed.
Print Assumptions C16_match_after_any_history.

Theorem C16_combine_after_any_history :
  forall (V : Type) (interp : nat -> list (obs V) -> contents V) (R : nat) run b n P m h (s0 : store V),
    esr_history h -> clean V s0 ->
    agree V (combine_inputs run b n) s0 (st_files (run_history V interp R h (fresh V s0))) ->
    same_outputs V interp R (combine_prog run b n P m) h s0.
Proof. exact combine_after_any_history. Qed.
Print Assumptions C16_combine_after_any_history.

Theorem C16_locs_after_esr_history :
  forall (V : Type) (interp : nat -> list (obs V) -> contents V) (R : nat) h (s0 : store V),
    esr_history h -> forall k, st_locs (run_history V interp R h (fresh V s0)) k = locs_upto (hist_K h) k.
Proof. exact locs_after_esr_history. Qed.
Print Assumptions C16_locs_after_esr_history.

(* PanthLikelihood's cached grid: the value used is the function of the data whether or not the cache is filled *)
Theorem C16_cached_grid : forall (X G : Type) (grid : X -> G) xvar cache,
  cache_ok X G grid xvar cache ->
  fst (memo_get X G grid xvar cache) = grid xvar /\ cache_ok X G grid xvar (snd (memo_get X G grid xvar cache)).
Proof. exact memo_get_spec. Qed.

(* ------------------------------------------------------------------ non-vacuity and sharpness *)

(* the hypotheses are satisfiable by a real-sized instance, and the checks compute *)
Example C16_ex_gen_checks :
  (def_before_use generation_inputs (generation_prog 0 3 G3),
   inserted_before_lookup (generation_prog 0 3 G3),
   tmp_balanced (generation_prog 0 3 G3), forallb block_ok (gen_blocks G3),
   length (generation_prog 0 3 G3)) = (true, true, true, true, 87).
Proof. vm_compute. reflexivity. Qed.

(* the check is not vacuous: without the four truncations the append-mode files are flagged ... *)
Example C16_ex_untruncated_flagged :
  def_before_use generation_inputs (skipn 4 (generation_prog 0 3 G3)) = false.
Proof. vm_compute. reflexivity. Qed.
(* ... and rightly so: an append to a file the program has not defined shows the old contents *)
Example C16_ex_untruncated_depends :
  let p := [Append (LibF 0 3 OrigTrees 0) 1] in
  let s1 := empty_store in
  let s2 := upd nat empty_store (LibF 0 3 OrigTrees 0) (Some [7]) in
  (st_files (run nat toy_interp 4 p (fresh nat s1)) (LibF 0 3 OrigTrees 0),
   st_files (run nat toy_interp 4 p (fresh nat s2)) (LibF 0 3 OrigTrees 0)) = (Some [1; 0], Some [7; 1; 0]).
Proof. vm_compute. reflexivity. Qed.

(* a lookup of a parameter name before its insertion is flagged, and the result does depend on history *)
Example C16_ex_lookup_before_insert :
  let p := [LocsLookup (KParam 2)] in
  (inserted_before_lookup p,
   st_reads (run nat toy_interp 4 p (fresh nat empty_store)),
   st_reads (run nat toy_interp 4 p (mkSt empty_store (locs_upto 4) []))) = (false, [OLoc None], [OLoc (Some (LReal 2))]).
Proof. vm_compute. reflexivity. Qed.

(* sympy_locs after generation at 2 parameters, a match stage (4 parameters), generation again *)
Example C16_ex_locs_history :
  let h := [generation_prog 0 3 G3; match_prog 0 0 3 [(4, [KParam 0])]; generation_prog 0 3 G3] in
  (hist_K h,
   map (st_locs (run_history nat toy_interp 4 h (fresh nat empty_store))) [KParam 0; KParam 3; KParam 4; KBase 0; KOther 0])
  = (4, [Some (LReal 0); Some (LReal 3); None; Some (LBase 0); None]).
Proof. vm_compute. reflexivity. Qed.

(* sharpness of "completed": a run killed between its savetxt and the cat/rm (rank 5 of a six-rank fit)
   is not temp-balanced, leaves its temp file behind, and a later one-rank fit of the same (run, n)
   then produces a different negloglike file.  The property quantifies over completed runs only. *)
Example C16_ex_crashed_run_leaves_state :
  let h := [fit_crashed 0 0 3 5] in
  let p := fit_prog 0 0 3 false [1] in
  let sh := run_history nat toy_interp 8 h (fresh nat empty_store) in
  (tmp_balanced (fit_crashed 0 0 3 5),
   st_files (run nat toy_interp 8 p (fresh nat empty_store)) (OutF 0 ONegloglike 3),
   st_files (run nat toy_interp 8 p (start nat sh)) (OutF 0 ONegloglike 3))
  = (false, Some [12; 1], Some [12; 1; 12; 1]).
Proof. vm_compute. reflexivity. Qed.
