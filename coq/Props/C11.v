(* C11 -- rewritten (extra) trees are well formed and equal to the tree they came from.
   Property theorems only: each is closed by [exact] of a lemma proved in Proofs/, with
   Print Assumptions beneath it.  Subject: Model/Rewrite.v, the rule-level model of
   generator.update_tree and of the first loop of generator.find_additional_trees
   (power / exp / log rewriting); the model is compared with the real code on every run
   (harness/props/C11.py).  update_sums (phase 2) is not modelled: its outputs are validated
   one by one by the harness. *)
From Coq Require Import Reals ZArith List Bool Lra.
From ESRV Require Import Model.Expr Model.Rewrite Proofs.ExprProofs Proofs.RewriteProofs.
Import ListNotations.

(* prefix label lists and trees are in bijection (check_tree's reading of a label list) *)
Theorem C11_prefix_roundtrip : forall e, of_prefix (to_prefix e) = Some e.
Proof. exact of_prefix_to_prefix. Qed.
Print Assumptions C11_prefix_roundtrip.

Theorem C11_prefix_roundtrip_inv : forall l e, of_prefix l = Some e -> to_prefix e = l.
Proof. exact of_prefix_sound. Qed.
Print Assumptions C11_prefix_roundtrip_inv.

(* every label list produced by phase 1 is a well-formed prefix tree *)
Theorem C11_rewrite_wellformed : forall (B : basis) (l : list label) (outs : list (list label)),
  phase1_labels B l = Some outs -> forall L, In L outs -> wellformed L = true.
Proof. exact rewrite_wellformed. Qed.
Print Assumptions C11_rewrite_wellformed.

(* its labels are labels of the original, integers, or binary operators of the basis *)
Theorem C11_rewrite_labels_ok : forall (B : basis) (t : expr) (out : list expr) (r : expr),
  phase1 B t = Some out -> In r out ->
  forall l, In l (to_prefix r) ->
    In l (to_prefix t) \/ (exists z, l = LN (NNum z)) \/ (exists o, l = LB o /\ inb o B = true).
Proof. exact rewrite_labels_ok. Qed.
Print Assumptions C11_rewrite_labels_ok.

(* it is defined exactly where the original is and has the same value there, for all parameters and x *)
Theorem C11_rewrite_sound : forall (B : basis) (t : expr) (out : list expr) (r : expr),
  phase1 B t = Some out -> In r out ->
  forall (env : nat -> R) (x : R),
    (defined env x t <-> defined env x r) /\ (defined env x t -> eval env x t = eval env x r).
Proof. exact rewrite_sound. Qed.
Print Assumptions C11_rewrite_sound.

(* the same for a single call update_tree(tree, labels, try_idx, basis), whatever try_idx
   (also the sites the driver never reaches) *)
Theorem C11_update_tree_sound : forall (B : basis) (t : expr) (k : nat) (r : expr),
  In r (apply_site B t k) ->
  forall (env : nat -> R) (x : R),
    (defined env x t <-> defined env x r) /\ (defined env x t -> eval env x t = eval env x r).
Proof. exact apply_site_sound. Qed.
Print Assumptions C11_update_tree_sound.

(* same parameter names *)
Theorem C11_same_parameters : forall (B : basis) (t : expr) (out : list expr) (r : expr),
  phase1 B t = Some out -> In r out -> forall i, has_par i t <-> has_par i r.
Proof. exact same_parameters. Qed.
Print Assumptions C11_same_parameters.

(* the driver terminates: the fuel nle(t) * npow(t) + 1 (passes of the while loop) is never exhausted *)
Theorem C11_phase1_terminates : forall (B : basis) (t : expr), phase1 B t <> None.
Proof. exact phase1_terminates. Qed.
Print Assumptions C11_phase1_terminates.

Theorem C11_phase1_labels_total : forall (B : basis) (l : list label),
  wellformed l = true -> phase1_labels B l <> None.
Proof. exact phase1_labels_total. Qed.
Print Assumptions C11_phase1_labels_total.

(* each rewriting step removes at least one power operator and no log/exp node: the measure behind termination *)
Theorem C11_step_measure : forall (B : basis) (t : expr) (k : nat) (r : expr),
  In r (apply_site B t k) -> (k < nle t)%nat /\ (npow r < npow t)%nat /\ nle r = nle t.
Proof. exact apply_site_measures. Qed.
Print Assumptions C11_step_measure.

Theorem C11_first_is_original : forall (B : basis) (t : expr) (out : list expr),
  phase1 B t = Some out -> exists out', out = t :: out'.
Proof. exact phase1_first_is_original. Qed.
Print Assumptions C11_first_is_original.

(* all of it through the label-list interface the correspondence uses *)
Theorem C11_phase1_labels_sound : forall (B : basis) (l : list label) (outs : list (list label)) (t : expr),
  phase1_labels B l = Some outs -> of_prefix l = Some t ->
  forall L, In L outs -> exists r, to_prefix r = L /\ equiv t r /\
    (forall i, has_par i t <-> has_par i r) /\ (forall lb, In lb L -> label_ok B t lb).
Proof. exact phase1_labels_sound. Qed.
Print Assumptions C11_phase1_labels_sound.


(* certificates for the sum phase (update_sums is not modelled): when the verified checker accepts a pair,
   the two trees have the same value at every point *)
Theorem C11_sum_equiv_sound : forall t r : expr, sum_equiv t r = true ->
  forall (env : nat -> R) (x : R), eval env x t = eval env x r.
Proof. exact sum_equiv_sound. Qed.
Print Assumptions C11_sum_equiv_sound.

(* what the harness evaluates for every phase-2 output r of an original l: accepted => r is a tree with the
   same value as the original wherever the original is defined *)
Theorem C11_certified_sound : forall (B : basis) (l r : list label), certified B l r = true ->
  exists t r', of_prefix l = Some t /\ of_prefix r = Some r' /\
    forall (env : nat -> R) (x : R), defined env x t -> eval env x t = eval env x r'.
Proof. exact certified_sound. Qed.
Print Assumptions C11_certified_sound.

(* ---------------------------------------------------------------- non-vacuity / regression examples *)
Definition X := LN NX.
Definition A0 := LN (NPar 0).
Definition N (z : Z) := LN (NNum z).

(* log|u^2| -> (log|u|)*2 ; log|1/u| -> (log|u|)*-1 ; log|sqrt|u|| -> (log|u|)/2 *)
Example C11_ex_log_rules :
  map (phase1_labels [Add; Mul; Sub; Div; Pow]) [[LU LogAbs; LU Square; X]; [LU LogAbs; LU Inv; X]; [LU LogAbs; LU SqrtAbs; X]]
  = [Some [[LU LogAbs; LU Square; X]; [LB Mul; LU LogAbs; X; N 2]];
     Some [[LU LogAbs; LU Inv; X]; [LB Mul; LU LogAbs; X; N (-1)]];
     Some [[LU LogAbs; LU SqrtAbs; X]; [LB Div; LU LogAbs; X; N 2]]].
Proof. vm_compute. reflexivity. Qed.

(* square(exp u) -> exp(u*2) ; inv(exp u) -> exp(u*-1) ; chains multiply, square after sqrt_abs cancels;
   sqrt_abs then cube has product 3/2: the scan stops after the first operator (the cube is absorbed by a second step) *)
Example C11_ex_exp_rules :
  map (phase1_labels [Add; Mul; Sub; Div; Pow])
      [[LU Square; LU Exp; X]; [LU Inv; LU Exp; X]; [LU Square; LU SqrtAbs; LU Exp; X]; [LU Cube; LU SqrtAbs; LU Exp; X]]
  = [Some [[LU Square; LU Exp; X]; [LU Exp; LB Mul; X; N 2]];
     Some [[LU Inv; LU Exp; X]; [LU Exp; LB Mul; X; N (-1)]];
     Some [[LU Square; LU SqrtAbs; LU Exp; X]; [LU Exp; X]];
     Some [[LU Cube; LU SqrtAbs; LU Exp; X]; [LU Cube; LU Exp; LB Div; X; N 2]; [LU Exp; LB Mul; LB Div; X; N 2; N 3]]].
Proof. vm_compute. reflexivity. Qed.

(* the + / - parent cases: a + log|1/u| -> a - log|u| ; log|1/u| - a -> the TWO CASES *)
Example C11_ex_parent_cases :
  map (phase1_labels [Add; Mul; Sub]) [[LB Add; X; LU LogAbs; LU Inv; A0]; [LB Add; LU LogAbs; LU Inv; A0; X]; [LB Sub; LU LogAbs; LU Inv; A0; X]]
  = [Some [[LB Add; X; LU LogAbs; LU Inv; A0]; [LB Sub; X; LU LogAbs; A0]];
     Some [[LB Add; LU LogAbs; LU Inv; A0; X]; [LB Sub; X; LU LogAbs; A0]];
     Some [[LB Sub; LU LogAbs; LU Inv; A0; X]; [LB Mul; N (-1); LB Add; LB Mul; N 1; LU LogAbs; A0; X]; [LB Sub; LB Mul; N (-1); LU LogAbs; A0; X]]].
Proof. vm_compute. reflexivity. Qed.

(* former finding F4 (basis without '-'), repaired in /repo by 84989a6: right argument -> generic rule,
   left argument -> the single second form, as a flat list *)
Example C11_ex_F4_fixed :
  map (phase1_labels [Add; Mul]) [[LB Add; X; LU LogAbs; LU Inv; A0]; [LB Add; LU LogAbs; LU Inv; A0; X]]
  = [Some [[LB Add; X; LU LogAbs; LU Inv; A0]; [LB Add; X; LB Mul; LU LogAbs; A0; N (-1)]];
     Some [[LB Add; LU LogAbs; LU Inv; A0; X]; [LB Add; LB Mul; N (-1); LU LogAbs; A0; X]]].
Proof. vm_compute. reflexivity. Qed.

(* a basis without '/' refuses log|sqrt u| -> (log|u|)/2 *)
Example C11_ex_guard : phase1_labels [Add; Mul] [LU LogAbs; LU SqrtAbs; X] = Some [[LU LogAbs; LU SqrtAbs; X]].
Proof. vm_compute. reflexivity. Qed.

(* the hypotheses of C11_rewrite_sound are satisfiable with a defined original: log|1/a0| at a0 = 2 *)
Example C11_ex_defined : defined (fun _ => 2%R) 1%R (Un LogAbs (Un Inv (Leaf (NPar 0)))).
Proof. simpl. split; [split; [exact I | lra] | apply Rinv_neq_0_compat; lra]. Qed.

(* the checker accepts the measured sum rewrites  x+x -> 2*x,  (x+a0)-x -> a0,  x-x -> 0,  a sum under exp,
   and a sum rewrite applied after a phase-1 step; it refuses a wrong one *)
Example C11_ex_certified :
  map (fun c => certified [Add; Mul; Sub; Div; Pow] (fst c) (snd c))
      [([LB Add; X; X], [LB Mul; N 2; X]);
       ([LB Sub; LB Add; X; A0; X], [A0]);
       ([LB Sub; X; X], [N 0]);
       ([LU Exp; LB Add; X; X], [LU Exp; LB Mul; N 2; X]);
       ([LU Inv; LU Exp; LB Add; X; X], [LU Exp; LB Mul; LB Mul; N 2; X; N (-1)]);
       ([LB Add; X; X], [LB Mul; N 3; X])]
  = [true; true; true; true; true; false].
Proof. vm_compute. reflexivity. Qed.
