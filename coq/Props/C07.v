(* C07 -- parameter code length and zero-snapping follow the MDL formula.
   Property theorems only: each is closed by [exact] of a lemma proved in
   Proofs/FisherProofs.v, with Print Assumptions beneath it.  The subject is the
   hand-written model Model/Fisher.v of test_all_Fisher.convert_params, tied to the
   code by the correspondence of harness/props/C07.py on every run. *)
From Coq Require Import QArith ZArith List Bool Reals Qreals.
From ESRV Require Import Model.Fisher Proofs.FisherProofs.
Import ListNotations.
Close Scope R_scope. Close Scope Q_scope. Open Scope nat_scope.

(* The code's test  |t| / sqrt(12/I) < 1  (Nsteps < 1) is  t^2 I < 12  for I > 0 -- the form
   the model decides on exact rationals -- and is the documented |t| sqrt(I/12) < 1. *)
Theorem C07_snap_test_equiv : forall t i : R, (0 < i)%R ->
  (Rabs t / sqrt (12 / i) < 1 <-> t * t * i < 12)%R.
Proof. exact nsteps_lt1_equiv. Qed.
Print Assumptions C07_snap_test_equiv.

Theorem C07_snap_test_doc_form : forall t i : R, (0 < i)%R ->
  (Rabs t / sqrt (12 / i) = Rabs t * sqrt (i / 12))%R.
Proof. exact nsteps_doc_form. Qed.
Print Assumptions C07_snap_test_doc_form.

Theorem C07_model_test_is_real_test : forall (t q : Q), (0 < q)%Q ->
  (lt1 t (Fin q) = true <-> (Rabs (Q2R t) * sqrt (Q2R q / 12) < 1)%R).
Proof. exact lt1_real. Qed.
Print Assumptions C07_model_test_is_real_test.

(* The whole of [decide] in one equation, for every theta, every positive finite diagonal I,
   every incoming nll and EVERY likelihood fop: parameters = theta with the dropped set D zeroed,
   padded; nll = fop at exactly those parameters (or the incoming nll when D is empty);
   k = n - |D|; the terms of the code length are the kept (I_i, theta_i). *)
Theorem C07_decide_result : forall maxp th I nll fop,
  let n := length th in
  let D := dropped_list th I fop in
  length I = n -> n <= maxp -> good I ->
  decide maxp th I nll fop =
  Ret (mkRes (pad maxp (zero_at D th)) (nll_for th I nll fop) (kept_of D n)
             (Codelen (Z.of_nat (n - length D)) (select (kept_of D n) (combine I th)))).
Proof. exact decide_result. Qed.
Print Assumptions C07_decide_result.

(* codelen_formula: the structure denotes -(k/2) ln 3 + sum over kept (1/2 ln I_ii + ln|theta_i|),
   k = number of kept parameters; (float semantics: -inf if a kept theta_i is exactly 0). *)
Theorem C07_codelen_formula : forall maxp th I nll fop r,
  length I = length th -> length th <= maxp -> good I ->
  decide maxp th I nll fop = Ret r ->
  let k := count (r_kept r) in
  denote (r_len r) =
    if kept_zero (r_kept r) th then DNegInf
    else DReal (- (INR k / 2) * ln 3 + formula_sum (r_kept r) I th)%R.
Proof. exact codelen_formula. Qed.
Print Assumptions C07_codelen_formula.

(* ... and that -inf case cannot occur when the incoming nll is the (finite) likelihood at theta: a kept
   parameter is then never 0, so every ln in the formula has a positive argument (no totalised ln 0). *)
Theorem C07_kept_nonzero : forall maxp th I nll fop r,
  length I = length th -> length th <= maxp -> good I ->
  fop th = nll -> isfin nll = true ->
  (forall i, Qeq_bool (nth i th 0%Q) 0 = true -> nth i th 0%Q = 0%Q) ->
  decide maxp th I nll fop = Ret r -> kept_zero (r_kept r) th = false.
Proof. exact kept_nonzero. Qed.
Print Assumptions C07_kept_nonzero.

(* kept_iff: which parameters are dropped. *)
Theorem C07_kept_iff : forall maxp th I nll fop r,
  length I = length th -> length th <= maxp -> good I ->
  decide maxp th I nll fop = Ret r ->
  let n := length th in
  let C := idx_of (map2 lt1 th I) in
  let dropped i := nth i (r_kept r) true = false in
  (forall i, In i C <-> (i < n /\ below th I i)) /\
  (isfin (fop (zero_at C th)) = true -> forall i, i < n -> (dropped i <-> below th I i)) /\
  (C <> [] -> isfin (fop (zero_at C th)) = false ->
     match find (fin_at fop th) (subsets_in_order C) with
     | Some D => (forall i, i < n -> (dropped i <-> In i D)) /\
                 sublist D C /\ 1 <= length D < length C /\ fin_at fop th D = true /\
                 (forall D', sublist D' C -> length D < length D' < length C -> fin_at fop th D' = false)
     | None => forall i, i < n -> ~ dropped i
     end).
Proof. exact kept_iff. Qed.
Print Assumptions C07_kept_iff.

(* the candidates of the fall-back search are exactly the sublists D of C with 1 <= |D| < |C| ... *)
Theorem C07_fallback_candidates : forall C D,
  In D (subsets_in_order C) <-> (sublist D C /\ 1 <= length D < length C).
Proof. exact subsets_in_order_spec. Qed.
Print Assumptions C07_fallback_candidates.

(* ... tried in itertools.combinations order within a size *)
Theorem C07_fallback_same_size_order : forall fop th C D,
  find (fin_at fop th) (subsets_in_order C) = Some D ->
  exists pre post, combs C (length D) = pre ++ D :: post /\ forall D', In D' pre -> fin_at fop th D' = false.
Proof. exact fallback_same_size_order. Qed.
Print Assumptions C07_fallback_same_size_order.

(* a single below-threshold parameter whose snap is not finite is simply restored *)
Theorem C07_single_candidate_restored : forall th I nll fop,
  length (idx_of (map2 lt1 th I)) = 1 ->
  isfin (fop (zero_at (idx_of (map2 lt1 th I)) th)) = false ->
  dropped_list th I fop = [] /\ nll_for th I nll fop = nll.
Proof. exact single_candidate_restored. Qed.
Print Assumptions C07_single_candidate_restored.

Theorem C07_params_zeroed : forall maxp th I nll fop,
  length I = length th -> length th <= maxp -> good I ->
  forall r, decide maxp th I nll fop = Ret r ->
  length (r_params r) = maxp /\
  forall i, nth i (r_params r) 0%Q =
            if (i <? length th) && nth i (r_kept r) true then nth i th 0%Q else 0%Q.
Proof. exact params_zeroed. Qed.
Print Assumptions C07_params_zeroed.

Theorem C07_nll_is_fop_at_params : forall maxp th I nll fop,
  length I = length th -> length th <= maxp -> good I ->
  forall r, decide maxp th I nll fop = Ret r ->
  (count (r_kept r) = length th -> r_nll r = nll) /\
  (count (r_kept r) < length th -> r_nll r = fop (firstn (length th) (r_params r))).
Proof. exact nll_is_fop_at_params. Qed.
Print Assumptions C07_nll_is_fop_at_params.

Theorem C07_nll_consistent : forall maxp th I nll fop,
  length I = length th -> length th <= maxp -> good I ->
  fop th = nll ->
  forall r, decide maxp th I nll fop = Ret r -> r_nll r = fop (firstn (length th) (r_params r)).
Proof. exact nll_consistent. Qed.
Print Assumptions C07_nll_consistent.

Theorem C07_k_counts_kept : forall maxp th I nll fop,
  length I = length th -> length th <= maxp -> good I ->
  forall r, decide maxp th I nll fop = Ret r ->
  exists ts, r_len r = Codelen (Z.of_nat (count (r_kept r))) ts /\
             ts = select (r_kept r) (combine I th) /\ length ts = count (r_kept r) /\
             count (r_kept r) = length th - length (dropped_list th I fop).
Proof. exact k_counts_kept. Qed.
Print Assumptions C07_k_counts_kept.

Theorem C07_all_dropped_zero_len : forall maxp th I nll fop r,
  length I = length th -> length th <= maxp -> good I ->
  decide maxp th I nll fop = Ret r -> count (r_kept r) = 0 ->
  r_len r = Codelen 0 [] /\ denote (r_len r) = DReal 0 /\ r_params r = repeat 0%Q maxp.
Proof. exact all_dropped_zero_len. Qed.
Print Assumptions C07_all_dropped_zero_len.

(* bad_curvature_nan: no hypothesis on I, theta, nll, fop. *)
Theorem C07_bad_curvature_nan : forall maxp th I nll fop,
  (exists a, In a I /\ nonpos_or_nan a) -> decide maxp th I nll fop = nan_result maxp nll.
Proof. exact bad_curvature_nan. Qed.
Print Assumptions C07_bad_curvature_nan.

(* decide always returns (never quit(), never a NameError); NaN length iff the validity test fires *)
Theorem C07_decide_total : forall maxp th I nll fop,
  exists r, decide maxp th I nll fop = Ret r /\ (r_len r = CNaN <-> bad_second I = true).
Proof. exact decide_total. Qed.
Print Assumptions C07_decide_total.

(* what an `inf` entry does: it fires the FIRST validity test, i.e. the fallback sweep ... *)
Theorem C07_inf_triggers_sweep : forall I, (In PInf I \/ In NInf I) -> bad_first I = true.
Proof. exact inf_triggers_sweep. Qed.
Print Assumptions C07_inf_triggers_sweep.

(* ... and the routine as a whole: NaN return, or [decide] on a positive finite diagonal (first
   Hessian, or a sweep matrix that passed the filter).  So inf/NaN/non-positive curvature never
   reaches the formula, and the second validity test (line 180) can never fire. *)
Theorem C07_convert_cases : forall maxp th H0 cands nll fop,
  let n := length th in
  0 < n ->
  (bad_first (diag n H0) = false /\ good (diag n H0) /\
   convert maxp th H0 cands nll fop = (decide maxp th (diag n H0) nll fop, H0))
  \/ (bad_first (diag n H0) = true /\ choose n cands = NoRepeat /\
      convert maxp th H0 cands nll fop = (nan_result maxp nll, H0))
  \/ (bad_first (diag n H0) = true /\ exists M, choose n cands = Picked M /\ In M cands /\ mat_ok n M = true /\
      good (diag n M) /\ convert maxp th H0 cands nll fop = (decide maxp th (diag n M) nll fop, M)).
Proof. exact convert_cases. Qed.
Print Assumptions C07_convert_cases.

(* ------------------------------------------------------------------ non-vacuity / threshold examples *)
Definition f7 := tbl_fop [] (Fin 7).
(* at the threshold: theta = 1, I = 12 is KEPT (Nsteps = 1 is not < 1) *)
Example C07_ex_at : decide 2 [1%Q] [Fin 12] (Fin 5) f7
  = Ret (mkRes [1%Q; 0%Q] (Fin 5) [true] (Codelen 1 [(Fin 12, 1%Q)])).
Proof. vm_compute. reflexivity. Qed.
(* above: theta = 2, I = 12 kept *)
Example C07_ex_above : decide 2 [2%Q] [Fin 12] (Fin 5) f7
  = Ret (mkRes [2%Q; 0%Q] (Fin 5) [true] (Codelen 1 [(Fin 12, 2%Q)])).
Proof. vm_compute. reflexivity. Qed.
(* below: theta = 1/2, I = 12 dropped, likelihood re-evaluated (7), k = 0, length 0 *)
Example C07_ex_below : decide 2 [(1#2)%Q] [Fin 12] (Fin 5) f7
  = Ret (mkRes [0%Q; 0%Q] (Fin 7) [false] (Codelen 0 [])).
Proof. vm_compute. reflexivity. Qed.
(* I = 12*4, theta = 1/2 is again exactly at the threshold *)
Example C07_ex_at2 : decide 1 [(1#2)%Q] [Fin 48] (Fin 5) f7
  = Ret (mkRes [(1#2)%Q] (Fin 5) [true] (Codelen 1 [(Fin 48, (1#2)%Q)])).
Proof. vm_compute. reflexivity. Qed.
(* single candidate whose snap is infinite: restored *)
Example C07_ex_restore : decide 2 [(1#2)%Q; 3%Q] [Fin 12; Fin 12] (Fin 5) (tbl_fop [([true; false], PInf)] (Fin 7))
  = Ret (mkRes [(1#2)%Q; 3%Q] (Fin 5) [true; true] (Codelen 2 [(Fin 12, (1#2)%Q); (Fin 12, 3%Q)])).
Proof. vm_compute. reflexivity. Qed.
(* the corpus case of the repaired defect: all three below threshold, {0,1,2} -> inf, {0,1} -> 3, singletons inf:
   {0,1} is dropped (before the repair: nothing) *)
Example C07_ex_corpus :
  decide 4 [(1#2)%Q; (1#4)%Q; (1#8)%Q] [Fin 12; Fin 12; Fin 12] (Fin 5)
         (tbl_fop [([true;true;true], PInf); ([true;true;false], Fin 3); ([true;false;false], PInf);
                   ([false;true;false], PInf); ([false;false;true], PInf)] (Fin 7))
  = Ret (mkRes [0%Q; 0%Q; (1#8)%Q; 0%Q] (Fin 3) [false; false; true] (Codelen 1 [(Fin 12, (1#8)%Q)])).
Proof. vm_compute. reflexivity. Qed.
(* bad curvature *)
Example C07_ex_nan : decide 2 [1%Q; 1%Q] [Fin 12; Fin (-1)] (Fin 5) f7 = nan_result 2 (Fin 5).
Proof. vm_compute. reflexivity. Qed.
(* hypotheses of the theorems are satisfiable *)
Example C07_ex_good : good [Fin 12; Fin (3#4)].
Proof. repeat constructor; eexists; split; reflexivity. Qed.
