(* C19 -- supernova distance-modulus prediction equals its defining integral (partial).
   Property theorems only: each is closed by [exact] of a lemma proved in Proofs/, with
   Print Assumptions beneath it.  Subject: Model/Trapz.v (PanthLikelihood.get_pred / clear_data). *)
From Coq Require Import ZArith QArith Qreals Reals List Bool Sorted.
From Coquelicot Require Import Coquelicot.
From ESRV Require Import Model.Trapz Proofs.TrapzProofs Proofs.TrapzRealProofs.
Import ListNotations.

(* ---------------------------------------------------------------- grid and mask, every total preorder *)
(* both instances (the executable one over Q and the one over R) are total preorders *)
Theorem C19_R_is_total_preorder :
  (forall x y : R, @fle RFld x y \/ @fle RFld y x) /\
  (forall x y z : R, @fle RFld x y -> @fle RFld y z -> @fle RFld x z) /\
  (forall x y : R, @feqv RFld x y <-> x = y) /\ (forall x y : R, @flt RFld x y <-> (x < y)%R).
Proof. exact (conj R_total (conj R_trans (conj R_feqv R_flt))). Qed.
Print Assumptions C19_R_is_total_preorder.

Theorem C19_Q_is_total_preorder :
  (forall x y : Q, @fle QFld x y \/ @fle QFld y x) /\
  (forall x y z : Q, @fle QFld x y -> @fle QFld y z -> @fle QFld x z) /\
  (forall x y : Q, @feqv QFld x y <-> (x == y)%Q).
Proof. exact (conj Q_total (conj Q_trans Q_feqv)). Qed.
Print Assumptions C19_Q_is_total_preorder.

(* the grid is strictly increasing: sorted and free of repeated values *)
Theorem C19_grid_sorted_nodup : forall (F : Fld),
  (forall x y : car F, fle x y \/ fle y x) -> (forall x y z : car F, fle x y -> fle y z -> fle x z) ->
  forall (p : params F) (zs xs : list (car F)) (d : car F) (i j : nat),
  grid p zs = Some xs -> (i < j < length xs)%nat -> flt (nth i xs d) (nth j xs d).
Proof. exact @grid_sorted_nodup_nth. Qed.
Print Assumptions C19_grid_sorted_nodup.

(* every datum occurs in the grid *)
Theorem C19_grid_contains_data : forall (F : Fld),
  (forall x y : car F, fle x y \/ fle y x) -> (forall x y z : car F, fle x y -> fle y z -> fle x z) ->
  forall (p : params F) (zs xs : list (car F)) (d : car F),
  grid p zs = Some xs -> In d zs -> exists y, In y xs /\ feqv y d.
Proof. exact @grid_contains_data. Qed.
Print Assumptions C19_grid_contains_data.

(* data_mask: for data in any order, with repeats, np.where finds exactly one index per datum,
   the squeeze succeeds, and the grid value at mask[i] is datum i *)
Theorem C19_mask_correct : forall (F : Fld),
  (forall x y : car F, fle x y \/ fle y x) -> (forall x y z : car F, fle x y -> fle y z -> fle x z) ->
  forall (p : params F) (zs xs : list (car F)) (d0 : car F),
  grid p zs = Some xs ->
  exists m, mask_of xs zs = Some m /\ length m = length zs /\
    forall i, (i < length zs)%nat -> (nth i m 0 < length xs)%nat /\ feqv (nth (nth i m 0%nat) xs d0) (nth i zs d0).
Proof. exact @mask_correct. Qed.
Print Assumptions C19_mask_correct.

(* ---------------------------------------------------------------- cache *)
(* after clear_data the next call behaves as on a fresh instance ... *)
Theorem C19_cache_rebuilt_after_clear : forall (F : Fld) (p : params F) (st : cache F) (zs : list (car F)) (h2 : h2val F),
  get_pred_dl p (clear_data st) zs h2 = get_pred_dl p cache_empty zs h2.
Proof. exact @cache_rebuilt_after_clear. Qed.
Print Assumptions C19_cache_rebuilt_after_clear.

(* ... and a fresh call computes grid and mask from its own argument *)
Theorem C19_fresh_call_builds_from_argument : forall (F : Fld),
  (forall x y : car F, fle x y \/ fle y x) -> (forall x y z : car F, fle x y -> fle y z -> fle x z) ->
  forall (p : params F) (zs : list (car F)) (h2 : h2val F), zs <> [] ->
  exists xs m, grid p zs = Some xs /\ mask_of xs zs = Some m /\
    fst (get_pred_dl p cache_empty zs h2) = mkCache (Some xs) (Some m) /\
    snd (get_pred_dl p cache_empty zs h2)
      = bmul (take_mask (f0 F) (cumtrapz xs (integrand_values h2 xs)) m) zs.
Proof. exact @fresh_call_builds_from_argument. Qed.
Print Assumptions C19_fresh_call_builds_from_argument.

(* without clear_data the filled cache is reused whatever the new argument is *)
Theorem C19_cache_reused_without_clear : forall (F : Fld) (p : params F) xs m (zs' : list (car F)) (h2 : h2val F),
  get_pred_dl p (mkCache (Some xs) (Some m)) zs' h2
  = (mkCache (Some xs) (Some m), bmul (take_mask (f0 F) (cumtrapz xs (integrand_values h2 xs)) m) zs').
Proof. exact @cache_reused_without_clear. Qed.
Print Assumptions C19_cache_reused_without_clear.

(* repeated calls with the same argument (negloglike's pattern) agree with a fresh instance *)
Theorem C19_cache_same_argument : forall (F : Fld),
  (forall x y : car F, fle x y \/ fle y x) -> (forall x y z : car F, fle x y -> fle y z -> fle x z) ->
  forall (p : params F) (zs : list (car F)) (h2 h2' : h2val F),
  snd (get_pred_dl p (fst (get_pred_dl p cache_empty zs h2)) zs h2') = snd (get_pred_dl p cache_empty zs h2').
Proof. exact @cache_same_argument. Qed.
Print Assumptions C19_cache_same_argument.

(* ---------------------------------------------------------------- real-number part *)
Local Open Scope R_scope.

Theorem C19_grid_starts_at_one : forall (p : params RFld) (zs xs : list R),
  0 < delta_z p -> (1 <= min_nz p)%nat -> (forall z, In z zs -> 1 <= z) ->
  grid p zs = Some xs -> hd 0 xs = 1.
Proof. exact grid_starts_at_one. Qed.
Print Assumptions C19_grid_starts_at_one.

(* boundary of the property: with a datum below 1 the grid, and every integral, starts at that datum *)
Theorem C19_grid_starts_below_one : forall (p : params RFld) (zs xs : list R) zmin,
  0 < delta_z p -> (1 <= min_nz p)%nat -> @lmin RFld zs = Some zmin -> zmin < 1 ->
  grid p zs = Some xs -> hd 0 xs = zmin.
Proof. exact grid_starts_below_one. Qed.
Print Assumptions C19_grid_starts_below_one.

Theorem C19_cumtrapz_nth : forall (xs ys : list R) k,
  length xs = length ys -> (k < length xs)%nat ->
  nth k (@cumtrapz RFld xs ys) 0 = @trapz RFld (firstn (S k) xs) (firstn (S k) ys).
Proof. exact cumtrapz_nth. Qed.
Print Assumptions C19_cumtrapz_nth.

(* the value returned for datum i (before log10) is z_i times the trapezoid sum over exactly the
   grid cells between 1 and z_i *)
Theorem C19_cumtrapz_at_mask : forall (p : params RFld), 0 < delta_z p -> (1 <= min_nz p)%nat ->
  forall (zs : list R) (h2 : h2val RFld),
  zs <> [] -> (forall z, In z zs -> 1 <= z) ->
  exists xs out, grid p zs = Some xs /\
    snd (get_pred_dl p cache_empty zs h2) = Some out /\ length out = length zs /\
    forall i, (i < length zs)%nat ->
      exists k t, (k < length xs)%nat /\ firstn (S k) xs = 1 :: t /\ last t 1 = nth i zs 0 /\
        StronglySorted Rle (1 :: t) /\
        nth i out 0 = trapzf (integrand_fun h2) (1 :: t) * nth i zs 0.
Proof. exact cumtrapz_at_mask. Qed.
Print Assumptions C19_cumtrapz_at_mask.

Theorem C19_trapz_exact_affine : forall (a b : R) (xs : list R) x0,
  trapzf (fun x => a * x + b) (x0 :: xs) = RInt (fun x => a * x + b) x0 (last xs x0).
Proof. exact trapz_exact_affine_RInt. Qed.
Print Assumptions C19_trapz_exact_affine.

Theorem C19_trapz_error_lipschitz : forall g L (xs : list R) x0,
  0 <= L -> StronglySorted Rle (x0 :: xs) ->
  lipschitz_on g L x0 (last xs x0) ->
  Rabs (RInt g x0 (last xs x0) - trapzf g (x0 :: xs))
    <= L * @max_cell RFld (x0 :: xs) * (last xs x0 - x0) / 2.
Proof. exact trapz_error_lipschitz. Qed.
Print Assumptions C19_trapz_error_lipschitz.

(* second-order bound: g differentiable with K-Lipschitz derivative (in particular g C^2 with |g''| <= K) *)
Theorem C19_trapz_error_c2 : forall (g g' : R -> R) K (xs : list R) x0,
  0 <= K -> StronglySorted Rle (x0 :: xs) ->
  (forall x, x0 <= x <= last xs x0 -> is_derive g x (g' x)) ->
  lipschitz_on g' K x0 (last xs x0) ->
  Rabs (RInt g x0 (last xs x0) - trapzf g (x0 :: xs))
    <= K * (@max_cell RFld (x0 :: xs))^2 * (last xs x0 - x0) / 12.
Proof. exact trapz_error_c2. Qed.
Print Assumptions C19_trapz_error_c2.

(* a bound on the derivative gives the Lipschitz constant (used for L = sup|g'| and K = sup|g''|) *)
Theorem C19_lipschitz_of_bounded_derivative : forall (f f' : R -> R) (K a b : R),
  (forall x, a <= x <= b -> is_derive f x (f' x)) ->
  (forall x, a <= x <= b -> Rabs (f' x) <= K) ->
  lipschitz_on f K a b.
Proof. exact lipschitz_of_bounded_derivative. Qed.
Print Assumptions C19_lipschitz_of_bounded_derivative.

(* from |I - T| <= eps < I to the distance modulus *)
Theorem C19_mu_error_bound : forall c z I T eps,
  0 < z -> 0 <= eps -> eps < I -> Rabs (I - T) <= eps ->
  Rabs (mu_of c (T * z) - mu_of c (z * I)) <= 5 / ln 10 * (eps / (I - eps)).
Proof. exact mu_error_bound. Qed.
Print Assumptions C19_mu_error_bound.

(* headline, numeric path: fresh or cleared instance, data >= 1 in any order with repeats *)
Theorem C19_mu_prediction_bound : forall (p : params RFld) (zs : list R) (h2 : h2val RFld) (c : R),
  0 < delta_z p -> (1 <= min_nz p)%nat ->
  zs <> [] -> (forall z, In z zs -> 1 <= z) ->
  exists xs out, grid p zs = Some xs /\
    snd (get_pred_dl p cache_empty zs h2) = Some out /\ length out = length zs /\
    forall i, (i < length zs)%nat ->
      let z := nth i zs 0 in
      let g := integrand_fun h2 in
      let I := RInt g 1 z in
      let h := @max_cell RFld xs in
      exists Ti, nth i out 0 = Ti * z /\
        (forall L, 0 <= L -> lipschitz_on g L 1 z -> Rabs (I - Ti) <= L * h * (z - 1) / 2) /\
        (forall (g' : R -> R) K, 0 <= K -> (forall x, 1 <= x <= z -> is_derive g x (g' x)) -> lipschitz_on g' K 1 z ->
           Rabs (I - Ti) <= K * h^2 * (z - 1) / 12) /\
        (forall eps, 0 <= eps -> eps < I -> Rabs (I - Ti) <= eps ->
           Rabs (mu_of c (nth i out 0) - mu_of c (z * I)) <= 5 / ln 10 * (eps / (I - eps))).
Proof. exact mu_prediction_bound. Qed.
Print Assumptions C19_mu_prediction_bound.

(* integrated=True with a true antiderivative is exact ... *)
Theorem C19_integrated_path_exact : forall (Fa g : R -> R) (zs : list R) i, (i < length zs)%nat ->
  1 <= nth i zs 0 ->
  (forall x, 1 <= x <= nth i zs 0 -> is_derive Fa x (g x)) ->
  (forall x, 1 <= x <= nth i zs 0 -> continuous g x) ->
  nth i (@get_pred_dl_integrated RFld Fa zs) 0 = RInt g 1 (nth i zs 0) * nth i zs 0.
Proof. exact integrated_pred_nth. Qed.
Print Assumptions C19_integrated_path_exact.

(* ... hence agrees with the numeric path within the quadrature bounds *)
Theorem C19_analytic_vs_numeric : forall (p : params RFld) (zs : list R) (hh : R -> R) (Fa : R -> R),
  0 < delta_z p -> (1 <= min_nz p)%nat ->
  zs <> [] -> (forall z, In z zs -> 1 <= z) ->
  exists xs out, grid p zs = Some xs /\
    snd (get_pred_dl p cache_empty zs (@H2vector RFld hh)) = Some out /\ length out = length zs /\
    forall i, (i < length zs)%nat ->
      let z := nth i zs 0 in
      let g := fun x => / sqrt (hh x) in
      let h := @max_cell RFld xs in
      (forall x, 1 <= x <= z -> is_derive Fa x (g x)) -> (forall x, 1 <= x <= z -> continuous g x) ->
      exists Ti, nth i out 0 = Ti * z /\
        nth i (@get_pred_dl_integrated RFld Fa zs) 0 = RInt g 1 z * z /\
        (forall L, 0 <= L -> lipschitz_on g L 1 z -> Rabs (RInt g 1 z - Ti) <= L * h * (z - 1) / 2) /\
        (forall (g' : R -> R) K, 0 <= K -> (forall x, 1 <= x <= z -> is_derive g x (g' x)) -> lipschitz_on g' K 1 z ->
           Rabs (RInt g 1 z - Ti) <= K * h^2 * (z - 1) / 12).
Proof. exact analytic_vs_numeric. Qed.
Print Assumptions C19_analytic_vs_numeric.

(* ---------------------------------------------------------------- the executable Q instance versus the R instance *)
(* Q2R maps what the Q instance computes to what the R instance denotes (grid, mask, cumulative trapezoid,
   mask look-up and broadcasting product); only 1/sqrt is approximated over Q *)
Theorem C19_grid_Q2R : forall (p : params QFld) (zs : list Q), ~ (delta_z p == 0)%Q ->
  @grid RFld (Q2Rp p) (map Q2R zs) = option_map (map Q2R) (@grid QFld p zs).
Proof. exact grid_Q2R. Qed.
Print Assumptions C19_grid_Q2R.

Theorem C19_mask_Q2R : forall (xs zs : list Q), @mask_of RFld (map Q2R xs) (map Q2R zs) = @mask_of QFld xs zs.
Proof. exact mask_Q2R. Qed.
Print Assumptions C19_mask_Q2R.

Theorem C19_cumtrapz_Q2R : forall (xs ys : list Q),
  map Q2R (@cumtrapz QFld xs ys) = @cumtrapz RFld (map Q2R xs) (map Q2R ys).
Proof. exact cumtrapz_Q2R. Qed.
Print Assumptions C19_cumtrapz_Q2R.

Theorem C19_take_bmul_Q2R : forall (cum : list Q) m (zs : list Q),
  @bmul RFld (@take_mask RFld 0 (map Q2R cum) m) (map Q2R zs)
  = option_map (map Q2R) (@bmul QFld (@take_mask QFld 0%Q cum m) zs).
Proof. exact take_bmul_Q2R. Qed.
Print Assumptions C19_take_bmul_Q2R.

(* ---------------------------------------------------------------- non-vacuity and witnesses (executable instance) *)
Local Open Scope Q_scope.
Definition ex_p : params QFld := @mkParams QFld (1#4) 3.
Definition ex_zs : list Q := [3#2; 5#4; 5#4; 2; 6#4].

Example C19_ex_grid : @grid QFld ex_p ex_zs = Some [1; 9#8; 5#4; 6#4; 15#8; 2; 9#4].
Proof. vm_compute. reflexivity. Qed.
Example C19_ex_mask : @mask_of QFld [1; 9#8; 5#4; 6#4; 15#8; 2; 9#4] ex_zs = Some [3; 2; 2; 5; 3]%nat.
Proof. vm_compute. reflexivity. Qed.
(* H^2 = 1/x^2: integrand x (affine), so the result is exact: z (z^2-1)/2 *)
Example C19_ex_affine : snd (@get_pred_dl QFld ex_p cache_empty ex_zs (@H2vector QFld (fun x : Q => 1 / (x * x))))
  = Some [15#16; 45#128; 45#128; 3; 15#16].
Proof. vm_compute. reflexivity. Qed.
(* H^2 a Python scalar (np.full broadcast) *)
Example C19_ex_scalar : snd (@get_pred_dl QFld ex_p cache_empty ex_zs (@H2scalar QFld (1#4)))
  = Some [3#2; 5#8; 5#8; 4; 3#2].
Proof. vm_compute. reflexivity. Qed.
(* empty argument: zp1.max() raises, nothing is cached *)
Example C19_ex_empty : @get_pred_dl QFld ex_p cache_empty [] (@H2scalar QFld 1) = (cache_empty, None).
Proof. vm_compute. reflexivity. Qed.
(* stale cache: without clear_data a call with a different argument answers for the OLD data
   (times the new argument); with clear_data it does not *)
Example C19_stale_cache_witness :
  snd (@get_pred_dl QFld ex_p (fst (@get_pred_dl QFld ex_p cache_empty [3#2] (@H2scalar QFld 1))) [2] (@H2scalar QFld 1)) = Some [1]
  /\ snd (@get_pred_dl QFld ex_p (clear_data (fst (@get_pred_dl QFld ex_p cache_empty [3#2] (@H2scalar QFld 1)))) [2] (@H2scalar QFld 1)) = Some [2].
Proof. vm_compute. split; reflexivity. Qed.
(* a datum below 1: the second entry is 3/2 * (3/2 - 9/10) = 9/10, not 3/2 * (3/2 - 1) = 3/4 *)
Example C19_below_one_witness :
  snd (@get_pred_dl QFld ex_p cache_empty [9#10; 3#2] (@H2scalar QFld 1)) = Some [0; 9#10].
Proof. vm_compute. reflexivity. Qed.
