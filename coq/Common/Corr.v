(* Decidable equalities used by generated correspondence files (cases.v). *)
From Coq Require Import ZArith List Bool.
From ESRV Require Import Common.Py.
Import ListNotations.
Open Scope Z_scope.

Fixpoint list_eqb {A} (e : A -> A -> bool) (l1 l2 : list A) : bool :=
  match l1, l2 with
  | [], [] => true
  | x :: r, y :: s => e x y && list_eqb e r s
  | _, _ => false
  end.
Definition opt_eqb {A} (e : A -> A -> bool) (o1 o2 : option A) : bool :=
  match o1, o2 with
  | None, None => true
  | Some x, Some y => e x y
  | _, _ => false
  end.
Definition lz_eqb := list_eqb Z.eqb.
Definition olz_eqb := opt_eqb lz_eqb.
Definition pair_eqb {A B} (ea : A -> A -> bool) (eb : B -> B -> bool) (p q : A * B) : bool :=
  ea (fst p) (fst q) && eb (snd p) (snd q).

(* indices of the cases on which the check fails *)
Fixpoint failing_from {A} (chk : A -> bool) (i : nat) (l : list A) : list nat :=
  match l with
  | [] => []
  | x :: r => if chk x then failing_from chk (S i) r else i :: failing_from chk (S i) r
  end.
Definition failing {A} (chk : A -> bool) (l : list A) : list nat := failing_from chk 0 l.
