(* Tiling of a list by contiguous slices given by a monotone boundary function. *)
From Coq Require Import ZArith List Lia Arith.
From ESRV Require Import Common.Py.
Import ListNotations.

Lemma firstn_add_skipn {A} (l : list A) (a b : nat) :
  firstn a l ++ firstn b (skipn a l) = firstn (a + b) l.
Proof.
  revert l; induction a as [|a IH]; intros l; cbn; [reflexivity|].
  destruct l as [|x l]; cbn; [now rewrite firstn_nil|]. now rewrite IH.
Qed.

(* chunk r = l[f r : f (r+1)] *)
Definition chunk {A} (f : nat -> nat) (l : list A) (r : nat) : list A :=
  firstn (f (S r) - f r) (skipn (f r) l).

Lemma chunks_prefix {A} (f : nat -> nat) (l : list A) (P : nat) :
  f 0%nat = 0%nat -> (forall r, (r < P)%nat -> (f r <= f (S r))%nat) ->
  concat (map (chunk f l) (seq 0 P)) = firstn (f P) l.
Proof.
  intros H0 Hm. induction P as [|P IH].
  - cbn. now rewrite H0.
  - rewrite seq_S, map_app, concat_app, IH by (intros; apply Hm; lia).
    cbn [map concat plus]. rewrite app_nil_r. unfold chunk.
    rewrite firstn_add_skipn. f_equal. specialize (Hm P). lia.
Qed.

Theorem chunks_tile {A} (f : nat -> nat) (l : list A) (P : nat) :
  f 0%nat = 0%nat -> (forall r, (r < P)%nat -> (f r <= f (S r))%nat) -> f P = length l ->
  concat (map (chunk f l) (seq 0 P)) = l.
Proof.
  intros H0 Hm HP. rewrite chunks_prefix by assumption. rewrite HP. apply firstn_all.
Qed.

(* py_slice with in-range bounds is a chunk *)
Lemma py_slice_in_range {A} (l : list A) (a b : Z) :
  (0 <= a <= b)%Z -> (b <= py_len l)%Z ->
  py_slice l a b = firstn (Z.to_nat b - Z.to_nat a) (skipn (Z.to_nat a) l).
Proof.
  intros Ha Hb. unfold py_slice, py_clamp.
  destruct (Z.ltb_spec a 0); [lia|]. destruct (Z.ltb_spec b 0); [lia|].
  rewrite !Z.min_l by lia. f_equal. lia.
Qed.

(* integer intervals *)
Definition zinterval (a b : Z) : list Z := map (fun i => (a + Z.of_nat i)%Z) (seq 0 (Z.to_nat (b - a))).

Lemma zrange_length n : length (zrange n) = Z.to_nat n.
Proof. unfold zrange. now rewrite map_length, seq_length. Qed.

Lemma skipn_seq a n k : skipn k (seq a n) = seq (a + k) (n - k).
Proof.
  revert a n; induction k as [|k IH]; intros a n; cbn.
  - now rewrite Nat.add_0_r, Nat.sub_0_r.
  - destruct n as [|n]; cbn; [reflexivity|]. rewrite IH. f_equal. lia.
Qed.

Lemma firstn_seq a n k : firstn k (seq a n) = seq a (Nat.min k n).
Proof.
  revert a n; induction k as [|k IH]; intros a n; cbn; [reflexivity|].
  destruct n as [|n]; cbn; [reflexivity|]. now rewrite IH.
Qed.

Lemma map_of_nat_seq s n :
  map Z.of_nat (seq s n) = map (fun i => (Z.of_nat s + Z.of_nat i)%Z) (seq 0 n).
Proof.
  revert s; induction n as [|n IH]; intros s; cbn; [reflexivity|].
  f_equal; [lia|]. rewrite (IH (S s)).
  rewrite <- (seq_shift n 0), map_map. apply map_ext. intros; lia.
Qed.

Lemma zinterval_chunk (N a b : Z) :
  (0 <= a <= b)%Z -> (b <= N)%Z ->
  zinterval a b = firstn (Z.to_nat b - Z.to_nat a) (skipn (Z.to_nat a) (zrange N)).
Proof.
  intros Ha Hb. unfold zinterval, zrange.
  rewrite skipn_map, firstn_map, skipn_seq, firstn_seq.
  replace (Nat.min _ _) with (Z.to_nat (b - a)) by lia.
  cbn [plus]. rewrite map_of_nat_seq. apply map_ext. intros; lia.
Qed.
