(* Python idioms used by the translated ESR code, as total Gallina functions.
   No proofs here: this file must keep evaluating when a proof elsewhere breaks. *)
From Coq Require Export ZArith List Bool.
Export ListNotations.
Open Scope Z_scope.

(* option as the exception monad: None = the Python code raised *)
Definition bind {A B} (o : option A) (f : A -> option B) : option B :=
  match o with Some a => f a | None => None end.
Notation "x <- e ;; k" := (bind e (fun x => k))
  (at level 61, e at next level, right associativity).
Notation "' p <- e ;; k" := (bind e (fun p => k))
  (at level 61, p pattern, e at next level, right associativity).

(* while loops: explicit fuel, None when it runs out (excluded by theorems) *)
Fixpoint while_fuel {S} (fuel : nat) (c : S -> bool) (b : S -> option S) (s : S) : option S :=
  match fuel with
  | O => None
  | Datatypes.S f => if c s then (s' <- b s ;; while_fuel f c b s') else Some s
  end.

Definition py_divmod (a b : Z) : option (Z * Z) :=
  if b =? 0 then None else Some (a / b, a mod b).

(* n * [x1;..] for an int n: empty when n <= 0 *)
Definition py_repeat {A} (n : Z) (l : list A) : list A := concat (repeat l (Z.to_nat n)).

Fixpoint cumsum_from (acc : Z) (l : list Z) : list Z :=
  match l with [] => [] | x :: r => (acc + x) :: cumsum_from (acc + x) r end.
Definition py_cumsum (l : list Z) : list Z := cumsum_from 0 l.

Definition py_len {A} (l : list A) : Z := Z.of_nat (length l).

(* l[i] with Python's negative indexing; None = IndexError *)
Definition py_index {A} (l : list A) (i : Z) : option A :=
  let n := py_len l in
  if 0 <=? i then nth_error l (Z.to_nat i)
  else if (- n) <=? i then nth_error l (Z.to_nat (n + i))
  else None.

(* normalisation of a slice bound as CPython's PySlice_AdjustIndices does (step 1) *)
Definition py_clamp (n i : Z) : Z :=
  if i <? 0 then Z.max 0 (i + n) else Z.min i n.

(* l[a:b] *)
Definition py_slice {A} (l : list A) (a b : Z) : list A :=
  let n := py_len l in
  let a' := py_clamp n a in
  let b' := py_clamp n b in
  firstn (Z.to_nat (b' - a')) (skipn (Z.to_nat a') l).

(* int(np.ceil(a / float(b))) for ints a, b>0 with |a|,|b| < 2^53 (the float
   quotient is then correctly rounded and its ceiling is the integer ceiling);
   None = ZeroDivisionError *)
Definition py_ceil_fdiv (a b : Z) : option Z :=
  if b =? 0 then None else Some (- ((- a) / b)).

Definition zrange (n : Z) : list Z := map Z.of_nat (seq 0 (Z.to_nat n)).

(* x in l  =  any(e is x or e == x for e in l); [eq e x] is Python's e == x (identity implies it for the element types used) *)
Definition py_mem {A} (eq : A -> A -> bool) (x : A) (l : list A) : bool := existsb (fun e => eq e x) l.

(* [f v for v in range(n) if c v]; None = some evaluated f v raised *)
Fixpoint comp_list {B} (c : Z -> bool) (f : Z -> option B) (vs : list Z) : option (list B) :=
  match vs with
  | [] => Some []
  | v :: r => if c v then (y <- f v ;; ys <- comp_list c f r ;; Some (y :: ys)) else comp_list c f r
  end.
Definition py_comp_range {B} (n : Z) (c : Z -> bool) (f : Z -> option B) : option (list B) :=
  comp_list c f (zrange n).

(* ---- insertion-ordered dicts (dict / OrderedDict) as association lists with Python's update semantics ---- *)
(* d[k] ; None = KeyError.  [eq k k'] is the key comparison *)
Fixpoint py_dget {K B} (eq : K -> K -> bool) (k : K) (d : list (K * B)) : option B :=
  match d with
  | [] => None
  | (k', v) :: r => if eq k k' then Some v else py_dget eq k r
  end.
(* k in d *)
Definition py_dmem {K B} (eq : K -> K -> bool) (k : K) (d : list (K * B)) : bool :=
  match py_dget eq k d with Some _ => true | None => false end.
(* d[k] = v : a key that is set again keeps its position *)
Fixpoint py_dset {K B} (eq : K -> K -> bool) (k : K) (v : B) (d : list (K * B)) : list (K * B) :=
  match d with
  | [] => [(k, v)]
  | (k', v') :: r => if eq k k' then (k', v) :: r else (k', v') :: py_dset eq k v r
  end.
(* {k: v for (k, v) in l} *)
Definition py_dict_of {K B} (eq : K -> K -> bool) (l : list (K * B)) : list (K * B) :=
  fold_left (fun d kv => py_dset eq (fst kv) (snd kv) d) l [].
(* enumerate(l) *)
Definition py_enumerate {B} (l : list B) : list (Z * B) := combine (zrange (py_len l)) l.
(* [f x for x in l] where f may raise *)
Fixpoint py_traverse {X Y} (f : X -> option Y) (l : list X) : option (list Y) :=
  match l with
  | [] => Some []
  | x :: r => y <- f x ;; ys <- py_traverse f r ;; Some (y :: ys)
  end.
(* for v in range(n): s = body v s *)
Fixpoint for_list {S} (body : Z -> S -> option S) (vs : list Z) (s : S) : option S :=
  match vs with
  | [] => Some s
  | v :: r => s' <- body v s ;; for_list body r s'
  end.
Definition py_for_range {S} (n : Z) (body : Z -> S -> option S) (s : S) : option S := for_list body (zrange n) s.
