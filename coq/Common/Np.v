(* The numpy idioms generator.get_allowed_shapes is written in, as total functions on lists (hand-written; this file is the
   meaning harness/translate/allowed.py gives to each idiom and belongs to the trusted base of that translator).

   A two-dimensional integer array is its width together with its rows (numpy keeps the width of an array that has no rows, and
   column indexing is decided by the width alone).  Every operation that numpy can refuse (IndexError for a column that does not
   exist, for a boolean mask of the wrong length, for an index array reaching past the end; a comparison of arrays whose widths
   differ) returns None. *)
From Coq Require Import List Arith Bool.
Import ListNotations.

Record arr2 := mkArr { aw : nat; arows : list (list nat) }.

(* itertools.product(digits, repeat=k), as np.array(..., dtype=int): lexicographic, first position slowest *)
Fixpoint np_lprod (b : list nat) (k : nat) : list (list nat) :=
  match k with
  | O => [[]]
  | S k' => flat_map (fun x => map (cons x) (np_lprod b k')) b
  end.
Definition np_product (digits : list nat) (k : nat) : arr2 := mkArr k (np_lprod digits k).

(* a Python integer index: Pos k is k, Neg k is -k (k >= 1) *)
Inductive pyidx := Pos (k : nat) | Neg (k : nat).
Definition norm_idx (w : nat) (i : pyidx) : option nat :=
  match i with
  | Pos k => if k <? w then Some k else None
  | Neg k => if (1 <=? k) && (k <=? w) then Some (w - k) else None
  end.

(* a[:, i] *)
Definition np_col (a : arr2) (i : pyidx) : option (list nat) :=
  match norm_idx (aw a) i with
  | Some k => Some (map (fun r => nth k r 0) (arows a))
  | None => None
  end.
(* v != c, v == c  (integer vector against a scalar) *)
Definition np_ne (v : list nat) (c : nat) : list bool := map (fun x => negb (x =? c)) v.
Definition np_eq (v : list nat) (c : nat) : list bool := map (fun x => x =? c) v.
(* a[m] and a[m, :] for a boolean vector m: the rows where m is True; a mask of the wrong length is an IndexError *)
Definition np_rowsel (a : arr2) (m : list bool) : option arr2 :=
  if length m =? length (arows a) then Some (mkArr (aw a) (map fst (filter snd (combine (arows a) m)))) else None.
(* a[i, :] *)
Definition np_row (a : arr2) (i : nat) : option (list nat) := nth_error (arows a) i.
(* a[:, :L]: slicing clips at the width *)
Definition np_cols_upto (a : arr2) (L : nat) : arr2 := mkArr (Nat.min L (aw a)) (map (firstn L) (arows a)).
(* a == p[None, :]: element-wise comparison of every row with the row vector p.  Widths must agree (numpy would also broadcast a
   width-1 operand; the model refuses that case, and the theorems show it does not arise) *)
Fixpoint eqb_rows (r p : list nat) : list bool :=
  match r, p with
  | x :: r', y :: p' => (x =? y) :: eqb_rows r' p'
  | _, _ => []
  end.
Definition np_eq_rowvec (a : arr2) (p : list nat) : option (list (list bool)) :=
  if aw a =? length p then Some (map (fun r => eqb_rows r p) (arows a)) else None.
(* np.prod(m, axis=1) of a boolean matrix: 1 where the whole row is True *)
Definition np_prod1 (m : list (list bool)) : list nat := map (fun r => if forallb (fun b => b) r then 1 else 0) m.
(* np.where(v): the positions of the non-zero entries *)
Definition np_where (v : list nat) : list nat := filter (fun i => negb (nth i v 0 =? 0)) (seq 0 (length v)).
(* l[i] = v for an integer i: IndexError past the end *)
Fixpoint set_nth {A} (i : nat) (v : A) (l : list A) : list A :=
  match l, i with
  | [], _ => []
  | _ :: r, O => v :: r
  | x :: r, S i' => x :: set_nth i' v r
  end.
Definition np_set {A} (l : list A) (i : nat) (v : A) : option (list A) :=
  match nth_error l i with Some _ => Some (set_nth i v l) | None => None end.
(* l[idx] = v for an index array: every listed position gets v; IndexError if one lies past the end *)
Definition np_set_idx {A} (l : list A) (idx : list nat) (v : A) : option (list A) :=
  if forallb (fun i => i <? length l) idx
  then Some (map (fun jb => if existsb (Nat.eqb (fst jb)) idx then v else snd jb) (combine (seq 0 (length l)) l))
  else None.
(* for i in range(n): the body maps the loop-carried state to a new one or raises *)
Fixpoint np_for_from {St} (k i : nat) (body : nat -> St -> option St) (s : St) : option St :=
  match k with
  | O => Some s
  | S k' => match body i s with Some s' => np_for_from k' (S i) body s' | None => None end
  end.
Definition np_for {St} (n : nat) (body : nat -> St -> option St) (s : St) : option St := np_for_from n 0 body s.

(* list(itertools.combinations(l, 2)): pairs in the order of l, first component slowest *)
Fixpoint np_combinations2 (l : list nat) : list (nat * nat) :=
  match l with
  | [] => []
  | x :: r => map (fun y => (x, y)) r ++ np_combinations2 r
  end.
(* [f(v) for v in l] where f may raise *)
Fixpoint np_mapM {A B} (f : A -> option B) (l : list A) : option (list B) :=
  match l with
  | [] => Some []
  | x :: r => match f x with
              | Some y => match np_mapM f r with Some ys => Some (y :: ys) | None => None end
              | None => None
              end
  end.

(* for j in range(n-1, -1, -1): if c(j): s = f(j, s); break      (c may raise) *)
Fixpoint np_first_desc {St} (n : nat) (c : nat -> option bool) (f : nat -> St -> option St) (s : St) : option St :=
  match n with
  | O => Some s
  | S j => match c j with
           | None => None
           | Some true => f j s
           | Some false => np_first_desc j c f s
           end
  end.
