(* Numbers as numpy sees them, without rounding: a finite value, +inf, -inf or NaN.
   The carrier of finite values is Z: every finite table of floats can be scaled by a
   common power of two to integers, and scaling preserves order and (exact) sums, so
   statements about order, min/argmin, sorting and sums over Z-valued tables are
   statements about float tables up to the rounding of the sums.  No proofs here. *)
From Coq Require Export ZArith List Bool.
Export ListNotations.
Open Scope Z_scope.

Inductive xz := Fin (z : Z) | PInf | NInf | NaN.

Definition isnan (a : xz) : bool := match a with NaN => true | _ => false end.
Definition isfinite (a : xz) : bool := match a with Fin _ => true | _ => false end.

(* IEEE addition *)
Definition xadd (a b : xz) : xz :=
  match a, b with
  | NaN, _ | _, NaN => NaN
  | PInf, NInf | NInf, PInf => NaN
  | PInf, _ | _, PInf => PInf
  | NInf, _ | _, NInf => NInf
  | Fin x, Fin y => Fin (x + y)
  end.
Definition xneg (a : xz) : xz :=
  match a with Fin x => Fin (- x) | PInf => NInf | NInf => PInf | NaN => NaN end.
Definition xsub (a b : xz) : xz := xadd a (xneg b).

(* IEEE comparisons: false whenever a NaN is involved *)
Definition xltb (a b : xz) : bool :=
  match a, b with
  | NaN, _ | _, NaN => false
  | Fin x, Fin y => x <? y
  | NInf, NInf => false | NInf, _ => true
  | _, NInf => false
  | PInf, _ => false
  | Fin _, PInf => true
  end.
Definition xeqb (a b : xz) : bool :=
  match a, b with
  | Fin x, Fin y => x =? y
  | PInf, PInf | NInf, NInf => true
  | _, _ => false
  end.
Definition xleb (a b : xz) : bool := xltb a b || xeqb a b.

(* order on non-NaN values as a Prop *)
Definition xle (a b : xz) : Prop := xleb a b = true.
Definition xlt (a b : xz) : Prop := xltb a b = true.

(* numpy.nanmin / nanargmin on a list that contains a non-NaN (None = all-NaN / empty) *)
Fixpoint nanargmin_from (i : nat) (best : option (nat * xz)) (l : list xz) : option (nat * xz) :=
  match l with
  | [] => best
  | a :: r =>
      let best' := if isnan a then best else
                   match best with
                   | None => Some (i, a)
                   | Some (_, b) => if xltb a b then Some (i, a) else best
                   end in
      nanargmin_from (S i) best' r
  end.
Definition nanargmin (l : list xz) : option nat := option_map fst (nanargmin_from 0 None l).
Definition nanmin (l : list xz) : option xz := option_map snd (nanargmin_from 0 None l).
