(* C12 -- facts about the parser of Model/PyParse.v that do not mention the printer:
   "eventually" (enough fuel) judgments with the grammar's productions as lemmas, and the fact
   that the fuel parse_tokens uses is enough whenever any fuel is. *)
From Coq Require Import ZArith NArith List Bool String Ascii Lia Arith.
From ESRV Require Import Model.Printer Model.PyParse.
Import ListNotations.

(* ------------------------------------------------------------------ judgments *)
Definition Ev {A} (p : nat -> option A) (r : A) : Prop := exists f0, forall f, (f >= f0)%nat -> p f = Some r.

Definition PE ts a rest := Ev (fun f => p_expr f ts) (a, rest).
Definition PER acc ts a rest := Ev (fun f => p_expr_rest f acc ts) (a, rest).
Definition PT ts a rest := Ev (fun f => p_term f ts) (a, rest).
Definition PTR acc ts a rest := Ev (fun f => p_term_rest f acc ts) (a, rest).
Definition PF ts a rest := Ev (fun f => p_factor f ts) (a, rest).
Definition PP ts a rest := Ev (fun f => p_power f ts) (a, rest).
Definition PA ts a rest := Ev (fun f => p_atom f ts) (a, rest).
Definition PArgs ts (l : list pyast) rest := Ev (fun f => p_args f ts) (l, rest).

(* head-of-continuation conditions *)
Definition hd_not (bad : token -> bool) (rest : list token) : Prop :=
  match rest with [] => True | t :: _ => bad t = false end.
Definition is_lp t := match t with TLp => true | _ => false end.
Definition is_powlp t := match t with TPow | TLp => true | _ => false end.
Definition is_mulop t := match t with TStar | TSlash => true | _ => false end.
Definition is_addop t := match t with TPlus | TMinus => true | _ => false end.
Definition is_minus t := match t with TMinus => true | _ => false end.
Definition badT t := is_mulop t || is_powlp t.
Definition badE t := is_addop t || badT t.
Definition okA := hd_not is_lp.
Definition okP := hd_not is_powlp.
Definition okT := hd_not badT.
Definition okE := hd_not badE.

Lemma okE_okT r : okE r -> okT r.
Proof. destruct r as [|t r]; simpl; auto. unfold badE. intros H. apply orb_false_iff in H. tauto. Qed.
Lemma okT_okP r : okT r -> okP r.
Proof. destruct r as [|t r]; simpl; auto. unfold badT. intros H. apply orb_false_iff in H. tauto. Qed.
Lemma okP_okA r : okP r -> okA r.
Proof. destruct r as [|t r]; simpl; auto. destruct t; simpl; congruence. Qed.

Ltac ev_intro f0 := exists f0; intros f Hf; destruct f as [|f]; [lia|]; simpl.

(* ------------------------------------------------------------------ productions *)
Lemma PA_num n r : PA (TNum n :: r) (PNum n) r.
Proof. ev_intro 1%nat. reflexivity. Qed.

Lemma PA_name s r : okA r -> PA (TName s :: r) (PName s) r.
Proof. intros H. ev_intro 1%nat. destruct r as [|t r]; auto. destruct t; simpl in H; try discriminate; auto. Qed.

Lemma PA_paren ts a r : PE ts a (TRp :: r) -> PA (TLp :: ts) a r.
Proof. intros [f0 H]. ev_intro (S f0). rewrite H by lia. reflexivity. Qed.

Lemma PA_call s ts l r : hd_not (fun t => match t with TRp => true | _ => false end) ts ->
  PArgs ts l r -> PA (TName s :: TLp :: ts) (PCall s l) r.
Proof.
  intros Hh [f0 H]. ev_intro (S f0). destruct ts as [|t ts].
  - rewrite H by lia. reflexivity.
  - destruct t; simpl in Hh; try discriminate; rewrite H by lia; reflexivity.
Qed.

Lemma PArgs_one ts a r : PE ts a (TRp :: r) -> PArgs ts [a] r.
Proof. intros [f0 H]. ev_intro (S f0). rewrite H by lia. reflexivity. Qed.

Lemma PArgs_cons ts a r1 l r : PE ts a (TComma :: r1) -> PArgs r1 l r -> PArgs ts (a :: l) r.
Proof.
  intros [f0 H] [f1 H1]. ev_intro (S (f0 + f1)). rewrite H by lia. rewrite H1 by lia. reflexivity.
Qed.

Lemma PP_atom ts a r : PA ts a r -> hd_not (fun t => match t with TPow => true | _ => false end) r -> PP ts a r.
Proof.
  intros [f0 H] Hh. ev_intro (S f0). rewrite H by lia.
  destruct r as [|t r]; auto. destruct t; simpl in Hh; try discriminate; auto.
Qed.

Lemma PP_pow ts a r1 b r : PA ts a (TPow :: r1) -> PF r1 b r -> PP ts (PBin OPow a b) r.
Proof.
  intros [f0 H] [f1 H1]. ev_intro (S (f0 + f1)). rewrite H by lia. rewrite H1 by lia. reflexivity.
Qed.

Lemma PF_neg r a r' : PF r a r' -> PF (TMinus :: r) (PNeg a) r'.
Proof. intros [f0 H]. ev_intro (S f0). rewrite H by lia. reflexivity. Qed.

Lemma PF_power ts a r : hd_not is_minus ts -> PP ts a r -> PF ts a r.
Proof.
  intros Hh [f0 H]. ev_intro (S f0). destruct ts as [|t ts].
  - apply H; lia.
  - destruct t; simpl in Hh; try discriminate; apply H; lia.
Qed.

Lemma PTR_stop acc r : hd_not is_mulop r -> PTR acc r acc r.
Proof.
  intros Hh. ev_intro 1%nat. destruct r as [|t r]; auto. destruct t; simpl in Hh; try discriminate; auto.
Qed.
Lemma PTR_mul acc r b r1 c r2 : PF r b r1 -> PTR (PBin OMul acc b) r1 c r2 -> PTR acc (TStar :: r) c r2.
Proof.
  intros [f0 H] [f1 H1]. ev_intro (S (f0 + f1)). rewrite H by lia. apply H1; lia.
Qed.
Lemma PTR_div acc r b r1 c r2 : PF r b r1 -> PTR (PBin ODiv acc b) r1 c r2 -> PTR acc (TSlash :: r) c r2.
Proof.
  intros [f0 H] [f1 H1]. ev_intro (S (f0 + f1)). rewrite H by lia. apply H1; lia.
Qed.
Lemma PT_intro ts a r b r' : PF ts a r -> PTR a r b r' -> PT ts b r'.
Proof.
  intros [f0 H] [f1 H1]. ev_intro (S (f0 + f1)). rewrite H by lia. apply H1; lia.
Qed.

Lemma PER_stop acc r : hd_not is_addop r -> PER acc r acc r.
Proof.
  intros Hh. ev_intro 1%nat. destruct r as [|t r]; auto. destruct t; simpl in Hh; try discriminate; auto.
Qed.
Lemma PER_add acc r b r1 c r2 : PT r b r1 -> PER (PBin OAdd acc b) r1 c r2 -> PER acc (TPlus :: r) c r2.
Proof.
  intros [f0 H] [f1 H1]. ev_intro (S (f0 + f1)). rewrite H by lia. apply H1; lia.
Qed.
Lemma PER_sub acc r b r1 c r2 : PT r b r1 -> PER (PBin OSub acc b) r1 c r2 -> PER acc (TMinus :: r) c r2.
Proof.
  intros [f0 H] [f1 H1]. ev_intro (S (f0 + f1)). rewrite H by lia. apply H1; lia.
Qed.
Lemma PE_intro ts a r b r' : PT ts a r -> PER a r b r' -> PE ts b r'.
Proof.
  intros [f0 H] [f1 H1]. ev_intro (S (f0 + f1)). rewrite H by lia. apply H1; lia.
Qed.

(* derived inclusions *)
Lemma PA_PF ts a r : hd_not is_minus ts -> PA ts a r -> okP r -> PF ts a r.
Proof.
  intros Hm H Hr. apply PF_power; auto. apply PP_atom; auto.
  destruct r as [|t r]; simpl in *; auto. destruct t; simpl in *; congruence.
Qed.
Lemma PF_PT ts a r : PF ts a r -> okT r -> PT ts a r.
Proof.
  intros H Hr. eapply PT_intro; eauto. apply PTR_stop.
  destruct r as [|t r]; simpl in *; auto. unfold badT in Hr. apply orb_false_iff in Hr. tauto.
Qed.
Lemma PT_PE ts a r : PT ts a r -> okE r -> PE ts a r.
Proof.
  intros H Hr. eapply PE_intro; eauto. apply PER_stop.
  destruct r as [|t r]; simpl in *; auto. unfold badE in Hr. apply orb_false_iff in Hr. tauto.
Qed.

Lemma Ev_some {A} (p : nat -> option A) r : Ev p r -> exists f, p f = Some r.
Proof. intros [f0 H]. exists f0. apply H. lia. Qed.

(* ------------------------------------------------------------------ fuel adequacy *)
Definition len := @List.length token.

Definition FE_expr f := forall ts a r, p_expr f ts = Some (a, r) ->
  exists n, len ts = (n + len r)%nat /\ (n >= 1)%nat /\ forall f', (f' >= 6 * n + 5)%nat -> p_expr f' ts = Some (a, r).
Definition FE_expr_rest f := forall acc ts a r, p_expr_rest f acc ts = Some (a, r) ->
  exists n, len ts = (n + len r)%nat /\ forall f', (f' >= 6 * n + 1)%nat -> p_expr_rest f' acc ts = Some (a, r).
Definition FE_term f := forall ts a r, p_term f ts = Some (a, r) ->
  exists n, len ts = (n + len r)%nat /\ (n >= 1)%nat /\ forall f', (f' >= 6 * n + 4)%nat -> p_term f' ts = Some (a, r).
Definition FE_term_rest f := forall acc ts a r, p_term_rest f acc ts = Some (a, r) ->
  exists n, len ts = (n + len r)%nat /\ forall f', (f' >= 6 * n + 1)%nat -> p_term_rest f' acc ts = Some (a, r).
Definition FE_factor f := forall ts a r, p_factor f ts = Some (a, r) ->
  exists n, len ts = (n + len r)%nat /\ (n >= 1)%nat /\ forall f', (f' >= 6 * n + 3)%nat -> p_factor f' ts = Some (a, r).
Definition FE_power f := forall ts a r, p_power f ts = Some (a, r) ->
  exists n, len ts = (n + len r)%nat /\ (n >= 1)%nat /\ forall f', (f' >= 6 * n + 2)%nat -> p_power f' ts = Some (a, r).
Definition FE_atom f := forall ts a r, p_atom f ts = Some (a, r) ->
  exists n, len ts = (n + len r)%nat /\ (n >= 1)%nat /\ forall f', (f' >= 6 * n + 1)%nat -> p_atom f' ts = Some (a, r).
Definition FE_args f := forall ts l r, p_args f ts = Some (l, r) ->
  exists n, len ts = (n + len r)%nat /\ (n >= 1)%nat /\ forall f', (f' >= 6 * n + 6)%nat -> p_args f' ts = Some (l, r).

Definition FE_all f := FE_expr f /\ FE_expr_rest f /\ FE_term f /\ FE_term_rest f /\ FE_factor f /\ FE_power f /\ FE_atom f /\ FE_args f.

Ltac fe_fin := intros f' Hf'; destruct f' as [|f']; [lia|]; simpl.

Lemma fuel_enough_all : forall f, FE_all f.
Proof.
  induction f as [|f IH].
  - repeat split; red; intros; simpl in *; discriminate.
  - destruct IH as (IHe & IHer & IHt & IHtr & IHf & IHp & IHa & IHar).
    repeat split; red.
    + (* expr *) intros ts a r H. simpl in H.
      destruct (p_term f ts) as [[a1 r1]|] eqn:E1; [|discriminate].
      apply IHt in E1. destruct E1 as (n1 & L1 & G1 & B1).
      apply IHer in H. destruct H as (n2 & L2 & B2).
      exists (n1 + n2)%nat. split; [unfold len in *; lia|]. split; [lia|]. fe_fin.
      rewrite B1 by lia. apply B2; lia.
    + (* expr_rest *) intros acc ts a r H. simpl in H.
      destruct ts as [|t ts].
      { inversion H; subst. exists 0%nat. split; [reflexivity|]. fe_fin. reflexivity. }
      destruct t; try (inversion H; subst; exists 0%nat; split; [reflexivity|]; fe_fin; reflexivity).
      * destruct (p_term f ts) as [[b r1]|] eqn:E1; [|discriminate].
        apply IHt in E1. destruct E1 as (n1 & L1 & G1 & B1).
        apply IHer in H. destruct H as (n2 & L2 & B2).
        exists (S (n1 + n2)). split; [unfold len in *; simpl; lia|]. fe_fin.
        rewrite B1 by lia. apply B2; lia.
      * destruct (p_term f ts) as [[b r1]|] eqn:E1; [|discriminate].
        apply IHt in E1. destruct E1 as (n1 & L1 & G1 & B1).
        apply IHer in H. destruct H as (n2 & L2 & B2).
        exists (S (n1 + n2)). split; [unfold len in *; simpl; lia|]. fe_fin.
        rewrite B1 by lia. apply B2; lia.
    + (* term *) intros ts a r H. simpl in H.
      destruct (p_factor f ts) as [[a1 r1]|] eqn:E1; [|discriminate].
      apply IHf in E1. destruct E1 as (n1 & L1 & G1 & B1).
      apply IHtr in H. destruct H as (n2 & L2 & B2).
      exists (n1 + n2)%nat. split; [unfold len in *; lia|]. split; [lia|]. fe_fin.
      rewrite B1 by lia. apply B2; lia.
    + (* term_rest *) intros acc ts a r H. simpl in H.
      destruct ts as [|t ts].
      { inversion H; subst. exists 0%nat. split; [reflexivity|]. fe_fin. reflexivity. }
      destruct t; try (inversion H; subst; exists 0%nat; split; [reflexivity|]; fe_fin; reflexivity).
      * destruct (p_factor f ts) as [[b r1]|] eqn:E1; [|discriminate].
        apply IHf in E1. destruct E1 as (n1 & L1 & G1 & B1).
        apply IHtr in H. destruct H as (n2 & L2 & B2).
        exists (S (n1 + n2)). split; [unfold len in *; simpl; lia|]. fe_fin.
        rewrite B1 by lia. apply B2; lia.
      * destruct (p_factor f ts) as [[b r1]|] eqn:E1; [|discriminate].
        apply IHf in E1. destruct E1 as (n1 & L1 & G1 & B1).
        apply IHtr in H. destruct H as (n2 & L2 & B2).
        exists (S (n1 + n2)). split; [unfold len in *; simpl; lia|]. fe_fin.
        rewrite B1 by lia. apply B2; lia.
    + (* factor *) intros ts a r H. simpl in H.
      assert (Hpow : p_power f ts = Some (a, r) ->
                exists n, len ts = (n + len r)%nat /\ (n >= 1)%nat /\
                  forall f', (f' >= 6 * n + 2)%nat -> p_power f' ts = Some (a, r)) by (apply IHp).
      destruct ts as [|t ts].
      { apply Hpow in H. destruct H as (m & L & G & B). exists m. split; auto. split; auto. fe_fin. apply B; lia. }
      destruct t; try (apply Hpow in H; destruct H as (m & L & G & B); exists m; split; auto; split; auto; fe_fin; apply B; lia).
      destruct (p_factor f ts) as [[a1 r1]|] eqn:E1; [|discriminate]. inversion H; subst.
      apply IHf in E1. destruct E1 as (n1 & L1 & G1 & B1).
      exists (S n1). split; [unfold len in *; simpl; lia|]. split; [lia|]. fe_fin. rewrite B1 by lia. reflexivity.
    + (* power *) intros ts a r H. simpl in H.
      destruct (p_atom f ts) as [[a1 r1]|] eqn:E1; [|discriminate].
      apply IHa in E1. destruct E1 as (n1 & L1 & G1 & B1).
      destruct r1 as [|t r1].
      { inversion H; subst. exists n1. split; auto. split; auto. fe_fin. rewrite B1 by lia. reflexivity. }
      destruct t; try (inversion H; subst; exists n1; split; auto; split; auto; fe_fin; rewrite B1 by lia; reflexivity).
      destruct (p_factor f r1) as [[b r2]|] eqn:E2; [|discriminate]. inversion H; subst.
      apply IHf in E2. destruct E2 as (n2 & L2 & G2 & B2).
      exists (S (n1 + n2)). split; [unfold len in *; simpl in *; lia|]. split; [lia|]. fe_fin.
      rewrite B1 by lia. rewrite B2 by lia. reflexivity.
    + (* atom *) intros ts a r H. simpl in H.
      destruct ts as [|t ts]; [discriminate|].
      destruct t; try discriminate.
      * inversion H; subst. exists 1%nat. split; [reflexivity|]. split; [lia|]. fe_fin. reflexivity.
      * destruct ts as [|t2 ts].
        { inversion H; subst. exists 1%nat. split; [reflexivity|]. split; [lia|]. fe_fin. reflexivity. }
        destruct t2; try (inversion H; subst; exists 1%nat; split; [reflexivity|]; split; [lia|]; fe_fin; reflexivity).
        assert (Hargs : forall ts', match p_args f ts' with Some (args, r') => Some (PCall s args, r') | None => None end = Some (a, r) ->
                   exists n, len (TName s :: TLp :: ts') = (n + len r)%nat /\ (n >= 1)%nat /\
                   forall f', (f' >= 6 * n)%nat -> match p_args f' ts' with Some (args, r') => Some (PCall s args, r') | None => None end = Some (a, r)).
        { intros ts' H'. destruct (p_args f ts') as [[l r']|] eqn:E1; [|discriminate]. inversion H'; subst.
          apply IHar in E1. destruct E1 as (n1 & L1 & G1 & B1).
          exists (S (S n1)). split; [unfold len in *; simpl in *; lia|]. split; [lia|]. intros f' Hf'. rewrite B1 by lia. reflexivity. }
        destruct ts as [|t3 ts].
        { apply Hargs in H. destruct H as (m & L & G & B). exists m. split; auto. split; auto. fe_fin. apply B; lia. }
        destruct t3; try (apply Hargs in H; destruct H as (m & L & G & B); exists m; split; auto; split; auto; fe_fin; apply B; lia).
        inversion H; subst. exists 3%nat. split; [reflexivity|]. split; [lia|]. fe_fin. reflexivity.
      * destruct (p_expr f ts) as [[a1 r1]|] eqn:E1; [|discriminate].
        destruct r1 as [|t r1]; [discriminate|]. destruct t; try discriminate. inversion H; subst.
        apply IHe in E1. destruct E1 as (n1 & L1 & G1 & B1).
        exists (S (S n1)). split; [unfold len in *; simpl in *; lia|]. split; [lia|]. fe_fin. rewrite B1 by lia. reflexivity.
    + (* args *) intros ts l r H. simpl in H.
      destruct (p_expr f ts) as [[a1 r1]|] eqn:E1; [|discriminate].
      apply IHe in E1. destruct E1 as (n1 & L1 & G1 & B1).
      destruct r1 as [|t r1]; [discriminate|]. destruct t; try discriminate.
      * inversion H; subst. exists (S n1). split; [unfold len in *; simpl in *; lia|]. split; [lia|]. fe_fin.
        rewrite B1 by lia. reflexivity.
      * destruct (p_args f r1) as [[l2 r2]|] eqn:E2; [|discriminate]. inversion H; subst.
        apply IHar in E2. destruct E2 as (n2 & L2 & G2 & B2).
        exists (S (n1 + n2)). split; [unfold len in *; simpl in *; lia|]. split; [lia|]. fe_fin.
        rewrite B1 by lia. rewrite B2 by lia. reflexivity.
Qed.

(* if the whole token list parses with some fuel, parse_tokens finds the same tree *)
Theorem parse_tokens_complete ts a : PE ts a [] -> parse_tokens ts = Some a.
Proof.
  intros H. apply Ev_some in H. destruct H as [f H].
  destruct (fuel_enough_all f) as (He & _). apply He in H. destruct H as (n & L & G & B).
  unfold parse_tokens. rewrite B; [reflexivity|]. unfold fuel_of, len in *. simpl in L. lia.
Qed.

(* ------------------------------------------------------------------ lexer *)
From Coq Require Import DecimalString Decimal DecimalN DecimalPos.

Fixpoint strip (ts : list token) : list token :=
  match ts with [] => [] | TSp :: r => strip r | t :: r => t :: strip r end.

Lemma string_app_assoc (a b c : string) : ((a ++ b) ++ c = a ++ (b ++ c))%string.
Proof. induction a; simpl; congruence. Qed.

Lemma lex_digits s : all_chars is_digit s = true -> forall cur rest,
  lex_go (LNum cur) (s ++ rest) = lex_go (LNum (cur ++ s)) rest.
Proof.
  induction s as [|c s IH]; intros H cur rest; simpl in *.
  - replace (cur ++ "")%string with cur; auto. clear. induction cur; simpl; congruence.
  - apply andb_true_iff in H. destruct H as [Hc Hs]. rewrite Hc. rewrite IH by auto.
    unfold snoc. rewrite string_app_assoc. reflexivity.
Qed.

Lemma lex_alnums s : all_chars is_alnum s = true -> forall cur rest,
  lex_go (LName cur) (s ++ rest) = lex_go (LName (cur ++ s)) rest.
Proof.
  induction s as [|c s IH]; intros H cur rest; simpl in *.
  - replace (cur ++ "")%string with cur; auto. clear. induction cur; simpl; congruence.
  - apply andb_true_iff in H. destruct H as [Hc Hs]. rewrite Hc. rewrite IH by auto.
    unfold snoc. rewrite string_app_assoc. reflexivity.
Qed.

Lemma uint_digits d : all_chars is_digit (NilEmpty.string_of_uint d) = true.
Proof. induction d; simpl; auto. Qed.

Lemma N_to_uint_nonnil n : N.to_uint n <> Nil.
Proof. destruct n; simpl; [discriminate|apply Unsigned.to_uint_nonnil]. Qed.

Lemma N_to_string_eq n : N_to_string n = NilEmpty.string_of_uint (N.to_uint n).
Proof. unfold N_to_string, NilZero.string_of_uint. pose proof (N_to_uint_nonnil n). destruct (N.to_uint n); congruence. Qed.

Lemma N_to_string_digits n : exists c s, N_to_string n = String c s /\ is_digit c = true /\ all_chars is_digit s = true.
Proof.
  rewrite N_to_string_eq. pose proof (N_to_uint_nonnil n) as Hn. pose proof (uint_digits (N.to_uint n)) as Hd.
  destruct (N.to_uint n); try congruence; simpl in *; eexists; eexists; split; try reflexivity; split; auto.
Qed.

Lemma num_roundtrip n : num_of_string (N_to_string n) = Some n.
Proof.
  unfold num_of_string. rewrite N_to_string_eq. rewrite NilEmpty.usu. rewrite DecimalN.Unsigned.of_to. reflexivity.
Qed.

(* the lexeme still open after a token *)
Inductive pend := QNone | QNum (n : N) | QName (s : string) | QStar.
Definition pend_of (t : token) : pend :=
  match t with TNum n => QNum n | TName s => QName s | TStar => QStar | _ => QNone end.
Definition st_of (p : pend) : lstate :=
  match p with QNone => LNone | QNum n => LNum (N_to_string n) | QName s => LName s | QStar => LStar end.
Definition ptoks (p : pend) : list token :=
  match p with QNone => [] | QNum n => [TNum n] | QName s => [TName s] | QStar => [TStar] end.

(* which token may follow which without changing the token sequence *)
Definition adj1 (p : pend) (t : token) : bool :=
  match p, t with
  | (QNum _ | QName _), (TNum _ | TName _) => false
  | QStar, (TStar | TPow) => false
  | _, _ => true
  end.
Definition tok_ok (t : token) : bool := match t with TName s => ident_ok s | _ => true end.
Fixpoint adj (p : pend) (ts : list token) : bool :=
  match ts with [] => true | t :: r => adj1 p t && tok_ok t && adj (pend_of t) r end.

Lemma flush_st p : flush (st_of p) = Some (ptoks p).
Proof. destruct p; simpl; auto. rewrite num_roundtrip. reflexivity. Qed.

Lemma ocons_some a b : ocons (Some a) (Some b) = Some (a ++ b).
Proof. reflexivity. Qed.

Lemma lex_special p c r toks :
  is_digit c = false -> is_alpha c = false -> Ascii.eqb c "*" = false -> single_tok c = Some toks ->
  lex_go (st_of p) (String c r) = ocons (Some (ptoks p)) (ocons (Some toks) (lex_go LNone r)).
Proof.
  intros Hd Ha Hs Ht. rewrite <- flush_st. destruct p; simpl st_of; simpl lex_go; unfold is_alnum;
    rewrite ?Hd, ?Ha, ?Hs, ?Ht; simpl; auto.
  destruct (lex_go LNone r); reflexivity.
Qed.

Lemma digit_not_alpha c : is_digit c = true -> is_alpha c = false.
Proof. destruct c as [[] [] [] [] [] [] [] []]; vm_compute; intros; congruence. Qed.
Lemma alpha_not_digit c : is_alpha c = true -> is_digit c = false.
Proof. destruct c as [[] [] [] [] [] [] [] []]; vm_compute; intros; congruence. Qed.
Lemma digit_not_star c : is_digit c = true -> Ascii.eqb c "*" = false.
Proof. destruct c as [[] [] [] [] [] [] [] []]; vm_compute; intros; congruence. Qed.
Lemma alpha_not_star c : is_alpha c = true -> Ascii.eqb c "*" = false.
Proof. destruct c as [[] [] [] [] [] [] [] []]; vm_compute; intros; congruence. Qed.

Theorem lex_render : forall ts p, adj p ts = true ->
  lex_go (st_of p) (render ts) = Some (ptoks p ++ strip ts).
Proof.
  induction ts as [|t ts IH]; intros p H.
  - simpl. rewrite flush_st. rewrite app_nil_r. reflexivity.
  - simpl in H. apply andb_true_iff in H. destruct H as [H Hr]. apply andb_true_iff in H. destruct H as [H1 Hok].
    specialize (IH _ Hr). simpl render.
    destruct t; simpl render_tok; simpl pend_of in IH; simpl st_of in IH; simpl ptoks in IH.
    + (* number *)
      destruct (N_to_string_digits n) as (c & s & E & Hc & Hs).
      pose proof (digit_not_alpha c Hc) as Hna.
      rewrite E in *. destruct p; simpl in H1; try discriminate; simpl st_of; simpl lex_go; rewrite Hc.
      * rewrite (lex_digits s Hs). simpl append. rewrite IH. reflexivity.
      * rewrite (digit_not_star c Hc). rewrite (lex_digits s Hs). simpl append. rewrite IH. reflexivity.
    + (* name *)
      simpl in Hok. destruct s as [|c s]; [discriminate|]. simpl in Hok. apply andb_true_iff in Hok. destruct Hok as [Hc Hs].
      pose proof (alpha_not_digit c Hc) as Hnd.
      destruct p; simpl in H1; try discriminate; simpl st_of; simpl append; simpl lex_go; rewrite Hnd, Hc.
      * rewrite (lex_alnums s Hs). simpl append. rewrite IH. reflexivity.
      * rewrite (alpha_not_star c Hc). rewrite (lex_alnums s Hs). simpl append. rewrite IH. reflexivity.
    + simpl append. rewrite (lex_special p "+" _ [TPlus]) by reflexivity. rewrite IH. destruct p; reflexivity.
    + simpl append. rewrite (lex_special p "-" _ [TMinus]) by reflexivity. rewrite IH. destruct p; reflexivity.
    + (* star *)
      simpl append. destruct p; simpl in H1; try discriminate; simpl st_of; simpl lex_go.
      * rewrite IH. reflexivity.
      * rewrite num_roundtrip. rewrite IH. reflexivity.
      * unfold is_alnum. simpl. rewrite IH. reflexivity.
    + simpl append. rewrite (lex_special p "/" _ [TSlash]) by reflexivity. rewrite IH. destruct p; reflexivity.
    + (* ** *)
      simpl append. destruct p; simpl in H1; try discriminate; simpl st_of; simpl lex_go.
      * rewrite IH. reflexivity.
      * rewrite num_roundtrip. rewrite IH. reflexivity.
      * unfold is_alnum. simpl. rewrite IH. reflexivity.
    + simpl append. rewrite (lex_special p "(" _ [TLp]) by reflexivity. rewrite IH. destruct p; reflexivity.
    + simpl append. rewrite (lex_special p ")" _ [TRp]) by reflexivity. rewrite IH. destruct p; reflexivity.
    + simpl append. rewrite (lex_special p "," _ [TComma]) by reflexivity. rewrite IH. destruct p; reflexivity.
    + simpl append. rewrite (lex_special p " " _ []) by reflexivity. rewrite IH. destruct p; reflexivity.
Qed.
