(* The index loop of simplify_inv_subs, for ANY element type and equality: the generated code (Gen/GenCancel.v) equals a
   structural cancel (adjacent equal members of all_dup are removed left to right, one pass).  Used by C17 (at the element
   type [sub]) and by C03, whose chains are lists of abstract substitution ids: the hypothesis cancel_ok of C03_chain_sound
   is DISCHARGED for the code as it is now (code_cancel_ok). *)
From Coq Require Import ZArith Arith Bool Lia List.
From ESRV Require Import Common.Py Gen.GenCancel Proofs.CancelGenProofs.
Import ListNotations.
Open Scope nat_scope.

Section GenericCancel.
  Context {A : Type} (eqA : A -> A -> bool).

  Fixpoint gcancel (dup : list A) (l : list A) : list A :=
    match l with
    | [] => []
    | x :: t =>
        match t with
        | [] => [x]
        | y :: r => if py_mem eqA x dup && eqA y x then gcancel dup r else x :: gcancel dup t
        end
    end.

  Fixpoint gdel_idx (dup : list A) (l : list A) : list nat :=
    match l with
    | [] => []
    | x :: t =>
        match t with
        | [] => []
        | y :: r => if py_mem eqA x dup && eqA y x then 0 :: 1 :: map (fun k => 2 + k) (gdel_idx dup r)
                    else map S (gdel_idx dup t)
        end
    end.

  Lemma nth_error_mid' (pre : list A) x l : nth_error (pre ++ x :: l) (length pre) = Some x.
  Proof. rewrite nth_error_app2 by lia. now rewrite Nat.sub_diag. Qed.
  
  Lemma gloop_spec dup fuel : forall pre l del,
    length l < fuel ->
    gloop eqA fuel (pre ++ l) dup (length pre) del
    = Some (del ++ map (fun k => length pre + k) (gdel_idx dup l)).
  Proof.
    induction fuel as [|fuel IH]; intros pre l del Hf; [lia|].
    cbn [gloop]. rewrite app_length.
    destruct l as [|x [|y r]].
    - cbn [length]. destruct (Nat.ltb_spec (length pre + 1) (length pre + 0)); [lia|].
      cbn. now rewrite app_nil_r.
    - cbn [length]. destruct (Nat.ltb_spec (length pre + 1) (length pre + 1)); [lia|].
      cbn. now rewrite app_nil_r.
    - cbn [length] in *. destruct (Nat.ltb_spec (length pre + 1) (length pre + S (S (length r)))); [|lia].
      rewrite nth_error_mid'.
      replace (pre ++ x :: y :: r) with ((pre ++ [x]) ++ y :: r) at 1 by (now rewrite <- app_assoc).
      replace (length pre + 1) with (length (pre ++ [x])) at 1 by (rewrite app_length; cbn; lia).
      rewrite nth_error_mid'.
      cbn [gdel_idx]. destruct (py_mem eqA x dup) eqn:Hm; cbn [andb].
      + destruct (eqA y x) eqn:He.
        * replace (pre ++ x :: y :: r) with ((pre ++ [x; y]) ++ r) by (now rewrite <- app_assoc).
          replace (length pre + 2) with (length (pre ++ [x; y])) by (rewrite app_length; cbn; lia).
          rewrite IH by lia. f_equal. rewrite <- app_assoc. f_equal.
          rewrite app_length. cbn [length map app]. rewrite map_map.
          f_equal; [lia|]. f_equal. apply map_ext. intros; lia.
        * replace (pre ++ x :: y :: r) with ((pre ++ [x]) ++ y :: r) by (now rewrite <- app_assoc).
          replace (length pre + 1) with (length (pre ++ [x])) by (rewrite app_length; cbn; lia).
          rewrite IH by (cbn; lia). f_equal. f_equal. rewrite map_map. rewrite app_length. cbn [length].
          apply map_ext. intros; lia.
      + replace (pre ++ x :: y :: r) with ((pre ++ [x]) ++ y :: r) by (now rewrite <- app_assoc).
        replace (length pre + 1) with (length (pre ++ [x])) by (rewrite app_length; cbn; lia).
        rewrite IH by (cbn; lia). f_equal. f_equal. rewrite map_map. rewrite app_length. cbn [length].
        apply map_ext. intros; lia.
  Qed.
  
  Lemma gcancel_cons2 dup x y r :
    gcancel dup (x :: y :: r) = if py_mem eqA x dup && eqA y x then gcancel dup r else x :: gcancel dup (y :: r).
  Proof. reflexivity. Qed.
  
  Lemma gdel_idx_cons2 dup x y r :
    gdel_idx dup (x :: y :: r) = if py_mem eqA x dup && eqA y x then 0 :: 1 :: map (fun k => 2 + k) (gdel_idx dup r)
                                else map S (gdel_idx dup (y :: r)).
  Proof. reflexivity. Qed.
  
  (* selection by index, with an offset *)
  Definition gselect_off (k : nat) (l : list A) (del : list nat) : list A :=
    map snd (filter (fun p => negb (existsb (Nat.eqb (fst p)) del)) (combine (seq k (length l)) l)).
  
  Lemma gselect_off_cons k x l del :
    gselect_off k (x :: l) del =
    (if existsb (Nat.eqb k) del then [] else [x]) ++ gselect_off (S k) l del.
  Proof.
    unfold gselect_off. cbn [length seq combine filter fst]. destruct (existsb (Nat.eqb k) del); reflexivity.
  Qed.
  
  Lemma existsb_eqb_In' k del : existsb (Nat.eqb k) del = true <-> In k del.
  Proof.
    rewrite existsb_exists. split.
    - intros (x & Hx & E). apply Nat.eqb_eq in E. now subst.
    - intros H. exists k. split; [assumption|apply Nat.eqb_refl].
  Qed.
  
  Lemma select_gdel_idx dup n : forall l k D,
    length l <= n -> (forall d, In d D -> d < k) ->
    gselect_off k l (D ++ map (fun j => k + j) (gdel_idx dup l)) = gcancel dup l.
  Proof.
    induction n as [|n IH]; intros l k D Hn HD.
    - destruct l; [reflexivity|cbn in Hn; lia].
    - destruct l as [|x [|y r]]; [reflexivity| |].
      + cbn [gdel_idx gcancel map]. rewrite gselect_off_cons.
        destruct (existsb (Nat.eqb k) (D ++ [])) eqn:E.
        * apply existsb_eqb_In' in E. rewrite app_nil_r in E. apply HD in E. lia.
        * reflexivity.
      + rewrite gdel_idx_cons2, gcancel_cons2. destruct (py_mem eqA x dup && eqA y x) eqn:Hc.
        * cbn [map]. rewrite !gselect_off_cons.
          assert (E1 : existsb (Nat.eqb k) (D ++ (k + 0) :: (k + 1) :: map (fun j => k + j) (map (fun k0 => 2 + k0) (gdel_idx dup r))) = true).
          { apply existsb_eqb_In'. apply in_or_app. right. left. lia. }
          assert (E2 : existsb (Nat.eqb (S k)) (D ++ (k + 0) :: (k + 1) :: map (fun j => k + j) (map (fun k0 => 2 + k0) (gdel_idx dup r))) = true).
          { apply existsb_eqb_In'. apply in_or_app. right. right. left. lia. }
          rewrite E1, E2. cbn [app].
          replace (D ++ (k + 0) :: (k + 1) :: map (fun j => k + j) (map (fun k0 => 2 + k0) (gdel_idx dup r)))
            with ((D ++ [k; S k]) ++ map (fun j => S (S k) + j) (gdel_idx dup r)).
          2:{ rewrite <- app_assoc. f_equal. cbn [app]. rewrite map_map.
              f_equal; [lia|]. f_equal; [lia|]. apply map_ext. intros; lia. }
          apply IH; [cbn in Hn; lia|].
          intros d Hd. apply in_app_or in Hd as [Hd|Hd]; [apply HD in Hd; lia|].
          destruct Hd as [<-|[<-|[]]]; lia.
        * rewrite gselect_off_cons.
          assert (E : existsb (Nat.eqb k) (D ++ map (fun j => k + j) (map S (gdel_idx dup (y :: r)))) = false).
          { apply not_true_iff_false. intros E. apply existsb_eqb_In' in E. apply in_app_or in E as [E|E].
            - apply HD in E. lia.
            - rewrite map_map in E. apply in_map_iff in E as (j & E & _). lia. }
          rewrite E. cbn [app]. f_equal.
          replace (map (fun j => k + j) (map S (gdel_idx dup (y :: r))))
            with (map (fun j => S k + j) (gdel_idx dup (y :: r)))
            by (rewrite map_map; apply map_ext; intros; lia).
          apply IH; [cbn in Hn |- *; lia|]. intros d Hd. apply HD in Hd. lia.
  Qed.
  
  Lemma gselect_is_off inv del : gselect inv del = gselect_off 0 inv del.
  Proof. reflexivity. Qed.
  
  (* the loop-and-filter of the code is the structural cancel; it always finishes *)
  Theorem gsimplify_spec inv dup :
    gsimplify eqA inv dup =
    Some (match inv with
          | [] => Some []
          | _ => match gcancel dup inv with [] => None | c => Some c end
          end).
  Proof.
    destruct inv as [|x inv]; [reflexivity|].
    unfold gsimplify.
    pose proof (gloop_spec dup (S (length (x :: inv))) [] (x :: inv) [] ltac:(lia)) as H.
    cbn [app length] in H. cbn [length]. rewrite H. cbn [app].
    rewrite gselect_is_off.
    replace (map (fun k => 0 + k) (gdel_idx dup (x :: inv))) with ([] ++ map (fun k => 0 + k) (gdel_idx dup (x :: inv))) by reflexivity.
    rewrite (select_gdel_idx dup (length (x :: inv))) by (reflexivity || (intros d []) || lia).
    destruct (gcancel dup (x :: inv)); reflexivity.
  Qed.

  (* the generated function, as a total function on chains (None = empty row) *)
  Definition code_cancel (dup : list A) (c : list A) : list A :=
    match GenCancel.simplify_inv_subs eqA (Some c) dup with
    | Some (Some c') => c'
    | _ => []
    end.

  Theorem code_cancel_is_gcancel : forall dup c, code_cancel dup c = gcancel dup c.
  Proof.
    intros dup c. unfold code_cancel. rewrite gen_simplify_eq, gsimplify_spec.
    destruct c as [|x c]; [reflexivity|]. destruct (gcancel dup (x :: c)); reflexivity.
  Qed.

  Theorem code_never_raises : forall dup c, exists r, GenCancel.simplify_inv_subs eqA (Some c) dup = Some r.
  Proof. intros. rewrite gen_simplify_eq, gsimplify_spec. eauto. Qed.
End GenericCancel.
