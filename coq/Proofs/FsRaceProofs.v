From Coq Require Import List Bool Arith Lia.
From ESRV Require Import Model.FsRace.
Import ListNotations.

(* A program is harmless when it contains no operation that can raise. *)
Definition harmless_op (o : op) : bool :=
  match o with OMkdirUnlessFlag _ | OUse _ => false | _ => true end.
Definition harmless (st : state) : Prop :=
  Forall (fun r => forallb harmless_op (prog r) = true) (ranks st).

Lemma Forall_set_nth {A} (Q : A -> Prop) n x l : Forall Q l -> Q x -> Forall Q (set_nth n x l).
Proof.
  intros H Hx; revert n; induction H as [|h t Hh Ht IH]; intros n; [destruct n; cbn; constructor|].
  destruct n; cbn; constructor; auto.
Qed.

Lemma Forall_release (Q : rstate -> Prop) l :
  (forall r, Q r -> Q (mkR (prog r) (flag r) false)) -> Forall Q l -> Forall Q (release l).
Proof.
  intros HQ H. unfold release. destruct (forallb waiting l); [|exact H].
  induction H; cbn; constructor; auto.
Qed.

Lemma step_harmless st r : harmless st -> no_error st -> harmless (step st r) /\ no_error (step st r).
Proof.
  intros Hh He. unfold step. unfold no_error in He. rewrite He.
  destruct (nth_error (ranks st) r) as [rs|] eqn:En; [|now split].
  destruct (waiting rs); [now split|].
  assert (Hrs : forallb harmless_op (prog rs) = true).
  { unfold harmless in Hh. rewrite Forall_forall in Hh. apply Hh. eapply nth_error_In; eauto. }
  destruct (prog rs) as [|o p] eqn:Ep; [now split|].
  cbn [forallb] in Hrs. apply andb_true_iff in Hrs as [Ho Hp].
  destruct o; cbn in Ho; try discriminate; split; try reflexivity; unfold harmless; cbn [ranks].
  - apply Forall_set_nth; auto.
  - apply Forall_set_nth; auto.
  - apply Forall_release; [auto|]. apply Forall_set_nth; auto.
Qed.

Lemma run_harmless sched st : harmless st -> no_error st -> no_error (fold_left step sched st).
Proof.
  revert st; induction sched as [|r s IH]; intros st Hh He; cbn; [exact He|].
  destruct (step_harmless st r Hh He). apply IH; assumption.
Qed.

Theorem ctor_fixed_safe (P : nat) (fs0 : list nat) (d : nat) (sched : list nat) :
  no_error (run_sched (ctor_programs_fixed P d) fs0 sched).
Proof.
  unfold run_sched. apply run_harmless; [|reflexivity].
  unfold harmless, init, ctor_programs_fixed; cbn [ranks].
  induction P; cbn; constructor; auto.
Qed.

(* the race of the unguarded constructor: both ranks test, then both create *)
Theorem ctor_racy_refuted : exists sched, ~ no_error (run_sched (ctor_programs_racy 2 0) [] sched).
Proof. exists [0; 1; 0; 1]. vm_compute. discriminate. Qed.

(* ------------------------------------------------------------------ *)
(* get_functions: rank 0 creates, Barrier, everybody uses              *)

Definition allmem (l fs0 : list nat) : Prop := Forall (fun d => mem d fs0 = true) l.
Definition usable (fs0 : list nat) (p : list op) : Prop :=
  Forall (fun o => exists d, o = OUse d /\ mem d fs0 = true) p.
Definition okuse (fs0 : list nat) (r : rstate) : Prop := waiting r = false /\ usable fs0 (prog r).
Definition other_pre (U : list op) (r : rstate) : Prop :=
  (prog r = OBarrier :: U /\ waiting r = false) \/ (prog r = U /\ waiting r = true).

Lemma mem_cons d x l : mem d (x :: l) = (Nat.eqb d x || mem d l)%bool.
Proof. reflexivity. Qed.

Lemma allmem_grow l fs0 x : allmem l fs0 -> allmem l (x :: fs0).
Proof.
  unfold allmem. intros H. eapply Forall_impl; [|exact H]. cbn beta. intros d Hd.
  rewrite mem_cons, Hd. apply orb_true_r.
Qed.

Lemma usable_of_allmem dirs fs0 : allmem dirs fs0 -> usable fs0 (map OUse dirs).
Proof.
  unfold allmem, usable. intros H. induction H; cbn; constructor; eauto.
Qed.

Lemma release_head_not_waiting r l : waiting r = false -> release (r :: l) = r :: l.
Proof. intros H. unfold release. cbn [forallb]. now rewrite H. Qed.

Definition InvGF (dirs : list nat) (st : state) : Prop :=
  let U := map OUse dirs in
  err st = false /\
  ((exists r0 others done todo,
      ranks st = r0 :: others /\ dirs = done ++ todo /\ allmem done (fs st) /\ waiting r0 = false /\
      (prog r0 = gf_create todo ++ OBarrier :: U \/
       exists d todo', todo = d :: todo' /\
         prog r0 = OMkdirUnlessFlag d :: gf_create todo' ++ OBarrier :: U /\ flag r0 = mem d (fs st)) /\
      Forall (other_pre U) others)
   \/ (exists r0 others,
      ranks st = r0 :: others /\ allmem dirs (fs st) /\ prog r0 = U /\ waiting r0 = true /\
      Forall (other_pre U) others)
   \/ (Forall (okuse (fs st)) (ranks st))).

Lemma release_to_okuse fs0 dirs l :
  allmem dirs fs0 ->
  Forall (fun r => prog r = map OUse dirs /\ waiting r = true) l ->
  Forall (okuse fs0) (release l).
Proof.
  intros Ha H. unfold release.
  assert (forallb waiting l = true) as ->.
  { induction H as [|r t [_ Hw] _ IH]; cbn; [reflexivity|]. now rewrite Hw, IH. }
  induction H as [|r t [Hp Hw] _ IH]; cbn; constructor; auto.
  split; cbn; [reflexivity|]. rewrite Hp. now apply usable_of_allmem.
Qed.

Lemma cleared_okuse fs0 dirs l :
  allmem dirs fs0 ->
  Forall (fun r => prog r = map OUse dirs /\ waiting r = true) l ->
  Forall (okuse fs0) (map (fun r => mkR (prog r) (flag r) false) l).
Proof.
  intros Ha H. induction H as [|x t [Hx _] _ IH]; cbn; constructor; auto.
  split; cbn; [reflexivity|]. rewrite Hx. now apply usable_of_allmem.
Qed.

Lemma release_cases l :
  (forallb waiting l = true /\ release l = map (fun r => mkR (prog r) (flag r) false) l) \/
  (forallb waiting l = false /\ release l = l).
Proof. unfold release. destruct (forallb waiting l); auto. Qed.

Lemma forallb_waiting_pre U l :
  Forall (other_pre U) l -> forallb waiting l = true -> Forall (fun r => prog r = U /\ waiting r = true) l.
Proof.
  intros H. induction H as [|r t Hr _ IH]; cbn; intros Hw; constructor.
  - apply andb_true_iff in Hw as [Hw _]. destruct Hr as [[_ Hr]|Hr]; [congruence|exact Hr].
  - apply andb_true_iff in Hw as [_ Hw]. auto.
Qed.

Lemma other_pre_step U others j rs :
  Forall (other_pre U) others -> nth_error others j = Some rs -> waiting rs = false ->
  prog rs = OBarrier :: U /\
  Forall (other_pre U) (set_nth j (mkR U (flag rs) true) others).
Proof.
  intros H En Hw.
  assert (Hrs : other_pre U rs).
  { rewrite Forall_forall in H. apply H. eapply nth_error_In; eauto. }
  destruct Hrs as [[Hp _]|[_ Hw']]; [|congruence]. split; [exact Hp|].
  apply Forall_set_nth; [exact H|]. right. cbn. auto.
Qed.

Lemma usable_step fs0 l r rs o p :
  Forall (okuse fs0) l -> nth_error l r = Some rs -> prog rs = o :: p ->
  exists d, o = OUse d /\ mem d fs0 = true /\ Forall (okuse fs0) (set_nth r (mkR p (flag rs) false) l).
Proof.
  intros H En Ep.
  assert (Hrs : okuse fs0 rs).
  { rewrite Forall_forall in H. apply H. eapply nth_error_In; eauto. }
  destruct Hrs as [Hw Hu]. unfold usable in Hu. rewrite Ep in Hu. inversion Hu as [|? ? (d & -> & Hm) Hp]; subst.
  exists d. repeat split; auto. apply Forall_set_nth; [exact H|]. split; cbn; auto.
Qed.

Lemma gf_step dirs st r : InvGF dirs st -> InvGF dirs (step st r).
Proof.
  intros [He Hph]. unfold step. rewrite He.
  destruct Hph as [(r0 & others & done & todo & Hr & Hd & Hdone & Hw0 & Hp0 & Hoth)
                  |[(r0 & others & Hr & Hall & Hp0 & Hw0 & Hoth)|HC]].
  - (* phase A *)
    rewrite Hr. destruct r as [|j]; cbn [nth_error].
    + rewrite Hw0. destruct Hp0 as [Hp0|(d & todo' & -> & Hp0 & Hf)].
      * destruct todo as [|d todo']; cbn [gf_create flat_map app] in Hp0; rewrite Hp0.
        -- (* rank 0 arrives at the barrier *)
           rewrite app_nil_r in Hd. subst done. cbn [set_nth].
           destruct (release_cases (mkR (map OUse dirs) (flag r0) true :: others)) as [[Hfw ->]|[Hfw ->]].
           ++ split; [reflexivity|]. right; right. cbn [ranks fs].
              cbn [forallb waiting] in Hfw.
              pose proof (forallb_waiting_pre _ _ Hoth Hfw) as Hall.
              cbn [map]. constructor; [split; cbn; [reflexivity|now apply usable_of_allmem]|].
              eapply cleared_okuse; eauto.
           ++ split; [reflexivity|]. right; left. exists (mkR (map OUse dirs) (flag r0) true), others.
              cbn. repeat split; auto.
        -- (* isdir *)
           split; [reflexivity|]. left. cbn [set_nth ranks fs].
           exists (mkR (OMkdirUnlessFlag d :: gf_create todo' ++ OBarrier :: map OUse dirs) (mem d (fs st)) false),
             others, done, (d :: todo'). cbn. repeat split; auto. right. exists d, todo'. auto.
      * rewrite Hp0. destruct (flag r0) eqn:Ef.
        -- split; [reflexivity|]. left. cbn [set_nth ranks fs].
           exists (mkR (gf_create todo' ++ OBarrier :: map OUse dirs) true false), others, (done ++ [d]), todo'.
           cbn. repeat split; auto.
           ++ now rewrite <- app_assoc.
           ++ apply Forall_app; split; [exact Hdone|]. constructor; [congruence|constructor].
        -- rewrite <- Hf. split; [reflexivity|]. left. cbn [set_nth ranks fs].
           exists (mkR (gf_create todo' ++ OBarrier :: map OUse dirs) false false), others, (done ++ [d]), todo'.
           cbn. repeat split; auto.
           ++ now rewrite <- app_assoc.
           ++ apply Forall_app; split; [now apply allmem_grow|]. constructor; [|constructor].
              rewrite mem_cons, Nat.eqb_refl. reflexivity.
    + destruct (nth_error others j) as [rs|] eqn:En.
      2:{ split; [exact He|]. left. exists r0, others, done, todo. repeat split; auto. }
      destruct (waiting rs) eqn:Ew.
      { split; [exact He|]. left. exists r0, others, done, todo. repeat split; auto. }
      destruct (other_pre_step _ _ _ _ Hoth En Ew) as [Hp Hoth']. rewrite Hp. cbn [set_nth].
      rewrite release_head_not_waiting by exact Hw0.
      split; [reflexivity|]. left. exists r0, (set_nth j (mkR (map OUse dirs) (flag rs) true) others), done, todo.
      cbn. repeat split; auto.
  - (* phase B *)
    rewrite Hr. destruct r as [|j]; cbn [nth_error].
    + rewrite Hw0. split; [exact He|]. right; left. exists r0, others. repeat split; auto.
    + destruct (nth_error others j) as [rs|] eqn:En.
      2:{ split; [exact He|]. right; left. exists r0, others. repeat split; auto. }
      destruct (waiting rs) eqn:Ew.
      { split; [exact He|]. right; left. exists r0, others. repeat split; auto. }
      destruct (other_pre_step _ _ _ _ Hoth En Ew) as [Hp Hoth']. rewrite Hp. cbn [set_nth].
      destruct (release_cases (r0 :: set_nth j (mkR (map OUse dirs) (flag rs) true) others)) as [[Hfw Hrel]|[Hfw Hrel]];
        rewrite Hrel; (split; [reflexivity|]).
      * right; right. cbn [ranks fs]. cbn [forallb] in Hfw. apply andb_true_iff in Hfw as [_ Hfw].
        pose proof (forallb_waiting_pre _ _ Hoth' Hfw) as Hall'.
        cbn [map]. constructor; [split; cbn; [reflexivity|rewrite Hp0; now apply usable_of_allmem]|].
        eapply cleared_okuse; eauto.
      * right; left. exists r0, (set_nth j (mkR (map OUse dirs) (flag rs) true) others). cbn. repeat split; auto.
  - (* phase C *)
    destruct (nth_error (ranks st) r) as [rs|] eqn:En; [|split; [exact He|right; right; exact HC]].
    assert (Hrs : okuse (fs st) rs).
    { rewrite Forall_forall in HC. apply HC. eapply nth_error_In; eauto. }
    destruct Hrs as [Hw _]. rewrite Hw.
    destruct (prog rs) as [|o p] eqn:Ep; [split; [exact He|right; right; exact HC]|].
    destruct (usable_step _ _ _ _ _ _ HC En Ep) as (d & -> & Hm & HC').
    rewrite Hm. split; [reflexivity|]. right; right. exact HC'.
Qed.

Lemma gf_init P dirs fs0 : (1 <= P)%nat -> InvGF dirs (init (gf_programs P dirs) fs0).
Proof.
  intros HP. destruct P as [|k]; [lia|]. split; [reflexivity|]. left.
  cbn [gf_programs init map ranks fs].
  exists (mkR (gf_create dirs ++ OBarrier :: map OUse dirs) false false),
    (map (fun p => mkR p false false) (repeat (OBarrier :: map OUse dirs) k)), [], dirs.
  cbn. repeat split; auto; [constructor|].
  clear HP. induction k; cbn; constructor; auto. left. cbn. auto.
Qed.

Theorem gf_dirs_safe (P : nat) (fs0 : list nat) (dirs : list nat) (sched : list nat) :
  (1 <= P)%nat -> no_error (run_sched (gf_programs P dirs) fs0 sched).
Proof.
  intros HP. unfold run_sched.
  assert (H : InvGF dirs (init (gf_programs P dirs) fs0)) by now apply gf_init.
  revert H. generalize (init (gf_programs P dirs) fs0) as st.
  induction sched as [|r s IH]; intros st H; cbn [fold_left]; [exact (proj1 H)|].
  apply IH. now apply gf_step.
Qed.
