(* Proofs about Model/Combine.v (C06), the part that needs no real numbers. *)
From Coq Require Import ZArith List Bool Lia Arith Sorting.Permutation Sorting.Sorted.
From ESRV Require Import Common.Py Common.Tiling Common.XZ Gen.GenPartition Proofs.PartitionProofs Model.Combine.
Import ListNotations.
Open Scope Z_scope.

(* ------------------------------------------------------------------ *)
(* order facts on xz                                                   *)

Ltac xz_crush :=
  repeat match goal with
         | a : xz |- _ => destruct a
         end;
  cbn in *; try congruence; try discriminate; try tauto;
  repeat match goal with
         | H : (_ <? _) = true |- _ => apply Z.ltb_lt in H
         | H : (_ <? _) = false |- _ => apply Z.ltb_ge in H
         | H : (_ =? _) = true |- _ => apply Z.eqb_eq in H
         | H : (_ =? _) = false |- _ => apply Z.eqb_neq in H
         | |- (_ <? _) = true => apply Z.ltb_lt
         | |- (_ <? _) = false => apply Z.ltb_ge
         | |- (_ =? _) = true => apply Z.eqb_eq
         | |- (_ =? _) = false => apply Z.eqb_neq
         end;
  try lia; try (f_equal; lia); try congruence.

Lemma xltb_irrefl a : xltb a a = false.
Proof. xz_crush. Qed.

Lemma xltb_trans a b c : xltb a b = true -> xltb b c = true -> xltb a c = true.
Proof. intros; xz_crush. Qed.

Lemma xltb_asym a b : xltb a b = true -> xltb b a = false.
Proof. intros; xz_crush. Qed.

Lemma xltb_nonnan_l a b : xltb a b = true -> isnan a = false.
Proof. intros; xz_crush. Qed.
Lemma xltb_nonnan_r a b : xltb a b = true -> isnan b = false.
Proof. intros; xz_crush. Qed.

Lemma x_total a b : isnan a = false -> isnan b = false ->
  xltb a b = true \/ a = b \/ xltb b a = true.
Proof.
  intros; destruct a, b; cbn in *; try discriminate; auto.
  destruct (Z.lt_total z z0) as [h|[h|h]].
  - left; now apply Z.ltb_lt.
  - right; left; now subst.
  - right; right; now apply Z.ltb_lt.
Qed.

(* not (a < b), b' < b  ==>  b' < a   (NaN-free) *)
Lemma xltb_nlt_lt a b c : isnan a = false -> xltb a b = false -> xltb c b = true -> xltb c a = true.
Proof. intros; xz_crush. Qed.

Lemma xltb_lt_nlt a b c : isnan c = false -> xltb a b = true -> xltb c b = false -> xltb a c = true.
Proof. intros; xz_crush. Qed.

Lemma xltb_nlt_trans a b c : isnan a = false -> isnan b = false -> isnan c = false ->
  xltb b a = false -> xltb c b = false -> xltb c a = false.
Proof. intros; xz_crush. Qed.

Lemma xeqb_eq a b : xeqb a b = true -> a = b.
Proof. intros; xz_crush. Qed.
Lemma xeqb_refl a : isnan a = false -> xeqb a a = true.
Proof. intros; xz_crush. Qed.
Lemma xeqb_nonnan a b : xeqb a b = true -> isnan a = false.
Proof. intros; xz_crush. Qed.

Lemma xleb_of_nlt a b : isnan a = false -> isnan b = false -> xltb b a = false -> xleb a b = true.
Proof.
  unfold xleb; intros Ha Hb H; destruct a, b; cbn in *; try discriminate; try reflexivity.
  apply Z.ltb_ge in H. destruct (Z.ltb_spec z z0), (Z.eqb_spec z z0); cbn; try reflexivity; lia.
Qed.

Lemma xleb_nlt a b : xleb a b = true -> xltb b a = false.
Proof. unfold xleb; intros H; apply orb_true_iff in H; destruct H; xz_crush. Qed.

Lemma xadd_nan_l a b : isnan (xadd a b) = false -> isnan a = false.
Proof. xz_crush. Qed.

(* ------------------------------------------------------------------ *)
(* select: the rows with index == u, in table order                    *)

Definition variant (t : list vrow) (u j : nat) (r : vrow) : Prop :=
  nth_error t j = Some r /\ xeqb (v_index r) (Fin (Z.of_nat u)) = true.

Lemma select_from_in j0 u t j r :
  In (j, r) (select_from j0 u t) <-> (j0 <= j)%nat /\ variant t u (j - j0) r.
Proof.
  revert j0; induction t as [|a t IH]; intros j0; cbn.
  - split; [tauto|]. intros [_ [H _]]. now destruct (j - j0)%nat.
  - destruct (xeqb (v_index a) (Fin (Z.of_nat u))) eqn:E.
    + cbn. rewrite IH. unfold variant. split.
      * intros [H|[H1 [H2 H3]]].
        -- inversion H; subst. split; [lia|]. replace (j - j)%nat with 0%nat by lia. now cbn.
        -- split; [lia|]. replace (j - j0)%nat with (S (j - S j0)) by lia. now cbn.
      * intros [H1 [H2 H3]]. destruct (j - j0)%nat as [|k] eqn:K.
        -- left. cbn in H2. inversion H2; subst. f_equal. lia.
        -- right. split; [lia|]. replace (j - S j0)%nat with k by lia. now cbn in H2.
    + rewrite IH. unfold variant. split.
      * intros [H1 [H2 H3]]. split; [lia|]. replace (j - j0)%nat with (S (j - S j0)) by lia. now cbn.
      * intros [H1 [H2 H3]]. destruct (j - j0)%nat as [|k] eqn:K.
        -- cbn in H2. inversion H2; subst. congruence.
        -- split; [lia|]. replace (j - S j0)%nat with k by lia. now cbn in H2.
Qed.

Lemma select_in u t j r : In (j, r) (select u t) <-> variant t u j r.
Proof. unfold select. rewrite select_from_in. rewrite Nat.sub_0_r. split; [tauto|]. split; [lia|assumption]. Qed.

Lemma select_from_sorted j0 u t : StronglySorted lt (map fst (select_from j0 u t)).
Proof.
  revert j0; induction t as [|a t IH]; intros j0; cbn; [constructor|].
  destruct (xeqb _ _); [|apply IH]. cbn. constructor; [apply IH|].
  apply Forall_forall. intros x Hx. apply in_map_iff in Hx. destruct Hx as [[j r] [<- Hin]].
  apply select_from_in in Hin. cbn. lia.
Qed.

Lemma sorted_nth_lt (l : list nat) i k d :
  StronglySorted lt l -> (i < k)%nat -> (k < length l)%nat -> (nth i l d < nth k l d)%nat.
Proof.
  intros Hs; revert i k; induction Hs as [|a l Hs IH Hall]; intros i k Hik Hk; cbn in Hk; [lia|].
  destruct k as [|k]; [lia|]. destruct i as [|i]; cbn.
  - rewrite Forall_forall in Hall. apply Hall. apply nth_In. lia.
  - apply IH; lia.
Qed.

(* ------------------------------------------------------------------ *)
(* argmin / nanmin                                                     *)

Definition nonan (l : list xz) : Prop := forall x, In x l -> isnan x = false.

Lemma argmin_from_spec l : forall i bi b, nonan l -> isnan b = false ->
  let k := argmin_from i bi b l in
  (k = bi /\ forall x, In x l -> xltb x b = false) \/
  ((i <= k < i + length l)%nat /\
    xltb (nth (k - i) l NaN) b = true /\
    (forall x, In x l -> xltb x (nth (k - i) l NaN) = false) /\
    (forall j, (j < k - i)%nat -> xltb (nth (k - i) l NaN) (nth j l NaN) = true)).
Proof.
  induction l as [|a r IH]; intros i bi b Hl Hb; cbn.
  - left. split; [reflexivity|]. intros x [].
  - assert (Ha : isnan a = false) by (apply Hl; now left).
    assert (Hr : nonan r) by (intros x Hx; apply Hl; now right).
    destruct (xltb a b) eqn:E.
    + right. destruct (IH (S i) i a Hr Ha) as [[Hk Hm]|[Hk [Hv [Hm Hj]]]].
      * rewrite Hk. replace (i - i)%nat with 0%nat by lia. cbn.
        split; [lia|]. split; [assumption|]. split.
        -- intros x [<-|Hx]; [apply xltb_irrefl|now apply Hm].
        -- intros j Hj; lia.
      * set (k := argmin_from (S i) i a r) in *.
        replace (k - i)%nat with (S (k - S i)) by lia. cbn.
        split; [lia|]. split; [eapply xltb_trans; eassumption|]. split.
        -- intros x [<-|Hx]; [now apply xltb_asym|now apply Hm].
        -- intros [|j] Hj'; [assumption|]. apply Hj. lia.
    + destruct (IH (S i) bi b Hr Hb) as [[Hk Hm]|[Hk [Hv [Hm Hj]]]].
      * left. split; [assumption|]. intros x [<-|Hx]; [assumption|now apply Hm].
      * right. set (k := argmin_from (S i) bi b r) in *.
        replace (k - i)%nat with (S (k - S i)) by lia. cbn.
        split; [lia|]. split; [assumption|]. split.
        -- intros x [<-|Hx]; [|now apply Hm].
           apply xltb_asym. eapply xltb_nlt_lt; eassumption.
        -- intros [|j] Hj'; [eapply xltb_nlt_lt; eassumption|]. apply Hj. lia.
Qed.

(* np.argmin on a non-empty NaN-free list: position of the first minimum *)
Lemma np_argmin_spec l : l <> [] -> nonan l ->
  let k := np_argmin l in
  (k < length l)%nat /\
  (forall x, In x l -> xltb x (nth k l NaN) = false) /\
  (forall j, (j < k)%nat -> xltb (nth k l NaN) (nth j l NaN) = true).
Proof.
  destruct l as [|a r]; [congruence|]. intros _ Hl. cbn [np_argmin].
  assert (Ha : isnan a = false) by (apply Hl; now left).
  assert (Hr : nonan r) by (intros x Hx; apply Hl; now right).
  destruct (argmin_from_spec r 1 0 a Hr Ha) as [[Hk Hm]|[Hk [Hv [Hm Hj]]]].
  - cbv zeta. rewrite Hk. cbn. split; [lia|]. split; [|intros j Hj; lia].
    intros x [<-|Hx]; [apply xltb_irrefl|now apply Hm].
  - cbv zeta. set (k := argmin_from 1 0 a r) in *.
    replace k with (S (k - 1)) by lia. cbn [nth length]. split; [lia|]. split.
    + intros x [<-|Hx]; [now apply xltb_asym|now apply Hm].
    + intros [|j] Hj'; [assumption|]. cbn. apply Hj. lia.
Qed.

Lemma xfmin_cases a b :
  (isnan a = true /\ xfmin a b = b) \/
  (isnan a = false /\ isnan b = true /\ xfmin a b = a) \/
  (isnan a = false /\ isnan b = false /\ xltb b a = true /\ xfmin a b = b) \/
  (isnan a = false /\ isnan b = false /\ xltb b a = false /\ xfmin a b = a).
Proof. unfold xfmin. destruct (isnan a), (isnan b), (xltb b a); tauto. Qed.

Lemma fold_fmin_spec r : forall a,
  let m := fold_left xfmin r a in
  ((isnan a = true /\ forall x, In x r -> isnan x = true) -> isnan m = true) /\
  ((isnan a = false \/ exists x, In x r /\ isnan x = false) ->
     isnan m = false /\ In m (a :: r) /\
     forall x, In x (a :: r) -> isnan x = false -> xltb x m = false).
Proof.
  induction r as [|b r IH]; intros a; cbn [fold_left].
  - cbv zeta. split; [tauto|]. intros [Ha|[x [[] _]]]. split; [assumption|]. split; [now left|].
    intros x [<-|[]] _. apply xltb_irrefl.
  - specialize (IH (xfmin a b)). cbv zeta in *. destruct IH as [IH1 IH2]. split.
    + intros [Ha Hall]. apply IH1. split.
      * destruct (xfmin_cases a b) as [[_ ->]|[[C _]|[[C _]|[C _]]]]; try congruence. apply Hall; now left.
      * intros x Hx; apply Hall; now right.
    + intros Hex.
      assert (Hex' : isnan (xfmin a b) = false \/ exists x, In x r /\ isnan x = false).
      { destruct (xfmin_cases a b) as [[Ha ->]|[[Ha [Hb ->]]|[[Ha [Hb [_ ->]]]|[Ha [Hb [_ ->]]]]]]; auto.
        destruct (isnan b) eqn:Eb; auto.
        destruct Hex as [C|[x [[<-|Hx] Hn]]]; try congruence. right; eauto. }
      destruct (IH2 Hex') as [Hm [Hin Hmin]]. split; [assumption|]. split.
      * destruct Hin as [Hin|Hin]; [|right; now right].
        destruct (xfmin_cases a b) as [[_ E]|[[_ [_ E]]|[[_ [_ [_ E]]]|[_ [_ [_ E]]]]]]; rewrite E in *; cbn; auto.
      * intros x Hx Hn.
        set (m := fold_left xfmin r (xfmin a b)) in *.
        assert (Hf : isnan (xfmin a b) = false -> xltb (xfmin a b) m = false) by (intros; apply Hmin; [now left|assumption]).
        destruct Hx as [<-|[<-|Hx]]; [| |apply Hmin; [now right|assumption]].
        -- destruct (xfmin_cases a b) as [[Ha E]|[[Ha [Hb E]]|[[Ha [Hb [Hlt E]]]|[Ha [Hb [Hlt E]]]]]]; rewrite E in *; try congruence; auto.
           specialize (Hf Hb). destruct (xltb a m) eqn:C; [|reflexivity].
           assert (xltb b m = true) by (eapply xltb_trans; eassumption). congruence.
        -- destruct (xfmin_cases a b) as [[Ha E]|[[Ha [Hb E]]|[[Ha [Hb [Hlt E]]]|[Ha [Hb [Hlt E]]]]]]; rewrite E in *; try congruence; auto.
           specialize (Hf Ha). destruct (xltb b m) eqn:C; [|reflexivity].
           assert (xltb b a = true); [|congruence].
           eapply xltb_lt_nlt; eassumption.
Qed.

Definition has_nonnan (l : list xz) : Prop := exists x, In x l /\ isnan x = false.

Lemma forallb_isnan_false l : forallb isnan l = false <-> has_nonnan l.
Proof.
  unfold has_nonnan. induction l as [|a l IH]; cbn.
  - split; [discriminate|]. intros [x [[] _]].
  - destruct (isnan a) eqn:E; cbn.
    + rewrite IH. split; intros [x [Hx Hn]]; [exists x; auto|].
      destruct Hx as [<-|Hx]; [congruence|exists x; auto].
    + split; [|reflexivity]. intros _. exists a; auto.
Qed.

Lemma np_nanmin_spec l : has_nonnan l ->
  isnan (np_nanmin l) = false /\ In (np_nanmin l) l /\
  forall x, In x l -> isnan x = false -> xltb x (np_nanmin l) = false.
Proof.
  destruct l as [|a r]; intros [x [Hx Hn]]; [destruct Hx|]. cbn [np_nanmin].
  apply fold_fmin_spec. destruct Hx as [<-|Hx]; [now left|right; eauto].
Qed.

Lemma nan_to_inf_nonan l : nonan (map nan_to_inf l).
Proof. intros x Hx. apply in_map_iff in Hx. destruct Hx as [y [<- _]]. unfold nan_to_inf. now destruct y. Qed.

Lemma nan_to_inf_id x : isnan x = false -> nan_to_inf x = x.
Proof. unfold nan_to_inf. now intros ->. Qed.

(* the value found by nanargmin (after NaN -> +inf) is the nanmin *)
Lemma nanargmin_value l : has_nonnan l ->
  let k := np_nanargmin l in
  (k < length l)%nat /\ nth k (map nan_to_inf l) NaN = np_nanmin l /\
  (forall j, (j < k)%nat -> xltb (np_nanmin l) (nth j (map nan_to_inf l) NaN) = true).
Proof.
  intros Hn. destruct (np_nanmin_spec l Hn) as [Hm [Hin Hmin]].
  assert (Hne : map nan_to_inf l <> []) by (destruct l; [destruct Hin|discriminate]).
  destruct (np_argmin_spec (map nan_to_inf l) Hne (nan_to_inf_nonan l)) as [Hk [Hv Hj]].
  fold (np_nanargmin l) in *. cbv zeta in *. set (k := np_nanargmin l) in *.
  rewrite map_length in Hk. split; [assumption|].
  set (v := nth k (map nan_to_inf l) NaN) in *.
  assert (Hvin : In v (map nan_to_inf l)) by (apply nth_In; now rewrite map_length).
  assert (Hvn : isnan v = false) by (now apply nan_to_inf_nonan in Hvin).
  assert (E : v = np_nanmin l).
  { assert (H1 : xltb (np_nanmin l) v = false).
    { apply Hv. apply in_map_iff. exists (np_nanmin l). split; [now apply nan_to_inf_id|assumption]. }
    apply in_map_iff in Hvin. destruct Hvin as [y [Hy Hyin]].
    destruct (isnan y) eqn:Ey.
    - unfold nan_to_inf in Hy. rewrite Ey in Hy. rewrite <- Hy in *.
      destruct (np_nanmin l); cbn in *; congruence.
    - rewrite nan_to_inf_id in Hy by assumption. subst y.
      specialize (Hmin v Hyin Hvn).
      destruct (x_total v (np_nanmin l) Hvn Hm) as [C|[C|C]]; congruence. }
  split; [assumption|]. intros j Hjk. rewrite <- E. now apply Hj.
Qed.

(* ------------------------------------------------------------------ *)
(* the per-unique row                                                  *)

Definition has_nonnan_variant (t : list vrow) (u : nat) : Prop :=
  exists j r, variant t u j r /\ isnan (dl_of r) = false.

Definition dls_of (u : nat) (t : list vrow) : list xz := map (fun p => dl_of (snd p)) (select u t).

Lemma dls_has_nonnan u t : has_nonnan (dls_of u t) <-> has_nonnan_variant t u.
Proof.
  unfold has_nonnan, has_nonnan_variant, dls_of. split.
  - intros [x [Hx Hn]]. apply in_map_iff in Hx. destruct Hx as [[j r] [<- Hin]].
    exists j, r. split; [now apply select_in|assumption].
  - intros [j [r [Hv Hn]]]. exists (dl_of r). split; [|assumption].
    apply in_map_iff. exists (j, r). split; [reflexivity|now apply select_in].
Qed.

Lemma per_unique_nan npar t u :
  ~ has_nonnan_variant t u -> per_unique npar t u = urow_nan npar.
Proof.
  intros H. unfold per_unique. fold (dls_of u t).
  destruct (forallb isnan (dls_of u t)) eqn:E; [reflexivity|].
  apply forallb_isnan_false, dls_has_nonnan in E. contradiction.
Qed.

Lemma per_unique_dl_nan_iff npar t u :
  isnan (u_dl (per_unique npar t u)) = false <-> has_nonnan_variant t u.
Proof.
  split.
  - intros H. unfold per_unique in H. fold (dls_of u t) in H.
    destruct (forallb isnan (dls_of u t)) eqn:E; [discriminate|].
    now apply forallb_isnan_false, dls_has_nonnan in E.
  - intros H. unfold per_unique. fold (dls_of u t).
    assert (E : forallb isnan (dls_of u t) = false) by now apply forallb_isnan_false, dls_has_nonnan.
    rewrite E. cbn. apply np_nanmin_spec. now apply dls_has_nonnan.
Qed.

(* the description length is the minimum over the non-NaN variants, and is attained *)
Lemma per_unique_min npar t u : has_nonnan_variant t u ->
  let c := per_unique npar t u in
  isnan (u_dl c) = false /\
  (exists j r, variant t u j r /\ dl_of r = u_dl c) /\
  (forall j r, variant t u j r -> isnan (dl_of r) = false -> xleb (u_dl c) (dl_of r) = true).
Proof.
  intros H. cbv zeta. pose proof (proj2 (dls_has_nonnan u t) H) as Hn.
  destruct (np_nanmin_spec _ Hn) as [Hm [Hin Hmin]].
  unfold per_unique. fold (dls_of u t).
  assert (E : forallb isnan (dls_of u t) = false) by now apply forallb_isnan_false.
  rewrite E. cbn [u_dl]. split; [assumption|]. split.
  - unfold dls_of in Hin. apply in_map_iff in Hin. destruct Hin as [[j r] [Hd Hin]].
    exists j, r. split; [now apply select_in|exact Hd].
  - intros j r Hv Hr. apply xleb_of_nlt; try assumption. apply Hmin; [|assumption].
    unfold dls_of. apply in_map_iff. exists (j, r). split; [reflexivity|now apply select_in].
Qed.

Lemma nth_map_default {A B} (f : A -> B) l k da db : (k < length l)%nat -> nth k (map f l) db = f (nth k l da).
Proof. revert k; induction l; intros [|k] H; cbn in *; try lia; [reflexivity|apply IHl; lia]. Qed.

(* which variant is reported *)
Lemma per_unique_variant npar t u : has_nonnan_variant t u ->
  let c := per_unique npar t u in
  exists j r, variant t u j r /\
    u_fcn c = Some j /\ u_nll c = v_nll r /\ u_codelen c = v_codelen r /\ u_aifeyn c = v_aifeyn r /\
    u_params c = v_params r /\
    nan_to_inf (dl_of r) = u_dl c /\
    (forall j' r', variant t u j' r' -> (j' < j)%nat -> xltb (u_dl c) (nan_to_inf (dl_of r')) = true).
Proof.
  intros H. cbv zeta. pose proof (proj2 (dls_has_nonnan u t) H) as Hn.
  destruct (nanargmin_value _ Hn) as [Hk [Hv Hj]]. cbv zeta in *.
  unfold per_unique. fold (dls_of u t).
  assert (E : forallb isnan (dls_of u t) = false) by now apply forallb_isnan_false.
  rewrite E. set (k := np_nanargmin (dls_of u t)) in *.
  unfold dls_of in Hk. rewrite map_length in Hk.
  set (p := nth k (select u t) (0%nat, dummy_v)).
  assert (Hp : In p (select u t)) by (apply nth_In; assumption).
  exists (fst p), (snd p). cbn [u_fcn u_nll u_codelen u_aifeyn u_params u_dl].
  split; [apply select_in; now destruct p|]. repeat (split; [reflexivity|]).
  split.
  - rewrite <- Hv. unfold dls_of. rewrite map_map.
    rewrite (nth_map_default _ _ _ (0%nat, dummy_v)) by assumption. reflexivity.
  - intros j' r' Hv' Hlt. apply select_in in Hv'.
    destruct (In_nth _ _ (0%nat, dummy_v) Hv') as [k' [Hk' Hn']].
    assert (Hkk : (k' < k)%nat).
    { destruct (Nat.lt_ge_cases k' k) as [C|C]; [assumption|exfalso].
      pose proof (select_from_sorted 0 u t) as Hs. fold (select u t) in Hs.
      assert (Hfk : fst p = nth k (map fst (select u t)) 0%nat)
        by (unfold p; now rewrite (nth_map_default _ _ _ (0%nat, dummy_v))).
      assert (Hfk' : j' = nth k' (map fst (select u t)) 0%nat)
        by (rewrite (nth_map_default _ _ _ (0%nat, dummy_v)) by assumption; now rewrite Hn').
      destruct (Nat.eq_dec k' k) as [->|Hne]; [lia|].
      assert ((nth k (map fst (select u t)) 0 < nth k' (map fst (select u t)) 0)%nat).
      { apply sorted_nth_lt; [assumption|lia|now rewrite map_length]. }
      lia. }
    specialize (Hj k' Hkk). unfold dls_of in Hj. rewrite map_map in Hj.
    rewrite (nth_map_default _ _ _ (0%nat, dummy_v)) in Hj by assumption.
    rewrite Hn' in Hj. exact Hj.
Qed.

(* ... when the minimum is not +inf this is the FIRST variant attaining it *)
Lemma per_unique_first npar t u : has_nonnan_variant t u ->
  let c := per_unique npar t u in
  u_dl c <> PInf ->
  exists j r, variant t u j r /\ dl_of r = u_dl c /\
    (forall j' r', variant t u j' r' -> dl_of r' = u_dl c -> (j <= j')%nat) /\
    u_fcn c = Some j /\ u_nll c = v_nll r /\ u_codelen c = v_codelen r /\ u_aifeyn c = v_aifeyn r /\
    u_params c = v_params r /\
    u_dl c = xadd (xadd (u_nll c) (u_codelen c)) (u_aifeyn c).
Proof.
  intros H. cbv zeta. intros Hinf.
  destruct (per_unique_variant npar t u H) as [j [r [Hv [Hf [H1 [H2 [H3 [H4 [Hd Hfirst]]]]]]]]].
  destruct (per_unique_min npar t u H) as [Hnn _]. cbv zeta in *.
  set (c := per_unique npar t u) in *.
  assert (Hdl : dl_of r = u_dl c).
  { unfold nan_to_inf in Hd. destruct (isnan (dl_of r)); [congruence|assumption]. }
  exists j, r. split; [assumption|]. split; [assumption|]. split.
  - intros j' r' Hv' Hd'. destruct (Nat.lt_ge_cases j' j) as [C|C]; [exfalso|assumption].
    specialize (Hfirst j' r' Hv' C). rewrite nan_to_inf_id in Hfirst by (rewrite Hd'; assumption).
    rewrite Hd', xltb_irrefl in Hfirst. discriminate.
  - repeat (split; [assumption|]). rewrite H1, H2, H3. symmetry. exact Hdl.
Qed.

(* ... when the minimum is +inf it is the first variant of the unique at all (its own
   description length may be NaN: numpy's nanargmin quirk) *)
Lemma per_unique_pinf npar t u : has_nonnan_variant t u ->
  let c := per_unique npar t u in
  u_dl c = PInf ->
  exists j r, variant t u j r /\ (dl_of r = PInf \/ dl_of r = NaN) /\
    (forall j' r', variant t u j' r' -> (j <= j')%nat) /\
    u_fcn c = Some j /\ u_nll c = v_nll r /\ u_codelen c = v_codelen r /\ u_aifeyn c = v_aifeyn r /\
    u_params c = v_params r.
Proof.
  intros H. cbv zeta. intros Hinf.
  destruct (per_unique_variant npar t u H) as [j [r [Hv [Hf [H1 [H2 [H3 [H4 [Hd Hfirst]]]]]]]]].
  cbv zeta in *. set (c := per_unique npar t u) in *.
  exists j, r. split; [assumption|]. split.
  - rewrite Hinf in Hd. unfold nan_to_inf in Hd. destruct (dl_of r); cbn in Hd; auto; discriminate.
  - split; [|tauto]. intros j' r' Hv'. destruct (Nat.lt_ge_cases j' j) as [C|C]; [exfalso|assumption].
    specialize (Hfirst j' r' Hv' C). rewrite Hinf in Hfirst. destruct (nan_to_inf (dl_of r')); cbn in Hfirst; discriminate.
Qed.

(* ------------------------------------------------------------------ *)
(* per-rank computation and the join                                   *)

Lemma map_nth_seq {A B} (f : A -> B) (l : list A) d :
  map (fun i => f (nth i l d)) (seq 0 (length l)) = map f l.
Proof.
  induction l as [|a l IH]; cbn; [reflexivity|]. f_equal.
  rewrite <- seq_shift, map_map. exact IH.
Qed.

Lemma all_ranks_some {A} (F : Z -> option (list A)) (G : nat -> list A) rs :
  (forall r, In r rs -> F (Z.of_nat r) = Some (G r)) ->
  all_ranks F rs = Some (concat (map G rs)).
Proof.
  induction rs as [|r rs IH]; intros H; cbn; [reflexivity|].
  rewrite (H r) by now left. cbn [bind]. rewrite IH by (intros; apply H; now right). reflexivity.
Qed.

(* every rank computes its per-unique rows independently; joined in rank order they are
   the rows of the one-rank run, whatever the number of ranks *)
Lemma combined_eq npar t U P : 1 <= P ->
  combined npar t U P = Some (map (per_unique npar t) (seq 0 U)).
Proof.
  intros HP. destruct (get_functions_spec (seq 0 U) P HP) as (k & _ & _ & Hs).
  pose proof (proj2 (get_functions_tiles (seq 0 U) (seq 0 U) P HP eq_refl)) as Ht.
  unfold combined.
  rewrite (all_ranks_some _ (fun r => map (per_unique npar t)
             (match get_functions_slice (seq 0 U) (Z.of_nat r) P with
              | Some (_, ds, de) => py_slice (seq 0 U) ds de | None => [] end))).
  - f_equal. etransitivity; [|apply f_equal; exact Ht].
    rewrite concat_map, map_map. reflexivity.
  - intros r _. unfold rank_rows. rewrite Hs. cbn [bind]. cbv beta iota zeta. f_equal.
    apply map_nth_seq.
Qed.

(* ------------------------------------------------------------------ *)
(* mask                                                                *)

Definition pu_key (npar : nat) (t : list vrow) (u : nat) : xz * nat := (u_dl (per_unique npar t u), u).
Definition keynn (p : xz * nat) : bool := negb (isnan (fst p)).

Lemma combine_map_self {A} (g : nat -> A) l : combine (map g l) l = map (fun u => (g u, u)) l.
Proof. induction l; cbn; congruence. Qed.

Lemma masked_eq npar t U :
  masked U (map (per_unique npar t) (seq 0 U)) = filter keynn (map (pu_key npar t) (seq 0 U)).
Proof. unfold masked. rewrite map_map. rewrite (combine_map_self (fun u => u_dl (per_unique npar t u))). reflexivity. Qed.

Lemma masked_in npar t U d u :
  In (d, u) (masked U (map (per_unique npar t) (seq 0 U))) <->
  (u < U)%nat /\ d = u_dl (per_unique npar t u) /\ isnan d = false.
Proof.
  rewrite masked_eq, filter_In, in_map_iff. unfold keynn, pu_key. cbn [fst]. split.
  - intros [[x [E Hx]] Hn]. inversion E; subst. apply in_seq in Hx.
    split; [lia|]. split; [reflexivity|]. now apply negb_true_iff in Hn.
  - intros [Hu [-> Hn]]. split; [exists u; split; [reflexivity|apply in_seq; lia]|now rewrite Hn].
Qed.

Lemma seq_strongly_sorted a n : StronglySorted lt (seq a n).
Proof.
  revert a; induction n as [|n IH]; intros a; cbn; constructor; [apply IH|].
  apply Forall_forall. intros x Hx. apply in_seq in Hx. lia.
Qed.

Lemma filter_map_sorted {A} (g : nat -> A) (f : A * nat -> bool) l :
  StronglySorted lt l -> StronglySorted lt (map snd (filter f (map (fun u => (g u, u)) l))).
Proof.
  induction 1 as [|a l Hs IH Hall]; cbn; [constructor|].
  destruct (f (g a, a)); [|assumption]. cbn. constructor; [assumption|].
  apply Forall_forall. intros x Hx. apply in_map_iff in Hx. destruct Hx as [[d u] [<- Hin]].
  apply filter_In in Hin. destruct Hin as [Hin _]. apply in_map_iff in Hin. destruct Hin as [y [E Hy]].
  inversion E; subst. rewrite Forall_forall in Hall. cbn. now apply Hall.
Qed.

Lemma masked_sorted npar t U :
  StronglySorted lt (map snd (masked U (map (per_unique npar t) (seq 0 U)))).
Proof. rewrite masked_eq. apply filter_map_sorted. apply seq_strongly_sorted. Qed.

Lemma strongly_sorted_lt_nodup l : StronglySorted lt l -> NoDup l.
Proof.
  induction 1 as [|a l Hs IH Hall]; constructor; [|assumption].
  intros Hin. rewrite Forall_forall in Hall. specialize (Hall a Hin). lia.
Qed.

(* ------------------------------------------------------------------ *)
(* sorted(..., key = x[0])                                             *)

(* strict order on (DL, unique index) rows: by DL, ties by unique index *)
Definition lexlt (a b : xz * nat) : Prop :=
  xltb (fst a) (fst b) = true \/ (fst a = fst b /\ (snd a < snd b)%nat).

Lemma sort_insert_perm x l : Permutation (sort_insert x l) (x :: l).
Proof.
  induction l as [|y r IH]; cbn; [apply Permutation_refl|].
  destruct (xltb (fst y) (fst x)); [|apply Permutation_refl].
  eapply perm_trans; [apply perm_skip; exact IH|apply perm_swap].
Qed.

Lemma py_sorted_perm l : Permutation (py_sorted l) l.
Proof.
  induction l as [|x l IH]; cbn; [constructor|].
  eapply perm_trans; [apply sort_insert_perm|now apply perm_skip].
Qed.

Lemma sort_insert_lex x l :
  isnan (fst x) = false -> (forall y, In y l -> isnan (fst y) = false) ->
  (forall y, In y l -> (snd x < snd y)%nat) ->
  StronglySorted lexlt l -> StronglySorted lexlt (sort_insert x l).
Proof.
  intros Hx. induction l as [|y r IH]; intros Hn Hs Hl; cbn.
  - constructor; constructor.
  - assert (Hy : isnan (fst y) = false) by (apply Hn; now left).
    inversion Hl as [|? ? Hl' Hall]; subst. rewrite Forall_forall in Hall.
    destruct (xltb (fst y) (fst x)) eqn:E.
    + constructor.
      * apply IH; auto; intros; [apply Hn|apply Hs]; now right.
      * apply Forall_forall. intros z Hz.
        apply (Permutation_in _ (sort_insert_perm x r)) in Hz. destruct Hz as [<-|Hz]; [now left|now apply Hall].
    + constructor; [assumption|]. apply Forall_forall. intros z Hz.
      assert (Hzn : isnan (fst z) = false) by now apply Hn.
      assert (Hsz : (snd x < snd z)%nat) by now apply Hs.
      destruct (x_total (fst x) (fst z) Hx Hzn) as [C|[C|C]]; [now left|right; now split|exfalso].
      destruct Hz as [<-|Hz]; [congruence|].
      destruct (Hall z Hz) as [D|[D _]].
      * assert (xltb (fst y) (fst x) = true) by (eapply xltb_trans; eassumption). congruence.
      * rewrite <- D in C. congruence.
Qed.

(* the sort is the unique arrangement that is ascending in DL with ties in unique-index order *)
Lemma py_sorted_lex l :
  (forall y, In y l -> isnan (fst y) = false) -> StronglySorted lt (map snd l) ->
  StronglySorted lexlt (py_sorted l).
Proof.
  induction l as [|x l IH]; intros Hn Hs; cbn; [constructor|].
  inversion Hs as [|? ? Hs' Hall]; subst. rewrite Forall_forall in Hall.
  apply sort_insert_lex.
  - apply Hn; now left.
  - intros y Hy. apply (Permutation_in _ (py_sorted_perm l)) in Hy. apply Hn; now right.
  - intros y Hy. apply (Permutation_in _ (py_sorted_perm l)) in Hy. apply Hall. now apply in_map.
  - apply IH; [intros; apply Hn; now right|assumption].
Qed.

(* stability in general (any input order, any keys): rows with the same key keep their order *)
Definition keyeq (k : xz) (p : xz * nat) : bool := xeqb (fst p) k.

Lemma sort_insert_filter k x l : filter (keyeq k) (sort_insert x l) = filter (keyeq k) (x :: l).
Proof.
  induction l as [|y r IH]; [reflexivity|]. cbn [sort_insert].
  destruct (xltb (fst y) (fst x)) eqn:E; [|reflexivity].
  cbn [filter] in *. rewrite IH.
  destruct (keyeq k y) eqn:Ey, (keyeq k x) eqn:Ex; try reflexivity.
  unfold keyeq in Ey, Ex. apply xeqb_eq in Ey, Ex. rewrite Ey, Ex, xltb_irrefl in E. discriminate.
Qed.

Lemma py_sorted_stable k l : filter (keyeq k) (py_sorted l) = filter (keyeq k) l.
Proof.
  induction l as [|x l IH]; [reflexivity|]. cbn [py_sorted fold_right]. fold (py_sorted l).
  rewrite sort_insert_filter. cbn [filter]. now rewrite IH.
Qed.

Lemma strongly_sorted_nth {A} (R : A -> A -> Prop) l i k d :
  StronglySorted R l -> (i < k)%nat -> (k < length l)%nat -> R (nth i l d) (nth k l d).
Proof.
  intros Hs; revert i k; induction Hs as [|a l Hs IH Hall]; intros i k Hik Hk; cbn in Hk; [lia|].
  destruct k as [|k]; [lia|]. destruct i as [|i]; cbn.
  - rewrite Forall_forall in Hall. apply Hall. apply nth_In. lia.
  - apply IH; lia.
Qed.

Lemma strongly_sorted_map {A B} (R : B -> B -> Prop) (f : A -> B) l :
  StronglySorted R (map f l) -> StronglySorted (fun a b => R (f a) (f b)) l.
Proof.
  induction l as [|a l IH]; intros H; [constructor|]. cbn in H.
  inversion H as [|? ? Hs Hall]; subst. constructor; [now apply IH|].
  rewrite Forall_forall in *. intros x Hx. apply Hall. now apply in_map.
Qed.

(* ------------------------------------------------------------------ *)
(* the final table                                                     *)

Definition fkey (r : frow) : xz * nat := (f_dl r, f_uniq r).

Lemma map_combine_seq_snd {A B} (g : A -> B) (S : list A) : forall a,
  map (fun ip : nat * A => g (snd ip)) (combine (seq a (length S)) S) = map g S.
Proof. induction S as [|x S IH]; intros a; cbn; [reflexivity|]. now rewrite IH. Qed.

Lemma map_combine_seq_fst {A} (S : list A) : forall a,
  map (fun ip : nat * A => fst ip) (combine (seq a (length S)) S) = seq a (length S).
Proof. induction S as [|x S IH]; intros a; cbn; [reflexivity|]. now rewrite IH. Qed.

Lemma final_rows_keys comb S : map fkey (final_rows comb S) = S.
Proof.
  unfold final_rows. rewrite map_map. unfold fkey. cbn [f_dl f_uniq].
  rewrite (map_combine_seq_snd (fun p : xz * nat => (fst p, snd p))).
  rewrite <- (map_id S) at 2. apply map_ext. now intros [? ?].
Qed.

Lemma final_rows_length comb S : length (final_rows comb S) = length S.
Proof. rewrite <- (final_rows_keys comb S) at 2. now rewrite map_length. Qed.

Lemma final_rows_ranks comb S : map f_rank (final_rows comb S) = seq 0 (length (final_rows comb S)).
Proof.
  rewrite final_rows_length. unfold final_rows. rewrite map_map. cbn [f_rank].
  apply map_combine_seq_fst.
Qed.

Lemma final_rows_fields comb S row : In row (final_rows comb S) ->
  let c := nth (f_uniq row) comb (urow_nan 0) in
  f_fcn row = u_fcn c /\ f_nll row = u_nll c /\ f_codelen row = u_codelen c /\
  f_aifeyn row = u_aifeyn c /\ f_params row = u_params c.
Proof.
  unfold final_rows. intros H. apply in_map_iff in H. destruct H as [[i [d u]] [<- _]]. cbn. tauto.
Qed.

Lemma nth_comb npar t U u : (u < U)%nat ->
  nth u (map (per_unique npar t) (seq 0 U)) (urow_nan 0) = per_unique npar t u.
Proof.
  intros H. rewrite (nth_map_default _ _ _ 0%nat) by now rewrite seq_length.
  now rewrite seq_nth.
Qed.

Definition npar_of (t : list vrow) : nat :=
  match t with r :: _ => length (v_params r) | [] => 0%nat end.

(* what main computes, for every number of ranks *)
Lemma combine_main_some P U t : 1 <= P -> (2 <= length t)%nat -> (2 <= U)%nat ->
  let comb := map (per_unique (npar_of t) t) (seq 0 U) in
  let rows := final_rows comb (py_sorted (masked U comb)) in
  combine_main P U t = Some (comb, rows, prel_exps rows).
Proof.
  intros HP Ht HU. cbv zeta. unfold combine_main.
  destruct (Nat.ltb_spec (length t) 2); [lia|]. fold (npar_of t).
  rewrite combined_eq by assumption. cbn [bind].
  destruct (Nat.ltb_spec U 2); [lia|]. reflexivity.
Qed.

Lemma combine_main_none_iff P U t : 1 <= P ->
  (combine_main P U t = None <-> (length t < 2)%nat \/ (U < 2)%nat).
Proof.
  intros HP. unfold combine_main. destruct (Nat.ltb_spec (length t) 2).
  - split; [now left|reflexivity].
  - fold (npar_of t). rewrite combined_eq by assumption. cbn [bind].
    destruct (Nat.ltb_spec U 2); split; intros; try reflexivity; try discriminate; [now right|lia].
Qed.

Lemma combine_main_inv P U t comb rows exps : 1 <= P ->
  combine_main P U t = Some (comb, rows, exps) ->
  (2 <= length t)%nat /\ (2 <= U)%nat /\
  comb = map (per_unique (npar_of t) t) (seq 0 U) /\
  rows = final_rows comb (py_sorted (masked U comb)) /\
  exps = prel_exps rows.
Proof.
  intros HP H.
  assert (Hn : combine_main P U t <> None) by congruence.
  rewrite combine_main_none_iff in Hn by assumption.
  assert (Ht : (2 <= length t)%nat) by lia. assert (HU : (2 <= U)%nat) by lia.
  pose proof (combine_main_some P U t HP Ht HU) as E. cbv zeta in E. rewrite E in H.
  inversion H; subst. auto.
Qed.

Lemma combine_main_rank_independent P U t : 1 <= P -> combine_main P U t = combine_main 1 U t.
Proof.
  intros HP. unfold combine_main. destruct (length t <? 2)%nat; [reflexivity|].
  rewrite !combined_eq by lia. reflexivity.
Qed.

(* ---- the rows of the final table, stated on the input table ---- *)
Section Final.
  Variables (P : Z) (U : nat) (t : list vrow) (comb : list urow) (rows : list frow) (exps : list xz).
  Hypothesis HP : 1 <= P.
  Hypothesis Hmain : combine_main P U t = Some (comb, rows, exps).

  Let pu := per_unique (npar_of t) t.

  Lemma final_keys_perm : Permutation (map fkey rows) (masked U comb).
  Proof.
    destruct (combine_main_inv _ _ _ _ _ _ HP Hmain) as (_ & _ & _ & -> & _).
    rewrite final_rows_keys. apply py_sorted_perm.
  Qed.

  Lemma final_key_in d u : In (d, u) (map fkey rows) <-> (u < U)%nat /\ d = u_dl (pu u) /\ isnan d = false.
  Proof.
    destruct (combine_main_inv _ _ _ _ _ _ HP Hmain) as (_ & _ & Hc & _ & _).
    unfold pu. rewrite <- (masked_in (npar_of t) t U d u). rewrite <- Hc.
    split; apply Permutation_in; [|apply Permutation_sym]; apply final_keys_perm.
  Qed.

  Lemma final_ranks : map f_rank rows = seq 0 (length rows).
  Proof.
    destruct (combine_main_inv _ _ _ _ _ _ HP Hmain) as (_ & _ & _ & -> & _). apply final_rows_ranks.
  Qed.

  Lemma final_lexsorted : StronglySorted (fun a b => lexlt (fkey a) (fkey b)) rows.
  Proof.
    apply strongly_sorted_map.
    destruct (combine_main_inv _ _ _ _ _ _ HP Hmain) as (_ & _ & Hc & -> & _).
    rewrite final_rows_keys. subst comb. apply py_sorted_lex.
    - intros [d u] Hy. apply masked_in in Hy. cbn. tauto.
    - apply masked_sorted.
  Qed.

  Lemma final_uniq_nodup : NoDup (map f_uniq rows).
  Proof.
    replace (map f_uniq rows) with (map snd (map fkey rows)) by (rewrite map_map; reflexivity).
    eapply Permutation_NoDup; [apply Permutation_sym, Permutation_map, final_keys_perm|].
    destruct (combine_main_inv _ _ _ _ _ _ HP Hmain) as (_ & _ & -> & _ & _).
    apply strongly_sorted_lt_nodup, masked_sorted.
  Qed.

  Lemma final_row_facts row : In row rows ->
    let u := f_uniq row in
    (u < U)%nat /\ has_nonnan_variant t u /\ isnan (f_dl row) = false /\
    f_dl row = u_dl (pu u) /\ f_fcn row = u_fcn (pu u) /\ f_nll row = u_nll (pu u) /\
    f_codelen row = u_codelen (pu u) /\ f_aifeyn row = u_aifeyn (pu u) /\ f_params row = u_params (pu u).
  Proof.
    intros Hin. cbv zeta.
    assert (Hk : In (f_dl row, f_uniq row) (map fkey rows)) by (apply in_map_iff; exists row; auto).
    apply final_key_in in Hk. destruct Hk as [Hu [Hd Hn]].
    split; [assumption|]. split; [apply (per_unique_dl_nan_iff (npar_of t)); fold pu; now rewrite <- Hd|].
    split; [assumption|]. split; [assumption|].
    destruct (combine_main_inv _ _ _ _ _ _ HP Hmain) as (_ & _ & Hc & Hr & _).
    rewrite Hr in Hin. apply final_rows_fields in Hin. cbv zeta in Hin.
    rewrite Hc, nth_comb in Hin by assumption. exact Hin.
  Qed.

  (* a unique is in the table exactly once iff it has a variant with non-NaN description length *)
  Lemma final_appears_once :
    NoDup (map f_uniq rows) /\
    forall u, In u (map f_uniq rows) <-> (u < U)%nat /\ has_nonnan_variant t u.
  Proof.
    split; [apply final_uniq_nodup|]. intros u. split.
    - intros H. apply in_map_iff in H. destruct H as [row [<- Hin]].
      destruct (final_row_facts row Hin) as (H1 & H2 & _). auto.
    - intros [Hu Hv]. apply (per_unique_dl_nan_iff (npar_of t)) in Hv. fold pu in Hv.
      assert (Hk : In (u_dl (pu u), u) (map fkey rows)) by (apply final_key_in; auto).
      apply in_map_iff in Hk. destruct Hk as [row [E Hin]]. inversion E; subst.
      apply in_map_iff. exists row; auto.
  Qed.

  Lemma final_count_occ u :
    count_occ Nat.eq_dec (map f_uniq rows) u = 1%nat <-> ((u < U)%nat /\ has_nonnan_variant t u).
  Proof.
    destruct final_appears_once as [Hnd Hin]. rewrite <- Hin.
    rewrite (NoDup_count_occ Nat.eq_dec) in Hnd. specialize (Hnd u).
    rewrite (count_occ_In Nat.eq_dec). lia.
  Qed.

  Lemma final_count_occ_0 u :
    count_occ Nat.eq_dec (map f_uniq rows) u = 0%nat <-> ~ ((u < U)%nat /\ has_nonnan_variant t u).
  Proof.
    destruct final_appears_once as [_ Hin]. rewrite <- Hin. symmetry. apply count_occ_not_In.
  Qed.

  (* its description length is the minimum over its non-NaN variants *)
  Lemma final_row_min row : In row rows ->
    isnan (f_dl row) = false /\
    (exists j r, variant t (f_uniq row) j r /\ dl_of r = f_dl row) /\
    (forall j r, variant t (f_uniq row) j r -> isnan (dl_of r) = false -> xle (f_dl row) (dl_of r)).
  Proof.
    intros Hin. destruct (final_row_facts row Hin) as (_ & Hv & Hn & Hd & _).
    destruct (per_unique_min (npar_of t) t _ Hv) as (_ & H2 & H3). fold pu in H2, H3.
    rewrite Hd. split; [now rewrite <- Hd|]. split; assumption.
  Qed.

  (* unless that minimum is +inf, everything reported is from the first variant attaining it *)
  Lemma final_row_first row : In row rows -> f_dl row <> PInf ->
    exists j r, variant t (f_uniq row) j r /\ dl_of r = f_dl row /\
      (forall j' r', variant t (f_uniq row) j' r' -> dl_of r' = f_dl row -> (j <= j')%nat) /\
      f_fcn row = Some j /\ f_nll row = v_nll r /\ f_codelen row = v_codelen r /\
      f_aifeyn row = v_aifeyn r /\ f_params row = v_params r /\
      f_dl row = xadd (xadd (f_nll row) (f_codelen row)) (f_aifeyn row).
  Proof.
    intros Hin Hinf. destruct (final_row_facts row Hin) as (_ & Hv & _ & Hd & Hf & H1 & H2 & H3 & H4).
    rewrite Hd in Hinf. destruct (per_unique_first (npar_of t) t _ Hv Hinf) as [j [r H]]. fold pu in H.
    exists j, r. rewrite Hd, Hf, H1, H2, H3, H4. exact H.
  Qed.

  (* numpy's nanargmin quirk when the minimum is +inf: the first variant of the unique is reported *)
  Lemma final_row_pinf row : In row rows -> f_dl row = PInf ->
    exists j r, variant t (f_uniq row) j r /\ (dl_of r = PInf \/ dl_of r = NaN) /\
      (forall j' r', variant t (f_uniq row) j' r' -> (j <= j')%nat) /\
      f_fcn row = Some j /\ f_nll row = v_nll r /\ f_codelen row = v_codelen r /\
      f_aifeyn row = v_aifeyn r /\ f_params row = v_params r.
  Proof.
    intros Hin Hinf. destruct (final_row_facts row Hin) as (_ & Hv & _ & Hd & Hf & H1 & H2 & H3 & H4).
    rewrite Hd in Hinf. destruct (per_unique_pinf (npar_of t) t _ Hv Hinf) as [j [r H]]. fold pu in H.
    exists j, r. rewrite Hf, H1, H2, H3, H4. exact H.
  Qed.

  (* non-decreasing description lengths; ties in unique-index order *)
  Lemma final_sorted i k : (i < k)%nat -> (k < length rows)%nat ->
    let a := nth i rows (mkF 0 None NaN NaN NaN NaN [] 0) in
    let b := nth k rows (mkF 0 None NaN NaN NaN NaN [] 0) in
    xle (f_dl a) (f_dl b) /\ (f_dl a = f_dl b -> (f_uniq a < f_uniq b)%nat).
  Proof.
    intros Hik Hk. cbv zeta.
    pose proof (strongly_sorted_nth _ rows i k (mkF 0 None NaN NaN NaN NaN [] 0) final_lexsorted Hik Hk) as H.
    set (a := nth i rows _) in *. set (b := nth k rows _) in *.
    assert (Ha : isnan (f_dl a) = false) by (apply final_row_min, nth_In; lia).
    unfold lexlt, fkey in H. cbn [fst snd] in H. unfold xle, xleb. destruct H as [H|[H1 H2]].
    - split; [now rewrite H|]. intros E. rewrite E, xltb_irrefl in H. discriminate.
    - split; [|auto]. rewrite <- H1, (xeqb_refl _ Ha). apply orb_true_r.
  Qed.
End Final.

(* ------------------------------------------------------------------ *)
(* the exponent list of the relative probabilities                     *)

Definition dummy_f : frow := mkF 0 None NaN NaN NaN NaN [] 0.

(* row i repeats the exact likelihood of an earlier row *)
Definition is_dup (rows : list frow) (i : nat) : bool :=
  existsb (xeqb (f_nll (nth i rows dummy_f))) (map f_nll (firstn i rows)).

Lemma prel_exps_from_length dl0 rows : forall seen, length (prel_exps_from dl0 seen rows) = length rows.
Proof.
  induction rows as [|r rs IH]; intros seen; cbn; [reflexivity|].
  destruct (existsb _ seen); cbn; now rewrite IH.
Qed.

Lemma prel_exps_from_nth dl0 rows : forall pre seen,
  (forall x, existsb (xeqb x) seen = existsb (xeqb x) (map f_nll pre)) ->
  forall i, (i < length rows)%nat ->
  nth i (prel_exps_from dl0 seen rows) NaN =
    if existsb (xeqb (f_nll (nth i rows dummy_f))) (map f_nll (pre ++ firstn i rows))
    then PInf else xsub (f_dl (nth i rows dummy_f)) dl0.
Proof.
  induction rows as [|r rs IH]; intros pre seen Hinv i Hi; cbn in Hi; [lia|].
  cbn [prel_exps_from].
  destruct i as [|i].
  - cbn [firstn nth]. rewrite app_nil_r, <- Hinv. now destruct (existsb _ seen).
  - cbn [firstn nth].
    replace (pre ++ r :: firstn i rs) with ((pre ++ [r]) ++ firstn i rs) by now rewrite <- app_assoc.
    destruct (existsb (xeqb (f_nll r)) seen) eqn:E; cbn [nth]; apply IH; try lia.
    + intros x. rewrite map_app, existsb_app. cbn. rewrite orb_false_r, <- Hinv.
      destruct (xeqb x (f_nll r)) eqn:Ex; [|now rewrite orb_false_r].
      apply xeqb_eq in Ex. subst x. rewrite E. reflexivity.
    + intros x. rewrite map_app, !existsb_app. cbn. now rewrite Hinv.
Qed.

Lemma prel_exps_length rows : length (prel_exps rows) = length rows.
Proof. destruct rows; [reflexivity|]. unfold prel_exps. apply prel_exps_from_length. Qed.

(* d_i = DL_i - DL_0, or +inf when an earlier row has exactly the same likelihood *)
Lemma prel_exps_nth rows i : (i < length rows)%nat ->
  nth i (prel_exps rows) NaN =
    if is_dup rows i then PInf else xsub (f_dl (nth i rows dummy_f)) (f_dl (nth 0 rows dummy_f)).
Proof.
  intros Hi. destruct rows as [|r0 rs]; [cbn in Hi; lia|]. unfold prel_exps, is_dup.
  rewrite (prel_exps_from_nth _ _ [] []) by (auto; intros; reflexivity). reflexivity.
Qed.

Lemma is_dup_0 rows : is_dup rows 0 = false.
Proof. reflexivity. Qed.

(* a non-finite DL_0 leaves no finite exponent *)
Lemma prel_exps_from_nonfinite dl0 rows : isfinite dl0 = false ->
  forall seen e, In e (prel_exps_from dl0 seen rows) -> isfinite e = false.
Proof.
  intros H0. induction rows as [|r rs IH]; intros seen e He; cbn in He; [destruct He|].
  destruct (existsb _ seen); destruct He as [<-|He]; eauto.
  unfold xsub. destruct (f_dl r), dl0; cbn in *; congruence.
Qed.

Lemma prel_exps_nonfinite rows : isfinite (f_dl (nth 0 rows dummy_f)) = false ->
  forall e, In e (prel_exps rows) -> isfinite e = false.
Proof.
  destruct rows as [|r0 rs]; intros H e He; [destruct He|]. unfold prel_exps in He. cbn in H.
  eapply prel_exps_from_nonfinite; eassumption.
Qed.

(* with the rows in ascending order and a finite DL_0 every exponent is +inf or a finite value >= 0 *)
Lemma prel_exps_finite0 rows z0 :
  f_dl (nth 0 rows dummy_f) = Fin z0 ->
  (forall r, In r rows -> xleb (Fin z0) (f_dl r) = true) ->
  forall i, (i < length rows)%nat ->
  nth i (prel_exps rows) NaN =
    (if is_dup rows i then PInf else
     match f_dl (nth i rows dummy_f) with Fin z => Fin (z - z0) | _ => PInf end) /\
  (forall z, f_dl (nth i rows dummy_f) = Fin z -> z0 <= z).
Proof.
  intros H0 Hle i Hi. rewrite prel_exps_nth by assumption. rewrite H0.
  specialize (Hle (nth i rows dummy_f) (nth_In _ _ Hi)).
  destruct (f_dl (nth i rows dummy_f)) eqn:E; unfold xleb in Hle; cbn in Hle; try discriminate.
  - split; [destruct (is_dup rows i); reflexivity|].
    intros z' Hz; inversion Hz; subst. apply orb_true_iff in Hle. destruct Hle as [H|H]; [apply Z.ltb_lt in H|apply Z.eqb_eq in H]; lia.
  - split; [destruct (is_dup rows i); reflexivity|]. intros z Hz; discriminate.
Qed.

Lemma prel_exps_head rows z0 : rows <> [] -> f_dl (nth 0 rows dummy_f) = Fin z0 ->
  exists ds, prel_exps rows = Fin 0 :: ds.
Proof.
  destruct rows as [|r0 rs]; [congruence|]. intros _ H. cbn in H. unfold prel_exps. cbn.
  rewrite H. cbn. replace (z0 + - z0) with 0 by lia. eauto.
Qed.

(* the first row has the smallest description length: it is finite as soon as some row's is
   finite and no row's is -inf *)
Lemma sorted_first_finite (rows : list frow) :
  StronglySorted (fun a b => lexlt (fkey a) (fkey b)) rows ->
  (forall r, In r rows -> isnan (f_dl r) = false) ->
  (exists r, In r rows /\ isfinite (f_dl r) = true) ->
  (forall r, In r rows -> f_dl r <> NInf) ->
  exists z0, f_dl (nth 0 rows dummy_f) = Fin z0 /\ forall r, In r rows -> xleb (Fin z0) (f_dl r) = true.
Proof.
  intros Hs Hn [r [Hr Hf]] Hni. destruct rows as [|r0 rs]; [destruct Hr|]. cbn [nth].
  inversion Hs as [|? ? _ Hall]; subst. rewrite Forall_forall in Hall.
  assert (Hle : forall x, In x (r0 :: rs) -> xleb (f_dl r0) (f_dl x) = true).
  { intros x [<-|Hx].
    - unfold xleb. rewrite xeqb_refl by (apply Hn; now left). apply orb_true_r.
    - destruct (Hall x Hx) as [H|[H _]]; unfold fkey in H; cbn in H; unfold xleb.
      + now rewrite H.
      + rewrite H, xeqb_refl by (apply Hn; now right). apply orb_true_r. }
  destruct (f_dl r0) eqn:E0.
  - exists z. split; [reflexivity|assumption].
  - specialize (Hle r Hr). destruct (f_dl r); cbn in *; discriminate.
  - exfalso. apply (Hni r0); [now left|assumption].
  - specialize (Hn r0 (or_introl eq_refl)). rewrite E0 in Hn. discriminate.
Qed.

Lemma final_permutation P U t comb rows exps : 1 <= P ->
  combine_main P U t = Some (comb, rows, exps) ->
  Permutation (map fkey rows) (masked U comb) /\
  forall d u, In (d, u) (map fkey rows) <->
              (u < U)%nat /\ d = u_dl (per_unique (npar_of t) t u) /\ isnan d = false.
Proof.
  intros HP H. split; [eapply final_keys_perm; eassumption|]. intros d u. eapply final_key_in; eassumption.
Qed.

(* exponent list of the table main produces *)
Lemma main_exps_nth P U t comb rows exps : 1 <= P ->
  combine_main P U t = Some (comb, rows, exps) ->
  length exps = length rows /\
  forall i, (i < length rows)%nat ->
    nth i exps NaN = if is_dup rows i then PInf
                     else xsub (f_dl (nth i rows dummy_f)) (f_dl (nth 0 rows dummy_f)).
Proof.
  intros HP H. destruct (combine_main_inv _ _ _ _ _ _ HP H) as (_ & _ & _ & _ & ->).
  split; [apply prel_exps_length|apply prel_exps_nth].
Qed.

(* main raises on a table with two unique functions of which one has a variant with a finite
   description length, because the table has a single line *)
Lemma crash_refuted :
  exists U t, (2 <= U)%nat /\ has_nonnan_variant t 0 /\ forall P, 1 <= P -> combine_main P U t = None.
Proof.
  exists 2%nat, [mkV (Fin 1) (Fin 2) (Fin 0) (Fin 3) [Fin 0]]. split; [lia|]. split.
  - exists 0%nat, (mkV (Fin 1) (Fin 2) (Fin 0) (Fin 3) [Fin 0]). repeat split.
  - intros P HP. apply combine_main_none_iff; [assumption|]. left. cbn. lia.
Qed.

(* non-vacuity table: NaN variant (j=1), exact DL tie between uniques 0 and 1 (and between the two
   variants of unique 1), unique 2 repeats the likelihood of unique 0, unique 3 has DL = +inf,
   unique 4 has no variants, unique 5 only NaN *)
Definition ex_table : list vrow :=
  [ mkV (Fin 5) (Fin 2) (Fin 0) (Fin 1) [Fin 10; Fin 0];
    mkV NaN (Fin 2) (Fin 0) (Fin 1) [Fin 11; Fin 0];
    mkV (Fin 4) (Fin 3) (Fin 1) (Fin 1) [Fin 12; Fin 1];
    mkV (Fin 4) (Fin 3) (Fin 1) (Fin 1) [Fin 13; Fin 1];
    mkV (Fin 5) (Fin 4) (Fin 2) (Fin 1) [Fin 14; Fin 2];
    mkV PInf (Fin 1) (Fin 3) (Fin 1) [Fin 15; Fin 3];
    mkV (Fin 9) (Fin 1) (Fin 2) (Fin 1) [Fin 16; Fin 2];
    mkV NaN (Fin 1) (Fin 5) (Fin 1) [Fin 17; Fin 5] ].
