(* C12 -- parenthesisation adequacy: what ESRPrinter prints (Model/Printer.v) is read back by the
   Python grammar (Model/PyParse.v) as a tree with the same real-number meaning, under both symbol
   tables.  Mutual induction over Add / Mul / Pow. *)
From Coq Require Import ZArith NArith List Bool String Ascii Lia Arith Reals Lra.
From ESRV Require Import Model.Printer Model.PyParse Proofs.PyParseProofs.
Import ListNotations.

(* ------------------------------------------------------------------ induction principle *)
Section SexprInd.
  Variable P : sexpr -> Prop.
  Hypothesis HAdd : forall ts, Forall P ts -> P (SAdd ts).
  Hypothesis HMul : forall neg fs, Forall P fs -> P (SMul neg fs).
  Hypothesis HPow : forall b e, P b -> P e -> P (SPow b e).
  Hypothesis HInt : forall z, P (SInt z).
  Hypothesis HRat : forall p q, P (SRat p q).
  Hypothesis HSym : forall s, P (SSym s).
  Hypothesis HFun : forall s args, Forall P args -> P (SFun s args).
  Hypothesis HE : P SE.
  Hypothesis HZoo : P SZoo.
  Fixpoint sexpr_ind' (e : sexpr) : P e :=
    let fix go (l : list sexpr) : Forall P l :=
      match l with [] => Forall_nil P | x :: r => Forall_cons x (sexpr_ind' x) (go r) end in
    match e with
    | SAdd ts => HAdd ts (go ts)
    | SMul neg fs => HMul neg fs (go fs)
    | SPow b ex => HPow b ex (sexpr_ind' b) (sexpr_ind' ex)
    | SInt z => HInt z
    | SRat p q => HRat p q
    | SSym s => HSym s
    | SFun s args => HFun s args (go args)
    | SE => HE
    | SZoo => HZoo
    end.
End SexprInd.

(* ------------------------------------------------------------------ the fragment *)
Definition is_mul (e : sexpr) : bool := match e with SMul _ _ => true | _ => false end.
Definition is_rat (e : sexpr) : bool := match e with SRat _ _ => true | _ => false end.

(* what may stand as an ordered factor of a Mul (evaluated sympy trees satisfy this):
   no Mul directly inside a Mul; x**-1 never has a bare Rational base; the as_base_exp quirk
   (unit-fraction base with a negative symbolic exponent) is left to the correspondence *)
Definition factor_ok (f : sexpr) : bool :=
  negb (is_mul f) &&
  match f with
  | SPow b ex =>
      if negexp ex then
        match eshape_of false ex with
        | ENegOne => negb (is_rat b)
        | _ => negb (is_unit_frac b)
        end
      else true
  | _ => true
  end.

Fixpoint wf (e : sexpr) : bool :=
  match e with
  | SAdd ts => negb (match ts with [] => true | _ => false end) && forallb (fun t => wf t && negb (is_add t)) ts
  | SMul neg fs => negb (match fs with [] => true | _ => false end) && forallb (fun f => wf f && factor_ok f) fs
  | SPow b ex => wf b && wf ex
  | SInt _ => true
  | SRat p q => (2 <=? q)%Z
  | SSym name => negb (String.eqb name "E")
  | SFun name args => known_fun name && match args with [a] => wf a | _ => false end
  | SE => true
  | SZoo => false
  end.

(* ------------------------------------------------------------------ notation for the proof *)
Definition Tk (flip : bool) (e : sexpr) : list token := pr false flip e.
Definition Val := table -> env -> R.
Definition V (flip : bool) (e : sexpr) : Val := fun _ rho => if flip then (- sem rho e)%R else sem rho e.
Definition Dfn := env -> Prop.

Definition SemEq (a : pyast) (v : Val) (d : Dfn) : Prop := forall tab rho, d rho -> peval tab rho a = v tab rho.

(* non-empty and not starting with a minus sign *)
Definition nm (ts : list token) : Prop := match ts with [] => False | t :: _ => is_minus t = false end.
Lemma nm_app ts rest : nm ts -> hd_not is_minus (ts ++ rest).
Proof. destruct ts; simpl; tauto. Qed.

(* a token string that is read as an atom / a factor, whatever follows *)
Definition AtomTok (ts : list token) (v : Val) (d : Dfn) : Prop :=
  nm ts /\ forall rest, okA rest -> exists a, PA (ts ++ rest) a rest /\ SemEq a v d.
Definition FacTok (ts : list token) (v : Val) (d : Dfn) : Prop :=
  nm ts /\ forall rest, okP rest -> exists a, PF (ts ++ rest) a rest /\ SemEq a v d.
Definition TermTok (ts : list token) (v : Val) (d : Dfn) : Prop :=
  nm ts /\ forall rest, okT rest -> exists a, PT (ts ++ rest) a rest /\ SemEq a v d.
Definition ExprTok (ts : list token) (v : Val) (d : Dfn) : Prop :=
  forall rest, okE rest -> exists a, PE (ts ++ rest) a rest /\ SemEq a v d.

(* a product/quotient chain  f1 op f2 op ...  (op = times or divide): its first factor and the rest of the chain, which
   multiplies whatever tree has been accumulated by K.  Used for terms behind a binary or unary minus. *)
Definition Lin (ts : list token) (v : Val) (d : Dfn) : Prop :=
  nm ts /\
  forall rest, okT rest ->
  exists a1 r1 (K : Val),
    PF (ts ++ rest) a1 r1 /\
    (forall acc, exists b, PTR acc r1 b rest /\
                           forall tab rho, d rho -> peval tab rho b = (peval tab rho acc * K tab rho)%R) /\
    (forall tab rho, d rho -> (peval tab rho a1 * K tab rho)%R = v tab rho).

Definition negV (v : Val) : Val := fun tab rho => (- v tab rho)%R.

Lemma Lin_TermTok ts v d : Lin ts v d -> TermTok ts v d.
Proof.
  intros [Hm H]. split; auto. intros rest Hr. destruct (H rest Hr) as (a1 & r1 & K & HF & HC & HV).
  destruct (HC a1) as (b & Hb & Hbv). exists b. split.
  - eapply PT_intro; eauto.
  - intros tab rho Hd. rewrite Hbv by auto. auto.
Qed.

(* "-" followed by the chain: Python negates the first factor only; the value is the negated product *)
Lemma Lin_neg ts v d rest : Lin ts v d -> okT rest ->
  exists a, PT (TMinus :: ts ++ rest) a rest /\ SemEq a (negV v) d.
Proof.
  intros [Hm H] Hr. destruct (H rest Hr) as (a1 & r1 & K & HF & HC & HV).
  destruct (HC (PNeg a1)) as (b & Hb & Hbv). exists b. split.
  - eapply PT_intro; [apply PF_neg; eauto | eauto].
  - intros tab rho Hd. rewrite Hbv by auto. simpl. unfold negV. rewrite <- HV by auto. ring.
Qed.

Lemma FacTok_Lin ts v d : FacTok ts v d -> Lin ts v d.
Proof.
  intros [Hm H]. split; auto. intros rest Hr. destruct (H rest (okT_okP _ Hr)) as (a & Ha & Hv).
  exists a, rest, (fun _ _ => 1%R). split; auto. split.
  - intros acc. exists acc. split.
    + apply PTR_stop. destruct rest as [|t r]; simpl in *; auto. unfold badT in Hr. apply orb_false_iff in Hr. tauto.
    + intros. ring.
  - intros tab rho Hd. rewrite Hv by auto. ring.
Qed.

Lemma AtomTok_FacTok ts v d : AtomTok ts v d -> FacTok ts v d.
Proof.
  intros [Hm H]. split; auto. intros rest Hr. destruct (H rest (okP_okA _ Hr)) as (a & Ha & Hv).
  exists a. split; auto. apply PA_PF; auto. apply nm_app; auto.
Qed.

Lemma TermTok_ExprTok ts v d : TermTok ts v d -> ExprTok ts v d.
Proof.
  intros [Hm H] rest Hr. destruct (H rest (okE_okT _ Hr)) as (a & Ha & Hv).
  exists a. split; auto. apply PT_PE; auto.
Qed.

Lemma FacTok_TermTok ts v d : FacTok ts v d -> TermTok ts v d.
Proof. intros H. apply Lin_TermTok, FacTok_Lin, H. Qed.

Lemma ok_rp r : okE (TRp :: r).
Proof. reflexivity. Qed.

(* ( expr ) is an atom *)
Lemma ExprTok_paren ts v d : ExprTok ts v d -> AtomTok ([TLp] ++ ts ++ [TRp]) v d.
Proof.
  intros H. split; [reflexivity|]. intros rest Hr.
  destruct (H (TRp :: rest) (ok_rp rest)) as (a & Ha & Hv). exists a. split; auto.
  simpl. rewrite <- app_assoc. simpl. apply PA_paren. exact Ha.
Qed.

(* ------------------------------------------------------------------ product / quotient chains *)
Open Scope R_scope.

Fixpoint prodV (l : list Val) : Val :=
  fun tab rho => match l with [] => 1 | v :: r => v tab rho * prodV r tab rho end.

Definition FTs (l : list (list token * Val)) (d : Dfn) : Prop :=
  Forall (fun tv => FacTok (fst tv) (snd tv) d) l.

Definition star_tail (l : list (list token)) : list token := List.concat (map (fun ts => TStar :: ts) l).

Lemma join_star x l : join [TStar] (x :: l) = x ++ star_tail l.
Proof.
  revert x. induction l as [|y l IH]; intros x.
  - simpl. rewrite app_nil_r. reflexivity.
  - change (join [TStar] (x :: y :: l)) with (x ++ [TStar] ++ join [TStar] (y :: l)).
    rewrite IH. reflexivity.
Qed.

Definition ChainK (tail rest : list token) (K : Val) (d : Dfn) : Prop :=
  forall acc, exists b, PTR acc tail b rest /\
     forall tab rho, d rho -> peval tab rho b = peval tab rho acc * K tab rho.

Lemma star_chain l d : FTs l d -> forall tail rest Kt,
  hd_not is_powlp tail -> ChainK tail rest Kt d ->
  ChainK (star_tail (map fst l) ++ tail) rest (fun tab rho => prodV (map snd l) tab rho * Kt tab rho) d.
Proof.
  induction 1 as [|[ts v] l [Hm HF] Hl IH]; intros tail rest Kt Ht HK.
  - simpl. intros acc. destruct (HK acc) as (b & Hb & Hv). exists b. split; auto.
    intros tab rho Hd. rewrite Hv by auto. ring.
  - simpl in *. intros acc.
    assert (Hok : okP (star_tail (map fst l) ++ tail)).
    { destruct l as [|[ts2 v2] l2]; simpl; auto. }
    destruct (HF _ Hok) as (a & Ha & Hav).
    destruct (IH tail rest Kt Ht HK (PBin OMul acc a)) as (b & Hb & Hbv).
    exists b. split.
    + unfold star_tail. simpl. rewrite <- app_assoc. eapply PTR_mul; eauto.
    + intros tab rho Hd. rewrite Hbv by auto. simpl. rewrite Hav by auto. ring.
Qed.

Lemma ChainK_stop rest d : okT rest -> ChainK rest rest (fun _ _ => 1) d.
Proof.
  intros Hr acc. exists acc. split.
  - apply PTR_stop. destruct rest as [|t r]; simpl in *; auto. unfold badT in Hr. apply orb_false_iff in Hr. tauto.
  - intros. ring.
Qed.

Lemma okT_powlp rest : okT rest -> hd_not is_powlp rest.
Proof. apply okT_okP. Qed.

(* a non-empty product  f1*f2*...*fn  followed by a chain *)
Lemma prod_Lin_gen x l d tail Kt :
  FTs (x :: l) d ->
  nm (fst x) ->
  (forall rest, okT rest -> hd_not is_powlp (tail ++ rest) /\ ChainK (tail ++ rest) rest Kt d) ->
  Lin (join [TStar] (map fst (x :: l)) ++ tail)
      (fun tab rho => prodV (map snd (x :: l)) tab rho * Kt tab rho) d.
Proof.
  intros HF Hnm Htail. inversion HF as [|? ? [Hm Hx] Hl]; subst.
  split.
  - simpl map. rewrite join_star. destruct (fst x); simpl in *; tauto.
  - intros rest Hr. destruct (Htail rest Hr) as (Hp & HK).
    pose proof (star_chain l d Hl (tail ++ rest) rest Kt Hp HK) as HC.
    assert (Hok : okP (star_tail (map fst l) ++ tail ++ rest)).
    { destruct l as [|[ts2 v2] l2]; simpl; auto. }
    destruct (Hx _ Hok) as (a & Ha & Hav).
    exists a, (star_tail (map fst l) ++ tail ++ rest), (fun tab rho => prodV (map snd l) tab rho * Kt tab rho).
    split.
    + simpl map. rewrite join_star. repeat rewrite <- app_assoc. exact Ha.
    + split; auto. intros tab rho Hd. simpl. rewrite Hav by auto. ring.
Qed.

(* the denominator part of _print_Mul's three output shapes *)
Definition den_toks (lb : list (list token)) : list token :=
  match lb with
  | [] => []
  | [dd] => [TSlash] ++ dd
  | _ :: _ :: _ => [TSlash; TLp] ++ join [TStar] lb ++ [TRp]
  end.

Lemma den_chain lb d : FTs lb d -> forall rest, okT rest ->
  hd_not is_powlp (den_toks (map fst lb) ++ rest) /\
  ChainK (den_toks (map fst lb) ++ rest) rest (fun tab rho => / prodV (map snd lb) tab rho) d.
Proof.
  intros HF rest Hr. destruct lb as [|[t1 v1] lb].
  - simpl. split; [apply okT_okP; auto|]. intros acc. destruct (ChainK_stop rest d Hr acc) as (b & Hb & Hv).
    exists b. split; auto. intros tab rho Hd. rewrite Hv by auto. rewrite Rinv_1. reflexivity.
  - destruct lb as [|[t2 v2] lb].
    + simpl. split; [reflexivity|]. inversion HF as [|? ? [Hm H1] _]; subst. simpl in *.
      intros acc. destruct (H1 rest (okT_okP _ Hr)) as (a & Ha & Hav).
      destruct (ChainK_stop rest d Hr (PBin ODiv acc a)) as (b & Hb & Hv).
      exists b. split.
      * eapply PTR_div; eauto.
      * intros tab rho Hd. rewrite Hv by auto. simpl. rewrite Hav by auto. unfold Rdiv. rewrite !Rmult_1_r. ring.
    + split; [reflexivity|].
      (* the parenthesised product is an atom *)
      assert (HL : Lin (join [TStar] (map fst ((t1, v1) :: (t2, v2) :: lb)) ++ [])
                       (fun tab rho => prodV (map snd ((t1, v1) :: (t2, v2) :: lb)) tab rho * 1) d).
      { apply prod_Lin_gen with (Kt := fun _ _ => 1); auto.
        - inversion HF as [|? ? [Hm _] _]; auto.
        - intros r Hr'. simpl. split; [apply okT_okP; auto | apply ChainK_stop; auto]. }
      rewrite app_nil_r in HL.
      pose proof (ExprTok_paren _ _ _ (TermTok_ExprTok _ _ _ (Lin_TermTok _ _ _ HL))) as [_ HA].
      intros acc. destruct (HA rest (okP_okA _ (okT_okP _ Hr))) as (a & Ha & Hav).
      destruct (ChainK_stop rest d Hr (PBin ODiv acc a)) as (b & Hb & Hv).
      exists b. split.
      * change (den_toks (map fst ((t1, v1) :: (t2, v2) :: lb)))
          with ([TSlash] ++ ([TLp] ++ join [TStar] (map fst ((t1, v1) :: (t2, v2) :: lb)) ++ [TRp])).
        rewrite <- app_assoc. simpl app at 1. eapply PTR_div.
        -- apply PA_PF; [reflexivity | exact Ha | apply okT_okP; auto].
        -- exact Hb.
      * intros tab rho Hd. rewrite Hv by auto. simpl peval. rewrite Hav by auto. unfold Rdiv.
        rewrite Rmult_1_r. rewrite Rmult_1_r. reflexivity.
Qed.

(* numerator product followed by the denominator part *)
Lemma muldiv_Lin x la lb d :
  FTs (x :: la) d -> FTs lb d ->
  Lin (join [TStar] (map fst (x :: la)) ++ den_toks (map fst lb))
      (fun tab rho => prodV (map snd (x :: la)) tab rho * / prodV (map snd lb) tab rho) d.
Proof.
  intros Ha Hb. apply prod_Lin_gen; auto.
  - inversion Ha as [|? ? [Hm _] _]; auto.
  - intros rest Hr. apply den_chain; auto.
Qed.

(* ------------------------------------------------------------------ real-number facts *)
Lemma powerRZ_m1 x : powerRZ x (-1) = / x.
Proof. simpl. rewrite Rmult_1_r. reflexivity. Qed.

Lemma powerRZ_neg_inv x z : (z < 0)%Z -> powerRZ x z = / powerRZ x (- z).
Proof. intros Hz. destruct z; try lia. simpl. reflexivity. Qed.

Lemma half_eq : IZR 1 / IZR 2 = / 2.
Proof. unfold Rdiv. rewrite Rmult_1_l. reflexivity. Qed.

Lemma Rpower_half x : 0 < x -> Rpower x (IZR 1 / IZR 2) = sqrt x.
Proof. intros Hx. rewrite half_eq. apply Rpower_sqrt. exact Hx. Qed.

Lemma Rpower_neghalf x : 0 < x -> Rpower x (IZR (-1) / IZR 2) = 1 / sqrt x.
Proof.
  intros Hx. replace (IZR (-1) / IZR 2) with (- (/ 2)) by (simpl; field).
  rewrite Rpower_Ropp. rewrite Rpower_sqrt by exact Hx. unfold Rdiv. rewrite Rmult_1_l. reflexivity.
Qed.

Lemma Rabs_pos x : 0 < x -> Rabs x = x.
Proof. intros. apply Rabs_pos_eq. lra. Qed.

(* ------------------------------------------------------------------ per-node statement *)
Definition D (e : sexpr) : Dfn := fun rho => defined rho e.

Definition recip (e : sexpr) : bool :=
  match e with
  | SPow _ ex => match eshape_of false ex with ENegHalf | ENegOne => true | _ => false end
  | _ => false
  end.

Record Good (flip : bool) (e : sexpr) : Prop := {
  g_expr : ExprTok (Tk flip e) (V flip e) (D e);
  g_term : is_add e = false ->
           TermTok (Tk flip e) (V flip e) (D e) \/
           exists body, Tk flip e = TMinus :: body /\ Lin body (negV (V flip e)) (D e);
  g_fac : (60 <= precf flip e)%Z -> recip e = false -> FacTok (Tk flip e) (V flip e) (D e);
  g_atom : (70 <= precf flip e)%Z -> AtomTok (Tk flip e) (V flip e) (D e) }.

Lemma SemEq_ext a v v' d : SemEq a v d -> (forall tab rho, d rho -> v tab rho = v' tab rho) -> SemEq a v' d.
Proof. intros H E tab rho Hd. rewrite H by auto. auto. Qed.

Lemma neg_expr body v d : Lin body (negV v) d -> ExprTok (TMinus :: body) v d.
Proof.
  intros HL rest Hr. destruct (Lin_neg _ _ _ rest HL (okE_okT _ Hr)) as (a & Ha & Hv).
  exists a. split.
  - apply PT_PE; auto.
  - eapply SemEq_ext; eauto. intros. unfold negV. ring.
Qed.

Lemma Good_atom flip e : AtomTok (Tk flip e) (V flip e) (D e) -> Good flip e.
Proof.
  intros H. pose proof (AtomTok_FacTok _ _ _ H) as HF. pose proof (FacTok_TermTok _ _ _ HF) as HT.
  constructor; auto. apply TermTok_ExprTok; auto.
Qed.

Lemma Good_term flip e : (precf flip e < 60)%Z -> TermTok (Tk flip e) (V flip e) (D e) -> Good flip e.
Proof.
  intros Hp HT. constructor; auto; try (intros; lia). apply TermTok_ExprTok; auto.
Qed.

Lemma Good_neg flip e body : (precf flip e < 60)%Z -> Tk flip e = TMinus :: body ->
  Lin body (negV (V flip e)) (D e) -> Good flip e.
Proof.
  intros Hp HT HL. constructor; try (intros; lia).
  - rewrite HT. apply neg_expr; auto.
  - intros _. right. exists body. auto.
Qed.

Lemma precf_vals flip e : In (precf flip e) [40; 50; 60; 70; 1000]%Z.
Proof.
  assert (Hp : forall e, In (prec e) [40; 50; 60; 70; 1000]%Z).
  { intros e0. destruct e0; simpl; try tauto.
    - destruct neg; simpl; tauto.
    - destruct (z <? 0)%Z; simpl; tauto.
    - destruct (p <? 0)%Z; simpl; tauto. }
  destruct e; try apply Hp.
  - unfold precf. destruct (flip && is_single fs).
    + destruct fs as [|f [|]]; try apply Hp; simpl; tauto.
    + destruct (xorb flip neg); simpl; tauto.
Qed.

(* parenthesize(item, 60, strict=False): an atom either way *)
Lemma paren_pow_atom flip e : Good flip e ->
  AtomTok (paren P_POW (Tk flip e, precf flip e)) (V flip e) (D e).
Proof.
  intros G. unfold paren. simpl. destruct (precf flip e <=? P_POW)%Z eqn:E.
  - apply ExprTok_paren. apply g_expr; auto.
  - apply g_atom; auto. apply Z.leb_gt in E. unfold P_POW in E.
    pose proof (precf_vals flip e) as Hv. simpl in Hv. lia.
Qed.

(* parenthesize(item, P, strict=False) for P = Add or Mul precedence: a factor, provided the item's own
   precedence is not strictly between (a bare product or p/q inside a negative product) *)
Lemma paren_mul_fac flip e P : Good flip e -> (P = P_ADD \/ P = P_MUL) ->
  ((precf flip e <= P)%Z \/ ((60 <= precf flip e)%Z /\ recip e = false)) ->
  FacTok (paren P (Tk flip e, precf flip e)) (V flip e) (D e).
Proof.
  intros G HP Hc. unfold paren. simpl. destruct (precf flip e <=? P)%Z eqn:E.
  - apply AtomTok_FacTok, ExprTok_paren, g_expr; auto.
  - apply Z.leb_gt in E. destruct Hc as [Hc|[Hc Hr]]; [lia|]. apply g_fac; auto.
Qed.

(* ------------------------------------------------------------------ leaves *)
Lemma num_atom z d : (0 <= z)%Z -> AtomTok (num_tokens z) (fun _ _ => IZR z) d.
Proof.
  intros Hz. unfold num_tokens. destruct (z <? 0)%Z eqn:E; [apply Z.ltb_lt in E; lia|].
  split; [reflexivity|]. intros rest _. exists (PNum (Z.to_N z)). split; [apply PA_num|].
  intros tab rho _. simpl. rewrite Z2N.id by lia. reflexivity.
Qed.

Lemma num_neg_toks z : (z < 0)%Z -> num_tokens z = TMinus :: num_tokens (- z).
Proof.
  intros Hz. unfold num_tokens. destruct (z <? 0)%Z eqn:E; [|apply Z.ltb_ge in E; lia].
  destruct (- z <? 0)%Z eqn:E2; [apply Z.ltb_lt in E2; lia|]. reflexivity.
Qed.

Lemma Lin_ext ts v v' d : Lin ts v d -> (forall tab rho, d rho -> v tab rho = v' tab rho) -> Lin ts v' d.
Proof.
  intros [Hm H] E. split; auto. intros rest Hr. destruct (H rest Hr) as (a1 & r1 & K & HF & HC & HV).
  exists a1, r1, K. split; auto. split; auto. intros. rewrite HV by auto. auto.
Qed.
Lemma AtomTok_ext ts v v' d : AtomTok ts v d -> (forall tab rho, d rho -> v tab rho = v' tab rho) -> AtomTok ts v' d.
Proof.
  intros [Hm H] E. split; auto. intros rest Hr. destruct (H rest Hr) as (a & Ha & Hv). exists a. split; auto.
  eapply SemEq_ext; eauto.
Qed.
Lemma FacTok_ext ts v v' d : FacTok ts v d -> (forall tab rho, d rho -> v tab rho = v' tab rho) -> FacTok ts v' d.
Proof.
  intros [Hm H] E. split; auto. intros rest Hr. destruct (H rest Hr) as (a & Ha & Hv). exists a. split; auto.
  eapply SemEq_ext; eauto.
Qed.
Lemma TermTok_ext ts v v' d : TermTok ts v d -> (forall tab rho, d rho -> v tab rho = v' tab rho) -> TermTok ts v' d.
Proof.
  intros [Hm H] E. split; auto. intros rest Hr. destruct (H rest Hr) as (a & Ha & Hv). exists a. split; auto.
  eapply SemEq_ext; eauto.
Qed.

Lemma Good_int flip z : Good flip (SInt z).
Proof.
  set (z' := if flip then (- z)%Z else z).
  assert (HV : forall tab rho, V flip (SInt z) tab rho = IZR z').
  { intros. unfold V, z'. destruct flip; simpl; [rewrite opp_IZR|]; reflexivity. }
  destruct (Z_lt_ge_dec z' 0) as [Hn|Hp].
  - apply Good_neg with (body := num_tokens (- z')).
    + unfold precf. fold z'. simpl. destruct (z' <? 0)%Z eqn:E; [unfold P_ADD; lia | apply Z.ltb_ge in E; lia].
    + unfold Tk. simpl. fold z'. apply num_neg_toks; auto.
    + apply FacTok_Lin, AtomTok_FacTok. eapply AtomTok_ext; [apply num_atom; lia|].
      intros. unfold negV. rewrite HV. rewrite opp_IZR. reflexivity.
  - apply Good_atom. unfold Tk. simpl. fold z'. eapply AtomTok_ext; [apply num_atom; lia|].
    intros. rewrite HV. reflexivity.
Qed.

Lemma rat_Lin p q d : (0 <= p)%Z -> (0 <= q)%Z ->
  Lin (num_tokens p ++ [TSlash] ++ num_tokens q) (fun _ _ => IZR p / IZR q) d.
Proof.
  intros Hp Hq.
  pose proof (muldiv_Lin (num_tokens p, fun _ _ => IZR p) [] [(num_tokens q, fun _ _ => IZR q)] d) as H.
  simpl in H. eapply Lin_ext; [apply H|].
  - constructor; [|constructor]. apply AtomTok_FacTok, num_atom; auto.
  - constructor; [|constructor]. apply AtomTok_FacTok, num_atom; auto.
  - intros. simpl. unfold Rdiv. rewrite !Rmult_1_r. reflexivity.
Qed.

Lemma Good_rat flip p q : (2 <= q)%Z -> Good flip (SRat p q).
Proof.
  intros Hq. set (p' := if flip then (- p)%Z else p).
  assert (HV : forall tab rho, V flip (SRat p q) tab rho = IZR p' / IZR q).
  { intros. unfold V, p'. destruct flip; simpl; [rewrite opp_IZR; unfold Rdiv; ring|]; reflexivity. }
  destruct (Z_lt_ge_dec p' 0) as [Hn|Hp].
  - apply Good_neg with (body := num_tokens (- p') ++ [TSlash] ++ num_tokens q).
    + unfold precf. fold p'. simpl. destruct (p' <? 0)%Z eqn:E; [unfold P_ADD; lia | apply Z.ltb_ge in E; lia].
    + unfold Tk. simpl. fold p'. rewrite num_neg_toks by auto. reflexivity.
    + eapply Lin_ext; [apply rat_Lin; lia|]. intros. unfold negV. rewrite HV. rewrite opp_IZR. unfold Rdiv. ring.
  - apply Good_term.
    + unfold precf. fold p'. simpl. destruct (p' <? 0)%Z; unfold P_ADD, P_MUL; lia.
    + apply Lin_TermTok. unfold Tk. simpl. fold p'. eapply Lin_ext; [apply rat_Lin; lia|].
      intros. rewrite HV. reflexivity.
Qed.

Lemma name_atom s (v : Val) (d : Dfn) : (forall (tab : table) rho, d rho -> (if String.eqb s "E" then exp 1 else rho s) = v tab rho) ->
  AtomTok [TName s] v d.
Proof.
  intros H. split; [reflexivity|]. intros rest Hr. exists (PName s). split; [apply PA_name; auto|].
  intros tab rho Hd. simpl. auto.
Qed.

Lemma Good_sym s : String.eqb s "E" = false -> Good false (SSym s).
Proof.
  intros Hs. apply Good_atom. unfold Tk. simpl. apply name_atom. intros. rewrite Hs. reflexivity.
Qed.

Lemma Good_E : Good false SE.
Proof. apply Good_atom. unfold Tk. simpl. apply name_atom. intros. reflexivity. Qed.

(* ------------------------------------------------------------------ calls *)
Lemma p_expr_bad f ts : (ts = [] \/ exists r, ts = TRp :: r) -> p_expr f ts = None.
Proof.
  intros H. destruct f as [|[|[|[|[|f]]]]]; simpl; auto;
    destruct H as [->|[r ->]]; simpl; auto.
Qed.

Lemma PE_hd ts a r : PE ts a r -> hd_not (fun t => match t with TRp => true | _ => false end) ts /\ ts <> [].
Proof.
  intros H. apply Ev_some in H. destruct H as [f H].
  destruct ts as [|t ts].
  - rewrite p_expr_bad in H by auto. discriminate.
  - split; [|discriminate]. destruct t; simpl; auto. rewrite p_expr_bad in H by eauto. discriminate.
Qed.

Lemma call1_atom fn ts (v : Val) d : ExprTok ts v d ->
  AtomTok ([TName fn; TLp] ++ ts ++ [TRp]) (fun tab rho => apply_fun tab fn [v tab rho]) d.
Proof.
  intros H. split; [reflexivity|]. intros rest Hr.
  destruct (H (TRp :: rest) (ok_rp rest)) as (a & Ha & Hv).
  exists (PCall fn [a]). split.
  - simpl. rewrite <- app_assoc. simpl. apply PA_call.
    + destruct (PE_hd _ _ _ Ha) as [Hh Hn]. exact Hh.
    + apply PArgs_one. exact Ha.
  - intros tab rho Hd. change (peval tab rho (PCall fn [a])) with (apply_fun tab fn [peval tab rho a]).
    rewrite Hv by auto. reflexivity.
Qed.

Lemma ok_comma r : okE (TComma :: r).
Proof. reflexivity. Qed.

Lemma call2_atom fn t1 t2 (v1 v2 : Val) d : ExprTok t1 v1 d -> ExprTok t2 v2 d ->
  AtomTok ([TName fn; TLp] ++ t1 ++ [TComma] ++ t2 ++ [TRp]) (fun tab rho => apply_fun tab fn [v1 tab rho; v2 tab rho]) d.
Proof.
  intros H1 H2. split; [reflexivity|]. intros rest Hr.
  destruct (H2 (TRp :: rest) (ok_rp rest)) as (a2 & Ha2 & Hv2).
  destruct (H1 (TComma :: t2 ++ TRp :: rest) (ok_comma _)) as (a1 & Ha1 & Hv1).
  exists (PCall fn [a1; a2]). split.
  - replace (([TName fn; TLp] ++ t1 ++ [TComma] ++ t2 ++ [TRp]) ++ rest)
      with (TName fn :: TLp :: (t1 ++ TComma :: t2 ++ TRp :: rest))
      by (simpl; rewrite <- !app_assoc; simpl; rewrite <- !app_assoc; reflexivity).
    apply PA_call.
    + destruct (PE_hd _ _ _ Ha1) as [Hh Hn]. exact Hh.
    + eapply PArgs_cons; [exact Ha1|]. apply PArgs_one. exact Ha2.
  - intros tab rho Hd. change (peval tab rho (PCall fn [a1; a2])) with (apply_fun tab fn [peval tab rho a1; peval tab rho a2]).
    rewrite Hv1, Hv2 by auto. reflexivity.
Qed.

Lemma AtomTok_ExprTok ts v d : AtomTok ts v d -> ExprTok ts v d.
Proof. intros H. apply TermTok_ExprTok, FacTok_TermTok, AtomTok_FacTok, H. Qed.

Lemma known_fun_cases name : known_fun name = true ->
  name = "log"%string \/ name = "exp"%string \/ name = "sin"%string \/ name = "cos"%string \/ name = "Abs"%string.
Proof.
  unfold known_fun. intros H. repeat (apply orb_true_iff in H; destruct H as [H|H]);
    apply String.eqb_eq in H; auto 6.
Qed.

Lemma defined_fun1 rho name a : defined rho (SFun name [a]) <->
  defined rho a /\ (if String.eqb name "log" then 0 < sem rho a else True).
Proof. simpl. tauto. Qed.

Lemma Good_fun name a : known_fun name = true -> Good false a -> Good false (SFun name [a]).
Proof.
  intros Hk Ga. apply Good_atom. unfold Tk. simpl.
  change (TName name :: TLp :: pr false false a ++ [TRp]) with ([TName name; TLp] ++ Tk false a ++ [TRp]).
  pose proof (call1_atom name _ _ _ (g_expr _ _ Ga)) as H.
  destruct H as [Hm H]. split; auto. intros rest Hr. destruct (H rest Hr) as (t & Ht & Hv).
  exists t. split; auto. intros tab rho Hd. unfold D in Hd. apply defined_fun1 in Hd. destruct Hd as [Hda Hl].
  rewrite Hv by exact Hda. unfold V. simpl.
  destruct (known_fun_cases _ Hk) as [->|[->|[->|[->| ->]]]]; simpl in *; auto.
  destruct tab; auto. rewrite Rabs_pos by auto. reflexivity.
Qed.

(* ------------------------------------------------------------------ powers *)
Lemma okP_rp r : okP (TRp :: r). Proof. reflexivity. Qed.
Lemma okT_rp r : okT (TRp :: r). Proof. reflexivity. Qed.

Lemma int_exp_fac z rest : okP rest ->
  exists a, PF (paren P_POW (num_tokens z, prec (SInt z)) ++ rest) a rest /\ int_literal a = Some z.
Proof.
  intros Hr. unfold paren, num_tokens, prec, fst, snd. destruct (z <? 0)%Z eqn:E.
  - apply Z.ltb_lt in E. simpl. exists (PNeg (PNum (Z.to_N (- z)))). split.
    + apply PA_PF; [reflexivity| |exact Hr]. apply PA_paren.
      apply PT_PE; [|apply ok_rp]. apply PF_PT; [|apply okT_rp].
      apply PF_neg. apply PA_PF; [reflexivity|apply PA_num|apply okP_rp].
    + simpl. rewrite Z2N.id by lia. f_equal. lia.
  - apply Z.ltb_ge in E. simpl. exists (PNum (Z.to_N z)). split.
    + apply PA_PF; [reflexivity|apply PA_num|exact Hr].
    + simpl. rewrite Z2N.id by lia. reflexivity.
Qed.

Lemma ok_pow r : okA (TPow :: r). Proof. reflexivity. Qed.

Lemma pow_int_fac pb (vb : Val) z d : AtomTok pb vb d ->
  FacTok (pb ++ [TPow] ++ paren P_POW (num_tokens z, prec (SInt z))) (fun tab rho => powerRZ (vb tab rho) z) d.
Proof.
  intros [Hm Hb]. split.
  - destruct pb; simpl in *; tauto.
  - intros rest Hr. destruct (int_exp_fac z rest Hr) as (ae & Hae & Hlit).
    destruct (Hb (TPow :: paren P_POW (num_tokens z, prec (SInt z)) ++ rest) (ok_pow _)) as (ab & Hab & Hvb).
    exists (PBin OPow ab ae). split.
    + rewrite <- app_assoc. apply PF_power; [apply nm_app; auto|].
      eapply PP_pow; [exact Hab|]. simpl. exact Hae.
    + intros tab rho Hd. simpl. rewrite Hlit. rewrite Hvb by auto. reflexivity.
Qed.

Lemma one_atom d : AtomTok [TNum 1%N] (fun _ _ => 1) d.
Proof. exact (num_atom 1 d ltac:(lia)). Qed.

(* 1/den  as a chain *)
Lemma recip_Lin td (vd : Val) d : FacTok td vd d -> Lin ([TNum 1%N; TSlash] ++ td) (fun tab rho => 1 / vd tab rho) d.
Proof.
  intros H.
  pose proof (muldiv_Lin ([TNum 1%N], fun _ _ => 1) [] [(td, vd)] d) as HL. simpl in HL.
  eapply Lin_ext; [apply HL|].
  - constructor; [|constructor]. apply AtomTok_FacTok, one_atom.
  - constructor; [|constructor]. exact H.
  - intros. simpl. unfold Rdiv. rewrite !Rmult_1_r. reflexivity.
Qed.

Definition pow_val (sh : eshape) (vb ve : Val) (z : Z) : Val :=
  fun tab rho =>
  match sh with
  | EHalf => apply_fun tab "sqrt" [vb tab rho]
  | ENegHalf => 1 / apply_fun tab "sqrt" [vb tab rho]
  | ENegOne => 1 / vb tab rho
  | EInt => powerRZ (vb tab rho) z
  | EOther => apply_fun tab "pow" [vb tab rho; ve tab rho]
  end.

(* every shape of _print_Pow is at least a term; the non-reciprocal ones are factors.
   te/pe/z describe the exponent as printed: for EInt it is the integer literal z. *)
Lemma pow_assemble_Lin sh tb pb te pe (vb ve : Val) z d :
  ExprTok tb vb d -> AtomTok (paren P_POW (tb, pb)) vb d ->
  (sh = EInt -> te = num_tokens z /\ pe = prec (SInt z)) ->
  (sh = EOther -> AtomTok (paren P_POW (te, pe)) ve d) ->
  Lin (pow_assemble sh (tb, pb) (te, pe)) (pow_val sh vb ve z) d /\
  (match sh with ENegHalf | ENegOne => True | _ => FacTok (pow_assemble sh (tb, pb) (te, pe)) (pow_val sh vb ve z) d end).
Proof.
  intros Hbe Hba Hint Hoth. destruct sh; unfold pow_assemble, pow_val; cbn [fst snd].
  - assert (H : AtomTok ([TName "sqrt"; TLp] ++ tb ++ [TRp]) (fun tab rho => apply_fun tab "sqrt" [vb tab rho]) d)
      by (apply call1_atom; auto).
    split; [apply FacTok_Lin|]; apply AtomTok_FacTok; exact H.
  - split; auto.
    change ([TNum 1%N; TSlash; TName "sqrt"; TLp] ++ tb ++ [TRp]) with ([TNum 1%N; TSlash] ++ ([TName "sqrt"; TLp] ++ tb ++ [TRp])).
    apply (recip_Lin _ (fun tab rho => apply_fun tab "sqrt" [vb tab rho])).
    apply AtomTok_FacTok, call1_atom; auto.
  - split; auto. apply recip_Lin. apply AtomTok_FacTok; auto.
  - destruct (Hint eq_refl) as [-> ->].
    assert (H : FacTok (paren P_POW (tb, pb) ++ [TPow] ++ paren P_POW (num_tokens z, prec (SInt z)))
                       (fun tab rho => powerRZ (vb tab rho) z) d) by (apply pow_int_fac; auto).
    split; [apply FacTok_Lin|]; exact H.
  - assert (H : AtomTok ([TName "pow"; TLp] ++ paren P_POW (tb, pb) ++ [TComma] ++ paren P_POW (te, pe) ++ [TRp])
                        (fun tab rho => apply_fun tab "pow" [vb tab rho; ve tab rho]) d).
    { apply call2_atom; apply AtomTok_ExprTok; auto. }
    split; [apply FacTok_Lin|]; apply AtomTok_FacTok; exact H.
Qed.

(* ------------------------------------------------------------------ weakening of the definedness condition *)
Definition sub (d' d : Dfn) : Prop := forall rho, d' rho -> d rho.

Lemma SemEq_mono a v d d' : SemEq a v d -> sub d' d -> SemEq a v d'.
Proof. intros H S tab rho Hd. apply H, S, Hd. Qed.
Lemma ExprTok_mono ts v d d' : ExprTok ts v d -> sub d' d -> ExprTok ts v d'.
Proof. intros H S rest Hr. destruct (H rest Hr) as (a & Ha & Hv). exists a. split; auto. eapply SemEq_mono; eauto. Qed.
Lemma AtomTok_mono ts v d d' : AtomTok ts v d -> sub d' d -> AtomTok ts v d'.
Proof. intros [Hm H] S. split; auto. intros rest Hr. destruct (H rest Hr) as (a & Ha & Hv). exists a. split; auto. eapply SemEq_mono; eauto. Qed.
Lemma FacTok_mono ts v d d' : FacTok ts v d -> sub d' d -> FacTok ts v d'.
Proof. intros [Hm H] S. split; auto. intros rest Hr. destruct (H rest Hr) as (a & Ha & Hv). exists a. split; auto. eapply SemEq_mono; eauto. Qed.
Lemma TermTok_mono ts v d d' : TermTok ts v d -> sub d' d -> TermTok ts v d'.
Proof. intros [Hm H] S. split; auto. intros rest Hr. destruct (H rest Hr) as (a & Ha & Hv). exists a. split; auto. eapply SemEq_mono; eauto. Qed.
Lemma Lin_mono ts v d d' : Lin ts v d -> sub d' d -> Lin ts v d'.
Proof.
  intros [Hm H] S. split; auto. intros rest Hr. destruct (H rest Hr) as (a1 & r1 & K & HF & HC & HV).
  exists a1, r1, K. split; auto. split.
  - intros acc. destruct (HC acc) as (b & Hb & Hbv). exists b. split; auto.
  - intros. apply HV. auto.
Qed.

Lemma precf_false e : precf false e = prec e.
Proof. destruct e; simpl; auto. destruct neg; reflexivity. Qed.

(* ------------------------------------------------------------------ Pow nodes *)
Definition exp_int (flipx : bool) (ex : sexpr) : Z :=
  match ex with SInt z => if flipx then (- z)%Z else z | _ => 0%Z end.

Lemma pow_general b ex flipx d :
  Good false b -> Good flipx ex -> sub d (D b) -> sub d (D ex) ->
  let sh := eshape_of flipx ex in
  let ts := pow_assemble sh (Tk false b, prec b) (Tk flipx ex, precf flipx ex) in
  let v := pow_val sh (V false b) (V flipx ex) (exp_int flipx ex) in
  Lin ts v d /\ (match sh with ENegHalf | ENegOne => True | _ => FacTok ts v d end).
Proof.
  intros Gb Gx Sb Sx sh ts v. apply pow_assemble_Lin.
  - eapply ExprTok_mono; [apply g_expr; exact Gb | exact Sb].
  - eapply AtomTok_mono; [|exact Sb]. rewrite <- (precf_false b). apply paren_pow_atom. exact Gb.
  - intros Hsh. unfold sh in Hsh. destruct ex; simpl in Hsh; try discriminate.
    + unfold Tk, exp_int, precf. simpl. split; reflexivity.
    + destruct ((if flipx then (- p)%Z else p) =? 1)%Z, (q =? 2)%Z, ((if flipx then (- p)%Z else p) =? -1)%Z; discriminate.
  - intros _. eapply AtomTok_mono; [|exact Sx]. apply paren_pow_atom. exact Gx.
Qed.

Lemma eshape_int flipx ex : eshape_of flipx ex = EInt -> exists z, ex = SInt z /\ exp_int flipx ex <> (-1)%Z.
Proof.
  destruct ex; simpl; try discriminate.
  - intros H. exists z. split; auto. destruct ((if flipx then (- z)%Z else z) =? -1)%Z eqn:E; [discriminate|].
    apply Z.eqb_neq in E. exact E.
  - destruct ((if flipx then (- p)%Z else p) =? 1)%Z, (q =? 2)%Z, ((if flipx then (- p)%Z else p) =? -1)%Z; discriminate.
Qed.

Lemma eshape_negone flipx ex : eshape_of flipx ex = ENegOne -> exists z, ex = SInt z /\ exp_int flipx ex = (-1)%Z.
Proof.
  destruct ex; simpl; try discriminate.
  - intros H. exists z. split; auto. destruct ((if flipx then (- z)%Z else z) =? -1)%Z eqn:E; [|discriminate].
    apply Z.eqb_eq in E. exact E.
  - destruct ((if flipx then (- p)%Z else p) =? 1)%Z, (q =? 2)%Z, ((if flipx then (- p)%Z else p) =? -1)%Z; discriminate.
Qed.

Lemma eshape_half flipx ex : eshape_of flipx ex = EHalf -> exists p, ex = SRat p 2 /\ (if flipx then (- p)%Z else p) = 1%Z.
Proof.
  destruct ex; simpl; try discriminate.
  - destruct ((if flipx then (- z)%Z else z) =? -1)%Z; discriminate.
  - destruct ((if flipx then (- p)%Z else p) =? 1)%Z eqn:E1, (q =? 2)%Z eqn:E2; simpl.
    + intros _. apply Z.eqb_eq in E1, E2. subst q. exists p. auto.
    + destruct ((if flipx then (- p)%Z else p) =? -1)%Z; discriminate.
    + destruct ((if flipx then (- p)%Z else p) =? -1)%Z; discriminate.
    + destruct ((if flipx then (- p)%Z else p) =? -1)%Z; discriminate.
Qed.

Lemma eshape_neghalf flipx ex : eshape_of flipx ex = ENegHalf -> exists p, ex = SRat p 2 /\ (if flipx then (- p)%Z else p) = (-1)%Z.
Proof.
  destruct ex; simpl; try discriminate.
  - destruct ((if flipx then (- z)%Z else z) =? -1)%Z; discriminate.
  - destruct ((if flipx then (- p)%Z else p) =? 1)%Z eqn:E1, (q =? 2)%Z eqn:E2; simpl; try discriminate.
    + destruct ((if flipx then (- p)%Z else p) =? -1)%Z eqn:E3; [|discriminate].
      intros _. apply Z.eqb_eq in E2, E3. subst q. exists p. auto.
    + destruct ((if flipx then (- p)%Z else p) =? -1)%Z; discriminate.
Qed.

Lemma eshape_other_notint flipx ex : eshape_of flipx ex = EOther -> forall z, ex <> SInt z.
Proof.
  intros H z ->. simpl in H. destruct ((if flipx then (- z)%Z else z) =? -1)%Z; discriminate.
Qed.
