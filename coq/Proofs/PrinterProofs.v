(* C12 -- parenthesisation adequacy: what ESRPrinter prints (Model/Printer.v) is read back by the
   Python grammar (Model/PyParse.v) as a tree with the same real-number meaning, under both symbol
   tables.  Mutual induction over Add / Mul / Pow. *)
From Coq Require Import ZArith NArith List Bool String Ascii Lia Arith Reals Lra.
From ESRV Require Import Model.Printer Model.PyParse Proofs.PyParseProofs.
Import ListNotations.

(* ------------------------------------------------------------------ induction principle *)
Section SexprInd.
  Variable P : sexpr -> Prop.
  Hypothesis HAdd : forall ts, Forall P ts -> P (SAdd ts).
  Hypothesis HMul : forall neg fs, Forall P fs -> P (SMul neg fs).
  Hypothesis HPow : forall b e, P b -> P e -> P (SPow b e).
  Hypothesis HInt : forall z, P (SInt z).
  Hypothesis HRat : forall p q, P (SRat p q).
  Hypothesis HSym : forall s, P (SSym s).
  Hypothesis HFun : forall s args, Forall P args -> P (SFun s args).
  Hypothesis HE : P SE.
  Hypothesis HZoo : P SZoo.
  Fixpoint sexpr_ind' (e : sexpr) : P e :=
    let fix go (l : list sexpr) : Forall P l :=
      match l with [] => Forall_nil P | x :: r => Forall_cons x (sexpr_ind' x) (go r) end in
    match e with
    | SAdd ts => HAdd ts (go ts)
    | SMul neg fs => HMul neg fs (go fs)
    | SPow b ex => HPow b ex (sexpr_ind' b) (sexpr_ind' ex)
    | SInt z => HInt z
    | SRat p q => HRat p q
    | SSym s => HSym s
    | SFun s args => HFun s args (go args)
    | SE => HE
    | SZoo => HZoo
    end.
End SexprInd.

(* ------------------------------------------------------------------ notation for the proof *)
Definition Tk (flip : bool) (e : sexpr) : list token := pr false flip e.
Definition Val := table -> env -> R.
Definition V (flip : bool) (e : sexpr) : Val := fun _ rho => if flip then (- sem rho e)%R else sem rho e.
Definition Dfn := env -> Prop.

Definition SemEq (a : pyast) (v : Val) (d : Dfn) : Prop := forall tab rho, d rho -> peval tab rho a = v tab rho.

(* non-empty and not starting with a minus sign *)
Definition nm (ts : list token) : Prop := match ts with [] => False | t :: _ => is_minus t = false end.
Lemma nm_app ts rest : nm ts -> hd_not is_minus (ts ++ rest).
Proof. destruct ts; simpl; tauto. Qed.

(* a token string that is read as an atom / a factor, whatever follows *)
Definition AtomTok (ts : list token) (v : Val) (d : Dfn) : Prop :=
  nm ts /\ forall rest, okA rest -> exists a, PA (ts ++ rest) a rest /\ SemEq a v d.
Definition FacTok (ts : list token) (v : Val) (d : Dfn) : Prop :=
  nm ts /\ forall rest, okP rest -> exists a, PF (ts ++ rest) a rest /\ SemEq a v d.
Definition TermTok (ts : list token) (v : Val) (d : Dfn) : Prop :=
  nm ts /\ forall rest, okT rest -> exists a, PT (ts ++ rest) a rest /\ SemEq a v d.
Definition ExprTok (ts : list token) (v : Val) (d : Dfn) : Prop :=
  forall rest, okE rest -> exists a, PE (ts ++ rest) a rest /\ SemEq a v d.

(* a product/quotient chain  f1 op f2 op ...  (op = times or divide): its first factor and the rest of the chain, which
   multiplies whatever tree has been accumulated by K.  Used for terms behind a binary or unary minus. *)
Definition Lin (ts : list token) (v : Val) (d : Dfn) : Prop :=
  nm ts /\
  forall rest, okT rest ->
  exists a1 r1 (K : Val),
    PF (ts ++ rest) a1 r1 /\
    (forall acc, exists b, PTR acc r1 b rest /\
                           forall tab rho, d rho -> peval tab rho b = (peval tab rho acc * K tab rho)%R) /\
    (forall tab rho, d rho -> (peval tab rho a1 * K tab rho)%R = v tab rho).

Definition negV (v : Val) : Val := fun tab rho => (- v tab rho)%R.

Lemma Lin_TermTok ts v d : Lin ts v d -> TermTok ts v d.
Proof.
  intros [Hm H]. split; auto. intros rest Hr. destruct (H rest Hr) as (a1 & r1 & K & HF & HC & HV).
  destruct (HC a1) as (b & Hb & Hbv). exists b. split.
  - eapply PT_intro; eauto.
  - intros tab rho Hd. rewrite Hbv by auto. auto.
Qed.

(* "-" followed by the chain: Python negates the first factor only; the value is the negated product *)
Lemma Lin_neg ts v d rest : Lin ts v d -> okT rest ->
  exists a, PT (TMinus :: ts ++ rest) a rest /\ SemEq a (negV v) d.
Proof.
  intros [Hm H] Hr. destruct (H rest Hr) as (a1 & r1 & K & HF & HC & HV).
  destruct (HC (PNeg a1)) as (b & Hb & Hbv). exists b. split.
  - eapply PT_intro; [apply PF_neg; eauto | eauto].
  - intros tab rho Hd. rewrite Hbv by auto. simpl. unfold negV. rewrite <- HV by auto. ring.
Qed.

Lemma FacTok_Lin ts v d : FacTok ts v d -> Lin ts v d.
Proof.
  intros [Hm H]. split; auto. intros rest Hr. destruct (H rest (okT_okP _ Hr)) as (a & Ha & Hv).
  exists a, rest, (fun _ _ => 1%R). split; auto. split.
  - intros acc. exists acc. split.
    + apply PTR_stop. destruct rest as [|t r]; simpl in *; auto. unfold badT in Hr. apply orb_false_iff in Hr. tauto.
    + intros. ring.
  - intros tab rho Hd. rewrite Hv by auto. ring.
Qed.

Lemma AtomTok_FacTok ts v d : AtomTok ts v d -> FacTok ts v d.
Proof.
  intros [Hm H]. split; auto. intros rest Hr. destruct (H rest (okP_okA _ Hr)) as (a & Ha & Hv).
  exists a. split; auto. apply PA_PF; auto. apply nm_app; auto.
Qed.

Lemma TermTok_ExprTok ts v d : TermTok ts v d -> ExprTok ts v d.
Proof.
  intros [Hm H] rest Hr. destruct (H rest (okE_okT _ Hr)) as (a & Ha & Hv).
  exists a. split; auto. apply PT_PE; auto.
Qed.

Lemma FacTok_TermTok ts v d : FacTok ts v d -> TermTok ts v d.
Proof. intros H. apply Lin_TermTok, FacTok_Lin, H. Qed.

Lemma ok_rp r : okE (TRp :: r).
Proof. reflexivity. Qed.

(* ( expr ) is an atom *)
Lemma ExprTok_paren ts v d : ExprTok ts v d -> AtomTok ([TLp] ++ ts ++ [TRp]) v d.
Proof.
  intros H. split; [reflexivity|]. intros rest Hr.
  destruct (H (TRp :: rest) (ok_rp rest)) as (a & Ha & Hv). exists a. split; auto.
  simpl. rewrite <- app_assoc. simpl. apply PA_paren. exact Ha.
Qed.

(* ------------------------------------------------------------------ product / quotient chains *)
Open Scope R_scope.

Fixpoint prodV (l : list Val) : Val :=
  fun tab rho => match l with [] => 1 | v :: r => v tab rho * prodV r tab rho end.

Definition FTs (l : list (list token * Val)) (d : Dfn) : Prop :=
  Forall (fun tv => FacTok (fst tv) (snd tv) d) l.

Definition star_tail (l : list (list token)) : list token := List.concat (map (fun ts => TStar :: ts) l).

Lemma join_star x l : join [TStar] (x :: l) = x ++ star_tail l.
Proof.
  revert x. induction l as [|y l IH]; intros x.
  - simpl. rewrite app_nil_r. reflexivity.
  - change (join [TStar] (x :: y :: l)) with (x ++ [TStar] ++ join [TStar] (y :: l)).
    rewrite IH. reflexivity.
Qed.

Definition ChainK (tail rest : list token) (K : Val) (d : Dfn) : Prop :=
  forall acc, exists b, PTR acc tail b rest /\
     forall tab rho, d rho -> peval tab rho b = peval tab rho acc * K tab rho.

Lemma star_chain l d : FTs l d -> forall tail rest Kt,
  hd_not is_powlp tail -> ChainK tail rest Kt d ->
  ChainK (star_tail (map fst l) ++ tail) rest (fun tab rho => prodV (map snd l) tab rho * Kt tab rho) d.
Proof.
  induction 1 as [|[ts v] l [Hm HF] Hl IH]; intros tail rest Kt Ht HK.
  - simpl. intros acc. destruct (HK acc) as (b & Hb & Hv). exists b. split; auto.
    intros tab rho Hd. rewrite Hv by auto. ring.
  - simpl in *. intros acc.
    assert (Hok : okP (star_tail (map fst l) ++ tail)).
    { destruct l as [|[ts2 v2] l2]; simpl; auto. }
    destruct (HF _ Hok) as (a & Ha & Hav).
    destruct (IH tail rest Kt Ht HK (PBin OMul acc a)) as (b & Hb & Hbv).
    exists b. split.
    + unfold star_tail. simpl. rewrite <- app_assoc. eapply PTR_mul; eauto.
    + intros tab rho Hd. rewrite Hbv by auto. simpl. rewrite Hav by auto. ring.
Qed.

Lemma ChainK_stop rest d : okT rest -> ChainK rest rest (fun _ _ => 1) d.
Proof.
  intros Hr acc. exists acc. split.
  - apply PTR_stop. destruct rest as [|t r]; simpl in *; auto. unfold badT in Hr. apply orb_false_iff in Hr. tauto.
  - intros. ring.
Qed.

Lemma okT_powlp rest : okT rest -> hd_not is_powlp rest.
Proof. apply okT_okP. Qed.

(* a non-empty product  f1*f2*...*fn  followed by a chain *)
Lemma prod_Lin_gen x l d tail Kt :
  FTs (x :: l) d ->
  nm (fst x) ->
  (forall rest, okT rest -> hd_not is_powlp (tail ++ rest) /\ ChainK (tail ++ rest) rest Kt d) ->
  Lin (join [TStar] (map fst (x :: l)) ++ tail)
      (fun tab rho => prodV (map snd (x :: l)) tab rho * Kt tab rho) d.
Proof.
  intros HF Hnm Htail. inversion HF as [|? ? [Hm Hx] Hl]; subst.
  split.
  - simpl map. rewrite join_star. destruct (fst x); simpl in *; tauto.
  - intros rest Hr. destruct (Htail rest Hr) as (Hp & HK).
    pose proof (star_chain l d Hl (tail ++ rest) rest Kt Hp HK) as HC.
    assert (Hok : okP (star_tail (map fst l) ++ tail ++ rest)).
    { destruct l as [|[ts2 v2] l2]; simpl; auto. }
    destruct (Hx _ Hok) as (a & Ha & Hav).
    exists a, (star_tail (map fst l) ++ tail ++ rest), (fun tab rho => prodV (map snd l) tab rho * Kt tab rho).
    split.
    + simpl map. rewrite join_star. repeat rewrite <- app_assoc. exact Ha.
    + split; auto. intros tab rho Hd. simpl. rewrite Hav by auto. ring.
Qed.

(* the denominator part of _print_Mul's three output shapes *)
Definition den_toks (lb : list (list token)) : list token :=
  match lb with
  | [] => []
  | [dd] => [TSlash] ++ dd
  | _ :: _ :: _ => [TSlash; TLp] ++ join [TStar] lb ++ [TRp]
  end.

Lemma den_chain lb d : FTs lb d -> forall rest, okT rest ->
  hd_not is_powlp (den_toks (map fst lb) ++ rest) /\
  ChainK (den_toks (map fst lb) ++ rest) rest (fun tab rho => / prodV (map snd lb) tab rho) d.
Proof.
  intros HF rest Hr. destruct lb as [|[t1 v1] lb].
  - simpl. split; [apply okT_okP; auto|]. intros acc. destruct (ChainK_stop rest d Hr acc) as (b & Hb & Hv).
    exists b. split; auto. intros tab rho Hd. rewrite Hv by auto. rewrite Rinv_1. reflexivity.
  - destruct lb as [|[t2 v2] lb].
    + simpl. split; [reflexivity|]. inversion HF as [|? ? [Hm H1] _]; subst. simpl in *.
      intros acc. destruct (H1 rest (okT_okP _ Hr)) as (a & Ha & Hav).
      destruct (ChainK_stop rest d Hr (PBin ODiv acc a)) as (b & Hb & Hv).
      exists b. split.
      * eapply PTR_div; eauto.
      * intros tab rho Hd. rewrite Hv by auto. simpl. rewrite Hav by auto. unfold Rdiv. rewrite !Rmult_1_r. ring.
    + split; [reflexivity|].
      (* the parenthesised product is an atom *)
      assert (HL : Lin (join [TStar] (map fst ((t1, v1) :: (t2, v2) :: lb)) ++ [])
                       (fun tab rho => prodV (map snd ((t1, v1) :: (t2, v2) :: lb)) tab rho * 1) d).
      { apply prod_Lin_gen with (Kt := fun _ _ => 1); auto.
        - inversion HF as [|? ? [Hm _] _]; auto.
        - intros r Hr'. simpl. split; [apply okT_okP; auto | apply ChainK_stop; auto]. }
      rewrite app_nil_r in HL.
      pose proof (ExprTok_paren _ _ _ (TermTok_ExprTok _ _ _ (Lin_TermTok _ _ _ HL))) as [_ HA].
      intros acc. destruct (HA rest (okP_okA _ (okT_okP _ Hr))) as (a & Ha & Hav).
      destruct (ChainK_stop rest d Hr (PBin ODiv acc a)) as (b & Hb & Hv).
      exists b. split.
      * change (den_toks (map fst ((t1, v1) :: (t2, v2) :: lb)))
          with ([TSlash] ++ ([TLp] ++ join [TStar] (map fst ((t1, v1) :: (t2, v2) :: lb)) ++ [TRp])).
        rewrite <- app_assoc. simpl app at 1. eapply PTR_div.
        -- apply PA_PF; [reflexivity | exact Ha | apply okT_okP; auto].
        -- exact Hb.
      * intros tab rho Hd. rewrite Hv by auto. simpl peval. rewrite Hav by auto. unfold Rdiv.
        rewrite Rmult_1_r. rewrite Rmult_1_r. reflexivity.
Qed.

(* numerator product followed by the denominator part *)
Lemma muldiv_Lin x la lb d :
  FTs (x :: la) d -> FTs lb d ->
  Lin (join [TStar] (map fst (x :: la)) ++ den_toks (map fst lb))
      (fun tab rho => prodV (map snd (x :: la)) tab rho * / prodV (map snd lb) tab rho) d.
Proof.
  intros Ha Hb. apply prod_Lin_gen; auto.
  - inversion Ha as [|? ? [Hm _] _]; auto.
  - intros rest Hr. apply den_chain; auto.
Qed.

(* ------------------------------------------------------------------ real-number facts *)
Lemma powerRZ_m1 x : powerRZ x (-1) = / x.
Proof. simpl. rewrite Rmult_1_r. reflexivity. Qed.

Lemma powerRZ_neg_inv x z : (z < 0)%Z -> powerRZ x z = / powerRZ x (- z).
Proof. intros Hz. destruct z; try lia. simpl. reflexivity. Qed.

Lemma half_eq : IZR 1 / IZR 2 = / 2.
Proof. unfold Rdiv. rewrite Rmult_1_l. reflexivity. Qed.

Lemma Rpower_half x : 0 < x -> Rpower x (IZR 1 / IZR 2) = sqrt x.
Proof. intros Hx. rewrite half_eq. apply Rpower_sqrt. exact Hx. Qed.

Lemma Rpower_neghalf x : 0 < x -> Rpower x (IZR (-1) / IZR 2) = 1 / sqrt x.
Proof.
  intros Hx. replace (IZR (-1) / IZR 2) with (- (/ 2)) by (simpl; field).
  rewrite Rpower_Ropp. rewrite Rpower_sqrt by exact Hx. unfold Rdiv. rewrite Rmult_1_l. reflexivity.
Qed.

Lemma Rabs_pos x : 0 < x -> Rabs x = x.
Proof. intros. apply Rabs_pos_eq. lra. Qed.

(* ------------------------------------------------------------------ per-node statement *)
Definition D (e : sexpr) : Dfn := fun rho => defined rho e.

Definition recip (e : sexpr) : bool :=
  match e with
  | SPow _ ex => match eshape_of false ex with ENegHalf | ENegOne => true | _ => false end
  | _ => false
  end.

Record Good (flip : bool) (e : sexpr) : Prop := {
  g_expr : ExprTok (Tk flip e) (V flip e) (D e);
  g_term : flip = false -> is_add e = false ->
           TermTok (Tk flip e) (V flip e) (D e) \/
           exists body, Tk flip e = TMinus :: body /\ Lin body (negV (V flip e)) (D e);
  g_fac : flip = false -> (60 <= precf flip e)%Z -> recip e = false -> FacTok (Tk flip e) (V flip e) (D e);
  g_atom : (70 <= precf flip e)%Z -> AtomTok (Tk flip e) (V flip e) (D e) }.

Lemma SemEq_ext a v v' d : SemEq a v d -> (forall tab rho, d rho -> v tab rho = v' tab rho) -> SemEq a v' d.
Proof. intros H E tab rho Hd. rewrite H by auto. auto. Qed.

Lemma neg_expr body v d : Lin body (negV v) d -> ExprTok (TMinus :: body) v d.
Proof.
  intros HL rest Hr. destruct (Lin_neg _ _ _ rest HL (okE_okT _ Hr)) as (a & Ha & Hv).
  exists a. split.
  - apply PT_PE; auto.
  - eapply SemEq_ext; eauto. intros. unfold negV. ring.
Qed.

Lemma Good_atom flip e : AtomTok (Tk flip e) (V flip e) (D e) -> Good flip e.
Proof.
  intros H. pose proof (AtomTok_FacTok _ _ _ H) as HF. pose proof (FacTok_TermTok _ _ _ HF) as HT.
  constructor; auto. apply TermTok_ExprTok; auto.
Qed.

Lemma Good_term flip e : (precf flip e < 60)%Z -> TermTok (Tk flip e) (V flip e) (D e) -> Good flip e.
Proof.
  intros Hp HT. constructor; auto; try (intros; lia). apply TermTok_ExprTok; auto.
Qed.

Lemma Good_neg flip e body : (precf flip e < 60)%Z -> Tk flip e = TMinus :: body ->
  Lin body (negV (V flip e)) (D e) -> Good flip e.
Proof.
  intros Hp HT HL. constructor; try (intros; lia).
  - rewrite HT. apply neg_expr; auto.
  - intros _ _. right. exists body. auto.
Qed.

Lemma precf_vals flip e : In (precf flip e) [40; 50; 60; 70; 1000]%Z.
Proof.
  assert (Hp : forall e, In (prec e) [40; 50; 60; 70; 1000]%Z).
  { intros e0. destruct e0; simpl; try tauto.
    - destruct neg; simpl; tauto.
    - destruct (z <? 0)%Z; simpl; tauto.
    - destruct (p <? 0)%Z; simpl; tauto. }
  destruct e; try apply Hp.
  - unfold precf. destruct (flip && is_single fs).
    + destruct fs as [|f [|]]; try apply Hp; simpl; tauto.
    + destruct (xorb flip neg); simpl; tauto.
Qed.

(* parenthesize(item, 60, strict=False): an atom either way *)
Lemma paren_pow_atom flip e : Good flip e ->
  AtomTok (paren P_POW (Tk flip e, precf flip e)) (V flip e) (D e).
Proof.
  intros G. unfold paren. simpl. destruct (precf flip e <=? P_POW)%Z eqn:E.
  - apply ExprTok_paren. apply g_expr; auto.
  - apply g_atom; auto. apply Z.leb_gt in E. unfold P_POW in E.
    pose proof (precf_vals flip e) as Hv. simpl in Hv. lia.
Qed.

(* parenthesize(item, P, strict=False) for P = Add or Mul precedence: a factor, provided the item's own
   precedence is not strictly between (a bare product or p/q inside a negative product) *)
Lemma paren_mul_fac e P : Good false e -> (P = P_ADD \/ P = P_MUL) ->
  ((precf false e <= P)%Z \/ ((60 <= precf false e)%Z /\ recip e = false)) ->
  FacTok (paren P (Tk false e, precf false e)) (V false e) (D e).
Proof.
  intros G HP Hc. unfold paren. simpl. destruct (precf false e <=? P)%Z eqn:E.
  - apply AtomTok_FacTok, ExprTok_paren, g_expr; auto.
  - apply Z.leb_gt in E. destruct Hc as [Hc|[Hc Hr]]; [lia|]. apply g_fac; auto.
Qed.

(* ------------------------------------------------------------------ leaves *)
Lemma num_atom z d : (0 <= z)%Z -> AtomTok (num_tokens z) (fun _ _ => IZR z) d.
Proof.
  intros Hz. unfold num_tokens. destruct (z <? 0)%Z eqn:E; [apply Z.ltb_lt in E; lia|].
  split; [reflexivity|]. intros rest _. exists (PNum (Z.to_N z)). split; [apply PA_num|].
  intros tab rho _. simpl. rewrite Z2N.id by lia. reflexivity.
Qed.

Lemma num_neg_toks z : (z < 0)%Z -> num_tokens z = TMinus :: num_tokens (- z).
Proof.
  intros Hz. unfold num_tokens. destruct (z <? 0)%Z eqn:E; [|apply Z.ltb_ge in E; lia].
  destruct (- z <? 0)%Z eqn:E2; [apply Z.ltb_lt in E2; lia|]. reflexivity.
Qed.

Lemma Lin_ext ts v v' d : Lin ts v d -> (forall tab rho, d rho -> v tab rho = v' tab rho) -> Lin ts v' d.
Proof.
  intros [Hm H] E. split; auto. intros rest Hr. destruct (H rest Hr) as (a1 & r1 & K & HF & HC & HV).
  exists a1, r1, K. split; auto. split; auto. intros. rewrite HV by auto. auto.
Qed.
Lemma AtomTok_ext ts v v' d : AtomTok ts v d -> (forall tab rho, d rho -> v tab rho = v' tab rho) -> AtomTok ts v' d.
Proof.
  intros [Hm H] E. split; auto. intros rest Hr. destruct (H rest Hr) as (a & Ha & Hv). exists a. split; auto.
  eapply SemEq_ext; eauto.
Qed.
Lemma FacTok_ext ts v v' d : FacTok ts v d -> (forall tab rho, d rho -> v tab rho = v' tab rho) -> FacTok ts v' d.
Proof.
  intros [Hm H] E. split; auto. intros rest Hr. destruct (H rest Hr) as (a & Ha & Hv). exists a. split; auto.
  eapply SemEq_ext; eauto.
Qed.
Lemma TermTok_ext ts v v' d : TermTok ts v d -> (forall tab rho, d rho -> v tab rho = v' tab rho) -> TermTok ts v' d.
Proof.
  intros [Hm H] E. split; auto. intros rest Hr. destruct (H rest Hr) as (a & Ha & Hv). exists a. split; auto.
  eapply SemEq_ext; eauto.
Qed.

Lemma Good_int flip z : Good flip (SInt z).
Proof.
  set (z' := if flip then (- z)%Z else z).
  assert (HV : forall tab rho, V flip (SInt z) tab rho = IZR z').
  { intros. unfold V, z'. destruct flip; simpl; [rewrite opp_IZR|]; reflexivity. }
  destruct (Z_lt_ge_dec z' 0) as [Hn|Hp].
  - apply Good_neg with (body := num_tokens (- z')).
    + unfold precf. fold z'. simpl. destruct (z' <? 0)%Z eqn:E; [unfold P_ADD; lia | apply Z.ltb_ge in E; lia].
    + unfold Tk. simpl. fold z'. apply num_neg_toks; auto.
    + apply FacTok_Lin, AtomTok_FacTok. eapply AtomTok_ext; [apply num_atom; lia|].
      intros. unfold negV. rewrite HV. rewrite opp_IZR. reflexivity.
  - apply Good_atom. unfold Tk. simpl. fold z'. eapply AtomTok_ext; [apply num_atom; lia|].
    intros. rewrite HV. reflexivity.
Qed.

Lemma rat_Lin p q d : (0 <= p)%Z -> (0 <= q)%Z ->
  Lin (num_tokens p ++ [TSlash] ++ num_tokens q) (fun _ _ => IZR p / IZR q) d.
Proof.
  intros Hp Hq.
  pose proof (muldiv_Lin (num_tokens p, fun _ _ => IZR p) [] [(num_tokens q, fun _ _ => IZR q)] d) as H.
  simpl in H. eapply Lin_ext; [apply H|].
  - constructor; [|constructor]. apply AtomTok_FacTok, num_atom; auto.
  - constructor; [|constructor]. apply AtomTok_FacTok, num_atom; auto.
  - intros. simpl. unfold Rdiv. rewrite !Rmult_1_r. reflexivity.
Qed.

Lemma Good_rat flip p q : (2 <= q)%Z -> Good flip (SRat p q).
Proof.
  intros Hq. set (p' := if flip then (- p)%Z else p).
  assert (HV : forall tab rho, V flip (SRat p q) tab rho = IZR p' / IZR q).
  { intros. unfold V, p'. destruct flip; simpl; [rewrite opp_IZR; unfold Rdiv; ring|]; reflexivity. }
  destruct (Z_lt_ge_dec p' 0) as [Hn|Hp].
  - apply Good_neg with (body := num_tokens (- p') ++ [TSlash] ++ num_tokens q).
    + unfold precf. fold p'. simpl. destruct (p' <? 0)%Z eqn:E; [unfold P_ADD; lia | apply Z.ltb_ge in E; lia].
    + unfold Tk. simpl. fold p'. rewrite num_neg_toks by auto. reflexivity.
    + eapply Lin_ext; [apply rat_Lin; lia|]. intros. unfold negV. rewrite HV. rewrite opp_IZR. unfold Rdiv. ring.
  - apply Good_term.
    + unfold precf. fold p'. simpl. destruct (p' <? 0)%Z; unfold P_ADD, P_MUL; lia.
    + apply Lin_TermTok. unfold Tk. simpl. fold p'. eapply Lin_ext; [apply rat_Lin; lia|].
      intros. rewrite HV. reflexivity.
Qed.

Lemma name_atom s (v : Val) (d : Dfn) : (forall (tab : table) rho, d rho -> (if String.eqb s "E" then exp 1 else rho s) = v tab rho) ->
  AtomTok [TName s] v d.
Proof.
  intros H. split; [reflexivity|]. intros rest Hr. exists (PName s). split; [apply PA_name; auto|].
  intros tab rho Hd. simpl. auto.
Qed.

Lemma Good_sym s : String.eqb s "E" = false -> Good false (SSym s).
Proof.
  intros Hs. apply Good_atom. unfold Tk. simpl. apply name_atom. intros. rewrite Hs. reflexivity.
Qed.

Lemma Good_E : Good false SE.
Proof. apply Good_atom. unfold Tk. simpl. apply name_atom. intros. reflexivity. Qed.

(* ------------------------------------------------------------------ calls *)
Lemma p_expr_bad f ts : (ts = [] \/ exists r, ts = TRp :: r) -> p_expr f ts = None.
Proof.
  intros H. destruct f as [|[|[|[|[|f]]]]]; simpl; auto;
    destruct H as [->|[r ->]]; simpl; auto.
Qed.

Lemma PE_hd ts a r : PE ts a r -> hd_not (fun t => match t with TRp => true | _ => false end) ts /\ ts <> [].
Proof.
  intros H. apply Ev_some in H. destruct H as [f H].
  destruct ts as [|t ts].
  - rewrite p_expr_bad in H by auto. discriminate.
  - split; [|discriminate]. destruct t; simpl; auto. rewrite p_expr_bad in H by eauto. discriminate.
Qed.

Lemma call1_atom fn ts (v : Val) d : ExprTok ts v d ->
  AtomTok ([TName fn; TLp] ++ ts ++ [TRp]) (fun tab rho => apply_fun tab fn [v tab rho]) d.
Proof.
  intros H. split; [reflexivity|]. intros rest Hr.
  destruct (H (TRp :: rest) (ok_rp rest)) as (a & Ha & Hv).
  exists (PCall fn [a]). split.
  - simpl. rewrite <- app_assoc. simpl. apply PA_call.
    + destruct (PE_hd _ _ _ Ha) as [Hh Hn]. exact Hh.
    + apply PArgs_one. exact Ha.
  - intros tab rho Hd. change (peval tab rho (PCall fn [a])) with (apply_fun tab fn [peval tab rho a]).
    rewrite Hv by auto. reflexivity.
Qed.

Lemma ok_comma r : okE (TComma :: r).
Proof. reflexivity. Qed.

Lemma call2_atom fn t1 t2 (v1 v2 : Val) d : ExprTok t1 v1 d -> ExprTok t2 v2 d ->
  AtomTok ([TName fn; TLp] ++ t1 ++ [TComma] ++ t2 ++ [TRp]) (fun tab rho => apply_fun tab fn [v1 tab rho; v2 tab rho]) d.
Proof.
  intros H1 H2. split; [reflexivity|]. intros rest Hr.
  destruct (H2 (TRp :: rest) (ok_rp rest)) as (a2 & Ha2 & Hv2).
  destruct (H1 (TComma :: t2 ++ TRp :: rest) (ok_comma _)) as (a1 & Ha1 & Hv1).
  exists (PCall fn [a1; a2]). split.
  - replace (([TName fn; TLp] ++ t1 ++ [TComma] ++ t2 ++ [TRp]) ++ rest)
      with (TName fn :: TLp :: (t1 ++ TComma :: t2 ++ TRp :: rest))
      by (simpl; rewrite <- !app_assoc; simpl; rewrite <- !app_assoc; reflexivity).
    apply PA_call.
    + destruct (PE_hd _ _ _ Ha1) as [Hh Hn]. exact Hh.
    + eapply PArgs_cons; [exact Ha1|]. apply PArgs_one. exact Ha2.
  - intros tab rho Hd. change (peval tab rho (PCall fn [a1; a2])) with (apply_fun tab fn [peval tab rho a1; peval tab rho a2]).
    rewrite Hv1, Hv2 by auto. reflexivity.
Qed.

Lemma AtomTok_ExprTok ts v d : AtomTok ts v d -> ExprTok ts v d.
Proof. intros H. apply TermTok_ExprTok, FacTok_TermTok, AtomTok_FacTok, H. Qed.

Lemma known_fun_cases name : known_fun name = true ->
  name = "log"%string \/ name = "exp"%string \/ name = "sin"%string \/ name = "cos"%string \/ name = "Abs"%string.
Proof.
  unfold known_fun. intros H. repeat (apply orb_true_iff in H; destruct H as [H|H]);
    apply String.eqb_eq in H; auto 6.
Qed.

Lemma defined_fun1 rho name a : defined rho (SFun name [a]) <->
  defined rho a /\ (if String.eqb name "log" then 0 < sem rho a else True).
Proof. simpl. tauto. Qed.

Lemma Good_fun name a : known_fun name = true -> Good false a -> Good false (SFun name [a]).
Proof.
  intros Hk Ga. apply Good_atom. unfold Tk. simpl.
  change (TName name :: TLp :: pr false false a ++ [TRp]) with ([TName name; TLp] ++ Tk false a ++ [TRp]).
  pose proof (call1_atom name _ _ _ (g_expr _ _ Ga)) as H.
  destruct H as [Hm H]. split; auto. intros rest Hr. destruct (H rest Hr) as (t & Ht & Hv).
  exists t. split; auto. intros tab rho Hd. unfold D in Hd. apply defined_fun1 in Hd. destruct Hd as [Hda Hl].
  rewrite Hv by exact Hda. unfold V. simpl.
  destruct (known_fun_cases _ Hk) as [->|[->|[->|[->| ->]]]]; simpl in *; auto.
  destruct tab; auto. rewrite Rabs_pos by auto. reflexivity.
Qed.

(* ------------------------------------------------------------------ powers *)
Lemma okP_rp r : okP (TRp :: r). Proof. reflexivity. Qed.
Lemma okT_rp r : okT (TRp :: r). Proof. reflexivity. Qed.

Lemma int_exp_fac z rest : okP rest ->
  exists a, PF (paren P_POW (num_tokens z, prec (SInt z)) ++ rest) a rest /\ int_literal a = Some z.
Proof.
  intros Hr. unfold paren, num_tokens, prec, fst, snd. destruct (z <? 0)%Z eqn:E.
  - apply Z.ltb_lt in E. simpl. exists (PNeg (PNum (Z.to_N (- z)))). split.
    + apply PA_PF; [reflexivity| |exact Hr]. apply PA_paren.
      apply PT_PE; [|apply ok_rp]. apply PF_PT; [|apply okT_rp].
      apply PF_neg. apply PA_PF; [reflexivity|apply PA_num|apply okP_rp].
    + simpl. rewrite Z2N.id by lia. f_equal. lia.
  - apply Z.ltb_ge in E. simpl. exists (PNum (Z.to_N z)). split.
    + apply PA_PF; [reflexivity|apply PA_num|exact Hr].
    + simpl. rewrite Z2N.id by lia. reflexivity.
Qed.

Lemma ok_pow r : okA (TPow :: r). Proof. reflexivity. Qed.

Lemma pow_int_fac pb (vb : Val) z d : AtomTok pb vb d ->
  FacTok (pb ++ [TPow] ++ paren P_POW (num_tokens z, prec (SInt z))) (fun tab rho => powerRZ (vb tab rho) z) d.
Proof.
  intros [Hm Hb]. split.
  - destruct pb; simpl in *; tauto.
  - intros rest Hr. destruct (int_exp_fac z rest Hr) as (ae & Hae & Hlit).
    destruct (Hb (TPow :: paren P_POW (num_tokens z, prec (SInt z)) ++ rest) (ok_pow _)) as (ab & Hab & Hvb).
    exists (PBin OPow ab ae). split.
    + rewrite <- app_assoc. apply PF_power; [apply nm_app; auto|].
      eapply PP_pow; [exact Hab|]. simpl. exact Hae.
    + intros tab rho Hd. simpl. rewrite Hlit. rewrite Hvb by auto. reflexivity.
Qed.

Lemma one_atom d : AtomTok [TNum 1%N] (fun _ _ => 1) d.
Proof. exact (num_atom 1 d ltac:(lia)). Qed.

(* 1/den  as a chain *)
Lemma recip_Lin td (vd : Val) d : FacTok td vd d -> Lin ([TNum 1%N; TSlash] ++ td) (fun tab rho => 1 / vd tab rho) d.
Proof.
  intros H.
  pose proof (muldiv_Lin ([TNum 1%N], fun _ _ => 1) [] [(td, vd)] d) as HL. simpl in HL.
  eapply Lin_ext; [apply HL|].
  - constructor; [|constructor]. apply AtomTok_FacTok, one_atom.
  - constructor; [|constructor]. exact H.
  - intros. simpl. unfold Rdiv. rewrite !Rmult_1_r. reflexivity.
Qed.

Definition pow_val (sh : eshape) (vb ve : Val) (z : Z) : Val :=
  fun tab rho =>
  match sh with
  | EHalf => apply_fun tab "sqrt" [vb tab rho]
  | ENegHalf => 1 / apply_fun tab "sqrt" [vb tab rho]
  | ENegOne => 1 / vb tab rho
  | EInt => powerRZ (vb tab rho) z
  | EOther => apply_fun tab "pow" [vb tab rho; ve tab rho]
  end.

(* every shape of _print_Pow is at least a term; the non-reciprocal ones are factors.
   te/pe/z describe the exponent as printed: for EInt it is the integer literal z. *)
Lemma pow_assemble_Lin sh tb pb te pe (vb ve : Val) z d :
  ExprTok tb vb d -> AtomTok (paren P_POW (tb, pb)) vb d ->
  (sh = EInt -> te = num_tokens z /\ pe = prec (SInt z)) ->
  (sh = EOther -> AtomTok (paren P_POW (te, pe)) ve d) ->
  Lin (pow_assemble sh (tb, pb) (te, pe)) (pow_val sh vb ve z) d /\
  (match sh with ENegHalf | ENegOne => True | _ => FacTok (pow_assemble sh (tb, pb) (te, pe)) (pow_val sh vb ve z) d end).
Proof.
  intros Hbe Hba Hint Hoth. destruct sh; unfold pow_assemble, pow_val; cbn [fst snd].
  - assert (H : AtomTok ([TName "sqrt"; TLp] ++ tb ++ [TRp]) (fun tab rho => apply_fun tab "sqrt" [vb tab rho]) d)
      by (apply call1_atom; auto).
    split; [apply FacTok_Lin|]; apply AtomTok_FacTok; exact H.
  - split; auto.
    change ([TNum 1%N; TSlash; TName "sqrt"; TLp] ++ tb ++ [TRp]) with ([TNum 1%N; TSlash] ++ ([TName "sqrt"; TLp] ++ tb ++ [TRp])).
    apply (recip_Lin _ (fun tab rho => apply_fun tab "sqrt" [vb tab rho])).
    apply AtomTok_FacTok, call1_atom; auto.
  - split; auto. apply recip_Lin. apply AtomTok_FacTok; auto.
  - destruct (Hint eq_refl) as [-> ->].
    assert (H : FacTok (paren P_POW (tb, pb) ++ [TPow] ++ paren P_POW (num_tokens z, prec (SInt z)))
                       (fun tab rho => powerRZ (vb tab rho) z) d) by (apply pow_int_fac; auto).
    split; [apply FacTok_Lin|]; exact H.
  - assert (H : AtomTok ([TName "pow"; TLp] ++ paren P_POW (tb, pb) ++ [TComma] ++ paren P_POW (te, pe) ++ [TRp])
                        (fun tab rho => apply_fun tab "pow" [vb tab rho; ve tab rho]) d).
    { apply call2_atom; apply AtomTok_ExprTok; auto. }
    split; [apply FacTok_Lin|]; apply AtomTok_FacTok; exact H.
Qed.

(* ------------------------------------------------------------------ weakening of the definedness condition *)
Definition sub (d' d : Dfn) : Prop := forall rho, d' rho -> d rho.

Lemma SemEq_mono a v d d' : SemEq a v d -> sub d' d -> SemEq a v d'.
Proof. intros H S tab rho Hd. apply H, S, Hd. Qed.
Lemma ExprTok_mono ts v d d' : ExprTok ts v d -> sub d' d -> ExprTok ts v d'.
Proof. intros H S rest Hr. destruct (H rest Hr) as (a & Ha & Hv). exists a. split; auto. eapply SemEq_mono; eauto. Qed.
Lemma AtomTok_mono ts v d d' : AtomTok ts v d -> sub d' d -> AtomTok ts v d'.
Proof. intros [Hm H] S. split; auto. intros rest Hr. destruct (H rest Hr) as (a & Ha & Hv). exists a. split; auto. eapply SemEq_mono; eauto. Qed.
Lemma FacTok_mono ts v d d' : FacTok ts v d -> sub d' d -> FacTok ts v d'.
Proof. intros [Hm H] S. split; auto. intros rest Hr. destruct (H rest Hr) as (a & Ha & Hv). exists a. split; auto. eapply SemEq_mono; eauto. Qed.
Lemma TermTok_mono ts v d d' : TermTok ts v d -> sub d' d -> TermTok ts v d'.
Proof. intros [Hm H] S. split; auto. intros rest Hr. destruct (H rest Hr) as (a & Ha & Hv). exists a. split; auto. eapply SemEq_mono; eauto. Qed.
Lemma Lin_mono ts v d d' : Lin ts v d -> sub d' d -> Lin ts v d'.
Proof.
  intros [Hm H] S. split; auto. intros rest Hr. destruct (H rest Hr) as (a1 & r1 & K & HF & HC & HV).
  exists a1, r1, K. split; auto. split.
  - intros acc. destruct (HC acc) as (b & Hb & Hbv). exists b. split; auto.
  - intros. apply HV. auto.
Qed.

Lemma precf_false e : precf false e = prec e.
Proof. destruct e; simpl; auto. destruct neg; reflexivity. Qed.

(* ------------------------------------------------------------------ Pow nodes *)
Definition exp_int (flipx : bool) (ex : sexpr) : Z :=
  match ex with SInt z => if flipx then (- z)%Z else z | _ => 0%Z end.

Lemma pow_general b ex flipx d :
  Good false b -> Good flipx ex -> sub d (D b) -> sub d (D ex) ->
  let sh := eshape_of flipx ex in
  let ts := pow_assemble sh (Tk false b, prec b) (Tk flipx ex, precf flipx ex) in
  let v := pow_val sh (V false b) (V flipx ex) (exp_int flipx ex) in
  Lin ts v d /\ (match sh with ENegHalf | ENegOne => True | _ => FacTok ts v d end).
Proof.
  intros Gb Gx Sb Sx sh ts v. apply pow_assemble_Lin.
  - eapply ExprTok_mono; [apply g_expr; exact Gb | exact Sb].
  - eapply AtomTok_mono; [|exact Sb]. rewrite <- (precf_false b). apply paren_pow_atom. exact Gb.
  - intros Hsh. unfold sh in Hsh. destruct ex; simpl in Hsh; try discriminate.
    + unfold Tk, exp_int, precf. simpl. split; reflexivity.
    + destruct ((if flipx then (- p)%Z else p) =? 1)%Z, (q =? 2)%Z, ((if flipx then (- p)%Z else p) =? -1)%Z; discriminate.
  - intros _. eapply AtomTok_mono; [|exact Sx]. apply paren_pow_atom. exact Gx.
Qed.

Lemma eshape_int flipx ex : eshape_of flipx ex = EInt -> exists z, ex = SInt z /\ exp_int flipx ex <> (-1)%Z.
Proof.
  destruct ex; simpl; try discriminate.
  - intros H. exists z. split; auto. destruct ((if flipx then (- z)%Z else z) =? -1)%Z eqn:E; [discriminate|].
    apply Z.eqb_neq in E. exact E.
  - destruct ((if flipx then (- p)%Z else p) =? 1)%Z, (q =? 2)%Z, ((if flipx then (- p)%Z else p) =? -1)%Z; discriminate.
Qed.

Lemma eshape_negone flipx ex : eshape_of flipx ex = ENegOne -> exists z, ex = SInt z /\ exp_int flipx ex = (-1)%Z.
Proof.
  destruct ex; simpl; try discriminate.
  - intros H. exists z. split; auto. destruct ((if flipx then (- z)%Z else z) =? -1)%Z eqn:E; [|discriminate].
    apply Z.eqb_eq in E. exact E.
  - destruct ((if flipx then (- p)%Z else p) =? 1)%Z, (q =? 2)%Z, ((if flipx then (- p)%Z else p) =? -1)%Z; discriminate.
Qed.

Lemma eshape_half flipx ex : eshape_of flipx ex = EHalf -> exists p, ex = SRat p 2 /\ (if flipx then (- p)%Z else p) = 1%Z.
Proof.
  destruct ex; simpl; try discriminate.
  - destruct ((if flipx then (- z)%Z else z) =? -1)%Z; discriminate.
  - destruct ((if flipx then (- p)%Z else p) =? 1)%Z eqn:E1, (q =? 2)%Z eqn:E2; simpl.
    + intros _. apply Z.eqb_eq in E1, E2. subst q. exists p. auto.
    + destruct ((if flipx then (- p)%Z else p) =? -1)%Z; discriminate.
    + destruct ((if flipx then (- p)%Z else p) =? -1)%Z; discriminate.
    + destruct ((if flipx then (- p)%Z else p) =? -1)%Z; discriminate.
Qed.

Lemma eshape_neghalf flipx ex : eshape_of flipx ex = ENegHalf -> exists p, ex = SRat p 2 /\ (if flipx then (- p)%Z else p) = (-1)%Z.
Proof.
  destruct ex; simpl; try discriminate.
  - destruct ((if flipx then (- z)%Z else z) =? -1)%Z; discriminate.
  - destruct ((if flipx then (- p)%Z else p) =? 1)%Z eqn:E1; destruct (q =? 2)%Z eqn:E2; simpl; try discriminate;
      destruct ((if flipx then (- p)%Z else p) =? -1)%Z eqn:E3; simpl; try discriminate.
    intros _. apply Z.eqb_eq in E2, E3. subst q. exists p. auto.
Qed.

Lemma eshape_other_notint flipx ex : eshape_of flipx ex = EOther -> forall z, ex <> SInt z.
Proof.
  intros H z ->. simpl in H. destruct ((if flipx then (- z)%Z else z) =? -1)%Z; discriminate.
Qed.

Lemma defined_pow rho b ex : defined rho (SPow b ex) ->
  defined rho b /\ defined rho ex /\ ((forall z, ex <> SInt z) -> 0 < sem rho b).
Proof.
  simpl. intros (Hb & Hx & Hc). split; auto. split; auto. intros Hn.
  destruct ex; auto. exfalso. eapply Hn. reflexivity.
Qed.

Lemma sem_pow_nonint rho b ex : (forall z, ex <> SInt z) -> sem rho (SPow b ex) = Rpower (sem rho b) (sem rho ex).
Proof. intros Hn. destruct ex; try reflexivity. exfalso. eapply Hn. reflexivity. Qed.

Lemma sem_pow_int rho b z : sem rho (SPow b (SInt z)) = powerRZ (sem rho b) z.
Proof. reflexivity. Qed.

Lemma sqrt_tab tab x : 0 < x -> apply_fun tab "sqrt" [x] = sqrt x.
Proof. intros Hx. destruct tab; simpl; auto. rewrite Rabs_pos by auto. reflexivity. Qed.

Lemma pow_tab tab x w : 0 < x -> apply_fun tab "pow" [x; w] = Rpower x w.
Proof. intros Hx. simpl. rewrite Rabs_pos by auto. reflexivity. Qed.

Lemma pow_val_eq b ex flipx tab rho :
  defined rho (SPow b ex) -> (flipx = true -> negexp ex = true) ->
  pow_val (eshape_of flipx ex) (V false b) (V flipx ex) (exp_int flipx ex) tab rho =
  if flipx then / sem rho (SPow b ex) else sem rho (SPow b ex).
Proof.
  intros Hd Hneg. destruct (defined_pow _ _ _ Hd) as (Hdb & Hdx & Hpos).
  unfold pow_val. change (V false b tab rho) with (sem rho b).
  destruct (eshape_of flipx ex) eqn:E.
  - destruct (eshape_half _ _ E) as (p & -> & Hp).
    assert (Hx : 0 < sem rho b) by (apply Hpos; discriminate).
    rewrite sqrt_tab by auto. rewrite sem_pow_nonint by discriminate. simpl sem.
    destruct flipx.
    + assert (p = -1)%Z by lia. subst p. rewrite Rpower_neghalf by auto.
      unfold Rdiv. rewrite Rmult_1_l. rewrite Rinv_inv. reflexivity.
    + subst p. rewrite Rpower_half by auto. reflexivity.
  - destruct (eshape_neghalf _ _ E) as (p & -> & Hp).
    assert (Hx : 0 < sem rho b) by (apply Hpos; discriminate).
    rewrite sqrt_tab by auto. destruct flipx.
    + assert (p = 1)%Z by lia. subst p. specialize (Hneg eq_refl). discriminate.
    + subst p. rewrite sem_pow_nonint by discriminate. simpl sem. rewrite Rpower_neghalf by auto. reflexivity.
  - destruct (eshape_negone _ _ E) as (z & -> & Hz). simpl in Hz. destruct flipx.
    + assert (z = 1)%Z by lia. subst z. specialize (Hneg eq_refl). discriminate.
    + subst z. rewrite sem_pow_int. rewrite powerRZ_m1. unfold Rdiv. rewrite Rmult_1_l. reflexivity.
  - destruct (eshape_int _ _ E) as (z & -> & Hz). simpl exp_int. rewrite sem_pow_int. destruct flipx.
    + specialize (Hneg eq_refl). simpl in Hneg. apply Z.ltb_lt in Hneg.
      rewrite (powerRZ_neg_inv _ z) by auto. rewrite Rinv_inv. reflexivity.
    + reflexivity.
  - pose proof (eshape_other_notint _ _ E) as Hn.
    assert (Hx : 0 < sem rho b) by (apply Hpos; auto).
    rewrite pow_tab by auto. rewrite sem_pow_nonint by auto. unfold V. destruct flipx.
    + rewrite Rpower_Ropp. reflexivity.
    + reflexivity.
Qed.

Lemma D_pow_b b ex : sub (D (SPow b ex)) (D b).
Proof. intros rho H. apply defined_pow in H. tauto. Qed.
Lemma D_pow_x b ex : sub (D (SPow b ex)) (D ex).
Proof. intros rho H. apply defined_pow in H. tauto. Qed.

Lemma pow_nm sh tb pb te pe : nm (paren P_POW (tb, pb)) -> nm (pow_assemble sh (tb, pb) (te, pe)).
Proof. intros H. destruct sh; simpl; auto. destruct (paren P_POW (tb, pb)); simpl in *; tauto. Qed.

Lemma Good_pow b ex : Good false b -> Good false ex -> Good false (SPow b ex).
Proof.
  intros Gb Gx.
  destruct (pow_general b ex false (D (SPow b ex)) Gb Gx (D_pow_b b ex) (D_pow_x b ex)) as [HL HF].
  rewrite precf_false in *.
  assert (HV : forall tab rho, D (SPow b ex) rho ->
             pow_val (eshape_of false ex) (V false b) (V false ex) (exp_int false ex) tab rho = V false (SPow b ex) tab rho).
  { intros tab rho Hd. rewrite pow_val_eq by (auto; discriminate). reflexivity. }
  constructor.
  - apply TermTok_ExprTok, Lin_TermTok. eapply Lin_ext; [exact HL|exact HV].
  - intros _ _. left. apply Lin_TermTok. eapply Lin_ext; [exact HL|exact HV].
  - intros _ _ Hr. unfold recip in Hr. unfold Tk. simpl pr. fold (Tk false b). fold (Tk false ex).
    destruct (eshape_of false ex); try discriminate; (eapply FacTok_ext; [exact HF|exact HV]).
  - unfold precf. simpl. unfold P_POW. lia.
Qed.

(* ------------------------------------------------------------------ Add nodes *)
Definition TermInfo (tk : list token) (v : Val) (d : Dfn) : Prop :=
  TermTok tk v d \/ exists body, tk = TMinus :: body /\ Lin body (negV v) d.

Fixpoint sumV (l : list Val) : Val :=
  fun tab rho => match l with [] => 0 | v :: r => v tab rho + sumV r tab rho end.

Lemma split_sign_nm tk : nm tk -> split_sign tk = (false, tk).
Proof. destruct tk as [|t tk]; simpl; [tauto|]. destruct t; simpl; try reflexivity. discriminate. Qed.

Definition add_items (l : list (list token * Val)) := map (fun tv : list token * Val => add_item (fst tv, false)) l.

Lemma okT_addtail l rest : okE rest -> okT (add_tail false (add_items l) ++ rest).
Proof.
  intros Hr. destruct l as [|[tk v] l]; simpl.
  - apply okE_okT; auto.
  - unfold add_item. simpl. destruct (split_sign tk) as [s body]. simpl. destruct s; reflexivity.
Qed.

Lemma add_chain d l : Forall (fun tv => TermInfo (fst tv) (snd tv) d) l -> forall rest, okE rest -> forall acc,
  exists b, PER acc (add_tail false (add_items l) ++ rest) b rest /\
            forall tab rho, d rho -> peval tab rho b = peval tab rho acc + sumV (map snd l) tab rho.
Proof.
  induction 1 as [|[tk v] l Hx Hl IH]; intros rest Hr acc.
  - simpl. exists acc. split.
    + apply PER_stop. destruct rest as [|t r]; simpl in *; auto. unfold badE in Hr. apply orb_false_iff in Hr. tauto.
    + intros. ring.
  - pose proof (okT_addtail l rest Hr) as Hok. simpl in Hx.
    destruct Hx as [[Hm HT]|(body & -> & HL)].
    + destruct (HT _ Hok) as (a & Ha & Hv).
      destruct (IH rest Hr (PBin OAdd acc a)) as (b & Hb & Hbv). exists b. split.
      * simpl. unfold add_item. simpl. rewrite split_sign_nm by auto. simpl. rewrite <- app_assoc.
        eapply PER_add; eauto.
      * intros tab rho Hd. rewrite Hbv by auto. simpl. rewrite Hv by auto. ring.
    + destruct (Lin_TermTok _ _ _ HL) as [Hm HT].
      destruct (HT _ Hok) as (a & Ha & Hv).
      destruct (IH rest Hr (PBin OSub acc a)) as (b & Hb & Hbv). exists b. split.
      * simpl. rewrite <- app_assoc. eapply PER_sub; eauto.
      * intros tab rho Hd. rewrite Hbv by auto. simpl. rewrite Hv by auto. unfold negV. ring.
Qed.

Lemma add_join_expr d x l : Forall (fun tv => TermInfo (fst tv) (snd tv) d) (x :: l) ->
  ExprTok (add_join false (map (fun tv : list token * Val => (fst tv, false)) (x :: l))) (sumV (map snd (x :: l))) d.
Proof.
  intros HF rest Hr. inversion HF as [|? ? Hx Hl]; subst.
  pose proof (okT_addtail l rest Hr) as Hok.
  unfold add_join. simpl map. rewrite map_map. fold (add_items l).
  destruct x as [tk v]. simpl in Hx. destruct Hx as [[Hm HT]|(body & -> & HL)].
  - destruct (HT _ Hok) as (a & Ha & Hv).
    destruct (add_chain d l Hl rest Hr a) as (b & Hb & Hbv). exists b. split.
    + unfold add_item. simpl. rewrite split_sign_nm by auto. simpl. rewrite <- app_assoc.
      eapply PE_intro; eauto.
    + intros tab rho Hd. rewrite Hbv by auto. simpl. rewrite Hv by auto. reflexivity.
  - destruct (Lin_neg _ _ _ _ HL Hok) as (a & Ha & Hv).
    destruct (add_chain d l Hl rest Hr a) as (b & Hb & Hbv). exists b. split.
    + simpl. rewrite <- app_assoc. eapply PE_intro; eauto.
    + intros tab rho Hd. rewrite Hbv by auto. simpl. rewrite Hv by auto. unfold negV. ring.
Qed.

Lemma defined_add rho ts : defined rho (SAdd ts) <-> Forall (defined rho) ts.
Proof.
  simpl. induction ts as [|t ts IH]; simpl.
  - split; auto.
  - rewrite IH. split; [intros [H1 H2]; constructor; auto | intros H; inversion H; auto].
Qed.
Lemma defined_mul rho neg fs : defined rho (SMul neg fs) <-> Forall (defined rho) fs.
Proof.
  simpl. induction fs as [|t ts IH]; simpl.
  - split; auto.
  - rewrite IH. split; [intros [H1 H2]; constructor; auto | intros H; inversion H; auto].
Qed.

Lemma sumV_sem ts tab rho : sumV (map (V false) ts) tab rho = sem rho (SAdd ts).
Proof. simpl. induction ts as [|t ts IH]; simpl; auto. rewrite IH. reflexivity. Qed.

Lemma Tk_add ts : Forall (fun t => is_add t = false) ts ->
  Tk false (SAdd ts) =
  add_join false (map (fun tv : list token * Val => (fst tv, false)) (map (fun t => (Tk false t, V false t)) ts)).
Proof.
  intros HF. unfold Tk at 1. cbn [pr]. f_equal. rewrite map_map. apply map_ext_in. intros t Hin. simpl.
  rewrite Forall_forall in HF. rewrite (HF t Hin). reflexivity.
Qed.

Lemma Good_add ts : ts <> [] -> Forall (fun t => Good false t /\ is_add t = false) ts -> Good false (SAdd ts).
Proof.
  intros Hne HF. constructor.
  - destruct ts as [|t0 ts]; [congruence|].
    assert (HI : Forall (fun tv : list token * Val => TermInfo (fst tv) (snd tv) (D (SAdd (t0 :: ts))))
                        (map (fun t => (Tk false t, V false t)) (t0 :: ts))).
    { apply Forall_forall. intros tv Hin. apply in_map_iff in Hin. destruct Hin as (t & <- & Hin).
      rewrite Forall_forall in HF. destruct (HF t Hin) as [G Ha]. simpl.
      assert (S : sub (D (SAdd (t0 :: ts))) (D t)).
      { intros rho Hd. unfold D in Hd. apply defined_add in Hd. rewrite Forall_forall in Hd. apply Hd. auto. }
      destruct (g_term _ _ G eq_refl Ha) as [HT|(body & Hb & HL)].
      - left. eapply TermTok_mono; eauto.
      - right. exists body. split; auto. eapply Lin_mono; eauto. }
    rewrite Tk_add by (eapply Forall_impl; [|exact HF]; simpl; tauto).
    remember (t0 :: ts) as l eqn:El.
    assert (HE : ExprTok (add_join false (map (fun tv : list token * Val => (fst tv, false)) (map (fun t => (Tk false t, V false t)) l)))
                         (sumV (map snd (map (fun t => (Tk false t, V false t)) l))) (D (SAdd l))).
    { subst l. apply (add_join_expr _ (Tk false t0, V false t0) (map (fun t => (Tk false t, V false t)) ts)). exact HI. }
    intros rest Hr. destruct (HE rest Hr) as (a & Ha & Hv). exists a. split; auto.
    intros tab rho Hd. rewrite Hv by auto. rewrite map_map. simpl snd.
    change (sumV (map (fun x => V false x) l) tab rho) with (sumV (map (V false) l) tab rho).
    rewrite sumV_sem. reflexivity.
  - intros _ H. simpl in H. discriminate.
  - intros _. unfold precf. simpl. unfold P_ADD. lia.
  - unfold precf. simpl. unfold P_ADD. lia.
Qed.

(* ------------------------------------------------------------------ Mul nodes: one ordered factor *)
Definition okPm (P : Z) : Prop := P = P_ADD \/ P = P_MUL.

Definition wrapped (P : Z) (pw : (list token * Z) * bool) : list token :=
  let s := paren P (fst pw) in if snd pw then [TLp] ++ s ++ [TRp] else s.

Definition ItemGood (f : sexpr) : Prop :=
  match item_of Tk f with
  | MNum pt => forall P, okPm P -> FacTok (paren P pt) (V false f) (D f)
  | MDen pt w => exists vd : Val, (forall P, okPm P -> FacTok (wrapped P (pt, w)) vd (D f)) /\
                                  forall tab rho, D f rho -> V false f tab rho = / vd tab rho
  | MRat p q => forall tab rho, V false f tab rho = IZR p / IZR q
  end.

Lemma negexp_shape ex : negexp ex = true ->
  match eshape_of true ex with ENegHalf | ENegOne => False | _ => True end.
Proof.
  destruct ex; simpl; try discriminate; auto.
  - intros H. apply Z.ltb_lt in H. destruct (- z =? -1)%Z eqn:E; auto. apply Z.eqb_eq in E. lia.
  - intros H. apply Z.ltb_lt in H. destruct ((- p =? 1)%Z && (q =? 2)%Z); auto.
    destruct (- p =? -1)%Z eqn:E; simpl; auto. apply Z.eqb_eq in E. lia.
Qed.

Lemma recip_negexp b ex : recip (SPow b ex) = true -> negexp ex = true.
Proof.
  unfold recip. destruct (eshape_of false ex) eqn:E; try discriminate; intros _.
  - destruct (eshape_neghalf _ _ E) as (p & -> & Hp). subst p. reflexivity.
  - destruct (eshape_negone _ _ E) as (z & -> & Hz). simpl in Hz. subst z. reflexivity.
Qed.

Lemma base_prec_ok b P : okPm P -> is_mul_or_pow b = false -> is_rat b = false ->
  (prec b <= P)%Z \/ ((60 <= prec b)%Z /\ recip b = false).
Proof.
  intros HP Hm Hr. unfold okPm, P_ADD, P_MUL in HP.
  destruct b; simpl in *; try discriminate; unfold P_ADD, P_MUL, P_FUNC, P_ATOM.
  - left. lia.
  - destruct (z <? 0)%Z; [left; lia | right; split; [lia|reflexivity]].
  - right; split; [lia|reflexivity].
  - right; split; [lia|reflexivity].
  - right; split; [lia|reflexivity].
  - right; split; [lia|reflexivity].
Qed.

Lemma ItemGood_pow b ex :
  Good false b -> Good false ex -> (negexp ex = true -> Good true ex) ->
  factor_ok (SPow b ex) = true -> ItemGood (SPow b ex).
Proof.
  intros Gb Gx Gxt Hok. pose proof (Good_pow b ex Gb Gx) as Gp.
  unfold ItemGood, item_of. unfold factor_ok in Hok. simpl in Hok.
  destruct (negexp ex) eqn:En.
  - destruct (eshape_of false ex) eqn:Es.
    + (* general denominator *)
      destruct (is_unit_frac b) eqn:Eu; [discriminate|].
      destruct (pow_general b ex true (D (SPow b ex)) Gb (Gxt eq_refl) (D_pow_b b ex) (D_pow_x b ex)) as [_ HF].
      pose proof (negexp_shape ex En) as Hsh.
      exists (pow_val (eshape_of true ex) (V false b) (V true ex) (exp_int true ex)). split.
      * intros P [-> | ->]; unfold wrapped, paren; simpl;
          destruct (eshape_of true ex); try tauto; exact HF.
      * intros tab rho Hd. rewrite pow_val_eq by auto. rewrite Rinv_inv. reflexivity.
    + destruct (is_unit_frac b) eqn:Eu; [discriminate|].
      destruct (pow_general b ex true (D (SPow b ex)) Gb (Gxt eq_refl) (D_pow_b b ex) (D_pow_x b ex)) as [_ HF].
      pose proof (negexp_shape ex En) as Hsh.
      exists (pow_val (eshape_of true ex) (V false b) (V true ex) (exp_int true ex)). split.
      * intros P [-> | ->]; unfold wrapped, paren; simpl;
          destruct (eshape_of true ex); try tauto; exact HF.
      * intros tab rho Hd. rewrite pow_val_eq by auto. rewrite Rinv_inv. reflexivity.
    + (* x**-1: the base goes to the denominator *)
      destruct (eshape_negone _ _ Es) as (z & -> & Hz). simpl in Hz. subst z.
      exists (V false b). split.
      * intros P HP. unfold wrapped. cbn [fst snd].
        destruct (is_mul_or_pow b) eqn:Emp.
        -- apply AtomTok_FacTok, ExprTok_paren. eapply ExprTok_mono; [|apply D_pow_b].
           unfold paren. cbn [fst snd]. destruct (prec b <=? P)%Z.
           ++ apply AtomTok_ExprTok, ExprTok_paren, g_expr, Gb.
           ++ apply g_expr, Gb.
        -- eapply FacTok_mono; [|apply D_pow_b]. rewrite <- (precf_false b). apply paren_mul_fac; auto.
           rewrite precf_false. apply base_prec_ok; auto.
           destruct (is_rat b); [discriminate|reflexivity].
      * intros tab rho Hd. unfold V. rewrite sem_pow_int. rewrite powerRZ_m1. reflexivity.
    + destruct (is_unit_frac b) eqn:Eu; [discriminate|].
      destruct (pow_general b ex true (D (SPow b ex)) Gb (Gxt eq_refl) (D_pow_b b ex) (D_pow_x b ex)) as [_ HF].
      pose proof (negexp_shape ex En) as Hsh.
      exists (pow_val (eshape_of true ex) (V false b) (V true ex) (exp_int true ex)). split.
      * intros P [-> | ->]; unfold wrapped, paren; simpl;
          destruct (eshape_of true ex); try tauto; exact HF.
      * intros tab rho Hd. rewrite pow_val_eq by auto. rewrite Rinv_inv. reflexivity.
    + destruct (is_unit_frac b) eqn:Eu; [discriminate|].
      destruct (pow_general b ex true (D (SPow b ex)) Gb (Gxt eq_refl) (D_pow_b b ex) (D_pow_x b ex)) as [_ HF].
      pose proof (negexp_shape ex En) as Hsh.
      exists (pow_val (eshape_of true ex) (V false b) (V true ex) (exp_int true ex)). split.
      * intros P [-> | ->]; unfold wrapped, paren; simpl;
          destruct (eshape_of true ex); try tauto; exact HF.
      * intros tab rho Hd. rewrite pow_val_eq by auto. rewrite Rinv_inv. reflexivity.
  - (* numerator *)
    intros P HP.
    assert (Hr : recip (SPow b ex) = false).
    { destruct (recip (SPow b ex)) eqn:Er; auto. apply recip_negexp in Er. congruence. }
    pose proof (g_fac _ _ Gp eq_refl ltac:(unfold precf; simpl; unfold P_POW; lia) Hr) as HF.
    unfold paren. cbn [fst snd]. destruct (P_POW <=? P)%Z eqn:E.
    + apply Z.leb_le in E. destruct HP as [-> | ->]; unfold P_POW, P_ADD, P_MUL in E; lia.
    + exact HF.
Qed.

Lemma ItemGood_other f : Good false f -> is_mul f = false -> (forall b ex, f <> SPow b ex) -> ItemGood f.
Proof.
  intros G Hm Hp. unfold ItemGood.
  assert (Hgen : (prec f <= P_ADD)%Z \/ (70 <= prec f)%Z ->
                 forall P, okPm P -> FacTok (paren P (Tk false f, prec f)) (V false f) (D f)).
  { intros Hc P HP. rewrite <- (precf_false f). apply paren_mul_fac; auto. rewrite precf_false.
    destruct Hc as [Hc|Hc].
    - left. destruct HP as [-> | ->]; unfold P_ADD, P_MUL in *; lia.
    - right. split; [lia|]. destruct f; try reflexivity. exfalso. eapply Hp. reflexivity. }
  destruct f; cbv beta iota delta [item_of]; try discriminate.
  - apply Hgen. left. simpl. lia.
  - exfalso. eapply Hp. reflexivity.
  - intros tab rho. unfold V. simpl. unfold Rdiv. rewrite Rinv_1. ring.
  - intros tab rho. reflexivity.
  - apply Hgen. right. simpl. unfold P_ATOM. lia.
  - apply Hgen. right. simpl. unfold P_FUNC. lia.
  - apply Hgen. right. simpl. unfold P_ATOM. lia.
  - apply Hgen. right. simpl. unfold P_ATOM. lia.
Qed.

Lemma num_fac P z d : okPm P -> FacTok (paren P (num_tokens z, prec (SInt z))) (fun _ _ => IZR z) d.
Proof.
  intros HP. pose proof (paren_mul_fac (SInt z) P (Good_int false z) HP) as H.
  eapply FacTok_mono; [apply H|].
  - unfold precf, prec. destruct (z <? 0)%Z.
    + left. destruct HP as [-> | ->]; unfold P_ADD, P_MUL; lia.
    + right. split; [unfold P_ATOM; lia|reflexivity].
  - intros rho _. exact I.
Qed.

Definition constV (x : R) : Val := fun _ _ => x.

Lemma items_split P d fs : okPm P ->
  Forall (fun f => ItemGood f /\ sub d (D f)) fs ->
  exists la lb : list (list token * Val),
    map fst la = map (paren P) (mul_a (map (item_of Tk) fs)) /\ FTs la d /\
    map fst lb = map (wrapped P) (mul_b (map (item_of Tk) fs)) /\ FTs lb d /\
    forall tab rho, d rho ->
      prodV (map (V false) fs) tab rho = prodV (map snd la) tab rho * / prodV (map snd lb) tab rho.
Proof.
  intros HP. induction 1 as [|f fs [HI HS] _ IH].
  - exists [], []. simpl. repeat split; try constructor. intros. rewrite Rinv_1. ring.
  - destruct IH as (la & lb & Ea & Fa & Eb & Fb & Hprod).
    unfold ItemGood in HI. simpl map. destruct (item_of Tk f) as [pt|pt w|p q] eqn:Ei.
    + exists ((paren P pt, V false f) :: la), lb. simpl. rewrite Ea. repeat split; auto.
      * constructor; auto. simpl. eapply FacTok_mono; [apply HI; auto|exact HS].
      * intros tab rho Hd. rewrite Hprod by auto. ring.
    + destruct HI as (vd & HF & Hv).
      exists la, ((wrapped P (pt, w), vd) :: lb). simpl. rewrite Eb. repeat split; auto.
      * constructor; auto. simpl. eapply FacTok_mono; [apply HF; auto|exact HS].
      * intros tab rho Hd. change (sem rho f) with (V false f tab rho).
        rewrite Hprod by auto. rewrite Hv by (apply HS; auto). rewrite Rinv_mult. ring.
    + exists ((if (p =? 1)%Z then [] else [(paren P (num_tokens p, prec (SInt p)), constV (IZR p))]) ++ la),
             ((if (q =? 1)%Z then [] else [(wrapped P ((num_tokens q, prec (SInt q)), false), constV (IZR q))]) ++ lb).
      simpl mul_a. simpl mul_b. rewrite !map_app.
      rewrite Ea, Eb. repeat split.
      * destruct (p =? 1)%Z; reflexivity.
      * apply Forall_app. split; auto. destruct (p =? 1)%Z; constructor; [|constructor]. simpl. apply num_fac; auto.
      * destruct (q =? 1)%Z; reflexivity.
      * apply Forall_app. split; auto. destruct (q =? 1)%Z; constructor; [|constructor]. simpl.
        unfold wrapped. simpl. apply num_fac; auto.
      * intros tab rho Hd. change (prodV (V false f :: map (V false) fs) tab rho) with (V false f tab rho * prodV (map (V false) fs) tab rho).
        rewrite Hprod by auto. rewrite HI.
        destruct (p =? 1)%Z eqn:E1; destruct (q =? 1)%Z eqn:E2; simpl;
          try (apply Z.eqb_eq in E1; subst p); try (apply Z.eqb_eq in E2; subst q);
          unfold Rdiv, constV; try rewrite Rinv_1; try rewrite Rinv_mult; ring.
Qed.

(* ------------------------------------------------------------------ Mul nodes: the assembled product *)
Definition mul_body (P : Z) (items : list mitem) : list token :=
  let a := match mul_a items with [] => [([TNum 1%N], P_ATOM)] | a0 :: ar => a0 :: ar end in
  join [TStar] (map (paren P) a) ++ den_toks (map (wrapped P) (mul_b items)).

Lemma mul_assemble_body neg items :
  mul_assemble neg items = (if neg then [TMinus] else []) ++ mul_body (if neg then P_ADD else P_MUL) items.
Proof. reflexivity. Qed.

Lemma mul_body_Lin P d fs : okPm P ->
  Forall (fun f => ItemGood f /\ sub d (D f)) fs ->
  Lin (mul_body P (map (item_of Tk) fs)) (prodV (map (V false) fs)) d.
Proof.
  intros HP HF. destruct (items_split P d fs HP HF) as (la & lb & Ea & Fa & Eb & Fb & Hprod).
  unfold mul_body. rewrite <- Eb.
  destruct (mul_a (map (item_of Tk) fs)) as [|a0 ar] eqn:Ema.
  - destruct la; [|discriminate].
    assert (Hone : paren P ([TNum 1%N], P_ATOM) = [TNum 1%N]).
    { unfold paren. simpl. destruct HP as [-> | ->]; reflexivity. }
    simpl map. rewrite Hone.
    pose proof (muldiv_Lin ([TNum 1%N], constV 1) [] lb d) as H. simpl map in H.
    eapply Lin_ext; [apply H; auto|].
    + constructor; [|constructor]. apply AtomTok_FacTok. exact (one_atom d).
    + intros tab rho Hd. rewrite Hprod by auto. simpl. unfold constV. ring.
  - destruct la as [|x la]; [discriminate|].
    rewrite <- Ea.
    eapply Lin_ext; [apply muldiv_Lin; auto|].
    intros tab rho Hd. rewrite Hprod by auto. reflexivity.
Qed.

Lemma prodV_sem fs tab rho : prodV (map (V false) fs) tab rho = prod_list (map (sem rho) fs).
Proof. induction fs as [|f fs IH]; simpl; auto. rewrite IH. reflexivity. Qed.

Lemma D_mul_sub neg fs : Forall (fun f => sub (D (SMul neg fs)) (D f)) fs.
Proof.
  apply Forall_forall. intros f Hin rho Hd. unfold D in Hd. apply defined_mul in Hd.
  rewrite Forall_forall in Hd. apply Hd. exact Hin.
Qed.

Lemma items_for neg fs : Forall ItemGood fs ->
  Forall (fun f => ItemGood f /\ sub (D (SMul neg fs)) (D f)) fs.
Proof.
  intros H. pose proof (D_mul_sub neg fs) as H2. rewrite Forall_forall in *. intros f Hin. split; auto.
Qed.

Lemma Tk_mul_false neg fs : Tk false (SMul neg fs) = mul_assemble neg (map (item_of Tk) fs).
Proof. destruct neg; reflexivity. Qed.

Lemma Good_mul_false neg fs : Forall ItemGood fs -> Good false (SMul neg fs).
Proof.
  intros HI. pose proof (items_for neg fs HI) as HF.
  destruct neg.
  - pose proof (mul_body_Lin P_ADD _ fs (or_introl eq_refl) HF) as HL.
    apply Good_neg with (body := mul_body P_ADD (map (item_of Tk) fs)).
    + unfold precf. simpl. unfold P_ADD. lia.
    + rewrite Tk_mul_false, mul_assemble_body. reflexivity.
    + eapply Lin_ext; [exact HL|]. intros tab rho Hd. rewrite prodV_sem. unfold negV, V. simpl. ring.
  - pose proof (mul_body_Lin P_MUL _ fs (or_intror eq_refl) HF) as HL.
    apply Good_term.
    + unfold precf. simpl. unfold P_MUL. lia.
    + rewrite Tk_mul_false, mul_assemble_body. simpl app. apply Lin_TermTok.
      eapply Lin_ext; [exact HL|]. intros tab rho Hd. rewrite prodV_sem. unfold V. simpl. ring.
Qed.

Lemma Good_mul_true fs : fs <> [] -> Forall ItemGood fs -> (forall f, fs = [f] -> Good false f) ->
  Good true (SMul true fs).
Proof.
  intros Hne HI Hs. destruct fs as [|f [|f2 fs]]; [congruence| |].
  - (* -f : the negated exponent is f itself *)
    pose proof (Hs f eq_refl) as G.
    assert (S : sub (D (SMul true [f])) (D f)).
    { pose proof (D_mul_sub true [f]) as H. inversion H; auto. }
    assert (HV : forall tab rho, V false f tab rho = V true (SMul true [f]) tab rho).
    { intros. unfold V. simpl. ring. }
    constructor.
    + change (Tk true (SMul true [f])) with (Tk false f).
      intros rest Hr. destruct (g_expr _ _ G rest Hr) as (a & Ha & Hv). exists a. split; auto.
      intros tab rho Hd. rewrite Hv by (apply S; auto). apply HV.
    + intros H; discriminate.
    + intros H; discriminate.
    + intros Hp. change (Tk true (SMul true [f])) with (Tk false f).
      change (precf true (SMul true [f])) with (prec f) in Hp. rewrite <- precf_false in Hp.
      eapply AtomTok_ext; [eapply AtomTok_mono; [apply (g_atom _ _ G Hp)|exact S]|]. intros. apply HV.
  - pose proof (items_for true _ HI) as HF.
    pose proof (mul_body_Lin P_MUL _ _ (or_intror eq_refl) HF) as HL.
    assert (HT : TermTok (Tk true (SMul true (f :: f2 :: fs))) (V true (SMul true (f :: f2 :: fs))) (D (SMul true (f :: f2 :: fs)))).
    { change (Tk true (SMul true (f :: f2 :: fs))) with (mul_assemble false (map (item_of Tk) (f :: f2 :: fs))).
      rewrite mul_assemble_body. simpl app. apply Lin_TermTok.
      eapply Lin_ext; [exact HL|]. intros tab rho Hd. rewrite prodV_sem. unfold V. simpl. ring. }
    constructor.
    + apply TermTok_ExprTok. exact HT.
    + intros H; discriminate.
    + intros H; discriminate.
    + unfold precf. simpl. unfold P_MUL. lia.
Qed.

(* ------------------------------------------------------------------ the mutual induction *)
Definition P_all (e : sexpr) : Prop :=
  wf e = true -> Good false e /\ (negexp e = true -> Good true e) /\ (factor_ok e = true -> ItemGood e).

Lemma forallb_Forall {A} (p : A -> bool) l : forallb p l = true -> Forall (fun x => p x = true) l.
Proof. intros H. apply Forall_forall. apply forallb_forall. exact H. Qed.

Theorem good_all : forall e, P_all e.
Proof.
  induction e using sexpr_ind'; red; intros Hwf.
  - (* Add *)
    simpl in Hwf. apply andb_true_iff in Hwf. destruct Hwf as [Hne Hall].
    apply forallb_Forall in Hall.
    assert (G : Good false (SAdd ts)).
    { apply Good_add.
      - destruct ts; [discriminate|congruence].
      - rewrite Forall_forall in *. intros t Hin. specialize (H t Hin). specialize (Hall t Hin). simpl in Hall.
        apply andb_true_iff in Hall. destruct Hall as [Hw Ha]. destruct (H Hw) as (G & _). split; auto.
        destruct (is_add t); [discriminate|reflexivity]. }
    split; auto. split; [simpl; discriminate|]. intros _. apply ItemGood_other; auto. intros b ex; discriminate.
  - (* Mul *)
    simpl in Hwf. apply andb_true_iff in Hwf. destruct Hwf as [Hne Hall].
    apply forallb_Forall in Hall.
    assert (HI : Forall ItemGood fs).
    { rewrite Forall_forall in *. intros f Hin. specialize (H f Hin). specialize (Hall f Hin). simpl in Hall.
      apply andb_true_iff in Hall. destruct Hall as [Hw Hf]. destruct (H Hw) as (_ & _ & HIg). auto. }
    split; [apply Good_mul_false; auto|]. split.
    + simpl. intros ->. apply Good_mul_true; auto.
      * destruct fs; [discriminate|congruence].
      * intros f ->. inversion H; subst. simpl in Hall. inversion Hall; subst.
        apply andb_true_iff in H4. destruct H4 as [Hw _]. destruct (H2 Hw) as (G & _). exact G.
    + unfold factor_ok. simpl. discriminate.
  - (* Pow *)
    simpl in Hwf. apply andb_true_iff in Hwf. destruct Hwf as [Hwb Hwx].
    destruct (IHe1 Hwb) as (Gb & _ & _). destruct (IHe2 Hwx) as (Gx & Gxt & _).
    split; [apply Good_pow; auto|]. split; [simpl; discriminate|].
    intros Hok. apply ItemGood_pow; auto.
  - (* Int *)
    split; [apply Good_int|]. split; [intros _; apply Good_int|]. intros _.
    apply ItemGood_other; [apply Good_int|reflexivity|intros b ex; discriminate].
  - (* Rat *)
    simpl in Hwf. apply Z.leb_le in Hwf.
    split; [apply Good_rat; auto|]. split; [intros _; apply Good_rat; auto|]. intros _.
    apply ItemGood_other; [apply Good_rat; auto|reflexivity|intros b ex; discriminate].
  - (* Sym *)
    simpl in Hwf. assert (Hs : String.eqb s "E" = false) by (destruct (String.eqb s "E"); [discriminate|reflexivity]).
    split; [apply Good_sym; auto|]. split; [simpl; discriminate|]. intros _.
    apply ItemGood_other; [apply Good_sym; auto|reflexivity|intros b ex; discriminate].
  - (* Fun *)
    simpl in Hwf. apply andb_true_iff in Hwf. destruct Hwf as [Hk Ha].
    destruct args as [|a [|a2 args]]; try discriminate.
    inversion H; subst. destruct (H2 Ha) as (Ga & _).
    assert (G : Good false (SFun s [a])) by (apply Good_fun; auto).
    split; auto. split; [simpl; discriminate|]. intros _.
    apply ItemGood_other; [auto|reflexivity|intros b ex; discriminate].
  - (* E *)
    split; [apply Good_E|]. split; [simpl; discriminate|]. intros _.
    apply ItemGood_other; [apply Good_E|reflexivity|intros b ex; discriminate].
  - discriminate.
Qed.

(* ------------------------------------------------------------------ the theorems of C12 (token level) *)

(* parenthesisation adequacy, level by level: whatever follows (rest), provided it does not start with a
   token that would continue the production at that level, the printed tokens of e are consumed exactly
   and the tree has e's value wherever e is defined *)
Theorem parse_print_level e : wf e = true ->
  (forall rest, okE rest -> exists a, PE (toks e ++ rest) a rest /\ SemEq a (V false e) (D e)) /\
  (is_add e = false -> forall rest, okT rest ->
     (exists a, PT (toks e ++ rest) a rest /\ SemEq a (V false e) (D e)) \/
     (exists body a, toks e = TMinus :: body /\ PT (body ++ rest) a rest /\ SemEq a (negV (V false e)) (D e))) /\
  ((60 <= prec e)%Z -> recip e = false -> forall rest, okP rest ->
     exists a, PF (toks e ++ rest) a rest /\ SemEq a (V false e) (D e)) /\
  ((70 <= prec e)%Z -> forall rest, okA rest ->
     exists a, PA (toks e ++ rest) a rest /\ SemEq a (V false e) (D e)).
Proof.
  intros Hwf. destruct (good_all e Hwf) as (G & _ & _). repeat split.
  - apply (g_expr _ _ G).
  - intros Ha rest Hr. destruct (g_term _ _ G eq_refl Ha) as [[_ HT]|(body & Hb & HL)].
    + left. apply HT; auto.
    + right. destruct (Lin_TermTok _ _ _ HL) as [_ HT]. destruct (HT rest Hr) as (a & Ha' & Hv).
      exists body, a. auto.
  - intros Hp Hr. rewrite <- precf_false in Hp. destruct (g_fac _ _ G eq_refl Hp Hr) as [_ HF]. exact HF.
  - intros Hp. rewrite <- precf_false in Hp. destruct (g_atom _ _ G Hp) as [_ HA]. exact HA.
Qed.

Theorem parse_print e : wf e = true ->
  exists a, parse_tokens (toks e) = Some a /\
            forall tab rho, defined rho e -> peval tab rho a = sem rho e.
Proof.
  intros Hwf. destruct (good_all e Hwf) as (G & _ & _).
  destruct (g_expr _ _ G [] I) as (a & Ha & Hv). rewrite app_nil_r in Ha.
  exists a. split.
  - apply parse_tokens_complete. exact Ha.
  - intros tab rho Hd. apply Hv. exact Hd.
Qed.

(* ================================================================== string level *)
(* ------------------------------------------------------------------ spaces: strip (pr true) = pr false *)
Close Scope R_scope.

Lemma strip_app a b : strip (a ++ b) = strip a ++ strip b.
Proof. induction a as [|t a IH]; simpl; auto. destruct t; simpl; rewrite IH; reflexivity. Qed.

Definition nosp_hd (ts : list token) : Prop := match ts with TSp :: _ => False | _ => True end.

Lemma strip_num z : strip (num_tokens z) = num_tokens z.
Proof. unfold num_tokens. destruct (z <? 0)%Z; reflexivity. Qed.
Lemma nosp_num z : nosp_hd (num_tokens z).
Proof. unfold num_tokens. destruct (z <? 0)%Z; exact I. Qed.

Lemma strip_paren L ts p : strip (paren L (ts, p)) = paren L (strip ts, p).
Proof. unfold paren. simpl. destruct (p <=? L)%Z; auto. simpl. rewrite strip_app. reflexivity. Qed.
Lemma nosp_paren L ts p : nosp_hd ts -> nosp_hd (paren L (ts, p)).
Proof. unfold paren. simpl. destruct (p <=? L)%Z; auto. intros _. exact I. Qed.

Lemma strip_join sep l : strip (join sep l) = join (strip sep) (map strip l).
Proof.
  induction l as [|x l IH]; simpl; auto. destruct l as [|y l]; auto.
  rewrite !strip_app. rewrite IH. reflexivity.
Qed.

Lemma nosp_app a b : a <> [] -> nosp_hd a -> nosp_hd (a ++ b).
Proof. destruct a; simpl; auto. congruence. Qed.

Lemma strip_pow sh tb pb te pe :
  strip (pow_assemble sh (tb, pb) (te, pe)) = pow_assemble sh (strip tb, pb) (strip te, pe).
Proof.
  destruct sh; simpl; rewrite ?strip_app; simpl; rewrite ?strip_app, ?strip_paren; simpl;
    rewrite ?strip_paren; reflexivity.
Qed.
Lemma nosp_pow sh tb pb te pe : nosp_hd tb -> nosp_hd (pow_assemble sh (tb, pb) (te, pe)).
Proof.
  intros H. destruct sh; simpl; auto.
  pose proof (nosp_paren P_POW tb pb H) as Hp. destruct (paren P_POW (tb, pb)); simpl in *; auto.
Qed.

Definition strip_item (it : mitem) : mitem :=
  match it with
  | MNum pt => MNum (strip (fst pt), snd pt)
  | MDen pt w => MDen (strip (fst pt), snd pt) w
  | MRat p q => MRat p q
  end.
Definition strip_pt (pt : list token * Z) : list token * Z := (strip (fst pt), snd pt).

Lemma mul_a_strip l : mul_a (map strip_item l) = map strip_pt (mul_a l).
Proof.
  induction l as [|it l IH]; simpl; auto. destruct it as [pt|pt w|p q]; simpl; rewrite IH; auto.
  destruct (p =? 1)%Z; simpl; auto. unfold strip_pt. simpl. rewrite strip_num. reflexivity.
Qed.
Lemma mul_b_strip l : mul_b (map strip_item l) = map (fun pw => (strip_pt (fst pw), snd pw)) (mul_b l).
Proof.
  induction l as [|it l IH]; simpl; auto. destruct it as [pt|pt w|p q]; simpl; rewrite IH; auto.
  destruct (q =? 1)%Z; simpl; auto. unfold strip_pt. simpl. rewrite strip_num. reflexivity.
Qed.

Lemma strip_den l : strip (den_toks l) = den_toks (map strip l).
Proof.
  destruct l as [|d1 [|d2 l]]; try reflexivity.
  unfold den_toks. cbn [map]. rewrite !strip_app. rewrite strip_join. reflexivity.
Qed.

Lemma strip_wrapped P pw : strip (wrapped P pw) = wrapped P (strip_pt (fst pw), snd pw).
Proof.
  destruct pw as [[t p] w]. unfold wrapped. simpl. destruct w; simpl; rewrite ?strip_app, ?strip_paren; reflexivity.
Qed.

Lemma strip_mul_body P l : strip (mul_body P l) = mul_body P (map strip_item l).
Proof.
  unfold mul_body. rewrite mul_a_strip, mul_b_strip. rewrite strip_app. f_equal.
  - rewrite strip_join. simpl strip. f_equal. destruct (mul_a l) as [|[t p] ar].
    + cbn [map]. rewrite strip_paren. reflexivity.
    + cbn [map]. rewrite strip_paren. f_equal. rewrite !map_map. apply map_ext. intros [t2 p2]. rewrite strip_paren. reflexivity.
  - rewrite strip_den. f_equal. rewrite !map_map. apply map_ext. intros pw. apply strip_wrapped.
Qed.

Lemma strip_mul_assemble neg l : strip (mul_assemble neg l) = mul_assemble neg (map strip_item l).
Proof.
  rewrite !mul_assemble_body. rewrite strip_app. rewrite strip_mul_body. destruct neg; reflexivity.
Qed.

(* ------------------------------------------------------------------ token adjacency of the printed list *)
Definition endp (p : pend) (ts : list token) : pend := fold_left (fun _ t => pend_of t) ts p.

Lemma endp_app p a b : endp p (a ++ b) = endp (endp p a) b.
Proof. unfold endp. apply fold_left_app. Qed.
Lemma endp_nonempty p q a : a <> [] -> endp p a = endp q a.
Proof. destruct a as [|t a]; [congruence|]. intros _. reflexivity. Qed.

Lemma adj_app p a b : adj p (a ++ b) = adj p a && adj (endp p a) b.
Proof.
  revert p. induction a as [|t a IH]; intros p; simpl; auto.
  rewrite IH. rewrite andb_assoc. reflexivity.
Qed.

Lemma adj_star_any q ts : adj QStar ts = true -> (q = QNone \/ q = QStar) -> adj q ts = true.
Proof.
  intros H [-> | ->]; auto. destruct ts as [|t ts]; auto. simpl in *.
  apply andb_true_iff in H. destruct H as [H H2]. apply andb_true_iff in H. destruct H as [H0 H1].
  rewrite H1, H2. reflexivity.
Qed.

Definition Q0 (ts : list token) : Prop :=
  ts <> [] /\ nosp_hd ts /\ adj QStar ts = true /\ endp QNone ts <> QStar.
Definition drop_minus (ts : list token) : list token := match ts with TMinus :: r => r | _ => ts end.
Definition Qs (ts : list token) : Prop := Q0 ts /\ Q0 (drop_minus ts).

Definition sepok (m : list token) : Prop :=
  m <> [] /\ (forall q, q <> QStar -> adj q m = true) /\ (endp QNone m = QNone \/ endp QNone m = QStar).
Definition postok (m : list token) : Prop :=
  (forall q, q <> QStar -> adj q m = true) /\ (m = [] \/ endp QNone m <> QStar).

Lemma Q0_post a post : Q0 a -> postok post -> Q0 (a ++ post).
Proof.
  intros (Hne & Hsp & Hadj & Hend) (Hp & Hpe). repeat split.
  - destruct a; [congruence|discriminate].
  - apply nosp_app; auto.
  - rewrite adj_app, Hadj. simpl. apply Hp. rewrite (endp_nonempty QStar QNone) by auto. exact Hend.
  - rewrite endp_app. destruct Hpe as [-> | Hpe]; [simpl; exact Hend|].
    destruct post as [|t post]; [simpl; exact Hend|]. rewrite (endp_nonempty _ QNone) by discriminate. exact Hpe.
Qed.

Lemma Q0_cat a m b : Q0 a -> sepok m -> Q0 b -> Q0 (a ++ m ++ b).
Proof.
  intros Ha (Hmne & Hm & Hme) (Hbne & Hbsp & Hbadj & Hbend). apply Q0_post; auto. split.
  - intros q Hq. rewrite adj_app, (Hm q Hq). simpl. apply adj_star_any; auto.
    rewrite (endp_nonempty q QNone) by auto. tauto.
  - right. rewrite endp_app. rewrite (endp_nonempty _ QNone) by auto. exact Hbend.
Qed.

Lemma Q0_pre pre a : pre <> [] -> nosp_hd pre -> adj QStar pre = true ->
  (endp QNone pre = QNone \/ endp QNone pre = QStar) -> Q0 a -> Q0 (pre ++ a).
Proof.
  intros Hne Hsp Hadj He (Hane & Hasp & Haadj & Haend). repeat split.
  - destruct pre; [congruence|discriminate].
  - apply nosp_app; auto.
  - rewrite adj_app, Hadj. simpl. apply adj_star_any; auto. rewrite (endp_nonempty QStar QNone) by auto. tauto.
  - rewrite endp_app. rewrite (endp_nonempty _ QNone) by auto. exact Haend.
Qed.

Lemma Qs_Q0 ts : Qs ts -> Q0 ts. Proof. intros [H _]; exact H. Qed.

Lemma drop_minus_app a b : a <> [] -> drop_minus (a ++ b) = drop_minus a ++ b.
Proof. destruct a as [|t a]; [congruence|]. intros _. destruct t; reflexivity. Qed.

Lemma Qs_post a post : Qs a -> postok post -> Qs (a ++ post).
Proof.
  intros [H1 H2] Hp. split; [apply Q0_post; auto|].
  rewrite drop_minus_app by (destruct H1; auto). apply Q0_post; auto.
Qed.
Lemma Qs_cat a m b : Qs a -> sepok m -> Q0 b -> Qs (a ++ m ++ b).
Proof.
  intros [H1 H2] Hm Hb. split; [apply Q0_cat; auto|].
  rewrite drop_minus_app by (destruct H1; auto). apply Q0_cat; auto.
Qed.
Lemma Qs_pre pre a : pre <> [] -> nosp_hd pre -> adj QStar pre = true -> hd_not is_minus pre ->
  (endp QNone pre = QNone \/ endp QNone pre = QStar) -> Q0 a -> Qs (pre ++ a).
Proof.
  intros Hne Hsp Hadj Hm He Ha.
  assert (H : Q0 (pre ++ a)) by (apply Q0_pre; auto). split; auto.
  destruct pre as [|t pre]; [congruence|]. destruct t; simpl in Hm; try discriminate; exact H.
Qed.
Lemma Qs_neg a : Q0 a -> Qs (TMinus :: a).
Proof.
  intros Ha. split; [|exact Ha]. apply (Q0_pre [TMinus] a); auto; try discriminate; try exact I.
Qed.

(* concrete separators *)
Ltac sepok_tac := split; [discriminate|split; [intros q Hq; destruct q; try reflexivity; congruence | simpl; auto]].
Lemma sep_star : sepok [TStar]. Proof. sepok_tac. Qed.
Lemma sep_slash : sepok [TSlash]. Proof. sepok_tac. Qed.
Lemma sep_pow : sepok [TPow]. Proof. sepok_tac. Qed.
Lemma sep_comma : sepok [TComma]. Proof. sepok_tac. Qed.
Lemma sep_commasp : sepok [TComma; TSp]. Proof. sepok_tac. Qed.
Lemma sep_slashlp : sepok [TSlash; TLp]. Proof. sepok_tac. Qed.
Lemma sep_plus : sepok [TSp; TPlus; TSp]. Proof. sepok_tac. Qed.
Lemma sep_minus : sepok [TSp; TMinus; TSp]. Proof. sepok_tac. Qed.
Lemma post_rp : postok [TRp].
Proof. split; [intros q Hq; destruct q; try reflexivity; congruence | right; discriminate]. Qed.
Lemma post_nil : postok [].
Proof. split; [reflexivity | left; reflexivity]. Qed.

Lemma Qs_parens a : Q0 a -> Qs ([TLp] ++ a ++ [TRp]).
Proof.
  intros Ha. apply (Qs_pre [TLp]); auto; try discriminate; try exact I; try reflexivity.
  apply Q0_post; auto. apply post_rp.
Qed.

Lemma Qs_paren L ts p : Qs ts -> Qs (paren L (ts, p)).
Proof. intros H. unfold paren. simpl. destruct (p <=? L)%Z; auto. apply Qs_parens, Qs_Q0, H. Qed.

Lemma Qs_num z : Qs (num_tokens z).
Proof.
  unfold num_tokens. destruct (z <? 0)%Z.
  - apply Qs_neg. repeat split; try discriminate; exact I.
  - split; repeat split; try discriminate; exact I.
Qed.

Lemma Q0_join m l : sepok m -> l <> [] -> Forall Q0 l -> Q0 (join m l).
Proof.
  intros Hm Hne HF. induction HF as [|x l Hx Hl IH]; [congruence|].
  destruct l as [|y l]; [exact Hx|].
  change (join m (x :: y :: l)) with (x ++ m ++ join m (y :: l)). apply Q0_cat; auto. apply IH. discriminate.
Qed.
Lemma Qs_join m x l : sepok m -> Qs x -> Forall Q0 l -> Qs (join m (x :: l)).
Proof.
  intros Hm Hx Hl. destruct l as [|y l]; [exact Hx|].
  change (join m (x :: y :: l)) with (x ++ m ++ join m (y :: l)). apply Qs_cat; auto.
  apply Q0_join; auto. discriminate.
Qed.

Lemma Qs_pow sh tb pb te pe : Qs tb -> Qs te -> Qs (pow_assemble sh (tb, pb) (te, pe)).
Proof.
  intros Hb He. pose proof (Qs_paren P_POW tb pb Hb) as Hpb. pose proof (Qs_paren P_POW te pe He) as Hpe.
  destruct sh; unfold pow_assemble; cbn [fst snd].
  - apply (Qs_pre [TName "sqrt"; TLp]); try discriminate; try exact I; try reflexivity; auto.
    apply Q0_post; [apply Qs_Q0; auto|apply post_rp].
  - apply (Qs_pre [TNum 1%N; TSlash; TName "sqrt"; TLp]); try discriminate; try exact I; try reflexivity; auto.
    apply Q0_post; [apply Qs_Q0; auto|apply post_rp].
  - apply (Qs_pre [TNum 1%N; TSlash]); try discriminate; try exact I; try reflexivity; auto. apply Qs_Q0; auto.
  - apply Qs_cat; auto. apply sep_pow. apply Qs_Q0; auto.
  - apply (Qs_pre [TName "pow"; TLp]); try discriminate; try exact I; try reflexivity; auto.
    apply Q0_cat; [apply Qs_Q0; auto|apply sep_comma|]. apply Q0_post; [apply Qs_Q0; auto|apply post_rp].
Qed.

Definition item_Qs (it : mitem) : Prop :=
  match it with MNum pt => Qs (fst pt) | MDen pt _ => Qs (fst pt) | MRat _ _ => True end.

Lemma mul_a_Qs l : Forall item_Qs l -> Forall (fun pt : list token * Z => Qs (fst pt)) (mul_a l).
Proof.
  induction 1 as [|it l Hi Hl IH]; simpl; auto. destruct it as [pt|pt w|p q]; simpl in *; auto.
  destruct (p =? 1)%Z; simpl; auto. constructor; auto. simpl. apply Qs_num.
Qed.
Lemma mul_b_Qs l : Forall item_Qs l -> Forall (fun pw : list token * Z * bool => Qs (fst (fst pw))) (mul_b l).
Proof.
  induction 1 as [|it l Hi Hl IH]; simpl; auto. destruct it as [pt|pt w|p q]; simpl in *; auto.
  destruct (q =? 1)%Z; simpl; auto. constructor; auto. simpl. apply Qs_num.
Qed.

Lemma Qs_wrapped P pw : Qs (fst (fst pw)) -> Qs (wrapped P pw).
Proof.
  destruct pw as [[t p] w]. simpl. intros H. unfold wrapped. cbn [fst snd].
  pose proof (Qs_paren P t p H) as Hp. destruct w; auto. apply Qs_parens, Qs_Q0, Hp.
Qed.

Lemma Qs_mul_body P l : Forall item_Qs l -> Qs (mul_body P l).
Proof.
  intros H. unfold mul_body.
  assert (Ha : exists x la, map (paren P) match mul_a l with [] => [([TNum 1%N], P_ATOM)] | a0 :: ar => a0 :: ar end = x :: la
                            /\ Qs x /\ Forall Q0 la).
  { pose proof (mul_a_Qs l H) as HA. destruct (mul_a l) as [|[t p] ar].
    - exists (paren P ([TNum 1%N], P_ATOM)), []. split; [reflexivity|]. split; [|constructor].
      apply Qs_paren. split; repeat split; try discriminate; exact I.
    - inversion HA as [|? ? H1 H2]; subst. exists (paren P (t, p)), (map (paren P) ar). split; [reflexivity|].
      split; [apply Qs_paren; auto|]. apply Forall_forall. intros y Hy. apply in_map_iff in Hy.
      destruct Hy as ([t2 p2] & <- & Hin). rewrite Forall_forall in H2. apply Qs_Q0, Qs_paren. apply (H2 _ Hin). }
  destruct Ha as (x & la & -> & Hx & Hla).
  pose proof (Qs_join [TStar] x la sep_star Hx Hla) as HJ.
  pose proof (mul_b_Qs l H) as HB.
  assert (HBw : Forall Qs (map (wrapped P) (mul_b l))).
  { apply Forall_forall. intros y Hy. apply in_map_iff in Hy. destruct Hy as (pw & <- & Hin).
    rewrite Forall_forall in HB. apply Qs_wrapped. apply (HB _ Hin). }
  destruct (map (wrapped P) (mul_b l)) as [|d1 [|d2 lb]].
  - simpl. rewrite app_nil_r. exact HJ.
  - change (den_toks [d1]) with ([TSlash] ++ d1). inversion HBw; subst. apply Qs_cat; auto. apply sep_slash. apply Qs_Q0; auto.
  - change (den_toks (d1 :: d2 :: lb)) with ([TSlash; TLp] ++ (join [TStar] (d1 :: d2 :: lb) ++ [TRp])).
    apply Qs_cat; auto. apply sep_slashlp. apply Q0_post; [|apply post_rp].
    apply Q0_join; [apply sep_star|discriminate|]. eapply Forall_impl; [|exact HBw]. intros a. apply Qs_Q0.
Qed.

Lemma Qs_mul_assemble neg l : Forall item_Qs l -> Qs (mul_assemble neg l).
Proof.
  intros H. rewrite mul_assemble_body. destruct neg; simpl app.
  - apply Qs_neg, Qs_Q0, Qs_mul_body, H.
  - apply Qs_mul_body, H.
Qed.

(* _print_Add *)
Lemma split_sign_drop t : snd (split_sign t) = drop_minus t.
Proof. destruct t as [|x r]; auto. destruct x; reflexivity. Qed.

Lemma add_item_Q0 tw : Qs (fst tw) -> Q0 (snd (add_item tw)).
Proof.
  destruct tw as [t w]. simpl. intros [H1 H2]. unfold add_item. simpl.
  pose proof (split_sign_drop t) as E. destruct (split_sign t) as [s body]. simpl in *. subst body.
  destruct w; auto. apply Qs_Q0, Qs_parens. exact H2.
Qed.

Lemma add_tail_Qs items : Forall (fun sb : bool * list token => Q0 (snd sb)) items ->
  forall a, Qs a -> Qs (a ++ add_tail true items).
Proof.
  induction 1 as [|[s body] items Hb Hi IH]; intros a Ha; simpl.
  - rewrite app_nil_r. exact Ha.
  - simpl in Hb.
    replace (a ++ TSp :: (if s then TMinus else TPlus) :: TSp :: body ++ add_tail true items)
      with ((a ++ [TSp; if s then TMinus else TPlus; TSp] ++ body) ++ add_tail true items)
      by (rewrite <- !app_assoc; reflexivity).
    apply IH. apply Qs_cat; auto. destruct s; [apply sep_minus|apply sep_plus].
Qed.

Lemma Qs_add_join l : l <> [] -> Forall (fun tw : list token * bool => Qs (fst tw)) l -> Qs (add_join true l).
Proof.
  intros Hne HF. destruct l as [|tw l]; [congruence|]. inversion HF as [|? ? H1 H2]; subst.
  unfold add_join. simpl map.
  assert (Hfirst : Qs ((if fst (add_item tw) then [TMinus] else []) ++ snd (add_item tw))).
  { pose proof (add_item_Q0 tw H1) as HQ. destruct tw as [t w]. unfold add_item in *. simpl in *.
    pose proof (split_sign_drop t) as E. destruct (split_sign t) as [s body] eqn:Es. simpl in *.
    destruct s.
    - apply Qs_neg. exact HQ.
    - simpl. destruct w; [apply Qs_parens; subst body; destruct H1; auto|].
      assert (Hbt : body = t) by (destruct t as [|x r]; [inversion Es; auto|destruct x; inversion Es; auto]).
      rewrite Hbt. exact H1. }
  destruct (add_item tw) as [s body]. simpl in Hfirst.
  rewrite app_assoc. apply add_tail_Qs; auto.
  apply Forall_forall. intros sb Hin. apply in_map_iff in Hin. destruct Hin as (tw2 & <- & Hin2).
  rewrite Forall_forall in H2. apply add_item_Q0. apply (H2 _ Hin2).
Qed.

Definition PrT (fl : bool) (x : sexpr) : list token := pr true fl x.

Definition R_all (e : sexpr) : Prop :=
  wf e = true -> names_ok e = true -> (forall flip, Qs (PrT flip e)) /\ item_Qs (item_of PrT e).

Lemma Qs_name s : ident_ok s = true -> Qs [TName s].
Proof.
  intros H. assert (Q0 [TName s]).
  { repeat split; try discriminate; try exact I. simpl. rewrite H. reflexivity. }
  split; auto.
Qed.

Theorem adjacency_all : forall e, R_all e.
Proof.
  induction e using sexpr_ind'; red; intros Hwf Hn.
  - (* Add *)
    simpl in Hwf, Hn. apply andb_true_iff in Hwf. destruct Hwf as [Hne Hall].
    apply forallb_Forall in Hall. apply forallb_Forall in Hn.
    assert (HQ : forall flip, Qs (PrT flip (SAdd ts))).
    { intros flip. unfold PrT. cbn [pr]. apply Qs_add_join.
      - destruct ts; [discriminate|discriminate].
      - apply Forall_forall. intros tw Hin. apply in_map_iff in Hin. destruct Hin as (t & <- & Hin). simpl.
        rewrite Forall_forall in *. specialize (Hall t Hin). simpl in Hall. apply andb_true_iff in Hall.
        destruct (H t Hin (proj1 Hall) (Hn t Hin)) as [HQ _]. apply (HQ false). }
    split; auto. simpl. apply (HQ false).
  - (* Mul *)
    simpl in Hwf, Hn. apply andb_true_iff in Hwf. destruct Hwf as [Hne Hall].
    apply forallb_Forall in Hall. apply forallb_Forall in Hn.
    assert (Hsub : forall f, In f fs -> (forall flip, Qs (PrT flip f)) /\ item_Qs (item_of PrT f)).
    { intros f Hin. rewrite Forall_forall in *. specialize (Hall f Hin). simpl in Hall. apply andb_true_iff in Hall.
      apply (H f Hin (proj1 Hall) (Hn f Hin)). }
    assert (HQ : forall flip, Qs (PrT flip (SMul neg fs))).
    { intros flip. unfold PrT. cbn [pr]. destruct (flip && is_single fs) eqn:Efs.
      - destruct fs as [|f [|f2 fs]]; try (apply andb_true_iff in Efs; destruct Efs; discriminate).
        apply (proj1 (Hsub f (or_introl eq_refl)) false).
      - apply Qs_mul_assemble. apply Forall_forall. intros it Hin. apply in_map_iff in Hin.
        destruct Hin as (f & <- & Hin). apply (proj2 (Hsub f Hin)). }
    split; auto. simpl. apply (HQ false).
  - (* Pow *)
    simpl in Hwf, Hn. apply andb_true_iff in Hwf. destruct Hwf as [Hwb Hwx].
    apply andb_true_iff in Hn. destruct Hn as [Hnb Hnx].
    destruct (IHe1 Hwb Hnb) as [Qb _]. destruct (IHe2 Hwx Hnx) as [Qx _].
    split.
    + intros flip. unfold PrT. cbn [pr]. apply Qs_pow; [apply (Qb false)|apply (Qx false)].
    + unfold item_of. destruct (negexp e2).
      * destruct (eshape_of false e2);
          try (destruct (is_unit_frac e1); cbn [item_Qs fst]; apply Qs_pow;
               first [apply Qs_num | apply (Qb false) | apply (Qx false) | apply (Qx true)]).
        cbn [item_Qs fst]. apply (Qb false).
      * cbn [item_Qs fst]. apply Qs_pow; [apply (Qb false)|apply (Qx false)].
  - split; [intros flip; unfold PrT; simpl; apply Qs_num | exact I].
  - split; [|exact I]. intros flip. unfold PrT. cbn [pr].
    apply Qs_cat; [apply Qs_num|apply sep_slash|apply Qs_Q0, Qs_num].
  - simpl in Hn. split; [intros flip|]; simpl; apply Qs_name; auto.
  - (* Fun *)
    simpl in Hwf, Hn. apply andb_true_iff in Hwf. destruct Hwf as [Hk Ha].
    destruct args as [|a [|a2 args]]; try discriminate.
    apply andb_true_iff in Hn. destruct Hn as [Hid Hna]. simpl in Hna. rewrite andb_true_r in Hna.
    inversion H; subst. destruct (H2 Ha Hna) as [Qa _].
    assert (HQ : forall flip, Qs (PrT flip (SFun s [a]))).
    { intros flip. unfold PrT. cbn [pr map join].
      apply (Qs_pre [TName s; TLp]).
      - discriminate.
      - exact I.
      - simpl. rewrite Hid. reflexivity.
      - reflexivity.
      - left. reflexivity.
      - apply Q0_post; [apply Qs_Q0, (Qa false)|apply post_rp]. }
    split; auto. simpl. apply (HQ false).
  - split; [intros flip|]; simpl; apply Qs_name; reflexivity.
  - discriminate.
Qed.

(* ------------------------------------------------------------------ strip (pr true) = pr false *)
Lemma split_sign_strip t : nosp_hd t -> split_sign (strip t) = (fst (split_sign t), strip (snd (split_sign t))).
Proof. destruct t as [|x r]; simpl; auto. destruct x; simpl; auto. tauto. Qed.

Lemma add_item_strip tw : nosp_hd (fst tw) ->
  add_item (strip (fst tw), snd tw) = (fst (add_item tw), strip (snd (add_item tw))).
Proof.
  destruct tw as [t w]. simpl. intros H. unfold add_item. simpl. rewrite split_sign_strip by auto.
  destruct (split_sign t) as [s body]. simpl. destruct w; simpl; auto. rewrite strip_app. simpl. reflexivity.
Qed.

Lemma add_tail_strip items :
  strip (add_tail true items) = add_tail false (map (fun sb : bool * list token => (fst sb, strip (snd sb))) items).
Proof.
  induction items as [|[s body] items IH]; simpl; auto.
  destruct s; simpl; rewrite strip_app, IH; reflexivity.
Qed.

Lemma strip_add_join l : Forall (fun tw : list token * bool => nosp_hd (fst tw)) l ->
  strip (add_join true l) = add_join false (map (fun tw : list token * bool => (strip (fst tw), snd tw)) l).
Proof.
  intros HF. unfold add_join. rewrite map_map.
  assert (E : map (fun x : list token * bool => add_item (strip (fst x), snd x)) l =
              map (fun sb : bool * list token => (fst sb, strip (snd sb))) (map add_item l)).
  { rewrite map_map. apply map_ext_in. intros tw Hin. rewrite Forall_forall in HF. apply add_item_strip. auto. }
  rewrite E. destruct (map add_item l) as [|[s body] items]; simpl; auto.
  rewrite !strip_app, add_tail_strip. destruct s; reflexivity.
Qed.

Definition S_all (e : sexpr) : Prop :=
  wf e = true -> names_ok e = true ->
  (forall flip, strip (PrT flip e) = Tk flip e) /\ strip_item (item_of PrT e) = item_of Tk e.

Lemma Qs_nosp ts : Qs ts -> nosp_hd ts.
Proof. intros [(_ & H & _) _]. exact H. Qed.

Theorem strip_all : forall e, S_all e.
Proof.
  induction e using sexpr_ind'; red; intros Hwf Hn.
  - (* Add *)
    assert (HS : forall flip, strip (PrT flip (SAdd ts)) = Tk flip (SAdd ts)).
    { intros flip. unfold PrT, Tk. cbn [pr]. rewrite strip_add_join.
      - f_equal. rewrite map_map. apply map_ext_in. intros t Hin. simpl.
        simpl in Hwf, Hn. apply andb_true_iff in Hwf. destruct Hwf as [_ Hall].
        apply forallb_Forall in Hall. apply forallb_Forall in Hn. rewrite Forall_forall in *.
        specialize (Hall t Hin). simpl in Hall. apply andb_true_iff in Hall.
        destruct (H t Hin (proj1 Hall) (Hn t Hin)) as [HS _]. pose proof (HS false) as E. unfold PrT, Tk in E. rewrite E. reflexivity.
      - apply Forall_forall. intros tw Hin. apply in_map_iff in Hin. destruct Hin as (t & <- & Hin). simpl.
        simpl in Hwf, Hn. apply andb_true_iff in Hwf. destruct Hwf as [_ Hall].
        apply forallb_Forall in Hall. apply forallb_Forall in Hn. rewrite Forall_forall in *.
        specialize (Hall t Hin). simpl in Hall. apply andb_true_iff in Hall.
        apply Qs_nosp. apply (proj1 (adjacency_all t (proj1 Hall) (Hn t Hin)) false). }
    split; auto. simpl. unfold strip_pt. simpl. rewrite (HS false). reflexivity.
  - (* Mul *)
    simpl in Hwf, Hn. apply andb_true_iff in Hwf. destruct Hwf as [Hne Hall].
    apply forallb_Forall in Hall. apply forallb_Forall in Hn.
    assert (Hsub : forall f, In f fs -> (forall flip, strip (PrT flip f) = Tk flip f) /\ strip_item (item_of PrT f) = item_of Tk f).
    { intros f Hin. rewrite Forall_forall in *. specialize (Hall f Hin). simpl in Hall. apply andb_true_iff in Hall.
      apply (H f Hin (proj1 Hall) (Hn f Hin)). }
    assert (HS : forall flip, strip (PrT flip (SMul neg fs)) = Tk flip (SMul neg fs)).
    { intros flip. unfold PrT, Tk. cbn [pr]. destruct (flip && is_single fs) eqn:Efs.
      - destruct fs as [|f [|f2 fs]]; auto. apply (proj1 (Hsub f (or_introl eq_refl)) false).
      - rewrite strip_mul_assemble. f_equal. rewrite map_map. apply map_ext_in. intros f Hin.
        apply (proj2 (Hsub f Hin)). }
    split; auto. simpl. rewrite (HS false). reflexivity.
  - (* Pow *)
    simpl in Hwf, Hn. apply andb_true_iff in Hwf. destruct Hwf as [Hwb Hwx].
    apply andb_true_iff in Hn. destruct Hn as [Hnb Hnx].
    destruct (IHe1 Hwb Hnb) as [Sb _]. destruct (IHe2 Hwx Hnx) as [Sx _].
    split.
    + intros flip. unfold PrT, Tk. cbn [pr]. rewrite strip_pow. fold (PrT false e1). fold (PrT false e2).
      rewrite (Sb false), (Sx false). reflexivity.
    + unfold item_of. destruct (negexp e2).
      * destruct (eshape_of false e2); try (destruct (is_unit_frac e1));
          cbn [strip_item fst snd]; rewrite ?strip_pow, ?strip_num, ?(Sb false), ?(Sx false), ?(Sx true); reflexivity.
      * cbn [strip_item fst snd]. rewrite strip_pow, (Sb false), (Sx false). reflexivity.
  - split; [intros flip; unfold PrT, Tk; simpl; apply strip_num | reflexivity].
  - split; [|reflexivity]. intros flip. unfold PrT, Tk. cbn [pr]. rewrite !strip_app, !strip_num. reflexivity.
  - split; [intros flip|]; reflexivity.
  - (* Fun *)
    simpl in Hwf, Hn. apply andb_true_iff in Hwf. destruct Hwf as [Hk Ha].
    destruct args as [|a [|a2 args]]; try discriminate.
    apply andb_true_iff in Hn. destruct Hn as [Hid Hna]. simpl in Hna. rewrite andb_true_r in Hna.
    inversion H; subst. destruct (H2 Ha Hna) as [Sa _].
    assert (HS : forall flip, strip (PrT flip (SFun s [a])) = Tk flip (SFun s [a])).
    { intros flip. unfold PrT, Tk. cbn [pr map join].
      change (strip ([TName s; TLp] ++ pr true false a ++ [TRp])) with (TName s :: TLp :: strip (PrT false a ++ [TRp])).
      rewrite strip_app, (Sa false). reflexivity. }
    split; auto. cbn [item_of strip_item fst snd]. rewrite (HS false). reflexivity.
  - split; [intros flip|]; reflexivity.
  - discriminate.
Qed.

(* ------------------------------------------------------------------ the theorems of C12 (string level) *)
Theorem lex_print e : fragment e = true -> lex (print_string e) = Some (toks e).
Proof.
  intros H. apply andb_true_iff in H. destruct H as [Hwf Hn].
  destruct (adjacency_all e Hwf Hn) as [HQ _]. destruct (strip_all e Hwf Hn) as [HS _].
  specialize (HQ false). specialize (HS false). destruct HQ as [(_ & _ & Hadj & _) _].
  unfold lex, print_string, print. change LNone with (st_of QNone).
  rewrite lex_render by (apply adj_star_any; auto). simpl. f_equal. exact HS.
Qed.

Theorem print_roundtrip e : fragment e = true ->
  exists a, parse_string (print_string e) = Some a /\
            forall tab rho, defined rho e -> peval tab rho a = sem rho e.
Proof.
  intros H. pose proof (lex_print e H) as HL. apply andb_true_iff in H. destruct H as [Hwf Hn].
  destruct (parse_print e Hwf) as (a & Ha & Hv). exists a. split; auto.
  unfold parse_string. rewrite HL. exact Ha.
Qed.

(* printing is a function of the tree: equal trees print to equal strings *)
Theorem print_pure e1 e2 : e1 = e2 -> print_string e1 = print_string e2.
Proof. intros ->. reflexivity. Qed.

(* the parsed side is also well defined: restated for one table at a time for the record *)
Corollary print_roundtrip_gen e rho : fragment e = true -> defined rho e ->
  exists a, parse_string (print_string e) = Some a /\ peval GenTab rho a = sem rho e /\ peval FitTab rho a = sem rho e.
Proof.
  intros H Hd. destruct (print_roundtrip e H) as (a & Ha & Hv). exists a. split; auto.
Qed.

(* ------------------------------------------------------------------ outside the fragment: the unevaluated nested Add *)
(* ESRPrinter._print_Add strips a leading '-' from every printed term, also when the term is itself an Add
   (sympy's StrPrinter has "and not term.is_Add" there): the unevaluated tree  x + (-a0 + a1)  prints as
   "x - (a0 + a1)".  Evaluated sympy trees never contain an Add directly inside an Add. *)
Definition nested_add_example : sexpr :=
  SAdd [SSym "x"; SAdd [SMul true [SSym "a0"]; SSym "a1"]].
Definition nested_add_env : env := fun s => if String.eqb s "a1" then 1%R else 0%R.

Lemma nested_add_misprint :
  print_string nested_add_example = "x - (a0 + a1)"%string /\
  exists a, parse_string (print_string nested_add_example) = Some a /\
            defined nested_add_env nested_add_example /\
            peval GenTab nested_add_env a <> sem nested_add_env nested_add_example /\
            peval FitTab nested_add_env a <> sem nested_add_env nested_add_example.
Proof.
  split; [vm_compute; reflexivity|].
  exists (PBin OSub (PName "x") (PBin OAdd (PName "a0") (PName "a1"))).
  split; [vm_compute; reflexivity|]. split; [simpl; tauto|].
  unfold nested_add_env. simpl. split; lra.
Qed.

(* non-vacuity: a member of the fragment with a sign, a rational coefficient, a quotient and a sum in a power *)
Definition sample_expr : sexpr :=
  SMul true [SRat 1 2; SSym "x"; SPow (SAdd [SSym "a0"; SSym "x"]) (SInt (-1)); SPow (SSym "x") (SMul true [SSym "a0"])].
Definition sample_env : env := fun s => if String.eqb s "x" then 2%R else 1%R.

Lemma sample_in_fragment : fragment sample_expr = true.
Proof. vm_compute. reflexivity. Qed.
Lemma sample_prints : print_string sample_expr = "-x/(2*(a0 + x)*pow(x,a0))"%string.
Proof. vm_compute. reflexivity. Qed.
Lemma sample_defined : defined sample_env sample_expr.
Proof. unfold sample_env. simpl. repeat split; try lra; intros _; lra. Qed.
