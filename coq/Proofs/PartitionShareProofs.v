(* Mechanism facts about the regenerated partitioning functions that the property C14 does NOT demand
   (share sizes).  Kept outside the dependency cone of Props/C14.v on purpose: a rewrite that hands out
   different shares but still tiles keeps C14, so these theorems must not raise a C14 alarm. *)
From Coq Require Import ZArith List Lia Arith.
From ESRV Require Import Common.Py Common.Tiling Gen.GenPartition Proofs.PartitionProofs.
Import ListNotations.
Open Scope Z_scope.

(* the share: every rank but the last gets exactly k rows, k the greatest integer <= ceil(N/P)
   with k (P-1) <= N; the last rank gets the remaining N - (P-1) k >= 0 rows *)
Lemma while_dec_max (N P : Z) (c : Z -> bool) (b : Z -> option Z) :
  0 <= N ->
  (forall k, c k = (k * (P - 1) >? N)) -> (forall k, b k = Some (k - 1)) ->
  forall (fuel : nat) (k0 : Z), 0 <= k0 -> (Z.to_nat k0 < fuel)%nat ->
  exists k, while_fuel fuel c b k0 = Some k /\ 0 <= k <= k0 /\ k * (P - 1) <= N /\
            (k = k0 \/ N < (k + 1) * (P - 1)).
Proof.
  intros HN Hc Hb fuel. induction fuel as [|fuel IH]; intros k0 Hk Hf; [lia|].
  cbn [while_fuel]. rewrite Hc. destruct (Z.gtb_spec (k0 * (P - 1)) N) as [Hgt|Hle].
  - rewrite Hb. cbn [bind].
    assert (k0 <> 0) by (intros ->; lia).
    destruct (IH (k0 - 1)) as (k & E & Hr & Hx & Hm); [lia|lia|].
    exists k. repeat split; try assumption; try lia.
  - exists k0. repeat split; try lia.
Qed.

Theorem get_functions_share {A} (l : list A) (P : Z) :
  1 <= P ->
  let N := py_len l in
  exists k, 0 <= k <= - ((- N) / P) /\ k * (P - 1) <= N /\
    (k = - ((- N) / P) \/ N < (k + 1) * (P - 1)) /\
    (forall r, 0 <= r < P - 1 -> gf_end l r P - gf_start l r P = k) /\
    gf_end l (P - 1) P - gf_start l (P - 1) P = N - (P - 1) * k.
Proof.
  intros HP N. assert (HN : 0 <= N) by (unfold N, py_len; lia).
  destruct (ceil_bounds N P HN HP) as [Hc0 Hc1].
  destruct (while_dec_max N P (fun nLs => nLs * (P - 1) >? N) (fun nLs => let nLs := nLs - 1 in Some nLs)
              HN (fun _ => eq_refl) (fun _ => eq_refl) (Datatypes.S (length l)) (- ((- N) / P)) Hc0)
    as (k & E & Hk & Hx & Hm).
  { assert (HNl : N = Z.of_nat (length l)) by reflexivity. lia. }
  exists k. split; [lia|]. split; [exact Hx|]. split; [exact Hm|].
  assert (Hs : forall r, get_functions_slice l r P =
      Some (py_slice l (r * k) (if r =? P - 1 then N else (r + 1) * k), r * k, if r =? P - 1 then N else (r + 1) * k)).
  { intros r. unfold get_functions_slice, py_ceil_fdiv. fold N.
    destruct (Z.eqb_spec P 0); [lia|]. cbn [bind].
    cbv zeta in E |- *. rewrite E. cbn [bind].
    destruct (r =? P - 1); reflexivity. }
  unfold gf_start, gf_end. split.
  - intros r Hr. rewrite Hs. destruct (Z.eqb_spec r (P - 1)); lia.
  - rewrite Hs, Z.eqb_refl. lia.
Qed.

(* load balance of split_idx: rank r owns N/P indices, plus one if r < N mod P;
   so two ranks never differ by more than one index and no rank exceeds ceil(N/P). *)
Lemma split_idx_balanced (N P r : Z) :
  0 <= N -> 1 <= P -> 0 <= r < P ->
  Z.of_nat (length (si_range (split_idx N r P))) = N / P + (if r <? N mod P then 1 else 0).
Proof.
  intros HN HP Hr. rewrite split_idx_spec by assumption.
  assert (He : 0 <= N mod P < P) by (apply Z.mod_pos_bound; lia).
  assert (Hq : 0 <= N / P) by (apply Z.div_pos; lia).
  set (q := N / P) in *. set (e := N mod P) in *.
  assert (Hd : div_point q e (r + 1) - div_point q e r = q + (if r <? e then 1 else 0)).
  { unfold div_point. destruct (Z.ltb_spec r e); lia. }
  destruct (Z.geb_spec (div_point q e r) (div_point q e (r + 1))) as [Hge|Hlt].
  - cbn [si_range length]. destruct (Z.ltb_spec r e); lia.
  - cbn [si_range]. unfold zinterval. rewrite map_length, seq_length. lia.
Qed.

Corollary split_idx_balance_pair (N P r s : Z) :
  0 <= N -> 1 <= P -> 0 <= r < P -> 0 <= s < P ->
  Z.abs (Z.of_nat (length (si_range (split_idx N r P))) - Z.of_nat (length (si_range (split_idx N s P)))) <= 1.
Proof.
  intros HN HP Hr Hs. rewrite !split_idx_balanced by assumption.
  destruct (r <? N mod P), (s <? N mod P); lia.
Qed.

