(* C04 / C20: table-level optimality of the final ranking, derived from the C06 model. *)
From Coq Require Import ZArith List Bool Lia.
From ESRV Require Import Common.Py Common.XZ Model.Combine Proofs.CombineProofs.
Import ListNotations.
Open Scope Z_scope.

Lemma xle_trans (a b c : xz) : xle a b -> xle b c -> xle a c.
Proof.
  unfold xle, xleb. destruct a, b, c; cbn; intros H1 H2; try discriminate; try reflexivity;
    rewrite ?orb_true_iff, ?Z.ltb_lt, ?Z.eqb_eq in *; lia.
Qed.

Definition frow0 : frow := mkF 0 None NaN NaN NaN NaN [] 0.

(* The first row of the final table is no larger than the description length of ANY variant row
   (any function of the library) whose description length is not NaN. *)
Theorem top_le_every_variant (P : Z) (U : nat) (t : list vrow) comb rows exps :
  1 <= P -> combine_main P U t = Some (comb, rows, exps) ->
  forall u j r, (u < U)%nat -> variant t u j r -> isnan (dl_of r) = false ->
    xle (f_dl (nth 0 rows frow0)) (dl_of r).
Proof.
  intros HP Hm u j r Hu Hv Hn.
  destruct (final_appears_once P U t comb rows exps HP Hm) as [_ Hin].
  assert (Hmem : In u (map f_uniq rows)) by (apply Hin; split; [exact Hu|exists j, r; auto]).
  apply in_map_iff in Hmem as (row & Hru & Hrow).
  destruct (final_row_min P U t comb rows exps HP Hm row Hrow) as (_ & _ & Hmin).
  rewrite Hru in Hmin. specialize (Hmin j r Hv Hn).
  apply In_nth with (d := frow0) in Hrow as (k & Hk & Hnth).
  destruct k as [|k].
  - now rewrite Hnth.
  - eapply xle_trans; [|exact Hmin].
    pose proof (final_sorted P U t comb rows exps HP Hm 0%nat (S k) ltac:(lia) Hk) as Hs.
    cbv zeta in Hs. destruct Hs as [Hs _]. fold frow0 in Hs. rewrite Hnth in Hs. exact Hs.
Qed.

(* Conditional optimality: if the table's description length of every variant is no larger than an
   independently computed description length DLstar of that tree (the contract supplied by the
   optimiser/Hessian oracles and the transfer theorem C05), the top row beats every tree. *)
Theorem optimal_under_contract (P : Z) (U : nat) (t : list vrow) comb rows exps (DLstar : nat -> xz) :
  1 <= P -> combine_main P U t = Some (comb, rows, exps) ->
  (forall u j r, (u < U)%nat -> variant t u j r -> isnan (dl_of r) = false /\ xle (dl_of r) (DLstar j)) ->
  forall u j r, (u < U)%nat -> variant t u j r -> xle (f_dl (nth 0 rows frow0)) (DLstar j).
Proof.
  intros HP Hm Hc u j r Hu Hv. destruct (Hc u j r Hu Hv) as [Hn Hle].
  eapply xle_trans; [|exact Hle]. eapply top_le_every_variant; eauto.
Qed.

(* every reported row is the sum of its three reported terms (finite or -inf minimum) *)
Theorem row_is_sum (P : Z) (U : nat) (t : list vrow) comb rows exps :
  1 <= P -> combine_main P U t = Some (comb, rows, exps) ->
  forall row, In row rows -> f_dl row <> PInf ->
    f_dl row = xadd (xadd (f_nll row) (f_codelen row)) (f_aifeyn row).
Proof.
  intros HP Hm row Hrow Hne.
  destruct (final_row_first P U t comb rows exps HP Hm row Hrow Hne) as (j & r & _ & _ & _ & _ & _ & _ & _ & _ & H).
  exact H.
Qed.
