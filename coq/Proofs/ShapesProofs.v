(* Proofs about Model/Shapes.v:
   (a) Lukasiewicz criterion <-> prefix code of a unary-binary tree;
   (b) the pointer-array model of check_tree succeeds iff the criterion holds;
   (c) failed-prefix pruning is sound, hence get_allowed_shapes = filter lukb (product n). *)
From Coq Require Import List Bool Arith Lia.
From ESRV Require Import Model.Shapes.
Import ListNotations.

Definition le2 (a : nat) : Prop := a <= 2.

(* ------------------------------------------------------------------ (a) *)

Lemma lukb_aux_pre : forall t d r, lukb_aux (S d) (pre t ++ r) = lukb_aux d r.
Proof.
  induction t as [|t IH|l IHl r0 IHr]; intros d r; simpl.
  - now rewrite Nat.add_0_r.
  - rewrite Nat.add_1_r. apply IH.
  - rewrite <- app_assoc. replace (d + 2) with (S (S d)) by lia.
    rewrite IHl. apply IHr.
Qed.

Lemma lukb_pre : forall t, lukb (pre t) = true.
Proof.
  intros t. unfold lukb. rewrite <- (app_nil_r (pre t)). rewrite lukb_aux_pre. reflexivity.
Qed.

Lemma pre_le2 : forall t, Forall le2 (pre t).
Proof.
  induction t; simpl.
  - constructor; [unfold le2; lia | constructor].
  - constructor; [unfold le2; lia | assumption].
  - constructor; [unfold le2; lia | apply Forall_app; split; assumption].
Qed.

Lemma size_pre : forall t, length (pre t) = size t.
Proof.
  induction t; simpl; auto. rewrite app_length. lia.
Qed.

Lemma lukb_aux_forest : forall s d, Forall le2 s -> lukb_aux d s = true ->
  exists ts, length ts = d /\ s = concat (map pre ts).
Proof.
  induction s as [|a r IH]; intros d Hle H; simpl in H.
  - apply Nat.eqb_eq in H. subst. exists []. split; reflexivity.
  - destruct d as [|d']; [discriminate|].
    inversion Hle as [|? ? Ha Hr]; subst.
    destruct (IH _ Hr H) as [ts [Hlen Hs]].
    unfold le2 in Ha.
    destruct a as [|[|[|a]]]; [| | |lia].
    + exists (L :: ts). split; simpl; [lia | now rewrite Hs].
    + destruct ts as [|t1 ts]; [simpl in Hlen; lia|].
      exists (U t1 :: ts). split; simpl in *; [lia | now rewrite Hs].
    + destruct ts as [|t1 [|t2 ts]]; try (simpl in Hlen; lia).
      exists (B t1 t2 :: ts). split; simpl in *; [lia|].
      rewrite Hs. now rewrite <- app_assoc.
Qed.

Theorem luk_iff : forall s, (exists t, pre t = s) <-> (lukb s = true /\ Forall le2 s).
Proof.
  intros s. split.
  - intros [t <-]. split; [apply lukb_pre | apply pre_le2].
  - intros [H Hle]. destruct (lukb_aux_forest s 1 Hle H) as [ts [Hlen Hs]].
    destruct ts as [|t [|? ?]]; try (simpl in Hlen; lia).
    exists t. simpl in Hs. now rewrite app_nil_r in Hs.
Qed.

Lemma lukb_aux_prefix_complete : forall p d r,
  lukb_aux d p = true -> r <> [] -> lukb_aux d (p ++ r) = false.
Proof.
  induction p as [|a p IH]; intros d r H Hr; simpl in *.
  - apply Nat.eqb_eq in H. subst. destruct r; [congruence | reflexivity].
  - destruct d; [discriminate|]. now apply IH.
Qed.

(* consequences used for the three pre-filters *)
Lemma lukb_aux_last : forall xs d y, lukb_aux d (xs ++ [y]) = true -> y = 0.
Proof.
  induction xs as [|a xs IH]; intros d y H; simpl in H.
  - destruct d; [discriminate|]. simpl in H. apply Nat.eqb_eq in H. lia.
  - destruct d; [discriminate|]. eapply IH; eauto.
Qed.

Lemma lukb_aux_penult : forall xs d y, lukb_aux d (xs ++ [2; y]) = false.
Proof.
  induction xs as [|a xs IH]; intros d y; simpl.
  - destruct d; [reflexivity|]. simpl.
    destruct (d + 2) eqn:E; [lia|]. simpl. apply Nat.eqb_neq. lia.
  - destruct d; [reflexivity|]. apply IH.
Qed.

Lemma split_last2 : forall m (s : list nat), length s = S (S m) ->
  exists xs x y, s = xs ++ [x; y] /\ nth m s 0 = x /\ last s 1 = y.
Proof.
  induction m as [|m IH]; intros s Hl.
  - destruct s as [|a [|b [|c s]]]; simpl in Hl; try lia.
    exists [], a, b. repeat split.
  - destruct s as [|a s]; simpl in Hl; [lia|].
    destruct (IH s) as [xs [x [y [Hs [Hn Hla]]]]]; [lia|].
    exists (a :: xs), x, y. repeat split.
    + simpl. now rewrite Hs.
    + simpl. exact Hn.
    + destruct s as [|b s]; [simpl in Hl; lia|]. exact Hla.
Qed.

Lemma split_last1 : forall (s : list nat), s <> [] -> exists xs y, s = xs ++ [y] /\ last s 1 = y.
Proof.
  induction s as [|a s IH]; intros H; [congruence|].
  destruct s as [|b s].
  - exists [], a. split; reflexivity.
  - destruct IH as [xs [y [Hs Hl]]]; [congruence|].
    exists (a :: xs), y. split; [simpl; now rewrite Hs | exact Hl].
Qed.

(* ------------------------------------------------------------------ arrays *)

Lemma upd_length : forall A (f : A -> A) l i, length (upd i f l) = length l.
Proof. induction l; intros [|i]; simpl; auto. Qed.

Lemma nth_error_upd_eq : forall A (f : A -> A) l i x,
  nth_error l i = Some x -> nth_error (upd i f l) i = Some (f x).
Proof.
  induction l; intros [|i] x H; simpl in *; try discriminate.
  - now inversion H.
  - now apply IHl.
Qed.

Lemma nth_error_upd_neq : forall A (f : A -> A) l i j,
  i <> j -> nth_error (upd i f l) j = nth_error l j.
Proof.
  induction l; intros [|i] [|j] H; simpl; auto; try congruence.
Qed.

Lemma map_ty_upd : forall f l i, (forall x, ty (f x) = ty x) -> map ty (upd i f l) = map ty l.
Proof.
  induction l; intros [|i] H; simpl; auto.
  - now rewrite H.
  - now rewrite IHl.
Qed.

Lemma nth_error_map_ty : forall t k nd, nth_error t k = Some nd -> nth_error (map ty t) k = Some (ty nd).
Proof. intros. now apply map_nth_error. Qed.

(* ------------------------------------------------------------------ ancestors *)

(* [Anc t b o st]: starting from the optional index o (< b) and following parent links,
   the binary nodes with a free right slot are st, nearest first. *)
Inductive Anc (t : list node) : nat -> option nat -> list nat -> Prop :=
| Anc_none : forall b, Anc t b None []
| Anc_free : forall b p nd st, p < b -> nth_error t p = Some nd -> freebin nd = true ->
    Anc t p (par nd) st -> Anc t b (Some p) (p :: st)
| Anc_skip : forall b p nd st, p < b -> nth_error t p = Some nd -> freebin nd = false ->
    Anc t p (par nd) st -> Anc t b (Some p) st.

Lemma Anc_frame : forall t t' b o st, Anc t b o st ->
  (forall k, k < b -> nth_error t' k = nth_error t k) -> Anc t' b o st.
Proof.
  intros t t' b o st H. induction H as [b|b p nd st Hp Hn Hf _ IH|b p nd st Hp Hn Hf _ IH]; intros Hfr.
  - constructor.
  - eapply Anc_free; eauto.
    + rewrite Hfr; auto.
    + apply IH. intros k Hk. apply Hfr. lia.
  - eapply Anc_skip; eauto.
    + rewrite Hfr; auto.
    + apply IH. intros k Hk. apply Hfr. lia.
Qed.

Lemma Anc_In : forall t b o st k, Anc t b o st -> In k st ->
  exists nd, nth_error t k = Some nd /\ freebin nd = true /\ k < b.
Proof.
  intros t b o st k H. induction H as [b|b p nd st Hp Hn Hf _ IH|b p nd st Hp Hn Hf _ IH]; intros Hin.
  - destruct Hin.
  - destruct Hin as [<-|Hin].
    + exists nd. auto.
    + destruct (IH Hin) as [nd' [? [? ?]]]. exists nd'. repeat split; auto. lia.
  - destruct (IH Hin) as [nd' [? [? ?]]]. exists nd'. repeat split; auto. lia.
Qed.

Lemma Anc_head : forall t b o st, Anc t b o st -> forall h st', st = h :: st' ->
  exists ndh, nth_error t h = Some ndh /\ freebin ndh = true /\ h < b /\ Anc t h (par ndh) st'.
Proof.
  intros t b o st H. induction H as [b|b p nd st Hp Hn Hf H1 IH|b p nd st Hp Hn Hf H1 IH]; intros h st' E.
  - discriminate.
  - inversion E; subst. exists nd. auto.
  - destruct (IH _ _ E) as [ndh [? [? [? ?]]]]. exists ndh. repeat split; auto. lia.
Qed.

Lemma climb_spec : forall t b o st, Anc t b o st -> forall i p fuel, o = Some p -> p < fuel ->
  climb fuel t i (Some p) =
  Ok (match st with
      | [] => (false, t)
      | h :: _ => (true, upd (S i) (set_par h) (upd h (set_rgt (S i)) t))
      end).
Proof.
  intros t b o st H. induction H as [b|b p nd st Hp Hn Hf H1 IH|b p nd st Hp Hn Hf H1 IH];
    intros i q fuel E Hfu.
  - discriminate.
  - inversion E; subst q. destruct fuel; [lia|]. simpl. rewrite Hn, Hf. reflexivity.
  - inversion E; subst q. destruct fuel; [lia|]. simpl. rewrite Hn, Hf.
    destruct (par nd) as [p'|] eqn:Ep; simpl.
    + inversion H1; subst.
      * apply (IH i p' fuel eq_refl). lia.
      * apply (IH i p' fuel eq_refl). lia.
    + inversion H1; subst. reflexivity.
Qed.

(* ------------------------------------------------------------------ invariant *)

Definition Inv (s : list nat) (i : nat) (t : list node) (st : list nat) : Prop :=
  map ty t = s /\
  (forall k nd, i < k -> nth_error t k = Some nd -> par nd = None /\ lft nd = None /\ rgt nd = None) /\
  (exists nd, nth_error t i = Some nd /\ lft nd = None /\ rgt nd = None /\
              Anc t i (par nd) st /\ (par nd = None -> i = 0)) /\
  (forall k nd, k < i -> nth_error t k = Some nd -> freebin nd = true -> In k st) /\
  (forall k nd, k < i -> nth_error t k = Some nd -> (ty nd = 1 \/ ty nd = 2) -> lft nd <> None).

Lemma Inv_init : forall s, s <> [] -> Inv s 0 (map mknode s) [].
Proof.
  intros s Hs. unfold Inv. repeat split.
  - rewrite map_map. simpl. apply map_id.
  - apply nth_error_In in H0. apply in_map_iff in H0. destruct H0 as [a [<- _]]. reflexivity.
  - apply nth_error_In in H0. apply in_map_iff in H0. destruct H0 as [a [<- _]]. reflexivity.
  - apply nth_error_In in H0. apply in_map_iff in H0. destruct H0 as [a [<- _]]. reflexivity.
  - destruct s as [|a s]; [congruence|]. exists (mknode a). simpl. repeat split; auto. constructor.
  - intros k nd Hk. lia.
  - intros k nd Hk. lia.
Qed.

Lemma step_inv : forall s i t st a,
  Inv s i t st -> S i < length s -> nth_error s i = Some a -> a <= 2 -> (i = 0 -> a <> 0) ->
  (a = 0 /\ st = [] /\ step i t = Ok (false, t)) \/
  (exists t' st', step i t = Ok (true, t') /\ Inv s (S i) t' st' /\ S (length st') = length st + a).
Proof.
  intros s i t st a [Hty [Hfresh [[nd [Hnd [Hl [Hr [Hanc Hroot]]]]] [Hfree Hleft]]]] Hlen Ha Hle Hfirst.
  assert (Htya : ty nd = a).
  { apply nth_error_map_ty in Hnd. rewrite Hty, Ha in Hnd. now inversion Hnd. }
  assert (Hlt : length t = length s) by (rewrite <- Hty; now rewrite map_length).
  destruct (nth_error t (S i)) as [nd1|] eqn:Hnd1;
    [|apply nth_error_None in Hnd1; lia].
  destruct (Hfresh (S i) nd1 (Nat.lt_succ_diag_r i) Hnd1) as [Hp1 [Hl1 Hr1]].
  unfold step. rewrite Hnd, Htya.
  destruct (((a =? 2) || (a =? 1))%bool) eqn:Eb.
  - (* left placement *)
    right.
    set (t1 := upd i (set_lft (S i)) t).
    set (t' := upd (S i) (set_par i) t1).
    assert (Hlow : forall k, k < i -> nth_error t' k = nth_error t k).
    { intros k Hk. unfold t', t1. rewrite !nth_error_upd_neq by lia. reflexivity. }
    assert (Hi' : nth_error t' i = Some (set_lft (S i) nd)).
    { unfold t', t1. rewrite nth_error_upd_neq by lia. now apply nth_error_upd_eq. }
    assert (Hsi' : nth_error t' (S i) = Some (set_par i nd1)).
    { unfold t'. apply nth_error_upd_eq. unfold t1. rewrite nth_error_upd_neq by lia. exact Hnd1. }
    assert (Hanc' : Anc t' i (par nd) st) by (eapply Anc_frame; eauto).
    exists t', (if a =? 2 then i :: st else st). split; [reflexivity|]. split.
    + unfold Inv. split; [|split; [|split; [|split]]].
      * unfold t', t1. rewrite !map_ty_upd by reflexivity. exact Hty.
      * intros k nd' Hk Hn'. unfold t', t1 in Hn'. rewrite !nth_error_upd_neq in Hn' by lia.
        apply (Hfresh k nd'); [lia|exact Hn'].
      * exists (set_par i nd1). split; [exact Hsi'|]. simpl. rewrite Hl1, Hr1.
        repeat split; auto; [|discriminate].
        destruct (a =? 2) eqn:E2.
        -- eapply Anc_free; eauto. unfold freebin. simpl. rewrite Htya, E2, Hr. reflexivity.
        -- eapply Anc_skip; eauto. unfold freebin. simpl. rewrite Htya, E2. reflexivity.
      * intros k nd' Hk Hn' Hf'.
        destruct (Nat.eq_dec k i) as [->|Hne].
        -- rewrite Hi' in Hn'. inversion Hn'; subst nd'. unfold freebin in Hf'. simpl in Hf'.
           rewrite Htya in Hf'. apply andb_true_iff in Hf'. destruct Hf' as [E2 _]. rewrite E2. now left.
        -- rewrite Hlow in Hn' by lia.
           assert (In k st) by (apply (Hfree k nd'); auto; lia).
           destruct (a =? 2); [now right|assumption].
      * intros k nd' Hk Hn' Ht'.
        destruct (Nat.eq_dec k i) as [->|Hne].
        -- rewrite Hi' in Hn'. inversion Hn'; subst nd'. simpl. discriminate.
        -- rewrite Hlow in Hn' by lia. apply (Hleft k nd'); auto; lia.
    + apply orb_true_iff in Eb. destruct Eb as [E|E]; apply Nat.eqb_eq in E; rewrite E; simpl; lia.
  - (* leaf: climb *)
    apply orb_false_iff in Eb. destruct Eb as [E2 E1].
    apply Nat.eqb_neq in E2. apply Nat.eqb_neq in E1.
    assert (Ea : a = 0) by lia. rewrite Ea in *. clear Ea.
    destruct (par nd) as [p|] eqn:Ep; [|specialize (Hroot eq_refl); specialize (Hfirst Hroot); congruence].
    assert (Hpi : p < i) by (inversion Hanc; assumption).
    rewrite (climb_spec t i (Some p) st Hanc i p (length t) eq_refl) by lia.
    destruct st as [|h st'].
    + left. auto.
    + right.
      destruct (Anc_head _ _ _ _ Hanc h st' eq_refl) as [ndh [Hndh [Hfh [Hhi Hanch]]]].
      set (t1 := upd h (set_rgt (S i)) t).
      set (t' := upd (S i) (set_par h) t1).
      assert (Hother : forall k, k <> h -> k <> S i -> nth_error t' k = nth_error t k).
      { intros k H1 H2. unfold t', t1. rewrite !nth_error_upd_neq by lia. reflexivity. }
      assert (Hh' : nth_error t' h = Some (set_rgt (S i) ndh)).
      { unfold t', t1. rewrite nth_error_upd_neq by lia. now apply nth_error_upd_eq. }
      assert (Hsi' : nth_error t' (S i) = Some (set_par h nd1)).
      { unfold t'. apply nth_error_upd_eq. unfold t1. rewrite nth_error_upd_neq by lia. exact Hnd1. }
      exists t', st'. split; [reflexivity|]. split; [|simpl; lia].
      unfold Inv. split; [|split; [|split; [|split]]].
      * unfold t', t1. rewrite !map_ty_upd by reflexivity. exact Hty.
      * intros k nd' Hk Hn'. rewrite Hother in Hn' by lia. apply (Hfresh k nd'); [lia|exact Hn'].
      * exists (set_par h nd1). split; [exact Hsi'|]. simpl. rewrite Hl1, Hr1.
        repeat split; auto; [|discriminate].
        eapply Anc_skip; [lia|exact Hh'| |].
        -- unfold freebin. simpl. apply andb_false_r.
        -- simpl. eapply Anc_frame; [exact Hanch|]. intros k Hk. apply Hother; lia.
      * intros k nd' Hk Hn' Hf'.
        destruct (Nat.eq_dec k h) as [->|Hne].
        -- rewrite Hh' in Hn'. inversion Hn'; subst nd'. unfold freebin in Hf'. simpl in Hf'.
           rewrite andb_false_r in Hf'. discriminate.
        -- rewrite Hother in Hn' by lia.
           destruct (Nat.eq_dec k i) as [->|Hne2].
           ++ rewrite Hnd in Hn'. inversion Hn'; subst nd'. unfold freebin in Hf'. rewrite Htya in Hf'.
              simpl in Hf'. discriminate.
           ++ assert (Hin : In k (h :: st')) by (apply (Hfree k nd'); auto; lia).
              destruct Hin; [congruence|assumption].
      * intros k nd' Hk Hn' Ht'.
        destruct (Nat.eq_dec k h) as [->|Hne].
        -- rewrite Hh' in Hn'. inversion Hn'; subst nd'. simpl. simpl in Ht'.
           apply (Hleft h ndh); auto; lia.
        -- rewrite Hother in Hn' by lia.
           destruct (Nat.eq_dec k i) as [->|Hne2].
           ++ rewrite Hnd in Hn'. inversion Hn'; subst nd'. lia.
           ++ apply (Hleft k nd'); auto; lia.
Qed.

Lemma skipn_cons_nth : forall A (s : list A) i a u, skipn i s = a :: u ->
  nth_error s i = Some a /\ skipn (S i) s = u.
Proof.
  induction s as [|x s IH]; intros [|i] a u H; simpl in *; try discriminate.
  - inversion H. auto.
  - apply IH in H. exact H.
Qed.

Lemma loop_spec : forall s, Forall le2 s -> forall k i t st u,
  Inv s i t st -> skipn i s = u -> length u = S k -> 1 <= k -> (i = 0 -> hd 0 s <> 0) ->
  exists b i' t', loop k i t = Ok (b, i', t') /\
    ((b = true /\ i' = i + k - 1 /\
      exists st', Inv s (i + k) t' st' /\
                  lukb_aux (S (length st)) u = lukb_aux (S (length st')) (skipn (i + k) s))
     \/ (b = false /\ i <= i' /\ i' + 1 < i + S k /\
         lukb_aux (S (length st)) (firstn (S (i' - i)) u) = true)).
Proof.
  intros s Hle. induction k as [|k IH]; intros i t st u HInv Hu Hlen Hk Hfirst; [lia|].
  destruct u as [|a u]; [discriminate|].
  destruct (skipn_cons_nth _ _ _ _ _ Hu) as [Ha Hu'].
  assert (Hls : length s = i + S (S k)).
  { assert (H := skipn_length i s). rewrite Hu in H. simpl in H. simpl in Hlen.
    assert (i < length s) by (apply nth_error_Some; congruence). lia. }
  assert (Ha2 : a <= 2).
  { rewrite Forall_forall in Hle. apply (Hle a). eapply nth_error_In; eauto. }
  assert (Hf0 : i = 0 -> a <> 0).
  { intros E. subst i. specialize (Hfirst eq_refl). destruct s; simpl in *; [discriminate|].
    inversion Ha; subst. exact Hfirst. }
  destruct (step_inv s i t st a HInv ltac:(lia) Ha Ha2 Hf0)
    as [[Ea [Est Hstep]]|[t' [st' [Hstep [HInv' Hcnt]]]]].
  - (* fails here *)
    subst a st. exists false, i, t. split.
    + simpl. rewrite Hstep. reflexivity.
    + right. repeat split; try lia. rewrite Nat.sub_diag. reflexivity.
  - cbn [loop]. rewrite Hstep.
    assert (Hluk : forall x, lukb_aux (S (length st)) (a :: x) = lukb_aux (S (length st')) x).
    { intros x. simpl. replace (length st + a) with (S (length st')) by lia. reflexivity. }
    destruct k as [|k'].
    + exists true, i, t'. split; [reflexivity|]. left. split; [reflexivity|]. split; [lia|].
      exists st'. replace (i + 1) with (S i) by lia. split; [exact HInv'|].
      rewrite Hluk, Hu'. reflexivity.
    + simpl in Hlen.
      destruct (IH (S i) t' st' u HInv' Hu' ltac:(lia) ltac:(lia) ltac:(intros; lia))
        as [b [i' [t'' [Hloop Hres]]]].
      exists b, i', t''. split; [exact Hloop|].
      destruct Hres as [[Eb [Ei' [st'' [HInv'' Hl]]]]|[Eb [Hi1 [Hi2 Hl]]]].
      * left. split; [exact Eb|]. split; [lia|].
        exists st''. replace (i + S (S k')) with (S i + S k') by lia. split; [exact HInv''|].
        rewrite Hluk. exact Hl.
      * right. split; [exact Eb|]. split; [lia|]. split; [lia|].
        replace (S (i' - i)) with (S (S (i' - S i))) by lia.
        change (firstn (S (S (i' - S i))) (a :: u)) with (a :: firstn (S (i' - S i)) u).
        rewrite Hluk. exact Hl.
Qed.

Lemma final_checks : forall s n t st a,
  Inv s n t st -> length s = S n -> nth_error s n = Some a -> a <= 2 ->
  (if negb (lefts_missing t) then negb (rights_missing t) else false) = lukb_aux (S (length st)) [a].
Proof.
  intros s n t st a [Hty [Hfresh [[nd [Hnd [Hl [Hr [Hanc Hroot]]]]] [Hfree Hleft]]]] Hlen Ha Hle.
  assert (Htya : ty nd = a).
  { apply nth_error_map_ty in Hnd. rewrite Hty, Ha in Hnd. now inversion Hnd. }
  assert (Hlt : length t = S n) by (rewrite <- Hlen, <- Hty; now rewrite map_length).
  simpl.
  destruct (Nat.eq_dec a 0) as [->|Hne].
  - (* last node is a leaf *)
    assert (HL : lefts_missing t = false).
    { destruct (lefts_missing t) eqn:E; [|reflexivity]. exfalso.
      apply existsb_exists in E. destruct E as [nd' [Hin Hb]].
      apply In_nth_error in Hin. destruct Hin as [k Hk].
      assert (k < S n) by (rewrite <- Hlt; apply nth_error_Some; congruence).
      apply andb_true_iff in Hb. destruct Hb as [Hb1 Hb2].
      destruct (Nat.eq_dec k n) as [->|Hkn].
      - rewrite Hnd in Hk. inversion Hk; subst nd'. rewrite Htya in Hb1. discriminate.
      - assert (lft nd' <> None).
        { eapply Hleft; eauto; [lia|]. apply orb_true_iff in Hb1.
          destruct Hb1 as [E|E]; apply Nat.eqb_eq in E; auto. }
        destruct (lft nd'); [discriminate|congruence]. }
    rewrite HL. simpl. rewrite Nat.add_0_r.
    destruct st as [|h st'].
    + simpl.
      destruct (rights_missing t) eqn:E; [|reflexivity]. exfalso.
      apply existsb_exists in E. destruct E as [nd' [Hin Hb]].
      apply In_nth_error in Hin. destruct Hin as [k Hk].
      assert (k < S n) by (rewrite <- Hlt; apply nth_error_Some; congruence).
      destruct (Nat.eq_dec k n) as [->|Hkn].
      * rewrite Hnd in Hk. inversion Hk; subst nd'. rewrite Htya in Hb. discriminate.
      * apply (Hfree k nd'); auto. lia.
    + simpl.
      destruct (Anc_In _ _ _ _ h Hanc (or_introl eq_refl)) as [ndh [Hndh [Hfh _]]].
      assert (E : rights_missing t = true).
      { apply existsb_exists. exists ndh. split; [eapply nth_error_In; eauto|exact Hfh]. }
      rewrite E. reflexivity.
  - assert (HL : lefts_missing t = true).
    { apply existsb_exists. exists nd. split; [eapply nth_error_In; eauto|].
      rewrite Htya, Hl. simpl.
      destruct a as [|[|[|a]]]; try lia; reflexivity. }
    rewrite HL. simpl. symmetry. apply Nat.eqb_neq. lia.
Qed.

(* ------------------------------------------------------------------ (b) check_tree *)

(* For every string over {0,1,2} of length >= 2 not starting with 0, check_tree returns
   success = lukb s; and when it fails, every string of the same length that starts with
   the returned part_considered also fails the criterion (this is what makes the pruning
   in get_allowed_shapes sound). *)
Theorem check_tree_spec : forall s, 2 <= length s -> hd 0 s <> 0 -> Forall le2 s ->
  exists p t, check_tree s = Ok (lukb s, Some p, t) /\
    firstn (length p) s = p /\
    (lukb s = false -> forall s', length s' = length s -> firstn (length p) s' = p -> lukb s' = false).
Proof.
  intros s Hlen Hhd Hle.
  unfold check_tree.
  assert (E : (1 <? length s) = true) by (apply Nat.ltb_lt; lia). rewrite E.
  assert (Hne : s <> []) by (destruct s; simpl in Hlen; [lia|congruence]).
  destruct (loop_spec s Hle (length s - 1) 0 (map mknode s) [] s (Inv_init s Hne) eq_refl
              ltac:(lia) ltac:(lia) ltac:(intros; exact Hhd))
    as [b [i' [t' [Hloop Hres]]]].
  rewrite Hloop.
  destruct Hres as [[Eb [Ei' [st' [HInv Hl]]]]|[Eb [_ [Hi2 Hl]]]].
  - (* loop completed *)
    subst b. simpl in Ei', HInv, Hl.
    assert (Hsk : exists a, skipn (length s - 1) s = [a]).
    { destruct (skipn (length s - 1) s) as [|a [|b r]] eqn:Es.
      - assert (H := skipn_length (length s - 1) s). rewrite Es in H. simpl in H. lia.
      - eauto.
      - assert (H := skipn_length (length s - 1) s). rewrite Es in H. simpl in H. lia. }
    destruct Hsk as [a Hsk].
    destruct (skipn_cons_nth _ _ _ _ _ Hsk) as [Ha _].
    assert (Ha2 : a <= 2).
    { rewrite Forall_forall in Hle. apply (Hle a). eapply nth_error_In; eauto. }
    rewrite (final_checks s (length s - 1) t' st' a HInv ltac:(lia) Ha Ha2).
    assert (Efull : firstn (i' + 2) s = s) by (apply firstn_all2; lia).
    exists s, t'. rewrite Efull. split.
    + unfold lukb. simpl in Hl. rewrite Hl, Hsk. reflexivity.
    + split; [apply firstn_all|].
      intros Hf s' Hls Hpre. rewrite <- Hls in Hpre. rewrite firstn_all in Hpre. now subst s'.
  - (* the loop broke at i' *)
    subst b. simpl in Hi2. rewrite Nat.sub_0_r in Hl.
    assert (Hs : lukb s = false).
    { unfold lukb. rewrite <- (firstn_skipn (S i') s). apply lukb_aux_prefix_complete; [exact Hl|].
      intros E0. assert (H := skipn_length (S i') s). rewrite E0 in H. simpl in H. lia. }
    exists (firstn (i' + 2) s), t'. rewrite Hs. split; [reflexivity|].
    assert (Hlp : length (firstn (i' + 2) s) = i' + 2) by (apply firstn_length_le; lia).
    rewrite Hlp. split; [reflexivity|].
    intros _ s' Hls Hpre.
    assert (Hp1 : firstn (S i') s' = firstn (S i') s).
    { assert (H := f_equal (firstn (S i')) Hpre). rewrite !firstn_firstn in H.
      replace (Init.Nat.min (S i') (i' + 2)) with (S i') in H by lia. exact H. }
    unfold lukb. rewrite <- (firstn_skipn (S i') s'). rewrite Hp1.
    apply lukb_aux_prefix_complete; [exact Hl|].
    intros E0. assert (H := skipn_length (S i') s'). rewrite E0 in H. simpl in H. lia.
Qed.

(* crash and the length <= 1 behaviour, as the code has it *)
Lemma check_tree_crash : forall a r, check_tree (0 :: a :: r) = Crash.
Proof. intros. reflexivity. Qed.

Lemma check_tree_single : forall a, check_tree [a] = Ok (true, None, [mknode a]).
Proof. intros. reflexivity. Qed.

Lemma check_tree_nil : check_tree [] = Ok (true, None, []).
Proof. reflexivity. Qed.

(* ------------------------------------------------------------------ generic list facts *)

Lemma NoDup_app_intro : forall A (l1 l2 : list A),
  NoDup l1 -> NoDup l2 -> (forall x, In x l1 -> ~ In x l2) -> NoDup (l1 ++ l2).
Proof.
  induction l1 as [|a l1 IH]; intros l2 H1 H2 Hd; simpl; auto.
  inversion H1; subst. constructor.
  - intros Hin. apply in_app_or in Hin. destruct Hin as [Hin|Hin]; [contradiction|].
    apply (Hd a); simpl; auto.
  - apply IH; auto. intros x Hx. apply Hd. simpl; auto.
Qed.

Lemma NoDup_flat_map : forall A B (f : A -> list B) l,
  NoDup l -> (forall x, In x l -> NoDup (f x)) ->
  (forall x y z, In x l -> In y l -> In z (f x) -> In z (f y) -> x = y) ->
  NoDup (flat_map f l).
Proof.
  induction l as [|a l IH]; intros Hnd Hf Hdisj; simpl; [constructor|].
  inversion Hnd; subst. apply NoDup_app_intro.
  - apply Hf. simpl; auto.
  - apply IH; auto.
    + intros x Hx. apply Hf. simpl; auto.
    + intros x y z Hx Hy. apply Hdisj; simpl; auto.
  - intros z Hz Hz'. apply in_flat_map in Hz'. destruct Hz' as [y [Hy Hzy]].
    assert (a = y) by (apply (Hdisj a y z); simpl; auto). subst. contradiction.
Qed.

Lemma NoDup_map_inj : forall A B (f : A -> B) l,
  (forall x y, In x l -> In y l -> f x = f y -> x = y) -> NoDup l -> NoDup (map f l).
Proof.
  induction l as [|a l IH]; intros Hinj Hnd; simpl; [constructor|].
  inversion Hnd; subst. constructor.
  - intros Hin. apply in_map_iff in Hin. destruct Hin as [x [Hfx Hx]].
    assert (x = a) by (apply Hinj; simpl; auto). subst. contradiction.
  - apply IH; auto. intros x y Hx Hy. apply Hinj; simpl; auto.
Qed.

Lemma in_lprod : forall A (b : list A) k l,
  In l (lprod b k) <-> length l = k /\ Forall (fun x => In x b) l.
Proof.
  induction k as [|k IH]; intros l; simpl.
  - split.
    + intros [<-|[]]. split; auto.
    + intros [H _]. destruct l; [left; auto | discriminate].
  - rewrite in_flat_map. split.
    + intros [x [Hx Hin]]. apply in_map_iff in Hin. destruct Hin as [l' [<- Hl']].
      apply IH in Hl'. destruct Hl'. split; simpl; auto.
    + intros [Hl Hf]. destruct l as [|x l']; [discriminate|]. inversion Hf; subst.
      exists x. split; auto. apply in_map. apply IH. split; auto.
Qed.

Lemma NoDup_lprod : forall A (b : list A) k, NoDup b -> NoDup (lprod b k).
Proof.
  induction k as [|k IH]; intros Hb; simpl.
  - constructor; auto. constructor.
  - apply NoDup_flat_map; auto.
    + intros x _. apply NoDup_map_inj; auto. intros ? ? _ _ E. now inversion E.
    + intros x y z _ _ Hx Hy. apply in_map_iff in Hx. apply in_map_iff in Hy.
      destruct Hx as [? [<- _]]. destruct Hy as [? [E _]]. now inversion E.
Qed.

Lemma filter_filter_implied : forall A (f g : A -> bool) l,
  (forall x, In x l -> f x = true -> g x = true) -> filter f (filter g l) = filter f l.
Proof.
  induction l as [|a l IH]; intros H; simpl; auto.
  destruct (g a) eqn:Eg; simpl.
  - destruct (f a); [f_equal|]; apply IH; intros; apply H; simpl; auto.
  - destruct (f a) eqn:Ef.
    + rewrite (H a) in Eg; simpl; auto. discriminate.
    + apply IH. intros; apply H; simpl; auto.
Qed.

Lemma list_nat_eqb_eq : forall a b, list_nat_eqb a b = true <-> a = b.
Proof.
  induction a as [|x a IH]; destruct b as [|y b]; simpl; split; intros H; try discriminate; auto.
  - apply andb_true_iff in H. destruct H as [H1 H2]. apply Nat.eqb_eq in H1. apply IH in H2. congruence.
  - inversion H; subst. rewrite Nat.eqb_refl. simpl. now apply IH.
Qed.

(* ------------------------------------------------------------------ (c) pruning and get_allowed_shapes *)

Lemma lukb_hd : forall s, lukb s = true -> 1 < length s -> negb (hd 0 s =? 0) = true.
Proof.
  intros [|a [|b r]] H Hl; simpl in Hl; try lia.
  destruct a; [|reflexivity]. unfold lukb in H. simpl in H. discriminate.
Qed.

Lemma lukb_last : forall s, lukb s = true -> (last s 1 =? 0) = true.
Proof.
  intros s H. destruct s as [|a s]; [discriminate|].
  destruct (split_last1 (a :: s)) as [xs [y [Hs Hl]]]; [congruence|].
  rewrite Hl. unfold lukb in H. rewrite Hs in H. apply lukb_aux_last in H. subst. reflexivity.
Qed.

Lemma lukb_penult : forall s n, lukb s = true -> length s = n -> 1 < n ->
  negb (nth (n - 2) s 0 =? 2) = true.
Proof.
  intros s n H Hl Hn. destruct n as [|[|m]]; try lia.
  replace (S (S m) - 2) with m by lia.
  destruct (split_last2 m s Hl) as [xs [x [y [Hs [Hx _]]]]].
  rewrite Hx. destruct (Nat.eq_dec x 2) as [->|Hne].
  - unfold lukb in H. rewrite Hs, lukb_aux_penult in H. discriminate.
  - apply negb_true_iff. now apply Nat.eqb_neq.
Qed.

Lemma in_prefilter : forall n l s, In s (prefilter n l) ->
  In s l /\ last s 1 = 0 /\ (1 < n -> hd 0 s <> 0).
Proof.
  intros n l s. unfold prefilter. destruct (1 <? n) eqn:E.
  - rewrite !filter_In. intros [[[H1 H2] H3] H4]. repeat split; auto.
    + now apply Nat.eqb_eq.
    + intros _. apply negb_true_iff in H2. now apply Nat.eqb_neq.
  - rewrite !filter_In. intros [H1 H3]. repeat split; auto.
    + now apply Nat.eqb_eq.
    + intros Hn. apply Nat.ltb_ge in E. lia.
Qed.

Lemma prefilter_lukb : forall n l, (forall s, In s l -> length s = n) ->
  filter lukb (prefilter n l) = filter lukb l.
Proof.
  intros n l Hlen. unfold prefilter. destruct (1 <? n) eqn:E.
  - apply Nat.ltb_lt in E.
    rewrite filter_filter_implied.
    2:{ intros s Hin Hl. apply filter_In in Hin. destruct Hin as [Hin _].
        apply filter_In in Hin. destruct Hin as [Hin _].
        apply (lukb_penult s n Hl); auto. }
    rewrite filter_filter_implied.
    2:{ intros s _ Hl. now apply lukb_last. }
    apply filter_filter_implied.
    intros s Hin Hl. apply lukb_hd; auto. rewrite (Hlen s Hin). exact E.
  - apply filter_filter_implied. intros s _ Hl. now apply lukb_last.
Qed.

Lemma nth_error_mask_prefix : forall p cand msk k row b,
  nth_error cand k = Some row -> nth_error msk k = Some b ->
  nth_error (mask_prefix p cand msk) k =
  Some (if list_nat_eqb (firstn (length p) row) p then false else b).
Proof.
  intros p. unfold mask_prefix.
  induction cand as [|c cand IH]; intros [|m msk] [|k] row b Hc Hm; simpl in *; try discriminate.
  - inversion Hc; inversion Hm; subst. reflexivity.
  - now apply IH.
Qed.

Lemma mask_prefix_length : forall p cand msk, length msk = length cand ->
  length (mask_prefix p cand msk) = length cand.
Proof.
  intros. unfold mask_prefix. rewrite map_length, combine_length. lia.
Qed.

Lemma nth_error_upd_false : forall msk i k b,
  nth_error (upd i (fun _ => false) msk) k = Some b ->
  (k = i /\ b = false) \/ (k <> i /\ nth_error msk k = Some b).
Proof.
  intros msk i k b H. destruct (Nat.eq_dec k i) as [->|Hne].
  - left. split; auto. destruct (nth_error msk i) as [x|] eqn:E.
    + rewrite (nth_error_upd_eq _ _ _ _ _ E) in H. now inversion H.
    + apply nth_error_None in E.
      assert (nth_error (upd i (fun _ => false) msk) i = None)
        by (apply nth_error_None; now rewrite upd_length).
      congruence.
  - right. split; auto. rewrite nth_error_upd_neq in H by auto. exact H.
Qed.

Definition good (n : nat) (row : list nat) : Prop :=
  exists p t, check_tree row = Ok (lukb row, p, t) /\
    (lukb row = false ->
     exists p', p = Some p' /\
       forall s', length s' = n -> firstn (length p') s' = p' -> lukb s' = false).

Lemma good_row : forall n row, 1 <= n -> length row = n -> Forall le2 row ->
  last row 1 = 0 -> (1 < n -> hd 0 row <> 0) -> good n row.
Proof.
  intros n row Hn Hl Hle Hlast Hhd.
  destruct (Nat.eq_dec n 1) as [->|Hne].
  - destruct row as [|a [|b r]]; simpl in Hl; try lia. simpl in Hlast. subst a.
    exists None, [mknode 0]. split; [reflexivity|]. intros H. discriminate.
  - destruct (check_tree_spec row ltac:(lia) (Hhd ltac:(lia)) Hle) as [p [t [Hct [_ Hpr]]]].
    exists (Some p), t. split; [exact Hct|]. intros Hf. exists p. split; [reflexivity|].
    intros s' Hs'. apply Hpr; auto. lia.
Qed.

Lemma mloop_spec : forall n cand, (forall row, In row cand -> length row = n /\ good n row) ->
  forall rest done msk, cand = done ++ rest -> length msk = length cand ->
  (forall k row b, nth_error cand k = Some row -> nth_error msk k = Some b -> b = false -> lukb row = false) ->
  (forall k row b, k < length done -> nth_error cand k = Some row -> nth_error msk k = Some b ->
                   lukb row = false -> b = false) ->
  exists msk', mloop cand rest (length done) msk = Ok msk' /\ length msk' = length cand /\
    forall k row b, nth_error cand k = Some row -> nth_error msk' k = Some b -> b = lukb row.
Proof.
  intros n cand Hgood. induction rest as [|s rest IH]; intros done msk Hc Hlen Hsound Hcompl.
  - exists msk. simpl. split; auto. split; auto.
    intros k row b Hr Hb. rewrite app_nil_r in Hc. subst done.
    assert (Hk : k < length cand) by (apply nth_error_Some; congruence).
    destruct b, (lukb row) eqn:E; auto.
    + specialize (Hcompl k row true Hk Hr Hb E). discriminate.
    + specialize (Hsound k row false Hr Hb eq_refl). congruence.
  - assert (Hs : nth_error cand (length done) = Some s).
    { rewrite Hc. rewrite nth_error_app2 by lia. now rewrite Nat.sub_diag. }
    assert (Hin : In s cand) by (eapply nth_error_In; eauto).
    destruct (Hgood s Hin) as [Hl [p [t [Hct Hpr]]]].
    assert (Hc' : cand = (done ++ [s]) ++ rest) by (rewrite <- app_assoc; exact Hc).
    assert (Hld : length (done ++ [s]) = S (length done)) by (rewrite app_length; simpl; lia).
    simpl. rewrite Hct. destruct (lukb s) eqn:E.
    + rewrite <- Hld. apply IH; auto.
      intros k row b Hk Hr Hb Hf. rewrite Hld in Hk.
      destruct (Nat.eq_dec k (length done)) as [->|Hne].
      * rewrite Hs in Hr. inversion Hr; subst. congruence.
      * apply (Hcompl k row b); auto. lia.
    + destruct (Hpr eq_refl) as [p' [-> Hprune]].
      set (msk1 := upd (length done) (fun _ : bool => false) msk).
      assert (Hl1 : length msk1 = length cand) by (unfold msk1; now rewrite upd_length).
      rewrite <- Hld. apply IH; auto.
      * now apply mask_prefix_length.
      * intros k row b Hr Hb Hbf.
        destruct (nth_error msk1 k) as [b1|] eqn:Eb1.
        2:{ apply nth_error_None in Eb1. assert (k < length cand) by (apply nth_error_Some; congruence). lia. }
        rewrite (nth_error_mask_prefix p' cand msk1 k row b1 Hr Eb1) in Hb. inversion Hb as [Hb'].
        destruct (list_nat_eqb (firstn (length p') row) p') eqn:Em.
        -- apply list_nat_eqb_eq in Em. apply Hprune; auto.
           apply (Hgood row). eapply nth_error_In; eauto.
        -- subst b1 b. unfold msk1 in Eb1. apply nth_error_upd_false in Eb1.
           destruct Eb1 as [[-> _]|[_ Hm]].
           ++ rewrite Hs in Hr. inversion Hr; subst. exact E.
           ++ apply (Hsound k row false); auto.
      * intros k row b Hk Hr Hb Hf. rewrite Hld in Hk.
        destruct (nth_error msk1 k) as [b1|] eqn:Eb1.
        2:{ apply nth_error_None in Eb1. assert (k < length cand) by (apply nth_error_Some; congruence). lia. }
        rewrite (nth_error_mask_prefix p' cand msk1 k row b1 Hr Eb1) in Hb. inversion Hb as [Hb'].
        destruct (list_nat_eqb (firstn (length p') row) p'); [reflexivity|].
        unfold msk1 in Eb1. apply nth_error_upd_false in Eb1.
        destruct Eb1 as [[_ ->]|[Hne Hm]]; [reflexivity|].
        apply (Hcompl k row b1); auto. lia.
Qed.

Lemma apply_mask_spec : forall (cand : list (list nat)) msk, length msk = length cand ->
  (forall k row b, nth_error cand k = Some row -> nth_error msk k = Some b -> b = lukb row) ->
  apply_mask cand msk = filter lukb cand.
Proof.
  unfold apply_mask.
  induction cand as [|c cand IH]; intros [|m msk] Hl H; simpl in *; try discriminate; auto.
  rewrite (H 0 c m eq_refl eq_refl).
  destruct (lukb c); simpl; [f_equal|]; apply IH; auto; intros k row b; apply (H (S k)).
Qed.

Lemma le2_of_in012 : forall s, Forall (fun x => In x [0; 1; 2]) s -> Forall le2 s.
Proof.
  intros s H. eapply Forall_impl; [|exact H]. intros a Ha. unfold le2. simpl in Ha.
  destruct Ha as [<-|[<-|[<-|[]]]]; lia.
Qed.

Lemma in012_of_le2 : forall s, Forall le2 s -> Forall (fun x => In x [0; 1; 2]) s.
Proof.
  intros s H. eapply Forall_impl; [|exact H]. intros a Ha. unfold le2 in Ha. simpl.
  destruct a as [|[|[|a]]]; auto. lia.
Qed.

(* get_allowed_shapes(n) = the Lukasiewicz-valid rows of product('012', repeat=n), in product order *)
Theorem allowed_eq : forall n, 1 <= n -> allowed n = Ok (allowed_spec n).
Proof.
  intros n Hn. unfold allowed, allowed_spec. destruct n as [|n']; [lia|].
  set (n := S n') in *.
  set (cand := prefilter n (product n)).
  assert (Hrows : forall row, In row cand -> length row = n /\ good n row).
  { intros row Hin. apply in_prefilter in Hin. destruct Hin as [Hp [Hlast Hhd]].
    apply in_lprod in Hp. destruct Hp as [Hl Hf]. split; auto.
    apply good_row; auto. now apply le2_of_in012. }
  destruct (mloop_spec n cand Hrows cand [] (repeat true (length cand)) eq_refl (repeat_length _ _))
    as [msk' [Hm [Hlen Hpt]]].
  - intros k row b _ Hb Hbf. apply nth_error_In in Hb. apply repeat_spec in Hb. congruence.
  - intros k row b Hk. simpl in Hk. lia.
  - simpl in Hm. rewrite Hm. f_equal.
    rewrite (apply_mask_spec cand msk' Hlen Hpt). unfold cand.
    apply prefilter_lukb. intros s Hs. apply in_lprod in Hs. tauto.
Qed.

Theorem allowed_spec_exact : forall n s,
  In s (allowed_spec n) <-> length s = n /\ exists t, pre t = s.
Proof.
  intros n s. unfold allowed_spec, product. rewrite filter_In, in_lprod, luk_iff. split.
  - intros [[Hl Hf] Hk]. split; auto. split; auto. now apply le2_of_in012.
  - intros [Hl [Hk Hf]]. split; auto. split; auto. now apply in012_of_le2.
Qed.

Theorem allowed_spec_NoDup : forall n, NoDup (allowed_spec n).
Proof.
  intros n. unfold allowed_spec, product. apply NoDup_filter. apply NoDup_lprod.
  repeat constructor; simpl; intuition lia.
Qed.

Theorem allowed_exact : forall n, 1 <= n ->
  exists l, allowed n = Ok l /\ l = filter lukb (product n) /\
            (forall s, In s l <-> length s = n /\ exists t, pre t = s) /\ NoDup l.
Proof.
  intros n Hn. exists (allowed_spec n). split; [now apply allowed_eq|]. split; [reflexivity|].
  split; [apply allowed_spec_exact | apply allowed_spec_NoDup].
Qed.

Theorem check_tree_iff : forall s, 2 <= length s -> hd 0 s <> 0 -> Forall le2 s ->
  exists p t, check_tree s = Ok (lukb s, Some p, t) /\ (lukb s = true <-> exists u, pre u = s).
Proof.
  intros s H1 H2 H3. destruct (check_tree_spec s H1 H2 H3) as [p [t [Hc _]]].
  exists p, t. split; auto. rewrite luk_iff. tauto.
Qed.

(* ------------------------------------------------------------------ arrays on success *)

Lemma size_pos : forall u, 1 <= size u.
Proof. destruct u; simpl; lia. Qed.

Lemma arr_length : forall u off p, length (arr u off p) = size u.
Proof.
  induction u; intros; simpl; auto. rewrite app_length, IHu1, IHu2. reflexivity.
Qed.

Fixpoint run (k i : nat) (t : list node) : option (list node) :=
  match k with
  | O => Some t
  | S k' => match step i t with Ok (true, t') => run k' (S i) t' | _ => None end
  end.

Lemma run_app : forall a b i t,
  run (a + b) i t = match run a i t with Some t' => run b (i + a) t' | None => None end.
Proof.
  induction a as [|a IH]; intros b i t; simpl.
  - now rewrite Nat.add_0_r.
  - destruct (step i t) as [[[|] t']| |]; auto. rewrite IH. now rewrite Nat.add_succ_r.
Qed.

Lemma loop_run : forall k i t t', run (S k) i t = Some t' -> loop (S k) i t = Ok (true, i + k, t').
Proof.
  induction k as [|k IH]; intros i t t' H.
  - simpl in *. destruct (step i t) as [[[|] t1]| |]; try discriminate. inversion H; subst.
    now rewrite Nat.add_0_r.
  - change (run (S (S k)) i t) with (match step i t with Ok (true, t1) => run (S k) (S i) t1 | _ => None end) in H.
    change (loop (S (S k)) i t) with
      (match step i t with
       | Ok (true, t1) => loop (S k) (S i) t1
       | Ok (false, t1) => Ok (false, i, t1) | Crash => Crash | Fuel => Fuel end).
    destruct (step i t) as [[[|] t1]| |]; try discriminate.
    rewrite (IH _ _ _ H). now rewrite Nat.add_succ_r.
Qed.

Definition Fresh (t : list node) (u : tree) (i : nat) (p : option nat) : Prop :=
  forall k a, nth_error (pre u) k = Some a ->
    exists nd, nth_error t (i + k) = Some nd /\ ty nd = a /\ lft nd = None /\ rgt nd = None /\
               par nd = (if k =? 0 then p else None).

Definition Filled (t : list node) (u : tree) (i : nat) (p : option nat) : Prop :=
  forall k nd, nth_error (arr u i p) k = Some nd -> nth_error t (i + k) = Some nd.

Lemma step_left : forall t i nd, nth_error t i = Some nd -> (ty nd = 1 \/ ty nd = 2) ->
  step i t = Ok (true, upd (S i) (set_par i) (upd i (set_lft (S i)) t)).
Proof.
  intros t i nd H Ht. unfold step. rewrite H.
  destruct Ht as [E|E]; rewrite E; reflexivity.
Qed.

Lemma step_leaf : forall t i nd h st, nth_error t i = Some nd -> ty nd = 0 ->
  Anc t i (par nd) (h :: st) ->
  step i t = Ok (true, upd (S i) (set_par h) (upd h (set_rgt (S i)) t)).
Proof.
  intros t i nd h st H Ht Hanc. unfold step. rewrite H, Ht. simpl.
  destruct (par nd) as [p|] eqn:Ep; [|inversion Hanc].
  assert (p < i) by (inversion Hanc; assumption).
  assert (i < length t) by (apply nth_error_Some; congruence).
  rewrite (climb_spec t i (Some p) (h :: st) Hanc i p (length t) eq_refl) by lia.
  reflexivity.
Qed.

Lemma node_eta : forall nd a p l r, ty nd = a -> par nd = p -> lft nd = l -> rgt nd = r -> nd = mkNode a p l r.
Proof. intros [? ? ? ?] ? ? ? ?; simpl; intros; subst; reflexivity. Qed.

Lemma subtree_run : forall u i t p st,
  i + size u <= length t -> Fresh t u i p -> Anc t i p st ->
  exists t', run (size u - 1) i t = Some t' /\ length t' = length t /\
    (forall k, k < i \/ i + size u <= k -> nth_error t' k = nth_error t k) /\
    Filled t' u i p /\
    (exists ndl, nth_error t' (i + size u - 1) = Some ndl /\ ty ndl = 0 /\
                 Anc t' (i + size u - 1) (par ndl) st).
Proof.
  induction u as [|c IH|l IHl r IHr]; intros i t p st Hlen Hfr Hanc.
  - (* leaf *)
    destruct (Hfr 0 0 eq_refl) as [nd [Hnd [Hty [Hl [Hr Hp]]]]]. simpl in Hp. rewrite Nat.add_0_r in Hnd.
    exists t. simpl. repeat split; auto.
    + intros k nd' Hk. destruct k as [|[|k]]; simpl in Hk; try discriminate.
      inversion Hk; subst nd'. rewrite Nat.add_0_r, Hnd. f_equal. now apply node_eta.
    + exists nd. replace (i + 1 - 1) with i by lia. rewrite Hp. auto.
  - (* unary *)
    destruct (Hfr 0 1 eq_refl) as [nd [Hnd [Hty [Hl [Hr Hp]]]]]. simpl in Hp. rewrite Nat.add_0_r in Hnd.
    simpl in Hlen. assert (Hsc := size_pos c).
    set (t1 := upd (S i) (set_par i) (upd i (set_lft (S i)) t)).
    assert (Hstep : step i t = Ok (true, t1)) by (eapply step_left; eauto).
    assert (Hlen1 : length t1 = length t) by (unfold t1; now rewrite !upd_length).
    assert (Hoth : forall k, k <> i -> k <> S i -> nth_error t1 k = nth_error t k).
    { intros k H1 H2. unfold t1. now rewrite !nth_error_upd_neq by lia. }
    assert (Hi1 : nth_error t1 i = Some (set_lft (S i) nd)).
    { unfold t1. rewrite nth_error_upd_neq by lia. now apply nth_error_upd_eq. }
    assert (Hfr1 : Fresh t1 c (S i) (Some i)).
    { intros k a Hk. destruct (Hfr (S k) a Hk) as [nd' [Hnd' [Hty' [Hl' [Hr' Hp']]]]]. simpl in Hp'.
      replace (i + S k) with (S i + k) in Hnd' by lia.
      destruct k as [|k].
      - exists (set_par i nd'). rewrite Nat.add_0_r in *. split.
        + unfold t1. apply nth_error_upd_eq. rewrite nth_error_upd_neq by lia. exact Hnd'.
        + simpl. auto.
      - exists nd'. split; [rewrite Hoth by lia; exact Hnd'|]. simpl. auto. }
    assert (Hanc1 : Anc t1 (S i) (Some i) st).
    { eapply Anc_skip; [lia|exact Hi1| |].
      - unfold freebin. simpl. now rewrite Hty.
      - simpl. rewrite Hp. eapply Anc_frame; [exact Hanc|]. intros k Hk. apply Hoth; lia. }
    destruct (IH (S i) t1 (Some i) st ltac:(lia) Hfr1 Hanc1) as [t' [Hrun [Hlen' [Hout [Hfill Hlast]]]]].
    exists t'. split; [|split; [|split; [|split]]].
    + simpl. rewrite Nat.sub_0_r.
      replace (size c) with (S (size c - 1)) by lia. simpl. rewrite Hstep. exact Hrun.
    + lia.
    + intros k Hk. simpl in Hk. rewrite Hout by lia. apply Hoth; lia.
    + intros k nd' Hk. destruct k as [|k]; simpl in Hk.
      * inversion Hk; subst nd'. rewrite Nat.add_0_r. rewrite Hout by lia. rewrite Hi1. f_equal.
        apply node_eta; simpl; auto.
      * replace (i + S k) with (S i + k) by lia. now apply Hfill.
    + destruct Hlast as [ndl [H1 [H2 H3]]]. exists ndl.
      replace (i + size (U c) - 1) with (S i + size c - 1) by (simpl; lia). auto.
  - (* binary *)
    destruct (Hfr 0 2 eq_refl) as [nd [Hnd [Hty [Hl [Hr Hp]]]]]. simpl in Hp. rewrite Nat.add_0_r in Hnd.
    simpl in Hlen.
    assert (Hsl := size_pos l). assert (Hsr := size_pos r).
    assert (Hprel : length (pre l) = size l) by apply size_pre.
    set (t1 := upd (S i) (set_par i) (upd i (set_lft (S i)) t)).
    assert (Hstep : step i t = Ok (true, t1)) by (eapply step_left; eauto).
    assert (Hlen1 : length t1 = length t) by (unfold t1; now rewrite !upd_length).
    assert (Hoth : forall k, k <> i -> k <> S i -> nth_error t1 k = nth_error t k).
    { intros k H1 H2. unfold t1. now rewrite !nth_error_upd_neq by lia. }
    assert (Hi1 : nth_error t1 i = Some (set_lft (S i) nd)).
    { unfold t1. rewrite nth_error_upd_neq by lia. now apply nth_error_upd_eq. }
    assert (Hfr1 : Fresh t1 l (S i) (Some i)).
    { intros k a Hk.
      assert (Hk' : nth_error (pre (B l r)) (S k) = Some a).
      { simpl. rewrite nth_error_app1; auto. apply nth_error_Some. congruence. }
      destruct (Hfr (S k) a Hk') as [nd' [Hnd' [Hty' [Hl' [Hr' Hp']]]]]. simpl in Hp'.
      replace (i + S k) with (S i + k) in Hnd' by lia.
      destruct k as [|k].
      - exists (set_par i nd'). rewrite Nat.add_0_r in *. split.
        + unfold t1. apply nth_error_upd_eq. rewrite nth_error_upd_neq by lia. exact Hnd'.
        + simpl. auto.
      - exists nd'. split; [rewrite Hoth by lia; exact Hnd'|]. simpl. auto. }
    assert (Hanc1 : Anc t1 (S i) (Some i) (i :: st)).
    { eapply Anc_free; [lia|exact Hi1| |].
      - unfold freebin. simpl. now rewrite Hty, Hr.
      - simpl. rewrite Hp. eapply Anc_frame; [exact Hanc|]. intros k Hk. apply Hoth; lia. }
    destruct (IHl (S i) t1 (Some i) (i :: st) ltac:(lia) Hfr1 Hanc1)
      as [t2 [Hrun2 [Hlen2 [Hout2 [Hfill2 [ndl [Hndl [Htyl Hancl]]]]]]]].
    replace (S i + size l - 1) with (i + size l) in Hndl, Hancl by lia.
    (* the step at the last leaf of l attaches the root of r to the right of i *)
    set (j := i + size l).
    set (t3 := upd (S j) (set_par i) (upd i (set_rgt (S j)) t2)).
    assert (Hstep3 : step j t2 = Ok (true, t3)) by (eapply step_leaf; eauto).
    assert (Hlen3 : length t3 = length t) by (unfold t3; rewrite !upd_length; lia).
    assert (Hoth3 : forall k, k <> i -> k <> S j -> nth_error t3 k = nth_error t2 k).
    { intros k H1 H2. unfold t3. now rewrite !nth_error_upd_neq by lia. }
    assert (Hi2 : nth_error t2 i = Some (set_lft (S i) nd)) by (rewrite Hout2 by lia; exact Hi1).
    assert (Hi3 : nth_error t3 i = Some (set_rgt (S j) (set_lft (S i) nd))).
    { unfold t3. rewrite nth_error_upd_neq by (unfold j; lia). now apply nth_error_upd_eq. }
    assert (Hfr3 : Fresh t3 r (S j) (Some i)).
    { intros k a Hk.
      assert (Hk' : nth_error (pre (B l r)) (S (size l + k)) = Some a).
      { simpl. rewrite nth_error_app2 by lia. rewrite Hprel.
        replace (size l + k - size l) with k by lia. exact Hk. }
      destruct (Hfr _ a Hk') as [nd' [Hnd' [Hty' [Hl' [Hr' Hp']]]]]. simpl in Hp'.
      replace (i + S (size l + k)) with (S j + k) in Hnd' by (unfold j; lia).
      assert (Hnd2 : nth_error t2 (S j + k) = Some nd').
      { rewrite Hout2 by (unfold j; lia). rewrite Hoth by (unfold j; lia). exact Hnd'. }
      destruct k as [|k].
      - exists (set_par i nd'). rewrite Nat.add_0_r in *. split.
        + unfold t3. apply nth_error_upd_eq. rewrite nth_error_upd_neq by (unfold j; lia). exact Hnd2.
        + simpl. auto.
      - exists nd'. split; [rewrite Hoth3 by (unfold j; lia); exact Hnd2|]. simpl. auto. }
    assert (Hanc3 : Anc t3 (S j) (Some i) st).
    { eapply Anc_skip; [unfold j; lia|exact Hi3| |].
      - unfold freebin. simpl. apply andb_false_r.
      - simpl. rewrite Hp. eapply Anc_frame; [exact Hanc|]. intros k Hk.
        rewrite Hoth3 by (unfold j; lia). rewrite Hout2 by lia. apply Hoth; lia. }
    destruct (IHr (S j) t3 (Some i) st ltac:(unfold j; lia) Hfr3 Hanc3)
      as [t4 [Hrun4 [Hlen4 [Hout4 [Hfill4 Hlast4]]]]].
    exists t4. split; [|split; [|split; [|split]]].
    + replace (size (B l r) - 1) with (S ((size l - 1) + S (size r - 1))) by (simpl; lia).
      change (run (S (size l - 1 + S (size r - 1))) i t)
        with (match step i t with Ok (true, t') => run (size l - 1 + S (size r - 1)) (S i) t' | _ => None end).
      rewrite Hstep. rewrite run_app. rewrite Hrun2.
      replace (S i + (size l - 1)) with j by (unfold j; lia).
      simpl. rewrite Hstep3. exact Hrun4.
    + lia.
    + intros k Hk. simpl in Hk. rewrite Hout4 by (unfold j; lia). rewrite Hoth3 by (unfold j; lia).
      rewrite Hout2 by lia. apply Hoth; lia.
    + intros k nd' Hk. destruct k as [|k]; simpl in Hk.
      * inversion Hk; subst nd'. rewrite Nat.add_0_r. rewrite Hout4 by (unfold j; lia). rewrite Hi3. f_equal.
        apply node_eta; simpl; auto.
      * destruct (Nat.lt_ge_cases k (size l)) as [Hkl|Hkl].
        -- rewrite nth_error_app1 in Hk by (rewrite arr_length; exact Hkl).
           replace (i + S k) with (S i + k) by lia.
           rewrite Hout4 by (unfold j; lia). rewrite Hoth3 by (unfold j; lia). now apply Hfill2.
        -- rewrite nth_error_app2 in Hk by (rewrite arr_length; exact Hkl). rewrite arr_length in Hk.
           replace (i + S k) with (S j + (k - size l)) by (unfold j; lia).
           apply Hfill4. exact Hk.
    + destruct Hlast4 as [ndl4 [H1 [H2 H3]]]. exists ndl4.
      replace (i + size (B l r) - 1) with (S j + size r - 1) by (simpl; unfold j; lia). auto.
Qed.

Lemma nth_error_ext_len : forall A (l1 l2 : list A), length l1 = length l2 ->
  (forall k x, nth_error l2 k = Some x -> nth_error l1 k = Some x) -> l1 = l2.
Proof.
  induction l1 as [|a l1 IH]; intros [|b l2] Hl H; simpl in Hl; try discriminate; auto.
  f_equal.
  - specialize (H 0 b eq_refl). now inversion H.
  - apply IH; [lia|]. intros k x. apply (H (S k)).
Qed.

(* On a tree code of length >= 2, check_tree succeeds and the arrays it returns are exactly the
   parent/left/right indexing of the tree (nodes numbered in prefix order). *)
Theorem check_tree_arrays : forall u, 2 <= size u ->
  check_tree (pre u) = Ok (true, Some (pre u), arr u 0 None).
Proof.
  intros u Hs.
  assert (Hlen : length (pre u) = size u) by apply size_pre.
  set (t0 := map mknode (pre u)).
  assert (Hfr : Fresh t0 u 0 None).
  { intros k a Hk. exists (mknode a). split.
    - unfold t0. simpl. now apply map_nth_error.
    - simpl. destruct (k =? 0); auto. }
  destruct (subtree_run u 0 t0 None [] ltac:(unfold t0; rewrite map_length; simpl; lia) Hfr (Anc_none t0 0))
    as [t' [Hrun [Hlen' [_ [Hfill _]]]]].
  assert (Ht' : t' = arr u 0 None).
  { apply nth_error_ext_len.
    - rewrite Hlen', arr_length. unfold t0. now rewrite map_length.
    - intros k x Hk. apply (Hfill k x Hk). }
  assert (Hhd : hd 0 (pre u) <> 0).
  { destruct u; simpl in *; try lia; discriminate. }
  destruct (check_tree_spec (pre u) ltac:(lia) Hhd (pre_le2 u)) as [p [t [Hct _]]].
  rewrite lukb_pre in Hct. rewrite Hct.
  unfold check_tree in Hct.
  assert (E : (1 <? length (pre u)) = true) by (apply Nat.ltb_lt; lia). rewrite E in Hct.
  fold t0 in Hct.
  replace (length (pre u) - 1) with (S (size u - 2)) in Hct by lia.
  rewrite (loop_run (size u - 2) 0 t0 t') in Hct
    by (replace (S (size u - 2)) with (size u - 1) by lia; exact Hrun).
  injection Hct as H1 H2 H3. subst p t.
  rewrite firstn_all2 by lia. rewrite Ht'. reflexivity.
Qed.
