(* C14 (and the slice arithmetic C13 relies on): the translated split_idx and
   get_functions arithmetic tile [0,N) for every N >= 0 and P >= 1. *)
From Coq Require Import ZArith List Lia Arith.
From ESRV Require Import Common.Py Common.Tiling Gen.GenPartition.
Import ListNotations.
Open Scope Z_scope.

(* ------------------------------------------------------------------ *)
(* get_functions                                                       *)

Lemma while_dec_spec (N P : Z) (c : Z -> bool) (b : Z -> option Z) :
  0 <= N ->
  (forall k, c k = (k * (P - 1) >? N)) -> (forall k, b k = Some (k - 1)) ->
  forall (fuel : nat) (k0 : Z), 0 <= k0 -> (Z.to_nat k0 < fuel)%nat ->
  exists k, while_fuel fuel c b k0 = Some k /\ 0 <= k <= k0 /\ k * (P - 1) <= N.
Proof.
  intros HN Hc Hb fuel. induction fuel as [|fuel IH]; intros k0 Hk Hf; [lia|].
  cbn [while_fuel]. rewrite Hc. destruct (Z.gtb_spec (k0 * (P - 1)) N) as [Hgt|Hle].
  - rewrite Hb. cbn [bind].
    assert (k0 <> 0) by (intros ->; lia).
    destruct (IH (k0 - 1)) as (k & E & Hr & Hx); [lia|lia|].
    exists k. repeat split; try assumption; lia.
  - exists k0. repeat split; try lia.
Qed.

Lemma ceil_bounds (N P : Z) : 0 <= N -> 1 <= P -> 0 <= - ((- N) / P) <= N.
Proof.
  intros HN HP. split.
  - assert ((- N) / P <= 0) by (apply Z.div_le_upper_bound; lia). lia.
  - assert (- N <= (- N) / P); [|lia].
    apply Z.div_le_lower_bound; nia.
Qed.

(* the slice bounds handed to rank r *)
Definition gf_bounds (N P k r : Z) : Z * Z :=
  (r * k, if r =? P - 1 then N else (r + 1) * k).

Lemma get_functions_spec {A} (l : list A) (P : Z) :
  1 <= P ->
  exists k, 0 <= k /\ k * (P - 1) <= py_len l /\
    forall r, get_functions_slice l r P =
      Some (py_slice l (fst (gf_bounds (py_len l) P k r)) (snd (gf_bounds (py_len l) P k r)),
            fst (gf_bounds (py_len l) P k r), snd (gf_bounds (py_len l) P k r)).
Proof.
  intros HP. set (N := py_len l). assert (HN : 0 <= N) by (unfold N, py_len; lia).
  destruct (ceil_bounds N P HN HP) as [Hc0 Hc1].
  destruct (while_dec_spec N P (fun nLs => nLs * (P - 1) >? N) (fun nLs => let nLs := nLs - 1 in Some nLs)
              HN (fun _ => eq_refl) (fun _ => eq_refl) (Datatypes.S (length l)) (- ((- N) / P)) Hc0)
    as (k & E & Hk & Hx).
  { assert (HNl : N = Z.of_nat (length l)) by reflexivity. lia. }
  exists k. split; [lia|]. split; [exact Hx|]. intros r.
  unfold get_functions_slice, py_ceil_fdiv. fold N.
  destruct (Z.eqb_spec P 0); [lia|]. cbn [bind].
  cbv zeta in E |- *. rewrite E. cbn [bind]. unfold gf_bounds. cbn [fst snd].
  destruct (r =? P - 1); reflexivity.
Qed.

Definition nat_bounds (N P k : Z) (r : nat) : nat :=
  if (Z.of_nat r <? P) then Z.to_nat (Z.of_nat r * k) else Z.to_nat N.

Theorem get_functions_tiles {A B} (l : list A) (m : list B) (P : Z) :
  1 <= P -> length m = length l ->
  (forall r, 0 <= r < P -> get_functions_slice l r P <> None) /\
  concat (map (fun r => match get_functions_slice l (Z.of_nat r) P with
                        | Some (_, ds, de) => py_slice m ds de
                        | None => [] end) (seq 0 (Z.to_nat P))) = m.
Proof.
  intros HP Hlen. destruct (get_functions_spec l P HP) as (k & Hk & Hx & Hs).
  split; [intros r _; rewrite Hs; discriminate|].
  set (N := py_len l) in *. assert (HN : 0 <= N) by (unfold N, py_len; lia).
  assert (HNm : py_len m = N) by (unfold N, py_len; now rewrite Hlen).
  etransitivity; [|apply (chunks_tile (nat_bounds N P k) m (Z.to_nat P))].
  - apply f_equal. apply map_ext_in. intros r Hr. apply in_seq in Hr.
    rewrite Hs. unfold gf_bounds, chunk, nat_bounds. cbn [fst snd].
    destruct (Z.ltb_spec (Z.of_nat r) P); [|lia].
    destruct (Z.eqb_spec (Z.of_nat r) (P - 1)) as [e|ne].
    + destruct (Z.ltb_spec (Z.of_nat (Datatypes.S r)) P); [lia|].
      rewrite py_slice_in_range; [reflexivity| nia | lia].
    + destruct (Z.ltb_spec (Z.of_nat (Datatypes.S r)) P); [|lia].
      rewrite py_slice_in_range; [|nia|nia].
      replace (Z.of_nat (Datatypes.S r)) with (Z.of_nat r + 1) by lia. reflexivity.
  - unfold nat_bounds. destruct (Z.ltb_spec (Z.of_nat 0) P); lia.
  - intros r Hr. unfold nat_bounds.
    destruct (Z.ltb_spec (Z.of_nat r) P); [|lia].
    destruct (Z.ltb_spec (Z.of_nat (Datatypes.S r)) P); nia.
  - unfold nat_bounds. destruct (Z.ltb_spec (Z.of_nat (Z.to_nat P)) P); [lia|].
    unfold N, py_len. rewrite Hlen. lia.
Qed.

(* the (data_start, data_end) pairs themselves form a chain 0 = s_0 <= e_0 = s_1 <= ... <= e_{P-1} = N *)
Definition gf_start {A} (l : list A) (r P : Z) : Z :=
  match get_functions_slice l r P with Some (_, ds, _) => ds | None => -1 end.
Definition gf_end {A} (l : list A) (r P : Z) : Z :=
  match get_functions_slice l r P with Some (_, _, de) => de | None => -1 end.

Theorem get_functions_chain {A} (l : list A) (P : Z) :
  1 <= P ->
  gf_start l 0 P = 0 /\ gf_end l (P - 1) P = py_len l /\
  (forall r, 0 <= r < P - 1 -> gf_end l r P = gf_start l (r + 1) P) /\
  (forall r, 0 <= r < P -> 0 <= gf_start l r P <= gf_end l r P /\ gf_end l r P <= py_len l).
Proof.
  intros HP. destruct (get_functions_spec l P HP) as (k & Hk & Hx & Hs).
  unfold gf_start, gf_end. repeat split; intros; rewrite ?Hs; unfold gf_bounds; cbn [fst snd].
  - lia.
  - rewrite Z.eqb_refl. reflexivity.
  - destruct (Z.eqb_spec r (P - 1)); lia.
  - nia.
  - destruct (Z.eqb_spec r (P - 1)); nia.
  - destruct (Z.eqb_spec r (P - 1)); nia.
Qed.

(* ------------------------------------------------------------------ *)
(* split_idx                                                           *)

Lemma py_repeat_single {A} (n : Z) (x : A) : py_repeat n [x] = repeat x (Z.to_nat n).
Proof.
  unfold py_repeat. induction (Z.to_nat n) as [|k IH]; cbn; [reflexivity|]. now rewrite IH.
Qed.

(* division point r of numpy.array_split: r*q + min r e *)
Definition div_point (q e r : Z) : Z := r * q + Z.min r e.

Lemma cumsum_repeat_nth (acc a : Z) (m i : nat) :
  (i < m)%nat -> nth_error (cumsum_from acc (repeat a m)) i = Some (acc + (Z.of_nat i + 1) * a).
Proof.
  revert acc i; induction m as [|m IH]; intros acc i Hi; [lia|].
  cbn [repeat cumsum_from]. destruct i as [|i]; cbn [nth_error].
  - f_equal. lia.
  - rewrite IH by lia. f_equal. lia.
Qed.

Lemma cumsum_app_nth_l acc l1 l2 i :
  (i < length l1)%nat -> nth_error (cumsum_from acc (l1 ++ l2)) i = nth_error (cumsum_from acc l1) i.
Proof.
  revert acc i; induction l1 as [|x l1 IH]; intros acc i Hi; cbn in *; [lia|].
  destruct i; cbn; [reflexivity|]. apply IH. lia.
Qed.

Lemma cumsum_app_nth_r acc l1 l2 i :
  (length l1 <= i)%nat ->
  nth_error (cumsum_from acc (l1 ++ l2)) i =
  nth_error (cumsum_from (fold_left Z.add l1 acc) l2) (i - length l1).
Proof.
  revert acc i; induction l1 as [|x l1 IH]; intros acc i Hi; cbn in *.
  - now rewrite Nat.sub_0_r.
  - destruct i; [lia|]. cbn. apply IH. lia.
Qed.

Lemma fold_add_repeat (a acc : Z) (m : nat) : fold_left Z.add (repeat a m) acc = acc + Z.of_nat m * a.
Proof.
  revert acc; induction m as [|m IH]; intros acc; cbn [repeat fold_left]; [lia|].
  rewrite IH. lia.
Qed.

Lemma div_points_nth (q e P : Z) (r : nat) :
  0 <= e -> e <= P -> (Z.of_nat r <= P) ->
  nth_error (py_cumsum (([0] ++ py_repeat e [q + 1]) ++ py_repeat (P - e) [q])) r
  = Some (div_point q e (Z.of_nat r)).
Proof.
  intros He HeP Hr. unfold py_cumsum, div_point. rewrite !py_repeat_single.
  cbn [app cumsum_from]. destruct r as [|r]; cbn [nth_error]; [f_equal; lia|].
  destruct (Nat.lt_ge_cases r (Z.to_nat e)) as [Hlt|Hge].
  - rewrite cumsum_app_nth_l by (rewrite repeat_length; lia).
    rewrite cumsum_repeat_nth by lia. f_equal. nia.
  - rewrite cumsum_app_nth_r by (rewrite repeat_length; lia).
    rewrite repeat_length, fold_add_repeat.
    rewrite cumsum_repeat_nth by lia. f_equal.
    rewrite Nat2Z.inj_sub by lia. rewrite Z2Nat.id by lia. nia.
Qed.

Definition si_range (o : option (list Z)) : list Z :=
  match o with
  | Some [a; b] => zinterval a (b + 1)
  | _ => []
  end.

Lemma split_idx_spec (N P r : Z) :
  0 <= N -> 1 <= P -> 0 <= r < P ->
  let q := N / P in let e := N mod P in
  split_idx N r P =
    Some (if div_point q e r >=? div_point q e (r + 1) then []
          else [div_point q e r; div_point q e (r + 1) - 1]).
Proof.
  intros HN HP Hr q e. unfold split_idx.
  destruct (Z.leb_spec P 0); [lia|].
  unfold py_divmod. destruct (Z.eqb_spec P 0); [lia|]. cbn [bind]. fold q e.
  assert (He : 0 <= e < P) by (apply Z.mod_pos_bound; lia).
  unfold py_index.
  destruct (Z.leb_spec 0 r); [|lia]. destruct (Z.leb_spec 0 (r + 1)); [|lia].
  replace r with (Z.of_nat (Z.to_nat r)) at 1 by lia.
  rewrite Nat2Z.id, div_points_nth by lia. cbn [bind].
  replace (Z.to_nat (r + 1)) with (Z.to_nat (r + 1)) by reflexivity.
  rewrite div_points_nth by lia. cbn [bind].
  rewrite !Z2Nat.id by lia.
  destruct (div_point q e r >=? div_point q e (r + 1)); reflexivity.
Qed.

Definition si_bounds (N P : Z) (r : nat) : nat := Z.to_nat (div_point (N / P) (N mod P) (Z.of_nat r)).

Theorem split_idx_tiles (N P : Z) :
  0 <= N -> 1 <= P ->
  (forall r, 0 <= r < P -> split_idx N r P <> None) /\
  concat (map (fun r => si_range (split_idx N (Z.of_nat r) P)) (seq 0 (Z.to_nat P))) = zrange N.
Proof.
  intros HN HP. split.
  { intros r Hr. rewrite split_idx_spec by assumption. discriminate. }
  assert (He : 0 <= N mod P < P) by (apply Z.mod_pos_bound; lia).
  assert (Hq : 0 <= N / P) by (apply Z.div_pos; lia).
  assert (HNd : N = P * (N / P) + N mod P) by (apply Z.div_mod; lia).
  etransitivity; [|apply (chunks_tile (si_bounds N P) (zrange N) (Z.to_nat P))].
  - apply f_equal. apply map_ext_in. intros r Hr. apply in_seq in Hr.
    rewrite split_idx_spec by lia. unfold chunk, si_bounds.
    set (q := N / P) in *. set (e := N mod P) in *.
    replace (Z.of_nat (Datatypes.S r)) with (Z.of_nat r + 1) by lia.
    assert (Hd0 : 0 <= div_point q e (Z.of_nat r)) by (unfold div_point; nia).
    assert (Hd1 : div_point q e (Z.of_nat r) <= div_point q e (Z.of_nat r + 1)) by (unfold div_point; nia).
    assert (Hd2 : div_point q e (Z.of_nat r + 1) <= N) by (unfold div_point; nia).
    destruct (Z.geb_spec (div_point q e (Z.of_nat r)) (div_point q e (Z.of_nat r + 1))) as [Hge|Hlt].
    + cbn [si_range]. replace (_ - _)%nat with 0%nat by lia. reflexivity.
    + cbn [si_range]. rewrite (zinterval_chunk N) by lia.
      replace (div_point q e (Z.of_nat r + 1) - 1 + 1) with (div_point q e (Z.of_nat r + 1)) by lia.
      reflexivity.
  - unfold si_bounds, div_point. cbn. lia.
  - intros r Hr. unfold si_bounds, div_point. nia.
  - unfold si_bounds, div_point. rewrite zrange_length. f_equal. nia.
Qed.

(* every index is owned by a rank, and by no second rank *)
Lemma si_range_spec (N P r i : Z) :
  0 <= N -> 1 <= P -> 0 <= r < P ->
  In i (si_range (split_idx N r P)) <->
  div_point (N / P) (N mod P) r <= i < div_point (N / P) (N mod P) (r + 1).
Proof.
  intros HN HP Hr. rewrite split_idx_spec by assumption.
  set (q := N / P). set (e := N mod P).
  destruct (Z.geb_spec (div_point q e r) (div_point q e (r + 1))) as [Hge|Hlt].
  - cbn [si_range]. split; [intros []|lia].
  - cbn [si_range]. unfold zinterval. rewrite in_map_iff. split.
    + intros [k [Hk Hin]]. apply in_seq in Hin. lia.
    + intros Hi. exists (Z.to_nat (i - div_point q e r)). split; [lia|]. apply in_seq. lia.
Qed.

Theorem split_idx_unique_owner (N P i : Z) :
  0 <= N -> 1 <= P -> 0 <= i < N ->
  exists r, 0 <= r < P /\ In i (si_range (split_idx N r P)) /\
    forall s, 0 <= s < P -> In i (si_range (split_idx N s P)) -> s = r.
Proof.
  intros HN HP Hi.
  assert (He : 0 <= N mod P < P) by (apply Z.mod_pos_bound; lia).
  assert (Hq : 0 <= N / P) by (apply Z.div_pos; lia).
  assert (HNd : N = P * (N / P) + N mod P) by (apply Z.div_mod; lia).
  set (q := N / P) in *. set (e := N mod P) in *.
  assert (Hmono : forall a b, 0 <= a -> a <= b -> div_point q e a <= div_point q e b).
  { intros a b Ha Hab. unfold div_point. nia. }
  (* owner: the rank r with dp r <= i < dp (r+1) *)
  assert (Hex : exists r, 0 <= r < P /\ div_point q e r <= i < div_point q e (r + 1)).
  { destruct (Z.ltb_spec i (e * (q + 1))) as [Hlo|Hhi].
    - exists (i / (q + 1)).
      assert (Hr0 : 0 <= i / (q + 1)) by (apply Z.div_pos; lia).
      assert (Hdm : i = (q + 1) * (i / (q + 1)) + i mod (q + 1)) by (apply Z.div_mod; lia).
      assert (Hm : 0 <= i mod (q + 1) < q + 1) by (apply Z.mod_pos_bound; lia).
      assert (Hre : i / (q + 1) < e) by nia.
      unfold div_point. split; [lia|]. split; nia.
    - assert (Hq1 : 1 <= q) by nia.
      set (j := i - e * (q + 1)) in *.
      assert (Hdm : j = q * (j / q) + j mod q) by (apply Z.div_mod; lia).
      assert (Hm : 0 <= j mod q < q) by (apply Z.mod_pos_bound; lia).
      assert (Hr0 : 0 <= j / q) by (apply Z.div_pos; lia).
      exists (e + j / q). unfold div_point. split; [nia|]. split; nia. }
  destruct Hex as [r [Hr Hin]]. exists r. split; [exact Hr|]. split.
  - apply si_range_spec; assumption.
  - intros s Hs Hins. apply si_range_spec in Hins; try assumption. fold q e in Hins.
    destruct (Z.lt_trichotomy s r) as [Hlt|[Heq|Hgt]]; [|exact Heq|].
    + pose proof (Hmono (s + 1) r ltac:(lia) ltac:(lia)). lia.
    + pose proof (Hmono (r + 1) s ltac:(lia) ltac:(lia)). lia.
Qed.
