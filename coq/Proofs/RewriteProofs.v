(* Proofs about Model/Rewrite.v (phase 1 of find_additional_trees / update_tree):
   soundness of every rule over the reals, labels, parameters, termination of the driver. *)
From Coq Require Import Reals ZArith List Bool Lia Lra.
From ESRV Require Import Model.Expr Model.Rewrite Proofs.ExprProofs.
Import ListNotations.

(* ================================================================ contexts *)

Lemma plug_app : forall c1 c2 e, plug (c1 ++ c2) e = plug c2 (plug c1 e).
Proof. induction c1 as [| f c1 IH]; intros c2 e; simpl; [reflexivity | apply IH]. Qed.

Lemma fill_equiv : forall f x y, equiv x y -> equiv (fill f x) (fill f y).
Proof.
  intros f x y H env v. destruct (H env v) as [Hd He].
  destruct f as [o | o b | o a]; simpl.
  - split.
    + split; intros [H1 H2]; (split; [tauto |]).
      * rewrite <- He by exact H1. exact H2.
      * rewrite He by tauto. exact H2.
    + intros [H1 _]. rewrite He by exact H1. reflexivity.
  - split.
    + split; intros [H1 [H2 H3]]; (split; [tauto | split; [exact H2 |]]).
      * rewrite <- He by exact H1. exact H3.
      * rewrite He by tauto. exact H3.
    + intros [H1 _]. rewrite He by exact H1. reflexivity.
  - split.
    + split; intros [H1 [H2 H3]]; (split; [exact H1 | split; [tauto |]]).
      * rewrite <- He by exact H2. exact H3.
      * rewrite He by tauto. exact H3.
    + intros [_ [H2 _]]. rewrite He by exact H2. reflexivity.
Qed.

Lemma plug_equiv : forall c x y, equiv x y -> equiv (plug c x) (plug c y).
Proof.
  induction c as [| f c IH]; intros x y H; simpl; [exact H |].
  apply IH. apply fill_equiv. exact H.
Qed.

(* ================================================================ the running product *)
Open Scope R_scope.

Definition rv (acc : Z * Z) : R := IZR (fst acc) / IZR (snd acc).
Definition okacc (acc : Z * Z) : Prop :=
  (0 < snd acc)%Z /\ fst acc <> 0%Z /\ ((fst acc mod snd acc = 0)%Z \/ (snd acc mod fst acc = 0)%Z).
Definition rf (o : unop) : R := match fac o with Some f => rv f | None => 1 end.

Lemma okacc_one : okacc (1%Z, 1%Z).
Proof. unfold okacc; simpl. split; [lia | split; [lia | left; reflexivity]]. Qed.

Lemma rv_one : rv (1%Z, 1%Z) = 1.
Proof. unfold rv; simpl. lra. Qed.

Lemma fac_pos : forall o f, fac o = Some f -> (0 < snd f)%Z /\ fst f <> 0%Z.
Proof. intros o f H; destruct o; simpl in H; inversion H; subst; simpl; lia. Qed.

Lemma accept_ok : forall acc o f acc',
  okacc acc -> fac o = Some f -> accept acc f = Some acc' ->
  okacc acc' /\ rv acc' = rv acc * rf o.
Proof.
  intros [n d] o [fn fd] acc' [Hd [Hn _]] Hf Ha. simpl in Hd, Hn.
  destruct (fac_pos _ _ Hf) as [Hfd Hfn]. simpl in Hfd, Hfn.
  unfold accept in Ha. simpl in Ha.
  destruct (((n * fn) mod (d * fd) =? 0)%Z || ((d * fd) mod (n * fn) =? 0)%Z) eqn:Hc; try discriminate.
  inversion Ha; subst; clear Ha.
  split.
  - unfold okacc; simpl. split; [nia | split; [nia |]].
    apply orb_true_iff in Hc. destruct Hc as [Hc | Hc]; apply Z.eqb_eq in Hc; [left | right]; exact Hc.
  - unfold rf. rewrite Hf. unfold rv; simpl. rewrite !mult_IZR.
    assert (IZR d <> 0) by (apply not_0_IZR; lia).
    assert (IZR fd <> 0) by (apply not_0_IZR; lia).
    field. split; assumption.
Qed.

Lemma numfmt_ok : forall acc op k,
  okacc acc -> numfmt acc = (op, k) ->
  k <> 0%Z /\ ((op = Mul /\ IZR k = rv acc) \/ (op = Div /\ / IZR k = rv acc)).
Proof.
  intros [n d] op k [Hd [Hn Hdiv]] H. simpl in Hd, Hn, Hdiv. unfold numfmt in H.
  assert (HdR : IZR d <> 0) by (apply not_0_IZR; lia).
  assert (HnR : IZR n <> 0) by (apply not_0_IZR; lia).
  destruct ((n mod d =? 0)%Z) eqn:Hc.
  - inversion H; subst; clear H. apply Z.eqb_eq in Hc.
    assert (Hq : n = (d * (n / d))%Z) by (apply Z_div_exact_full_2; [lia | exact Hc]).
    split.
    + intro H0. rewrite H0 in Hq. lia.
    + left. split; [reflexivity |]. unfold rv; simpl. rewrite Hq at 2. rewrite mult_IZR. field. exact HdR.
  - inversion H; subst; clear H. apply Z.eqb_neq in Hc.
    destruct Hdiv as [Hdiv | Hdiv]; [contradiction |].
    assert (Hq : d = (n * (d / n))%Z) by (apply Z_div_exact_full_2; [lia | exact Hdiv]).
    assert (Hk : (d / n <> 0)%Z) by (intro H0; rewrite H0 in Hq; lia).
    split; [exact Hk |].
    right. split; [reflexivity |]. unfold rv; simpl. rewrite Hq at 2. rewrite mult_IZR.
    assert (IZR (d / n) <> 0) by (apply not_0_IZR; exact Hk).
    field. split; assumption.
Qed.

(* ================================================================ power chains *)

(* p1(p2(...(u))) : operators outermost first *)
Definition chain (ops : list unop) (u : expr) : expr := fold_right Un u ops.
(* pd(...p1(e)) : operators innermost first *)
Definition wrap (ops : list unop) (e : expr) : expr := fold_left (fun a o => Un o a) ops e.
Definition allpow (ops : list unop) : Prop := forall o, In o ops -> is_pow o = true.
Fixpoint prodf (ops : list unop) : R := match ops with [] => 1 | o :: r => rf o * prodf r end.

Lemma prodf_app : forall a b, prodf (a ++ b) = prodf a * prodf b.
Proof. induction a as [| o a IH]; intros b; simpl; [lra | rewrite IH; lra]. Qed.

Lemma plug_map_F1 : forall ops c e, plug (map F1 ops ++ c) e = plug c (wrap ops e).
Proof.
  induction ops as [| o ops IH]; intros c e; simpl; [reflexivity |].
  rewrite IH. reflexivity.
Qed.

Lemma is_pow_fac : forall o, is_pow o = true -> exists f, fac o = Some f.
Proof. intros o H. unfold is_pow in H. destruct (fac o) as [f |]; [exists f; reflexivity | discriminate]. Qed.

Lemma scan_down_spec : forall e acc acc' u,
  okacc acc -> scan_down acc e = (acc', u) ->
  okacc acc' /\ exists ops, e = chain ops u /\ allpow ops /\ rv acc' = rv acc * prodf ops.
Proof.
  induction e as [l | o a IH | o a IHa b IHb]; intros acc acc' u Hok H; simpl in H.
  - inversion H; subst. split; [exact Hok |]. exists []. simpl. split; [reflexivity | split; [intros o [] | lra]].
  - destruct (fac o) as [f |] eqn:Hf.
    + destruct (accept acc f) as [acc1 |] eqn:Ha.
      * destruct (accept_ok _ _ _ _ Hok Hf Ha) as [Hok1 Hrv1].
        destruct (IH _ _ _ Hok1 H) as [Hok' [ops [He [Hall Hrv]]]].
        split; [exact Hok' |]. exists (o :: ops). simpl. split; [rewrite He; reflexivity |].
        split.
        -- intros o' [<- | Hin]; [unfold is_pow; rewrite Hf; reflexivity | apply Hall; exact Hin].
        -- rewrite Hrv, Hrv1. lra.
      * inversion H; subst. split; [exact Hok |]. exists []. simpl. split; [reflexivity | split; [intros o' [] | lra]].
    + inversion H; subst. split; [exact Hok |]. exists []. simpl. split; [reflexivity | split; [intros o' [] | lra]].
  - inversion H; subst. split; [exact Hok |]. exists []. simpl. split; [reflexivity | split; [intros o' [] | lra]].
Qed.

Lemma scan_up_spec : forall c acc acc' c',
  okacc acc -> scan_up acc c = (acc', c') ->
  okacc acc' /\ exists ops, c = map F1 ops ++ c' /\ allpow ops /\ rv acc' = rv acc * prodf ops.
Proof.
  induction c as [| fr c IH]; intros acc acc' c' Hok H; simpl in H.
  - inversion H; subst. split; [exact Hok |]. exists []. simpl. split; [reflexivity | split; [intros o [] | lra]].
  - destruct fr as [o | o b | o a];
      try (inversion H; subst; split; [exact Hok |]; exists []; simpl; split; [reflexivity | split; [intros o' [] | lra]]).
    destruct (fac o) as [f |] eqn:Hf.
    + destruct (accept acc f) as [acc1 |] eqn:Ha.
      * destruct (accept_ok _ _ _ _ Hok Hf Ha) as [Hok1 Hrv1].
        destruct (IH _ _ _ Hok1 H) as [Hok' [ops [He [Hall Hrv]]]].
        split; [exact Hok' |]. exists (o :: ops). simpl. split; [rewrite He; reflexivity |].
        split.
        -- intros o' [<- | Hin]; [unfold is_pow; rewrite Hf; reflexivity | apply Hall; exact Hin].
        -- rewrite Hrv, Hrv1. lra.
      * inversion H; subst. split; [exact Hok |]. exists []. simpl. split; [reflexivity | split; [intros o' [] | lra]].
    + inversion H; subst. split; [exact Hok |]. exists []. simpl. split; [reflexivity | split; [intros o' [] | lra]].
Qed.

(* one power operator under a logarithm / over an exponential *)
Lemma pow_step_log : forall o, is_pow o = true -> forall v,
  ((un_ok o v /\ eval_un o v <> 0) <-> v <> 0) /\
  (v <> 0 -> ln (Rabs (eval_un o v)) = rf o * ln (Rabs v)).
Proof.
  intros o Hp v. destruct o; try discriminate; unfold rf, rv; simpl.
  - (* inv *) split.
    + split; [tauto |]. intros H. split; [exact H | apply Rinv_neq_0_compat; exact H].
    + intros H. rewrite ln_abs_inv by exact H. lra.
  - (* square *) split.
    + split.
      * intros [_ H] Hv. apply H. subst. lra.
      * intros H. split; [exact I | apply Rmult_integral_contrapositive_currified; exact H].
    + intros H. rewrite ln_abs_square by exact H. lra.
  - (* cube *) split.
    + split.
      * intros [_ H] Hv. apply H. subst. lra.
      * intros H. split; [exact I |].
        apply Rmult_integral_contrapositive_currified; [apply Rmult_integral_contrapositive_currified |]; exact H.
    + intros H. rewrite ln_abs_cube by exact H. lra.
  - (* sqrt_abs *) split.
    + split.
      * intros [_ H]. apply sqrt_abs_nz_inv. exact H.
      * intros H. split; [exact I | apply sqrt_abs_nz; exact H].
    + intros H. rewrite ln_abs_sqrt_abs by exact H. lra.
Qed.

Lemma pow_step_exp : forall o, is_pow o = true -> forall w,
  un_ok o (exp w) /\ eval_un o (exp w) = exp (rf o * w).
Proof.
  intros o Hp w. destruct o; try discriminate; unfold rf, rv; simpl.
  - split; [apply exp_nz |]. rewrite inv_exp. f_equal. lra.
  - split; [exact I |]. rewrite exp_square. f_equal. lra.
  - split; [exact I |]. rewrite exp_cube. f_equal. lra.
  - split; [exact I |]. rewrite sqrt_abs_exp. f_equal. lra.
Qed.

(* what is known about  L0 = log_abs(chain ops u) : defined iff u is defined and non-zero; value q * ln|u| *)
Definition logfact (L0 u : expr) (q : R) : Prop :=
  forall env x,
    (defined env x L0 <-> (defined env x u /\ eval env x u <> 0)) /\
    (defined env x L0 -> eval env x L0 = q * ln (Rabs (eval env x u))).

Lemma chain_log : forall ops u, allpow ops ->
  forall env x,
    ((defined env x (chain ops u) /\ eval env x (chain ops u) <> 0) <-> (defined env x u /\ eval env x u <> 0)) /\
    (defined env x u /\ eval env x u <> 0 ->
       ln (Rabs (eval env x (chain ops u))) = prodf ops * ln (Rabs (eval env x u))).
Proof.
  induction ops as [| o ops IH]; intros u Hall env x; simpl.
  - split; [tauto | intros _; lra].
  - assert (Hall' : allpow ops) by (intros o' Hin; apply Hall; right; exact Hin).
    assert (Hp : is_pow o = true) by (apply Hall; left; reflexivity).
    destruct (IH u Hall' env x) as [Hd Hv].
    destruct (pow_step_log o Hp (eval env x (chain ops u))) as [Hs1 Hs2].
    split.
    + split.
      * intros [[H1 H2] H3]. apply Hd. split; [exact H1 | apply Hs1; split; assumption].
      * intros H. apply Hd in H. destruct H as [H1 H2]. apply Hs1 in H2. tauto.
    + intros H. assert (H' := H). apply Hd in H'. destruct H' as [H1 H2].
      rewrite Hs2 by exact H2. rewrite Hv by exact H. lra.
Qed.

Lemma chain_logfact : forall ops u, allpow ops -> logfact (Un LogAbs (chain ops u)) u (prodf ops).
Proof.
  intros ops u Hall env x. destruct (chain_log ops u Hall env x) as [Hd Hv]. simpl.
  split; [exact Hd |]. intros H. apply Hv. apply Hd. exact H.
Qed.

(* e0 is known to be defined exactly when u is, with value exp (q * u) *)
Definition expfact (e0 u : expr) (q : R) : Prop :=
  forall env x, (defined env x e0 <-> defined env x u) /\ eval env x e0 = exp (q * eval env x u).

Lemma wrap_expfact : forall ops e0 u q, allpow ops -> expfact e0 u q -> expfact (wrap ops e0) u (prodf ops * q).
Proof.
  induction ops as [| o ops IH]; intros e0 u q Hall H; simpl.
  - intros env x. destruct (H env x) as [Hd Hv]. split; [exact Hd | rewrite Hv; f_equal; lra].
  - assert (Hall' : allpow ops) by (intros o' Hin; apply Hall; right; exact Hin).
    assert (Hp : is_pow o = true) by (apply Hall; left; reflexivity).
    assert (H1 : expfact (Un o e0) u (rf o * q)).
    { intros env x. destruct (H env x) as [Hd Hv]. simpl. rewrite Hv.
      destruct (pow_step_exp o Hp (q * eval env x u)) as [Hok Hval].
      split; [tauto |]. rewrite Hval. f_equal. lra. }
    intros env x. destruct (IH _ _ _ Hall' H1 env x) as [Hd Hv].
    split; [exact Hd |]. rewrite Hv. f_equal. lra.
Qed.

Lemma exp_expfact : forall u, expfact (Un Exp u) u 1.
Proof. intros u env x. simpl. split; [tauto | f_equal; lra]. Qed.

(* ================================================================ soundness of the rules *)

Definition numspec (op : binop) (k : Z) (q : R) : Prop :=
  k <> 0%Z /\ ((op = Mul /\ IZR k = q) \/ (op = Div /\ / IZR k = q)).

Lemma numspec_one : forall op q, numspec op 1 q -> q = 1.
Proof. intros op q [_ [[_ H] | [_ H]]]; rewrite <- H; lra. Qed.

Lemma logfact_generic : forall L0 u q op k,
  logfact L0 u q -> numspec op k q ->
  equiv L0 (if (k =? 1)%Z then Un LogAbs u else Bin op (Un LogAbs u) (num k)).
Proof.
  intros L0 u q op k HL Hn env x. destruct (HL env x) as [Hd Hv].
  destruct ((k =? 1)%Z) eqn:Hk.
  - apply Z.eqb_eq in Hk. subst k. apply numspec_one in Hn. subst q. simpl.
    split; [exact Hd |]. intros H. rewrite Hv by exact H. lra.
  - destruct Hn as [Hk0 [[-> Hq] | [-> Hq]]]; simpl.
    + split; [tauto |]. intros H. rewrite Hv by exact H. rewrite Hq. lra.
    + assert (HkR : IZR k <> 0) by (apply not_0_IZR; exact Hk0).
      split; [tauto |]. intros H. rewrite Hv by exact H. rewrite <- Hq. unfold Rdiv. lra.
Qed.

(* M is defined when L0 is and has the opposite value *)
Definition negof (L0 M : expr) : Prop :=
  forall env x, (defined env x L0 <-> defined env x M) /\ (defined env x L0 -> eval env x M = - eval env x L0).

Lemma logk_negof : forall L0 u q k, logfact L0 u q -> IZR k = q -> negof L0 (logk u (- k)).
Proof.
  intros L0 u q k HL Hq env x. destruct (HL env x) as [Hd Hv]. unfold logk.
  destruct ((- k =? 1)%Z) eqn:Hk.
  - apply Z.eqb_eq in Hk. assert (k = (-1)%Z) by lia. subst k. simpl.
    split; [exact Hd |]. intros H. rewrite Hv by exact H. rewrite <- Hq. lra.
  - simpl. split; [tauto |]. intros H. rewrite Hv by exact H. rewrite <- Hq. rewrite opp_IZR. lra.
Qed.

Lemma rule_A1 : forall L0 M o io a, negof L0 M -> inv_of o = Some io -> equiv (Bin o a L0) (Bin io a M).
Proof.
  intros L0 M o io a HN Hio env x. destruct (HN env x) as [Hd Hv].
  destruct o; simpl in Hio; inversion Hio; subst; simpl.
  - split; [tauto |]. intros [_ [H _]]. rewrite Hv by exact H. lra.
  - split; [tauto |]. intros [_ [H _]]. rewrite Hv by exact H. lra.
Qed.

Lemma rule_A2 : forall L0 M b, negof L0 M -> equiv (Bin Add L0 b) (Bin Sub b M).
Proof.
  intros L0 M b HN env x. destruct (HN env x) as [Hd Hv]. simpl.
  split; [tauto |]. intros [H _]. rewrite Hv by exact H. lra.
Qed.

Lemma rule_A3_first : forall L0 u q k b, logfact L0 u q -> IZR k = q ->
  equiv (Bin Sub L0 b) (Bin Mul (num (-1)) (Bin Add (Bin Mul (num (- k)) (Un LogAbs u)) b)).
Proof.
  intros L0 u q k b HL Hq env x. destruct (HL env x) as [Hd Hv]. simpl.
  split; [tauto |]. intros [H _]. rewrite Hv by exact H. rewrite <- Hq. rewrite opp_IZR. lra.
Qed.

Lemma rule_A3_second : forall L0 u q k, logfact L0 u q -> IZR k = q ->
  equiv L0 (Bin Mul (num k) (Un LogAbs u)).
Proof.
  intros L0 u q k HL Hq env x. destruct (HL env x) as [Hd Hv]. simpl.
  split; [tauto |]. intros H. rewrite Hv by exact H. rewrite <- Hq. lra.
Qed.

Lemma inv_of_cases : forall o io, inv_of o = Some io -> (o = Add /\ io = Sub) \/ (o = Sub /\ io = Add).
Proof. intros o io H; destruct o; simpl in H; inversion H; auto. Qed.

Lemma log_rewrite_sound : forall B c u op k L0 q,
  logfact L0 u q -> numspec op k q ->
  forall r, In r (log_rewrite B c u op k) -> equiv (plug c L0) r.
Proof.
  intros B c u op k L0 q HL Hn r Hr.
  assert (Hgen : equiv (plug c L0) (plug c (if (k =? 1)%Z then Un LogAbs u else Bin op (Un LogAbs u) (num k)))).
  { apply plug_equiv. eapply logfact_generic; eassumption. }
  unfold log_rewrite in Hr.
  destruct (negb (inb op B)); [destruct Hr |].
  destruct (binop_eqb op Mul && (k <? 0)%Z) eqn:Hneg.
  2:{ destruct Hr as [<- | []]. exact Hgen. }
  apply andb_true_iff in Hneg. destruct Hneg as [Hop _]. apply binop_eqb_eq in Hop. subst op.
  assert (Hq : IZR k = q).
  { destruct Hn as [_ [[_ H] | [H _]]]; [exact H | discriminate]. }
  destruct c as [| [o1 | o b | o a] c'].
  - destruct Hr as [<- | []]. exact Hgen.
  - destruct Hr as [<- | []]. exact Hgen.
  - (* left argument *)
    destruct (inv_of o) as [io |] eqn:Hio.
    2:{ destruct Hr as [<- | []]. exact Hgen. }
    assert (Hsecond : equiv (plug (FL o b :: c') L0) (plug c' (Bin o (Bin Mul (num k) (Un LogAbs u)) b))).
    { simpl. apply plug_equiv. apply (fill_equiv (FL o b)). eapply rule_A3_second; eassumption. }
    destruct (inb io B).
    + destruct (inv_of_cases _ _ Hio) as [[-> ->] | [-> ->]].
      * destruct Hr as [<- | []]. simpl. apply plug_equiv. apply rule_A2. eapply logk_negof; eassumption.
      * destruct Hr as [<- | [<- | []]].
        -- simpl. apply plug_equiv. eapply rule_A3_first; eassumption.
        -- exact Hsecond.
    + destruct Hr as [<- | []]. exact Hsecond.
  - (* right argument *)
    destruct (inv_of o) as [io |] eqn:Hio.
    2:{ destruct Hr as [<- | []]. exact Hgen. }
    destruct (inb io B).
    + destruct Hr as [<- | []]. simpl. apply plug_equiv. apply rule_A1; [| exact Hio]. eapply logk_negof; eassumption.
    + destruct Hr as [<- | []]. exact Hgen.
Qed.

Lemma expfact_result : forall e0 u q op k,
  expfact e0 u q -> numspec op k q ->
  equiv e0 (Un Exp (if (k =? 1)%Z then u else Bin op u (num k))).
Proof.
  intros e0 u q op k HE Hn env x. destruct (HE env x) as [Hd Hv].
  destruct ((k =? 1)%Z) eqn:Hk.
  - apply Z.eqb_eq in Hk. subst k. apply numspec_one in Hn. subst q. simpl.
    split; [tauto |]. intros _. rewrite Hv. f_equal. lra.
  - destruct Hn as [Hk0 [[-> Hq] | [-> Hq]]]; simpl.
    + split; [tauto |]. intros _. rewrite Hv. f_equal. rewrite Hq. lra.
    + assert (HkR : IZR k <> 0) by (apply not_0_IZR; exact Hk0).
      split; [tauto |]. intros _. rewrite Hv. f_equal. rewrite <- Hq. unfold Rdiv. lra.
Qed.

Lemma exp_rewrite_sound : forall B c u r, In r (exp_rewrite B c u) -> equiv (plug c (Un Exp u)) r.
Proof.
  intros B c u r Hr. unfold exp_rewrite in Hr.
  destruct (scan_up (1%Z, 1%Z) c) as [acc c'] eqn:Hs.
  destruct (numfmt acc) as [op k] eqn:Hf.
  destruct (scan_up_spec _ _ _ _ okacc_one Hs) as [Hok [ops [Hc [Hall Hrv]]]].
  rewrite rv_one in Hrv.
  destruct (inb op B); [| destruct Hr].
  destruct Hr as [<- | []].
  subst c. rewrite plug_map_F1. apply plug_equiv.
  apply expfact_result with (q := rv acc).
  - rewrite Hrv. replace (1 * prodf ops) with (prodf ops * 1) by lra.
    apply wrap_expfact; [exact Hall | apply exp_expfact].
  - unfold numspec. apply numfmt_ok; assumption.
Qed.

Lemma here_cases : forall B c e rs, In rs (here B c e) ->
  (exists ops u op k, ops <> [] /\ allpow ops /\ e = Un LogAbs (chain ops u) /\ numspec op k (prodf ops) /\
                      rs = log_rewrite B c u op k) \/
  (exists u p c0, e = Un Exp u /\ c = F1 p :: c0 /\ is_pow p = true /\ rs = exp_rewrite B c u).
Proof.
  intros B c e rs H. unfold here in H.
  destruct e as [l | o a | o a b]; cbv beta iota in H; try contradiction.
  destruct o; cbv beta iota in H; try contradiction.
  - (* log_abs *)
    destruct a as [l | p a' | p a' b']; cbv beta iota in H; try contradiction.
    destruct (is_pow p) eqn:Hp; [| contradiction].
    destruct (scan_down (1%Z, 1%Z) (Un p a')) as [acc u] eqn:Hs.
    destruct (numfmt acc) as [op k] eqn:Hf.
    destruct H as [<- | []].
    destruct (scan_down_spec _ _ _ _ okacc_one Hs) as [Hok [ops [He [Hall Hrv]]]].
    rewrite rv_one in Hrv.
    left. exists ops, u, op, k.
    split.
    { (* the first operator is always accepted *)
      intro Hnil. subst ops. simpl in He. subst u.
      simpl in Hs. destruct (is_pow_fac p Hp) as [f Hfac]. rewrite Hfac in Hs.
      assert (Hacc : exists a1, accept (1%Z, 1%Z) f = Some a1).
      { destruct p; simpl in Hfac; inversion Hfac; subst; unfold accept; simpl; eexists; reflexivity. }
      destruct Hacc as [a1 Ha1]. rewrite Ha1 in Hs.
      (* scan_down returns a strict subterm then *)
      assert (Hsz : forall e acc acc' u, scan_down acc e = (acc', u) -> (size u <= size e)%nat).
      { clear. induction e as [l | o a IH | o a IHa b IHb]; intros acc acc' u H; simpl in H.
        - inversion H; subst; simpl; lia.
        - destruct (fac o); [destruct (accept acc p) |]; try (inversion H; subst; simpl; lia).
          apply IH in H. simpl. lia.
        - inversion H; subst; simpl; lia. }
      apply Hsz in Hs. simpl in Hs. lia. }
    split; [exact Hall |]. split; [rewrite He; reflexivity |].
    split; [| reflexivity].
    unfold numspec. replace (prodf ops) with (rv acc) by (rewrite Hrv; lra).
    apply numfmt_ok; assumption.
  - (* exp *)
    destruct c as [| [p | o b | o b] c0]; cbv beta iota in H; try contradiction.
    destruct (is_pow p) eqn:Hp; [| contradiction].
    destruct H as [<- | []].
    right. exists a, p, c0. repeat split; assumption.
Qed.

Lemma here_sound : forall B c e rs r, In rs (here B c e) -> In r rs -> equiv (plug c e) r.
Proof.
  intros B c e rs r Hrs Hr.
  destruct (here_cases _ _ _ _ Hrs) as [[ops [u [op [k [_ [Hall [-> [Hn ->]]]]]]]] | [u [p [c0 [-> [_ [_ ->]]]]]]].
  - eapply log_rewrite_sound; [apply chain_logfact; exact Hall | exact Hn | exact Hr].
  - apply exp_rewrite_sound with (B := B). exact Hr.
Qed.

Lemma scan_up_len : forall c acc acc' c', scan_up acc c = (acc', c') -> (length c' <= length c)%nat.
Proof.
  induction c as [| fr c IH]; intros acc acc' c' H; simpl in H.
  - inversion H; subst; simpl; lia.
  - destruct fr as [o | o b | o a]; try (inversion H; subst; simpl; lia).
    destruct (fac o); [destruct (accept acc p) |]; try (inversion H; subst; simpl; lia).
    apply IH in H. simpl. lia.
Qed.

Lemma accept_first : forall p f, fac p = Some f -> exists a1, accept (1%Z, 1%Z) f = Some a1.
Proof. intros p f H. destruct p; simpl in H; inversion H; subst; unfold accept; simpl; eexists; reflexivity. Qed.

Lemma exp_rewrite_cases : forall B p c0 u, is_pow p = true ->
  exists ops c' op k, ops <> [] /\ allpow ops /\ F1 p :: c0 = map F1 ops ++ c' /\ numspec op k (prodf ops) /\
    exp_rewrite B (F1 p :: c0) u =
      if inb op B then [plug c' (Un Exp (if (k =? 1)%Z then u else Bin op u (num k)))] else [].
Proof.
  intros B p c0 u Hp. unfold exp_rewrite.
  destruct (scan_up (1%Z, 1%Z) (F1 p :: c0)) as [acc c'] eqn:Hs.
  destruct (numfmt acc) as [op k] eqn:Hf.
  destruct (scan_up_spec _ _ _ _ okacc_one Hs) as [Hok [ops [Hc [Hall Hrv]]]].
  rewrite rv_one in Hrv.
  exists ops, c', op, k. split.
  { intro Hnil. subst ops. simpl in Hc. subst c'.
    simpl in Hs. destruct (is_pow_fac p Hp) as [f Hfac]. rewrite Hfac in Hs.
    destruct (accept_first _ _ Hfac) as [a1 Ha1]. rewrite Ha1 in Hs.
    apply scan_up_len in Hs. simpl in Hs. lia. }
  split; [exact Hall |]. split; [exact Hc |]. split; [| reflexivity].
  unfold numspec. replace (prodf ops) with (rv acc) by (rewrite Hrv; lra).
  apply numfmt_ok; assumption.
Qed.

(* the same decomposition without the arithmetic (no real numbers involved) *)
Lemma scan_down_syn : forall e acc acc' u, scan_down acc e = (acc', u) -> exists ops, e = chain ops u /\ allpow ops.
Proof.
  induction e as [l | o a IH | o a IHa b IHb]; intros acc acc' u H; simpl in H;
    try (inversion H; subst; exists []; simpl; split; [reflexivity | intros o' []]).
  destruct (fac o) as [f |] eqn:Hf; [destruct (accept acc f) as [acc1 |] |];
    try (inversion H; subst; exists []; simpl; split; [reflexivity | intros o' []]).
  destruct (IH _ _ _ H) as [ops [He Hall]]. exists (o :: ops). simpl. split; [rewrite He; reflexivity |].
  intros o' [<- | Hin]; [unfold is_pow; rewrite Hf; reflexivity | apply Hall; exact Hin].
Qed.

Lemma scan_up_syn : forall c acc acc' c', scan_up acc c = (acc', c') -> exists ops, c = map F1 ops ++ c' /\ allpow ops.
Proof.
  induction c as [| fr c IH]; intros acc acc' c' H; simpl in H.
  - inversion H; subst. exists []. simpl. split; [reflexivity | intros o' []].
  - destruct fr as [o | o b | o a];
      try (inversion H; subst; exists []; simpl; split; [reflexivity | intros o' []]).
    destruct (fac o) as [f |] eqn:Hf; [destruct (accept acc f) as [acc1 |] |];
      try (inversion H; subst; exists []; simpl; split; [reflexivity | intros o' []]).
    destruct (IH _ _ _ H) as [ops [He Hall]]. exists (o :: ops). simpl. split; [rewrite He; reflexivity |].
    intros o' [<- | Hin]; [unfold is_pow; rewrite Hf; reflexivity | apply Hall; exact Hin].
Qed.

Lemma scan_down_size : forall e acc acc' u, scan_down acc e = (acc', u) -> (size u <= size e)%nat.
Proof.
  induction e as [l | o a IH | o a IHa b IHb]; intros acc acc' u H; simpl in H.
  - inversion H; subst; simpl; lia.
  - destruct (fac o); [destruct (accept acc p) |]; try (inversion H; subst; simpl; lia).
    apply IH in H. simpl. lia.
  - inversion H; subst; simpl; lia.
Qed.

Lemma here_cases_syn : forall B c e rs, In rs (here B c e) ->
  (exists ops u op k, ops <> [] /\ allpow ops /\ e = Un LogAbs (chain ops u) /\ rs = log_rewrite B c u op k) \/
  (exists u ops c' op k, ops <> [] /\ allpow ops /\ e = Un Exp u /\ c = map F1 ops ++ c' /\
     rs = if inb op B then [plug c' (Un Exp (if (k =? 1)%Z then u else Bin op u (num k)))] else []).
Proof.
  intros B c e rs H. unfold here in H.
  destruct e as [l | o a | o a b]; cbv beta iota in H; try contradiction.
  destruct o; cbv beta iota in H; try contradiction.
  - destruct a as [l | p a' | p a' b']; cbv beta iota in H; try contradiction.
    destruct (is_pow p) eqn:Hp; [| contradiction].
    destruct (scan_down (1%Z, 1%Z) (Un p a')) as [acc u] eqn:Hs.
    destruct (numfmt acc) as [op k] eqn:Hf.
    destruct H as [<- | []].
    destruct (scan_down_syn _ _ _ _ Hs) as [ops [He Hall]].
    left. exists ops, u, op, k. split.
    { intro Hnil. subst ops. simpl in He. subst u.
      simpl in Hs. destruct (is_pow_fac p Hp) as [f Hfac]. rewrite Hfac in Hs.
      destruct (accept_first _ _ Hfac) as [a1 Ha1]. rewrite Ha1 in Hs.
      apply scan_down_size in Hs. simpl in Hs. lia. }
    split; [exact Hall |]. split; [rewrite He; reflexivity | reflexivity].
  - destruct c as [| [p | o b | o b] c0]; cbv beta iota in H; try contradiction.
    destruct (is_pow p) eqn:Hp; [| contradiction].
    destruct H as [<- | []].
    right. unfold exp_rewrite.
    destruct (scan_up (1%Z, 1%Z) (F1 p :: c0)) as [acc c'] eqn:Hs.
    destruct (numfmt acc) as [op k] eqn:Hf.
    destruct (scan_up_syn _ _ _ _ Hs) as [ops [Hc Hall]].
    exists a, ops, c', op, k. split.
    { intro Hnil. subst ops. simpl in Hc. subst c'.
      simpl in Hs. destruct (is_pow_fac p Hp) as [f Hfac]. rewrite Hfac in Hs.
      destruct (accept_first _ _ Hfac) as [a1 Ha1]. rewrite Ha1 in Hs.
      apply scan_up_len in Hs. simpl in Hs. lia. }
    split; [exact Hall |]. split; [reflexivity |]. split; [exact Hc | reflexivity].
Qed.

Close Scope R_scope.
Open Scope nat_scope.

(* ================================================================ labels and additive measures *)

Fixpoint lex (P : label -> Prop) (e : expr) : Prop :=
  match e with
  | Leaf n => P (LN n)
  | Un o a => P (LU o) \/ lex P a
  | Bin o a b => P (LB o) \/ lex P a \/ lex P b
  end.
Definition lex_frame (P : label -> Prop) (f : frame) : Prop :=
  match f with
  | F1 o => P (LU o)
  | FL o b => P (LB o) \/ lex P b
  | FR o a => P (LB o) \/ lex P a
  end.
Fixpoint lex_ctx (P : label -> Prop) (c : ctx) : Prop :=
  match c with [] => False | f :: c' => lex_frame P f \/ lex_ctx P c' end.

Lemma lex_plug : forall P c e, lex P (plug c e) <-> lex_ctx P c \/ lex P e.
Proof.
  intros P. induction c as [| f c IH]; intros e; simpl.
  - tauto.
  - rewrite IH. destruct f; simpl; tauto.
Qed.

Lemma lex_in : forall l e, lex (eq l) e <-> In l (to_prefix e).
Proof.
  intros l. induction e as [n | o a IH | o a IHa b IHb]; simpl.
  - split; [intros <-; left; reflexivity | intros [H | []]; symmetry; exact H].
  - rewrite IH. split; (intros [H | H]; [left; symmetry; exact H | right; exact H]).
  - rewrite in_app_iff, IHa, IHb. split; (intros [H | H]; [left; symmetry; exact H | right; exact H]).
Qed.

Lemma lex_par : forall i e, lex (eq (LN (NPar i))) e <-> has_par i e.
Proof.
  intros i. induction e as [n | o a IH | o a IHa b IHb]; simpl.
  - destruct n; split; intro H; try discriminate; try contradiction.
    + inversion H; reflexivity.
    + subst; reflexivity.
  - rewrite IH. split; [intros [H | H]; [discriminate | exact H] | intros H; right; exact H].
  - rewrite IHa, IHb. split; [intros [H | H]; [discriminate | exact H] | intros H; right; exact H].
Qed.

Lemma lex_chain : forall P ops u, lex P (chain ops u) <-> (exists o, In o ops /\ P (LU o)) \/ lex P u.
Proof.
  intros P. induction ops as [| o ops IH]; intros u; simpl.
  - split; [intros H; right; exact H | intros [[o [[] _]] | H]; exact H].
  - rewrite IH. split.
    + intros [H | [[o' [Hin HP]] | H]].
      * left. exists o. split; [left; reflexivity | exact H].
      * left. exists o'. split; [right; exact Hin | exact HP].
      * right. exact H.
    + intros [[o' [[<- | Hin] HP]] | H].
      * left. exact HP.
      * right. left. exists o'. split; assumption.
      * right. right. exact H.
Qed.

Lemma lex_ctx_app : forall P c1 c2, lex_ctx P (c1 ++ c2) <-> lex_ctx P c1 \/ lex_ctx P c2.
Proof. intros P. induction c1 as [| f c1 IH]; intros c2; simpl; [tauto | rewrite IH; tauto]. Qed.

Lemma lex_ctx_F1 : forall P ops, lex_ctx P (map F1 ops) <-> exists o, In o ops /\ P (LU o).
Proof.
  intros P. induction ops as [| o ops IH]; simpl.
  - split; [intros [] | intros [o [[] _]]].
  - rewrite IH. split.
    + intros [H | [o' [Hin HP]]]; [exists o; split; [left; reflexivity | exact H] | exists o'; split; [right; exact Hin | exact HP]].
    + intros [o' [[<- | Hin] HP]]; [left; exact HP | right; exists o'; split; assumption].
Qed.

Definition newlab (P : label -> Prop) (B : basis) : Prop :=
  (exists z, P (LN (NNum z))) \/ (exists o, inb o B = true /\ P (LB o)).
Definition oplab (P : label -> Prop) : Prop := (exists o, P (LU o)) \/ (exists o, P (LB o)).

(* labels: every label of a result is a label of the source, an integer, or a binary operator of the basis;
   conversely only operator labels disappear *)
Definition lab_rel (P : label -> Prop) (B : basis) (t r : expr) : Prop :=
  (lex P r -> lex P t \/ newlab P B) /\ (lex P t -> lex P r \/ oplab P).

Section Labels.
  Variable P : label -> Prop.
  Variable B : basis.

  Lemma nl_num : forall z, P (LN (NNum z)) -> newlab P B.
  Proof. intros z H. left. exists z. exact H. Qed.
  Lemma nl_op : forall o, inb o B = true -> P (LB o) -> newlab P B.
  Proof. intros o H1 H2. right. exists o. split; assumption. Qed.
  Lemma ol_un : forall o, P (LU o) -> oplab P.
  Proof. intros o H. left. exists o. exact H. Qed.
  Lemma ol_bin : forall o, P (LB o) -> oplab P.
  Proof. intros o H. right. exists o. exact H. Qed.
  Lemma ol_chain : forall ops, (exists o, In o ops /\ P (LU o)) -> oplab P.
  Proof. intros ops [o [_ H]]. left. exists o. exact H. Qed.

  Hint Resolve nl_num nl_op ol_un ol_bin ol_chain : labdb.

  Ltac labs Hchain :=
    unfold lab_rel; simpl; rewrite ?lex_plug; simpl; rewrite ?Hchain;
    split; intro H; intuition (eauto 4 with labdb).

  Lemma log_rewrite_labels : forall c ops u op k r,
    In r (log_rewrite B c u op k) -> lab_rel P B (plug c (Un LogAbs (chain ops u))) r.
  Proof.
    intros c ops u op k r Hr.
    assert (Hchain := lex_chain P ops u).
    unfold log_rewrite in Hr.
    destruct (inb op B) eqn:Hop; simpl in Hr; [| contradiction].
    assert (Hgen : forall c, lab_rel P B (plug c (Un LogAbs (chain ops u)))
                                     (plug c (if (k =? 1)%Z then Un LogAbs u else Bin op (Un LogAbs u) (num k)))).
    { intros c1. destruct ((k =? 1)%Z); labs Hchain. }
    destruct (binop_eqb op Mul && (k <? 0)%Z) eqn:Hneg.
    2:{ destruct Hr as [<- | []]. apply Hgen. }
    apply andb_true_iff in Hneg. destruct Hneg as [Hm _]. apply binop_eqb_eq in Hm. subst op.
    destruct c as [| [o1 | o b | o a] c'].
    - destruct Hr as [<- | []]. apply Hgen.
    - destruct Hr as [<- | []]. apply Hgen.
    - destruct (inv_of o) as [io |] eqn:Hio.
      2:{ destruct Hr as [<- | []]. apply Hgen. }
      assert (Hsecond : lab_rel P B (plug (FL o b :: c') (Un LogAbs (chain ops u)))
                                    (plug c' (Bin o (Bin Mul (num k) (Un LogAbs u)) b))).
      { labs Hchain. }
      destruct (inb io B) eqn:Hiob.
      + destruct (inv_of_cases _ _ Hio) as [[-> ->] | [-> ->]].
        * destruct Hr as [<- | []]. unfold logk. destruct ((- k =? 1)%Z); labs Hchain.
        * destruct Hr as [<- | [<- | []]]; [| exact Hsecond]. labs Hchain.
      + destruct Hr as [<- | []]. exact Hsecond.
    - destruct (inv_of o) as [io |] eqn:Hio.
      2:{ destruct Hr as [<- | []]. apply Hgen. }
      destruct (inb io B) eqn:Hiob.
      2:{ destruct Hr as [<- | []]. apply Hgen. }
      destruct Hr as [<- | []]. unfold logk. destruct ((- k =? 1)%Z); labs Hchain.
  Qed.

  Lemma here_labels : forall c e rs r, In rs (here B c e) -> In r rs -> lab_rel P B (plug c e) r.
  Proof.
    intros c e rs r Hrs Hr.
    destruct (here_cases_syn _ _ _ _ Hrs) as [[ops [u [op [k [_ [Hall [-> ->]]]]]]] | [u [ops [c' [op [k [_ [_ [-> [-> ->]]]]]]]]]].
    - apply log_rewrite_labels with (op := op) (k := k). exact Hr.
    - destruct (inb op B) eqn:Hop; [| destruct Hr]. destruct Hr as [<- | []].
      assert (HF := lex_ctx_F1 P ops).
      unfold lab_rel. rewrite !lex_plug, lex_ctx_app, HF.
      destruct ((k =? 1)%Z); simpl; split; intro H; intuition (eauto 4 with labdb).
  Qed.
End Labels.

Section Measure.
  Variable m : unop -> nat.

  Definition usum_frame (f : frame) : nat :=
    match f with F1 o => m o | FL _ b => usum m b | FR _ a => usum m a end.
  Fixpoint usum_ctx (c : ctx) : nat :=
    match c with [] => 0 | f :: c' => usum_frame f + usum_ctx c' end.
  Definition summ (ops : list unop) : nat := fold_right (fun o s => m o + s) 0 ops.

  Lemma usum_plug : forall c e, usum m (plug c e) = usum_ctx c + usum m e.
  Proof.
    induction c as [| f c IH]; intros e; simpl; [reflexivity |].
    rewrite IH. destruct f; simpl; lia.
  Qed.

  Lemma usum_chain : forall ops u, usum m (chain ops u) = summ ops + usum m u.
  Proof. induction ops as [| o ops IH]; intros u; simpl; [reflexivity | rewrite IH; lia]. Qed.

  Lemma usum_ctx_app : forall c1 c2, usum_ctx (c1 ++ c2) = usum_ctx c1 + usum_ctx c2.
  Proof. induction c1 as [| f c1 IH]; intros c2; simpl; [reflexivity | rewrite IH; lia]. Qed.

  Lemma usum_ctx_F1 : forall ops, usum_ctx (map F1 ops) = summ ops.
  Proof. induction ops as [| o ops IH]; simpl; [reflexivity | rewrite IH; reflexivity]. Qed.

  Ltac us := simpl; rewrite ?usum_plug; simpl; lia.

  Lemma log_rewrite_usum : forall B c u op k r,
    In r (log_rewrite B c u op k) -> usum m r = usum_ctx c + (m LogAbs + usum m u).
  Proof.
    intros B c u op k r Hr. unfold log_rewrite in Hr.
    destruct (negb (inb op B)); [destruct Hr |].
    assert (Hgen : usum m (plug c (if (k =? 1)%Z then Un LogAbs u else Bin op (Un LogAbs u) (num k)))
                   = usum_ctx c + (m LogAbs + usum m u)).
    { destruct ((k =? 1)%Z); us. }
    destruct (binop_eqb op Mul && (k <? 0)%Z).
    2:{ destruct Hr as [<- | []]. exact Hgen. }
    destruct c as [| [o1 | o b | o a] c'].
    - destruct Hr as [<- | []]. exact Hgen.
    - destruct Hr as [<- | []]. exact Hgen.
    - destruct (inv_of o) as [io |].
      2:{ destruct Hr as [<- | []]. exact Hgen. }
      destruct (inb io B).
      + destruct o.
        * destruct Hr as [<- | []]. unfold logk. destruct ((- k =? 1)%Z); us.
        * destruct Hr as [<- | [<- | []]]; us.
        * destruct Hr as [<- | [<- | []]]; us.
        * destruct Hr as [<- | [<- | []]]; us.
        * destruct Hr as [<- | [<- | []]]; us.
      + destruct Hr as [<- | []]. us.
    - destruct (inv_of o) as [io |].
      2:{ destruct Hr as [<- | []]. exact Hgen. }
      destruct (inb io B).
      + destruct Hr as [<- | []]. unfold logk. destruct ((- k =? 1)%Z); us.
      + destruct Hr as [<- | []]. exact Hgen.
  Qed.

  Lemma here_usum : forall B c e rs r, In rs (here B c e) -> In r rs ->
    exists ops, ops <> [] /\ allpow ops /\ usum m (plug c e) = usum m r + summ ops.
  Proof.
    intros B c e rs r Hrs Hr.
    destruct (here_cases_syn _ _ _ _ Hrs) as [[ops [u [op [k [Hne [Hall [-> ->]]]]]]] | [u [ops [c' [op [k [Hne [Hall [-> [-> ->]]]]]]]]]].
    - exists ops. split; [exact Hne |]. split; [exact Hall |].
      rewrite (log_rewrite_usum _ _ _ _ _ _ Hr). rewrite usum_plug. simpl. rewrite usum_chain. lia.
    - destruct (inb op B); [| destruct Hr]. destruct Hr as [<- | []].
      exists ops. split; [exact Hne |]. split; [exact Hall |].
      rewrite !usum_plug, usum_ctx_app, usum_ctx_F1. destruct ((k =? 1)%Z); simpl; lia.
  Qed.
End Measure.

Lemma summ_pow : forall ops, allpow ops -> summ (fun o => if is_pow o then 1 else 0) ops = length ops.
Proof.
  induction ops as [| o ops IH]; intros H; simpl; [reflexivity |].
  rewrite (H o (or_introl eq_refl)). rewrite IH; [reflexivity |]. intros o' Hin. apply H. right. exact Hin.
Qed.

Lemma pow_not_le : forall o, is_pow o = true -> is_le o = false.
Proof. intros o H. destruct o; try discriminate; reflexivity. Qed.

Lemma summ_le : forall ops, allpow ops -> summ (fun o => if is_le o then 1 else 0) ops = 0.
Proof.
  induction ops as [| o ops IH]; intros H; simpl; [reflexivity |].
  rewrite (pow_not_le o (H o (or_introl eq_refl))). rewrite IH; [reflexivity |]. intros o' Hin. apply H. right. exact Hin.
Qed.

Lemma here_npow : forall B c e rs r, In rs (here B c e) -> In r rs -> npow r < npow (plug c e).
Proof.
  intros B c e rs r Hrs Hr. unfold npow.
  destruct (here_usum (fun o => if is_pow o then 1 else 0) _ _ _ _ _ Hrs Hr) as [ops [Hne [Hall Heq]]].
  rewrite Heq, (summ_pow _ Hall). destruct ops; [contradiction | simpl; lia].
Qed.

Lemma here_nle : forall B c e rs r, In rs (here B c e) -> In r rs -> nle r = nle (plug c e).
Proof.
  intros B c e rs r Hrs Hr. unfold nle.
  destruct (here_usum (fun o => if is_le o then 1 else 0) _ _ _ _ _ Hrs Hr) as [ops [Hne [Hall Heq]]].
  rewrite Heq, (summ_le _ Hall). lia.
Qed.

(* ================================================================ all sites of a tree *)

Lemma walk_spec : forall B e c rs, In rs (walk B c e) ->
  exists c1 e1, plug c1 e1 = plug c e /\ In rs (here B c1 e1).
Proof.
  intros B. induction e as [l | o a IH | o a IHa b IHb]; intros c rs H; cbn [walk] in H; apply in_app_iff in H.
  - destruct H as [H | []]. exists c, (Leaf l). split; [reflexivity | exact H].
  - destruct H as [H | H].
    + exists c, (Un o a). split; [reflexivity | exact H].
    + destruct (IH _ _ H) as [c1 [e1 [Hp Hh]]]. exists c1, e1. split; [rewrite Hp; reflexivity | exact Hh].
  - destruct H as [H | H].
    + exists c, (Bin o a b). split; [reflexivity | exact H].
    + apply in_app_iff in H. destruct H as [H | H].
      * destruct (IHa _ _ H) as [c1 [e1 [Hp Hh]]]. exists c1, e1. split; [rewrite Hp; reflexivity | exact Hh].
      * destruct (IHb _ _ H) as [c1 [e1 [Hp Hh]]]. exists c1, e1. split; [rewrite Hp; reflexivity | exact Hh].
Qed.

Lemma here_length : forall B c e, length (here B c e) <= match e with Un o _ => if is_le o then 1 else 0 | _ => 0 end.
Proof.
  intros B c e. unfold here.
  destruct e as [l | o a | o a b]; cbv beta iota; try (simpl; lia).
  destruct o; cbv beta iota; try (simpl; lia).
  - destruct a as [l | p a' | p a' b']; cbv beta iota; try (simpl; lia).
    destruct (is_pow p); [| simpl; lia].
    destruct (scan_down (1%Z, 1%Z) (Un p a')) as [acc u]. destruct (numfmt acc). simpl. lia.
  - destruct c as [| [p | o b | o b] c0]; cbv beta iota; try (simpl; lia).
    destruct (is_pow p); simpl; lia.
Qed.

Lemma walk_length : forall B e c, length (walk B c e) <= nle e.
Proof.
  intros B. unfold nle. induction e as [l | o a IH | o a IHa b IHb]; intros c; cbn [walk usum]; rewrite app_length.
  - assert (H := here_length B c (Leaf l)). cbv beta iota in H. change (length (@nil (list expr))) with 0. lia.
  - assert (H := here_length B c (Un o a)). cbv beta iota in H. specialize (IH (F1 o :: c)). lia.
  - assert (H := here_length B c (Bin o a b)). cbv beta iota in H. rewrite app_length.
    specialize (IHa (FL o b :: c)). specialize (IHb (FR o a :: c)). lia.
Qed.

(* what one call of update_tree does: *)
Lemma apply_site_spec : forall B t k r, In r (apply_site B t k) ->
  k < nle t /\ exists c e rs, plug c e = t /\ In rs (here B c e) /\ In r rs.
Proof.
  intros B t k r H. unfold apply_site in H.
  destruct (Nat.lt_ge_cases k (length (sites B t))) as [Hlt | Hge].
  - split.
    + assert (Hl := walk_length B t []). unfold sites in Hlt. lia.
    + assert (Hin : In (nth k (sites B t) []) (sites B t)) by (apply nth_In; exact Hlt).
      unfold sites in Hin. destruct (walk_spec _ _ _ _ Hin) as [c1 [e1 [Hp Hh]]].
      exists c1, e1, (nth k (walk B [] t) []). simpl in Hp. split; [exact Hp | split; [exact Hh | exact H]].
  - rewrite nth_overflow in H by exact Hge. destruct H.
Qed.

Lemma apply_site_sound : forall B t k r, In r (apply_site B t k) -> equiv t r.
Proof.
  intros B t k r H. destruct (apply_site_spec _ _ _ _ H) as [_ [c [e [rs [<- [Hh Hr]]]]]].
  eapply here_sound; eassumption.
Qed.

Lemma apply_site_labels : forall P B t k r, In r (apply_site B t k) -> lab_rel P B t r.
Proof.
  intros P B t k r H. destruct (apply_site_spec _ _ _ _ H) as [_ [c [e [rs [<- [Hh Hr]]]]]].
  eapply here_labels; eassumption.
Qed.

Lemma apply_site_measures : forall B t k r, In r (apply_site B t k) ->
  k < nle t /\ npow r < npow t /\ nle r = nle t.
Proof.
  intros B t k r H. destruct (apply_site_spec _ _ _ _ H) as [Hk [c [e [rs [<- [Hh Hr]]]]]].
  split; [exact Hk |]. split; [eapply here_npow; eassumption | eapply here_nle; eassumption].
Qed.

(* ================================================================ the driver *)

Lemma add_new_in : forall seen rs added r, In r (add_new seen added rs) -> In r added \/ In r rs.
Proof.
  intros seen. unfold add_new. induction rs as [| a rs IH]; intros added r H; simpl in H.
  - left; exact H.
  - apply IH in H. destruct H as [H | H]; [| right; right; exact H].
    destruct (mem a (seen ++ added)); [left; exact H |].
    apply in_app_iff in H. destruct H as [H | [<- | []]]; [left; exact H | right; left; reflexivity].
Qed.

Lemma pass_fold_in : forall B seen l ad r,
  In r (fold_left (fun ad (en : entry) => add_new seen ad (apply_site B (fst en) (snd en))) l ad) ->
  In r ad \/ exists en, In en l /\ In r (apply_site B (fst en) (snd en)).
Proof.
  intros B seen. induction l as [| en l IH]; intros ad r H; simpl in H.
  - left; exact H.
  - apply IH in H. destruct H as [H | [en' [Hin Hr]]].
    + apply add_new_in in H. destruct H as [H | H]; [left; exact H |].
      right. exists en. split; [left; reflexivity | exact H].
    + right. exists en'. split; [right; exact Hin | exact Hr].
Qed.

Lemma pass_in : forall B entries r, In r (pass B entries) ->
  exists en, In en entries /\ In r (apply_site B (fst en) (snd en)).
Proof.
  intros B entries r H. unfold pass in H. apply pass_fold_in in H. destruct H as [[] | H]. exact H.
Qed.

Lemma drive_inv : forall (Q : expr -> Prop) B,
  (forall t k r, Q t -> In r (apply_site B t k) -> Q r) ->
  forall fuel entries out,
    (forall en, In en entries -> Q (fst en)) ->
    drive B fuel entries = Some out -> forall r, In r out -> Q r.
Proof.
  intros Q B Hstep. induction fuel as [| f IH]; intros entries out HQ H r Hr; cbn [drive] in H; [discriminate |].
  destruct (pass B entries) as [| a added] eqn:Hp.
  - inversion H; subst. apply in_map_iff in Hr. destruct Hr as [en [<- Hin]]. apply HQ. exact Hin.
  - eapply IH; [| exact H | exact Hr].
    intros en Hin. apply in_app_iff in Hin. destruct Hin as [Hin | Hin].
    + apply in_map_iff in Hin. destruct Hin as [en0 [<- Hin0]]. simpl. apply HQ. exact Hin0.
    + apply in_map_iff in Hin. destruct Hin as [t0 [<- Hin0]]. simpl.
      rewrite <- Hp in Hin0. destruct (pass_in _ _ _ Hin0) as [en0 [He0 Hr0]].
      eapply Hstep; [apply HQ; exact He0 | exact Hr0].
Qed.

Lemma phase1_inv : forall (Q : expr -> Prop) B t,
  Q t -> (forall t' k r, Q t' -> In r (apply_site B t' k) -> Q r) ->
  forall out, phase1 B t = Some out -> forall r, In r out -> Q r.
Proof.
  intros Q B t Ht Hstep out H r Hr. unfold phase1 in H.
  eapply drive_inv; [exact Hstep | | exact H | exact Hr].
  intros en [<- | []]. exact Ht.
Qed.

(* the list starts with the original tree *)
Lemma drive_head : forall B fuel entries out t k rest,
  entries = (t, k) :: rest -> drive B fuel entries = Some out -> exists out', out = t :: out'.
Proof.
  intros B. induction fuel as [| f IH]; intros entries out t k rest He H; cbn [drive] in H; [discriminate |].
  destruct (pass B entries) as [| a added].
  - inversion H; subst. simpl. eexists; reflexivity.
  - subst entries. simpl in H. eapply IH; [| exact H]. unfold bump; simpl. reflexivity.
Qed.

(* termination: potential  (pass number at which a tree was added) + E * npow(tree) <= E * P *)
Lemma drive_terminates : forall B E P fuel r entries,
  (forall en, In en entries -> snd en <= r /\ (r - snd en) + E * npow (fst en) <= E * P /\ nle (fst en) <= E) ->
  r <= E * P -> E * P + 1 <= fuel + r -> drive B fuel entries <> None.
Proof.
  intros B E P. induction fuel as [| f IH]; intros r entries Hinv Hr Hf; [lia |].
  cbn [drive]. destruct (pass B entries) as [| a added] eqn:Hp; [discriminate |].
  assert (Hnew : forall t0, In t0 (a :: added) -> (S r) + E * npow t0 <= E * P /\ nle t0 <= E).
  { intros t0 Hin. rewrite <- Hp in Hin. destruct (pass_in _ _ _ Hin) as [[t1 k1] [He1 Hr1]]. simpl in Hr1.
    destruct (Hinv _ He1) as [Hk [Hpot Hle]]. simpl in Hk, Hpot, Hle.
    destruct (apply_site_measures _ _ _ _ Hr1) as [Hk1 [Hnp Hnl]].
    split; [nia | lia]. }
  apply (IH (S r)).
  - intros en Hin. apply in_app_iff in Hin. destruct Hin as [Hin | Hin].
    + apply in_map_iff in Hin. destruct Hin as [en0 [<- Hin0]]. destruct (Hinv _ Hin0) as [Hk [Hpot Hle]].
      unfold bump; simpl. split; [lia | split; [| exact Hle]].
      replace (S r - S (snd en0)) with (r - snd en0) by lia. exact Hpot.
    + apply in_map_iff in Hin. destruct Hin as [t0 [<- Hin0]]. simpl.
      destruct (Hnew _ Hin0) as [H1 H2]. split; [lia | split; [lia | exact H2]].
  - destruct (Hnew a (or_introl eq_refl)) as [H1 _]. lia.
  - lia.
Qed.

Lemma phase1_terminates : forall B t, phase1 B t <> None.
Proof.
  intros B t. unfold phase1, fuel_of.
  apply (drive_terminates B (nle t) (npow t) _ 0).
  - intros en [<- | []]. simpl. split; [lia | split; lia].
  - lia.
  - lia.
Qed.

(* ================================================================ the property *)

Theorem rewrite_sound : forall B t out r, phase1 B t = Some out -> In r out -> equiv t r.
Proof.
  intros B t out r H Hr.
  apply (phase1_inv (fun r => equiv t r) B t (equiv_refl t)) with (out := out); [| exact H | exact Hr].
  intros t' k r' Ht' Hr'. eapply equiv_trans; [exact Ht' | eapply apply_site_sound; exact Hr'].
Qed.

Definition label_ok (B : basis) (t : expr) (l : label) : Prop :=
  In l (to_prefix t) \/ (exists z, l = LN (NNum z)) \/ (exists o, l = LB o /\ inb o B = true).

Theorem rewrite_labels_ok : forall B t out r, phase1 B t = Some out -> In r out ->
  forall l, In l (to_prefix r) -> label_ok B t l.
Proof.
  intros B t out r H Hr.
  assert (H0 : forall l, In l (to_prefix t) -> label_ok B t l) by (intros l Hl; left; exact Hl).
  apply (phase1_inv (fun r => forall l, In l (to_prefix r) -> label_ok B t l) B t H0) with (out := out); [| exact H | exact Hr].
  - intros t' k r' Ht' Hr' l Hl.
    destruct (apply_site_labels (eq l) _ _ _ _ Hr') as [Hf _].
    apply lex_in in Hl. destruct (Hf Hl) as [H1 | [[z Hz] | [o [Ho1 Ho2]]]].
    + apply Ht'. apply lex_in. exact H1.
    + right. left. exists z. exact Hz.
    + right. right. exists o. split; assumption.
Qed.

Theorem same_parameters : forall B t out r, phase1 B t = Some out -> In r out ->
  forall i, has_par i t <-> has_par i r.
Proof.
  intros B t out r H Hr.
  assert (H0 : forall i, has_par i t <-> has_par i t) by (intros i; tauto).
  apply (phase1_inv (fun r => forall i, has_par i t <-> has_par i r) B t H0) with (out := out); [| exact H | exact Hr].
  - intros t' k r' Ht' Hr' i. rewrite Ht'. rewrite <- !lex_par.
    destruct (apply_site_labels (eq (LN (NPar i))) _ _ _ _ Hr') as [Hf Hb].
    split; intros Hx.
    + destruct (Hb Hx) as [H1 | [[o Ho] | [o Ho]]]; [exact H1 | discriminate | discriminate].
    + destruct (Hf Hx) as [H1 | [[z Hz] | [o [_ Ho]]]]; [exact H1 | discriminate | discriminate].
Qed.

Theorem rewrite_wellformed : forall B l outs, phase1_labels B l = Some outs ->
  forall L, In L outs -> wellformed L = true.
Proof.
  intros B l outs H L HL. unfold phase1_labels in H.
  destruct (of_prefix l) as [t |]; [| discriminate].
  destruct (phase1 B t) as [rs |]; [| discriminate].
  inversion H; subst. apply in_map_iff in HL. destruct HL as [r [<- _]]. apply wellformed_to_prefix.
Qed.

(* the same statements for the label-list interface used by the correspondence *)
Theorem phase1_labels_total : forall B l, wellformed l = true -> phase1_labels B l <> None.
Proof.
  intros B l H. unfold phase1_labels. unfold wellformed in H.
  destruct (of_prefix l) as [t |]; [| discriminate].
  destruct (phase1 B t) eqn:Hp; [discriminate | exfalso; eapply phase1_terminates; exact Hp].
Qed.

Theorem phase1_labels_sound : forall B l outs t, phase1_labels B l = Some outs -> of_prefix l = Some t ->
  forall L, In L outs -> exists r, to_prefix r = L /\ equiv t r /\
    (forall i, has_par i t <-> has_par i r) /\ (forall lb, In lb L -> label_ok B t lb).
Proof.
  intros B l outs t H Ht L HL. unfold phase1_labels in H. rewrite Ht in H.
  destruct (phase1 B t) as [rs |] eqn:Hp; [| discriminate].
  inversion H; subst. apply in_map_iff in HL. destruct HL as [r [<- Hr]].
  exists r. split; [reflexivity |]. split; [eapply rewrite_sound; eassumption |].
  split; [eapply same_parameters; eassumption | eapply rewrite_labels_ok; eassumption].
Qed.

Theorem phase1_first_is_original : forall B t out, phase1 B t = Some out -> exists out', out = t :: out'.
Proof. intros B t out H. unfold phase1 in H. eapply drive_head; [reflexivity | exact H]. Qed.

(* ================================================================ sum_equiv: certificates for the sum phase *)
From Coq Require Import Ring_polynom RealField InitialRing Ring_theory.

Section SumEquiv.
  Open Scope R_scope.

  Definition pev (l : list R) (pe : PExpr Z) : R :=
    PEeval 0 1 Rplus Rmult Rminus Ropp IZR N.to_nat pow l pe.

  Lemma znorm_sound : forall a b, Peq Zeq_bool (znorm a) (znorm b) = true -> forall l, pev l a = pev l b.
  Proof.
    intros a b H l.
    exact (ring_correct Rset Rext (Rth_ARth Rset Rext RTheory) R_rm R_power_theory (Ztriv_div_th Rset IZR)
                        O l [] a b I H).
  Qed.

  Lemma binnth_succ : forall (p : positive) (l : list R), BinList.nth 0 (Pos.succ p) l = BinList.nth 0 p (tl l).
  Proof.
    induction p as [p IH | p IH |]; intros l; simpl.
    - rewrite IH. f_equal. rewrite BinList.jump_succ. simpl. rewrite !BinList.jump_tl. reflexivity.
    - reflexivity.
    - reflexivity.
  Qed.

  Lemma binnth_nat : forall (n : nat) (l : list R), BinList.nth 0 (Pos.of_succ_nat n) l = List.nth n l 0.
  Proof.
    induction n as [| n IH]; intros l; simpl.
    - destruct l; reflexivity.
    - rewrite binnth_succ, IH. destruct l; simpl; [destruct n; reflexivity | reflexivity].
  Qed.

  Variable env : nat -> R.
  Variable x : R.
  Let ev := eval env x.

  Lemma find_atom_nth : forall a tbl i j, find_atom a tbl i = Some j ->
    (i <= j)%nat /\ (j - i < length tbl)%nat /\ List.nth (j - i) (map ev tbl) 0 = ev a.
  Proof.
    intros a. induction tbl as [| b tbl IH]; intros i j H; simpl in H; [discriminate |].
    destruct (expr_eqb a b) eqn:He.
    - inversion H; subst. apply expr_eqb_eq in He. subst b.
      replace (j - j)%nat with O by lia. simpl. split; [lia | split; [lia | reflexivity]].
    - destruct (IH _ _ H) as [H1 [H2 H3]]. split; [lia |]. split; [simpl; lia |].
      replace (j - i)%nat with (S (j - S i)) by lia. simpl. exact H3.
  Qed.

  Lemma reify_atom_spec : forall e tbl pe tbl', reify_atom tbl e = (pe, tbl') ->
    exists ext, tbl' = tbl ++ ext /\ forall ext2, pev (map ev (tbl' ++ ext2)) pe = ev e.
  Proof.
    intros e tbl pe tbl' H. unfold reify_atom in H.
    destruct (find_atom e tbl O) as [i |] eqn:Hf; inversion H; subst; clear H.
    - exists []. split; [rewrite app_nil_r; reflexivity |]. intros ext2.
      unfold pev; simpl. rewrite binnth_nat.
      destruct (find_atom_nth _ _ _ _ Hf) as [_ [Hlt Hn]]. rewrite Nat.sub_0_r in Hlt, Hn.
      rewrite map_app, app_nth1 by (rewrite map_length; exact Hlt). exact Hn.
    - exists [e]. split; [reflexivity |]. intros ext2.
      unfold pev; simpl. rewrite binnth_nat.
      rewrite <- app_assoc, map_app. rewrite app_nth2 by (rewrite map_length; lia).
      rewrite map_length, Nat.sub_diag. reflexivity.
  Qed.

  Lemma reify_spec : forall e tbl pe tbl', reify tbl e = (pe, tbl') ->
    exists ext, tbl' = tbl ++ ext /\ forall ext2, pev (map ev (tbl' ++ ext2)) pe = ev e.
  Proof.
    induction e as [l | o a IH | o a IHa b IHb]; intros tbl pe tbl' H.
    - destruct l as [| i | z]; try (apply reify_atom_spec; exact H).
      simpl in H. inversion H; subst. exists []. split; [rewrite app_nil_r; reflexivity |].
      intros ext2. reflexivity.
    - apply reify_atom_spec. exact H.
    - destruct o; try (apply reify_atom_spec; exact H); simpl in H;
        destruct (reify tbl a) as [pa t1] eqn:Ha; destruct (reify t1 b) as [pb t2] eqn:Hb;
        inversion H; subst; clear H;
        destruct (IHa _ _ _ Ha) as [e1 [-> Hva]]; destruct (IHb _ _ _ Hb) as [e2 [-> Hvb]];
        (exists (e1 ++ e2); split; [rewrite app_assoc; reflexivity |]);
        intros ext2; unfold pev; simpl; fold (pev (map ev (((tbl ++ e1) ++ e2) ++ ext2)) pa);
        fold (pev (map ev (((tbl ++ e1) ++ e2) ++ ext2)) pb);
        rewrite Hvb; rewrite <- (app_assoc (tbl ++ e1) e2 ext2); rewrite Hva; reflexivity.
  Qed.

  Lemma ring_eq_sound : forall t r, ring_eq t r = true -> ev t = ev r.
  Proof.
    intros t r H. unfold ring_eq in H.
    destruct (reify [] t) as [pt tb1] eqn:Ht. destruct (reify tb1 r) as [pr tb2] eqn:Hr.
    destruct (reify_spec _ _ _ _ Ht) as [e1 [-> Hvt]]. destruct (reify_spec _ _ _ _ Hr) as [e2 [-> Hvr]].
    rewrite <- (Hvt e2), <- (Hvr []). rewrite app_nil_r.
    apply znorm_sound. exact H.
  Qed.

  Lemma sum_equiv_sound_at : forall t r, sum_equiv t r = true -> ev t = ev r.
  Proof.
    induction t as [l | o a IH | o a IHa b IHb]; intros r H; cbn [sum_equiv] in H;
      apply orb_true_iff in H; destruct H as [H | H];
      try (apply orb_true_iff in H; destruct H as [H | H];
           [apply expr_eqb_eq in H; subst; reflexivity | apply ring_eq_sound; exact H]).
    - discriminate.
    - destruct r as [l' | o' a' | o' a' b']; try discriminate.
      apply andb_true_iff in H. destruct H as [H1 H2]. apply unop_eqb_eq in H1. subst o'.
      unfold ev; simpl. f_equal. apply IH. exact H2.
    - destruct r as [l' | o' a' | o' a' b']; try discriminate.
      apply andb_true_iff in H. destruct H as [H12 H3]. apply andb_true_iff in H12. destruct H12 as [H1 H2].
      apply binop_eqb_eq in H1. subst o'.
      unfold ev; simpl. f_equal; [apply IHa; exact H2 | apply IHb; exact H3].
  Qed.
End SumEquiv.

Theorem sum_equiv_sound : forall t r, sum_equiv t r = true -> forall env x, eval env x t = eval env x r.
Proof. intros t r H env x. apply sum_equiv_sound_at. exact H. Qed.

Theorem certified_sound : forall B l r, certified B l r = true ->
  exists t r', of_prefix l = Some t /\ of_prefix r = Some r' /\
    forall env x, defined env x t -> eval env x t = eval env x r'.
Proof.
  intros B l r H. unfold certified in H.
  destruct (of_prefix l) as [t |] eqn:Hl; [| discriminate].
  destruct (of_prefix r) as [r' |] eqn:Hr; [| discriminate].
  destruct (phase1 B t) as [ss |] eqn:Hp; [| discriminate].
  apply existsb_exists in H. destruct H as [s [Hs Hse]].
  exists t, r'. split; [reflexivity |]. split; [reflexivity |].
  intros env x Hd.
  destruct (rewrite_sound _ _ _ _ Hp Hs env x) as [_ Hv].
  rewrite Hv by exact Hd. apply sum_equiv_sound. exact Hse.
Qed.
