(* The generated symbol tables (coq/Gen/GenSymtab.v, regenerated from sympy_symbols.py and
   Likelihood.run_sympify on every run) give every name the meaning ESR documents. *)
From Coq Require Import Reals String List Lra.
From ESRV Require Import Model.NodeStr Model.SymSem Gen.GenSymtab.
Import ListNotations.
Open Scope R_scope.
Open Scope string_scope.

Definition sound1 (tab : list (string * (R -> R))) : Prop :=
  forall name f, lookup name tab = Some f -> exists g, esr1 name = Some g /\ forall a, f a = g a.
Definition sound2 (tab : list (string * (R -> R -> R))) : Prop :=
  forall name f, lookup name tab = Some f -> exists g, esr2 name = Some g /\ forall a b, f a b = g a b.

Ltac table_case :=
  match goal with
  | H : (if string_dec ?n ?k then _ else _) = Some _ |- _ =>
      destruct (string_dec n k) as [->|?];
      [ inversion H; subst; clear H; eexists; split; [reflexivity|] | ]
  | H : None = Some _ |- _ => discriminate H
  end.

Ltac sem_eq :=
  intros; unfold esr_inv, esr_square, esr_cube, esr_sqrt_abs, esr_log_abs, esr_log10_abs, esr_tenexp,
    esr_abs, esr_pow_abs, sAbs, sSqrt, sLog, sLogBase, sPow, Rdiv;
  try reflexivity; try (rewrite Rmult_1_l; reflexivity); try ring.

Lemma gen1_sound : sound1 gen_fun1.
Proof. intros name f H. unfold gen_fun1 in H. cbn [lookup] in H. repeat table_case; sem_eq. Qed.
Lemma gen2_sound : sound2 gen_fun2.
Proof. intros name f H. unfold gen_fun2 in H. cbn [lookup] in H. repeat table_case; sem_eq. Qed.
Lemma fit1_sound : sound1 fit_fun1.
Proof. intros name f H. unfold fit_fun1 in H. cbn [lookup] in H. repeat table_case; sem_eq. Qed.
Lemma fit2_sound : sound2 fit_fun2.
Proof. intros name f H. unfold fit_fun2 in H. cbn [lookup] in H. repeat table_case; sem_eq. Qed.

(* every operator label of the shipped bases that needs a table entry has one at generation time;
   every function name the ESR printer emits has one at fitting time (Abs, exp, sin are sympy's own) *)
Definition gen_needed1 := ["inv"; "square"; "cube"; "sqrt_abs"; "log_abs"; "log10_abs"; "tenexp"; "Abs"].
Definition fit_needed1 := ["inv"; "square"; "cube"; "sqrt"; "log"].

Lemma gen_covers : (forall n, In n gen_needed1 -> lookup n gen_fun1 <> None) /\ lookup "pow" gen_fun2 <> None
                   /\ lookup "x" gen_syms = Some ("x", SymPositive).
Proof.
  split; [|split; [discriminate|reflexivity]].
  intros n Hn. unfold gen_needed1 in Hn. cbn [In] in Hn.
  repeat (destruct Hn as [<-|Hn]; [vm_compute; discriminate|]). contradiction.
Qed.

Lemma fit_covers : (forall n, In n fit_needed1 -> lookup n fit_fun1 <> None) /\ lookup "pow" fit_fun2 <> None
                   /\ lookup "x" fit_syms = Some ("x", SymPositive)
                   /\ (forall n, In n ["a0"; "a1"; "a2"] -> lookup n fit_syms = Some (n, SymReal)).
Proof.
  split; [|split; [discriminate|split; [reflexivity|]]].
  - intros n Hn. unfold fit_needed1 in Hn. cbn [In] in Hn.
    repeat (destruct Hn as [<-|Hn]; [vm_compute; discriminate|]). contradiction.
  - intros n Hn. cbn [In] in Hn. repeat (destruct Hn as [<-|Hn]; [reflexivity|]). contradiction.
Qed.

(* the two stages read the names the printer writes in the same way *)
Lemma tables_agree :
  (forall f g, lookup "sqrt_abs" gen_fun1 = Some f -> lookup "sqrt" fit_fun1 = Some g -> forall a, f a = g a) /\
  (forall f g, lookup "log_abs" gen_fun1 = Some f -> lookup "log" fit_fun1 = Some g -> forall a, f a = g a) /\
  (forall f g, lookup "pow" gen_fun2 = Some f -> lookup "pow" fit_fun2 = Some g -> forall a b, f a b = g a b) /\
  (forall n f g, In n ["inv"; "square"; "cube"] -> lookup n gen_fun1 = Some f -> lookup n fit_fun1 = Some g -> forall a, f a = g a).
Proof.
  repeat split.
  - intros f g Hf Hg a. destruct (gen1_sound _ _ Hf) as (f' & Ef & Hf'). destruct (fit1_sound _ _ Hg) as (g' & Eg & Hg').
    rewrite Hf', Hg'. vm_compute in Ef, Eg. congruence.
  - intros f g Hf Hg a. destruct (gen1_sound _ _ Hf) as (f' & Ef & Hf'). destruct (fit1_sound _ _ Hg) as (g' & Eg & Hg').
    rewrite Hf', Hg'. vm_compute in Ef, Eg. congruence.
  - intros f g Hf Hg a b. destruct (gen2_sound _ _ Hf) as (f' & Ef & Hf'). destruct (fit2_sound _ _ Hg) as (g' & Eg & Hg').
    rewrite Hf', Hg'. vm_compute in Ef, Eg. congruence.
  - intros n f g Hn Hf Hg a. destruct (gen1_sound _ _ Hf) as (f' & Ef & Hf'). destruct (fit1_sound _ _ Hg) as (g' & Eg & Hg').
    rewrite Hf', Hg'. congruence.
Qed.

(* a tree all of whose function labels have table entries denotes, under the generated table,
   exactly what it denotes under ESR's operator semantics *)
Theorem den_gen_eq_esr (leaf : string -> option R) (t : lt) :
  (forall l, In l (labels1 t) -> lookup l gen_fun1 <> None \/ esr1 l = None) ->
  (forall l, In l (labels2 t) -> lookup l gen_fun2 <> None \/ esr2 l = None) ->
  den (fun l => lookup l gen_fun1) (fun l => lookup l gen_fun2) leaf t = den esr1 esr2 leaf t.
Proof.
  induction t as [l|l a IHa|l a IHa b IHb]; intros H1 H2; cbn [den labels1 labels2] in *.
  - reflexivity.
  - rewrite IHa; [|intros; apply H1; now right|intros; apply H2; assumption].
    destruct (lookup l gen_fun1) as [f|] eqn:Ef.
    + destruct (gen1_sound _ _ Ef) as (g & Eg & Hfg). rewrite Eg.
      destruct (den esr1 esr2 leaf a); [now rewrite Hfg|reflexivity].
    + destruct (H1 l (or_introl eq_refl)) as [Hc|Hn]; [congruence|]. rewrite Hn. reflexivity.
  - rewrite IHa; [|intros; apply H1; apply in_or_app; now left|intros; apply H2; right; apply in_or_app; now left].
    rewrite IHb; [|intros; apply H1; apply in_or_app; now right|intros; apply H2; right; apply in_or_app; now right].
    destruct (infix_sem l); [reflexivity|].
    destruct (lookup l gen_fun2) as [f|] eqn:Ef.
    + destruct (gen2_sound _ _ Ef) as (g & Eg & Hfg). rewrite Eg.
      destruct (den esr1 esr2 leaf a), (den esr1 esr2 leaf b); try reflexivity. now rewrite Hfg.
    + destruct (H2 l (or_introl eq_refl)) as [Hc|Hn]; [congruence|]. rewrite Hn. reflexivity.
Qed.

(* every symbol entry of the two tables binds a name to the symbol OF THAT NAME (x -> x, ak -> ak): a parameter name that is bound
   to another parameter's symbol (e.g. "a3" -> a2) would make the reader ignore a parameter *)
Definition syms_identity (t : list (string * (string * symkind))) : bool :=
  forallb (fun e => String.eqb (fst e) (fst (snd e))) t.

Lemma syms_identity_ok : syms_identity gen_syms = true /\ syms_identity fit_syms = true.
Proof. split; reflexivity. Qed.

Lemma syms_identity_spec : forall t k v kind, syms_identity t = true -> In (k, (v, kind)) t -> k = v.
Proof.
  intros t k v kind H Hin. unfold syms_identity in H. rewrite forallb_forall in H.
  specialize (H _ Hin). cbn [fst snd] in H. now apply String.eqb_eq.
Qed.
