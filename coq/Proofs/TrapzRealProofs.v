(* C19 -- real-number part: the instances satisfy the preorder laws; where the grid starts;
   what cumulative_trapezoid holds at a data point; exactness for affine integrands;
   quadrature error against Coquelicot's RInt; the induced statement for dL and mu;
   the analytically integrated path. *)
From Coq Require Import ZArith QArith Qround Qreals Qreduction Reals List Bool Lia Lra Sorted.
From Coquelicot Require Import Coquelicot.
From ESRV Require Import Model.Trapz Proofs.TrapzProofs.
Import ListNotations.
Local Open Scope R_scope.

(* ================================================================ instances are total preorders *)
Lemma Rleb_true : forall x y, Rleb x y = true <-> x <= y.
Proof. intros x y. unfold Rleb. destruct (Rle_dec x y); split; intro H; try reflexivity; try assumption; try discriminate. contradiction. Qed.

Lemma Rleb_false : forall x y, Rleb x y = false <-> y < x.
Proof. intros x y. unfold Rleb. destruct (Rle_dec x y); split; intro H; try reflexivity; try discriminate; lra. Qed.

Lemma R_fle : forall x y : R, @fle RFld x y <-> x <= y.
Proof. intros. unfold fle. simpl. apply Rleb_true. Qed.

Lemma R_flt : forall x y : R, @flt RFld x y <-> x < y.
Proof. intros. unfold flt, fltb. simpl. rewrite negb_true_iff. apply Rleb_false. Qed.

Lemma R_feqv : forall x y : R, @feqv RFld x y <-> x = y.
Proof.
  intros. unfold feqv, feqb. simpl. rewrite andb_true_iff, !Rleb_true. split; intro H; [lra|subst; lra].
Qed.

Lemma R_total : forall x y : R, @fle RFld x y \/ @fle RFld y x.
Proof. intros. rewrite !R_fle. lra. Qed.

Lemma R_trans : forall x y z : R, @fle RFld x y -> @fle RFld y z -> @fle RFld x z.
Proof. intros x y z. rewrite !R_fle. lra. Qed.

Lemma Q_fle : forall x y : Q, @fle QFld x y <-> (x <= y)%Q.
Proof.
  intros. unfold fle. simpl. unfold Qleb, Qle. rewrite Z.leb_le, (Z.mul_comm (Zpos (Qden y))), (Z.mul_comm (Zpos (Qden x))).
  reflexivity.
Qed.

Lemma Q_total : forall x y : Q, @fle QFld x y \/ @fle QFld y x.
Proof. intros. rewrite !Q_fle. destruct (Qlt_le_dec x y) as [H|H]; [left; apply Qlt_le_weak; exact H|right; exact H]. Qed.

Lemma Q_trans : forall x y z : Q, @fle QFld x y -> @fle QFld y z -> @fle QFld x z.
Proof. intros x y z. rewrite !Q_fle. apply Qle_trans. Qed.

Lemma Q_feqv : forall x y : Q, @feqv QFld x y <-> (x == y)%Q.
Proof.
  intros. rewrite (feqv_iff (F:=QFld)), !Q_fle. split.
  - intros [H1 H2]. apply Qle_antisym; assumption.
  - intro H. rewrite H. split; apply Qle_refl.
Qed.

(* ================================================================ min / max of the data *)
Lemma fold_fminb : forall (r : list R) x,
  fold_left (@fminb RFld) r x <= x /\ (forall z, In z r -> fold_left (@fminb RFld) r x <= z)
  /\ (fold_left (@fminb RFld) r x = x \/ In (fold_left (@fminb RFld) r x) r).
Proof.
  induction r as [|y r IH]; intro x; simpl.
  - split; [apply Rle_refl|]. split; [intros z []|left; reflexivity].
  - destruct (IH (@fminb RFld x y)) as [H1 [H2 H3]].
    assert (Hm : @fminb RFld x y <= x /\ @fminb RFld x y <= y /\ (@fminb RFld x y = x \/ @fminb RFld x y = y)).
    { unfold fminb. simpl. destruct (Rleb x y) eqn:E; [apply Rleb_true in E|apply Rleb_false in E]; lra. }
    destruct Hm as [Hm1 [Hm2 Hm3]].
    split; [eapply Rle_trans; [exact H1|exact Hm1]|]. split.
    + intros z [<-|Hz]; [eapply Rle_trans; [exact H1|exact Hm2]|apply H2; exact Hz].
    + destruct H3 as [H3|H3]; [|right; right; exact H3].
      destruct Hm3 as [Hm|Hm]; [left; exact (eq_trans H3 Hm)|right; left; symmetry; exact (eq_trans H3 Hm)].
Qed.

Lemma fold_fmaxb : forall (r : list R) x,
  x <= fold_left (@fmaxb RFld) r x /\ (forall z, In z r -> z <= fold_left (@fmaxb RFld) r x)
  /\ (fold_left (@fmaxb RFld) r x = x \/ In (fold_left (@fmaxb RFld) r x) r).
Proof.
  induction r as [|y r IH]; intro x; simpl.
  - split; [apply Rle_refl|]. split; [intros z []|left; reflexivity].
  - destruct (IH (@fmaxb RFld x y)) as [H1 [H2 H3]].
    assert (Hm : x <= @fmaxb RFld x y /\ y <= @fmaxb RFld x y /\ (@fmaxb RFld x y = x \/ @fmaxb RFld x y = y)).
    { unfold fmaxb. simpl. destruct (Rleb x y) eqn:E; [apply Rleb_true in E|apply Rleb_false in E]; lra. }
    destruct Hm as [Hm1 [Hm2 Hm3]].
    split; [eapply Rle_trans; [exact Hm1|exact H1]|]. split.
    + intros z [<-|Hz]; [eapply Rle_trans; [exact Hm2|exact H1]|apply H2; exact Hz].
    + destruct H3 as [H3|H3]; [|right; right; exact H3].
      destruct Hm3 as [Hm|Hm]; [left; exact (eq_trans H3 Hm)|right; left; symmetry; exact (eq_trans H3 Hm)].
Qed.

Lemma lmin_spec : forall (zs : list R) a, @lmin RFld zs = Some a -> In a zs /\ forall z, In z zs -> a <= z.
Proof.
  intros [|x r] a H; [discriminate|]. simpl in H. injection H as <-.
  destruct (fold_fminb r x) as [H1 [H2 H3]]. split.
  - destruct H3 as [H3|H3]; [left; symmetry; exact H3|right; exact H3].
  - intros z [<-|Hz]; [exact H1|apply H2; exact Hz].
Qed.

Lemma lmax_spec : forall (zs : list R) b, @lmax RFld zs = Some b -> In b zs /\ forall z, In z zs -> z <= b.
Proof.
  intros [|x r] b H; [discriminate|]. simpl in H. injection H as <-.
  destruct (fold_fmaxb r x) as [H1 [H2 H3]]. split.
  - destruct H3 as [H3|H3]; [left; symmetry; exact H3|right; exact H3].
  - intros z [<-|Hz]; [exact H1|apply H2; exact Hz].
Qed.

(* ================================================================ linspace *)
Lemma linspace_bounds : forall (a b : R) n x, In x (@linspace RFld a b n) -> Rmin a b <= x <= Rmax a b.
Proof.
  intros a b n x H. destruct n as [|[|m]]; simpl in H.
  - destruct H.
  - destruct H as [<-|[]]. split; [apply Rmin_l|apply Rmax_l].
  - change (In x (map (fun i => IZR (Z.of_nat i) * ((b - a) / IZR (Z.of_nat (S m))) + a) (seq 0 (S m)) ++ [b])) in H.
    apply in_app_or in H. destruct H as [H|[<-|[]]]; [|split; [apply Rmin_r|apply Rmax_r]].
    apply in_map_iff in H. destruct H as [i [<- Hi]]. apply in_seq in Hi.
    rewrite <- !INR_IZR_INZ.
    assert (Hm : 0 < INR (S m)) by (apply lt_0_INR; lia).
    assert (Hi1 : 0 <= INR i) by apply pos_INR.
    assert (Hi2 : INR i <= INR (S m)) by (apply le_INR; lia).
    set (t := INR i / INR (S m)).
    assert (Ht : 0 <= t <= 1).
    { unfold t. split.
      - apply Rmult_le_pos; [exact Hi1|left; apply Rinv_0_lt_compat; exact Hm].
      - apply Rmult_le_reg_r with (INR (S m)); [exact Hm|]. field_simplify; lra. }
    replace (INR i * ((b - a) / INR (S m)) + a) with (a + t * (b - a)) by (unfold t; field; lra).
    unfold Rmin, Rmax. destruct (Rle_dec a b); split; nra.
Qed.

Lemma linspace_first : forall (a b : R) n, (1 <= n)%nat -> In a (@linspace RFld a b n).
Proof.
  intros a b n Hn. destruct n as [|[|m]]; [lia|left; reflexivity|].
  change (In a (map (fun i => IZR (Z.of_nat i) * ((b - a) / IZR (Z.of_nat (S m))) + a) (seq 0 (S m)) ++ [b])).
  apply in_or_app. left. apply in_map_iff. exists 0%nat. split; [simpl; lra|apply in_seq; lia].
Qed.

(* ================================================================ where the grid starts *)
Lemma strict_head_min : forall (xs : list R) x r, StronglySorted (@flt RFld) xs -> xs = x :: r ->
  forall y, In y xs -> x <= y.
Proof.
  intros xs x r H -> y [<-|Hy]; [lra|]. inversion H as [|? ? _ Hx]; subst.
  rewrite Forall_forall in Hx. left. apply R_flt. apply Hx. exact Hy.
Qed.

(* first grid point = min(1, smallest datum) *)
Theorem grid_head : forall (p : params RFld) (zs xs : list R) zmin,
  0 < delta_z p -> (1 <= min_nz p)%nat ->
  grid p zs = Some xs -> @lmin RFld zs = Some zmin ->
  hd 0 xs = Rmin 1 zmin.
Proof.
  intros p zs xs zmin Hd Hn Hg Hmin. unfold grid in Hg. rewrite Hmin in Hg.
  destruct (@lmax RFld zs) as [zmax|] eqn:Hmax; [|discriminate]. injection Hg as <-.
  destruct (lmin_spec zs zmin Hmin) as [Hin Hle]. destruct (lmax_spec zs zmax Hmax) as [Hin' Hge].
  assert (Hzz : zmin <= zmax) by (apply Hle; exact Hin').
  unfold grid_of. match goal with |- hd 0 (unique ?L) = _ => set (l := L) end.
  assert (Hall : forall y, In y l -> Rmin 1 zmin <= y).
  { intros y Hy. unfold l in Hy. apply in_app_or in Hy. destruct Hy as [Hy|Hy].
    - apply linspace_bounds in Hy. simpl in Hy. tauto.
    - apply in_app_or in Hy. destruct Hy as [Hy|Hy].
      + apply linspace_bounds in Hy. simpl in Hy. destruct Hy as [Hy _].
        eapply Rle_trans; [apply Rmin_r|]. eapply Rle_trans; [|exact Hy].
        unfold Rmin. destruct (Rle_dec _ _); lra.
      + eapply Rle_trans; [apply Rmin_r|apply Hle; exact Hy]. }
  assert (Hex : In (Rmin 1 zmin) l).
  { unfold l. unfold Rmin. destruct (Rle_dec 1 zmin).
    - apply in_or_app. left. apply linspace_first. exact Hn.
    - apply in_or_app. right. apply in_or_app. right. exact Hin. }
  destruct (unique_repr (F:=RFld) R_total R_trans l _ Hex) as [y [Hy Ey]]. apply R_feqv in Ey. subst y.
  pose proof (unique_strict (F:=RFld) R_total R_trans l) as Hs.
  destruct (unique l) as [|x r] eqn:Eu; [destruct Hy|]. simpl.
  apply Rle_antisym.
  - apply (strict_head_min (x :: r) x r Hs eq_refl). exact Hy.
  - apply Hall. apply (unique_In (F:=RFld) l). rewrite Eu. left. reflexivity.
Qed.

Theorem grid_starts_at_one : forall (p : params RFld) (zs xs : list R),
  0 < delta_z p -> (1 <= min_nz p)%nat -> (forall z, In z zs -> 1 <= z) ->
  grid p zs = Some xs -> hd 0 xs = 1.
Proof.
  intros p zs xs Hd Hn Hz Hg. destruct (@lmin RFld zs) as [zmin|] eqn:Hmin.
  - rewrite (grid_head p zs xs zmin Hd Hn Hg Hmin). apply Rmin_left. apply Hz. apply (lmin_spec zs zmin Hmin).
  - unfold grid in Hg. rewrite Hmin in Hg. discriminate.
Qed.

(* a datum below 1 (negative redshift): the grid -- and hence every cumulative integral -- starts at the
   smallest datum instead of at 1 *)
Theorem grid_starts_below_one : forall (p : params RFld) (zs xs : list R) zmin,
  0 < delta_z p -> (1 <= min_nz p)%nat -> @lmin RFld zs = Some zmin -> zmin < 1 ->
  grid p zs = Some xs -> hd 0 xs = zmin.
Proof.
  intros p zs xs zmin Hd Hn Hmin Hlt Hg. rewrite (grid_head p zs xs zmin Hd Hn Hg Hmin). apply Rmin_right. lra.
Qed.

(* ================================================================ cumulative_trapezoid *)
Lemma cell_R : forall x0 x1 y0 y1 : R, @cell RFld x0 x1 y0 y1 = (x1 - x0) * (y1 + y0) / 2.
Proof. reflexivity. Qed.

Lemma cumtrapz_from_nth : forall (xs ys : list R) acc k,
  length xs = length ys -> (S k < length xs)%nat ->
  nth k (@cumtrapz_from RFld acc xs ys) 0 = acc + @trapz RFld (firstn (S (S k)) xs) (firstn (S (S k)) ys).
Proof.
  induction xs as [|x0 xr IH]; intros ys acc k Hl Hk; [simpl in Hk; lia|].
  destruct ys as [|y0 yr]; [discriminate|].
  destruct xr as [|x1 xr']; [simpl in Hk; lia|]. destruct yr as [|y1 yr']; [discriminate|].
  destruct k as [|k].
  - cbn -[cell]. change (@f0 RFld) with 0. destruct xr', yr'; cbn -[cell]; change (@f0 RFld) with 0; lra.
  - change (nth (S k) (@cumtrapz_from RFld acc (x0 :: x1 :: xr') (y0 :: y1 :: yr')) 0)
      with (nth k (@cumtrapz_from RFld (acc + @cell RFld x0 x1 y0 y1) (x1 :: xr') (y1 :: yr')) 0).
    rewrite IH; [|simpl in *; lia|simpl in *; lia].
    change (@trapz RFld (firstn (S (S (S k))) (x0 :: x1 :: xr')) (firstn (S (S (S k))) (y0 :: y1 :: yr')))
      with (@cell RFld x0 x1 y0 y1 + @trapz RFld (firstn (S (S k)) (x1 :: xr')) (firstn (S (S k)) (y1 :: yr'))).
    rewrite Rplus_assoc. reflexivity.
Qed.

(* entry k of the cumulative trapezoid = plain trapezoid sum over the first k cells *)
Theorem cumtrapz_nth : forall (xs ys : list R) k,
  length xs = length ys -> (k < length xs)%nat ->
  nth k (@cumtrapz RFld xs ys) 0 = @trapz RFld (firstn (S k) xs) (firstn (S k) ys).
Proof.
  intros xs ys k Hl Hk. unfold cumtrapz. destruct k as [|k].
  - simpl. destruct xs as [|x0 xr]; [simpl in Hk; lia|]. destruct ys as [|y0 yr]; [discriminate|]. reflexivity.
  - change (nth (S k) (@f0 RFld :: cumtrapz_from (@f0 RFld) xs ys) 0) with (nth k (cumtrapz_from (@f0 RFld) xs ys) 0).
    rewrite cumtrapz_from_nth; [|exact Hl|exact Hk]. change (@f0 RFld) with 0. lra.
Qed.

Lemma integrand_values_map : forall (h2 : h2val RFld) (xs : list R),
  integrand_values h2 xs = map (integrand_fun h2) xs.
Proof.
  intros [c|h] xs; simpl; [|reflexivity]. induction xs as [|x r IH]; simpl; [reflexivity|]. f_equal. exact IH.
Qed.

Lemma firstn_map_comm : forall (A B : Type) (f : A -> B) n l, firstn n (map f l) = map f (firstn n l).
Proof. intros A B f n. induction n as [|n IH]; intros [|x r]; simpl; try reflexivity. f_equal. apply IH. Qed.

(* ================================================================ the trapezoid sum of a function *)
Definition trapzf (g : R -> R) (xs : list R) : R := @trapz RFld xs (map g xs).

Lemma trapzf_cons2 : forall g x0 x1 r,
  trapzf g (x0 :: x1 :: r) = (x1 - x0) * (g x1 + g x0) / 2 + trapzf g (x1 :: r).
Proof. reflexivity. Qed.

Lemma trapzf_single : forall g x0, trapzf g [x0] = 0.
Proof. reflexivity. Qed.

(* exact for affine integrands, on any grid *)
Theorem trapz_exact_affine : forall (a b : R) (xs : list R) x0,
  trapzf (fun x => a * x + b) (x0 :: xs)
  = a * ((last xs x0)^2 - x0^2) / 2 + b * (last xs x0 - x0).
Proof.
  intros a b xs. induction xs as [|x1 r IH]; intro x0.
  - rewrite trapzf_single. simpl. lra.
  - rewrite trapzf_cons2, IH. replace (last (x1 :: r) x0) with (last r x1).
    + lra.
    + clear. revert x1 x0. induction r as [|y s IH]; intros x1 x0; [reflexivity|].
      change (last (x1 :: y :: s) x0) with (last (y :: s) x0). rewrite <- (IH y x0), <- (IH y x1). reflexivity.
Qed.

Lemma RInt_affine : forall a b u v : R, RInt (fun x => a * x + b) u v = a * (v^2 - u^2) / 2 + b * (v - u).
Proof.
  intros a b u v. apply is_RInt_unique.
  replace (a * (v ^ 2 - u ^ 2) / 2 + b * (v - u)) with (minus ((fun x => a * x^2 / 2 + b * x) v) ((fun x => a * x^2 / 2 + b * x) u))
    by (unfold minus, plus, opp; simpl; lra).
  apply (is_RInt_derive (fun x => a * x^2 / 2 + b * x) (fun x => a * x + b)).
  - intros x _. auto_derive; [exact I|lra].
  - intros x _. apply (ex_derive_continuous (fun x => a * x + b)). auto_derive. exact I.
Qed.

Theorem trapz_exact_affine_RInt : forall (a b : R) (xs : list R) x0,
  trapzf (fun x => a * x + b) (x0 :: xs) = RInt (fun x => a * x + b) x0 (last xs x0).
Proof. intros. rewrite trapz_exact_affine, RInt_affine. reflexivity. Qed.

(* ================================================================ quadrature error, Lipschitz integrand *)
Definition lipschitz_on (g : R -> R) (L a b : R) : Prop :=
  forall u v, a <= u <= b -> a <= v <= b -> Rabs (g u - g v) <= L * Rabs (u - v).

Lemma lipschitz_on_sub : forall g L a b a' b', a <= a' -> b' <= b ->
  lipschitz_on g L a b -> lipschitz_on g L a' b'.
Proof. intros g L a b a' b' Ha Hb H u v Hu Hv. apply H; lra. Qed.

Definition clamp (a b x : R) : R := Rmax a (Rmin x b).

Lemma clamp_in : forall a b x, a <= b -> a <= clamp a b x <= b.
Proof. intros a b x H. unfold clamp, Rmax, Rmin. destruct (Rle_dec x b); destruct (Rle_dec a _); lra. Qed.

Lemma clamp_id : forall a b x, a <= x <= b -> clamp a b x = x.
Proof. intros a b x H. unfold clamp, Rmax, Rmin. destruct (Rle_dec x b); destruct (Rle_dec a _); lra. Qed.

Lemma clamp_lip : forall a b u v, Rabs (clamp a b u - clamp a b v) <= Rabs (u - v).
Proof.
  intros a b u v. unfold clamp, Rmax, Rmin.
  destruct (Rle_dec u b); destruct (Rle_dec v b); repeat destruct (Rle_dec a _);
    unfold Rabs; repeat destruct (Rcase_abs _); lra.
Qed.

Lemma lipschitz_clamped_continuous : forall g L a b, 0 <= L -> a <= b -> lipschitz_on g L a b ->
  forall x, continuous (fun t => g (clamp a b t)) x.
Proof.
  intros g L a b HL Hab Hg x. apply continuity_pt_filterlim.
  intros eps Heps. exists (eps / (L + 1)). split; [apply Rdiv_lt_0_compat; lra|].
  intros t [_ Ht]. simpl in *. unfold R_dist in *.
  eapply Rle_lt_trans; [apply Hg; apply clamp_in; exact Hab|].
  eapply Rle_lt_trans; [apply Rmult_le_compat_l; [exact HL|apply clamp_lip]|].
  assert (H1 : L * Rabs (t - x) <= L * (eps / (L + 1))) by (apply Rmult_le_compat_l; lra).
  assert (H2 : L * (eps / (L + 1)) < eps).
  { apply Rmult_lt_reg_r with (L + 1); [lra|]. field_simplify; [|lra]. nra. }
  lra.
Qed.

Lemma lipschitz_ex_RInt : forall g L a b, 0 <= L -> a <= b -> lipschitz_on g L a b -> ex_RInt g a b.
Proof.
  intros g L a b HL Hab Hg. apply ex_RInt_ext with (fun t => g (clamp a b t)).
  - intros x Hx. rewrite Rmin_left, Rmax_right in Hx by exact Hab. rewrite clamp_id; [reflexivity|lra].
  - apply (ex_RInt_continuous (V:=R_CompleteNormedModule)). intros z _.
    apply (lipschitz_clamped_continuous g L a b HL Hab Hg).
Qed.

Lemma trapz_cell_error : forall g L a b, 0 <= L -> a <= b -> lipschitz_on g L a b ->
  Rabs (RInt g a b - (b - a) * (g b + g a) / 2) <= L * (b - a)^2 / 2.
Proof.
  intros g L a b HL Hab Hg. set (c := (g b + g a) / 2).
  assert (Hex : ex_RInt g a b) by (eapply lipschitz_ex_RInt; eauto).
  assert (E : RInt g a b - (b - a) * (g b + g a) / 2 = RInt (fun x => minus (g x) c) a b).
  { symmetry. etransitivity;
      [exact (RInt_minus (V:=R_CompleteNormedModule) g (fun _ => c) a b Hex (ex_RInt_const a b c))|].
    rewrite RInt_const. unfold minus, plus, opp, scal; simpl. unfold mult; simpl. unfold c. lra. }
  rewrite E. replace (L * (b - a)^2 / 2) with ((b - a) * (L * (b - a) / 2)) by (simpl; lra).
  apply abs_RInt_le_const; [exact Hab| |].
  - apply (ex_RInt_minus (V:=R_NormedModule)); [exact Hex|apply ex_RInt_const].
  - intros t Ht. unfold minus, plus, opp; simpl. unfold c.
    replace (g t + - ((g b + g a) / 2)) with ((g t - g a) / 2 + (g t - g b) / 2) by lra.
    eapply Rle_trans; [apply Rabs_triang|].
    pose proof (Hg t a ltac:(lra) ltac:(lra)) as H1. pose proof (Hg t b ltac:(lra) ltac:(lra)) as H2.
    rewrite (Rabs_pos_eq (t - a)) in H1 by lra. rewrite (Rabs_left1 (t - b)) in H2 by lra.
    unfold Rdiv. rewrite !Rabs_mult. rewrite (Rabs_pos_eq (/ 2)) by lra. lra.
Qed.

Lemma fmaxb_R : forall x y : R, @fmaxb RFld x y = Rmax x y.
Proof.
  intros x y. unfold fmaxb, Rmax. simpl. unfold Rleb. destruct (Rle_dec x y); reflexivity.
Qed.

Lemma max_cell_cons2 : forall (x0 x1 : R) r, @max_cell RFld (x0 :: x1 :: r) = Rmax (x1 - x0) (@max_cell RFld (x1 :: r)).
Proof. intros. rewrite <- fmaxb_R. reflexivity. Qed.

Lemma max_cell_nonneg : forall xs : list R, 0 <= @max_cell RFld xs.
Proof.
  induction xs as [|x0 [|x1 r] IH]; try (simpl; lra).
  rewrite max_cell_cons2. eapply Rle_trans; [exact IH|apply Rmax_r].
Qed.

Lemma last_cons : forall (A : Type) (x1 : A) r x0, last (x1 :: r) x0 = last r x1.
Proof.
  intros A x1 r. revert x1. induction r as [|y s IH]; intros x1 x0; [reflexivity|].
  change (last (x1 :: y :: s) x0) with (last (y :: s) x0). rewrite (IH y x0), (IH y x1). reflexivity.
Qed.

Lemma last_In : forall (A : Type) (r : list A) x, In (last r x) (x :: r).
Proof.
  intros A r. induction r as [|y s IH]; intro x; [left; reflexivity|].
  rewrite last_cons. right. apply IH.
Qed.

(* first-order bound: |integral - trapezoid sum| <= L * (largest cell) * (b - a) / 2 on any increasing grid *)
Theorem trapz_error_lipschitz : forall g L (xs : list R) x0,
  0 <= L -> StronglySorted Rle (x0 :: xs) ->
  lipschitz_on g L x0 (last xs x0) ->
  Rabs (RInt g x0 (last xs x0) - trapzf g (x0 :: xs))
    <= L * @max_cell RFld (x0 :: xs) * (last xs x0 - x0) / 2.
Proof.
  intros g L xs. induction xs as [|x1 r IH]; intros x0 HL Hs Hg.
  - simpl last. rewrite RInt_point, trapzf_single. unfold zero; simpl. rewrite Rminus_0_r, Rabs_R0. lra.
  - inversion Hs as [|? ? Hs' H0]; subst. rewrite Forall_forall in H0.
    rewrite last_cons in *. set (xn := last r x1) in *.
    assert (H01 : x0 <= x1) by (apply H0; left; reflexivity).
    assert (H1n : x1 <= xn).
    { inversion Hs' as [|? ? _ H1]; subst. rewrite Forall_forall in H1.
      destruct (last_In R r x1) as [E|E]; [fold xn in E; lra|apply H1; exact E]. }
    assert (Hg0 : lipschitz_on g L x0 x1) by (eapply lipschitz_on_sub; [| |exact Hg]; lra).
    assert (Hg1 : lipschitz_on g L x1 xn) by (eapply lipschitz_on_sub; [| |exact Hg]; lra).
    specialize (IH x1 HL Hs' Hg1). fold xn in IH.
    pose proof (trapz_cell_error g L x0 x1 HL H01 Hg0) as Hc.
    rewrite <- (RInt_Chasles g x0 x1 xn) by (eapply lipschitz_ex_RInt; eauto).
    rewrite trapzf_cons2, max_cell_cons2.
    change (plus (RInt g x0 x1) (RInt g x1 xn)) with (RInt g x0 x1 + RInt g x1 xn).
    set (h' := (@max_cell RFld (x1 :: r) : R)) in *. set (h := Rmax (x1 - x0) h').
    assert (Hh1 : x1 - x0 <= h) by apply Rmax_l. assert (Hh2 : h' <= h) by apply Rmax_r.
    assert (Hh' : 0 <= h') by apply max_cell_nonneg.
    replace (RInt g x0 x1 + RInt g x1 xn - ((x1 - x0) * (g x1 + g x0) / 2 + trapzf g (x1 :: r)))
      with ((RInt g x0 x1 - (x1 - x0) * (g x1 + g x0) / 2) + (RInt g x1 xn - trapzf g (x1 :: r))) by lra.
    eapply Rle_trans; [apply Rabs_triang|].
    assert (B1 : L * (x1 - x0) ^ 2 / 2 <= L * h * (x1 - x0) / 2).
    { simpl. assert (L * (x1 - x0) * (x1 - x0) <= L * h * (x1 - x0)); [|lra].
      apply Rmult_le_compat_r; [lra|]. apply Rmult_le_compat_l; [exact HL|exact Hh1]. }
    assert (B2 : L * h' * (xn - x1) / 2 <= L * h * (xn - x1) / 2).
    { assert (L * h' * (xn - x1) <= L * h * (xn - x1)); [|lra].
      apply Rmult_le_compat_r; [lra|]. apply Rmult_le_compat_l; [exact HL|exact Hh2]. }
    lra.
Qed.

(* the bound in the form asked for by the property text (without the factor 1/2) *)
Corollary trapz_error_lipschitz_weak : forall g L (xs : list R) x0,
  0 <= L -> StronglySorted Rle (x0 :: xs) ->
  lipschitz_on g L x0 (last xs x0) ->
  Rabs (RInt g x0 (last xs x0) - trapzf g (x0 :: xs))
    <= L * @max_cell RFld (x0 :: xs) * (last xs x0 - x0).
Proof.
  intros g L xs x0 HL Hs Hg. eapply Rle_trans; [exact (trapz_error_lipschitz g L xs x0 HL Hs Hg)|].
  assert (0 <= L * @max_cell RFld (x0 :: xs) * (last xs x0 - x0)); [|lra].
  apply Rmult_le_pos; [apply Rmult_le_pos; [exact HL|apply max_cell_nonneg]|].
  inversion Hs as [|? ? _ H0]; subst. rewrite Forall_forall in H0.
  destruct (last_In R xs x0) as [E|E]; [lra|]. specialize (H0 _ E). lra.
Qed.

(* ================================================================ second-order quadrature error *)
(* bounded derivative => Lipschitz *)
Lemma lipschitz_of_bounded_derivative : forall (f f' : R -> R) (K a b : R),
  (forall x, a <= x <= b -> is_derive f x (f' x)) ->
  (forall x, a <= x <= b -> Rabs (f' x) <= K) ->
  lipschitz_on f K a b.
Proof.
  intros f f' K a b Hd Hb u v Hu Hv.
  destruct (MVT_gen f v u f') as [c [Hc E]].
  - intros x Hx. apply Hd. unfold Rmin, Rmax in Hx. destruct (Rle_dec v u); lra.
  - intros x Hx. apply continuity_pt_filterlim. apply (ex_derive_continuous f x). exists (f' x). apply Hd.
    unfold Rmin, Rmax in Hx. destruct (Rle_dec v u); lra.
  - rewrite E, Rabs_mult. apply Rmult_le_compat_r; [apply Rabs_pos|]. apply Hb.
    unfold Rmin, Rmax in Hc. destruct (Rle_dec v u); lra.
Qed.

Lemma trapz_cell_error_c2 : forall (g g' : R -> R) (K a b : R), 0 <= K -> a <= b ->
  (forall x, a <= x <= b -> is_derive g x (g' x)) ->
  lipschitz_on g' K a b ->
  Rabs (RInt g a b - (b - a) * (g b + g a) / 2) <= K * (b - a)^3 / 12.
Proof.
  intros g g' K a b HK Hab Hd HL.
  set (c := (a + b) / 2). set (d := g' c).
  set (q := fun t => (t - c) * (g' (clamp a b t) - d)).
  assert (Hc : a <= c <= b) by (unfold c; lra).
  assert (Cg : forall x, a <= x <= b -> continuous g x).
  { intros x Hx. apply (ex_derive_continuous g x). exists (g' x). apply Hd; exact Hx. }
  assert (Cq : forall x, continuous q x).
  { intro x. unfold q.
    apply (continuous_mult (K:=R_AbsRing) (fun t => t - c) (fun t => g' (clamp a b t) - d)).
    - apply (continuous_minus (V:=R_NormedModule) (fun t => t) (fun _ => c)); [apply continuous_id|apply continuous_const].
    - apply (continuous_minus (V:=R_NormedModule) (fun t => g' (clamp a b t)) (fun _ => d));
        [apply (lipschitz_clamped_continuous g' K a b HK Hab HL)|apply continuous_const]. }
  assert (Eg : ex_RInt g a b).
  { apply (ex_RInt_continuous (V:=R_CompleteNormedModule)). intros z Hz. rewrite Rmin_left, Rmax_right in Hz by lra. apply Cg; lra. }
  assert (Eq : ex_RInt q a b).
  { apply (ex_RInt_continuous (V:=R_CompleteNormedModule)). intros z _. apply Cq. }
  assert (HI : is_RInt (fun t => plus (g t) (q t)) a b ((b - a) * (g b + g a) / 2)).
  { replace ((b - a) * (g b + g a) / 2)
      with (minus ((fun t => (t - c) * g t - d * (t - c)^2 / 2) b) ((fun t => (t - c) * g t - d * (t - c)^2 / 2) a))
      by (unfold minus, plus, opp; simpl; unfold c; field).
    apply (is_RInt_derive (fun t => (t - c) * g t - d * (t - c)^2 / 2) (fun t => plus (g t) (q t))).
    - intros x Hx. rewrite Rmin_left, Rmax_right in Hx by lra.
      unfold q. rewrite clamp_id by lra. auto_derive.
      + exists (g' x); exact (Hd x Hx).
      + assert (E : Derive (fun x0 : R => g x0) x = g' x) by (apply is_derive_unique; exact (Hd x Hx)).
        rewrite E. change (plus (g x) ((x - c) * (g' x - d))) with (g x + (x - c) * (g' x - d)). field.
    - intros x Hx. rewrite Rmin_left, Rmax_right in Hx by lra.
      apply (continuous_plus (V:=R_NormedModule) g q); [apply Cg; lra|apply Cq]. }
  pose proof (is_RInt_unique (fun t => plus (g t) (q t)) _ _ _ HI) as HU.
  pose proof (RInt_plus (V:=R_CompleteNormedModule) g q a b Eg Eq) as HP.
  assert (HU' : RInt g a b + RInt q a b = (b - a) * (g b + g a) / 2) by (rewrite <- HU; symmetry; exact HP).
  replace (RInt g a b - (b - a) * (g b + g a) / 2) with (- RInt q a b) by lra.
  rewrite Rabs_Ropp.
  assert (HS : is_RInt (fun t => K * (t - c)^2) a b (K * (b - a)^3 / 12)).
  { replace (K * (b - a)^3 / 12)
      with (minus ((fun t => K * (t - c)^3 / 3) b) ((fun t => K * (t - c)^3 / 3) a))
      by (unfold minus, plus, opp; simpl; unfold c; field).
    apply (is_RInt_derive (fun t => K * (t - c)^3 / 3) (fun t => K * (t - c)^2)).
    - intros x _. auto_derive; [exact I|simpl; field].
    - intros x _. apply (ex_derive_continuous (fun t => K * (t - c)^2)). auto_derive. exact I. }
  assert (HSn : is_RInt (fun t => opp (K * (t - c)^2)) a b (opp (K * (b - a)^3 / 12))).
  { apply (is_RInt_opp (V:=R_NormedModule)). exact HS. }
  assert (Hq : forall t, a < t < b -> - (K * (t - c)^2) <= q t <= K * (t - c)^2).
  { intros t Ht. unfold q. rewrite clamp_id by lra.
    pose proof (HL t c ltac:(lra) Hc) as H. fold d in H.
    apply Rabs_le_between. rewrite Rabs_mult.
    replace (K * (t - c)^2) with (Rabs (t - c) * (K * Rabs (t - c))).
    - apply Rmult_le_compat_l; [apply Rabs_pos|exact H].
    - rewrite <- (pow2_abs (t - c)). ring. }
  apply Rabs_le_between. split.
  - replace (- (K * (b - a)^3 / 12)) with (RInt (fun t => opp (K * (t - c)^2)) a b) by (apply is_RInt_unique; exact HSn).
    apply RInt_le; [exact Hab|eexists; exact HSn|exact Eq|]. intros t Ht. apply (Hq t Ht).
  - replace (K * (b - a)^3 / 12) with (RInt (fun t => K * (t - c)^2) a b) by (apply is_RInt_unique; exact HS).
    apply RInt_le; [exact Hab|exact Eq|eexists; exact HS|]. intros t Ht. apply (Hq t Ht).
Qed.

Lemma derivable_ex_RInt : forall (g g' : R -> R) a b, a <= b ->
  (forall x, a <= x <= b -> is_derive g x (g' x)) -> ex_RInt g a b.
Proof.
  intros g g' a b Hab Hd. apply (ex_RInt_continuous (V:=R_CompleteNormedModule)). intros z Hz.
  rewrite Rmin_left, Rmax_right in Hz by lra. apply (ex_derive_continuous g z). exists (g' z). apply Hd. exact Hz.
Qed.

(* second-order bound: g differentiable with K-Lipschitz derivative (e.g. g C^2 with |g''| <= K) *)
Theorem trapz_error_c2 : forall (g g' : R -> R) K (xs : list R) x0,
  0 <= K -> StronglySorted Rle (x0 :: xs) ->
  (forall x, x0 <= x <= last xs x0 -> is_derive g x (g' x)) ->
  lipschitz_on g' K x0 (last xs x0) ->
  Rabs (RInt g x0 (last xs x0) - trapzf g (x0 :: xs))
    <= K * (@max_cell RFld (x0 :: xs))^2 * (last xs x0 - x0) / 12.
Proof.
  intros g g' K xs. induction xs as [|x1 r IH]; intros x0 HK Hs Hd Hg.
  - simpl last. rewrite RInt_point, trapzf_single. unfold zero; simpl. rewrite Rminus_0_r, Rabs_R0. lra.
  - inversion Hs as [|? ? Hs' H0]; subst. rewrite Forall_forall in H0.
    rewrite last_cons in *. set (xn := last r x1) in *.
    assert (H01 : x0 <= x1) by (apply H0; left; reflexivity).
    assert (H1n : x1 <= xn).
    { inversion Hs' as [|? ? _ H1]; subst. rewrite Forall_forall in H1.
      destruct (last_In R r x1) as [E|E]; [fold xn in E; lra|apply H1; exact E]. }
    assert (Hg0 : lipschitz_on g' K x0 x1) by (eapply lipschitz_on_sub; [| |exact Hg]; lra).
    assert (Hg1 : lipschitz_on g' K x1 xn) by (eapply lipschitz_on_sub; [| |exact Hg]; lra).
    assert (Hd0 : forall x, x0 <= x <= x1 -> is_derive g x (g' x)) by (intros x Hx; apply Hd; lra).
    assert (Hd1 : forall x, x1 <= x <= xn -> is_derive g x (g' x)) by (intros x Hx; apply Hd; lra).
    specialize (IH x1 HK Hs' Hd1 Hg1). fold xn in IH.
    pose proof (trapz_cell_error_c2 g g' K x0 x1 HK H01 Hd0 Hg0) as Hc.
    rewrite <- (RInt_Chasles g x0 x1 xn) by (eapply derivable_ex_RInt; eauto).
    rewrite trapzf_cons2, max_cell_cons2.
    change (plus (RInt g x0 x1) (RInt g x1 xn)) with (RInt g x0 x1 + RInt g x1 xn).
    set (h' := (@max_cell RFld (x1 :: r) : R)) in *. set (h := Rmax (x1 - x0) h').
    assert (Hh1 : x1 - x0 <= h) by apply Rmax_l. assert (Hh2 : h' <= h) by apply Rmax_r.
    assert (Hh' : 0 <= h') by apply max_cell_nonneg.
    replace (RInt g x0 x1 + RInt g x1 xn - ((x1 - x0) * (g x1 + g x0) / 2 + trapzf g (x1 :: r)))
      with ((RInt g x0 x1 - (x1 - x0) * (g x1 + g x0) / 2) + (RInt g x1 xn - trapzf g (x1 :: r))) by lra.
    eapply Rle_trans; [apply Rabs_triang|].
    assert (S1 : (x1 - x0)^2 <= h^2) by (apply pow_incr; lra).
    assert (S2 : h'^2 <= h^2) by (apply pow_incr; lra).
    assert (B1 : K * (x1 - x0) ^ 3 / 12 <= K * h^2 * (x1 - x0) / 12).
    { replace (K * (x1 - x0)^3 / 12) with (K * (x1 - x0)^2 * (x1 - x0) / 12) by (simpl; lra).
      assert (K * (x1 - x0)^2 * (x1 - x0) <= K * h^2 * (x1 - x0)); [|lra].
      apply Rmult_le_compat_r; [lra|]. apply Rmult_le_compat_l; [exact HK|exact S1]. }
    assert (B2 : K * h'^2 * (xn - x1) / 12 <= K * h^2 * (xn - x1) / 12).
    { assert (K * h'^2 * (xn - x1) <= K * h^2 * (xn - x1)); [|lra].
      apply Rmult_le_compat_r; [lra|]. apply Rmult_le_compat_l; [exact HK|exact S2]. }
    lra.
Qed.

(* ================================================================ what get_pred returns at a data point *)
Lemma strict_to_Rle : forall xs : list R, StronglySorted (@flt RFld) xs -> StronglySorted Rle xs.
Proof.
  induction 1 as [|x r Hr IH Hx]; constructor; [exact IH|].
  rewrite Forall_forall in *. intros y Hy. left. apply R_flt. apply Hx. exact Hy.
Qed.

Lemma firstn_S_shape : forall (xs : list R) k d, (k < length xs)%nat ->
  exists t, firstn (S k) xs = hd d xs :: t /\ last t (hd d xs) = nth k xs d.
Proof.
  induction xs as [|x0 r IH]; intros k d Hk; [simpl in Hk; lia|].
  destruct k as [|k].
  - exists []. split; reflexivity.
  - simpl in Hk. destruct (IH k d ltac:(lia)) as [t [Ht1 Ht2]].
    exists (firstn (S k) r). split; [reflexivity|].
    rewrite Ht1. rewrite last_cons. simpl hd. change (nth (S k) (x0 :: r) d) with (nth k r d). exact Ht2.
Qed.

Lemma In_firstn_incl : forall (A : Type) n (l : list A) y, In y (firstn n l) -> In y l.
Proof.
  intros A n. induction n as [|n IH]; intros l y H; [destruct H|].
  destruct l as [|x r]; [destruct H|]. simpl in H. destruct H as [<-|H]; [left; reflexivity|right; apply IH; exact H].
Qed.

Lemma StronglySorted_firstn : forall (A : Type) (P : A -> A -> Prop) n (l : list A),
  StronglySorted P l -> StronglySorted P (firstn n l).
Proof.
  intros A P n. induction n as [|n IH]; intros l H; [constructor|].
  destruct l as [|x r]; [constructor|]. inversion H as [|? ? Hr Hx]; subst. simpl.
  constructor; [apply IH; exact Hr|]. rewrite Forall_forall in *. intros y Hy. apply Hx.
  eapply In_firstn_incl. exact Hy.
Qed.

Lemma max_cell_firstn : forall n (xs : list R), @max_cell RFld (firstn n xs) <= @max_cell RFld xs.
Proof.
  induction n as [|n IH]; intro xs; [apply max_cell_nonneg|].
  destruct xs as [|x0 [|x1 r]]; [apply Rle_refl|simpl firstn; rewrite firstn_nil; apply Rle_refl|].
  destruct n as [|n].
  - apply max_cell_nonneg.
  - change (firstn (S (S n)) (x0 :: x1 :: r)) with (x0 :: x1 :: firstn n r).
    change (x1 :: firstn n r) with (firstn (S n) (x1 :: r)) at 1.
    rewrite (max_cell_cons2 x0 x1 r).
    change (x0 :: firstn (S n) (x1 :: r)) with (x0 :: x1 :: firstn n r).
    rewrite (max_cell_cons2 x0 x1 (firstn n r)).
    apply Rle_max_compat_l. apply (IH (x1 :: r)).
Qed.

Section GetPred.
Variable p : params RFld.
Hypothesis Hdelta : 0 < delta_z p.
Hypothesis Hnz : (1 <= min_nz p)%nat.

(* value returned (before log10) for datum i on a fresh or cleared instance:
   z_i times the trapezoid sum over exactly the grid cells between 1 and z_i *)
Theorem cumtrapz_at_mask : forall (zs : list R) (h2 : h2val RFld),
  zs <> [] -> (forall z, In z zs -> 1 <= z) ->
  exists xs out, grid p zs = Some xs /\
    snd (get_pred_dl p cache_empty zs h2) = Some out /\ length out = length zs /\
    forall i, (i < length zs)%nat ->
      exists k t, (k < length xs)%nat /\ firstn (S k) xs = 1 :: t /\ last t 1 = nth i zs 0 /\
        StronglySorted Rle (1 :: t) /\
        nth i out 0 = trapzf (integrand_fun h2) (1 :: t) * nth i zs 0.
Proof.
  intros zs h2 Hne Hz1.
  destruct (fresh_call_builds_from_argument (F:=RFld) R_total R_trans p zs h2 Hne) as [xs [m [Hx [Hm [_ Hout]]]]].
  destruct (mask_correct (F:=RFld) R_total R_trans p zs xs 0 Hx) as [m' [Hm' [Hlen Hnth]]].
  rewrite Hm in Hm'. injection Hm' as <-.
  pose proof (grid_sorted_nodup (F:=RFld) R_total R_trans p zs xs Hx) as Hs.
  pose proof (grid_starts_at_one p zs xs Hdelta Hnz Hz1 Hx) as Hhd.
  set (cum := cumtrapz xs (integrand_values h2 xs)) in *.
  destruct (bmul_same_length (F:=RFld) (@take_mask RFld 0 cum m) zs) as [out [Ho [Hol Hon]]].
  { rewrite take_mask_length. exact Hlen. }
  exists xs, out. split; [exact Hx|]. split; [rewrite Hout; exact Ho|]. split; [exact Hol|].
  intros i Hi. destruct (Hnth i Hi) as [Hk Ek]. apply R_feqv in Ek. set (k := nth i m 0%nat) in *.
  destruct (firstn_S_shape xs k 0 Hk) as [t [Ht1 Ht2]]. rewrite Hhd in Ht1, Ht2.
  exists k, t. split; [exact Hk|]. split; [exact Ht1|]. split; [rewrite Ht2; exact Ek|]. split.
  - rewrite <- Ht1. apply StronglySorted_firstn. apply strict_to_Rle. exact Hs.
  - rewrite (Hon 0 i Hi). change (fmul RFld) with Rmult. f_equal.
    rewrite (take_mask_nth (F:=RFld) 0 cum m i) by (rewrite Hlen; exact Hi). fold k. unfold cum.
    rewrite integrand_values_map. rewrite cumtrapz_nth; [|rewrite map_length; reflexivity|exact Hk].
    rewrite firstn_map_comm. unfold trapzf. rewrite <- Ht1. reflexivity.
Qed.

(* dL at datum i is z_i * T_i where T_i is within the first-order bound L*h*(z_i-1)/2 (g L-Lipschitz on [1,z_i])
   and within the second-order bound K*h^2*(z_i-1)/12 (g' K-Lipschitz on [1,z_i]) of the integral; h = largest grid cell *)
Theorem dL_error_bound : forall (zs : list R) (h2 : h2val RFld),
  zs <> [] -> (forall z, In z zs -> 1 <= z) ->
  exists xs out, grid p zs = Some xs /\
    snd (get_pred_dl p cache_empty zs h2) = Some out /\ length out = length zs /\
    forall i, (i < length zs)%nat ->
      exists Ti, nth i out 0 = Ti * nth i zs 0 /\
        (forall L, 0 <= L -> lipschitz_on (integrand_fun h2) L 1 (nth i zs 0) ->
           Rabs (RInt (integrand_fun h2) 1 (nth i zs 0) - Ti) <= L * @max_cell RFld xs * (nth i zs 0 - 1) / 2) /\
        (forall (g' : R -> R) K, 0 <= K ->
           (forall x, 1 <= x <= nth i zs 0 -> is_derive (integrand_fun h2) x (g' x)) ->
           lipschitz_on g' K 1 (nth i zs 0) ->
           Rabs (RInt (integrand_fun h2) 1 (nth i zs 0) - Ti) <= K * (@max_cell RFld xs)^2 * (nth i zs 0 - 1) / 12).
Proof.
  intros zs h2 Hne Hz.
  destruct (cumtrapz_at_mask zs h2 Hne Hz) as [xs [out [Hx [Ho [Hl Hi]]]]].
  exists xs, out. split; [exact Hx|]. split; [exact Ho|]. split; [exact Hl|].
  intros i Hlt. destruct (Hi i Hlt) as [k [t [Hk [Ht1 [Ht2 [Hs Hv]]]]]].
  exists (trapzf (integrand_fun h2) (1 :: t)). split; [exact Hv|].
  assert (Hzi : 1 <= nth i zs 0) by (apply Hz; apply nth_In; exact Hlt).
  assert (Hm : @max_cell RFld (1 :: t) <= @max_cell RFld xs) by (rewrite <- Ht1; apply max_cell_firstn).
  assert (Hm0 : 0 <= @max_cell RFld (1 :: t)) by apply max_cell_nonneg.
  rewrite <- Ht2. split.
  - intros L HL Hg. eapply Rle_trans; [apply trapz_error_lipschitz; [exact HL|exact Hs|exact Hg]|].
    assert (L * @max_cell RFld (1 :: t) * (last t 1 - 1) <= L * @max_cell RFld xs * (last t 1 - 1)); [|lra].
    apply Rmult_le_compat_r; [lra|]. apply Rmult_le_compat_l; [exact HL|exact Hm].
  - intros g' K HK Hd Hg. eapply Rle_trans; [apply (trapz_error_c2 _ g'); [exact HK|exact Hs|exact Hd|exact Hg]|].
    assert (S : (@max_cell RFld (1 :: t))^2 <= (@max_cell RFld xs)^2) by (apply pow_incr; split; [exact Hm0|exact Hm]).
    assert (K * (@max_cell RFld (1 :: t))^2 * (last t 1 - 1) <= K * (@max_cell RFld xs)^2 * (last t 1 - 1)); [|lra].
    apply Rmult_le_compat_r; [lra|]. apply Rmult_le_compat_l; [exact HK|exact S].
Qed.

End GetPred.

(* ================================================================ from dL to mu *)
Lemma ln_le_minus1 : forall x, 0 < x -> ln x <= x - 1.
Proof.
  intros x Hx. destruct (Req_dec (ln x) 0) as [E|E].
  - assert (x = 1) by (apply ln_inv; [exact Hx|lra|rewrite ln_1; exact E]). subst. rewrite ln_1. lra.
  - pose proof (exp_ineq1 (ln x) E) as H. rewrite exp_ln in H by exact Hx. lra.
Qed.

Lemma ln_diff_le : forall a b, 0 < b -> b <= a -> 0 <= ln a - ln b <= (a - b) / b.
Proof.
  intros a b Hb Hab. assert (Ha : 0 < a) by lra. split.
  - pose proof (ln_le b a Hb Hab). lra.
  - rewrite <- ln_div by assumption. eapply Rle_trans; [apply ln_le_minus1; apply Rdiv_lt_0_compat; assumption|].
    right. field. lra.
Qed.

Lemma ln_diff_abs : forall a b lo, 0 < lo -> lo <= a -> lo <= b -> Rabs (ln a - ln b) <= Rabs (a - b) / lo.
Proof.
  intros a b lo Hlo Ha Hb. destruct (Rle_dec b a) as [H|H].
  - destruct (ln_diff_le a b ltac:(lra) H) as [H1 H2]. rewrite !Rabs_pos_eq by lra.
    eapply Rle_trans; [exact H2|]. unfold Rdiv. apply Rmult_le_compat_l; [lra|].
    apply Rinv_le_contravar; lra.
  - assert (H' : a <= b) by lra. destruct (ln_diff_le b a ltac:(lra) H') as [H1 H2].
    rewrite (Rabs_left1 (ln a - ln b)) by lra. rewrite (Rabs_left1 (a - b)) by lra.
    eapply Rle_trans; [|apply Rmult_le_compat_l; [|apply Rinv_le_contravar; [exact Hlo|exact Ha]]]; [|lra].
    unfold Rdiv in H2. lra.
Qed.

(* mu computed from T*z (what the code returns) against mu from the defining integral I:
   5 log10(z*T) + c versus 5 log10(z*I) + c *)
Theorem mu_error_bound : forall c z I T eps,
  0 < z -> 0 <= eps -> eps < I -> Rabs (I - T) <= eps ->
  Rabs (mu_of c (T * z) - mu_of c (z * I)) <= 5 / ln 10 * (eps / (I - eps)).
Proof.
  intros c z I T eps Hz He HI HT. unfold mu_of, log10.
  assert (Hln10 : 0 < ln 10) by (rewrite <- ln_1; apply ln_increasing; lra).
  assert (HT' : I - eps <= T) by (apply Rabs_le_between in HT; lra).
  replace (5 * (ln (T * z) / ln 10) + c - (5 * (ln (z * I) / ln 10) + c))
    with (5 / ln 10 * (ln (T * z) - ln (z * I))) by (field; lra).
  rewrite Rabs_mult. rewrite (Rabs_pos_eq (5 / ln 10)) by (apply Rlt_le, Rdiv_lt_0_compat; lra).
  apply Rmult_le_compat_l; [apply Rlt_le, Rdiv_lt_0_compat; lra|].
  rewrite !ln_mult by lra. replace (ln T + ln z - (ln z + ln I)) with (ln T - ln I) by lra.
  eapply Rle_trans; [apply (ln_diff_abs T I (I - eps)); lra|].
  unfold Rdiv. apply Rmult_le_compat_r; [left; apply Rinv_0_lt_compat; lra|].
  rewrite Rabs_minus_sym. exact HT.
Qed.

(* ================================================================ analytically integrated path *)
Theorem integrated_path_exact : forall (Fa g : R -> R) z, 1 <= z ->
  (forall x, 1 <= x <= z -> is_derive Fa x (g x)) ->
  (forall x, 1 <= x <= z -> continuous g x) ->
  Fa z - Fa 1 = RInt g 1 z.
Proof.
  intros Fa g z Hz Hd Hc. symmetry. apply is_RInt_unique.
  change (Fa z - Fa 1) with (minus (Fa z) (Fa 1)).
  apply (is_RInt_derive Fa g); intros x Hx; rewrite Rmin_left, Rmax_right in Hx by exact Hz; [apply Hd|apply Hc]; exact Hx.
Qed.

Lemma map_nth_lt : forall (A B : Type) (f : A -> B) (l : list A) i (d : A) (d' : B), (i < length l)%nat ->
  nth i (map f l) d' = f (nth i l d).
Proof.
  intros A B f l. induction l as [|x r IH]; intros i d d' Hi; [simpl in Hi; lia|].
  destruct i as [|i]; simpl; [reflexivity|]. apply IH. simpl in Hi. lia.
Qed.

Theorem integrated_pred_nth : forall (Fa g : R -> R) (zs : list R) i, (i < length zs)%nat ->
  1 <= nth i zs 0 ->
  (forall x, 1 <= x <= nth i zs 0 -> is_derive Fa x (g x)) ->
  (forall x, 1 <= x <= nth i zs 0 -> continuous g x) ->
  nth i (@get_pred_dl_integrated RFld Fa zs) 0 = RInt g 1 (nth i zs 0) * nth i zs 0.
Proof.
  intros Fa g zs i Hi Hz Hd Hc. unfold get_pred_dl_integrated.
  etransitivity; [exact (map_nth_lt R R (fun z => fmul RFld (fsub RFld (Fa z) (Fa (f1 RFld))) z) zs i 0 0 Hi)|].
  change (fmul RFld) with Rmult. change (fsub RFld) with Rminus. change (f1 RFld) with 1.
  rewrite (integrated_path_exact Fa g (nth i zs 0) Hz Hd Hc). reflexivity.
Qed.

(* ================================================================ the property, numeric path *)
(* On a fresh (or cleared) instance, for data 1 <= z_i (any order, repeats allowed), g = 1/sqrt(H^2), I_i = RInt g 1 z_i and
   h = the largest cell of the grid built by the call:  the value returned for datum i is dL_i = T_i * z_i with
     |I_i - T_i| <= L*h*(z_i-1)/2        if g  is L-Lipschitz on [1,z_i],
     |I_i - T_i| <= K*h^2*(z_i-1)/12     if g' is K-Lipschitz on [1,z_i],
   and whenever |I_i - T_i| <= eps < I_i:  |5 log10(dL_i) + c - (5 log10(z_i * I_i) + c)| <= (5/ln 10) * eps / (I_i - eps). *)
Theorem mu_prediction_bound : forall (p : params RFld) (zs : list R) (h2 : h2val RFld) (c : R),
  0 < delta_z p -> (1 <= min_nz p)%nat ->
  zs <> [] -> (forall z, In z zs -> 1 <= z) ->
  exists xs out, grid p zs = Some xs /\
    snd (get_pred_dl p cache_empty zs h2) = Some out /\ length out = length zs /\
    forall i, (i < length zs)%nat ->
      let z := nth i zs 0 in
      let g := integrand_fun h2 in
      let I := RInt g 1 z in
      let h := @max_cell RFld xs in
      exists Ti, nth i out 0 = Ti * z /\
        (forall L, 0 <= L -> lipschitz_on g L 1 z -> Rabs (I - Ti) <= L * h * (z - 1) / 2) /\
        (forall (g' : R -> R) K, 0 <= K -> (forall x, 1 <= x <= z -> is_derive g x (g' x)) -> lipschitz_on g' K 1 z ->
           Rabs (I - Ti) <= K * h^2 * (z - 1) / 12) /\
        (forall eps, 0 <= eps -> eps < I -> Rabs (I - Ti) <= eps ->
           Rabs (mu_of c (nth i out 0) - mu_of c (z * I)) <= 5 / ln 10 * (eps / (I - eps))).
Proof.
  intros p zs h2 c Hd Hn Hne Hz.
  destruct (dL_error_bound p Hd Hn zs h2 Hne Hz) as [xs [out [Hx [Ho [Hl Hi]]]]].
  exists xs, out. split; [exact Hx|]. split; [exact Ho|]. split; [exact Hl|].
  intros i Hlt z g I h. destruct (Hi i Hlt) as [Ti [Hv [H1 H2]]].
  exists Ti. split; [exact Hv|]. split; [exact H1|]. split; [exact H2|].
  intros eps He HI Hb. rewrite Hv.
  assert (Hz1 : 1 <= z) by (apply Hz; apply nth_In; exact Hlt).
  apply mu_error_bound; [lra|exact He|exact HI|exact Hb].
Qed.

(* analytic path versus numeric path at datum i: the analytic value is exactly I_i * z_i, the numeric one T_i * z_i
   with T_i within both quadrature bounds of I_i *)
Theorem analytic_vs_numeric : forall (p : params RFld) (zs : list R) (hh : R -> R) (Fa : R -> R),
  0 < delta_z p -> (1 <= min_nz p)%nat ->
  zs <> [] -> (forall z, In z zs -> 1 <= z) ->
  exists xs out, grid p zs = Some xs /\
    snd (get_pred_dl p cache_empty zs (@H2vector RFld hh)) = Some out /\ length out = length zs /\
    forall i, (i < length zs)%nat ->
      let z := nth i zs 0 in
      let g := fun x => / sqrt (hh x) in
      let h := @max_cell RFld xs in
      (forall x, 1 <= x <= z -> is_derive Fa x (g x)) -> (forall x, 1 <= x <= z -> continuous g x) ->
      exists Ti, nth i out 0 = Ti * z /\
        nth i (@get_pred_dl_integrated RFld Fa zs) 0 = RInt g 1 z * z /\
        (forall L, 0 <= L -> lipschitz_on g L 1 z -> Rabs (RInt g 1 z - Ti) <= L * h * (z - 1) / 2) /\
        (forall (g' : R -> R) K, 0 <= K -> (forall x, 1 <= x <= z -> is_derive g x (g' x)) -> lipschitz_on g' K 1 z ->
           Rabs (RInt g 1 z - Ti) <= K * h^2 * (z - 1) / 12).
Proof.
  intros p zs hh Fa Hd Hn Hne Hz.
  destruct (dL_error_bound p Hd Hn zs (@H2vector RFld hh) Hne Hz) as [xs [out [Hx [Ho [Hl Hi]]]]].
  exists xs, out. split; [exact Hx|]. split; [exact Ho|]. split; [exact Hl|].
  intros i Hlt z g h HF Hc. destruct (Hi i Hlt) as [Ti [Hv [H1 H2]]].
  exists Ti. split; [exact Hv|]. split; [|split; [exact H1|exact H2]].
  apply (integrated_pred_nth Fa g zs i Hlt); [apply Hz; apply nth_In; exact Hlt|exact HF|exact Hc].
Qed.

(* ================================================================ transfer between instances *)
(* An order embedding that commutes with the operations maps the model over F to the model over G.
   Instantiated with Q2R below: the executable Q instance computes (the Q2R-preimage of) what the R instance,
   the subject of the analytic theorems, denotes -- for everything except 1/sqrt, which Q only approximates. *)
Section Embed.
Context {F G : Fld}.
Variable phi : car F -> car G.
Hypothesis phi_leb : forall x y, fleb G (phi x) (phi y) = fleb F x y.
Hypothesis phi_0 : phi (f0 F) = f0 G.
Hypothesis phi_1 : phi (f1 F) = f1 G.
Hypothesis phi_Z : forall z, phi (fofZ F z) = fofZ G z.
Hypothesis phi_add : forall x y, phi (fadd F x y) = fadd G (phi x) (phi y).
Hypothesis phi_sub : forall x y, phi (fsub F x y) = fsub G (phi x) (phi y).
Hypothesis phi_mul : forall x y, phi (fmul F x y) = fmul G (phi x) (phi y).
Hypothesis phi_div : forall x y, @feqb F y (f0 F) = false -> phi (fdiv F x y) = fdiv G (phi x) (phi y).
Hypothesis phi_ceil : forall x, fceil G (phi x) = fceil F x.
Hypothesis ofZ_pos : forall z, (0 < z)%Z -> @feqb F (fofZ F z) (f0 F) = false.

Lemma phi_feqb : forall x y, @feqb G (phi x) (phi y) = @feqb F x y.
Proof. intros. unfold feqb. rewrite !phi_leb. reflexivity. Qed.

Lemma insert_map : forall x l, map phi (insert x l) = insert (phi x) (map phi l).
Proof.
  intros x l. induction l as [|y r IH]; simpl; [reflexivity|].
  rewrite phi_leb. destruct (fleb F x y); simpl; [reflexivity|]. rewrite IH. reflexivity.
Qed.

Lemma isort_map : forall l, map phi (isort l) = isort (map phi l).
Proof. induction l as [|x r IH]; simpl; [reflexivity|]. rewrite insert_map, IH. reflexivity. Qed.

Lemma dedup_map : forall l, map phi (dedup l) = dedup (map phi l).
Proof.
  induction l as [|x r IH]; [reflexivity|]. destruct r as [|y r']; [reflexivity|].
  change (dedup (x :: y :: r')) with (if feqb x y then dedup (y :: r') else x :: dedup (y :: r')).
  change (dedup (map phi (x :: y :: r')))
    with (if feqb (phi x) (phi y) then dedup (map phi (y :: r')) else phi x :: dedup (map phi (y :: r'))).
  rewrite phi_feqb. destruct (feqb x y); [exact IH|].
  change (map phi (x :: dedup (y :: r'))) with (phi x :: map phi (dedup (y :: r'))). rewrite IH. reflexivity.
Qed.

Lemma unique_map : forall l, map phi (unique l) = unique (map phi l).
Proof. intro l. unfold unique. rewrite dedup_map, isort_map. reflexivity. Qed.

Lemma fold_fminb_map : forall r x, fold_left fminb (map phi r) (phi x) = phi (fold_left fminb r x).
Proof.
  induction r as [|y r IH]; intro x; [reflexivity|]. simpl.
  replace (fminb (phi x) (phi y)) with (phi (fminb x y)); [apply IH|].
  unfold fminb. rewrite phi_leb. destruct (fleb F x y); reflexivity.
Qed.

Lemma fold_fmaxb_map : forall r x, fold_left fmaxb (map phi r) (phi x) = phi (fold_left fmaxb r x).
Proof.
  induction r as [|y r IH]; intro x; [reflexivity|]. simpl.
  replace (fmaxb (phi x) (phi y)) with (phi (fmaxb x y)); [apply IH|].
  unfold fmaxb. rewrite phi_leb. destruct (fleb F x y); reflexivity.
Qed.

Lemma lmin_map : forall l, lmin (map phi l) = option_map phi (lmin l).
Proof. intros [|x r]; [reflexivity|]. simpl. rewrite fold_fminb_map. reflexivity. Qed.

Lemma lmax_map : forall l, lmax (map phi l) = option_map phi (lmax l).
Proof. intros [|x r]; [reflexivity|]. simpl. rewrite fold_fmaxb_map. reflexivity. Qed.

Lemma linspace_map : forall a b n, map phi (linspace a b n) = linspace (phi a) (phi b) n.
Proof.
  intros a b n. destruct n as [|[|m]]; [reflexivity|reflexivity|].
  unfold linspace. rewrite map_app, map_map. simpl (map phi [b]). f_equal.
  apply map_ext. intro i. rewrite phi_add, phi_mul, phi_Z, phi_div, phi_sub, phi_Z; [reflexivity|].
  apply ofZ_pos. lia.
Qed.

Lemma where_from_map : forall xs d i, where_from i (map phi xs) (phi d) = where_from i xs d.
Proof.
  induction xs as [|x r IH]; intros d i; [reflexivity|]. simpl. rewrite phi_feqb, !IH. reflexivity.
Qed.

Lemma mask_of_map : forall xs zs, mask_of (map phi xs) (map phi zs) = mask_of xs zs.
Proof.
  intros xs zs. unfold mask_of. rewrite map_map. f_equal. apply map_ext. intro d. apply where_from_map.
Qed.

Definition map_params (p : params F) : params G := mkParams (phi (delta_z p)) (min_nz p).

Lemma grid_map : forall p zs, @feqb F (delta_z p) (f0 F) = false ->
  grid (map_params p) (map phi zs) = option_map (map phi) (grid p zs).
Proof.
  intros p zs Hd. unfold grid. rewrite lmin_map, lmax_map.
  destruct (lmin zs) as [a|]; [|reflexivity]. destruct (lmax zs) as [b|]; [|reflexivity]. simpl.
  f_equal. unfold grid_of. rewrite unique_map, !map_app, !linspace_map. simpl.
  rewrite phi_1, !phi_add. unfold nx_of. simpl. rewrite <- phi_sub, <- phi_div by exact Hd. rewrite phi_ceil. reflexivity.
Qed.

Lemma cell_map : @feqb F (@f2 F) (f0 F) = false -> forall x0 x1 y0 y1,
  phi (cell x0 x1 y0 y1) = cell (phi x0) (phi x1) (phi y0) (phi y1).
Proof.
  intros H2 x0 x1 y0 y1. unfold cell. rewrite phi_div by exact H2. rewrite phi_mul, phi_sub, phi_add.
  unfold f2. rewrite phi_Z. reflexivity.
Qed.

Lemma cumtrapz_from_map : @feqb F (@f2 F) (f0 F) = false -> forall xs ys acc,
  map phi (cumtrapz_from acc xs ys) = cumtrapz_from (phi acc) (map phi xs) (map phi ys).
Proof.
  intros H2 xs. induction xs as [|x0 xr IH]; intros ys acc; [reflexivity|].
  destruct ys as [|y0 yr]; [reflexivity|]. destruct xr as [|x1 xr']; [reflexivity|].
  destruct yr as [|y1 yr']; [reflexivity|].
  change (cumtrapz_from acc (x0 :: x1 :: xr') (y0 :: y1 :: yr'))
    with (fadd F acc (cell x0 x1 y0 y1) :: cumtrapz_from (fadd F acc (cell x0 x1 y0 y1)) (x1 :: xr') (y1 :: yr')).
  change (cumtrapz_from (phi acc) (map phi (x0 :: x1 :: xr')) (map phi (y0 :: y1 :: yr')))
    with (fadd G (phi acc) (cell (phi x0) (phi x1) (phi y0) (phi y1))
          :: cumtrapz_from (fadd G (phi acc) (cell (phi x0) (phi x1) (phi y0) (phi y1))) (map phi (x1 :: xr')) (map phi (y1 :: yr'))).
  change (map phi (fadd F acc (cell x0 x1 y0 y1) :: cumtrapz_from (fadd F acc (cell x0 x1 y0 y1)) (x1 :: xr') (y1 :: yr')))
    with (phi (fadd F acc (cell x0 x1 y0 y1)) :: map phi (cumtrapz_from (fadd F acc (cell x0 x1 y0 y1)) (x1 :: xr') (y1 :: yr'))).
  rewrite IH, phi_add, cell_map by exact H2. reflexivity.
Qed.

Lemma cumtrapz_map : @feqb F (@f2 F) (f0 F) = false -> forall xs ys,
  map phi (cumtrapz xs ys) = cumtrapz (map phi xs) (map phi ys).
Proof.
  intros H2 xs ys. unfold cumtrapz. simpl map. rewrite cumtrapz_from_map by exact H2. rewrite phi_0. reflexivity.
Qed.

Lemma take_mask_map : forall d0 cum m, map phi (take_mask d0 cum m) = take_mask (phi d0) (map phi cum) m.
Proof.
  intros d0 cum m. unfold take_mask. rewrite map_map. apply map_ext. intro k. symmetry. apply map_nth.
Qed.

Lemma zipmul_map : forall a b, map phi (zipmul a b) = zipmul (map phi a) (map phi b).
Proof.
  induction a as [|x r IH]; intros [|y s]; try reflexivity. simpl. rewrite phi_mul, IH. reflexivity.
Qed.

Lemma bmul_map : forall dl zs, bmul (map phi dl) (map phi zs) = option_map (map phi) (bmul dl zs).
Proof.
  intros dl zs. unfold bmul. rewrite !map_length. destruct dl as [|d [|d' r]].
  - destruct zs as [|z [|z' s]]; reflexivity.
  - simpl. f_equal. rewrite !map_map. apply map_ext. intro z. rewrite phi_mul. reflexivity.
  - cbn [map]. destruct (Nat.eqb (length (d :: d' :: r)) (length zs)).
    + cbn [option_map]. f_equal. apply (eq_sym (zipmul_map (d :: d' :: r) zs)).
    + destruct zs as [|z [|z' s]]; try reflexivity. cbn [map option_map]. f_equal. f_equal; [symmetry; apply phi_mul|].
      f_equal; [symmetry; apply phi_mul|]. rewrite !map_map. apply map_ext. intro t. symmetry. apply phi_mul.
Qed.

End Embed.

(* ---------------------------------------------------------------- the embedding Q2R : QFld -> RFld *)
Lemma Q2R_leb : forall x y : Q, Rleb (Q2R x) (Q2R y) = Qleb x y.
Proof.
  intros x y. destruct (Qleb x y) eqn:E.
  - apply Rleb_true. apply Qle_Rle. apply Q_fle. exact E.
  - apply Rleb_false. apply Qlt_Rlt. apply Qnot_le_lt. intro H. apply Q_fle in H. unfold fle in H. simpl in H. congruence.
Qed.

Lemma Q2R_inject_Z : forall z, Q2R (inject_Z z) = IZR z.
Proof. intro z. unfold Q2R. simpl. rewrite Rinv_1. ring. Qed.

Lemma Q2R_red : forall q, Q2R (Qred q) = Q2R q.
Proof. intro q. apply Qeq_eqR. apply Qred_correct. Qed.

Lemma Q_feqb_false : forall y : Q, @feqb QFld y (f0 QFld) = false -> ~ (y == 0)%Q.
Proof.
  intros y H E. assert (T : @feqv QFld y (f0 QFld)) by (apply Q_feqv; exact E). unfold feqv in T. congruence.
Qed.

Lemma Q_ofZ_pos : forall z, (0 < z)%Z -> @feqb QFld (fofZ QFld z) (f0 QFld) = false.
Proof.
  intros z Hz. destruct (@feqb QFld (fofZ QFld z) (f0 QFld)) eqn:E; [|reflexivity]. exfalso.
  assert (T : (inject_Z z == 0)%Q) by (apply Q_feqv; exact E). unfold Qeq in T. simpl in T. lia.
Qed.

Lemma Rceil_Q2R : forall q, Rceil (Q2R q) = Qceiling q.
Proof.
  intro q. unfold Rceil, Qceiling. rewrite <- Q2R_opp. set (r := (- q)%Q).
  assert (H : up (Q2R r) = (Qfloor r + 1)%Z).
  { symmetry. apply tech_up.
    - rewrite <- Q2R_inject_Z. apply Qlt_Rlt. apply Qlt_floor.
    - rewrite plus_IZR. rewrite <- Q2R_inject_Z. apply Rplus_le_compat_r. apply Qle_Rle. apply Qfloor_le. }
  rewrite H. lia.
Qed.

Lemma Q2R_fadd : forall x y : Q, Q2R (fadd QFld x y) = fadd RFld (Q2R x) (Q2R y).
Proof. intros x y. change (Q2R (Qred (x + y)) = Q2R x + Q2R y). rewrite Q2R_red. apply Q2R_plus. Qed.
Lemma Q2R_fsub : forall x y : Q, Q2R (fsub QFld x y) = fsub RFld (Q2R x) (Q2R y).
Proof. intros x y. change (Q2R (Qred (x - y)) = Q2R x - Q2R y). rewrite Q2R_red. apply Q2R_minus. Qed.
Lemma Q2R_fmul : forall x y : Q, Q2R (fmul QFld x y) = fmul RFld (Q2R x) (Q2R y).
Proof. intros x y. change (Q2R (Qred (x * y)) = Q2R x * Q2R y). rewrite Q2R_red. apply Q2R_mult. Qed.
Lemma Q2R_fdiv : forall x y : Q, @feqb QFld y (f0 QFld) = false -> Q2R (fdiv QFld x y) = fdiv RFld (Q2R x) (Q2R y).
Proof.
  intros x y Hy. change (Q2R (Qred (x / y)) = Q2R x / Q2R y). rewrite Q2R_red. apply Q2R_div. apply Q_feqb_false. exact Hy.
Qed.

Definition Q2Rp (p : params QFld) : params RFld := @mkParams RFld (Q2R (delta_z p)) (min_nz p).

Theorem grid_Q2R : forall (p : params QFld) (zs : list Q), ~ (delta_z p == 0)%Q ->
  @grid RFld (Q2Rp p) (map Q2R zs) = option_map (map Q2R) (@grid QFld p zs).
Proof.
  intros p zs Hd.
  apply (grid_map (F:=QFld) (G:=RFld) Q2R).
  - exact Q2R_leb.
  - unfold Q2R; simpl; lra.
  - apply Q2R_inject_Z.
  - exact Q2R_fadd.
  - exact Q2R_fsub.
  - exact Q2R_fmul.
  - exact Q2R_fdiv.
  - apply Rceil_Q2R.
  - apply Q_ofZ_pos.
  - destruct (@feqb QFld (delta_z p) (f0 QFld)) eqn:E; [|reflexivity]. exfalso. apply Hd. apply Q_feqv. exact E.
Qed.

Theorem mask_Q2R : forall (xs zs : list Q), @mask_of RFld (map Q2R xs) (map Q2R zs) = @mask_of QFld xs zs.
Proof. intros. apply (mask_of_map (F:=QFld) (G:=RFld) Q2R). exact Q2R_leb. Qed.

Theorem cumtrapz_Q2R : forall (xs ys : list Q),
  map Q2R (@cumtrapz QFld xs ys) = @cumtrapz RFld (map Q2R xs) (map Q2R ys).
Proof.
  intros. apply (cumtrapz_map (F:=QFld) (G:=RFld) Q2R).
  - unfold Q2R; simpl; lra.
  - apply Q2R_inject_Z.
  - exact Q2R_fadd.
  - exact Q2R_fsub.
  - exact Q2R_fmul.
  - exact Q2R_fdiv.
  - apply (Q_ofZ_pos 2). lia.
Qed.

Theorem take_bmul_Q2R : forall (cum : list Q) m (zs : list Q),
  @bmul RFld (@take_mask RFld 0 (map Q2R cum) m) (map Q2R zs)
  = option_map (map Q2R) (@bmul QFld (@take_mask QFld 0%Q cum m) zs).
Proof.
  intros cum m zs. replace 0 with (Q2R 0%Q) by (unfold Q2R; simpl; lra).
  rewrite <- (take_mask_map (F:=QFld) (G:=RFld) Q2R).
  apply (bmul_map (F:=QFld) (G:=RFld) Q2R). exact Q2R_fmul.
Qed.
