(* Proofs about Model/Fisher.v (convert_params of esr/fitting/test_all_Fisher.py). *)
From Coq Require Import QArith Qround ZArith List Bool Lia Permutation Arith.
From Coq Require Import Reals Qreals Lra.
From ESRV Require Import Model.Fisher.
Import ListNotations.
Close Scope R_scope.
Close Scope Q_scope.
Open Scope nat_scope.

(* ================================================================== list facts *)
Definition mask_of (D : list nat) (s n : nat) : list bool := map (fun i => memn i D) (seq s n).

Lemma zero_mask_length : forall m th, length m = length th -> length (zero_mask m th) = length th.
Proof.
  intros m th H. unfold zero_mask. rewrite map_length, combine_length. lia.
Qed.

Lemma zero_at_mask_gen : forall D th s,
  map (fun p : nat * Q => if memn (fst p) D then 0%Q else snd p) (combine (seq s (length th)) th)
  = zero_mask (mask_of D s (length th)) th.
Proof.
  intros D th. induction th as [|t th IH]; intros s; simpl; [reflexivity|].
  unfold zero_mask, mask_of in *. simpl. f_equal. apply IH.
Qed.

Lemma zero_at_mask : forall D th, zero_at D th = zero_mask (mask_of D 0 (length th)) th.
Proof. intros. unfold zero_at, enum. apply zero_at_mask_gen. Qed.

Lemma clear_at_mask_gen : forall D n s,
  map (fun p : nat * bool => if memn (fst p) D then false else snd p) (combine (seq s n) (repeat true n))
  = map negb (mask_of D s n).
Proof.
  intros D n. induction n as [|n IH]; intros s; simpl; [reflexivity|].
  unfold mask_of in *. simpl. rewrite IH. destruct (memn s D); reflexivity.
Qed.

Lemma clear_at_mask : forall D n, clear_at D (repeat true n) = map negb (mask_of D 0 n).
Proof. intros. unfold clear_at, enum. rewrite repeat_length. apply clear_at_mask_gen. Qed.

Lemma mask_of_length : forall D s n, length (mask_of D s n) = n.
Proof. intros. unfold mask_of. now rewrite map_length, seq_length. Qed.

(* indices produced from a mask, with offset *)
Definition idx_from (s : nat) (m : list bool) : list nat := map fst (filter snd (combine (seq s (length m)) m)).

Lemma idx_of_from : forall m, idx_of m = idx_from 0 m.
Proof. reflexivity. Qed.

Lemma idx_from_cons : forall s b m,
  idx_from s (b :: m) = if b then s :: idx_from (S s) m else idx_from (S s) m.
Proof. intros. unfold idx_from. simpl. destruct b; reflexivity. Qed.

Lemma idx_from_bounds : forall m s i, In i (idx_from s m) -> s <= i < s + length m.
Proof.
  induction m as [|b m IH]; intros s i H.
  - inversion H.
  - rewrite idx_from_cons in H. simpl. destruct b.
    + destruct H as [H|H]; [lia|]. apply IH in H. lia.
    + apply IH in H. lia.
Qed.

Lemma memn_true : forall i D, memn i D = true <-> In i D.
Proof.
  intros. unfold memn. rewrite existsb_exists. split.
  - intros [x [Hx He]]. apply Nat.eqb_eq in He. now subst.
  - intros H. exists i. split; [assumption|apply Nat.eqb_refl].
Qed.

Lemma memn_false : forall i D, memn i D = false <-> ~ In i D.
Proof.
  intros. rewrite <- memn_true. destruct (memn i D); split; congruence.
Qed.

Lemma mask_of_ext : forall D D' s n,
  (forall i, s <= i < s + n -> memn i D = memn i D') -> mask_of D s n = mask_of D' s n.
Proof.
  intros. unfold mask_of. apply map_ext_in. intros i Hi. apply in_seq in Hi. now apply H.
Qed.

Lemma mask_of_idx_from : forall m s, mask_of (idx_from s m) s (length m) = m.
Proof.
  induction m as [|b m IH]; intros s; [reflexivity|].
  simpl length. unfold mask_of. simpl seq. simpl map. fold (mask_of (idx_from s (b :: m)) (S s) (length m)).
  f_equal.
  - rewrite idx_from_cons. destruct b.
    + simpl. now rewrite Nat.eqb_refl.
    + apply memn_false. intros H. apply idx_from_bounds in H. lia.
  - transitivity (mask_of (idx_from (S s) m) (S s) (length m)); [|apply IH]. apply mask_of_ext. intros i Hi.
    rewrite idx_from_cons. destruct b; [|reflexivity].
    simpl. destruct (Nat.eqb_spec i s); [lia|reflexivity].
Qed.

Lemma mask_of_idx_of : forall m, mask_of (idx_of m) 0 (length m) = m.
Proof. intros. rewrite idx_of_from. apply mask_of_idx_from. Qed.

Lemma idx_from_length : forall m s, length (idx_from s m) = count m.
Proof.
  induction m as [|b m IH]; intros s; [reflexivity|].
  rewrite idx_from_cons. unfold count in *. simpl. destruct b; simpl; rewrite IH; reflexivity.
Qed.

Lemma idx_from_NoDup : forall m s, NoDup (idx_from s m).
Proof.
  induction m as [|b m IH]; intros s.
  - constructor.
  - rewrite idx_from_cons. destruct b; [|apply IH].
    constructor; [|apply IH]. intros H. apply idx_from_bounds in H. lia.
Qed.

Lemma filter_length_le : forall {A} (f : A -> bool) l, length (filter f l) <= length l.
Proof. intros A f l. induction l as [|x l IH]; simpl; [lia|]. destruct (f x); simpl; lia. Qed.

Lemma count_le_length : forall m, count m <= length m.
Proof. intros. unfold count. apply filter_length_le. Qed.

Lemma count_all : forall m, count m = length m -> m = repeat true (length m).
Proof.
  induction m as [|b m IH]; intros H; [reflexivity|].
  unfold count in *. simpl in *. destruct b; simpl in *.
  - f_equal. apply IH. lia.
  - pose proof (filter_length_le (fun b : bool => b) m). lia.
Qed.

Lemma existsb_id_count : forall m, existsb (fun b : bool => b) m = false -> m = repeat false (length m).
Proof.
  induction m as [|b m IH]; intros H; [reflexivity|].
  simpl in *. destruct b; simpl in *; [discriminate|]. f_equal. now apply IH.
Qed.

Lemma select_all : forall {A} (l : list A), select (repeat true (length l)) l = l.
Proof.
  intros A l. unfold select. induction l as [|x l IH]; [reflexivity|]. simpl. f_equal. apply IH.
Qed.

Lemma zero_mask_none : forall th, zero_mask (repeat false (length th)) th = th.
Proof.
  induction th as [|t th IH]; [reflexivity|]. unfold zero_mask in *. simpl. f_equal. apply IH.
Qed.

Lemma zero_mask_all : forall th, zero_mask (repeat true (length th)) th = repeat 0%Q (length th).
Proof.
  induction th as [|t th IH]; [reflexivity|]. unfold zero_mask in *. simpl. f_equal. apply IH.
Qed.

Lemma map_negb_repeat : forall b n, map negb (repeat b n) = repeat (negb b) n.
Proof. intros. induction n; simpl; congruence. Qed.

Lemma map_negb_invol : forall m, map negb (map negb m) = m.
Proof. induction m as [|b m IH]; simpl; [reflexivity|]. rewrite negb_involutive. now f_equal. Qed.

(* the kept entries are untouched by the zeroing of the others *)
Lemma select_zero_mask : forall kept th,
  select kept (zero_mask (map negb kept) th) = select kept th.
Proof.
  induction kept as [|b kept IH]; intros th; [reflexivity|].
  destruct th as [|t th]; [reflexivity|].
  unfold select, zero_mask in *. simpl. destruct b; simpl; [f_equal|]; apply IH.
Qed.

Lemma select_combine : forall {A B} kept (l1 : list A) (l2 : list B),
  combine (select kept l1) (select kept l2) = select kept (combine l1 l2).
Proof.
  intros A B. induction kept as [|b kept IH]; intros l1 l2; [reflexivity|].
  destruct l1 as [|x l1]; [reflexivity|]. destruct l2 as [|y l2].
  - unfold select. simpl. destruct b; simpl.
    + destruct (map snd (filter fst (combine kept l1))); reflexivity.
    + destruct (map snd (filter fst (combine kept l1))); reflexivity.
  - unfold select in *. simpl. destruct b; simpl; [f_equal|]; apply IH.
Qed.

Lemma select_length : forall {A} kept (l : list A), length kept = length l -> length (select kept l) = count kept.
Proof.
  intros A. induction kept as [|b kept IH]; intros l H; [reflexivity|].
  destruct l as [|x l]; [discriminate|]. simpl in H.
  unfold select, count in *. simpl. destruct b; simpl; rewrite IH; auto.
Qed.

Lemma count_negb : forall m, count (map negb m) + count m = length m.
Proof.
  induction m as [|b m IH]; [reflexivity|]. unfold count in *. simpl. destruct b; simpl; lia.
Qed.

(* |D| = number of set bits of its mask, for duplicate-free in-range D *)
Lemma count_mask_of : forall D n, NoDup D -> (forall i, In i D -> i < n) -> count (mask_of D 0 n) = length D.
Proof.
  intros D n ND HB. unfold count, mask_of.
  assert (E : length (filter (fun b : bool => b) (map (fun i => memn i D) (seq 0 n)))
              = length (filter (fun i => memn i D) (seq 0 n))).
  { generalize (seq 0 n). intros l. induction l as [|x l IH]; [reflexivity|].
    simpl. destruct (memn x D); simpl; now rewrite IH. }
  rewrite E. apply Permutation_length. apply NoDup_Permutation.
  - apply NoDup_filter, seq_NoDup.
  - assumption.
  - intros i. rewrite filter_In, memn_true, in_seq. split; [tauto|]. intros H. split; [|assumption].
    apply HB in H. lia.
Qed.

(* ================================================================== combinations *)
Inductive sublist {A} : list A -> list A -> Prop :=
| sub_nil : forall l, sublist [] l
| sub_take : forall x l1 l2, sublist l1 l2 -> sublist (x :: l1) (x :: l2)
| sub_skip : forall x l1 l2, sublist l1 l2 -> sublist l1 (x :: l2).

Lemma sublist_incl : forall {A} (l1 l2 : list A), sublist l1 l2 -> incl l1 l2.
Proof.
  intros A l1 l2 H. induction H; intros y Hy.
  - inversion Hy.
  - destruct Hy as [->|Hy]; [now left|right; now apply IHsublist].
  - right. now apply IHsublist.
Qed.

Lemma sublist_NoDup : forall {A} (l1 l2 : list A), sublist l1 l2 -> NoDup l2 -> NoDup l1.
Proof.
  intros A l1 l2 H. induction H; intros ND.
  - constructor.
  - inversion ND; subst. constructor; [|auto]. intros Hin. apply (sublist_incl _ _ H) in Hin. contradiction.
  - inversion ND; subst. auto.
Qed.

Lemma sublist_length : forall {A} (l1 l2 : list A), sublist l1 l2 -> length l1 <= length l2.
Proof. intros A l1 l2 H. induction H; simpl; lia. Qed.

(* soundness and completeness of [combs]: exactly the sublists of length r *)
Lemma combs_spec : forall {A} (l : list A) r D, In D (combs l r) <-> (sublist D l /\ length D = r).
Proof.
  intros A l. induction l as [|x l IH]; intros r D.
  - simpl. destruct r; simpl.
    + split.
      * intros [<-|[]]. split; [constructor|reflexivity].
      * intros [_ H]. destruct D; [now left|discriminate].
    + split; [tauto|]. intros [H HL]. inversion H; subst. discriminate.
  - simpl. destruct r.
    + simpl. split.
      * intros [<-|[]]. split; [constructor|reflexivity].
      * intros [_ H]. destruct D; [now left|discriminate].
    + rewrite in_app_iff, in_map_iff. split.
      * intros [[D' [<- HD']]|H].
        -- apply IH in HD'. destruct HD' as [HS HL]. split; [now constructor|simpl; lia].
        -- apply IH in H. destruct H as [HS HL]. split; [now constructor|assumption].
      * intros [HS HL]. inversion HS; subst.
        -- discriminate.
        -- left. exists l1. split; [reflexivity|]. apply IH. simpl in HL. split; [assumption|lia].
        -- right. apply IH. split; assumption.
Qed.

Lemma combs_too_big : forall {A} (l : list A) r, length l < r -> combs l r = [].
Proof.
  intros A l. induction l as [|x l IH]; intros r H; destruct r; simpl in *; try lia; [reflexivity|].
  rewrite (IH r), (IH (S r)) by lia. reflexivity.
Qed.

(* ================================================================== the subset search *)
Definition subsets_in_order (C : list nat) : list (list nat) :=
  concat (map (combs C) (rev (seq 1 (length C - 1)))).

Definition fin_at (fop : list Q -> xq) (th : list Q) (D : list nat) : bool := isfin (fop (zero_at D th)).

Definition st_of (fop : list Q -> xq) (th : list Q) (D : list nat) : sstate :=
  mkSS (zero_at D th) (fop (zero_at D th)) (Some D).

Lemma find_app : forall {A} (p : A -> bool) l1 l2,
  find p (l1 ++ l2) = match find p l1 with Some x => Some x | None => find p l2 end.
Proof. intros A p l1 l2. induction l1 as [|x l1 IH]; simpl; [reflexivity|]. destruct (p x); auto. Qed.

Lemma inner_spec : forall fop th cs st, isfin (s_nll st) = false ->
  match find (fin_at fop th) cs with
  | Some D => inner fop th cs st = st_of fop th D
  | None => isfin (s_nll (inner fop th cs st)) = false
  end.
Proof.
  intros fop th cs. induction cs as [|D cs IH]; intros st Hst; simpl; [assumption|].
  unfold fin_at at 1. destruct (isfin (fop (zero_at D th))) eqn:E; [reflexivity|].
  apply IH. exact E.
Qed.

Lemma outer_spec : forall fop th C rs st, isfin (s_nll st) = false ->
  match find (fin_at fop th) (concat (map (combs C) rs)) with
  | Some D => outer fop th C rs st = st_of fop th D
  | None => isfin (s_nll (outer fop th C rs st)) = false
  end.
Proof.
  intros fop th C rs. induction rs as [|r rs IH]; intros st Hst; simpl; [assumption|].
  rewrite find_app. pose proof (inner_spec fop th (combs C r) st Hst) as HI.
  destruct (find (fin_at fop th) (combs C r)) as [D|] eqn:EF.
  - rewrite HI. simpl. apply find_some in EF. destruct EF as [_ EF]. unfold fin_at in EF. rewrite EF. reflexivity.
  - rewrite HI. apply IH. exact HI.
Qed.

Lemma search_spec : forall fop th C st, isfin (s_nll st) = false ->
  match find (fin_at fop th) (subsets_in_order C) with
  | Some D => search fop th C st = st_of fop th D
  | None => isfin (s_nll (search fop th C st)) = false
  end.
Proof. intros. unfold search, subsets_in_order. now apply outer_spec. Qed.

(* what the candidates of the search are: exactly the sublists D of C with 1 <= |D| < |C| *)
Lemma subsets_in_order_spec : forall C D,
  In D (subsets_in_order C) <-> (sublist D C /\ 1 <= length D < length C).
Proof.
  intros C D. unfold subsets_in_order. rewrite in_concat. split.
  - intros [l [Hl HD]]. apply in_map_iff in Hl. destruct Hl as [r [<- Hr]].
    apply in_rev, in_seq in Hr. apply combs_spec in HD. destruct HD as [HS HL]. split; [assumption|lia].
  - intros [HS HL]. exists (combs C (length D)). split.
    + apply in_map_iff. exists (length D). split; [reflexivity|]. apply -> in_rev. apply in_seq. lia.
    + apply combs_spec. split; [assumption|reflexivity].
Qed.

(* ... in order of decreasing size: every strictly larger candidate was tried before and is not finite *)
Lemma rev_seq_S : forall k, rev (seq 1 (S k)) = S k :: rev (seq 1 k).
Proof. intros. rewrite seq_S, rev_app_distr. reflexivity. Qed.

Lemma find_decreasing : forall {A} (p : list A -> bool) (C : list A) k D,
  find p (concat (map (combs C) (rev (seq 1 k)))) = Some D ->
  forall D', length D < length D' <= k -> sublist D' C -> p D' = false.
Proof.
  intros A p C k. induction k as [|k IH]; intros D HF D' HL HS; [lia|].
  rewrite rev_seq_S in HF. simpl in HF. rewrite find_app in HF.
  destruct (find p (combs C (S k))) as [D0|] eqn:E.
  - inversion HF; subst. apply find_some in E. destruct E as [E _].
    apply combs_spec in E. lia.
  - destruct (Nat.eq_dec (length D') (S k)) as [Eq|Ne].
    + eapply find_none in E; [exact E|]. apply combs_spec. split; assumption.
    + eapply IH; eauto. lia.
Qed.

Lemma larger_subsets_not_finite : forall fop th C D D',
  find (fin_at fop th) (subsets_in_order C) = Some D ->
  sublist D' C -> length D < length D' < length C -> fin_at fop th D' = false.
Proof.
  intros fop th C D D' HF HS HL. unfold subsets_in_order in HF.
  eapply find_decreasing; eauto. lia.
Qed.

(* ... and among candidates of the same size, in itertools.combinations order *)
Lemma find_first : forall {A} (p : A -> bool) l x, find p l = Some x ->
  exists pre post, l = pre ++ x :: post /\ p x = true /\ forall y, In y pre -> p y = false.
Proof.
  intros A p l. induction l as [|a l IH]; intros x H; simpl in H; [discriminate|].
  destruct (p a) eqn:E.
  - inversion H; subst. exists [], l. repeat split; auto. intros y [].
  - destruct (IH x H) as [pre [post [-> [Hx Hpre]]]]. exists (a :: pre), post. repeat split; auto.
    intros y [<-|Hy]; auto.
Qed.

(* ================================================================== validity tests *)
Definition posfin (a : xq) : Prop := exists q, a = Fin q /\ (0 < q)%Q.
Definition good (I : list xq) : Prop := Forall posfin I.

Lemma Qlt_b_true : forall a b, Qlt_b a b = true <-> (a < b)%Q.
Proof.
  intros. unfold Qlt_b. rewrite negb_true_iff. split.
  - intros H. apply Qnot_le_lt. intros HL. apply Qle_bool_iff in HL. congruence.
  - intros H. destruct (Qle_bool b a) eqn:E; [|reflexivity]. apply Qle_bool_iff in E.
    exfalso. eapply Qlt_not_le; eauto.
Qed.

Lemma Qlt_b_false : forall a b, Qlt_b a b = false <-> (b <= a)%Q.
Proof.
  intros. unfold Qlt_b. rewrite negb_false_iff. apply Qle_bool_iff.
Qed.

Lemma posfin_tests : forall a, posfin a -> le0 a = false /\ isnan a = false /\ isinf a = false /\ gt0 a = true /\ isfin a = true.
Proof.
  intros a [q [-> Hq]]. simpl. repeat split; try reflexivity.
  - destruct (Qle_bool q 0) eqn:E; [|reflexivity]. apply Qle_bool_iff in E. exfalso. eapply Qlt_not_le; eauto.
  - now apply Qlt_b_true.
Qed.

Lemma not_bad_first_good : forall I, bad_first I = false <-> good I.
Proof.
  intros I. unfold bad_first, good. split.
  - intros H. apply orb_false_iff in H. destruct H as [H H3]. apply orb_false_iff in H. destruct H as [H1 H2].
    apply Forall_forall. intros a Ha.
    assert (E1 : le0 a = false).
    { destruct (le0 a) eqn:E; [|reflexivity]. assert (existsb le0 I = true) by (apply existsb_exists; eauto). congruence. }
    assert (E2 : isnan a = false).
    { destruct (isnan a) eqn:E; [|reflexivity]. assert (existsb isnan I = true) by (apply existsb_exists; eauto). congruence. }
    assert (E3 : isinf a = false).
    { destruct (isinf a) eqn:E; [|reflexivity]. assert (existsb isinf I = true) by (apply existsb_exists; eauto). congruence. }
    destruct a as [q| | |]; simpl in *; try discriminate.
    exists q. split; [reflexivity|]. apply Qnot_le_lt. intros HL. apply Qle_bool_iff in HL. congruence.
  - intros H. rewrite Forall_forall in H.
    assert (forall f, (forall a, posfin a -> f a = false) -> existsb f I = false).
    { intros f Hf. destruct (existsb f I) eqn:E; [|reflexivity]. apply existsb_exists in E.
      destruct E as [a [Ha Hfa]]. rewrite (Hf a (H a Ha)) in Hfa. discriminate. }
    rewrite !H0; try reflexivity; intros a Ha; apply posfin_tests in Ha; tauto.
Qed.

Lemma good_not_bad_second : forall I, good I -> bad_second I = false.
Proof.
  intros I H. apply not_bad_first_good in H. unfold bad_first, bad_second in *.
  apply orb_false_iff in H. tauto.
Qed.

(* a non-positive (finite or -inf) or NaN entry fails the second test *)
Definition nonpos_or_nan (a : xq) : Prop := a = NaN \/ a = NInf \/ exists q, a = Fin q /\ (q <= 0)%Q.

Lemma bad_second_iff : forall I, bad_second I = true <-> exists a, In a I /\ nonpos_or_nan a.
Proof.
  intros I. unfold bad_second. rewrite orb_true_iff, !existsb_exists. split.
  - intros [[a [Ha H]]|[a [Ha H]]]; exists a; split; try assumption.
    + destruct a as [q| | |]; simpl in H; try discriminate.
      * right. right. exists q. split; [reflexivity|]. now apply Qle_bool_iff.
      * right. now left.
    + destruct a; simpl in H; try discriminate. now left.
  - intros [a [Ha [->|[->|[q [-> Hq]]]]]].
    + right. exists NaN. split; [assumption|reflexivity].
    + left. exists NInf. split; [assumption|reflexivity].
    + left. exists (Fin q). split; [assumption|]. simpl. now apply Qle_bool_iff.
Qed.

Lemma ge1_negb_lt1 : forall th I, good I ->
  map2 ge1 th I = map negb (map2 lt1 th I).
Proof.
  intros th I H. revert th. induction H as [|a I Ha HI IH]; intros th.
  - destruct th; reflexivity.
  - destruct th as [|t th]; [reflexivity|]. unfold map2 in *. simpl. f_equal; [|apply IH].
    destruct Ha as [q [-> Hq]]. simpl. apply Qlt_b_true in Hq. rewrite Hq. simpl.
    unfold Qlt_b. rewrite negb_involutive. reflexivity.
Qed.

Lemma map2_length : forall {A B C} (f : A -> B -> C) l1 l2, length l1 = length l2 -> length (map2 f l1 l2) = length l1.
Proof. intros. unfold map2. rewrite map_length, combine_length. lia. Qed.

(* ================================================================== specification of [decide] *)
(* The set of parameters that end up dropped (None = nothing is dropped). *)
Definition dropped_set (th : list Q) (I : list xq) (fop : list Q -> xq) : option (list nat) :=
  let m := map2 lt1 th I in
  if negb (existsb (fun b : bool => b) m) then None
  else if fin_at fop th (idx_of m) then Some (idx_of m)
  else find (fin_at fop th) (subsets_in_order (idx_of m)).

Definition result_for (maxp : nat) (th : list Q) (I : list xq) (nll : xq) (fop : list Q -> xq)
                      (d : option (list nat)) : outcome :=
  let n := length th in
  match d with
  | None => Ret (mkRes (pad maxp th) nll (repeat true n) (Codelen (Z.of_nat n) (combine I th)))
  | Some D => finish maxp th (zero_at D th) I (fop (zero_at D th))
                     (Z.of_nat n - Z.of_nat (length D)) (clear_at D (repeat true n))
  end.

Theorem decide_spec : forall maxp th I nll fop,
  length I = length th -> good I ->
  decide maxp th I nll fop = result_for maxp th I nll fop (dropped_set th I fop).
Proof.
  intros maxp th I nll fop HL HG. unfold decide, dropped_set.
  rewrite (good_not_bad_second I HG).
  set (m := map2 lt1 th I).
  assert (Hm : length m = length th) by (unfold m; apply map2_length; auto).
  destruct (negb (existsb (fun b : bool => b) m)) eqn:Ecand; [reflexivity|].
  assert (Hz : zero_mask m th = zero_at (idx_of m) th).
  { rewrite zero_at_mask, <- Hm, mask_of_idx_of. reflexivity. }
  rewrite Hz. unfold fin_at at 1.
  destruct (isfin (fop (zero_at (idx_of m) th))) eqn:Efin.
  - unfold result_for. f_equal.
    + rewrite idx_of_from, idx_from_length. reflexivity.
    + rewrite (ge1_negb_lt1 th I HG). fold m. rewrite clear_at_mask, <- Hm, mask_of_idx_of. reflexivity.
  - pose proof (search_spec fop th (idx_of m) (mkSS (zero_at (idx_of m) th) (fop (zero_at (idx_of m) th)) None) Efin) as HS.
    destruct (find (fin_at fop th) (subsets_in_order (idx_of m))) as [D|] eqn:EF.
    + rewrite HS. apply find_some in EF. destruct EF as [_ EF]. unfold fin_at in EF.
      unfold st_of. simpl. rewrite EF. reflexivity.
    + rewrite HS. unfold result_for, finish.
      assert (Hn : 0 < length th).
      { destruct th; simpl in *; [|lia]. destruct m; [discriminate|discriminate]. }
      destruct (Z.of_nat (length th) <? 0)%Z eqn:E1; [apply Z.ltb_lt in E1; lia|].
      destruct (Z.of_nat (length th) =? 0)%Z eqn:E2; [apply Z.eqb_eq in E2; lia|].
      rewrite map_negb_repeat. simpl negb. rewrite zero_mask_none.
      rewrite (select_all th). rewrite <- HL. rewrite (select_all I). reflexivity.
Qed.

(* ---------------------------------------------------------------- pointwise views *)
Lemma nth_zero_at_gen : forall D th s i,
  nth i (map (fun p : nat * Q => if memn (fst p) D then 0%Q else snd p) (combine (seq s (length th)) th)) 0%Q
  = if memn (s + i) D then 0%Q else nth i th 0%Q.
Proof.
  intros D th. induction th as [|t th IH]; intros s i.
  - simpl. destruct i; destruct (memn _ D); reflexivity.
  - destruct i as [|i]; simpl.
    + rewrite Nat.add_0_r. reflexivity.
    + rewrite IH. replace (S s + i) with (s + S i) by lia. reflexivity.
Qed.

Lemma nth_zero_at : forall D th i, nth i (zero_at D th) 0%Q = if memn i D then 0%Q else nth i th 0%Q.
Proof. intros. unfold zero_at, enum. now rewrite nth_zero_at_gen. Qed.

Lemma nth_clear_at_gen : forall D n s i, i < n ->
  nth i (map (fun p : nat * bool => if memn (fst p) D then false else snd p) (combine (seq s n) (repeat true n))) true
  = negb (memn (s + i) D).
Proof.
  intros D n. induction n as [|n IH]; intros s i Hi; [lia|].
  destruct i as [|i]; simpl.
  - rewrite Nat.add_0_r. destruct (memn s D); reflexivity.
  - rewrite IH by lia. replace (S s + i) with (s + S i) by lia. reflexivity.
Qed.

Lemma nth_kept : forall D n i, i < n -> nth i (clear_at D (repeat true n)) true = negb (memn i D).
Proof. intros. unfold clear_at, enum. rewrite repeat_length. now rewrite nth_clear_at_gen. Qed.

Lemma zero_at_length : forall D th, length (zero_at D th) = length th.
Proof. intros. unfold zero_at, enum. rewrite map_length, combine_length, seq_length. lia. Qed.

Lemma zero_at_nil : forall th, zero_at [] th = th.
Proof.
  intros. rewrite zero_at_mask. unfold mask_of. simpl.
  replace (map (fun _ : nat => false) (seq 0 (length th))) with (repeat false (length th)).
  - apply zero_mask_none.
  - generalize 0. induction (length th); intros s; simpl; [reflexivity|]. f_equal. apply IHn.
Qed.

Lemma clear_at_nil : forall n, clear_at [] (repeat true n) = repeat true n.
Proof.
  intros. rewrite clear_at_mask. unfold mask_of. simpl.
  generalize 0. induction n; intros s; simpl; [reflexivity|]. f_equal. apply IHn.
Qed.

Lemma nth_pad : forall maxp l i, nth i (pad maxp l) 0%Q = nth i l 0%Q.
Proof.
  intros. unfold pad. destruct (Nat.lt_ge_cases i (length l)).
  - now rewrite app_nth1.
  - rewrite app_nth2 by assumption. rewrite (nth_overflow l) by assumption.
    generalize (maxp - length l) (i - length l). intros a b. revert b. induction a; intros b; destruct b; simpl; auto.
Qed.

Lemma pad_length : forall maxp l, length l <= maxp -> length (pad maxp l) = maxp.
Proof. intros. unfold pad. rewrite app_length, repeat_length. lia. Qed.

Lemma firstn_pad : forall maxp l, firstn (length l) (pad maxp l) = l.
Proof.
  intros. unfold pad. rewrite firstn_app, Nat.sub_diag, firstn_all. simpl. apply app_nil_r.
Qed.

(* ---------------------------------------------------------------- [finish] *)
Definition kept_of (D : list nat) (n : nat) : list bool := clear_at D (repeat true n).

Lemma kept_of_count : forall D n, NoDup D -> (forall i, In i D -> i < n) -> count (kept_of D n) = n - length D.
Proof.
  intros D n ND HB. unfold kept_of. rewrite clear_at_mask.
  pose proof (count_negb (mask_of D 0 n)) as H. rewrite mask_of_length, count_mask_of in H by assumption. lia.
Qed.

Lemma dropped_le : forall D n, NoDup D -> (forall i, In i D -> i < n) -> length D <= n.
Proof.
  intros D n ND HB. rewrite <- (count_mask_of D n ND HB).
  pose proof (count_le_length (mask_of D 0 n)). now rewrite mask_of_length in H.
Qed.

Lemma select_none : forall {A} n (l : list A), select (repeat false n) l = [].
Proof. intros A n. induction n; intros l; [reflexivity|]. destruct l; [reflexivity|]. unfold select in *. simpl. apply IHn. Qed.

Lemma finish_spec : forall maxp th I v D,
  let n := length th in
  length I = n -> n <= maxp -> NoDup D -> (forall i, In i D -> i < n) ->
  finish maxp th (zero_at D th) I v (Z.of_nat n - Z.of_nat (length D)) (kept_of D n)
  = Ret (mkRes (pad maxp (zero_at D th)) v (kept_of D n)
               (Codelen (Z.of_nat (n - length D)) (select (kept_of D n) (combine I th)))).
Proof.
  intros maxp th I v D n HL Hmax ND HB.
  pose proof (dropped_le D n ND HB) as HD.
  unfold finish.
  destruct (Z.of_nat n - Z.of_nat (length D) <? 0)%Z eqn:E1; [apply Z.ltb_lt in E1; lia|].
  assert (HK : map negb (kept_of D n) = mask_of D 0 n).
  { unfold kept_of. rewrite clear_at_mask. apply map_negb_invol. }
  destruct (Z.of_nat n - Z.of_nat (length D) =? 0)%Z eqn:E2.
  - apply Z.eqb_eq in E2. assert (HDn : length D = n) by lia.
    assert (HM : mask_of D 0 n = repeat true n).
    { pose proof (count_all (mask_of D 0 n)) as H. rewrite mask_of_length in H. apply H.
      rewrite count_mask_of; auto. }
    assert (HKf : kept_of D n = repeat false n).
    { unfold kept_of. rewrite clear_at_mask, HM. apply map_negb_repeat. }
    rewrite HKf, select_none. rewrite HDn, Nat.sub_diag.
    rewrite zero_at_mask. fold n. rewrite HM. unfold n at 2. rewrite zero_mask_all.
    unfold pad. rewrite repeat_length. fold n. rewrite <- repeat_app.
    replace (n + (maxp - n)) with maxp by lia. reflexivity.
  - apply Z.eqb_neq in E2. rewrite HK. rewrite <- zero_at_mask.
    replace (Z.of_nat n - Z.of_nat (length D))%Z with (Z.of_nat (n - length D)) by lia.
    rewrite select_combine.
    replace (select (kept_of D n) (combine I (zero_at D th))) with (select (kept_of D n) (combine I th)); [reflexivity|].
    rewrite <- !select_combine. f_equal.
    rewrite (zero_at_mask D th). fold n. rewrite <- HK. symmetry. apply select_zero_mask.
Qed.

(* ---------------------------------------------------------------- well-formedness of the dropped set *)
Lemma idx_of_NoDup : forall m, NoDup (idx_of m).
Proof. intros. rewrite idx_of_from. apply idx_from_NoDup. Qed.
Lemma idx_of_bound : forall m i, In i (idx_of m) -> i < length m.
Proof. intros m i H. rewrite idx_of_from in H. apply idx_from_bounds in H. lia. Qed.

Lemma In_idx_of : forall m i, In i (idx_of m) <-> (i < length m /\ nth i m false = true).
Proof.
  intros m i. rewrite <- memn_true.
  destruct (Nat.lt_ge_cases i (length m)) as [Hi|Hi].
  - pose proof (mask_of_idx_of m) as HM. apply (f_equal (fun l => nth i l false)) in HM.
    unfold mask_of in HM.
    rewrite (nth_indep _ false (memn (length m) (idx_of m))) in HM by (rewrite map_length, seq_length; exact Hi).
    rewrite (map_nth (fun j => memn j (idx_of m))) in HM. rewrite seq_nth in HM by assumption. simpl in HM.
    rewrite HM. tauto.
  - split; [|lia]. intros H. apply memn_true, idx_of_bound in H. lia.
Qed.

Lemma dropped_set_wf : forall th I fop D, length I = length th ->
  dropped_set th I fop = Some D ->
  let C := idx_of (map2 lt1 th I) in
  sublist D C /\ 1 <= length D /\ NoDup D /\ (forall i, In i D -> i < length th).
Proof.
  intros th I fop D HL H C. unfold dropped_set in H. fold C in H.
  assert (Hm : length (map2 lt1 th I) = length th) by (apply map2_length; auto).
  assert (HsubOK : forall D0, sublist D0 C -> NoDup D0 /\ (forall i, In i D0 -> i < length th)).
  { intros D0 HS. split.
    - eapply sublist_NoDup; eauto. apply idx_of_NoDup.
    - intros i Hi. apply (sublist_incl _ _ HS) in Hi. apply idx_of_bound in Hi. lia. }
  destruct (negb (existsb (fun b : bool => b) (map2 lt1 th I))) eqn:Ecand; [discriminate|].
  destruct (fin_at fop th C) eqn:Efin.
  - inversion H; subst D.
    assert (HSC : sublist C C).
    { clear. induction C; constructor; auto. }
    split; [assumption|]. split; [|now apply HsubOK].
    apply negb_false_iff, existsb_exists in Ecand. destruct Ecand as [b [Hb ->]].
    apply In_nth with (d := false) in Hb. destruct Hb as [i [Hi Hn]].
    assert (In i C) by (apply In_idx_of; split; assumption).
    destruct C; [contradiction|simpl; lia].
  - apply find_some in H. destruct H as [H _]. apply subsets_in_order_spec in H.
    destruct H as [HS HLn]. split; [assumption|]. split; [lia|]. now apply HsubOK.
Qed.

(* ================================================================== the result of [decide], in one equation *)
Definition dropped_list (th : list Q) (I : list xq) (fop : list Q -> xq) : list nat :=
  match dropped_set th I fop with Some D => D | None => [] end.

Definition nll_for (th : list Q) (I : list xq) (nll : xq) (fop : list Q -> xq) : xq :=
  match dropped_set th I fop with Some D => fop (zero_at D th) | None => nll end.

Theorem decide_result : forall maxp th I nll fop,
  let n := length th in
  let D := dropped_list th I fop in
  length I = n -> n <= maxp -> good I ->
  decide maxp th I nll fop =
  Ret (mkRes (pad maxp (zero_at D th)) (nll_for th I nll fop) (kept_of D n)
             (Codelen (Z.of_nat (n - length D)) (select (kept_of D n) (combine I th)))).
Proof.
  intros maxp th I nll fop n D HL Hmax HG.
  rewrite decide_spec by assumption. unfold D, dropped_list, nll_for.
  destruct (dropped_set th I fop) as [D0|] eqn:ED.
  - destruct (dropped_set_wf th I fop D0 HL ED) as [_ [_ [ND HB]]].
    unfold result_for. fold n. apply finish_spec; assumption.
  - unfold result_for, kept_of. fold n. rewrite zero_at_nil, clear_at_nil. simpl length. rewrite Nat.sub_0_r.
    unfold n. rewrite <- HL at 3. rewrite <- (combine_length I th) at 1.
    assert (E : length (combine I th) = length th) by (rewrite combine_length; lia).
    rewrite <- E. rewrite select_all. reflexivity.
Qed.
